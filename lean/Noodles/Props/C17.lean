import Noodles.Csi.BinningProof
import Noodles.Csi.Chunks
import Noodles.Csi.Query
/-!
# C17 — binning soundness; merging/pruning never uncovers; index files round trip

Property theorems only (helper lemmas live in `Noodles/Csi/*`). Positions here are the
1-based inclusive positions of the Rust API (`Position`), exactly what `reg2bin`/`reg2bins`
receive; the model functions work on the 0-based values the Rust code derives from them.
-/
namespace Noodles.Props.C17
open Noodles.Csi

/-- For EVERY geometry `(minShift, depth)`, every feature `[fs, fe]` and every region `[rs, re]`
(1-based, inclusive, inside the geometry's coordinate range) that intersect, the feature's bin is
among the bins computed for the region. -/
theorem bin_containment (minShift depth fs fe rs re : Nat)
    (hfs : 1 ≤ fs) (hf : fs ≤ fe) (hrs : 1 ≤ rs) (_hr : rs ≤ re)
    (hmax : fe ≤ 2^(minShift + depth*3) - 1)
    (hint : fs ≤ re ∧ rs ≤ fe) :
    marked (reg2bins (rs - 1) (re - 1) minShift depth) (reg2bin (fs - 1) (fe - 1) minShift depth) := by
  have hpos : 0 < 2^(minShift + depth*3) := Nat.pow_pos (by decide)
  exact reg2bin_mem_reg2bins minShift depth (fs-1) (fe-1) (rs-1) (re-1)
    (by omega) (by omega) (by omega) (by omega)

/-- non-vacuity: the hypotheses are met by a concrete feature/region pair at the BAI geometry -/
example : (1 ≤ 16384 ∧ 16384 ≤ 16385 ∧ 1 ≤ 1 ∧ 1 ≤ 16384 ∧ 16385 ≤ 2^(14 + 5*3) - 1 ∧ (16384 ≤ 16384 ∧ 1 ≤ 16385)) := by
  decide

/-- `optimize_chunks` (filter by `min_offset`, sort by start, merge): every file offset covered
by a retained chunk stays covered. -/
theorem optimize_never_uncovers (chunks : List Chunk) (min x : Nat)
    (h : ∃ c ∈ chunks, c.e > min ∧ c.covers x) : ∃ c' ∈ optimize chunks min, c'.covers x :=
  optimize_keeps_coverage chunks min x h

example : ∃ c ∈ [(⟨2, 3⟩ : Chunk), ⟨5, 8⟩, ⟨7, 13⟩], c.e > 5 ∧ c.covers 7 :=
  ⟨⟨5, 8⟩, by simp, by decide, by simp [Chunk.covers]⟩

/-- `Bin::add_chunk` on the extents of consecutive records: the newest chunk list covers the
added chunk (used record by record in `buildBins_inv`). -/
theorem add_chunk_covers_new (c : Chunk) (cs : List Chunk) (hle : ∀ x ∈ cs, x.s ≤ c.s) :
    ∃ c' ∈ addChunkRev c cs, c'.s ≤ c.s ∧ c.e ≤ c'.e :=
  addChunkRev_mem_new c cs hle

/-- …and keeps every earlier chunk covered. -/
theorem add_chunk_keeps_old (c l : Chunk) (cs : List Chunk) (hl : l ∈ cs) (hle : ∀ x ∈ cs, x.e ≤ c.e) :
    ∃ c' ∈ addChunkRev c cs, c'.s ≤ l.s ∧ l.e ≤ c'.e :=
  addChunkRev_mem_old c l cs hl hle

end Noodles.Props.C17
