import Noodles.Props.C17Reach
import Noodles.Csi.BinningProof
import Noodles.Csi.Chunks
import Noodles.Csi.Query
import Noodles.Index.LinearProof
import Noodles.Index.CsiProof
import Noodles.Index.TextProof
/-!
# C17 — binning soundness; merging/pruning never uncovers; index files round trip

Property theorems only (helper lemmas live in `Noodles/Csi/*`). Positions here are the
1-based inclusive positions of the Rust API (`Position`), exactly what `reg2bin`/`reg2bins`
receive; the model functions work on the 0-based values the Rust code derives from them.
-/
namespace Noodles.Props.C17
open Noodles.Csi

/-- For EVERY geometry `(minShift, depth)`, every feature `[fs, fe]` and every region `[rs, re]`
(1-based, inclusive, inside the geometry's coordinate range) that intersect, the feature's bin is
among the bins computed for the region. -/
theorem bin_containment (minShift depth fs fe rs re : Nat)
    (hfs : 1 ≤ fs) (hf : fs ≤ fe) (hrs : 1 ≤ rs) (_hr : rs ≤ re)
    (hmax : fe ≤ 2^(minShift + depth*3) - 1)
    (hint : fs ≤ re ∧ rs ≤ fe) :
    marked (reg2bins (rs - 1) (re - 1) minShift depth) (reg2bin (fs - 1) (fe - 1) minShift depth) := by
  have hpos : 0 < 2^(minShift + depth*3) := Nat.pow_pos (by decide)
  exact reg2bin_mem_reg2bins minShift depth (fs-1) (fe-1) (rs-1) (re-1)
    (by omega) (by omega) (by omega) (by omega)

/-- non-vacuity: the hypotheses are met by a concrete feature/region pair at the BAI geometry -/
example : (1 ≤ 16384 ∧ 16384 ≤ 16385 ∧ 1 ≤ 1 ∧ 1 ≤ 16384 ∧ 16385 ≤ 2^(14 + 5*3) - 1 ∧ (16384 ≤ 16384 ∧ 1 ≤ 16385)) := by
  decide

/-- `optimize_chunks` (filter by `min_offset`, sort by start, merge): every file offset covered
by a retained chunk stays covered. -/
theorem optimize_never_uncovers (chunks : List Chunk) (min x : Nat)
    (h : ∃ c ∈ chunks, c.e > min ∧ c.covers x) : ∃ c' ∈ optimize chunks min, c'.covers x :=
  optimize_keeps_coverage chunks min x h

example : ∃ c ∈ [(⟨2, 3⟩ : Chunk), ⟨5, 8⟩, ⟨7, 13⟩], c.e > 5 ∧ c.covers 7 :=
  ⟨⟨5, 8⟩, by simp, by decide, by simp [Chunk.covers]⟩

/-- `Bin::add_chunk` on the extents of consecutive records: the newest chunk list covers the
added chunk (used record by record in `buildBins_inv`). -/
theorem add_chunk_covers_new (c : Chunk) (cs : List Chunk) (hle : ∀ x ∈ cs, x.s ≤ c.s) :
    ∃ c' ∈ addChunkRev c cs, c'.s ≤ c.s ∧ c.e ≤ c'.e :=
  addChunkRev_mem_new c cs hle

/-- …and keeps every earlier chunk covered. -/
theorem add_chunk_keeps_old (c l : Chunk) (cs : List Chunk) (hl : l ∈ cs) (hle : ∀ x ∈ cs, x.e ≤ c.e) :
    ∃ c' ∈ addChunkRev c cs, c'.s ≤ l.s ∧ l.e ≤ c'.e :=
  addChunkRev_mem_old c l cs hl hle

/-!
## Index files: write, then read

Models: `Noodles/Index/{Common,Linear,Csi,Text}.lean` (byte-level transcriptions of the noodles
writers and readers); helper lemmas: `Noodles/Index/*Proof.lean`. `….WF` collects the
representability conditions of a format (counts fit the count field, bin ids are `u32`, distinct
and not the pseudo-bin's id, offsets are `u64`, names NUL-free, …); `write… = some (enc…)`
says the guards the Rust writer checks (`u32::try_from`, `i32::try_from`, …) all pass.

BAI, tabix and CSI end with an OPTIONAL `n_no_coor`, which the readers detect by hitting the
end of the stream. With the count present the files are self-delimiting (`∀ rest`); without it
the index must be the last thing in the stream — 8 further bytes WOULD be taken for the count
(see the `example` after `bai_roundtrip`).
-/
open Noodles.Index
open Noodles.Codec (Bytes)

/-- gzi: what is written is read back; the file is self-delimiting but the reader insists on
end of file after it (`unexpected trailing data`). -/
theorem gzi_roundtrip (ix : Gzi) (h : ix.WF) :
    readGzi (encGzi ix) = .ok ix ∧
    (∀ rest, decGziBody (encGzi ix ++ rest) = .ok (ix, rest)) ∧
    (∀ rest, rest ≠ [] → readGzi (encGzi ix ++ rest) = .error .invalid) :=
  ⟨readGzi_rt ix h, decGziBody_rt ix h, readGzi_trailing ix h⟩

example : Gzi.WF [(4668, 21294), (23810, 86529)] := by
  simp [Gzi.WF]

/-- BAI: every representable index (any bins in any order, chunks, the metadata pseudo-bin
37450 with its two pseudo-chunks, linear offsets, unplaced count) is accepted by the writer and
read back EQUAL. -/
theorem bai_roundtrip (ix : Bai) (h : ix.WF) :
    writeBai ix = some (encBai ix) ∧
    readBai (encBai ix) = .ok (ix, []) ∧
    (ix.unplaced.isSome → ∀ rest, readBai (encBai ix ++ rest) = .ok (ix, rest)) := by
  refine ⟨by simp [writeBai, guardBai_of_WF ix h], ?_, ?_⟩
  · cases hu : ix.unplaced with
    | none => exact readBai_rt_none ix h hu
    | some n => simpa using readBai_rt_some ix h n hu []
  · intro hs rest
    cases hu : ix.unplaced with
    | none => rw [hu] at hs; cases hs
    | some n => exact readBai_rt_some ix h n hu rest

/-- non-vacuity: bins out of order, an empty bin, metadata, linear offsets, unplaced count -/
example : Bai.WF ⟨[⟨[(4681, [⟨10, 20⟩, ⟨30, 40⟩]), (0, [])], some ⟨1, 2, 3, 4⟩, [10, 30]⟩,
    ⟨[], none, []⟩], some 5⟩ := by
  simp [Bai.WF, RefLin.WF, Bins.WF, Chunk.WF, metaWF, Meta.WF, unplacedWF, countBound,
    metaIdLinear]
  rintro a b (⟨rfl, rfl⟩ | ⟨rfl, rfl⟩) <;> simp

/-- why `∀ rest` needs the count: without `n_no_coor`, eight following bytes are read as one -/
example : readBai (encBai ⟨[], none⟩ ++ Noodles.Codec.le 8 7) = .ok (⟨[], some 7⟩, []) := by
  rfl

/-- tabix: as BAI, plus the header — format, column indices, comment prefix, skip count and the
sequence names, which may contain ANY bytes except NUL. -/
theorem tabix_roundtrip (ix : Tabix) (h : ix.WF) :
    writeTabix ix = some (encTabix ix) ∧
    readTabix (encTabix ix) = .ok (ix, []) ∧
    (ix.unplaced.isSome → ∀ rest, readTabix (encTabix ix ++ rest) = .ok (ix, rest)) := by
  refine ⟨by simp [writeTabix, guardTabix_of_WF ix h], ?_, ?_⟩
  · cases hu : ix.unplaced with
    | none => exact readTabix_rt_none ix h hu
    | some n => simpa using readTabix_rt_some ix h n hu []
  · intro hs rest
    cases hu : ix.unplaced with
    | none => rw [hu] at hs; cases hs
    | some n => exact readTabix_rt_some ix h n hu rest

/-- the header alone, self-delimiting, names with arbitrary non-NUL bytes -/
theorem tabix_header_roundtrip (h : Header) (hw : h.WF) (rest : Bytes) :
    decHeader (encHeader h ++ rest) = .ok (h, rest) :=
  decHeader_rt h hw rest

/-- The names block must be there in full (/repo `fix:` 125ecd7): `l_nm` followed by fewer than `l_nm`
bytes before the end of the input is an error — `UnexpectedEof`, or the parse error of what is there —
whatever those bytes are. (Before that commit `le 4 4 ++ [97, 0]` was read as the single name `a`.) The
writer's block has exactly `l_nm` bytes: `tabix_header_roundtrip`. -/
theorem names_block_cut_short_rejected (l : Nat) (hl : l < 2^31) (bs : Bytes) (h : bs.length < l) :
    ∃ e, decNames (Noodles.Codec.le 4 l ++ bs) = .error e :=
  decNames_short l hl bs h

example : decNames (Noodles.Codec.le 4 4 ++ [97, 0]) = .error .eof := by rfl
example : decNames (Noodles.Codec.le 4 4 ++ [97, 0, 98, 0, 7]) = .ok ([[97], [98]], [7]) := by rfl

/-- non-vacuity: a BED-style header whose names hold bytes 0xFF, 0x01, TAB, LF and an empty name -/
example : Header.WF ⟨.generic true, 0, 1, some 2, 35, 7, [[255, 1], [9, 10, 200], []]⟩ := by
  simp [Header.WF, Format.specialized, namesBytes]

/-- CSI, bytes: the writer accepts every representable index and the reader returns
`rewriteCsi ix` — the same index except that each reference's `index` map now holds, for every
bin, the loffset the writer computed (`first_record_start_position`). -/
theorem csi_roundtrip (ix : CsiIndex) (h : ix.WF) :
    writeCsi ix = some (encCsi ix) ∧
    readCsi (encCsi ix) = .ok (rewriteCsi ix, []) ∧
    (ix.unplaced.isSome → ∀ rest, readCsi (encCsi ix ++ rest) = .ok (rewriteCsi ix, rest)) := by
  refine ⟨by simp [writeCsi, guardCsi_of_WF ix h], ?_, ?_⟩
  · cases hu : ix.unplaced with
    | none => exact readCsi_rt_none ix h hu
    | some n => simpa using readCsi_rt_some ix h n hu []
  · intro hs rest
    cases hu : ix.unplaced with
    | none => rw [hu] at hs; cases hs
    | some n => exact readCsi_rt_some ix h n hu rest

/-- CSI `aux` block with padding (/repo `fix:` 8288cb5): a file whose `l_aux` is larger than the tabix
header in the block — the header followed by `pad`, ANY bytes — is read exactly as the file with the
exact `l_aux` and no padding that the writer makes: all `l_aux` bytes are consumed, `n_ref` and
everything after it are read from behind the padding. (Before that commit `n_ref` was read from `pad`.) -/
theorem csi_aux_padding_skipped (ms d : Nat) (hms : ms < 256) (hd : d < 256) (hdr : Header) (hw : hdr.WF)
    (pad rest : Bytes) (hl : (encHeader hdr).length + pad.length < 2^31) :
    readCsi (csiMagic ++ (Noodles.Codec.le 4 ms ++ (Noodles.Codec.le 4 d ++
      (Noodles.Codec.le 4 ((encHeader hdr).length + pad.length) ++ (encHeader hdr ++ (pad ++ rest)))))) =
    readCsi (csiMagic ++ (Noodles.Codec.le 4 ms ++ (Noodles.Codec.le 4 d ++ (encAux (some hdr) ++ rest)))) := by
  unfold readCsi wrapInvalid decCsi
  rw [decMagic_rt, decMagic_rt]
  simp only
  rw [decU8_rt ms hms, decU8_rt ms hms]
  simp only
  rw [decU8_rt d hd, decU8_rt d hd]
  simp only
  rw [decAux_padded hdr hw pad rest hl,
    decAux_rt (some hdr) (fun h e => by cases e; exact ⟨hw, by omega⟩) rest]

/-- CSI, answers: what is read back differs from what was written ONLY in the bins' loffsets
(geometry, header, unplaced count, and per reference the bins with their chunks and the
metadata are equal), and for every reference whose `index` has one loffset per bin (what the
indexer and the reader both establish) every `min_offset` and therefore every query answer is
the same. The loffset rewrite takes a minimum over a chain of ancestors; the candidates of
`min_offset` (bins whose interval ends at or after the query start) are closed under ancestors,
so the minimum over the candidates cannot move. -/
theorem csi_roundtrip_same_answers (ix : CsiIndex) (h : ix.WF) (ha : ∀ r ∈ ix.refs, r.Aligned) :
    ∃ ix', readCsi (encCsi ix) = .ok (ix', []) ∧
      ix'.minShift = ix.minShift ∧ ix'.depth = ix.depth ∧ ix'.header = ix.header ∧
      ix'.unplaced = ix.unplaced ∧ ix'.refs.length = ix.refs.length ∧
      ∀ (i : Nat) (h1 : i < ix'.refs.length) (h2 : i < ix.refs.length),
        ix'.refs[i].bins = ix.refs[i].bins ∧ ix'.refs[i].md = ix.refs[i].md ∧
        (∀ q, Noodles.Csi.minOffsetBinned ix'.refs[i].index ix.minShift ix.depth q
            = Noodles.Csi.minOffsetBinned ix.refs[i].index ix.minShift ix.depth q) ∧
        (∀ qs qe, queryRef ix'.refs[i] ix.minShift ix.depth qs qe
            = queryRef ix.refs[i] ix.minShift ix.depth qs qe) := by
  refine ⟨rewriteCsi ix, (csi_roundtrip ix h).2.1, rfl, rfl, rfl, rfl, by simp [rewriteCsi], ?_⟩
  intro i h1 h2
  have hr : (rewriteCsi ix).refs[i] = rewriteRef ix.refs[i] := by simp [rewriteCsi]
  have hmin := minOffset_rewrite ix.refs[i] (ha _ (List.getElem_mem h2)) ix.minShift ix.depth
  rw [hr]
  refine ⟨rfl, rfl, hmin, ?_⟩
  intro qs qe
  unfold queryRef
  rw [hmin qs]
  rfl

/-- non-vacuity, and the index really changes: bin 4681's loffset 200 is written as 100, the
loffset of its present parent 585 -/
example : CsiIndex.WF ⟨14, 5, none, [⟨[(4681, [⟨200, 300⟩]), (585, [⟨100, 200⟩])],
    [(4681, 200), (585, 100)], some ⟨100, 300, 2, 0⟩⟩], some 0⟩ := by
  simp [CsiIndex.WF, RefCsi.WF, Bins.WF, Chunk.WF, metaWF, Meta.WF, unplacedWF, metaIdCsi]
  refine ⟨by decide, ?_, ?_⟩
  · rintro a b (⟨rfl, rfl⟩ | ⟨rfl, rfl⟩) <;> simp
  · rintro a b (⟨rfl, rfl⟩ | ⟨rfl, rfl⟩) <;> simp

/-- the deepest geometry the code admits, `depth = 10` (the pseudo-bin id `8^11/7 + 1` needs more
than an `i32` shift; it used to overflow), is covered -/
example : CsiIndex.WF ⟨14, 10, none, [], none⟩ := by
  simp [CsiIndex.WF, unplacedWF]
  decide

/-- A geometry outside `validGeometry` (`min_shift = 0`, `min_shift + 3·depth ≥ 64`, or
`depth > 10`) is never read: the reader answers `InvalidData` right after the two geometry fields,
whatever follows — the queries' shifts and `bin_limit`'s assertion are never reached with it. -/
theorem csi_invalid_geometry_rejected (ms d : Nat) (hms : ms < 256) (hd : d < 256)
    (hg : validGeometry ms d = false) (rest : Bytes) :
    readCsi (csiMagic ++ (Noodles.Codec.le 4 ms ++ (Noodles.Codec.le 4 d ++ rest))) = .error .invalid := by
  unfold readCsi wrapInvalid decCsi
  rw [decMagic_rt]
  simp only
  rw [decU8_rt ms hms]
  simp only
  rw [decU8_rt d hd]
  simp [hg]

example : validGeometry 0 0 = false ∧ validGeometry 255 9 = false ∧ validGeometry 14 11 = false ∧
    validGeometry 14 5 = true ∧ validGeometry 1 10 = true := by decide

example : RefCsi.Aligned ⟨[(4681, [⟨200, 300⟩]), (585, [⟨100, 200⟩])],
    [(4681, 200), (585, 100)], none⟩ := by
  simp [RefCsi.Aligned]

example : firstStart [(4681, 200), (585, 100)] 4681 = 100 := by
  unfold firstStart
  rw [firstStartLoop]; simp [lookup]
  rw [firstStartLoop]; simp [lookup]

/-- fai: every index whose names are free of TAB and LF — ANY other bytes: the name is a `BStr`,
filled by the FASTA indexer from the definition line as bytes and written as bytes — reads back
equal. (Until fix dfcc1c6 both fai readers pushed the whole line through `str` first and this held
only for UTF-8 names: known finding F34, now repaired.) -/
theorem fai_roundtrip (ix : List FaiRecord) (h : ∀ r ∈ ix, r.WF) : readFai (encFai ix) = .ok ix :=
  readFai_rt ix h

/-- the former partial statement, kept as a corollary -/
theorem fai_roundtrip_partial (ix : List FaiRecord)
    (h : ∀ r ∈ ix, r.WF ∧ validUtf8 r.name = true) : readFai (encFai ix) = .ok ix :=
  fai_roundtrip ix (fun r hr => (h r hr).1)

example : FaiRecord.WF ⟨[115, 113, 195, 169, 32, 13], 10946, 4, 80, 81⟩ := by
  simp [FaiRecord.WF, TAB, LF]

/-- the former negation witness now reads back: the name `sq\xff` (what the FASTA indexer makes of
`>sq\xff`) -/
example : FaiRecord.WF ⟨[0x73, 0x71, 0xff], 4, 5, 4, 5⟩ ∧
    readFai (encFai [⟨[0x73, 0x71, 0xff], 4, 5, 4, 5⟩]) = .ok [⟨[0x73, 0x71, 0xff], 4, 5, 4, 5⟩] := by
  refine ⟨by simp [FaiRecord.WF, TAB, LF], by rfl⟩

/-- crai (the text inside the gzip member): every index reads back equal; an unmapped slice is
`-1` in the first column. -/
theorem crai_roundtrip (ix : List CraiRecord) (h : ∀ r ∈ ix, r.WF) :
    readCrai (encCrai ix) = .ok ix :=
  readCrai_rt ix h

example : CraiRecord.WF ⟨none, 0, 0, 1869, 13, 0⟩ ∧ CraiRecord.WF ⟨some 3, 10946, 150, 17, 5, 90⟩ := by
  simp [CraiRecord.WF]

end Noodles.Props.C17
