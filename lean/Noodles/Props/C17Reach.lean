import Noodles.Csi.IndexerProof
import Noodles.Index.LinearProof
import Noodles.Index.CsiProof
/-!
# C17 (reach) — every index the Indexer builds is in the domain of the round-trip theorems

Model: `Noodles/Csi/Indexer.lean` (`Indexer::{add_record, build}`, `ReferenceSequence::update`,
`Metadata::update`); helper lemmas: `Noodles/Csi/IndexerProof.lean`. A history is a list of
`add_record` calls; `run` stops at the first refusal (`none`), `build…` is `Indexer::build(n_ref)`
read as a BAI / tabix / CSI index. Hypotheses on a history (`Call.Valid`): virtual positions are
`u64`s, reference ids `< R`, `1 ≤ start, end ≤ max position of the geometry`. NOT assumed:
`start ≤ end`, coordinate order, chunk order, `chunk.start < chunk.end`. The count hypotheses
(`calls.length + 1 < 2^31`, `R`, `n_ref` below the `n_ref` field's range) are what the count fields
of the formats can hold; they cannot be dropped (an index with 2^31 bins is not writable).
-/
namespace Noodles.Props.C17
open Noodles.Csi Noodles.Csi.Reach Noodles.Index
open Noodles.Codec (Bytes)

theorem outBins_keys (r : RefSt) : (outBins r).map (·.1) = r.bins.map (·.1) := by
  simp [outBins, List.map_map, Function.comp_def]

theorem outBins_wf (ms d N metaId : Nat) (r : RefSt) (h : RefInv ms d N r) (hN : N < 2^31)
    (hm : lvl (d+1) ≤ metaId) (h32 : lvl (d+1) < 2^32) : Bins.WF metaId (outBins r) := by
  refine ⟨by rw [outBins_keys]; exact h.nodup, ?_⟩
  intro b hb
  obtain ⟨b0, hb0, rfl⟩ := List.mem_map.mp hb
  obtain ⟨a1, _, a3, a4⟩ := h.bin b0 hb0
  refine ⟨by simp only; omega, by simp only; omega, by simp only [List.length_reverse]; omega, ?_⟩
  intro c hc
  exact a4 c (List.mem_reverse.mp hc)

theorem meta_wf (ms d N : Nat) (r : RefSt) (h : RefInv ms d N r) (hN : N < 2^31) : metaWF r.md := by
  cases hmd : r.md with
  | none => trivial
  | some m =>
    obtain ⟨a, b, c⟩ := h.md m hmd
    exact ⟨a, b, by omega, by omega⟩

/-- the per-reference statement for the linear formats at the BAI/tabix geometry (14, 5): ids below
37449 (so never the pseudo-bin 37450), at most 32768 linear offsets -/
theorem toRefLin_wf (N : Nat) (signed : Bool) (r : RefSt) (h : RefInv 14 5 N r) (hN : N + 1 < 2^31) :
    (toRefLin r).WF signed := by
  have hl : lvl 6 = 37449 := by decide
  have hlin : (maxPos 14 5 - 1) / W + 1 = 32768 := by decide
  have hcb : 2^31 ≤ countBound signed := by cases signed <;> simp [countBound]
  refine ⟨outBins_wf 14 5 N metaIdLinear r h (by omega) (by simp [hl, metaIdLinear]) (by simp [hl]), ?_,
    meta_wf 14 5 N r h (by omega), ?_, h.linVal⟩
  · have := h.nbins
    simp only [toRefLin, outBins, List.length_map]; omega
  · have := h.linLen
    simp only [toRefLin]; omega

theorem lvl_lt_metaIdCsi (d : Nat) : lvl (d+1) < metaIdCsi d := by
  have := seven_lvl (d+1)
  unfold metaIdCsi
  generalize 8^(d+1) = x at this ⊢
  omega

theorem lvl_lt_u32 (d : Nat) (hd : d ≤ 10) : lvl (d+1) < 2^32 := by
  have h1 := seven_lvl (d+1)
  have h2 : 8^(d+1) ≤ 8^11 := Nat.pow_le_pow_right (by decide) (by omega)
  have h3 : (8:Nat)^11 = 8589934592 := by decide
  generalize 8^(d+1) = x at h1 h2
  omega

theorem toRefCsi_wf (ms d N : Nat) (hd : d ≤ 10) (r : RefSt) (h : RefInv ms d N r) (hN : N + 1 < 2^31) :
    (toRefCsi r).WF d ∧ (toRefCsi r).Aligned := by
  refine ⟨⟨outBins_wf ms d N (metaIdCsi d) r h (by omega) (Nat.le_of_lt (lvl_lt_metaIdCsi d))
    (lvl_lt_u32 d hd), ?_, meta_wf ms d N r h (by omega), h.off⟩, ?_, ?_⟩
  · have := h.nbins
    simp only [toRefCsi, outBins, List.length_map]; omega
  · simp only [toRefCsi, h.keys]; exact h.nodup
  · intro id
    simp only [toRefCsi, h.keys, outBins_keys]

/-- the state after an accepted history, and the references `build` makes of it -/
theorem built_refs (linear : Bool) (ms d R nRef : Nat) (calls : List Call) (st : St)
    (hrun : run linear ms d St.init calls = some st) (hv : ∀ c ∈ calls, c.Valid ms d R) :
    (∀ r ∈ padded st nRef, RefInv ms d calls.length r) ∧ (padded st nRef).length ≤ max R nRef ∧
    st.unplaced ≤ calls.length := by
  have hinv := run_inv linear ms d R calls 0 St.init st (init_inv ms d R) hv hrun
  simp only [Nat.zero_add] at hinv
  obtain ⟨p1, p2⟩ := padded_inv ms d calls.length R st nRef hinv
  exact ⟨p1, p2, hinv.unplaced⟩

/-- BAI: for EVERY history of `add_record` calls that `Indexer::<LinearIndex>::default()` (geometry
14/5, what `bam::fs::index` uses) accepts, with `u64` virtual positions and coordinates in
`[1, 2^29 - 1]`, and every `n_ref`, the built index satisfies `Bai.WF` — the hypothesis of
`bai_roundtrip`. -/
theorem indexer_bai_wf (calls : List Call) (R nRef : Nat) (st : St)
    (hrun : run true 14 5 St.init calls = some st) (hv : ∀ c ∈ calls, c.Valid 14 5 R)
    (hlen : calls.length + 1 < 2^31) (hR : R < 2^32) (hn : nRef < 2^32) :
    (buildBai st nRef).WF := by
  obtain ⟨p1, p2, p3⟩ := built_refs true 14 5 R nRef calls st hrun hv
  refine ⟨by simp only [buildBai, List.length_map]; omega, ?_, by simp only [buildBai, unplacedWF]; omega⟩
  intro r hr
  obtain ⟨r0, hr0, rfl⟩ := List.mem_map.mp hr
  exact toRefLin_wf calls.length false r0 (p1 r0 hr0) hlen

/-- tabix: the same with the header given to `set_header` (which must itself be writable:
`Header.WF`; the indexer passes it through). Without a header the tabix writer refuses. -/
theorem indexer_tabix_wf (hdr : Header) (hh : hdr.WF) (calls : List Call) (R nRef : Nat) (st : St)
    (hrun : run true 14 5 St.init calls = some st) (hv : ∀ c ∈ calls, c.Valid 14 5 R)
    (hlen : calls.length + 1 < 2^31) (hR : R < 2^31) (hn : nRef < 2^31) :
    (buildTabix (some hdr) st nRef).WF := by
  obtain ⟨p1, p2, p3⟩ := built_refs true 14 5 R nRef calls st hrun hv
  refine ⟨⟨hdr, rfl, hh⟩, by simp only [buildTabix, List.length_map]; omega, ?_,
    by simp only [buildTabix, unplacedWF]; omega⟩
  intro r hr
  obtain ⟨r0, hr0, rfl⟩ := List.mem_map.mp hr
  exact toRefLin_wf calls.length true r0 (p1 r0 hr0) hlen

/-- CSI: for EVERY geometry the reader accepts (`validGeometry`: `0 < min_shift`,
`min_shift + 3·depth < 64`, `depth ≤ 10`), every accepted history with coordinates in
`[1, 2^(min_shift+3·depth) - 1]`, the built index satisfies `CsiIndex.WF` and every reference is
`Aligned` (one loffset per bin) — the two hypotheses of `csi_roundtrip_same_answers`. -/
theorem indexer_csi_wf (ms d : Nat) (hg : validGeometry ms d = true) (hdr : Option Header)
    (hh : ∀ h, hdr = some h → h.WF ∧ (encHeader h).length < 2^31)
    (calls : List Call) (R nRef : Nat) (st : St)
    (hrun : run false ms d St.init calls = some st) (hv : ∀ c ∈ calls, c.Valid ms d R)
    (hlen : calls.length + 1 < 2^31) (hR : R < 2^31) (hn : nRef < 2^31) :
    (buildCsi ms d hdr st nRef).WF ∧ ∀ r ∈ (buildCsi ms d hdr st nRef).refs, r.Aligned := by
  obtain ⟨p1, p2, p3⟩ := built_refs false ms d R nRef calls st hrun hv
  have hd : d ≤ 10 := by simp [validGeometry] at hg; exact hg.2
  refine ⟨⟨hg, hh, by simp only [buildCsi, List.length_map]; omega, ?_,
    by simp only [buildCsi, unplacedWF]; omega⟩, ?_⟩
  · intro r hr
    obtain ⟨r0, hr0, rfl⟩ := List.mem_map.mp hr
    exact (toRefCsi_wf ms d calls.length hd r0 (p1 r0 hr0) hlen).1
  · intro r hr
    obtain ⟨r0, hr0, rfl⟩ := List.mem_map.mp hr
    exact (toRefCsi_wf ms d calls.length hd r0 (p1 r0 hr0) hlen).2

/-- what else the code guarantees of a built index: no bin is empty. (It does NOT guarantee
`chunk.start < chunk.end`: `add_record` takes any chunk, see the example below.) -/
theorem indexer_bins_nonempty (linear : Bool) (ms d : Nat) (calls : List Call) (R nRef : Nat) (st : St)
    (hrun : run linear ms d St.init calls = some st) (hv : ∀ c ∈ calls, c.Valid ms d R) :
    ∀ r ∈ padded st nRef, ∀ b ∈ outBins r, b.2 ≠ [] := by
  obtain ⟨p1, _, _⟩ := built_refs linear ms d R nRef calls st hrun hv
  intro r hr b hb
  obtain ⟨b0, hb0, rfl⟩ := List.mem_map.mp hb
  have := (p1 r hr).bin b0 hb0
  simpa using this.2.1

/-- the two refusals: a coordinate beyond the geometry's last position (since the fix of
F-C17-beyond-geometry), or a reference id smaller than the last one seen; everything else — `start > end`,
unsorted coordinates, empty or backwards chunks — is accepted -/
theorem indexer_refuses_only_smaller_id (linear : Bool) (ms d : Nat) (st : St) (c : Call) :
    addRecord linear ms d st c = none ↔
      ∃ rid s e m, c.ctx = some (rid, s, e, m) ∧ (beyond ms d s e = true ∨ rid + 1 < st.refs.length) := by
  have core : addRecordCore linear ms d st c = none ↔
      ∃ rid s e m, c.ctx = some (rid, s, e, m) ∧ rid + 1 < st.refs.length := by
    unfold addRecordCore
    cases hctx : c.ctx with
    | none => simp
    | some t =>
      obtain ⟨rid, s, e, m⟩ := t
      simp only [Option.some.injEq, Prod.mk.injEq]
      cases hrefs : st.refs with
      | nil => simp [resizeWith]
      | cons r rs =>
        simp only [List.isEmpty_cons, Bool.false_eq_true, if_false, List.length_cons]
        constructor
        · intro h
          split at h
          · exact ⟨rid, s, e, m, ⟨rfl, rfl, rfl, rfl⟩, by omega⟩
          · cases h
        · rintro ⟨rid', s', e', m', ⟨rfl, rfl, rfl, rfl⟩, hlt⟩
          have h' : rid < rs.length := by omega
          simp [h']
  unfold addRecord
  cases hctx : c.ctx with
  | none =>
    rw [hctx] at core
    simp only [core]
    constructor
    · rintro ⟨rid, s, e, m, h, _⟩; cases h
    · rintro ⟨rid, s, e, m, h, _⟩; cases h
  | some t =>
    obtain ⟨rid, s, e, m⟩ := t
    rw [hctx] at core
    show (if beyond ms d s e = true then none else addRecordCore linear ms d st c) = none ↔ _
    by_cases hb : beyond ms d s e = true
    · rw [if_pos hb]
      exact ⟨fun _ => ⟨rid, s, e, m, rfl, Or.inl hb⟩, fun _ => rfl⟩
    · rw [if_neg hb, core]
      constructor
      · rintro ⟨rid', s', e', m', h, hlt⟩
        exact ⟨rid', s', e', m', h, Or.inr hlt⟩
      · rintro ⟨rid', s', e', m', h, hor⟩
        refine ⟨rid', s', e', m', h, ?_⟩
        cases hor with
        | inr hlt => exact hlt
        | inl hbe =>
          simp only [Option.some.injEq, Prod.mk.injEq] at h
          obtain ⟨-, rfl, rfl, -⟩ := h
          exact absurd hbe hb

/-! ## the corollaries: no WF hypothesis left -/

theorem indexer_bai_roundtrip (calls : List Call) (R nRef : Nat) (st : St)
    (hrun : run true 14 5 St.init calls = some st) (hv : ∀ c ∈ calls, c.Valid 14 5 R)
    (hlen : calls.length + 1 < 2^31) (hR : R < 2^32) (hn : nRef < 2^32) :
    writeBai (buildBai st nRef) = some (encBai (buildBai st nRef)) ∧
    ∀ rest, readBai (encBai (buildBai st nRef) ++ rest) = .ok (buildBai st nRef, rest) := by
  have h := indexer_bai_wf calls R nRef st hrun hv hlen hR hn
  exact ⟨by simp [writeBai, guardBai_of_WF _ h], fun rest => readBai_rt_some _ h st.unplaced rfl rest⟩

theorem indexer_tabix_roundtrip (hdr : Header) (hh : hdr.WF) (calls : List Call) (R nRef : Nat) (st : St)
    (hrun : run true 14 5 St.init calls = some st) (hv : ∀ c ∈ calls, c.Valid 14 5 R)
    (hlen : calls.length + 1 < 2^31) (hR : R < 2^31) (hn : nRef < 2^31) :
    writeTabix (buildTabix (some hdr) st nRef) = some (encTabix (buildTabix (some hdr) st nRef)) ∧
    ∀ rest, readTabix (encTabix (buildTabix (some hdr) st nRef) ++ rest)
      = .ok (buildTabix (some hdr) st nRef, rest) := by
  have h := indexer_tabix_wf hdr hh calls R nRef st hrun hv hlen hR hn
  exact ⟨by simp [writeTabix, guardTabix_of_WF _ h], fun rest => readTabix_rt_some _ h st.unplaced rfl rest⟩

/-- CSI: the writer accepts the built index; what is read back has the same geometry, header,
unplaced count, bins and metadata, and answers EVERY query (`min_offset` and chunk list) as the
built index does. -/
theorem indexer_csi_roundtrip_same_answers (ms d : Nat) (hg : validGeometry ms d = true)
    (hdr : Option Header) (hh : ∀ h, hdr = some h → h.WF ∧ (encHeader h).length < 2^31)
    (calls : List Call) (R nRef : Nat) (st : St)
    (hrun : run false ms d St.init calls = some st) (hv : ∀ c ∈ calls, c.Valid ms d R)
    (hlen : calls.length + 1 < 2^31) (hR : R < 2^31) (hn : nRef < 2^31) :
    let ix := buildCsi ms d hdr st nRef
    writeCsi ix = some (encCsi ix) ∧
    ∃ ix', (∀ rest, readCsi (encCsi ix ++ rest) = .ok (ix', rest)) ∧
      ix'.minShift = ms ∧ ix'.depth = d ∧ ix'.header = hdr ∧
      ix'.unplaced = some st.unplaced ∧ ix'.refs.length = ix.refs.length ∧
      ∀ (i : Nat) (h1 : i < ix'.refs.length) (h2 : i < ix.refs.length),
        ix'.refs[i].bins = ix.refs[i].bins ∧ ix'.refs[i].md = ix.refs[i].md ∧
        (∀ q, minOffsetBinned ix'.refs[i].index ms d q = minOffsetBinned ix.refs[i].index ms d q) ∧
        (∀ qs qe, queryRef ix'.refs[i] ms d qs qe = queryRef ix.refs[i] ms d qs qe) := by
  intro ix
  obtain ⟨h, ha⟩ := indexer_csi_wf ms d hg hdr hh calls R nRef st hrun hv hlen hR hn
  refine ⟨by have := guardCsi_of_WF ix h; simp [writeCsi, this], rewriteCsi ix,
    fun rest => readCsi_rt_some ix h st.unplaced rfl rest, rfl, rfl, rfl, rfl, by simp [rewriteCsi], ?_⟩
  intro i h1 h2
  have hr : (rewriteCsi ix).refs[i] = rewriteRef ix.refs[i] := by simp [rewriteCsi]
  have hmin := minOffset_rewrite ix.refs[i] (ha _ (List.getElem_mem h2)) ms d
  rw [hr]
  refine ⟨rfl, rfl, hmin, ?_⟩
  intro qs qe
  unfold queryRef
  rw [hmin qs]
  rfl

/-! ## non-vacuity: three records (one unsorted, one with `start > end`, one unmapped) on two
references, an unplaced read, `n_ref = 3` -/

def demo : List Call :=
  [⟨some (0, 20000, 20010, true), ⟨100, 200⟩⟩, ⟨some (0, 9, 5, false), ⟨200, 200⟩⟩, ⟨none, ⟨0, 0⟩⟩,
   ⟨some (1, 536870911, 536870911, true), ⟨300, 250⟩⟩]

example : ∀ c ∈ demo, c.Valid 14 5 2 := by
  intro c hc
  simp only [demo, List.mem_cons, List.not_mem_nil, or_false] at hc
  rcases hc with rfl | rfl | rfl | rfl <;>
    refine ⟨by decide, by decide, ?_⟩ <;> intro rid s e m h <;> simp at h <;>
    obtain ⟨rfl, rfl, rfl, rfl⟩ := h <;> decide

example : ∃ st, run true 14 5 St.init demo = some st ∧ st.unplaced = 1 ∧ st.refs.length = 2 ∧
    (buildBai st 3).refs.length = 3 ∧
    ((buildBai st 3).refs.map (·.bins)) =
      [[(4682, [⟨100, 200⟩]), (4681, [⟨200, 200⟩])], [(37448, [⟨300, 250⟩])], []] :=
  ⟨_, rfl, by decide, by decide, by decide, by decide⟩

/-- a history that is refused: reference 0 after reference 1 -/
example : run true 14 5 St.init [⟨some (1, 5, 9, true), ⟨0, 1⟩⟩, ⟨some (0, 5, 9, true), ⟨1, 2⟩⟩] = none := by
  decide

/-! ## what is NOT guaranteed: coordinates beyond the geometry

`add_record` does not look at the coordinates; `reg2bin` neither clamps nor fails: beyond
`2^(min_shift+3·depth)` it returns `t + (beg >> s)` past the last level's range. At 14/5 a record at
`2^29 + 16385` was ACCEPTED (before the fix; `addRecordCore` is the code without the range test) and lands in "bin" 37450 — the id of the metadata pseudo-bin, which the
built index then holds twice (once as a bin, once as `metadata`), so `Bai.WF` fails and the file
written from it is not read back as the same index (replayed on the real code: `c17 reach` corpus). -/
theorem wf_no_meta_bin (ix : Bai) (h : ix.WF) : ∀ r ∈ ix.refs, ∀ b ∈ r.bins, b.1 ≠ metaIdLinear :=
  fun r hr b hb => ((h.2.1 r hr).1.2 b hb).2.1

theorem indexer_beyond_geometry_collides :
    ∃ st, addRecordCore true 14 5 St.init ⟨some (0, 2^29 + 16385, 2^29 + 16385, true), ⟨0, 1⟩⟩ = some st ∧
      ((buildBai st 1).refs.map fun r => r.bins.map (·.1)) = [[metaIdLinear]] ∧
      ¬ (buildBai st 1).WF := by
  refine ⟨_, rfl, by decide, fun h => absurd (wf_no_meta_bin _ h) (by decide)⟩

/-- … and `add_record` now refuses it (fix in /repo: the range test `beyond`): the first position
without a bin, `2^29`, and the one that collided with the pseudo-bin are refused, the last position of
the geometry, `2^29 - 1`, is accepted; at a shift of 64 or more nothing is refused -/
theorem indexer_beyond_geometry_refused :
    run true 14 5 St.init [⟨some (0, 2^29 + 16385, 2^29 + 16385, true), ⟨0, 1⟩⟩] = none ∧
    run true 14 5 St.init [⟨some (0, 2^29, 2^29, true), ⟨0, 1⟩⟩] = none ∧
    run true 14 5 St.init [⟨some (0, 1, 2^29, true), ⟨0, 1⟩⟩] = none ∧
    (run true 14 5 St.init [⟨some (0, 2^29 - 1, 2^29 - 1, true), ⟨0, 1⟩⟩]).isSome = true ∧
    beyond 40 8 (2^64) (2^64) = false := by
  decide

end Noodles.Props.C17
