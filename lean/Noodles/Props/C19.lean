import Noodles.Props.C19Async
import Noodles.Props.C19More
import Noodles.Cram.IndexModel
import Noodles.Cram.IndexProof
/-!
# C19 — the CRAI index lists every slice truthfully; a region query through it = the filtered scan

For ANY file layout (any number of containers, any number of slices per container, any records in
any slice — single-reference, unmapped-only and multi-reference slices alike — any positive byte
lengths), with the model of `Noodles/Cram/IndexModel.lean` (the code as repaired for F10 and F15):

* the index `cram::fs::index` builds lists every slice, once per reference present in it, with the
  slice's TRUE container offset, landmark and byte size (`crai_lists_every_slice`,
  `crai_entries_are_slices`, `crai_one_entry_per_slice_reference`);
* every entry's reference / start / span is exactly what the slice's records on that reference
  cover (`crai_spans_correct`);
* the region query through that index returns exactly the records a full scan keeps — on the named
  reference and intersecting the region, each once, in file order (`cram_query_eq_scan`,
  `cram_query_each_once_in_file_order`), for every reference and every interval, including
  intervals that hit nothing and unbounded ones (`qs = 1`, `qe` = any large number). No
  coordinate-sortedness is needed for any of this.
* the writer's layout contains the written stream, in order (`layout_preserves_stream`), and a slice
  header labelled `Some(k, a, b)` holds only records of `k`, covering exactly `[a, b]`
  (`slice_header_context_sound`).

Helper lemmas: `Noodles/Cram/IndexProof.lean`.

The statement about queries is FALSE of the unrepaired `query.rs` (finding F10): witness below
(`unrepaired_query_differs_from_scan`): four records on two references in one slice, query `sq1:1-4`
also returns `r0@sq0:1-4`; reproduced on the real reader by the harness (`corpus 0`).
-/
namespace Noodles.Props.C19
open Noodles.Cram.Index

/-- Every slice is listed, for every reference that occurs in it (unmapped = `none` included),
with its true container offset, true landmark and true byte size. -/
theorem crai_lists_every_slice (f : FileL) (i j : Nat) (c : ContainerL) (sl : SliceL)
    (hc : f.cs[i]? = some c) (hs : c.slices[j]? = some sl) (r : Rec) (hr : r ∈ sl.recs) :
    ∃ en ∈ craiOf f, en.ref = r.ref ∧ en.offset = f.containerOffset i ∧
      en.landmark = c.sliceLandmark j ∧ en.size = sl.size := by
  have hne : sl.recs ≠ [] := by intro h; rw [h] at hr; simp at hr
  obtain ⟨en, hen, href⟩ :=
    (sliceEntries_refs (off := f.containerOffset i) (lm := c.sliceLandmark j) (len := sl.size) hne r.ref).mpr
      ⟨r, hr, rfl⟩
  obtain ⟨h1, h2, h3⟩ := sliceEntries_pos hen
  exact ⟨en, mem_craiOf.mpr ⟨_, c, _, _, sl, _, split_of_getElem? hc, split_of_getElem? hs, hen⟩,
    href, h1, h2, h3⟩

/-- Nothing else is listed: every entry is the entry of some slice of the file, at that slice's
true position and with its true size, for a reference that occurs in that slice. -/
theorem crai_entries_are_slices (f : FileL) (en : Entry) (hen : en ∈ craiOf f) :
    ∃ i j c sl, f.cs[i]? = some c ∧ c.slices[j]? = some sl ∧
      en.offset = f.containerOffset i ∧ en.landmark = c.sliceLandmark j ∧ en.size = sl.size ∧
      (sl.recs = [] ∨ ∃ r ∈ sl.recs, r.ref = en.ref) := by
  obtain ⟨pre, c, post, pre', s, post', hcs, hss, hen'⟩ := mem_craiOf.mp hen
  obtain ⟨hi, hti⟩ := getElem?_of_split hcs
  obtain ⟨hj, htj⟩ := getElem?_of_split hss
  obtain ⟨h1, h2, h3⟩ := sliceEntries_pos hen'
  refine ⟨pre.length, pre'.length, c, s, hi, hj, ?_, ?_, h3, ?_⟩
  · rw [h1]; unfold FileL.containerOffset; rw [hti]
  · rw [h2]; unfold ContainerL.sliceLandmark; rw [htj]
  · by_cases hne : s.recs = []
    · exact Or.inl hne
    · exact Or.inr ((sliceEntries_refs hne en.ref).mp ⟨en, hen', rfl⟩)

/-- One entry per (slice, reference): no two entries of the index share container offset,
landmark and reference. -/
theorem crai_one_entry_per_slice_reference (f : FileL) (hwf : f.WF) :
    ((craiOf f).map fun en => (en.offset, en.landmark, en.ref)).Nodup :=
  craiGo_key_nodup f.start f.cs hwf

/-- The reference / start / span of every entry are exactly what the records of its slice on
that reference cover: every such record lies inside `[start, start + span - 1]` and both ends are
attained (`none`: start and span absent). -/
theorem crai_spans_correct (f : FileL) (hvalid : ∀ r ∈ f.recs, r.s ≤ r.e) (en : Entry)
    (hen : en ∈ craiOf f) :
    ∃ i j c sl, f.cs[i]? = some c ∧ c.slices[j]? = some sl ∧
      en.offset = f.containerOffset i ∧ en.landmark = c.sliceLandmark j ∧ Covers en sl.recs := by
  obtain ⟨pre, c, post, pre', s, post', hcs, hss, hen'⟩ := mem_craiOf.mp hen
  obtain ⟨hi, hti⟩ := getElem?_of_split hcs
  obtain ⟨hj, htj⟩ := getElem?_of_split hss
  obtain ⟨h1, h2, _⟩ := sliceEntries_pos hen'
  refine ⟨pre.length, pre'.length, c, s, hi, hj, ?_, ?_, ?_⟩
  · rw [h1]; unfold FileL.containerOffset; rw [hti]
  · rw [h2]; unfold ContainerL.sliceLandmark; rw [htj]
  · apply sliceEntries_covers _ hen'
    intro r hr
    apply hvalid
    unfold FileL.recs ContainerL.recs
    rw [hcs]
    simp only [List.flatMap_append, List.flatMap_cons, List.mem_append, hss]
    right; left; right; left; exact hr

/-- A region query through the file's own index returns exactly the records a full scan keeps:
on the named reference, intersecting `[qs, qe]`, with the multiplicities and the order of the
file — and it never fails. -/
theorem cram_query_eq_scan (f : FileL) (hwf : f.WF) (k qs qe : Nat) :
    cramQuery f (craiOf f) k qs qe = some (scan f k qs qe) := by
  have := queryGo_file f hwf k qs qe [] f.cs rfl
  simpa [cramQuery, craiOf, scan, FileL.recs] using this

/-- Each once, in file order: the answer is a sublist of the file's record list, so when read
names are distinct no record is delivered twice. -/
theorem cram_query_each_once_in_file_order (f : FileL) (hwf : f.WF) (k qs qe : Nat)
    (hid : (f.recs.map (·.id)).Nodup) :
    ∃ rs, cramQuery f (craiOf f) k qs qe = some rs ∧ rs.Sublist f.recs ∧ (rs.map (·.id)).Nodup ∧
      ∀ r, r ∈ rs ↔ r ∈ f.recs ∧ r.ref = some k ∧ qs ≤ r.e ∧ r.s ≤ qe := by
  refine ⟨scan f k qs qe, cram_query_eq_scan f hwf k qs qe, List.filter_sublist, ?_, ?_⟩
  · exact List.Nodup.sublist (List.Sublist.map _ List.filter_sublist) hid
  · intro r
    simp [scan, List.mem_filter, keep, intersects]

/-- The writer's layout (containers of `rps * spc` records cut into slices of `rps`) contains the
written stream, in order: a scan of the file is a scan of the stream. -/
theorem layout_preserves_stream (rps spc : Nat) (h1 : 0 < rps) (h2 : 0 < spc) (recs : List Rec) :
    ((layoutOf rps spc recs).map List.flatten).flatten = recs := by
  unfold layoutOf
  rw [List.map_map]
  have : (List.flatten ∘ chunks rps : List Rec → List Rec) = id := by
    funext l; exact chunks_flatten rps h1 l
  rw [this, List.map_id]
  exact chunks_flatten (rps * spc) (Nat.mul_pos h1 h2) recs

/-- What the writer puts in a slice header is true: `Some(k, a, b)` means every record of the slice
is on `k` inside `[a, b]` with both ends attained; `None` means every record is unmapped. -/
theorem slice_header_context_sound (recs : List Rec) :
    (∀ k a b, sliceCtx recs = .some k a b →
      (∀ r ∈ recs, r.ref = some k ∧ a ≤ r.s ∧ r.e ≤ b) ∧ (∃ r ∈ recs, r.s = a) ∧ (∃ r ∈ recs, r.e = b)) ∧
    (sliceCtx recs = .none → ∀ r ∈ recs, r.ref = none) :=
  ⟨fun _ _ _ h => sliceCtx_some h, sliceCtx_none⟩

/-! ### non-vacuity and the F10 witness -/

/-- the F10/F15 witness file: one container, one multi-reference slice, four records on two
references (byte lengths as observed on the real file) -/
def witness : FileL :=
  ⟨187, [⟨22, 187, [⟨702, [⟨0, some 0, 1, 4⟩, ⟨1, some 0, 9, 12⟩, ⟨2, some 1, 1, 4⟩, ⟨3, some 1, 9, 12⟩]⟩]⟩]⟩

/-- the hypotheses are satisfiable (and by a multi-reference slice) -/
example : witness.WF ∧ (∀ r ∈ witness.recs, r.s ≤ r.e) ∧ (witness.recs.map (·.id)).Nodup := by
  refine ⟨?_, ?_, ?_⟩
  · intro c hc; simp [witness] at hc; subst hc; simp
  · decide
  · decide

/-- its index: one entry per reference, same slice -/
example : craiOf witness = [⟨some 0, 1, 12, 187, 187, 702⟩, ⟨some 1, 1, 12, 187, 187, 702⟩] := by decide

/-- the repaired query on the witness -/
example : cramQuery witness (craiOf witness) 1 1 4 = some [⟨2, some 1, 1, 4⟩] := by decide

/-- F10: the query as the code stood returns `r0@sq0` for `sq1:1-4`, which a scan does not keep -/
theorem unrepaired_query_differs_from_scan :
    cramQueryUnrepaired witness (craiOf witness) 1 1 4 = some [⟨0, some 0, 1, 4⟩, ⟨2, some 1, 1, 4⟩] ∧
    scan witness 1 1 4 = [⟨2, some 1, 1, 4⟩] := by decide

/-- F10, second half: two slices in one container, the container is served once per index entry -/
theorem unrepaired_query_duplicates :
    let f : FileL := ⟨100, [⟨20, 50, [⟨300, [⟨0, some 0, 1, 4⟩]⟩, ⟨300, [⟨1, some 0, 9, 12⟩]⟩]⟩]⟩
    cramQueryUnrepaired f (craiOf f) 0 1 100 =
      some [⟨0, some 0, 1, 4⟩, ⟨1, some 0, 9, 12⟩, ⟨0, some 0, 1, 4⟩, ⟨1, some 0, 9, 12⟩] ∧
    cramQuery f (craiOf f) 0 1 100 = some [⟨0, some 0, 1, 4⟩, ⟨1, some 0, 9, 12⟩] := by decide

end Noodles.Props.C19
