import Noodles.Io.Prog
import Noodles.Io.Binary
import Noodles.Io.Lines
import Noodles.Io.MoreProof
import Noodles.Io.FastaProof
/-!
# C12, second part — the readers that were covered by the differential oracle only

**Binary readers** (BAM records in their `read_exact_to_vec` form, BCF records, the CRAM file
definition and containers, the BAI / tabix / CSI / gzi index readers) touch their source only through
`read_exact`, `read_exact_or_eof` and `reader.take(n).read_to_end(buf)`; they are written as `Prog`s
(`Noodles.Io.Prog`, `Noodles.Io.Binary`) and ONE theorem covers them all: a `Prog` run over any
scheduled source, with any buffer sizes inside `read_to_end`, computes a function of the undelivered
bytes (`prog_refines`), so any two deliveries of the same bytes give the same result and leave the
same bytes (`prog_schedule_irrelevant`). The per-reader theorems below are its instances, stated so
that each reader's name appears in a statement of its own.

**Text readers over a `BufReader`** (lazy SAM / VCF records, the "one line, then parse it" readers,
GFF3 / GTF lines): compositions of `read_field`, `read_line` and pure steps; result and remaining
stream are determined by the logical stream — not by the schedule, the capacity or the split between
buffer and source.

**FASTA**: `read_sequence` computes `specSeq` on WELL-FORMED sequence lines (`wfSeq`), whatever the
schedule, the capacity and the buffer sizes of std's `read_to_end`; on malformed lines (a `>` or a
bare CR inside a line) it does not — finding F33-C12, here as a theorem with its witness.

Helper lemmas: `Noodles/Io/MoreProof.lean`, `Noodles/Io/FastaProof.lean`.
-/
namespace Noodles.Props.C12
open Noodles.IO

/-- equality of results is decidable (for the witnesses proved by `decide`) -/
instance exceptDecEq {ε α : Type} [DecidableEq ε] [DecidableEq α] : DecidableEq (Except ε α)
  | .ok a, .ok b => if h : a = b then isTrue (by rw [h]) else isFalse (by intro h'; cases h'; exact h rfl)
  | .error a, .error b => if h : a = b then isTrue (by rw [h]) else isFalse (by intro h'; cases h'; exact h rfl)
  | .ok _, .error _ => isFalse (by intro h; cases h)
  | .error _, .ok _ => isFalse (by intro h; cases h)

/-! ## `Prog`s: every reader built from `read_exact`-style calls -/

/-- A reader that touches its source only through `read_exact`, `read_exact_or_eof` and
`take(n).read_to_end` computes `Prog.runPure` of the undelivered bytes — under ANY finite schedule of
short reads and `Interrupted`, and ANY buffer sizes `sz` std may use inside `read_to_end`. -/
theorem prog_refines {β : Type} (p : Prog β) (sz : Nat → List Nat) (data : Bytes) (sched : List Delivery) :
    (Prog.run sz p ⟨data, sched⟩).1 = (Prog.runPure p data).1 ∧
    (Prog.run sz p ⟨data, sched⟩).2.data = (Prog.runPure p data).2 :=
  Prog.run_spec sz p ⟨data, sched⟩

/-- … hence the same result and the same bytes left for any two deliveries of the same bytes. -/
theorem prog_schedule_irrelevant {β : Type} (p : Prog β) (sz₁ sz₂ : Nat → List Nat) (data : Bytes)
    (sc₁ sc₂ : List Delivery) :
    (Prog.run sz₁ p ⟨data, sc₁⟩).1 = (Prog.run sz₂ p ⟨data, sc₂⟩).1 ∧
    (Prog.run sz₁ p ⟨data, sc₁⟩).2.data = (Prog.run sz₂ p ⟨data, sc₂⟩).2.data := by
  obtain ⟨a1, a2⟩ := Prog.run_spec sz₁ p ⟨data, sc₁⟩
  obtain ⟨b1, b2⟩ := Prog.run_spec sz₂ p ⟨data, sc₂⟩
  exact ⟨by rw [a1, b1], by rw [a2, b2]⟩

/-- `reader.take(limit).read_to_end(buf)` — the refill loop of `read_exact_to_vec` — appends exactly
the next `limit` bytes (all there is, if fewer) and leaves exactly the rest: a short read is not the
end of the data, the limit is not overrun, whatever the schedule and the buffer sizes. -/
theorem takeReadToEnd_refines {α : Type} (data : List α) (sched : List Delivery) (limit : Nat)
    (sizes : List Nat) :
    (takeReadToEnd (gatherFuel ⟨data, sched⟩ limit) ⟨data, sched⟩ limit sizes []).1 = data.take limit ∧
    (takeReadToEnd (gatherFuel ⟨data, sched⟩ limit) ⟨data, sched⟩ limit sizes []).2.data = data.drop limit :=
  Prog.takeReadToEnd_spec' ⟨data, sched⟩ limit sizes

/-- `read_exact_to_vec(reader, buf, len)` and `reader.read_exact(&mut buf[..len])` agree: the same
bytes, `UnexpectedEof` under the same condition, the same bytes left — so the framing theorems stated
for the `read_exact` form (`bamReadRecord_schedule_irrelevant`, …) describe the present readers too. -/
theorem readExactToVec_eq_readExact (sz : Nat → List Nat) (data : Bytes) (sched : List Delivery) (n : Nat) :
    (Prog.run sz (Prog.readExactToVec n) ⟨data, sched⟩).1 = (defaultReadExact ⟨data, sched⟩ n).1 ∧
    (Prog.run sz (Prog.readExactToVec n) ⟨data, sched⟩).2.data = (defaultReadExact ⟨data, sched⟩ n).2.data :=
  Prog.readExactToVec_eq_readExact sz n ⟨data, sched⟩

/-- BAM `read_record` as it is now (`read_block_size`, `read_exact_to_vec`, `validate`) -/
theorem bamReadRecordV_schedule_irrelevant (sz₁ sz₂ : Nat → List Nat) (data : Bytes) (sc₁ sc₂ : List Delivery) :
    (Prog.run sz₁ Prog.bamReadRecordV ⟨data, sc₁⟩).1 = (Prog.run sz₂ Prog.bamReadRecordV ⟨data, sc₂⟩).1 ∧
    (Prog.run sz₁ Prog.bamReadRecordV ⟨data, sc₁⟩).2.data = (Prog.run sz₂ Prog.bamReadRecordV ⟨data, sc₂⟩).2.data :=
  prog_schedule_irrelevant _ sz₁ sz₂ data sc₁ sc₂

/-- the whole BAM record stream, present reader -/
theorem bam_recordsV_schedule_irrelevant (fuel : Nat) (sz₁ sz₂ : Nat → List Nat) (data : Bytes)
    (sc₁ sc₂ : List Delivery) :
    (Prog.run sz₁ (Prog.bamRecordsV fuel []) ⟨data, sc₁⟩).1 = (Prog.run sz₂ (Prog.bamRecordsV fuel []) ⟨data, sc₂⟩).1 ∧
    (Prog.run sz₁ (Prog.bamRecordsV fuel []) ⟨data, sc₁⟩).2.data =
      (Prog.run sz₂ (Prog.bamRecordsV fuel []) ⟨data, sc₂⟩).2.data :=
  prog_schedule_irrelevant _ sz₁ sz₂ data sc₁ sc₂

/-- BCF `read_record` (`l_shared` by `read_exact_or_eof`, `l_indiv`, the two blocks by
`read_exact_to_vec`, `Fields::index` in between — any function of the site block) -/
theorem bcfReadRecord_schedule_irrelevant (index : Bytes → Option Err) (sz₁ sz₂ : Nat → List Nat)
    (data : Bytes) (sc₁ sc₂ : List Delivery) :
    (Prog.run sz₁ (Prog.bcfReadRecord index) ⟨data, sc₁⟩).1 = (Prog.run sz₂ (Prog.bcfReadRecord index) ⟨data, sc₂⟩).1 ∧
    (Prog.run sz₁ (Prog.bcfReadRecord index) ⟨data, sc₁⟩).2.data =
      (Prog.run sz₂ (Prog.bcfReadRecord index) ⟨data, sc₂⟩).2.data :=
  prog_schedule_irrelevant _ sz₁ sz₂ data sc₁ sc₂

/-- the whole BCF record stream: same records, same outcome, same bytes left -/
theorem bcf_records_schedule_irrelevant (index : Bytes → Option Err) (fuel : Nat) (sz₁ sz₂ : Nat → List Nat)
    (data : Bytes) (sc₁ sc₂ : List Delivery) :
    (Prog.run sz₁ (Prog.bcfRecords index fuel []) ⟨data, sc₁⟩).1 =
      (Prog.run sz₂ (Prog.bcfRecords index fuel []) ⟨data, sc₂⟩).1 ∧
    (Prog.run sz₁ (Prog.bcfRecords index fuel []) ⟨data, sc₁⟩).2.data =
      (Prog.run sz₂ (Prog.bcfRecords index fuel []) ⟨data, sc₂⟩).2.data :=
  prog_schedule_irrelevant _ sz₁ sz₂ data sc₁ sc₂

/-- the CRAM container header (`read_header_inner`: `i32` length, ITF8 / LTF8 fields — each a
`read_u8` followed by a `read_exact` of 0–8 bytes — through a CRC reader, landmarks, stored CRC-32;
any CRC function) -/
theorem cramReadHeader_schedule_irrelevant (crc : Bytes → Nat) (sz₁ sz₂ : Nat → List Nat) (data : Bytes)
    (sc₁ sc₂ : List Delivery) :
    (Prog.run sz₁ (Prog.cramReadHeader crc) ⟨data, sc₁⟩).1 = (Prog.run sz₂ (Prog.cramReadHeader crc) ⟨data, sc₂⟩).1 ∧
    (Prog.run sz₁ (Prog.cramReadHeader crc) ⟨data, sc₁⟩).2.data =
      (Prog.run sz₂ (Prog.cramReadHeader crc) ⟨data, sc₂⟩).2.data :=
  prog_schedule_irrelevant _ sz₁ sz₂ data sc₁ sc₂

/-- CRAM `read_container` (header, then `take(len).read_to_end`) -/
theorem cramReadContainer_schedule_irrelevant (crc : Bytes → Nat) (sz₁ sz₂ : Nat → List Nat) (data : Bytes)
    (sc₁ sc₂ : List Delivery) :
    (Prog.run sz₁ (Prog.cramReadContainer crc) ⟨data, sc₁⟩).1 =
      (Prog.run sz₂ (Prog.cramReadContainer crc) ⟨data, sc₂⟩).1 ∧
    (Prog.run sz₁ (Prog.cramReadContainer crc) ⟨data, sc₁⟩).2.data =
      (Prog.run sz₂ (Prog.cramReadContainer crc) ⟨data, sc₂⟩).2.data :=
  prog_schedule_irrelevant _ sz₁ sz₂ data sc₁ sc₂

/-- a CRAM stream: file definition, then containers until the EOF container or the first error -/
theorem cram_file_schedule_irrelevant (crc : Bytes → Nat) (fuel : Nat) (sz₁ sz₂ : Nat → List Nat)
    (data : Bytes) (sc₁ sc₂ : List Delivery) :
    (Prog.run sz₁ (Prog.cramFile crc fuel) ⟨data, sc₁⟩).1 = (Prog.run sz₂ (Prog.cramFile crc fuel) ⟨data, sc₂⟩).1 ∧
    (Prog.run sz₁ (Prog.cramFile crc fuel) ⟨data, sc₁⟩).2.data =
      (Prog.run sz₂ (Prog.cramFile crc fuel) ⟨data, sc₂⟩).2.data :=
  prog_schedule_irrelevant _ sz₁ sz₂ data sc₁ sc₂

/-- the BAI, tabix, CSI and gzi `read_index` (over the uncompressed bytes; tabix and CSI get them
from a BGZF reader, whose deliveries — at most the rest of a block per `read` — are one more
schedule): the same index or the same error, and the same bytes left, for any two deliveries -/
theorem index_readers_schedule_irrelevant (sz₁ sz₂ : Nat → List Nat) (data : Bytes) (sc₁ sc₂ : List Delivery) :
    ((Prog.run sz₁ Prog.baiReadIndex ⟨data, sc₁⟩).1 = (Prog.run sz₂ Prog.baiReadIndex ⟨data, sc₂⟩).1 ∧
      (Prog.run sz₁ Prog.baiReadIndex ⟨data, sc₁⟩).2.data = (Prog.run sz₂ Prog.baiReadIndex ⟨data, sc₂⟩).2.data) ∧
    ((Prog.run sz₁ Prog.tabixReadIndex ⟨data, sc₁⟩).1 = (Prog.run sz₂ Prog.tabixReadIndex ⟨data, sc₂⟩).1 ∧
      (Prog.run sz₁ Prog.tabixReadIndex ⟨data, sc₁⟩).2.data = (Prog.run sz₂ Prog.tabixReadIndex ⟨data, sc₂⟩).2.data) ∧
    ((Prog.run sz₁ Prog.csiReadIndex ⟨data, sc₁⟩).1 = (Prog.run sz₂ Prog.csiReadIndex ⟨data, sc₂⟩).1 ∧
      (Prog.run sz₁ Prog.csiReadIndex ⟨data, sc₁⟩).2.data = (Prog.run sz₂ Prog.csiReadIndex ⟨data, sc₂⟩).2.data) ∧
    ((Prog.run sz₁ Prog.gziReadIndex ⟨data, sc₁⟩).1 = (Prog.run sz₂ Prog.gziReadIndex ⟨data, sc₂⟩).1 ∧
      (Prog.run sz₁ Prog.gziReadIndex ⟨data, sc₁⟩).2.data = (Prog.run sz₂ Prog.gziReadIndex ⟨data, sc₂⟩).2.data) :=
  ⟨prog_schedule_irrelevant _ sz₁ sz₂ data sc₁ sc₂, prog_schedule_irrelevant _ sz₁ sz₂ data sc₁ sc₂,
   prog_schedule_irrelevant _ sz₁ sz₂ data sc₁ sc₂, prog_schedule_irrelevant _ sz₁ sz₂ data sc₁ sc₂⟩

/-- The record / container loops of the model are bounded by fuel; with more fuel than there are bytes
the bound is never the reason a loop stops — its result does not depend on the fuel — because every
record read costs at least one byte (`read_exact_or_eof(4)` / `read_exact(4)` succeeded). So the
stream theorems speak about the loops, not about their bound. -/
theorem record_loops_fuel_irrelevant (index : Bytes → Option Err) (crc : Bytes → Nat) (f1 f2 : Nat)
    (data : Bytes) (h1 : data.length < f1) (h2 : data.length < f2) :
    Prog.runPure (Prog.bamRecordsV f1 []) data = Prog.runPure (Prog.bamRecordsV f2 []) data ∧
    Prog.runPure (Prog.bcfRecords index f1 []) data = Prog.runPure (Prog.bcfRecords index f2 []) data ∧
    Prog.runPure (Prog.cramContainers crc f1 []) data = Prog.runPure (Prog.cramContainers crc f2 []) data :=
  ⟨Prog.records_fuel_irrelevant _ Prog.bamReadRecordV_progress f1 f2 [] data h1 h2,
   Prog.records_fuel_irrelevant _ (Prog.bcfReadRecord_progress index) f1 f2 [] data h1 h2,
   Prog.records_fuel_irrelevant _ (Prog.cramReadContainer_progress crc) f1 f2 [] data h1 h2⟩

/-! ## text readers over a `BufReader` -/

/-- the lazy SAM `read_record` (ten required fields, the last required field, `read_line` for the
data fields — all appended to one buffer): same buffer, same field ends, same byte count and same
remaining stream for any two deliveries (schedule, capacity, buffer split) of the same stream -/
theorem samReadRecord_schedule_irrelevant (b₁ b₂ : BufR UInt8) (h₁ : 0 < b₁.cap) (h₂ : 0 < b₂.cap)
    (hs : b₁.stream = b₂.stream) :
    (samReadRecord b₁).1 = (samReadRecord b₂).1 ∧ (samReadRecord b₁).2.stream = (samReadRecord b₂).2.stream := by
  obtain ⟨a, b, _, _⟩ := samReadRecord_irrelB b₁ b₂ h₁ h₂ hs
  exact ⟨a, b⟩

/-- all lazy SAM records until end of stream or the first error -/
theorem sam_records_schedule_irrelevant (b₁ b₂ : BufR UInt8) (h₁ : 0 < b₁.cap) (h₂ : 0 < b₂.cap)
    (hs : b₁.stream = b₂.stream) :
    (samRecordsAll b₁).1 = (samRecordsAll b₂).1 ∧ (samRecordsAll b₁).2.stream = (samRecordsAll b₂).2.stream := by
  obtain ⟨a, b, _, _⟩ := samRecordsAll_irrelB b₁ b₂ h₁ h₂ hs
  exact ⟨a, b⟩

/-- the lazy VCF `read_record` (the buffer is a `String`: validated as UTF-8 after every field, i.e.
after the field is complete — a multi-byte character split across two deliveries is reassembled) -/
theorem vcfReadRecord_schedule_irrelevant (b₁ b₂ : BufR UInt8) (h₁ : 0 < b₁.cap) (h₂ : 0 < b₂.cap)
    (hs : b₁.stream = b₂.stream) :
    (vcfReadRecord b₁).1 = (vcfReadRecord b₂).1 ∧ (vcfReadRecord b₁).2.stream = (vcfReadRecord b₂).2.stream := by
  obtain ⟨a, b, _, _⟩ := vcfReadRecord_irrelB b₁ b₂ h₁ h₂ hs
  exact ⟨a, b⟩

theorem vcf_records_schedule_irrelevant (b₁ b₂ : BufR UInt8) (h₁ : 0 < b₁.cap) (h₂ : 0 < b₂.cap)
    (hs : b₁.stream = b₂.stream) :
    (vcfRecordsAll b₁).1 = (vcfRecordsAll b₂).1 ∧ (vcfRecordsAll b₁).2.stream = (vcfRecordsAll b₂).2.stream := by
  obtain ⟨a, b, _, _⟩ := vcfRecordsAll_irrelB b₁ b₂ h₁ h₂ hs
  exact ⟨a, b⟩

/-- the "one line, then parse it" readers — SAM and VCF `read_record_buf`, the fai and crai record
readers, GTF lines, the FASTA definition reader — for ANY line parser and with or without the UTF-8
check of `BufRead::read_line`: same items, same outcome, same remaining stream -/
theorem parsed_lines_schedule_irrelevant {ρ : Type} (utf8 : Bool) (parse : Bytes → Except Err ρ)
    (b₁ b₂ : BufR UInt8) (h₁ : 0 < b₁.cap) (h₂ : 0 < b₂.cap) (hs : b₁.stream = b₂.stream) :
    (parsedLinesAll utf8 parse b₁).1 = (parsedLinesAll utf8 parse b₂).1 ∧
    (parsedLinesAll utf8 parse b₁).2.stream = (parsedLinesAll utf8 parse b₂).2.stream := by
  obtain ⟨a, b, _, _⟩ := parsedLinesAll_irrelB utf8 parse b₁ b₂ h₁ h₂ hs
  exact ⟨a, b⟩

/-- the GFF3 line reader (blank lines skipped) -/
theorem gff_lines_schedule_irrelevant (b₁ b₂ : BufR UInt8) (h₁ : 0 < b₁.cap) (h₂ : 0 < b₂.cap)
    (hs : b₁.stream = b₂.stream) :
    (gffLinesAll b₁).1 = (gffLinesAll b₂).1 ∧ (gffLinesAll b₁).2.stream = (gffLinesAll b₂).2.stream := by
  obtain ⟨a, b, _, _⟩ := gffLinesAll_irrelB b₁ b₂ h₁ h₂ hs
  exact ⟨a, b⟩

/-! ## FASTA -/

/-- `read_sequence` on a sequence block with well-formed lines computes `specSeq` of the stream — all
bytes other than CR and LF up to the next `>` — and leaves the stream at that `>`: for every schedule,
every capacity, every split between buffer and source, and every sequence of buffer sizes std's
`read_to_end` may use. -/
theorem readSequence_refines (sizes : List Nat) (b : BufR UInt8) (hc : 0 < b.cap)
    (hwf : wfSeq LF b.stream = true) :
    (readSequence sizes b).1 = .ok (specSeq b.stream).1 ∧
    (readSequence sizes b).2.stream = (specSeq b.stream).2 := by
  obtain ⟨a, b, _⟩ := readSequence_spec sizes b hc hwf
  exact ⟨a, b⟩

-- The full statement — FALSE for the code as it is (finding F33-C12):
--   theorem readSequence_schedule_irrelevant (sz₁ sz₂ : List Nat) (b₁ b₂ : BufR UInt8)
--       (h₁ : 0 < b₁.cap) (h₂ : 0 < b₂.cap) (hs : b₁.stream = b₂.stream) :
--       (readSequence sz₁ b₁).1 = (readSequence sz₂ b₂).1 ∧
--       (readSequence sz₁ b₁).2.stream = (readSequence sz₂ b₂).2.stream

/-- the strongest true form: on well-formed sequence lines -/
theorem readSequence_schedule_irrelevant_partial (sz₁ sz₂ : List Nat) (b₁ b₂ : BufR UInt8)
    (h₁ : 0 < b₁.cap) (h₂ : 0 < b₂.cap) (hs : b₁.stream = b₂.stream) (hwf : wfSeq LF b₁.stream = true) :
    (readSequence sz₁ b₁).1 = (readSequence sz₂ b₂).1 ∧
    (readSequence sz₁ b₁).2.stream = (readSequence sz₂ b₂).2.stream := by
  obtain ⟨a1, a2⟩ := readSequence_refines sz₁ b₁ h₁ hwf
  obtain ⟨c1, c2⟩ := readSequence_refines sz₂ b₂ h₂ (by rw [← hs]; exact hwf)
  rw [a1, a2, c1, c2, hs]
  exact ⟨rfl, rfl⟩

/-- the FASTA record iterator (`read_definition`, then `read_sequence` into a fresh vector) on a text
whose sequence blocks all have well-formed lines (`wfFasta`) computes `specFasta` of the stream: for
every schedule, capacity, buffer split, and whatever buffer sizes `sizes k` std's `read_to_end` uses
for the `k`-th sequence -/
theorem fasta_records_refines (sizes : Nat → List Nat) (b : BufR UInt8) (hc : 0 < b.cap)
    (hwf : wfFasta b.stream = true) :
    (fastaRecordsAll sizes b).1 = .ok (specFasta (b.stream.length + 1) b.stream []).1 ∧
    (fastaRecordsAll sizes b).2.stream = (specFasta (b.stream.length + 1) b.stream []).2 :=
  fastaRecordsAll_spec sizes b hc hwf

/-- FASTA `records()`: same records, outcome and remaining stream for any two deliveries, on
well-formed sequence lines -/
theorem fasta_records_schedule_irrelevant_partial (sz₁ sz₂ : Nat → List Nat) (b₁ b₂ : BufR UInt8)
    (h₁ : 0 < b₁.cap) (h₂ : 0 < b₂.cap) (hs : b₁.stream = b₂.stream) (hwf : wfFasta b₁.stream = true) :
    (fastaRecordsAll sz₁ b₁).1 = (fastaRecordsAll sz₂ b₂).1 ∧
    (fastaRecordsAll sz₁ b₁).2.stream = (fastaRecordsAll sz₂ b₂).2.stream := by
  obtain ⟨a1, a2⟩ := fasta_records_refines sz₁ b₁ h₁ hwf
  obtain ⟨c1, c2⟩ := fasta_records_refines sz₂ b₂ h₂ (by rw [← hs]; exact hwf)
  rw [a1, a2, c1, c2, hs]
  exact ⟨rfl, rfl⟩

/-- F33-C12, the negation of the full statement, with witnesses: `AC>GT\nAA\n` read through a
`BufReader` of capacity 64 is `AC>GTAA`, through one of capacity 1 it is `AC` (the `>` is the first
byte of a window and ends the sequence) — and even with capacity 64, a first `read` into a 2-byte
buffer gives `AC`; `AC\rGT\nAA\n` is `AC\rGTAA` with capacity 64 and `ACGTAA` with capacity 1 (the CR
is the first byte of a window and counts as an empty line). No interruption is involved. -/
theorem readSequence_chunk_dependent_malformed :
    let gt : Bytes := [65, 67, 62, 71, 84, 10, 65, 65, 10]
    let cr : Bytes := [65, 67, 13, 71, 84, 10, 65, 65, 10]
    wfSeq LF gt = false ∧ wfSeq LF cr = false ∧
    (readSequence [] (BufR.ofSrc ⟨gt, []⟩ 64)).1 = .ok [65, 67, 62, 71, 84, 65, 65] ∧
    (readSequence [] (BufR.ofSrc ⟨gt, []⟩ 1)).1 = .ok [65, 67] ∧
    (readSequence [2] (BufR.ofSrc ⟨gt, []⟩ 64)).1 = .ok [65, 67] ∧
    (readSequence [] (BufR.ofSrc ⟨cr, []⟩ 64)).1 = .ok [65, 67, 13, 71, 84, 65, 65] ∧
    (readSequence [] (BufR.ofSrc ⟨cr, []⟩ 1)).1 = .ok [65, 67, 71, 84, 65, 65] := by
  decide +kernel

theorem readSequence_not_schedule_irrelevant :
    ¬ ∀ (sz₁ sz₂ : List Nat) (b₁ b₂ : BufR UInt8), 0 < b₁.cap → 0 < b₂.cap → b₁.stream = b₂.stream →
      (readSequence sz₁ b₁).1 = (readSequence sz₂ b₂).1 := by
  intro h
  have := h [] [] (BufR.ofSrc ⟨[65, 67, 62, 71, 84, 10, 65, 65, 10], []⟩ 64)
    (BufR.ofSrc ⟨[65, 67, 62, 71, 84, 10, 65, 65, 10], []⟩ 1) (by decide) (by decide) rfl
  revert this
  decide +kernel

/-! ## non-vacuity: concrete deliveries -/

/-- a BCF record (`l_shared` = 2, `l_indiv` = 1) delivered one byte at a time with interruptions and
odd `read_to_end` buffer sizes, and all at once -/
example :
    (Prog.run (fun _ => [1, 1]) (Prog.bcfReadRecord fun _ => none)
        ⟨[2, 0, 0, 0, 1, 0, 0, 0, 7, 8, 9, 5], [.chunk 1, .interrupted, .chunk 2, .chunk 1, .interrupted, .chunk 3]⟩).1
      = .ok (some ([7, 8], [9])) ∧
    (Prog.run (fun _ => []) (Prog.bcfReadRecord fun _ => none) ⟨[2, 0, 0, 0, 1, 0, 0, 0, 7, 8, 9, 5], []⟩).1
      = .ok (some ([7, 8], [9])) := by
  decide +kernel

/-- a two-byte ITF8 (`0x87 0x55` = 1877) split between its bytes -/
example :
    (Prog.run (fun _ => []) Prog.itf8 ⟨[0x87, 0x55, 1], [.chunk 1, .interrupted, .chunk 1]⟩).1 = .ok (1877, [0x87, 0x55]) := by
  decide +kernel

/-- `wfSeq` is satisfiable by CRLF text with an empty line and a following definition, and the
sequence reader with capacity 1 and 3-byte `read_to_end` buffers reads it as `specSeq` says -/
example :
    let t : Bytes := [65, 67, 13, 10, 13, 10, 71, 13, 10, 62, 115, 10]
    wfSeq LF t = true ∧ (specSeq t).1 = [65, 67, 71] ∧
    (readSequence [3, 3] (BufR.ofSrc ⟨t, [.interrupted, .chunk 2]⟩ 1)).1 = .ok [65, 67, 71] := by
  decide +kernel

/-- a lazy SAM record whose CRLF is split between CR and LF by a capacity-1 `BufReader` -/
example :
    let t : Bytes := [114, 9, 52, 9, 42, 9, 48, 9, 48, 9, 42, 9, 42, 9, 48, 9, 48, 9, 42, 9, 42, 13, 10]
    (samReadRecord (BufR.ofSrc ⟨t, []⟩ 1)).1 = (samReadRecord (BufR.ofSrc ⟨t, []⟩ 4096)).1 ∧
    ((samReadRecord (BufR.ofSrc ⟨t, []⟩ 1)).1.toOption.map (·.buf)) = some [114, 52, 42, 48, 48, 42, 42, 48, 48, 42, 42] := by
  decide +kernel

/-- `wfFasta` holds of a two-record CRLF text with a `>` inside a definition line, and the record
iterator reads it through a capacity-1 `BufReader` with 2-byte `read_to_end` buffers as `specFasta` says -/
example :
    let t : Bytes := [62, 97, 32, 62, 120, 13, 10, 65, 67, 13, 10, 71, 13, 10, 62, 98, 10, 84, 10]
    wfFasta t = true ∧
    (fastaRecordsAll (fun _ => [2, 2]) (BufR.ofSrc ⟨t, [.interrupted]⟩ 1)).1
      = .ok ([⟨[97], [62, 120], [65, 67, 71]⟩, ⟨[98], [], [84]⟩], none) := by
  decide +kernel

end Noodles.Props.C12
