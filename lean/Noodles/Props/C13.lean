import Noodles.Props.C13Seek
import Noodles.Props.C13More
import Noodles.Basic.Crc32
import Noodles.Trunc.Model
import Noodles.Trunc.Proof
import Noodles.Trunc.ProofCram
/-!
# C13 — a truncated file yields a prefix of the original records/bytes, then EOF or an error

Property theorems only; helper lemmas are in `Noodles/Trunc/Proof.lean` and `ProofCram.lean`, the
model in `Noodles/Trunc/Model.lean` (and `Noodles/Bgzf/Frame.lean` for the BGZF member reader,
shared with C01).

Reading guide. A file is a list of frames. For a cut offset `k`, `whole lens k = (n, j)` says that
`n` frames lie wholly inside the first `k` bytes and `j` further bytes are present (`bgzfCut`,
`bamCut`, `bcfCut`, `cramCut` are `whole` applied to the frame lengths of the respective format;
`whole_spec` pins the pair down: the `n` whole frames plus `j` make `k`, and `j` is less than the
next frame). Every theorem has the same shape:

    read (take k file) = (items of the first n frames, how the reader stops given j)

for EVERY frame list and EVERY `k` (no bound; `k` beyond the end reads the whole file).
`D : Deflater` is the external DEFLATE/CRC32 library, constrained only by `D.Lawful`.
-/
namespace Noodles.Props.C13
open Noodles.Bgzf Noodles.Trunc
open Noodles.Codec hiding Err Dec

/-- The meaning of the cut position used by all theorems below: the lengths of the `n` whole
frames plus the `j` leftover bytes are exactly `k`, and if a next frame exists then `j` is
strictly less than its length (so the cut really is inside it or at its start). -/
theorem cut_position_spec (lens : List Nat) (k : Nat) :
    ((lens.take (whole lens k).1).sum + (whole lens k).2 = k) ∧
    ((whole lens k).1 < lens.length → (whole lens k).2 < lens.getD (whole lens k).1 0) :=
  whole_spec lens k

/-- BGZF. For any list of well-formed members and any cut `k`, reading the prefix delivers exactly
the data of the members wholly inside the cut, in order; then it ends CLEANLY if every member is
inside or fewer than 18 bytes of the next member are present (the code maps `UnexpectedEof` while
reading the member header to end of input), and with `UnexpectedEof` otherwise. -/
theorem bgzf_truncate (D : Deflater) (hD : D.Lawful) (frs : List (Bytes × Bytes))
    (hg : ∀ p ∈ frs, Good D p) (k : Nat) :
    readStream D ((enc D frs).take k) =
      ((frs.take (bgzfCut D frs k).1).map (·.2),
       if (bgzfCut D frs k).1 = frs.length then .eof
       else if (bgzfCut D frs k).2 < 18 then .eof else .err .eof) :=
  bgzf_cut D hD frs hg k

/-- `readStream` is the C01 reader (`Bgzf.readAll`, the model of `read_to_end`) that additionally
keeps what was delivered before an error. -/
theorem bgzf_reader_is_c01_reader (D : Deflater) (s : Bytes) :
    readToEnd D s =
      (match readStream D s with
       | (ds, .eof) => .ok ds.flatten
       | (_, .err e) => .error e) :=
  readAll_eq_readMany D (s.length + 1) s

/-- BAM. For any list of records that pass `validate` and any cut `k` of the record stream (on a
source that ends cleanly): exactly the records wholly inside are delivered; then a clean end iff
the cut is at a record boundary, `UnexpectedEof` otherwise — never a clean end inside a record. -/
theorem bam_truncate (recs : List Bytes)
    (hv : ∀ r ∈ recs, bamValidate r = true ∧ r.length < 2 ^ 32) (k : Nat) :
    readBam .eof ((bamStream recs).take k) =
      (recs.take (bamCut recs k).1,
       if (bamCut recs k).1 = recs.length ∨ (bamCut recs k).2 = 0 then .eof else .err .eof) := by
  rw [bam_cut .eof recs hv k]
  unfold recStop
  by_cases h1 : (bamCut recs k).1 = recs.length
  · simp [h1]
  · by_cases h2 : (bamCut recs k).2 = 0 <;> simp [h1, h2, shortErr]

/-- BCF: the same for `l_shared`/`l_indiv`-framed records whose site block `Fields::index` accepts. -/
theorem bcf_truncate (index : Bytes → Option Err) (recs : List (Bytes × Bytes))
    (hv : ∀ p ∈ recs, BcfOk index p) (k : Nat) :
    readBcf index .eof ((bcfStream recs).take k) =
      (recs.take (bcfCut recs k).1,
       if (bcfCut recs k).1 = recs.length ∨ (bcfCut recs k).2 = 0 then .eof else .err .eof) := by
  rw [bcf_cut index .eof recs hv k]
  unfold recStop
  by_cases h1 : (bcfCut recs k).1 = recs.length
  · simp [h1]
  · by_cases h2 : (bcfCut recs k).2 = 0 <;> simp [h1, h2, shortErr]

/-- CRAM, at container granularity. The file is a file definition `d`, containers `cs` (each a
byte string that `read_container` reads as exactly one container) and the EOF container. For any
cut `k`: inside the definition → `UnexpectedEof`; otherwise exactly the containers wholly inside
are delivered, and the end is an ERROR unless all containers and at least the 23-byte header of
the EOF container are present (the reader stops at that header and never reads the EOF container's
15-byte body, so a cut inside that body is a clean end with every container delivered). -/
theorem cram_truncate (crc : Bytes → Nat) (hcrc : crc (CRAM_EOF.take 19) = 0x4fd9bd05)
    (d : Bytes) (hd : cramFileDefinition d = .ok ((), []))
    (cs : List (Bytes × Container)) (hc : ∀ p ∈ cs, cramStep crc p.1 = .item p.2 []) (k : Nat) :
    readCramFile crc ((d ++ ((cs.map (·.1)).flatten ++ CRAM_EOF)).take k) =
      if k < d.length then ([], .err .eof)
      else ((cs.take (cramCut cs (k - d.length)).1).map (·.2),
        if (cramCut cs (k - d.length)).1 = cs.length ∧ 23 ≤ (cramCut cs (k - d.length)).2
        then .eof else .err .eof) := by
  rw [cramFile_cut crc hcrc d hd cs hc k]
  by_cases hk : k < d.length
  · simp [hk]
  · simp only [hk, if_false, cramTailStop]
    by_cases h1 : (cramCut cs (k - d.length)).1 = cs.length
    · by_cases h2 : (cramCut cs (k - d.length)).2 < 23
      · simp [h1, h2]
      · simp [h1, h2]
    · simp [h1]

/-- A CRAM file that ends inside a data container is never a clean end of input: whenever not all
containers are wholly inside the cut, the container loop ends with an error. -/
theorem cram_never_clean_inside_container (crc : Bytes → Nat)
    (hcrc : crc (CRAM_EOF.take 19) = 0x4fd9bd05)
    (d : Bytes) (hd : cramFileDefinition d = .ok ((), []))
    (cs : List (Bytes × Container)) (hc : ∀ p ∈ cs, cramStep crc p.1 = .item p.2 []) (k : Nat)
    (hclean : (readCramFile crc ((d ++ ((cs.map (·.1)).flatten ++ CRAM_EOF)).take k)).2 = .eof) :
    d.length ≤ k ∧ (cramCut cs (k - d.length)).1 = cs.length := by
  rw [cram_truncate crc hcrc d hd cs hc k] at hclean
  by_cases hk : k < d.length
  · simp [hk] at hclean
  · simp only [hk, if_false] at hclean
    refine ⟨by omega, ?_⟩
    by_cases h1 : (cramCut cs (k - d.length)).1 = cs.length
    · exact h1
    · simp [h1] at hclean

/-- A BAM record reader on top of the BGZF reader, on a file cut anywhere. `hdr` is the (already
consumed) BAM header; the BGZF layer delivers `d` and then ends as `z.2` (by `bgzf_truncate`).
The records wholly inside `d` are delivered; the end is clean only if the BGZF layer ended cleanly
AND `d` ends at a record boundary; an error of the BGZF layer is passed on. -/
theorem bam_over_bgzf_truncate (D : Deflater) (hD : D.Lawful) (frs : List (Bytes × Bytes))
    (hg : ∀ p ∈ frs, Good D p) (hdr : Bytes) (recs : List Bytes)
    (hv : ∀ r ∈ recs, bamValidate r = true ∧ r.length < 2 ^ 32)
    (hpay : datas frs = hdr ++ bamStream recs) (k : Nat)
    (hh : hdr.length ≤ (readStream D ((enc D frs).take k)).1.flatten.length) :
    let z := readStream D ((enc D frs).take k)
    let m := z.1.flatten.length - hdr.length
    readBam z.2 (z.1.flatten.drop hdr.length) =
      (recs.take (bamCut recs m).1,
       if (bamCut recs m).1 = recs.length ∨ (bamCut recs m).2 = 0 then z.2
       else .err (shortErr z.2)) := by
  intro z m
  have hz : z.1.flatten = datas (frs.take (bgzfCut D frs k).1) := by
    show (readStream D ((enc D frs).take k)).1.flatten = _
    rw [bgzf_cut D hD frs hg k]
    rfl
  have hd : z.1.flatten.drop hdr.length = (bamStream recs).take m := by
    show _ = (bamStream recs).take (z.1.flatten.length - hdr.length)
    have h1 := datas_take frs (bgzfCut D frs k).1
    rw [hpay, ← hz] at h1
    have h2 : z.1.flatten.drop hdr.length =
        ((hdr ++ bamStream recs).take z.1.flatten.length).drop hdr.length := by rw [← h1]
    rw [h2, drop_take_append hdr _ _ hh]
  rw [hd, bam_cut z.2 recs hv m]
  unfold recStop
  by_cases h1 : (bamCut recs m).1 = recs.length
  · simp [h1]
  · by_cases h2 : (bamCut recs m).2 = 0 <;> simp [h1, h2]

/-- Never a clean end of file inside a record, whatever lies underneath: if the BAM record loop
over a source that delivers a prefix of the record stream and then ends in ANY way reports a clean
end, then every record was delivered or the delivered bytes end exactly at a record boundary. -/
theorem never_clean_eof_inside_record (fin : End) (recs : List Bytes)
    (hv : ∀ r ∈ recs, bamValidate r = true ∧ r.length < 2 ^ 32) (m : Nat)
    (hclean : (readBam fin ((bamStream recs).take m)).2 = .eof) :
    (bamCut recs m).1 = recs.length ∨ (bamCut recs m).2 = 0 := by
  rw [bam_cut fin recs hv m] at hclean
  by_cases h1 : (bamCut recs m).1 = recs.length
  · exact Or.inl h1
  · by_cases h2 : (bamCut recs m).2 = 0
    · exact Or.inr h2
    · simp [h1, recStop, h2] at hclean

/-- No fabrication, no alteration, no reordering: whatever the cut, what each reader delivers is a
prefix (`<+:`) of what was written — bytes for BGZF, records for BAM and BCF (over a source that
ends in any way), containers for CRAM. -/
theorem no_fabrication :
    (∀ (D : Deflater) (_ : D.Lawful) (frs : List (Bytes × Bytes)) (_ : ∀ p ∈ frs, Good D p) (k : Nat),
      (readStream D ((enc D frs).take k)).1.flatten <+: datas frs) ∧
    (∀ (fin : End) (recs : List Bytes) (_ : ∀ r ∈ recs, bamValidate r = true ∧ r.length < 2 ^ 32)
      (k : Nat), (readBam fin ((bamStream recs).take k)).1 <+: recs) ∧
    (∀ (index : Bytes → Option Err) (fin : End) (recs : List (Bytes × Bytes))
      (_ : ∀ p ∈ recs, BcfOk index p) (k : Nat),
      (readBcf index fin ((bcfStream recs).take k)).1 <+: recs) ∧
    (∀ (crc : Bytes → Nat) (_ : crc (CRAM_EOF.take 19) = 0x4fd9bd05)
      (cs : List (Bytes × Container)) (_ : ∀ p ∈ cs, cramStep crc p.1 = .item p.2 []) (k : Nat),
      (readCram crc (((cs.map (·.1)).flatten ++ CRAM_EOF).take k)).1 <+: cs.map (·.2)) := by
  refine ⟨?_, ?_, ?_, ?_⟩
  · intro D hD frs hg k
    rw [bgzf_cut D hD frs hg k]
    exact datas_take_prefix frs _
  · intro fin recs hv k
    rw [bam_cut fin recs hv k]
    exact List.take_prefix _ _
  · intro index fin recs hv k
    rw [bcf_cut index fin recs hv k]
    exact List.take_prefix _ _
  · intro crc hcrc cs hc k
    rw [cram_cut crc hcrc cs hc k]
    exact List.IsPrefix.map _ (List.take_prefix _ _)

/-- Headers. A BAM header (magic, `l_text` + text, `n_ref` and the reference entries) or a BCF
header (magic, version, `l_text` + text; the reader AS FIXED by
`fixes/bcf-header-truncated-text.diff`) that is cut anywhere is `UnexpectedEof` at the framing
level, never a shorter header. -/
theorem header_truncate :
    (∀ h : Bytes, bamHeader h = .ok ((), []) → ∀ j, j < h.length → bamHeader (h.take j) = .error .eof) ∧
    (∀ h : Bytes, bcfHeader h = .ok ((), []) → ∀ j, j < h.length → bcfHeader (h.take j) = .error .eof) :=
  ⟨fun h hok j hj => PS_strict_prefix _ PS_bamHeader h () hok j hj,
   fun h hok j hj => PS_strict_prefix _ PS_bcfHeader h () hok j hj⟩

/-- BCF over BGZF: as `bam_over_bgzf_truncate`. -/
theorem bcf_over_bgzf_truncate (D : Deflater) (hD : D.Lawful) (frs : List (Bytes × Bytes))
    (hg : ∀ p ∈ frs, Good D p) (index : Bytes → Option Err) (hdr : Bytes)
    (recs : List (Bytes × Bytes)) (hv : ∀ p ∈ recs, BcfOk index p)
    (hpay : datas frs = hdr ++ bcfStream recs) (k : Nat)
    (hh : hdr.length ≤ (readStream D ((enc D frs).take k)).1.flatten.length) :
    let z := readStream D ((enc D frs).take k)
    let m := z.1.flatten.length - hdr.length
    readBcf index z.2 (z.1.flatten.drop hdr.length) =
      (recs.take (bcfCut recs m).1,
       if (bcfCut recs m).1 = recs.length ∨ (bcfCut recs m).2 = 0 then z.2
       else .err (shortErr z.2)) := by
  intro z m
  have hz : z.1.flatten = datas (frs.take (bgzfCut D frs k).1) := by
    show (readStream D ((enc D frs).take k)).1.flatten = _
    rw [bgzf_cut D hD frs hg k]
    rfl
  have hd : z.1.flatten.drop hdr.length = (bcfStream recs).take m := by
    show _ = (bcfStream recs).take (z.1.flatten.length - hdr.length)
    have h1 := datas_take frs (bgzfCut D frs k).1
    rw [hpay, ← hz] at h1
    have h2 : z.1.flatten.drop hdr.length =
        ((hdr ++ bcfStream recs).take z.1.flatten.length).drop hdr.length := by rw [← h1]
    rw [h2, drop_take_append hdr _ _ hh]
  rw [hd, bcf_cut index z.2 recs hv m]
  unfold recStop
  by_cases h1 : (bcfCut recs m).1 = recs.length
  · simp [h1]
  · by_cases h2 : (bcfCut recs m).2 = 0 <;> simp [h1, h2]

/-! ## the hypotheses are satisfiable -/

/-- a toy lawful library: "stored" blocks behind a marker byte -/
def toyD : Deflater where
  deflate := fun _ x => 1 :: x
  inflate := fun c n =>
    match c with
    | [3, 0] => if n = 0 then some [] else none
    | 1 :: x => if x.length = n then some x else none
    | _ => none
  crc := fun _ => 0

theorem toyD_lawful : toyD.Lawful where
  roundtrip := by intro l x; simp [toyD]
  level0 := by intro x hx; simp only [toyD, List.length_cons, MAX_COMPRESSED_eq]; rw [MAX_BUF_eq] at hx; omega
  crc_lt := by intro x; simp [toyD]
  eof_block := by simp [toyD]
  crc_nil := rfl

example : ∃ frs : List (Bytes × Bytes), frs.length = 2 ∧ ∀ p ∈ frs, Good toyD p :=
  ⟨[([1, 7, 8], [7, 8]), ([1, 9], [9])], rfl, by
    intro p hp
    simp only [List.mem_cons, List.not_mem_nil, or_false] at hp
    rcases hp with rfl | rfl <;> simp [Good, toyD]⟩

/-- 32 zero bytes are a BAM record that `validate` accepts (empty name, CIGAR, bases) -/
example : bamValidate (List.replicate 32 0) = true ∧ (List.replicate 32 (0 : UInt8)).length < 2 ^ 32 := by
  decide

example : BcfOk (fun _ => none) ([1, 2, 3], [4]) := by simp [BcfOk]

/-- a BAM header with an empty text and one reference `"a\0"`, a BCF header with a 2-byte text -/
example : bamHeader (BAM_MAGIC ++ [0, 0, 0, 0] ++ [1, 0, 0, 0] ++ [2, 0, 0, 0, 97, 0] ++ [9, 0, 0, 0]) =
    .ok ((), []) := by rfl
example : bcfHeader (BCF_MAGIC ++ [2, 2] ++ [2, 0, 0, 0] ++ [10, 0]) = .ok ((), []) := by rfl

/-- the CRC hypothesis of `cram_truncate` holds for the real CRC-32 -/
theorem crc32_eof_header : Noodles.Crc32.crc32 (CRAM_EOF.take 19) = 0x4fd9bd05 := by decide +kernel

/-- a file definition, and a one-byte container (reference 0, start 1, span 1, no landmarks) whose
stored CRC32 is the real CRC-32 of its header -/
example : cramFileDefinition (CRAM_MAGIC ++ [3, 0] ++ List.replicate 20 0) = .ok ((), []) := by
  rfl

example : ∃ a, cramStep Noodles.Crc32.crc32
    ([1, 0, 0, 0, 0, 1, 1, 0, 0, 0, 0, 0] ++
      le 4 (Noodles.Crc32.crc32 [1, 0, 0, 0, 0, 1, 1, 0, 0, 0, 0, 0]) ++ [42]) = .item a [] :=
  isItemNil_eq _ (by decide +kernel)

end Noodles.Props.C13
