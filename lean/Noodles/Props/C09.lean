import Noodles.Props.C09LazyAny
import Noodles.Props.C09Header
import Noodles.Vcf.Model
import Noodles.Vcf.Lazy
import Noodles.Vcf.RecordProof
import Noodles.Vcf.RecordMain
import Noodles.Vcf.LazyProof
import Noodles.Vcf.SpanProof
import Noodles.Vcf.HeaderModel
import Noodles.Vcf.HeaderProof
/-!
# C09 — VCF records round-trip through text; the lazy and the eager view agree

Model: `Noodles/Vcf/Model.lean` (writer `write_record`, eager reader `parse_record_buf`),
`Noodles/Vcf/Lazy.lean` (lazy `vcf::Record`, its conversion to `RecordBuf`, `variant_end` on both
views). Helper lemmas: `Noodles/Vcf/{RecordProof,RecordMain,LazyProof,SpanProof}.lean`.

Every theorem quantifies over ALL header contexts `h` (any file format, any INFO / FORMAT
declarations, any reserved-definition tables, any number of samples), ALL float libraries `F` that
satisfy the float law `F.Lawful canon`, and ALL records `r` that are well-formed for `h`
(`WF canon h r`: the record is consistent with the header and lies inside the VCF text grammar —
see `Noodles.Vcf.WF`, `InfoFieldOk`, `SampleOk`, `ValOK`). Nothing is bounded.

Equality is up to the text's own normal form `normRec` (DESIGN §4 C09): a sample that is the lone
missing value reads back as a sample without values, and before VCF 4.4 the first allele of a
genotype has the phasing that the text implies.

The theorems hold for /repo only since two `fix:` commits of this round (the code before them
violates the statements; witnesses):
* b6be8f2 (F18) — a sample without values was written as an EMPTY column and then rejected by the
  reader: `keys = [GT]`, `samples = [[], [0/1]]` gave `…\tGT\t\t0/1` → `invalid samples`.
* 2ba27cc — the eager reader did not percent-decode Character values that the writer
  percent-encodes: `INFO C=';'` (Number=1, Type=Character) is written `C=%3B` and was rejected
  (`InvalidCharacter`), while the lazy record decoded it.
-/
namespace Noodles.Props.C09
open Noodles.Vcf

variable (F : FloatFmt) (canon : Nat → Prop)

/-- Strings: `write_string` then `percent_decode` is the identity on valid UTF-8, and the written
text is not `.` and contains none of the bytes that delimit it (TAB, `,`, and the column's own
field delimiter `;` resp. `:`) — the escape set makes the later splits safe. -/
theorem vcf_string_roundtrip (s : Bytes) (hu : utf8Valid s = true) :
    (parseString (writeString escInfo s) = some s ∧ writeString escInfo s ≠ DOT ∧
      (9 : UInt8) ∉ writeString escInfo s ∧ (59 : UInt8) ∉ writeString escInfo s ∧
      (44 : UInt8) ∉ writeString escInfo s) ∧
    (parseString (writeString escSample s) = some s ∧ writeString escSample s ≠ DOT ∧
      (9 : UInt8) ∉ writeString escSample s ∧ (58 : UInt8) ∉ writeString escSample s ∧
      (44 : UInt8) ∉ writeString escSample s) :=
  ⟨⟨parseString_writeString escInfo (by decide) s hu, writeString_ne_dot escInfo s,
    writeString_free escInfo s 9 (by decide) notHex_9, writeString_free escInfo s 59 (by decide) notHex_59,
    writeString_free escInfo s 44 (by decide) notHex_44⟩,
   ⟨parseString_writeString escSample (by decide) s hu, writeString_ne_dot escSample s,
    writeString_free escSample s 9 (by decide) notHex_9, writeString_free escSample s 58 (by decide) notHex_58,
    writeString_free escSample s 44 (by decide) notHex_44⟩⟩

/-- Characters: every Unicode scalar value, escaped or not, reads back (since commit 2ba27cc). -/
theorem vcf_character_roundtrip (c : Bytes) (hc : IsChar c) :
    parseChar (writeChar chrInfo c) = some c ∧ parseChar (writeChar chrSample c) = some c :=
  ⟨parseChar_writeChar chrInfo (by decide) c hc, parseChar_writeChar chrSample (by decide) c hc⟩

/-- INFO fields, every `Number × Type` combination: a field that is well typed for the header
(`InfoFieldOk`: Flag under `Number=0`, scalars under `Number=1`, arrays — with missing entries —
under every other Number, Integer / Float / Character / String, a missing value, or a Flag /
String under an undeclared key) is written, and `parse_field` returns it. -/
theorem vcf_info_roundtrip (hF : F.Lawful canon) (h : Hdr) (kv : Bytes × Option Val)
    (hkv : InfoFieldOk canon h kv) :
    ∃ t, writeInfoField F h kv = some t ∧ parseInfoField F h t = some kv := by
  obtain ⟨rs, hrs⟩ := fieldRel_exists F canon hF h [kv] (by simpa using hkv)
  cases hrs with
  | cons hd _ => exact ⟨_, hd.2.2.1, hd.parse⟩

/-- Genotypes of any ploidy and phasing, with missing alleles: the written text reads back (eager
and lazy) as the genotype itself from VCF 4.4 on, and as its normal form before. -/
theorem vcf_genotype_roundtrip (h : Hdr) (g : List Allele) (hg : GtOk h g) :
    parseGenotype (writeGenotype h g) = some (normGt h g) ∧
    lazyGenotype (writeGenotype h g) = some (normGt h g) ∧
    (h.before 4 4 = false → normGt h g = g) := by
  obtain ⟨a, b, _, _⟩ := genotype_spec h g hg.1 hg.2.1 hg.2.2
  exact ⟨a, b, fun hv => by simp [normGt, hv]⟩

/-- Records: every well-formed record is accepted by the writer and the eager reader returns it
(up to `normRec`), including records without samples, missing values inside arrays, reserved
characters in strings and characters, every INFO / FORMAT typing. -/
theorem vcf_record_roundtrip (hF : F.Lawful canon) (h : Hdr) (r : Rec) (w : WF canon h r) :
    ∃ line, writeRecord F h r = .ok line ∧ parseRecord F h line = .ok (normRec h r) := by
  obtain ⟨rs, ts, W⟩ := written_exists F canon hF h r w
  exact ⟨_, W.line, parse_written F canon hF h r w rs ts W⟩

/-- The normal form is a fixed point: a record that is already normal (no lone-missing sample, and
before 4.4 implied first phasing) reads back exactly. -/
theorem vcf_record_roundtrip_exact (hF : F.Lawful canon) (h : Hdr) (r : Rec) (w : WF canon h r)
    (hn : normRec h r = r) :
    ∃ line, writeRecord F h r = .ok line ∧ parseRecord F h line = .ok r := by
  obtain ⟨line, a, b⟩ := vcf_record_roundtrip F canon hF h r w
  exact ⟨line, a, by rw [hn] at b; exact b⟩

/-- Lazy = eager: on the writer's line the lazy record (eight field bounds on one buffer, values
parsed on access) converts to exactly the record the eager reader returns. -/
theorem vcf_lazy_eq_eager (hF : F.Lawful canon) (h : Hdr) (r : Rec) (w : WF canon h r) :
    ∃ line, writeRecord F h r = .ok line ∧
      lazyParse F h line = some (normRec h r) ∧ parseRecord F h line = .ok (normRec h r) := by
  obtain ⟨rs, ts, W⟩ := written_exists F canon hF h r w
  exact ⟨_, W.line, lazy_written F canon hF h r w rs ts W, parse_written F canon hF h r w rs ts W⟩

/-- Both views report the same variant end (INFO END before 4.5; from 4.5 the maximum of |REF|,
INFO SVLEN and FORMAT LEN; `none` = both report an error, e.g. position overflow). -/
theorem vcf_span_agree (hF : F.Lawful canon) (h : Hdr) (r : Rec) (w : WF canon h r) :
    ∃ line z, writeRecord F h r = .ok line ∧ lazyRead line = some z ∧
      parseRecord F h line = .ok (normRec h r) ∧
      lazyEnd F h z = eagerEnd h (normRec h r) := by
  obtain ⟨rs, ts, W⟩ := written_exists F canon hF h r w
  have hst : samplesText r.keys ts = [] ∨ ∃ t, samplesText r.keys ts = TAB :: t := by
    unfold samplesText; split
    · left; rfl
    · right; exact ⟨_, rfl⟩
  refine ⟨_, _, W.line, ?_, parse_written F canon hF h r w rs ts W, span_written F canon hF h r w rs ts W⟩
  exact lazyRead_line _ _ _ _ _ _ _ _ _ (chrom_ok r.chrom w.chrom) (parsePos_ok r.pos w.pos).2
    (ids_column r.ids w.ids.1 w.ids.2).2.1 (ref_ok r.ref w.ref).2 (alts_column r.alts w.alts).2.1
    (qual_column F canon hF r.qual w.qual).1 (filters_column r.filters w.filters.1 w.filters.2).2.1
    (info_column' W.wf_info w.info.2).2.1 hst

/-- The span rule in closed form, before VCF 4.5: INFO END when present (it must be a positive
integer), else POS + |REF| − 1 (POS = 1 at the telomere; `none` on overflow of `usize`). -/
theorem vcf_span_rule_before_4_5 (h : Hdr) (r : Rec) (hv : h.before 4 5 = true) :
    (∀ n, infoGet END r.info = some (some (.integer n)) →
      eagerEnd h r = if 1 ≤ n then some n.toNat else none) ∧
    ((infoGet END r.info = none ∨ infoGet END r.info = some none) →
      eagerEnd h r = if r.ref.length = 0 then none else endFrom (some r.pos) r.ref.length) := by
  refine ⟨fun n hn => ?_, fun hn => ?_⟩
  · simp [eagerEnd, variantEndCore, hv, hn]
  · rcases hn with hn | hn <;> simp [eagerEnd, variantEndCore, hv, hn]

/-! ### header lines (model `Noodles/Vcf/HeaderModel.lean`, lemmas `Noodles/Vcf/HeaderProof.lean`)

The whole-header theorem (`vcf_header_roundtrip`: line framing, the parser's state machine,
FILTER / ALT / contig / META / PEDIGREE / unstructured lines, the column line) is not proved yet;
those paths are compared with the real code on every run and checked by the oracle. -/

open Noodles.Vcf.Header in
/-- Structured header lines, any key: a map `<k0=v0,k1=v1,…>` whose values are written raw (no
`,` `>`, not starting with `"`) or quoted with `\` and `"` escaped — ANY byte string — is split
back into exactly its `(key, value)` pairs, whatever follows the `>`. -/
theorem vcf_header_fields_roundtrip (k0 : Bytes) (f0 : FV) (fs : List (Bytes × FV)) (rest : Bytes)
    (hk : KeyOk k0) (hf : f0.Ok) (hall : ∀ kf ∈ fs, KeyOk kf.1 ∧ kf.2.Ok) :
    parseMapFields (60 :: (k0 ++ 61 :: f0.text ++ fieldsText fs ++ 62 :: rest)) =
      some ((k0, f0.val) :: vals fs) :=
  parseMapFields_text k0 f0 fs rest hk hf hall

open Noodles.Vcf.Header in
/-- `##INFO=<…>`: every INFO record (any Number among n/A/R/G/., any Type, any description, optional
IDX, any other fields with distinct non-standard tags) that agrees with the reserved definitions is
written as one line that `parse_record` reads back as the same record, for every file format and
every definition table. -/
theorem vcf_header_info_line_roundtrip (D : DefTables) (maj min : Nat) (l : InfoL)
    (h : InfoLOk STD_TYPED l) (hn : InfoNum l.num) (hdef : defOk (D.info maj min) l = true) :
    ∃ line, writeInfoL K_INFO l = line ++ [10] ∧ parseRecordLine D maj min line = some (.info l) :=
  info_line D maj min l h hn hdef

open Noodles.Vcf.Header in
/-- `##FORMAT=<…>`: the same for FORMAT records, with every Number the writer emits — including
`LA LR LG P M` (parsed since commit 523621b) — and every non-Flag Type. -/
theorem vcf_header_format_line_roundtrip (D : DefTables) (maj min : Nat) (l : InfoL)
    (h : InfoLOk STD_TYPED l) (ht : l.ty ≠ .flag) (hdef : defOk (D.format maj min) l = true) :
    ∃ line, writeInfoL K_FORMAT l = line ++ [10] ∧ parseRecordLine D maj min line = some (.format l) :=
  format_line D maj min l h ht hdef

/-! ### non-vacuity: the hypotheses are satisfiable -/

open Noodles.Vcf.Header in
/-- `##FORMAT=<ID=PSL,Number=P,Type=String,Description="a \"q\"",IDX=3,x="1,2>">` -/
example : InfoLOk STD_TYPED ⟨[80, 83, 76], .p, .string, [97, 32, 34, 113, 34], some 3, [([120], [49, 44, 50, 62])]⟩ where
  id := by unfold RawVal; decide
  idx := by intro n hn; cases hn; decide
  count := by intro n hn; cases hn
  others_keys := by
    intro kv hkv
    simp at hkv
    subst hkv
    exact ⟨by unfold KeyOk; decide, by unfold STD_TYPED ID NUMBER TYPE DESCRIPTION IDX; decide⟩
  others_dup := by decide


/-- a lawful float library exists (one canonical float, `0`) -/
def F0 : FloatFmt := ⟨fun _ => [48], fun t => if t = [48] then some 0 else none⟩

example : F0.Lawful (· = 0) :=
  ⟨fun b hb => by subst hb; rfl, fun _ _ => by simp [F0], fun _ _ => by simp [F0, DOT],
   fun _ _ x hx => by simp [F0] at hx; subst hx; decide⟩

/-- a header context and a record with a flag, an integer array with a missing entry, a genotype
and a sample without values — the F18 shape — is well formed -/
def h0 : Hdr := ⟨4, 3, [([68, 66], .count 0, .flag), ([65, 67], .a, .integer)], [(GT, .count 1, .string)], 2, [], []⟩
def r0 : Rec := ⟨[115, 113, 48], some 5, [], [65], [], some 0, [],
  [([68, 66], some .flag), ([65, 67], some (.ints [some 3, none]))], [GT],
  [[some (.genotype [⟨some 0, true⟩, ⟨some 1, false⟩])], []]⟩

example : WF (· = 0) h0 r0 where
  chrom := by decide
  pos := by intro n hn; cases hn; decide
  ids := ⟨by simp [r0], by decide⟩
  ref := ⟨by decide, by intro b hb; simp [r0] at hb; subst hb; decide⟩
  alts := by simp [r0]
  qual := by intro b hb; cases hb; rfl
  filters := ⟨by simp [r0], by decide⟩
  info := by
    refine ⟨?_, by decide⟩
    intro kv hkv
    simp [r0] at hkv
    rcases hkv with rfl | rfl
    · exact ⟨by decide, by simp [InfoFieldOk, h0, Hdr.infoDef, lookup, Num.shape]⟩
    · refine ⟨by decide, ?_⟩
      simp only [InfoFieldOk, h0, Hdr.infoDef, lookup]
      exact ValOK.ints _ (by simp) (by simp) (by
        intro n hn; simp at hn; subst hn; unfold I32Ok I32_MIN_VALID; omega)
  nsamples := rfl
  keys := by simp [r0, KeysOk, GT]; decide
  samples := by
    intro s hs
    simp [r0] at hs
    rcases hs with rfl | rfl
    · refine ⟨by simp [r0], ?_⟩
      intro p hp
      simp [r0] at hp
      subst hp
      simp only [SampleValOk, if_true]
      exact ⟨_, rfl, by simp, by
        intro a ha n hn; simp at ha; rcases ha with rfl | rfl <;> (cases hn; decide), by simp⟩
    · exact ⟨by simp [r0], by intro p hp; simp [r0] at hp⟩

end Noodles.Props.C09
