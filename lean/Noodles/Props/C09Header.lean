import Noodles.Vcf.HeaderWF
import Noodles.Vcf.HeaderLinesProof
import Noodles.Vcf.HeaderWholeProof
/-!
# C09 — the whole VCF header round-trips through text

Model: `Noodles/Vcf/HeaderModel.lean` (writer `write_header`, parser `header::Parser`, line framing
of `io/reader/header.rs`) and `Noodles/Vcf/HeaderWF.lean` (`wfHeader`, `parseStr`). Helper lemmas:
`Noodles/Vcf/{HeaderProof,HeaderLinesProof,HeaderWholeProof}.lean`.

Every theorem quantifies over ALL reserved-definition tables `D`, ALL file formats and ALL header
values / lines that satisfy the stated `wf…` condition; nothing is bounded. The `wf…` conditions are
`Bool` functions (decidable by construction, evaluated by the driver on every generated header and
compared with the harness's own copy): `HeaderWF.lean` says clause by clause which of them is a
fact about the Rust types, which is the one check the writer makes, and which is a byte the text
cannot carry.

The contig writer is modelled AS FIXED by fixes/vcf-contig-url-unquoted.diff: `md5` and `URL` are
written quoted when the unquoted form would not read back (the code before the fix wrote
`##contig=<ID=sq0,URL=http://h/a,b>`, which its own parser rejects — also for a header that
noodles had parsed from `URL="http://h/a,b"`; witness `vcf_header_contig_url_comma_reads_back`).

The writer (`io/writer/header.rs`) rejects NOTHING but an unstructured value that is empty or starts
with `<` (from VCF 4.3). The unrestricted statement "reader (write_header h) = h for every header
the writer accepts" is therefore false; `vcf_header_roundtrip_needs_wf_*` below prove its negation
on concrete witnesses, one per kind of clause (each is replayed on the real code by the corpus of
harness/src/props/c09_header.rs):

    theorem vcf_header_roundtrip_unrestricted (D : DefTables) (h : Header) (t : Bytes)
        (hw : writeHeader h = some t) : parseHeader D t = .ok h          -- FALSE
-/
namespace Noodles.Props.C09
open Noodles.Vcf Noodles.Vcf.Header
open Noodles.Text (printNat)

/-! ### one line of every kind -/

/-- `##fileformat=VCFv<major>.<minor>`: every `u32` pair reads back, whatever version the parser
assumed before (`parse_file_format` runs `parse_record` with `FileFormat::default()`). -/
theorem vcf_header_fileformat_roundtrip (D : DefTables) (a b maj min : Nat)
    (h1 : maj ≤ U32_MAX) (h2 : min ≤ U32_MAX) :
    parseRecordLine D a b (FILEFORMAT_LINE ++ printNat maj ++ 46 :: printNat min) = some (.fileFormat maj min) :=
  ff_line D a b maj min h1 h2

/-- `##FILTER=<ID=…,Description="…"[,IDX=n][,tag="value"]…>` (PASS is a FILTER record like any
other: the text header has no special case for it). -/
theorem vcf_header_filter_line_roundtrip (D : DefTables) (maj min : Nat) (l : FilterL)
    (h : wfFilter l = true) :
    ∃ line, writeFilterL l = line ++ [10] ∧ parseRecordLine D maj min line = some (.filter l) :=
  ⟨filterLine l, writeFilterL_eq l, filter_line D maj min l h⟩

/-- `##ALT=<ID=…,Description="…"[,tag="value"]…>` -/
theorem vcf_header_alt_line_roundtrip (D : DefTables) (maj min : Nat) (l : AltL) (h : wfAlt l = true) :
    ∃ line, writeAltL l = line ++ [10] ∧ parseRecordLine D maj min line = some (.alt l) :=
  ⟨altLine l, writeAltL_eq l, alt_line D maj min l h⟩

/-- `##contig=<ID=…[,length=n][,md5=…][,URL=…][,IDX=n][,tag="value"]…>`, every subset of the
optional fields; `md5` and `URL` are ANY bytes but LF — the writer quotes them when the unquoted
form would not read back (fix `vcf-contig-url-unquoted`) -/
theorem vcf_header_contig_line_roundtrip (D : DefTables) (maj min : Nat) (l : ContigL)
    (h : wfContig l = true) :
    ∃ line, writeContigL l = line ++ [10] ∧ parseRecordLine D maj min line = some (.contig l) :=
  ⟨contigLine l, writeContigL_eq l, contig_line D maj min l h⟩

/-- `##INFO=<…>` as an explicit `Bool` condition (the `Prop` form is
`vcf_header_info_line_roundtrip` of `Props/C09.lean`) -/
theorem vcf_header_info_line_roundtrip_wf (D : DefTables) (maj min : Nat) (l : InfoL)
    (h : wfInfo (D.info maj min) l = true) :
    ∃ line, writeInfoL K_INFO l = line ++ [10] ∧ parseRecordLine D maj min line = some (.info l) :=
  ⟨typedLine K_INFO l, writeInfoL_eq' K_INFO l, info_line' D maj min l h⟩

/-- `##FORMAT=<…>` likewise -/
theorem vcf_header_format_line_roundtrip_wf (D : DefTables) (maj min : Nat) (l : InfoL)
    (h : wfFormat (D.format maj min) l = true) :
    ∃ line, writeInfoL K_FORMAT l = line ++ [10] ∧ parseRecordLine D maj min line = some (.format l) :=
  ⟨typedLine K_FORMAT l, writeInfoL_eq' K_FORMAT l, format_line' D maj min l h⟩

/-- `##META=<ID=…,…>`: `Number`, `Type`, `Values` unquoted — from 4.3 `Values=[a, b, …]` with its
commas (`parse_values`) —, every other field quoted -/
theorem vcf_header_meta_line_roundtrip (D : DefTables) (maj min : Nat) (m : OtherL)
    (h : wfOtherMap maj min META m = true) :
    ∃ line, writeOtherL META m = line ++ [10] ∧ parseRecordLine D maj min line = some (.otherMap META m) :=
  ⟨metaLine m, writeOtherL_meta m, meta_line D maj min m h⟩

/-- `##PEDIGREE=<ID=…,…>`, and before 4.3 `<Child=…,…>` / `<Derived=…,…>`: the tag that carries the
id reads back too -/
theorem vcf_header_pedigree_line_roundtrip (D : DefTables) (maj min : Nat) (m : OtherL)
    (h : wfOtherMap maj min PEDIGREE m = true) :
    ∃ line, writeOtherL PEDIGREE m = line ++ [10] ∧
      parseRecordLine D maj min line = some (.otherMap PEDIGREE m) :=
  ⟨pedLine m, writeOtherL_ped m, ped_line D maj min m h⟩

/-- `##key=<ID=…[,tag="value"]…>` for any other key (SAMPLE, …) -/
theorem vcf_header_other_map_line_roundtrip (D : DefTables) (maj min : Nat) (key : Bytes) (m : OtherL)
    (hk : keyOk key = true) (hM : key ≠ META) (hP : key ≠ PEDIGREE) (h : wfOtherMap maj min key m = true) :
    ∃ line, writeOtherL key m = line ++ [10] ∧ parseRecordLine D maj min line = some (.otherMap key m) :=
  ⟨otherLine key m, writeOtherL_eq key m hM, other_line D maj min key m hk hM hP h⟩

/-- `##key=value`: the writer accepts the value and the line reads back as the same string (`=`
`,` `"` `<` `>` inside the value are all fine) -/
theorem vcf_header_unstructured_line_roundtrip (D : DefTables) (maj min : Nat) (key v : Bytes)
    (hk : keyOk key = true) (hM : key ≠ META) (hP : key ≠ PEDIGREE) (h : unstrOk maj min v = true) :
    ∃ line, writeUnstructured maj min key v = some (line ++ [10]) ∧
      parseRecordLine D maj min line = some (.otherStr key v) :=
  ⟨unstrLine key v, writeUnstructured_eq maj min key v h, unstr_line D maj min key v hk hM hP h⟩

/-- what `write_string` refuses, exactly: from 4.3 the empty value and a value that starts with `<` -/
theorem vcf_header_unstructured_rejected (maj min : Nat) (key v : Bytes) :
    writeUnstructured maj min key v = none ↔
      (before maj min 4 3 = false ∧ (v = [] ∨ v.head? = some 60)) := by
  unfold writeUnstructured
  cases hb : before maj min 4 3 <;> cases v with
  | nil => simp
  | cons b r => simp

/-- the `#CHROM` line, without and with `FORMAT` + sample names. The writer emits every name as it
is and rejects none (`writeColumns` is total); names that contain no TAB and are pairwise distinct
(`SampleNames` is an `IndexSet`) are read back — the empty name, names with spaces, `:` `=` `#`, the
name `FORMAT` included. `vcf_header_roundtrip_needs_wf_sample_tab` / `_cr` show what happens to a
TAB, and to a CR at the end of the line. -/
theorem vcf_header_columns_roundtrip (ss : List Bytes) (hfree : ∀ s ∈ ss, (9 : UInt8) ∉ s)
    (hdup : hasDup ss = false) :
    ∃ line, writeColumns ss = line ++ [10] ∧ CHROM_PREFIX.isPrefixOf line = true ∧
      parseColumns line = .ok ss :=
  ⟨colLine ss, writeColumns_eq ss, chrom_colLine ss, parseColumns_line ss hfree hdup⟩

/-! ### the whole header -/

/-- **Whole-header round trip** through `vcf::io::Reader::read_header`: for every definition table
and every header that satisfies `wfHeader`, the writer accepts it and the reader — line framing,
state machine, every record parser, the column line — returns exactly the header that was written:
same file format, the five typed maps and the other records with their entries, fields and IDX in
insertion order, the same sample names. -/
theorem vcf_header_roundtrip (D : DefTables) (h : Header) (hwf : wfHeader D h = true) :
    ∃ text, writeHeader h = some text ∧ parseHeader D text = .ok h := by
  have w := wfHeader_spec hwf
  refine ⟨unlines (linesOf h), writeHeader_lines D h w, ?_⟩
  unfold parseHeader
  rw [headerLines_unlines _ (linesOf_good D h w), parseLines_linesOf D h w]

/-- the same through `header::Parser::parse(&str)` = `Header::from_str` (`str::lines` framing, no
stop at the first line without `#`) -/
theorem vcf_header_from_str_roundtrip (D : DefTables) (h : Header) (hwf : wfHeader D h = true) :
    ∃ text, writeHeader h = some text ∧ parseStr D text = .ok h := by
  have w := wfHeader_spec hwf
  refine ⟨unlines (linesOf h), writeHeader_lines D h w, ?_⟩
  unfold parseStr
  rw [strLines_unlines _ (linesOf_good D h w), parseLines_linesOf D h w]

/-- **Fixed point**: write ∘ read ∘ write = write — whatever the reader returns for the written
text is written as the same text again -/
theorem vcf_header_fixed_point (D : DefTables) (h h' : Header) (text : Bytes)
    (hwf : wfHeader D h = true) (hw : writeHeader h = some text) (hr : parseHeader D text = .ok h') :
    writeHeader h' = some text := by
  obtain ⟨t, ht, hp⟩ := vcf_header_roundtrip D h hwf
  rw [hw] at ht
  cases ht
  rw [hr] at hp
  cases hp
  exact hw

/-- the text of a well-formed header is LF-terminated lines that all start with `#`: a record
line (which never starts with `#`… the reader stops at the first byte that is not `#`) can follow
without being swallowed -/
theorem vcf_header_then_records (D : DefTables) (h : Header) (hwf : wfHeader D h = true)
    (rest : Bytes) (hrest : rest.head? ≠ some 35) :
    ∃ text, writeHeader h = some text ∧ parseHeader D (text ++ rest) = .ok h := by
  have w := wfHeader_spec hwf
  refine ⟨unlines (linesOf h), writeHeader_lines D h w, ?_⟩
  unfold parseHeader
  rw [headerLines_unlines_then _ (linesOf_good D h w) rest hrest, parseLines_linesOf D h w]

/-! ### non-vacuity: the conditions are satisfiable (evaluated by the kernel) -/

/-- no reserved definitions -/
def D0 : DefTables := ⟨fun _ _ => [], fun _ _ => []⟩

/-- `DP` is reserved for INFO and FORMAT as Integer with Number=1 -/
def D1 : DefTables :=
  ⟨fun _ _ => [([68, 80], .count 1, .integer)], fun _ _ => [([68, 80], .count 1, .integer)]⟩

/-- ```
##fileformat=VCFv4.3
##INFO=<ID=DP,Number=1,Type=Integer,Description="a \"q\" \\ , > =",IDX=1,x=",>">
##FILTER=<ID=PASS,Description="All filters passed",IDX=0>
##FILTER=<ID=q10,Description="">
##FORMAT=<ID=PSL,Number=P,Type=String,Description="p">
##ALT=<ID=DEL,Description="d",k="v">
##contig=<ID=sq0,length=8,md5=d7,URL=file:///a?b=c,IDX=0,species="Homo, sapiens">
##contig=<ID=sq1>
##fileDate=2020=07,"09"
##fileDate=x<y>
##META=<ID=Assay,Type=String,Number=.,Values=[a, b],note="n">
##PEDIGREE=<ID=c,Father=">f<">
##SAMPLE=<ID=s0,Assay="a">
##SAMPLE=<ID=s1>
#CHROM POS ID REF ALT QUAL FILTER INFO FORMAT s0 "a b" (empty name)
``` -/
def hEx : Header :=
  { major := 4, minor := 3
    infos := [⟨[68, 80], .count 1, .integer, [97, 32, 34, 113, 34, 32, 92, 32, 44, 32, 62, 32, 61], some 1,
      [([120], [44, 62])]⟩]
    filters := [⟨[80, 65, 83, 83], [65, 108, 108], some 0, []⟩, ⟨[113, 49, 48], [], none, []⟩]
    formats := [⟨[80, 83, 76], .p, .string, [112], none, []⟩]
    alts := [⟨[68, 69, 76], [100], [([107], [118])]⟩]
    contigs := [⟨[115, 113, 48], some 8, some [100, 55], some [102, 105, 108, 101, 58, 47, 47, 47, 97, 63, 98, 61, 99],
      some 0, [([115, 112], [72, 111, 109, 111, 44, 32, 115])]⟩, ⟨[115, 113, 49], none, none, none, none, []⟩]
    others := [
      ([102, 68], .unstructured [[50, 48, 61, 48, 55, 44, 34, 48, 57, 34], [120, 60, 121, 62]]),
      (META, .structured [⟨[65], ID, [(TYPE, [83]), (NUMBER, [46]), (VALUES, [91, 97, 44, 32, 98, 93]), ([110], [110])]⟩]),
      (PEDIGREE, .structured [⟨[99], ID, [([70], [62, 102, 60])]⟩]),
      ([83, 65], .structured [⟨[115, 48], ID, [([65], [97])]⟩, ⟨[115, 49], ID, []⟩])]
    samples := [[115, 48], [97, 32, 98], []] }

example : wfHeader D1 hEx = true := by decide

/-- the same before 4.3, with a PEDIGREE record whose id is carried by `Child` and an unstructured
value that starts with `<` -/
def hEx42 : Header :=
  { major := 4, minor := 2, infos := [], filters := [], formats := [], alts := [], contigs := []
    others := [(PEDIGREE, .structured [⟨[99], CHILD, [([70], [102])]⟩, ⟨[100], DERIVED, []⟩]),
      ([115], .unstructured [[60, 120, 62], []])]
    samples := [] }

example : wfHeader D0 hEx42 = true := by decide

example : wfFilter ⟨[80, 65, 83, 83], [65, 108, 108], some 0, [([120], [34, 92])]⟩ = true := by decide
example : wfAlt ⟨[68, 69, 76], [], []⟩ = true := by decide
example : wfContig ⟨[49], some 0, none, some [120], none, []⟩ = true := by decide
example : wfContig ⟨[49], none, some [34, 44], some [104, 47, 97, 44, 98, 62, 34, 92], some 3, []⟩ = true := by decide
example : wfOtherMap 4 3 META ⟨[65], ID, [(VALUES, [91, 97, 44, 98, 93])]⟩ = true := by decide
example : wfOtherMap 4 2 PEDIGREE ⟨[99], CHILD, []⟩ = true := by decide
example : unstrOk 4 2 [60, 62] = true ∧ unstrOk 4 5 [61, 60] = true ∧ keyOk [115] = true := by decide

/-! ### the conditions cannot be dropped: the unrestricted statement is false

Each witness is a header the WRITER ACCEPTS whose text the reader rejects or reads back as a
different header (kernel-evaluated on the model; replayed on the real code by the harness corpus,
requests `c09 hval …`). -/

private def hBase : Header := ⟨4, 3, [], [], [], [], [], [], []⟩

/-- a `,` in a value that is written unquoted — here a contig id, `a,b` — ends the raw string: the
reader rejects the writer's line `##contig=<ID=a,b>` -/
theorem vcf_header_roundtrip_needs_wf_raw_comma :
    ∃ h t, writeHeader h = some t ∧ parseHeader D0 t = .error .invalidRecord :=
  ⟨{ hBase with contigs := [⟨[97, 44, 98], none, none, none, none, []⟩] }, _, rfl, by decide⟩

/-- … but not in a contig URL or md5 any more (fix `vcf-contig-url-unquoted`; before it
`##contig=<ID=sq0,URL=h/a,b>` was written and rejected): `URL="h/a,b"`, `md5="a>b"` read back -/
theorem vcf_header_contig_url_comma_reads_back :
    ∃ t, writeHeader { hBase with contigs := [⟨[115, 113, 48], none, some [97, 62, 98], some [104, 47, 97, 44, 98], none, []⟩] }
        = some t ∧
      parseHeader D0 t =
        .ok { hBase with contigs := [⟨[115, 113, 48], none, some [97, 62, 98], some [104, 47, 97, 44, 98], none, []⟩] } :=
  ⟨_, rfl, by decide⟩

/-- a TAB in a sample name: one name is written, two are read -/
theorem vcf_header_roundtrip_needs_wf_sample_tab :
    ∃ h t h', writeHeader h = some t ∧ parseHeader D0 t = .ok h' ∧ h' ≠ h :=
  ⟨{ hBase with samples := [[97, 9, 98]] }, _, { hBase with samples := [[97], [98]] }, rfl, by decide,
    by decide⟩

/-- an empty collection is not written at all -/
theorem vcf_header_roundtrip_needs_wf_empty_collection :
    ∃ h t h', writeHeader h = some t ∧ parseHeader D0 t = .ok h' ∧ h' ≠ h :=
  ⟨{ hBase with others := [([107], .unstructured [])] }, _, hBase, rfl, by decide, by decide⟩

/-- an INFO record that contradicts the reserved definition of its id (`DP` as a String) is written
and then rejected -/
theorem vcf_header_roundtrip_needs_wf_definition :
    ∃ h t, writeHeader h = some t ∧ parseHeader D1 t = .error .invalidRecord :=
  ⟨{ hBase with infos := [⟨[68, 80], .count 1, .string, [], none, []⟩] }, _, rfl, by decide⟩

/-- a PEDIGREE map whose id tag is `Child` (read from a 4.2 file) in a header whose file format was
then raised to 4.3: `Child` is an ordinary field there and the ID is missing -/
theorem vcf_header_roundtrip_needs_wf_pedigree_child :
    ∃ h t, writeHeader h = some t ∧ parseHeader D0 t = .error .invalidRecord :=
  ⟨{ hBase with others := [(PEDIGREE, .structured [⟨[99], CHILD, []⟩])] }, _, rfl, by decide⟩

/-- before 4.3 an unstructured value that looks like a map (`<ID=x>`) comes back as a map -/
theorem vcf_header_roundtrip_needs_wf_unstructured_map :
    ∃ h t h', writeHeader h = some t ∧ parseHeader D0 t = .ok h' ∧ h' ≠ h :=
  ⟨{ hBase with minor := 2, others := [([107], .unstructured [[60, 73, 68, 61, 120, 62]])] }, _,
    { hBase with minor := 2, others := [([107], .structured [⟨[120], ID, []⟩])] }, rfl, by decide, by decide⟩

/-- a description with a line feed splits the line -/
theorem vcf_header_roundtrip_needs_wf_lf :
    ∃ h t, writeHeader h = some t ∧ parseHeader D0 t = .error .invalidRecord :=
  ⟨{ hBase with filters := [⟨[113], [97, 10, 98], none, []⟩] }, _, rfl, by decide⟩

/-- a last sample name that ends in CR loses it (CRLF stripping) -/
theorem vcf_header_roundtrip_needs_wf_cr :
    ∃ h t h', writeHeader h = some t ∧ parseHeader D0 t = .ok h' ∧ h' ≠ h :=
  ⟨{ hBase with samples := [[97, 13]] }, _, { hBase with samples := [[97]] }, rfl, by decide, by decide⟩

/-- the parser's line framing is not the writer's inverse on a text that lacks its final LF and
ends in CR: `read_line` strips a CR only in front of an LF -/
theorem vcf_header_cr_without_lf :
    parseHeader D0 (FILEFORMAT_LINE ++ [52, 46, 51, 10] ++ COLUMNS ++ [13]) = .error .invalidHeader ∧
    parseHeader D0 (FILEFORMAT_LINE ++ [52, 46, 51, 10] ++ COLUMNS ++ [13, 10]) = .ok hBase ∧
    parseHeader D0 (FILEFORMAT_LINE ++ [52, 46, 51, 10] ++ COLUMNS) = .ok hBase := by
  decide

end Noodles.Props.C09
