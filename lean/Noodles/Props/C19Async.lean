import Noodles.Cram.AsyncQuery
import Noodles.Cram.AsyncQueryProof
import Noodles.Io.AsyncLoopsProof
/-!
# C19 (async extension) — the async CRAM region query and `query_unmapped` equal the sync ones

Model: `Noodles/Cram/AsyncQuery.lean` (the sync `Query` / `Records` iterators of
`noodles-cram/src/io/reader{.rs,/query.rs,/query/records.rs,/records.rs}` and the async streams of
`noodles-cram/src/async/io/reader{.rs,/query.rs,/records.rs}` as state machines over a seekable
source; `read_container` is a `Prog`, run by `Prog.run` on the sync side and by `Prog.runA` — tokio
`ReadExact` / `ReadToEnd` over `Take`, polled under an arbitrary schedule — on the async side).

For EVERY stream of bytes (a CRAM file or not, complete or truncated), EVERY index (the file's own or
a foreign one: entries removed, duplicated, reordered, pointing anywhere), every reference and
interval, every lawful `AsyncRead` under every poll schedule (`Pending` any finite number of times,
any partial transfer), every `ReadToEnd` buffer size, every sync delivery schedule (short reads,
`Interrupted`), every state the two readers were left in by earlier reads, and every decoder of the
container bytes (the `Codec`): the items the async stream delivers up to its first error are the
items the sync iterator delivers up to its first error — same records, same order, same error.
No well-formedness of file or index is needed; the only hypothesis on the async source is that a
seek to `off` leaves it with the bytes from `off` on (`hseek`), which is what `AsyncSeek` means.

Corollaries through the existing C19 theorems: through the file's own index the async query
delivers exactly the filtered scan, each record once, in file order, and never fails; a query on a
reader that served other queries before = the query on a fresh reader.
-/
namespace Noodles.Props.C19
open Noodles.IO Noodles.IO.Async Noodles.Cram.Index

variable {χ σ : Type}

/-- **async `Reader::query` = sync `Reader::query`**, as lists of records-or-error. -/
theorem cram_async_query_eq_sync (C : Codec χ) (A : ARead σ UInt8) (hA : A.Lawful)
    (ask : Nat × σ → Nat) (hask : ∀ t, 0 < ask t) (sz : Nat → List Nat) (bytes : Bytes)
    (seekA : σ → Nat → σ) (hseek : ∀ s off, A.rest (seekA s off) = bytes.drop off)
    (idx : List Entry) (k qs qe : Nat) (s : σ) (src : Src UInt8) :
    asyncQuery C A ask seekA idx k qs qe s = syncQuery C sz bytes idx k qs qe src :=
  queryGo_eq C A hA ask hask sz bytes seekA hseek k qs qe idx s src

/-- **async `Reader::query_unmapped` = sync `Reader::query_unmapped`** (any `flag`, any bound on the
number of containers — the same on both sides). -/
theorem cram_async_query_unmapped_eq_sync (C : Codec χ) (A : ARead σ UInt8) (hA : A.Lawful)
    (ask : Nat × σ → Nat) (hask : ∀ t, 0 < ask t) (sz : Nat → List Nat) (bytes : Bytes)
    (seekA : σ → Nat → σ) (hseek : ∀ s off, A.rest (seekA s off) = bytes.drop off)
    (idx : List Entry) (flag : Rec → Bool) (fuel : Nat) (s : σ) (src : Src UInt8) :
    asyncQueryUnmapped C A ask seekA idx flag fuel s = syncQueryUnmapped C sz bytes idx flag fuel src := by
  unfold asyncQueryUnmapped syncQueryUnmapped
  cases unmappedOffset idx with
  | none => rfl
  | some off => exact recordsGo_eq C A hA ask hask sz flag fuel _ _ (hseek s off)

/-- the hypotheses are satisfiable: the harness's scripted source with its seek, any schedule -/
example (bytes : Bytes) : (scripted : ARead (ASrc UInt8) UInt8).Lawful ∧
    ∀ s off, (scripted : ARead (ASrc UInt8) UInt8).rest (seekScripted bytes s off) = bytes.drop off :=
  ⟨scripted_lawful, fun _ _ => rfl⟩

/-- **a second async query on the same reader = the query on a fresh reader**: the answer does not
depend on the state (position, schedule left) earlier reads left the source in. -/
theorem cram_async_query_reader_state_irrelevant (C : Codec χ) (A : ARead σ UInt8) (hA : A.Lawful)
    (ask : Nat × σ → Nat) (hask : ∀ t, 0 < ask t) (bytes : Bytes)
    (seekA : σ → Nat → σ) (hseek : ∀ s off, A.rest (seekA s off) = bytes.drop off)
    (idx : List Entry) (k qs qe : Nat) (flag : Rec → Bool) (fuel : Nat) (used fresh : σ) :
    asyncQuery C A ask seekA idx k qs qe used = asyncQuery C A ask seekA idx k qs qe fresh ∧
    asyncQueryUnmapped C A ask seekA idx flag fuel used = asyncQueryUnmapped C A ask seekA idx flag fuel fresh := by
  constructor
  · rw [cram_async_query_eq_sync C A hA ask hask (fun _ => []) bytes seekA hseek idx k qs qe used ⟨[], []⟩,
      cram_async_query_eq_sync C A hA ask hask (fun _ => []) bytes seekA hseek idx k qs qe fresh ⟨[], []⟩]
  · rw [cram_async_query_unmapped_eq_sync C A hA ask hask (fun _ => []) bytes seekA hseek idx flag fuel used ⟨[], []⟩,
      cram_async_query_unmapped_eq_sync C A hA ask hask (fun _ => []) bytes seekA hseek idx flag fuel fresh ⟨[], []⟩]

/-- … and neither does the poll schedule or the buffer size: two lawful sources over the same bytes
give the same answer. -/
theorem cram_async_query_schedule_irrelevant {σ' : Type} (C : Codec χ)
    (A : ARead σ UInt8) (hA : A.Lawful) (ask : Nat × σ → Nat) (hask : ∀ t, 0 < ask t)
    (A' : ARead σ' UInt8) (hA' : A'.Lawful) (ask' : Nat × σ' → Nat) (hask' : ∀ t, 0 < ask' t)
    (bytes : Bytes) (seekA : σ → Nat → σ) (hseek : ∀ s off, A.rest (seekA s off) = bytes.drop off)
    (seekA' : σ' → Nat → σ') (hseek' : ∀ s off, A'.rest (seekA' s off) = bytes.drop off)
    (idx : List Entry) (k qs qe : Nat) (s : σ) (s' : σ') :
    asyncQuery C A ask seekA idx k qs qe s = asyncQuery C A' ask' seekA' idx k qs qe s' := by
  rw [cram_async_query_eq_sync C A hA ask hask (fun _ => []) bytes seekA hseek idx k qs qe s ⟨[], []⟩,
    cram_async_query_eq_sync C A' hA' ask' hask' (fun _ => []) bytes seekA' hseek' idx k qs qe s' ⟨[], []⟩]

/-- **async query = the query of the C19 index model** wherever that is defined: if the bytes hold
the layout `f` at the offsets the entries of reference `k` name (`HoldsAt`) and every such entry
names the start of a data container (`cramQuery … = some rs`), the async stream delivers `rs`. -/
theorem cram_async_query_eq_model (C : Codec χ) (A : ARead σ UInt8) (hA : A.Lawful)
    (ask : Nat × σ → Nat) (hask : ∀ t, 0 < ask t) (bytes : Bytes)
    (seekA : σ → Nat → σ) (hseek : ∀ s off, A.rest (seekA s off) = bytes.drop off)
    (f : FileL) (idx : List Entry) (k qs qe : Nat) (hold : HoldsAt C bytes f k idx) (rs : List Rec)
    (hq : cramQuery f idx k qs qe = some rs) (s : σ) :
    asyncQuery C A ask seekA idx k qs qe s = okItems rs := by
  rw [cram_async_query_eq_sync C A hA ask hask (fun _ => []) bytes seekA hseek idx k qs qe s ⟨[], []⟩]
  exact syncQueryGo_model C (fun _ => []) bytes f k qs qe idx hold rs _ hq

/-- **async query through the file's own index = the filtered scan**: never an error, exactly the
records on reference `k` that intersect `[qs, qe]`, with the multiplicities and in the order of the
file (`cram_query_eq_scan` carried over to the async reader). -/
theorem cram_async_query_eq_scan (C : Codec χ) (A : ARead σ UInt8) (hA : A.Lawful)
    (ask : Nat × σ → Nat) (hask : ∀ t, 0 < ask t) (bytes : Bytes)
    (seekA : σ → Nat → σ) (hseek : ∀ s off, A.rest (seekA s off) = bytes.drop off)
    (f : FileL) (hwf : f.WF) (k qs qe : Nat) (hold : HoldsAt C bytes f k (craiOf f)) (s : σ) :
    asyncQuery C A ask seekA (craiOf f) k qs qe s = okItems (scan f k qs qe) :=
  cram_async_query_eq_model C A hA ask hask bytes seekA hseek f (craiOf f) k qs qe hold _
    (cramQuery_own_eq_scan f hwf k qs qe) s

/-- **each once, in file order** (`cram_query_each_once_in_file_order` carried over) -/
theorem cram_async_query_each_once_in_file_order (C : Codec χ) (A : ARead σ UInt8) (hA : A.Lawful)
    (ask : Nat × σ → Nat) (hask : ∀ t, 0 < ask t) (bytes : Bytes)
    (seekA : σ → Nat → σ) (hseek : ∀ s off, A.rest (seekA s off) = bytes.drop off)
    (f : FileL) (hwf : f.WF) (k qs qe : Nat) (hold : HoldsAt C bytes f k (craiOf f))
    (hid : (f.recs.map (·.id)).Nodup) (s : σ) :
    ∃ rs, asyncQuery C A ask seekA (craiOf f) k qs qe s = okItems rs ∧ rs.Sublist f.recs ∧
      (rs.map (·.id)).Nodup ∧ ∀ r, r ∈ rs ↔ r ∈ f.recs ∧ r.ref = some k ∧ qs ≤ r.e ∧ r.s ≤ qe := by
  refine ⟨scan f k qs qe, cram_async_query_eq_scan C A hA ask hask bytes seekA hseek f hwf k qs qe hold s,
    List.filter_sublist, ?_, ?_⟩
  · exact List.Nodup.sublist (List.Sublist.map _ List.filter_sublist) hid
  · intro r
    simp [scan, List.mem_filter, keep, intersects]

/-! ## non-vacuity, and where the sync behaviour (hence the async one) is not the scan

`f0`: one container at offset 100 (header 20 bytes, compression header 10, one slice of 30 bytes) with a
record on reference 0 at `[5, 9]` and an unplaced one. -/

def f0 : FileL := ⟨100, [⟨20, 10, [⟨30, [⟨0, some 0, 5, 9⟩, ⟨1, none, 0, 0⟩]⟩]⟩]⟩

/-- the toy bytes of `f0` read through the toy codec hold `f0` -/
example : HoldsAt (toyCodec f0) (toyBytes f0) f0 0 (craiOf f0) := by
  intro en hen hk c hc
  have h : craiOf f0 = [⟨none, 0, 0, 100, 10, 30⟩, ⟨some 0, 5, 5, 100, 10, 30⟩] := by decide
  rw [h] at hen
  simp only [List.mem_cons, List.not_mem_nil, or_false] at hen
  rcases hen with rfl | rfl
  · cases hk
  · have h2 : containerAt f0.start f0.cs 100 =
        some ⟨20, 10, [⟨30, [⟨0, some 0, 5, 9⟩, ⟨1, none, 0, 0⟩]⟩]⟩ := rfl
    rw [h2] at hc
    cases hc
    exact ⟨0, rfl, rfl⟩

/-- under a schedule with `Pending`s and partial transfers the async query of `f0` is the scan -/
example : asyncQuery (toyCodec f0) scripted (fun _ => 32) (seekScripted (toyBytes f0)) (craiOf f0) 0 1 100
    ⟨toyBytes f0, [.pending, .ready 3, .pending, .pending, .ready 7], 1, 0, 0⟩ =
    okItems (scan f0 0 1 100) := by decide

/-- `cram_async_query_eq_scan` needs the file's OWN index (the equality async = sync does not): an
entry that names the EOF container ends the query silently — `read_container` returns `Ok(0)` and
both `read_next_container`s return `None` — so the record listed after it is never delivered, by
either reader. -/
theorem foreign_index_eof_entry_ends_query :
    let idx : List Entry := ⟨some 0, 1, 10, 160, 10, 30⟩ :: craiOf f0
    syncQuery (toyCodec f0) (fun _ => []) (toyBytes f0) idx 0 1 100 ⟨[], []⟩ = [] ∧
    asyncQuery (toyCodec f0) scripted (fun _ => 32) (seekScripted (toyBytes f0)) idx 0 1 100
      ⟨toyBytes f0, [.pending, .ready 3], 1, 0, 0⟩ = [] ∧
    scan f0 0 1 100 = [⟨0, some 0, 5, 9⟩] := by decide

/-- a truncated stream: both deliver the records of the containers that are complete, then the same
`UnexpectedEof` -/
theorem truncated_stream_same_error :
    let bytes := (toyBytes f0).take 150
    syncQuery (toyCodec f0) (fun _ => []) bytes (craiOf f0) 0 1 100 ⟨[], [.chunk 2, .interrupted]⟩ = [.err .eof] ∧
    asyncQuery (toyCodec f0) scripted (fun _ => 32) (seekScripted bytes) (craiOf f0) 0 1 100
      ⟨bytes, [.pending, .ready 3], 1, 0, 0⟩ = [.err .eof] := by decide

end Noodles.Props.C19
