import Noodles.Props.C02Indexed
import Noodles.Bgzf.ReaderModel
import Noodles.Bgzf.ReaderProof
import Noodles.Props.C02w
/-!
# C02 — BGZF virtual positions name bytes: tell / seek / gzi are mutually consistent

The reader (model `Noodles.Bgzf.RM`) refines a flat array with a cursor: at every state
reachable by ANY finite history of read / read_exact / fill_buf / consume / seek /
seek_by_uncompressed_position / tell over ANY well-formed block layout (empty blocks anywhere,
full 64 KiB blocks, with or without an EOF marker), the reported virtual position names a flat
offset `o`, and every operation returns exactly the flat array's bytes from `o` on.
Helper lemmas are in `Noodles/Bgzf/ReaderProof.lean`.
-/
namespace Noodles.Props.C02
open Noodles.Bgzf.RM

variable {α : Type}

/-- Every reachable state names a byte boundary of the flat stream. -/
theorem tell_names_offset (L : Layout α) (hL : WF L) (ops : List Op) :
    ∃ o, cursor L (runOps L ops) = some o ∧ o ≤ (flat L).length := by
  have hi := runOps_inv L hL ops
  exact ⟨off L (runOps L ops), cursor_of_inv L hL _ hi, off_le L _⟩

/-- `read(n)`: returns a prefix of the stream from the cursor, at most `n` bytes, empty only if
`n = 0` or at end of stream; the cursor advances by what was returned. -/
theorem read_refines (L : Layout α) (hL : WF L) (ops : List Op) (n o : Nat)
    (ho : cursor L (runOps L ops) = some o) :
    let r := read L (runOps L ops) n
    r.2 = ((flat L).drop o).take r.2.length ∧ r.2.length ≤ n ∧
    (r.2 = [] → n = 0 ∨ o = (flat L).length) ∧
    cursor L r.1 = some (o + r.2.length) := by
  have hi := runOps_inv L hL ops
  have ho' := cursor_eq L hL _ hi o ho
  obtain ⟨r1, r2, r3, r4, r5, _⟩ := read_spec L hL (runOps L ops) n hi
  rw [ho'] at r2 r4 r5
  refine ⟨r2, r3, r4, ?_⟩
  rw [cursor_of_inv L hL _ r1, r5]

/-- `fill_buf`: returns a prefix of the stream from the cursor, empty iff at end of stream; the
cursor does not move. -/
theorem fillBuf_refines (L : Layout α) (hL : WF L) (ops : List Op) (o : Nat)
    (ho : cursor L (runOps L ops) = some o) :
    let r := fillBuf L (runOps L ops)
    r.2 = ((flat L).drop o).take r.2.length ∧
    (r.2 = [] ↔ o = (flat L).length) ∧
    cursor L r.1 = some o := by
  have hi := runOps_inv L hL ops
  have ho' := cursor_eq L hL _ hi o ho
  obtain ⟨r1, r2, r3, r4, _⟩ := fillBuf_spec L (runOps L ops) hi
  rw [ho'] at r2 r4
  have hbuf := prefix_of_buf L _ r1
  rw [← r3, r2] at hbuf
  refine ⟨hbuf, ⟨r4, ?_⟩, ?_⟩
  · intro h
    rw [h] at hbuf
    rw [hbuf]; simp
  · rw [cursor_of_inv L hL _ r1, r2]

/-- `consume(n)` after `fill_buf`: the cursor advances by `min n (buffered bytes)`. -/
theorem consume_refines (L : Layout α) (hL : WF L) (ops : List Op) (n o : Nat)
    (ho : cursor L (runOps L ops) = some o) :
    let s := runOps L ops
    cursor L (consume n s) = some (o + min n (s.data.length - s.cur)) := by
  have hi := runOps_inv L hL ops
  have ho' := cursor_eq L hL _ hi o ho
  show cursor L (consume n (runOps L ops)) = _
  rw [cursor_of_inv L hL _ (consume_inv L _ n hi), consume_off L _ n hi, ho']

/-- `read_exact(n)`: exactly the next `n` bytes, or `UnexpectedEof` when fewer remain (and then
the cursor is at the end of the stream). -/
theorem readExact_refines (L : Layout α) (hL : WF L) (ops : List Op) (n o : Nat)
    (ho : cursor L (runOps L ops) = some o) :
    let r := readExact L (runOps L ops) n
    (o + n ≤ (flat L).length → r.2 = .ok (((flat L).drop o).take n) ∧ cursor L r.1 = some (o + n)) ∧
    ((flat L).length < o + n → r.2 = .error .eof ∧ cursor L r.1 = some (flat L).length) := by
  have hi := runOps_inv L hL ops
  have ho' := cursor_eq L hL _ hi o ho
  obtain ⟨r1, _, r3, r4⟩ := readExact_spec L hL (runOps L ops) n hi
  rw [ho'] at r3 r4
  refine ⟨?_, ?_⟩
  · intro h
    obtain ⟨a, b⟩ := r3 h
    exact ⟨a, by rw [cursor_of_inv L hL _ r1, b]⟩
  · intro h
    obtain ⟨a, b⟩ := r4 h
    exact ⟨a, by rw [cursor_of_inv L hL _ r1, b]⟩

/-- `seek(v)` for any virtual position that names a byte boundary: succeeds and the reader then
names that byte (so reading yields the stream from exactly that byte on, by the lemmas above). -/
theorem seek_names_byte (L : Layout α) (hL : WF L) (ops : List Op) (c u o : Nat)
    (hv : resolve L c u = some o) :
    let r := seek L (runOps L ops) c u
    r.2 = none ∧ cursor L r.1 = some o := by
  obtain ⟨r1, r2, r3⟩ := seek_resolve L (runOps L ops) c u o hv
  exact ⟨r1, by rw [cursor_of_inv L hL _ r2, r3]⟩

/-- Round trip tell → seek: the position reported at any reachable state can be sought from any
other reachable state and names the same byte. -/
theorem tell_seek_roundtrip (L : Layout α) (hL : WF L) (ops₁ ops₂ : List Op) (o : Nat)
    (ho : cursor L (runOps L ops₁) = some o) :
    let v := tell (runOps L ops₁)
    let r := seek L (runOps L ops₂) v.1 v.2
    r.2 = none ∧ cursor L r.1 = some o := by
  exact seek_names_byte L hL ops₂ _ _ o ho

/-- Seeking by uncompressed offset through the gzi index of the file lands on that byte. -/
theorem gzi_lands (L : Layout α) (hL : WF L) (ops : List Op) (pos : Nat)
    (hpos : pos < (flat L).length) :
    let r := seekU L (gziOf L) (runOps L ops) pos
    r.2 = none ∧ cursor L r.1 = some pos := by
  obtain ⟨r1, r2, r3⟩ := seekU_spec L hL (runOps L ops) pos hpos
  exact ⟨r1, by rw [cursor_of_inv L hL _ r2, r3]⟩

/-- lexicographic order on (compressed, uncompressed) = numeric order on packed positions -/
def vle (a b : Nat × Nat) : Prop := a.1 < b.1 ∨ (a.1 = b.1 ∧ a.2 ≤ b.2)

/-- Reported positions never decrease during sequential reading. -/
theorem tell_monotone (L : Layout α) (hL : WF L) (ops : List Op) (op : Op)
    (hseq : match op with | .seek _ _ => False | .seekU _ => False | _ => True) :
    vle (tell (runOps L ops)) (tell (step L (runOps L ops) op).1) := by
  exact step_vle L hL _ op (runOps_inv L hL ops) hseq

/-- non-vacuity: a concrete 3-member layout with an empty member in the middle is well-formed -/
example : WF ([⟨35, [1,2,3,4,5,6,7]⟩, ⟨28, []⟩, ⟨31, [8,9,10,11]⟩] : Layout Nat) := by
  intro b hb; simp at hb; rcases hb with rfl | rfl | rfl <;> simp [MAX_ISIZE]

end Noodles.Props.C02
