import Noodles.Bam.Fast
import Noodles.Bam.FastProof
import Noodles.Bam.FastIdentProof
import Noodles.Bam.FastAnyProof
import Noodles.Bam.FastAnyAccProof
import Noodles.Bam.FastAnyCgProof
import Noodles.Props.C05Reenc
/-!
# C05 (extension) — the BAM writer's fast paths for a lazy `bam::Record`

`bam::io::Writer::write_alignment_record(&header, &bam::Record)`: `noodles-bam/src/record.rs` offers the
encoder four borrowed representations (`cigar_ref`, `sequence_ref`, `quality_scores_ref`, `data_ref`)
and `record/codec/encoder/{cigar,sequence,quality_scores,data}.rs` copy them after a validation pass
instead of decoding and re-encoding. Model: `Noodles/Bam/Reenc.lean` (`encodeView`, `viewRecord`,
`rewriteRecord`, `validateData` = `encoder/data.rs::validate`), `Noodles/Bam/Fast.lean` (`fastRefs`,
decidable `Fits`, `cgValsOk`, `fastFits`). Helper lemmas: `Noodles/Bam/FastProof.lean`,
`FastDataProof.lean`, `FastIdentProof.lean`, `FastAnyProof.lean`, `FastAnyAccProof.lean`,
`FastAnyCgProof.lean`.

What is proved here (all quantifiers unbounded — any bytes, any dictionary size, any number of CIGAR
ops and data fields):

* `fast_path_selection` — WHICH bytes are copied: for any validated bytes the four `*_ref` methods
  cannot fail and hand over the CIGAR bytes `cigar()` iterates (slot, or `CG` payload), the packed
  sequence slice with `l_seq`, the quality slice, and the raw data bytes — the latter exactly when
  the CIGAR was NOT taken from a `CG` field; otherwise the data is decoded and re-encoded;
* `fast_accepts_iff_fits` — WHEN the writer accepts: exactly when the decoded record `Fits` and, on
  the `FieldEncoded` path, every `CG`-tagged value is valid too (`fast_stricter_than_default`: the
  naive statement without that clause is false — the default paths accept such a record and drop
  the field, the fast path refuses it);
* `fast_roundtrip_accessors` — whatever is accepted reads back with every accessor unchanged;
* `write_read_identity` — on records the BAM writer itself produced, read + write is the identity
  on bytes, also for more than 65535 CIGAR ops (`kSmN` placeholder + trailing `CG:B,I`);
* `fast_roundtrip_any` — THE FULL ROUND TRIP: for EVERY validated byte string (also ones the eager
  decoder refuses; CIGAR in the slot — `fast_roundtrip_any_slot`, which also gives the raw CIGAR and
  data bytes — or taken from `CG`): accepted ⇒ validated again, all lazy accessors unchanged;
* `fast_accepts_any_slot_iff` — WHEN the writer accepts, for ANY validated bytes with the CIGAR in
  the slot, as an iff on what the lazy accessors return.
-/
namespace Noodles.Props.C05
open Noodles.Bam Noodles.Codec

/-! ## which fields are taken raw -/

/-- For ANY bytes that pass `validate` (what `read_record` checks): none of the four hidden `*_ref`
methods of `bam::Record` fails, and the encoder is handed
* `FourBytePacked(src)` with `src` the bytes `cigar()` iterates — the `4 * n_cigar_op` bytes of the
  CIGAR slot, or the payload of the first `CG:B,I` field when the slot is the `kSmN` placeholder
  (`skip = true`);
* `FourBitPacked(src, l_seq)` with `src` the `(l_seq + 1) / 2` packed bytes (padding nibble and all);
* `Raw(src)` with `src` the `l_seq` quality bytes, or nothing when all of them are `0xff`;
* `FieldEncoded(src)` with `src` everything after the qualities — unless `skip`: then
  `DataRef::Data`, i.e. the fields are decoded and re-encoded one by one (`CG` left out). -/
theorem fast_path_selection (b : Bytes) (hv : validate b = .ok ()) :
    ∃ src skip, lazyCigarBytes b = .ok (src, skip) ∧
      fastRefs b = some ⟨src, (segSeq b, lBaseCount b),
        if (segQual b).all (· == 255) then [] else segQual b,
        if skip then none else some (segData b)⟩ :=
  fast_refs_of_validate b (validate_inv b hv)

/-! ## when the writer accepts -/

/-- For ANY bytes `b` the eager decoder accepts (record `r`; `fs` = the data fields in the order the
lazy view lists them, a permutation of `r.data`): `encode` on the lazy `bam::Record` — all four fast
paths — succeeds EXACTLY when the record fits its BAM fields (`Fits`, the acceptance condition of
the `RecordBuf` encoder, `bam_accepts_iff_fits`) and, when the raw data bytes go through the
`FieldEncoded` validator (`skip = false`: the CIGAR was not taken from `CG`), the `CG`-tagged fields
— which `Fits` ignores because `write_generic_data` skips them — carry valid values as well.
`fastFits`, the executable form of the right-hand side, is what the harness compares with the real
writer's verdict. -/
theorem fast_accepts_iff_fits (nref : Nat) (b : Bytes) (r : Rec) (hd : decode b = .ok r) :
    ∃ fs src skip, lazyData b = .ok (fs, false) ∧ lazyCigarBytes b = .ok (src, skip) ∧
      fs.Perm r.data ∧
      ((∃ out, encodeView nref (viewRecord b) = .ok out) ↔
        Fits nref { r with data := fs } ∧ (skip = false → cgValsOk fs)) ∧
      (fastFits nref b = some true ↔ ∃ out, encodeView nref (viewRecord b) = .ok out) := by
  obtain ⟨r0, hp, hr⟩ := decode_inv b r hd
  obtain ⟨fs, src, skip, hfs, hcb, hperm, hiff⟩ := fast_accepts_core nref b r0 r hp hr
  refine ⟨fs, src, skip, hfs, hcb, hperm, hiff, ?_⟩
  rw [hiff]
  unfold fastFits
  simp only [hd, hfs, hcb, Option.some.injEq, Bool.and_eq_true, decide_eq_true_eq, Bool.or_eq_true]
  cases skip <;> simp

/-- `write_alignment_record` adds one test to `encode`: the body length must fit `block_size`. -/
theorem fast_rewrite_accepts_iff (nref : Nat) (b : Bytes) (hv : validate b = .ok ()) :
    (∃ out, rewriteRecord nref b = .ok out) ↔
      ∃ out, encodeView nref (viewRecord b) = .ok out ∧ out.length ≤ 4294967295 := by
  unfold rewriteRecord writeView
  simp only [hv]
  cases he : encodeView nref (viewRecord b) with
  | error e => simp
  | ok body =>
    by_cases hl : body.length ≤ 4294967295
    · simp [hl]
    · simp only [hl, if_false]
      constructor
      · rintro ⟨out, ho⟩; cases ho
      · rintro ⟨out, ho, hlo⟩
        simp only [Except.ok.injEq] at ho
        subst ho
        exact absurd hlo hl

/-- unmapped `*`, `3M`, packed `ACG`, no qualities, and a user field `CG:Z:<0x01>` (the CIGAR slot
is not the placeholder, so the data bytes take the `FieldEncoded` path) -/
def badCg : Bytes :=
  [255, 255, 255, 255, 255, 255, 255, 255, 2, 255, 0x48, 0x12, 1, 0, 4, 0, 3, 0, 0, 0, 255, 255, 255, 255,
   255, 255, 255, 255, 0, 0, 0, 0, 42, 0, 0x30, 0, 0, 0, 0x12, 0x40, 255, 255, 255, 67, 71, 90, 1, 0]

/-- The clause `cgValsOk` of `fast_accepts_iff_fits` cannot be dropped: the naive "the fast paths
accept exactly what `Fits`" is FALSE. Witness `badCg` (replayed on the real code by the harness
corpus, case `corpus_bad_cg_z`): the eager decoder accepts it, the decoded record fits (`CG` is not
written by the per-field encoder, so its value is never looked at) — the default paths
(`RecordRef`, `Box<dyn Record>`) accept it and drop the field — but the `FieldEncoded` validator
refuses the control character: `InvalidInput`. -/
theorem fast_stricter_than_default :
    ¬ ∀ (nref : Nat) (b : Bytes) (r : Rec), decode b = .ok r →
        ((∃ out, encodeView nref (viewRecord b) = .ok out) ↔ Fits nref r) := by
  intro h
  have hd : decode badCg = .ok ⟨none, 4, none, none, none, [⟨0, 3⟩], none, none, 0, [65, 67, 71], [],
      [((67, 71), .str [1])]⟩ := by rfl
  have hf : Fits 0 ⟨none, 4, none, none, none, [⟨0, 3⟩], none, none, 0, [65, 67, 71], [],
      [((67, 71), .str [1])]⟩ := by decide
  obtain ⟨out, ho⟩ := (h 0 badCg _ hd).mpr hf
  have he : encodeView 0 (viewRecord badCg) = .error .input := by rfl
  rw [he] at ho
  cases ho

/-- …the same witness through the whole writer: refused on the fast paths, written without the `CG`
field on the default paths; `fastFits` says `false` -/
example : rewriteRecord 0 badCg = .error .input ∧
    writeView 0 (viewRef badCg) = .ok (badCg.take 43) ∧ fastFits 0 badCg = some false :=
  ⟨by rfl, by rfl, by rfl⟩

/-- non-vacuity of `fast_accepts_iff_fits`, both data paths: `staleBin` (slot, `FieldEncoded`) and
`cgFirst` (CIGAR from `CG`, data re-encoded) are decodable and accepted, and `fastFits` agrees;
against a dictionary without reference 1 `staleBin` does not fit and is refused -/
example : fastFits 2 staleBin = some true ∧ (rewriteRecord 2 staleBin).toOption.isSome = true ∧
    fastFits 2 cgFirst = some true ∧ (rewriteRecord 2 cgFirst).toOption.isSome = true ∧
    fastFits 1 staleBin = some false ∧ rewriteRecord 1 staleBin = .error .input :=
  ⟨by rfl, by rfl, by rfl, by rfl, by rfl, by rfl⟩

/-! ## whatever is accepted reads back with every accessor unchanged -/

/-- For ANY bytes `b` the eager decoder accepts: if the writer accepts the lazy record (any of the
paths — raw copy or re-encoding, CIGAR in the slot or moved from / to `CG`), the bytes `out` it
writes pass `validate` and EVERY lazy accessor of `out` returns what it returned on `b`: name,
flags, reference and mate ids and positions, MAPQ, CIGAR, template length, bases, qualities; the
data fields are those of the lazy view of `b` (as the eager decoder reads them from `out`). -/
theorem fast_roundtrip_accessors (nref : Nat) (b out : Bytes) (r : Rec) (hd : decode b = .ok r)
    (hw : rewriteRecord nref b = .ok out) :
    validate out = .ok () ∧
    lazyName out = lazyName b ∧ lazyFlags out = lazyFlags b ∧ lazyRefId out = lazyRefId b ∧
    lazyPos out = lazyPos b ∧ lazyMapq out = lazyMapq b ∧ lazyCigar out = lazyCigar b ∧
    lazyMateRefId out = lazyMateRefId b ∧ lazyMatePos out = lazyMatePos b ∧
    lazyTlen out = lazyTlen b ∧ lazySeq out = lazySeq b ∧ lazyQual out = lazyQual b ∧
    ∃ fs, lazyData b = .ok (fs, false) ∧ (decode out).toOption.map (·.data) = some fs := by
  obtain ⟨fs, hfs, _, hrb, _⟩ := reencode_lazy_eq_bytes nref b out r hd hw
  have hdo : decode out = .ok { r with data := fs } := by
    unfold readRecordBuf at hrb
    cases hvo : validate out with
    | error e => simp [hvo] at hrb
    | ok u =>
      simp only [hvo] at hrb
      cases hx : decode out with
      | error e => simp [hx] at hrb
      | ok r' => simp only [hx, Except.ok.injEq] at hrb; rw [hrb]
  obtain ⟨a0, a1, a2, a3, a4, a5, a6, a7, a8, a9, a10, a11⟩ := fast_lazy_eq_eager b r hd
  obtain ⟨c0, c1, c2, c3, c4, c5, c6, c7, c8, c9, c10, c11⟩ := fast_lazy_eq_eager out _ hdo
  refine ⟨c0, ?_, ?_, ?_, ?_, ?_, ?_, ?_, ?_, ?_, ?_, ?_, fs, hfs, by rw [hdo]; rfl⟩
  · rw [a1, c1]
  · rw [a2, c2]
  · rw [a3, c3]
  · rw [a4, c4]
  · rw [a5, c5]
  · rw [a6, c6]
  · rw [a7, c7]
  · rw [a8, c8]
  · rw [a9, c9]
  · rw [a10, c10]
  · rw [a11, c11]

/-! ## write ∘ read = identity on what the BAM writer produced -/

/-- For EVERY record `r` of the Rust types (`WF`) that the BAM writer accepts, with body `b` — any
number of CIGAR ops: reading `b` back as a lazy `bam::Record` and writing that record gives `b`
again, BYTE FOR BYTE. With at most 65535 ops everything after the fixed part is copied and bin and
flags are recomputed to the same values; with MORE than 65535 ops the lazy record takes its CIGAR
from the trailing `CG:B,I` field (third conjunct), so the writer recomputes the `kSmN` placeholder
(`k = l_seq`, `m` = reference span), re-encodes every data field from its decoded value and appends
a fresh `CG` field — and still arrives at the identical bytes. Identity, not just `rawOf`-equivalence
(`reencode_lazy_eq_bytes`, C05Reenc.lean, which covers hand-made bytes with `CG` anywhere). -/
theorem write_read_identity (nref : Nat) (r : Rec) (b : Bytes) (hw : WF r) (h : encode nref r = .ok b) :
    encodeView nref (viewRecord b) = .ok b ∧
    (b.length ≤ 4294967295 → rewriteRecord nref b = .ok b) ∧
    (65535 < r.cigar.length → ∃ buf, lazyCigarBytes b = .ok (buf, true) ∧ lazyOps buf = .ok r.cigar) := by
  have hi := ident_written nref r b hw h
  refine ⟨hi, fun hl => ?_, ident_long_from_cg nref r b hw h⟩
  obtain ⟨b', he, hd⟩ := roundtrip_main nref r hw (fits_of_encode_ok nref r b h)
  rw [h] at he
  cases he
  simp only [rewriteRecord, validate_of_decode b _ hd, writeView, hi, hl, if_true]

/-- non-vacuity: the record of `bam_roundtrip`'s example is well-formed and accepted, and its body
is written back unchanged -/
example : (encode 2 ⟨some [114, 48], 65, some 1, some 9, some 13, [⟨0, 3⟩, ⟨4, 1⟩], some 1, some 22, 144,
    [65, 67, 71, 84], [45, 35, 43, 50], [((78, 72), .num .C 1)]⟩).toOption.map (rewriteRecord 2) =
    some (.ok [1, 0, 0, 0, 8, 0, 0, 0, 3, 13, 0x49, 0x12, 2, 0, 65, 0, 4, 0, 0, 0, 1, 0, 0, 0, 21, 0, 0, 0,
      144, 0, 0, 0, 114, 48, 0, 0x30, 0, 0, 0, 0x14, 0, 0, 0, 0x12, 0x48, 45, 35, 43, 50, 78, 72, 67, 1]) := by
  rfl

/-! ## a record the eager decoder refuses, and the writer accepts -/

/-- unmapped, no CIGAR, no bases, `l_read_name = 2`, name bytes `ab` WITHOUT the NUL terminator -/
def noNul : Bytes :=
  [255, 255, 255, 255, 255, 255, 255, 255, 2, 255, 0x48, 0x12, 0, 0, 4, 0, 0, 0, 0, 0, 255, 255, 255, 255,
   255, 255, 255, 255, 0, 0, 0, 0, 97, 98]

/-- why `fast_accepts_iff_fits` / `fast_roundtrip_accessors` cannot simply be stated "for all
validated bytes" through the eager decoder: `validate` passes `noNul`, the eager decoder refuses it
(no NUL), the lazy `name()` returns `ab` unstripped and the writer ACCEPTS the record, writing the
name WITH a terminator — `l_read_name` grows to 3, the body by one byte — and the accessors of the
result agree with those of the original (`fast_roundtrip_any_slot` is the general statement).
Replayed on the real code: harness corpus case `corpus_name_no_nul`. -/
example : validate noNul = .ok () ∧ decode noNul = .error .invalid ∧
    rewriteRecord 0 noNul = .ok (noNul.take 8 ++ [3] ++ (noNul.drop 9).take 25 ++ [0]) ∧
    lazyName (noNul.take 8 ++ [3] ++ (noNul.drop 9).take 25 ++ [0]) = lazyName noNul ∧
    lazyName noNul = .ok (some [97, 98]) :=
  ⟨by rfl, by rfl, by rfl, by rfl, by rfl⟩

/-- The general statement, for ANY bytes that pass `validate` — decodable by the eager decoder or
not (missing name terminator, duplicate tags, …) — whose CIGAR is read from the CIGAR slot
(`lazyCigarBytes … false`: not taken from a `CG:B,I` field, so all four raw-copy paths are taken):
if `encode` accepts the lazy record, the bytes it writes pass `validate` again and EVERY lazy accessor
returns on them exactly what it returned on the original — ids, positions, name, MAPQ, flags,
template length, the CIGAR bytes and ops, bases, qualities, the raw data bytes and the data fields
(including the error, if a field does not decode). -/
theorem fast_roundtrip_any_slot (nref : Nat) (b out src : Bytes) (hv : validate b = .ok ())
    (hcb : lazyCigarBytes b = .ok (src, false))
    (hw : encodeView nref (viewRecord b) = .ok out) :
    validate out = .ok () ∧
    lazyRefId out = lazyRefId b ∧ lazyPos out = lazyPos b ∧ lazyName out = lazyName b ∧
    lazyMapq out = lazyMapq b ∧ lazyFlags out = lazyFlags b ∧
    lazyMateRefId out = lazyMateRefId b ∧ lazyMatePos out = lazyMatePos b ∧ lazyTlen out = lazyTlen b ∧
    lazyCigarBytes out = lazyCigarBytes b ∧ lazyCigar out = lazyCigar b ∧
    lazySeq out = lazySeq b ∧ lazyQual out = lazyQual b ∧
    lazyRawData out = lazyRawData b ∧ lazyData out = lazyData b :=
  any_slot_roundtrip nref b out src hv hcb hw

/-- non-vacuity on an input the eager decoder refuses: `noNul` satisfies the three hypotheses -/
example : validate noNul = .ok () ∧ lazyCigarBytes noNul = .ok ([], false) ∧
    (encodeView 0 (viewRecord noNul)).toOption.isSome = true := ⟨by rfl, by rfl, by rfl⟩

/-- WHEN the fast paths accept, for ANY bytes that pass `validate` (decodable by the eager decoder
or not) whose CIGAR is read from the CIGAR slot — stated on what the lazy accessors return: `encode`
accepts the lazy `bam::Record` EXACTLY when
* the reference / mate reference ids are `-1` or inside the dictionary, the positions valid;
* the name AS `name()` RETURNS IT (a missing NUL terminator is not stripped) is at most 254 bytes
  of `[!-?A-~]` and not `*`;
* every CIGAR op kind is at most 8 (`lazyOps` decodes the slot);
* `l_seq` is 0, or the CIGAR's read length is 0, or the two are equal;
* the `l_seq` quality bytes are all `0xff` or all at most 93;
* the data bytes pass the `FieldEncoded` validator (`encoder/data.rs::validate`; on decodable bytes:
  every value incl. the `CG`-tagged ones is valid, `fast_accepts_iff_fits`).
No `usize` overflow test can fire (at most 65535 ops of less than 2^28), MAPQ, flags and template
length never fail. -/
theorem fast_accepts_any_slot_iff (nref : Nat) (b src : Bytes) (hv : validate b = .ok ())
    (hcb : lazyCigarBytes b = .ok (src, false)) :
    (∃ out, encodeView nref (viewRecord b) = .ok out) ↔
      ∃ refId pos name mref mpos ops,
        lazyRefId b = .ok refId ∧ refOk nref refId ∧
        lazyPos b = .ok pos ∧ posOk pos ∧
        lazyName b = .ok name ∧ nameLenOk name ∧ nameOk name ∧
        lazyMateRefId b = .ok mref ∧ refOk nref mref ∧
        lazyMatePos b = .ok mpos ∧ posOk mpos ∧
        lazyOps src = .ok ops ∧
        (lBaseCount b = 0 ∨ ¬ (0 < readLen ops ∧ lBaseCount b ≠ readLen ops)) ∧
        ((segQual b).all (· == 255) = true ∨ ∀ q ∈ segQual b, q.toNat ≤ 93) ∧
        validateData (segData b).length (segData b) = .ok () :=
  anyacc_slot_iff nref b src hv hcb

/-- THE FULL STATEMENT: for EVERY byte string that passes `validate` (everything `read_record` hands
out as a `bam::Record` — decodable by the eager decoder or not, CIGAR in the slot or taken from a
`CG:B,I` field, data copied or re-encoded, at most or more than 65535 ops): if
`write_alignment_record` accepts the lazy record, the body it writes passes `validate` again and
EVERY lazy accessor returns on it exactly what it returned on the original: reference and mate ids
and positions, name, MAPQ, flags, template length, CIGAR, bases, qualities and the data fields. -/
theorem fast_roundtrip_any (nref : Nat) (b out : Bytes) (hv : validate b = .ok ())
    (hw : rewriteRecord nref b = .ok out) :
    validate out = .ok () ∧
    lazyRefId out = lazyRefId b ∧ lazyPos out = lazyPos b ∧ lazyName out = lazyName b ∧
    lazyMapq out = lazyMapq b ∧ lazyFlags out = lazyFlags b ∧
    lazyMateRefId out = lazyMateRefId b ∧ lazyMatePos out = lazyMatePos b ∧ lazyTlen out = lazyTlen b ∧
    lazyCigar out = lazyCigar b ∧ lazySeq out = lazySeq b ∧ lazyQual out = lazyQual b ∧
    lazyData out = lazyData b := by
  have he : encodeView nref (viewRecord b) = .ok out := by
    unfold rewriteRecord writeView at hw
    simp only [hv] at hw
    cases hx : encodeView nref (viewRecord b) with
    | error e => simp [hx] at hw
    | ok body =>
      simp only [hx] at hw
      split at hw
      · simp only [Except.ok.injEq] at hw; rw [hw]
      · cases hw
  obtain ⟨src, skip, hcb⟩ := fast_lazyCigarBytes_ok b (validate_inv b hv)
  cases skip with
  | false =>
    obtain ⟨h0, h1, h2, h3, h4, h5, h6, h7, h8, _, h10, h11, h12, _, h14⟩ :=
      any_slot_roundtrip nref b out src hv hcb he
    exact ⟨h0, h1, h2, h3, h4, h5, h6, h7, h8, h10, h11, h12, h14⟩
  | true => exact anycg_roundtrip nref b out src hv hcb he

/-- non-vacuity, CIGAR-from-`CG` branch: `cgFirst` (C05Reenc.lean) is validated, takes its CIGAR
from the `CG` field and is accepted -/
example : validate cgFirst = .ok () ∧ (∃ buf, lazyCigarBytes cgFirst = .ok (buf, true)) ∧
    (rewriteRecord 2 cgFirst).toOption.isSome = true :=
  ⟨by rfl, ⟨[0x20, 0, 0, 0, 0x14, 0, 0, 0], by rfl⟩, by rfl⟩

end Noodles.Props.C05
