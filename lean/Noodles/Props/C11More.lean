import Noodles.Fasta.Model
import Noodles.Fasta.Spec
import Noodles.Fasta.Proof
import Noodles.Fasta.SeqReader
import Noodles.Fasta.SeqReaderProof
import Noodles.Fasta.FqIndex
import Noodles.Fasta.FqIndexProof
import Noodles.Fasta.WriteReadProof
/-!
# C11, continued — bgzipped FASTA through gzi, arbitrary buffers, the FASTQ indexer

`Noodles/Props/C11.lean` proves the region query correct over a whole in-memory buffer. Here:

* **bgzf + gzi** (`fai_query_bgzf_correct`, `fai_queries_bgzf_correct`, `fai_query_bgzf_beyond_end`):
  the same code — `Reader::query`, `sequence::Reader`, `read_sequence_limit`
  (`Noodles/Fasta/SeqReader.lean`, transcribed over an abstract `BufRead`) — run over C02's BGZF
  reader state machine (`Noodles/Bgzf/ReaderModel.lean`), seeking with
  `seek_by_uncompressed_position` through the gzi index of the file. For EVERY well-formed block
  layout `L` of the FASTA text (any member cuts: inside a line, between CR and LF, before a `>`;
  empty members anywhere; with or without EOF marker), from EVERY reachable reader state, the answer
  is the naive one. This composes `fai_query_correct`'s offset arithmetic with C02's `gzi_lands`
  (`seekU_spec`) and `fillBuf_refines` / `consume_refines` (`fillBuf_spec`, `consume_off`).
* **any buffer size, any refill schedule** (`fai_query_any_buffer_correct`,
  `fai_query_one_byte_buffer`): the same over `std::io::BufReader` of any capacity ≥ 1 whose inner
  reader delivers short reads and `Interrupted` by any finite schedule (C12's layer IO:
  `fillBuf_cases`, `consume_stream`).
* **FASTQ indexer**: see the second half of this file.

Helper lemmas: `Noodles/Fasta/SeqReaderProof.lean`, `Noodles/Fasta/FqIndexProof.lean`.
-/
namespace Noodles.Props.C11
open Noodles.Fasta
open Noodles.Bgzf.RM (Layout WF flat gziOf runOps Op R)

/-- **Region query on a bgzipped FASTA through its gzi index = slice of the naive parse.**
`L` is any well-formed BGZF layout whose uncompressed stream `flat L` is a FASTA text the indexer
accepts; the query runs from the reader state reached by ANY history `ops` of reads / seeks. -/
theorem fai_query_bgzf_correct (L : Layout UInt8) (hL : WF L) (ix : List FaiRec)
    (h : indexFile (flat L) = .ok ix)
    (i : Nat) (rec : FaiRec) (name bases : Bytes)
    (hrec : ix[i]? = some rec) (hnv : (naive (flat L))[i]? = some (name, bases))
    (hclean : Clean bases)
    (start end_ : Option Nat) (hs1 : 1 ≤ start.getD 1) (hs2 : start.getD 1 ≤ bases.length)
    (hse : start.getD 1 ≤ end_.getD usizeMax) (ops : List Op) :
    (queryBgzf L (gziOf L) (runOps L ops) rec start end_).1 =
      .ok (bases.extract (start.getD 1 - 1) (min (end_.getD usizeMax) bases.length)) := by
  obtain ⟨hq, hsh, hpos⟩ := shape_at_start h hrec hnv hclean start hs1 hs2
  obtain ⟨r1, r2, r3⟩ := Noodles.Bgzf.RM.seekU_spec L hL (runOps L ops) _ hpos
  have hseek : rmSeek L (gziOf L) (runOps L ops) (faiPos rec (start.getD 1 - 1)) =
      (.ok (), (Noodles.Bgzf.RM.seekU L (gziOf L) (runOps L ops) (faiPos rec (start.getD 1 - 1))).1) := by
    unfold rmSeek
    rcases hsu : Noodles.Bgzf.RM.seekU L (gziOf L) (runOps L ops) (faiPos rec (start.getD 1 - 1)) with ⟨s', e⟩
    rw [hsu] at r1
    simp only at r1
    subst r1
    rfl
  have := (queryG_shape (rmLaws L) _ (fun _ => (flat L).length + 2) rec start end_ _ _ _ hq hseek r2
    (by show SeqShape ((flat L).drop _) _; rw [r3]; exact hsh)
    (by show (flat L).length - _ < (flat L).length + 2; omega) hse).1
  unfold queryBgzf
  rw [this, extract_eq bases _ _ hs1 hse]

/-- **Never foreign bytes through bgzf either.** An explicit start beyond the sequence length is
`InvalidInput` before the reader is touched — for any layout, gzi index and reader state. -/
theorem fai_query_bgzf_beyond_end (L : Layout UInt8) (g : Noodles.Bgzf.RM.Gzi) (s : R UInt8)
    (rec : FaiRec) (p : Nat) (end_ : Option Nat) (hp : rec.length < p) :
    queryBgzf L g s rec (some p) end_ = (.error .invalidInput, none) :=
  queryG_beyond _ _ rec p end_ hp

/-- the queries of a session on ONE indexed reader, each starting in the state the previous one
left (`queryBgzf`'s second component; a query rejected before the seek leaves the state alone) -/
def sessionBgzf (L : Layout UInt8) (g : Noodles.Bgzf.RM.Gzi) :
    R UInt8 → List (FaiRec × Option Nat × Option Nat) → List (Except Err Bytes)
  | _, [] => []
  | s, (r, st, en) :: qs =>
    let a := queryBgzf L g s r st en
    a.1 :: sessionBgzf L g (a.2.getD s) qs

/-- a query the property speaks about, with its naive answer: record `i` of the index, a region
whose start lies inside the sequence -/
def GoodQuery (f : Bytes) (ix : List FaiRec) (q : FaiRec × Option Nat × Option Nat) (ans : Bytes) :
    Prop :=
  ∃ (i : Nat) (name bases : Bytes), ix[i]? = some q.1 ∧ (naive f)[i]? = some (name, bases) ∧ Clean bases ∧
    1 ≤ q.2.1.getD 1 ∧ q.2.1.getD 1 ≤ bases.length ∧ q.2.1.getD 1 ≤ q.2.2.getD usizeMax ∧
    ans = bases.extract (q.2.1.getD 1 - 1) (min (q.2.2.getD usizeMax) bases.length)

/-- **Any number of queries on one bgzipped indexed reader**, in any order (backwards, repeated,
across records): every answer is the naive one. -/
theorem fai_queries_bgzf_correct (L : Layout UInt8) (hL : WF L) (ix : List FaiRec)
    (h : indexFile (flat L) = .ok ix) (ops : List Op)
    (qs : List (FaiRec × Option Nat × Option Nat)) (answers : List Bytes)
    (hq : Forall₂ (GoodQuery (flat L) ix) qs answers) :
    sessionBgzf L (gziOf L) (runOps L ops) qs = answers.map .ok := by
  have key : ∀ (s : R UInt8), Noodles.Bgzf.RM.Inv L s →
      sessionBgzf L (gziOf L) s qs = answers.map .ok := by
    induction hq with
    | nil => intro s _; rfl
    | @cons q ans qs' as' hqa _ ih =>
      intro s hi
      obtain ⟨r, st, en⟩ := q
      obtain ⟨i, name, bases, hrec, hnv, hclean, hs1, hs2, hse, hans⟩ := hqa
      simp only at hrec hs1 hs2 hse hans
      obtain ⟨hq1, hsh, hpos⟩ := shape_at_start h hrec hnv hclean st hs1 hs2
      obtain ⟨r1, r2, r3⟩ := Noodles.Bgzf.RM.seekU_spec L hL s _ hpos
      have hseek : rmSeek L (gziOf L) s (faiPos r (st.getD 1 - 1)) =
          (.ok (), (Noodles.Bgzf.RM.seekU L (gziOf L) s (faiPos r (st.getD 1 - 1))).1) := by
        unfold rmSeek
        rcases hsu : Noodles.Bgzf.RM.seekU L (gziOf L) s (faiPos r (st.getD 1 - 1)) with ⟨s', e⟩
        rw [hsu] at r1
        simp only at r1
        subst r1
        rfl
      obtain ⟨k1, s', k2, k3⟩ := queryG_shape (rmLaws L) _ (fun _ => (flat L).length + 2) r st en _ _ _
        hq1 hseek r2 (by show SeqShape ((flat L).drop _) _; rw [r3]; exact hsh)
        (by show (flat L).length - _ < (flat L).length + 2; omega) hse
      have e1 : (queryBgzf L (gziOf L) s r st en).1 = .ok ans := by
        unfold queryBgzf
        rw [k1, extract_eq bases _ _ hs1 hse, hans]
      have e2 : (queryBgzf L (gziOf L) s r st en).2 = some s' := by
        unfold queryBgzf
        exact k2
      simp only [sessionBgzf, List.map_cons, e1, e2, Option.getD_some]
      rw [ih s' k3]
  exact key _ (Noodles.Bgzf.RM.runOps_inv L hL ops)

/-- **Region query through a `BufReader` of any capacity over any refill schedule = slice of the
naive parse.** The inner reader hands over the file in pieces of any sizes (`chunk n`) and fails
with `ErrorKind::Interrupted` wherever the finite schedule says; the `BufReader` has any capacity
`cap ≥ 1`. Window boundaries therefore fall anywhere: between CR and LF, inside a line, just before
a `>`. -/
theorem fai_query_any_buffer_correct (f : Bytes) (ix : List FaiRec) (h : indexFile f = .ok ix)
    (i : Nat) (rec : FaiRec) (name bases : Bytes)
    (hrec : ix[i]? = some rec) (hnv : (naive f)[i]? = some (name, bases)) (hclean : Clean bases)
    (start end_ : Option Nat) (hs1 : 1 ≤ start.getD 1) (hs2 : start.getD 1 ≤ bases.length)
    (hse : start.getD 1 ≤ end_.getD usizeMax)
    (cap : Nat) (hcap : 0 < cap) (sched : List Noodles.IO.Delivery) :
    (queryBufR f sched cap rec start end_).1 =
      .ok (bases.extract (start.getD 1 - 1) (min (end_.getD usizeMax) bases.length)) := by
  obtain ⟨hq, hsh, _⟩ := shape_at_start h hrec hnv hclean start hs1 hs2
  have := (queryG_shape bufrLaws (bufrSeekFn f (Noodles.IO.BufR.ofSrc ⟨f, sched⟩ cap))
    (fun b => b.fuel) rec start end_ _ _ _ hq rfl
    (by show 0 < cap; exact hcap)
    (by
      show SeqShape ([] ++ f.drop _) _
      simpa using hsh)
    (Noodles.IO.mu_lt_fuel _) hse).1
  unfold queryBufR
  rw [this, extract_eq bases _ _ hs1 hse]

/-- the case the oracle runs on every file: a `BufReader` with a ONE-byte buffer over a reader that
delivers whatever is asked (every `fill_buf` window is a single byte) -/
theorem fai_query_one_byte_buffer (f : Bytes) (ix : List FaiRec) (h : indexFile f = .ok ix)
    (i : Nat) (rec : FaiRec) (name bases : Bytes)
    (hrec : ix[i]? = some rec) (hnv : (naive f)[i]? = some (name, bases)) (hclean : Clean bases)
    (start end_ : Option Nat) (hs1 : 1 ≤ start.getD 1) (hs2 : start.getD 1 ≤ bases.length)
    (hse : start.getD 1 ≤ end_.getD usizeMax) :
    (queryBufR f [] 1 rec start end_).1 =
      .ok (bases.extract (start.getD 1 - 1) (min (end_.getD usizeMax) bases.length)) :=
  fai_query_any_buffer_correct f ix h i rec name bases hrec hnv hclean start end_ hs1 hs2 hse 1
    (Nat.lt_succ_self 0) []

/-- a start beyond the sequence length is `InvalidInput` through any buffer as well -/
theorem fai_query_any_buffer_beyond_end (f : Bytes) (sched : List Noodles.IO.Delivery) (cap : Nat)
    (rec : FaiRec) (p : Nat) (end_ : Option Nat) (hp : rec.length < p) :
    queryBufR f sched cap rec (some p) end_ = (.error .invalidInput, none) :=
  queryG_beyond _ _ rec p end_ hp

/-! ### non-vacuity: concrete layouts and schedules -/

/-- `>a\r\nACGT\r\nACGT\r\n\r\n>b x\r\nTT` cut into members between CR and LF, inside a line, with an
empty member in the middle and one just before the `>`: a well-formed layout of an accepted file -/
def crlfLayout : Layout UInt8 :=
  [⟨30, [62, 97, 13]⟩, ⟨31, [10, 65, 67]⟩, ⟨28, []⟩, ⟨33, [71, 84, 13]⟩, ⟨35, [10, 65, 67, 71, 84, 13, 10, 13]⟩,
   ⟨29, [10]⟩, ⟨28, []⟩, ⟨36, [62, 98, 32, 120, 13, 10, 84, 84]⟩, ⟨28, []⟩]

example : WF crlfLayout := by
  intro b hb
  simp [crlfLayout] at hb
  rcases hb with rfl | rfl | rfl | rfl | rfl | rfl | rfl | rfl | rfl <;> simp [Noodles.Bgzf.RM.MAX_ISIZE]

example : indexFile (flat crlfLayout) = .ok [⟨[97], 8, 4, 4, 6⟩, ⟨[98], 2, 24, 2, 2⟩] := by decide

example : naive (flat crlfLayout) = [([97], [65, 67, 71, 84, 65, 67, 71, 84]), ([98], [84, 84])] := by
  decide

/-- `a:3-7` lands in the middle of member 3 and reads across four members, skipping CR LF twice
(the BGZF reader's `readBlock` is defined by well-founded recursion, which `decide` does not unfold:
the instance is obtained from the theorem, all of whose hypotheses are closed by `decide`) -/
example : (queryBgzf crlfLayout (gziOf crlfLayout) R.init ⟨[97], 8, 4, 4, 6⟩ (some 3) (some 7)).1
    = .ok [71, 84, 65, 67, 71] := by
  have hwf : WF crlfLayout := by
    intro b hb
    simp [crlfLayout] at hb
    rcases hb with rfl | rfl | rfl | rfl | rfl | rfl | rfl | rfl | rfl <;> simp [Noodles.Bgzf.RM.MAX_ISIZE]
  have := fai_query_bgzf_correct crlfLayout hwf [⟨[97], 8, 4, 4, 6⟩, ⟨[98], 2, 24, 2, 2⟩] (by decide) 0
    ⟨[97], 8, 4, 4, 6⟩ [97]
    [65, 67, 71, 84, 65, 67, 71, 84] (by decide) (by decide) (by unfold Clean; decide)
    (some 3) (some 7) (by decide) (by decide) (by decide) []
  simpa [runOps] using this

/-- a session of three queries on that reader — forwards, backwards into an earlier member, into the
other record — meets the hypotheses of `fai_queries_bgzf_correct` -/
example : sessionBgzf crlfLayout (gziOf crlfLayout) R.init
    [(⟨[97], 8, 4, 4, 6⟩, some 3, some 7), (⟨[97], 8, 4, 4, 6⟩, none, some 2), (⟨[98], 2, 24, 2, 2⟩, some 2, none)]
    = [.ok [71, 84, 65, 67, 71], .ok [65, 67], .ok [84]] := by
  have hwf : WF crlfLayout := by
    intro b hb
    simp [crlfLayout] at hb
    rcases hb with rfl | rfl | rfl | rfl | rfl | rfl | rfl | rfl | rfl <;> simp [Noodles.Bgzf.RM.MAX_ISIZE]
  have hq : Forall₂ (GoodQuery (flat crlfLayout) [⟨[97], 8, 4, 4, 6⟩, ⟨[98], 2, 24, 2, 2⟩])
      [(⟨[97], 8, 4, 4, 6⟩, some 3, some 7), (⟨[97], 8, 4, 4, 6⟩, none, some 2), (⟨[98], 2, 24, 2, 2⟩, some 2, none)]
      [[71, 84, 65, 67, 71], [65, 67], [84]] := by
    refine .cons ⟨0, [97], [65, 67, 71, 84, 65, 67, 71, 84], by decide, by decide, by unfold Clean; decide,
        by decide, by decide, by decide, by decide⟩
      (.cons ⟨0, [97], [65, 67, 71, 84, 65, 67, 71, 84], by decide, by decide, by unfold Clean; decide,
        by decide, by decide, by decide, by decide⟩
      (.cons ⟨1, [98], [84, 84], by decide, by decide, by unfold Clean; decide,
        by decide, by decide, by decide, by decide⟩ .nil))
  have := fai_queries_bgzf_correct crlfLayout hwf _ (by decide) [] _ _ hq
  simpa [runOps] using this

/-- the same file through a 1-byte `BufReader`, and through a 3-byte one whose inner reader is
interrupted twice and delivers 2 bytes at a time -/
example : (queryBufR (flat crlfLayout) [] 1 ⟨[97], 8, 4, 4, 6⟩ (some 3) (some 7)).1
    = .ok [71, 84, 65, 67, 71] := by decide

example : (queryBufR (flat crlfLayout) [.interrupted, .chunk 2, .interrupted, .chunk 2, .chunk 2, .chunk 2]
    3 ⟨[97], 8, 4, 4, 6⟩ (some 3) (some 7)).1 = .ok [71, 84, 65, 67, 71] := by decide

/-! ## the FASTQ indexer

noodles-fastq `io/indexer.rs` is POSITIONAL: `read_definition` (one raw line), then three
`read_until(b'\n')` — whatever those lines contain. Model: `fqIndexFileU`
(`Noodles/Fasta/FqIndex.lean`, with the `str::from_utf8` check of the name). Naive reading:
`fqNaiveIndex` — the raw lines of the file four at a time (`fqGroups`), name / trimmed length / line
width read off the lines, offsets = lengths of the lines before; `none` unless every first-of-four
line starts with `@` and carries a UTF-8 name.

What the code does with files that are not four-lines-per-record FASTQ is part of the statement:

* a **multi-line FASTQ** (sequence or qualities wrapped) is read four raw lines at a time all the
  same: it is rejected (`InvalidData`) exactly when some raw line number 4k+1 — the first of a group
  of four — does not start with `@` or carries a name that is not UTF-8 (`fqi_accepts_iff`,
  `fqi_multiline_rejected`); when the wrapped quality lines happen to start with `@` it is accepted
  with records that are not the file's (`fqi_multiline_misindexed_witness`);
* the `+` line is not looked at, the quality line's length is not compared with the sequence's, a
  file that ends inside a record is accepted (`fqi_unchecked_witnesses`) — there is NO rejection of
  ragged records in the FASTQ indexer; the FASTQ reader checks the `+` only.

There is no query API for a FASTQ index in noodles, so `fqi_offsets_correct` states what the offsets
are worth on the bytes of the file, against the records the FASTQ reader returns. -/

/-- **The FASTQ index is the naive four-line reading — for EVERY byte string**, accepted or not;
every rejection is `InvalidData`. -/
theorem fqi_index_matches_naive (f : Bytes) :
    fqIndexFileU f = match fqNaiveIndex f with
      | some ix => .ok ix
      | none => .error .invalidData :=
  fqIndexFileU_naive f

/-- **What is accepted**: exactly the files in which every first-of-four raw line starts with `@`
and has a UTF-8 name. Nothing else is required — not the `+`, not equal lengths, not four lines. -/
theorem fqi_accepts_iff (f : Bytes) :
    (∃ ix, fqIndexFileU f = .ok ix) ↔
      ∀ g ∈ fqGroups 0 (splitLines f), g.l0.head? = some AT ∧ utf8Valid (fqNameOf g.l0) = true := by
  rw [fqi_index_matches_naive]
  unfold fqNaiveIndex
  simp only []
  by_cases hall : (fqGroups 0 (splitLines f)).all fqGroupOk = true
  · rw [if_pos hall]
    simp only [List.all_eq_true] at hall
    constructor
    · intro _ g hg
      have := hall g hg
      simpa [fqGroupOk] using this
    · intro _; exact ⟨_, rfl⟩
  · rw [if_neg hall]
    constructor
    · rintro ⟨ix, hix⟩; cases hix
    · intro h
      exfalso
      apply hall
      simp only [List.all_eq_true]
      intro g hg
      have := h g hg
      simp [fqGroupOk, this.1, this.2]

/-- **Multi-line FASTQ**: as soon as a (4k+1)-th raw line — in a wrapped file, a continuation line —
does not start with `@`, the file is rejected. -/
theorem fqi_multiline_rejected (f : Bytes) (g : FqRaw) (hg : g ∈ fqGroups 0 (splitLines f))
    (h : g.l0.head? ≠ some AT) : fqIndexFileU f = .error .invalidData := by
  cases hr : fqIndexFileU f with
  | error e =>
    rw [fqi_index_matches_naive] at hr
    split at hr
    · cases hr
    · simp only [Except.error.injEq] at hr; rw [hr]
  | ok ix =>
    exact absurd (((fqi_accepts_iff f).mp ⟨ix, hr⟩) g hg).1 h

/-- **The index against the FASTQ reader.** Every file the reader accepts (four-line records whose
third line starts with `+`; LF or CR LF; the last line with or without terminator) whose names are
UTF-8 is accepted by the indexer with one index record per record, in order, and for each:
the name is the reader's; the bytes of the file at `sequence_offset` are the reader's sequence, those
at `quality_scores_offset` the reader's quality string (each for its own length — the indexer does
not require them to be equal); `line_bases = length`; `length` is the sequence's length when it does
not end in whitespace; `line_width` is that plus the line terminator (0, 1 or 2 bytes). -/
theorem fqi_offsets_correct (f : Bytes) (rs : List FqRec) (h : readFq f = .ok rs)
    (hutf : ∀ r ∈ rs, utf8Valid r.name = true) :
    ∃ ix, fqIndexFileU f = .ok ix ∧ ix.length = rs.length ∧
      ∀ (i : Nat) (r : FqRec) (x : FqFaiRec), rs[i]? = some r → ix[i]? = some x →
        x.name = r.name ∧
        (f.drop x.sequenceOffset).take r.sequence.length = r.sequence ∧
        (f.drop x.qualityOffset).take r.quality.length = r.quality ∧
        x.lineBases = x.length ∧
        ((∀ b, r.sequence.getLast? = some b → isWs b = false) → x.length = r.sequence.length) ∧
        r.sequence.length ≤ x.lineWidth ∧ x.lineWidth ≤ r.sequence.length + 2 := by
  obtain ⟨ix, h1, h2⟩ := fq_reader_index f _ f 0 rs rfl h hutf
  refine ⟨ix, h1, ?_, fun i r x hr hx => forall₂_get h2 i r x hr hx⟩
  clear h1 h hutf
  induction h2 with
  | nil => rfl
  | cons _ _ ih => simp [ih]

/-- **Written files** (non-vacuity of `fqi_offsets_correct` at every size): what the FASTQ writer
produces from valid records with UTF-8 names is accepted by the indexer, and the index addresses
every record's sequence and quality string. -/
theorem fqi_written (sep : UInt8) (hsep : sep = SP ∨ sep = TAB) (rs : List FqRec)
    (hv : ∀ r ∈ rs, ValidFq r) (hutf : ∀ r ∈ rs, utf8Valid r.name = true) :
    ∃ ix, fqIndexFileU (writeFq sep rs) = .ok ix ∧ ix.length = rs.length ∧
      ∀ (i : Nat) (r : FqRec) (x : FqFaiRec), rs[i]? = some r → ix[i]? = some x →
        x.name = r.name ∧
        ((writeFq sep rs).drop x.sequenceOffset).take r.sequence.length = r.sequence ∧
        ((writeFq sep rs).drop x.qualityOffset).take r.quality.length = r.quality := by
  have hrd : readFq (writeFq sep rs) = .ok rs := readFqAll_written hsep rs hv _ (Nat.lt_succ_self _)
  obtain ⟨ix, h1, h2, h3⟩ := fqi_offsets_correct _ rs hrd hutf
  exact ⟨ix, h1, h2, fun i r x hr hx => ⟨(h3 i r x hr hx).1, (h3 i r x hr hx).2.1, (h3 i r x hr hx).2.2.1⟩⟩

/-! ### non-vacuity and the witnesses -/

/-- `@r0 LN:4\r\nACGT\r\n+r0\r\n@+I+\r\n@r1\nAC\n+\n+@`: CR LF and LF records, a `+` line that
repeats the name, qualities starting with `@` and `+`, no final newline -/
def fqMixed : Bytes :=
  [64, 114, 48, 32, 76, 78, 58, 52, 13, 10, 65, 67, 71, 84, 13, 10, 43, 114, 48, 13, 10, 64, 43, 73, 43, 13, 10,
   64, 114, 49, 10, 65, 67, 10, 43, 10, 43, 64]

example : readFq fqMixed = .ok [⟨[114, 48], [76, 78, 58, 52], [65, 67, 71, 84], [64, 43, 73, 43]⟩,
    ⟨[114, 49], [], [65, 67], [43, 64]⟩] := by decide

example : fqIndexFileU fqMixed = .ok [⟨[114, 48], 4, 10, 4, 6, 21⟩, ⟨[114, 49], 2, 31, 2, 3, 36⟩] := by
  decide

example : (fqMixed.drop 21).take 4 = [64, 43, 73, 43] ∧ (fqMixed.drop 36).take 2 = [43, 64] := by decide

/-- a multi-line FASTQ (`@r / AC / GT / + / II / II`) is rejected: its fifth raw line is `II` -/
example : fqIndexFileU [64, 114, 10, 65, 67, 10, 71, 84, 10, 43, 10, 73, 73, 10, 73, 73, 10]
    = .error .invalidData := by decide

/-- **Multi-line FASTQ can be mis-indexed.** `@r / AC / GT / + / @I / II`: the wrapped quality
string starts with `@`, the file is accepted, and the index lists a 2-base record `r` (there are 4
bases) and a record `I` that does not exist. (Observation about the FASTQ indexer; the property's
"rejected rather than mis-indexed" clause is about FASTA. Replayed on the real code by the harness.) -/
theorem fqi_multiline_misindexed_witness :
    fqIndexFileU [64, 114, 10, 65, 67, 10, 71, 84, 10, 43, 10, 64, 73, 10, 73, 73, 10]
      = .ok [⟨[114], 2, 3, 2, 3, 9⟩, ⟨[73], 2, 14, 2, 3, 17⟩] := by decide

/-- **What the indexer does not check.** (1) `@r / ACGT / + / II / @s / A / + / I`: a quality string
shorter than the sequence is accepted, and the 4 bytes at `quality_scores_offset` are `II\n@` —
they run into the next record's definition line. (2) `@r / ACGT / - / IIII`: no `+` — accepted by the
indexer, `InvalidData` for the reader. (3) `@r / AC` and nothing more: accepted. -/
theorem fqi_unchecked_witnesses :
    (fqIndexFileU [64, 114, 10, 65, 67, 71, 84, 10, 43, 10, 73, 73, 10, 64, 115, 10, 65, 10, 43, 10, 73, 10]
        = .ok [⟨[114], 4, 3, 4, 5, 10⟩, ⟨[115], 1, 16, 1, 2, 20⟩] ∧
      (([64, 114, 10, 65, 67, 71, 84, 10, 43, 10, 73, 73, 10, 64, 115, 10, 65, 10, 43, 10, 73, 10] : Bytes).drop 10).take 4
        = [73, 73, 10, 64]) ∧
    (fqIndexFileU [64, 114, 10, 65, 67, 71, 84, 10, 45, 10, 73, 73, 73, 73, 10] = .ok [⟨[114], 4, 3, 4, 5, 10⟩] ∧
      readFq [64, 114, 10, 65, 67, 71, 84, 10, 45, 10, 73, 73, 73, 73, 10] = .error .invalidData) ∧
    fqIndexFileU [64, 114, 10, 65, 67] = .ok [⟨[114], 2, 3, 2, 2, 5⟩] := by decide

/-- names that are not UTF-8 are rejected (`@\xC3(\n…`), well-formed multi-byte names are kept -/
example : fqIndexFileU [64, 0xC3, 0x28, 10, 65, 10, 43, 10, 73, 10] = .error .invalidData ∧
    fqIndexFileU [64, 0xC3, 0xA9, 10, 65, 10, 43, 10, 73, 10] = .ok [⟨[0xC3, 0xA9], 1, 4, 1, 2, 8⟩] := by
  decide

end Noodles.Props.C11
