import Noodles.Props.C08Fqz
import Noodles.Props.C08Tok
import Noodles.Props.C08Aac
import Noodles.Cram.Num
import Noodles.Cram.NumProof
import Noodles.Cram.Rans4x8
import Noodles.Cram.Rans4x8Proof
import Noodles.Cram.Nx16
import Noodles.Cram.Nx16Proof
import Noodles.Props.C08Order1
/-!
# C08 — CRAM codecs and integer codings decode exactly what was encoded, per the specification

Models: `Noodles/Cram/Num.lean` (ITF8, LTF8, uint7 writers and readers, transcribed from
`noodles-cram/src/io/{reader,writer}/num/*.rs`), `Noodles/Cram/Rans4x8.lean` (rANS 4x8 order 0)
and `Noodles/Cram/Nx16.lean` (rANS Nx16 for every flag byte without ORDER: N32, STRIPE, NO_SIZE,
CAT, RLE, PACK in any combination): the encoders transcribed from noodles, the decoders written
from the CRAM codecs specification. Helper lemmas: `NumProof.lean`, `Rans4x8Proof.lean`,
`Nx16Proof.lean`.

The rANS model describes noodles WITH the `fix:` commits of the C08 round. On the tree before those
commits the following statements are FALSE of the code (each witness is in the harness corpus and
shows up as a model-vs-implementation disagreement and as an oracle failure):
* `freq_table_roundtrip`: `write_frequencies` started with `prev_sym = 0`, so a table whose first
  symbol is 1 (input `[1,2,3]`) opened a run the reader does not expect; and a run of consecutive
  symbols reaching 255 got the length `unwrap_or(0)` (`[253,254,255]`: reader traps;
  `[252,253,254,255]`: error; all 256 symbols: decodes to different bytes without an error).
* `freq_normalise_sum` / `rans4x8_o0_encode_total`: the excess of the rounded-up sum over 4095 was
  subtracted from the most frequent symbol only. 56 symbols × 1000 occurrences + 200 symbols × 1:
  the excess is 137 but that symbol holds 72 (`u16` underflow); 76 × 200 + 180 × 1 likewise; when
  the two are equal the symbol is left with frequency 0 and `state_renormalize` never returns
  (memory grows until the process dies). `f * 4095` overflowed `u32` above 1 048 832 occurrences.
* `rans4x8_o0_roundtrip`: additionally the empty input encoded to a stream that the decoder
  rejects (`err:eof`).
-/
namespace Noodles.Props.C08
open Noodles.Cram Noodles.Cram.Num Noodles.Cram.R4

/-! ## integer codings -/

/-- ITF8: every `i32` is read back, and the reader stops at the end of the encoding. -/
theorem itf8_roundtrip (n : Int) (h1 : -2 ^ 31 ≤ n) (h2 : n < 2 ^ 31) (r : List Nat) :
    readItf8 (writeItf8 n ++ r) = .ok (n, r) := by
  rw [readItf8_write, ofU_toU32 n h1 h2]

/-- LTF8: every `i64`. -/
theorem ltf8_roundtrip (n : Int) (h1 : -2 ^ 63 ≤ n) (h2 : n < 2 ^ 63) (r : List Nat) :
    readLtf8 (writeLtf8 n ++ r) = .ok (n, r) := by
  rw [readLtf8_write, ofU_toU64 n h1 h2]

/-- uint7: every `u32`; the writer's index arithmetic never leaves its 5-byte buffer. -/
theorem uint7_roundtrip (n : Nat) (h : n < 2 ^ 32) :
    ∃ bs, writeUint7 n = some bs ∧ ∀ r, readUint7 (bs ++ r) = .ok (n, r) := by
  obtain ⟨bs, h1, _, _, h2⟩ := uint7_roundtrip' n h
  exact ⟨bs, h1, h2⟩

/-- the writers emit bytes, at most 5 / 9 / 5 of them -/
theorem int_codings_emit_bytes :
    (∀ n : Int, (writeItf8 n).length ≤ 5 ∧ ∀ b ∈ writeItf8 n, b < 256) ∧
    (∀ n : Int, (writeLtf8 n).length ≤ 9 ∧ ∀ b ∈ writeLtf8 n, b < 256) ∧
    (∀ n : Nat, n < 2 ^ 32 → ∀ bs, writeUint7 n = some bs → bs.length ≤ 5 ∧ ∀ b ∈ bs, b < 256) := by
  refine ⟨writeItf8_bytes, writeLtf8_bytes, ?_⟩
  intro n h bs hbs
  obtain ⟨bs', h1, h2, h3, _⟩ := uint7_roundtrip' n h
  rw [h1] at hbs
  cases hbs
  exact ⟨h2, h3⟩

/-! ## rANS 4x8 order 0: the parts -/

/-- `rans_step_inverse`: the decoder's advance step undoes the encoder's step, and the slot it
looks up lies in the symbol's interval `[c, c + f)`. -/
theorem rans_step_inverse (s f c : Nat) (hf : 0 < f) (hc : c + f ≤ 4096) :
    decStep (encStep s f c) f c = s ∧
    c ≤ encStep s f c % 4096 ∧ encStep s f c % 4096 < c + f := by
  refine ⟨decStep_encStep s f c hf hc, ?_⟩
  rw [encStep_mod s f c hf hc]
  have : s % f < f := Nat.mod_lt _ hf
  omega

/-- `rans_renorm_inverse`: for a state in `[L, 2^31)` and a frequency in `[1, 4096]` the bytes the
encoder emits, read back in reverse, restore the state and leave the rest of the stream; the
encoder's loop has ended (the model's fuel is not what stops it); the next state is again in
`[L, 2^31)`. -/
theorem rans_renorm_inverse (s f c : Nat) (rest : List Nat) (hs1 : L ≤ s) (hs2 : s < 2 ^ 31)
    (hf : 0 < f) (hc : c + f ≤ 4096) :
    renormDec ((renormEnc 4 s f).2.reverse ++ rest) (renormEnc 4 s f).1 = .ok (s, rest) ∧
    (renormEnc 4 s f).1 < 2 ^ 19 * f ∧
    L ≤ encStep (renormEnc 4 s f).1 f c ∧ encStep (renormEnc 4 s f).1 f c < 2 ^ 31 := by
  refine ⟨renormDec_renormEnc 4 s f rest hs1 hs2, renormEnc_done s f hf (by omega), ?_⟩
  exact encStep_range _ f c hf hc (renormEnc_lower 4 s f (by unfold L at hs1; omega))
    (renormEnc_done s f hf (by omega))

/-- `freq_normalise_sum`: for any histogram of at most 4095 entries that is not all zero, the
normalised table has the same support and sums to exactly 4095 (so no `-=` underflows and no
symbol of the input is left with frequency 0). -/
theorem freq_normalise_sum (raw : List Nat) (hlen : raw.length ≤ 4095) (hsum : raw.sum ≠ 0) :
    (normalize raw).length = raw.length ∧ (normalize raw).sum = 4095 ∧
    (∀ s, 0 < getF raw s → 0 < getF (normalize raw) s) ∧
    (∀ s, getF raw s = 0 → getF (normalize raw) s = 0) := by
  have h := normalize_spec raw hlen hsum
  exact ⟨h.len, h.sum, h.pos, h.zero⟩

/-- `freq_table_roundtrip`: every table of 256 `u16` frequencies that is not all zero is read back
exactly by the specification's `ReadFrequencies0`, which stops at the end of the table. -/
theorem freq_table_roundtrip (T rest : List Nat) (hlen : T.length = 256)
    (hv : ∀ f ∈ T, f ≤ 65535) (hex : ∃ f ∈ T, f ≠ 0) :
    readFreqs (writeFreqs T ++ rest) = .ok (T, rest) :=
  readFreqs_writeFreqs T rest hlen hv hex

/-- `RansGetSymbolFromFreq` on the cumulative table returns the symbol whose interval holds the slot -/
theorem symbol_lookup (F : List Nat) (x slot : Nat) (hx : x < 256)
    (h1 : cum F x ≤ slot) (h2 : slot < cum F x + getF F x) : lookup (cumL F) slot = x :=
  lookup_cumL F x slot hx h1 (by rw [cum_succ]; exact h2)

/-! ## rANS 4x8 order 0: the codec -/

/-- `rans4x8_o0_roundtrip`: for EVERY byte string, whatever the encoder returns is decoded back to
the input by the decoder written from the specification (empty input included). -/
theorem rans4x8_o0_roundtrip (src bs : List Nat) (hsym : ∀ x ∈ src, x < 256)
    (h : encode0 src = .ok bs) : decode bs = .ok src :=
  decode_encode0 src bs hsym h

/-- The encoder answers for every byte string below 512 MiB: it never waits on a zero frequency
(the `zeroFreq` outcome of the model, i.e. the endless loop of `state_renormalize`), and the sizes
fit the header. -/
theorem rans4x8_o0_encode_total (src : List Nat) (hsym : ∀ x ∈ src, x < 256)
    (hlen : src.length < 2 ^ 29) : ∃ bs, encode0 src = .ok bs ∧ decode bs = .ok src := by
  obtain ⟨bs, h⟩ := encode0_ok src hsym hlen
  exact ⟨bs, h, decode_encode0 src bs hsym h⟩

/-! ## rANS Nx16 (every flag byte without ORDER) -/

/-- `pack_inverse`: for an input with 1..16 distinct symbols, `DecodePack` on the symbol map and
the packed bytes that `bit_pack::encode` produces gives the input back. -/
theorem pack_inverse (src : List Nat) (hsym : ∀ x ∈ src, x < 256)
    (h1 : 1 ≤ (Nx.symbols src).length) (h16 : (Nx.symbols src).length ≤ 16) :
    Nx.unpack (Nx.symbols src) src.length (Nx.packEnc (Nx.symbols src) src) = .ok src :=
  Nx.unpack_packEnc src hsym h1 h16

/-- `rle_inverse`: for ANY choice `rs` of run-length symbols, the literals and run lengths that
`rle::encode` produces expand to the input under `DecodeRLE` (and the rest of the meta data
stream is not touched). -/
theorem rle_inverse (rs src lits runs rest : List Nat)
    (h : Nx.rleEnc rs src.length src = some (lits, runs)) :
    Nx.rleDec (fun s => rs.contains s) lits (runs ++ rest) = .ok src :=
  Nx.rleDec_rleEnc rs src.length src lits runs rest (Nat.le_refl _) h

/-- `stripe_inverse`: interleaving the four transposed sub-streams gives the input back, and each
sub-stream has the length the decoder derives from the total length. -/
theorem stripe_inverse (src : List Nat) :
    (Nx.interleave src.length ((List.range 4).map fun j => Nx.transpose 4 src j)).take src.length = src
    ∧ ∀ j, j < 4 → (Nx.transpose 4 src j).length
        = src.length / 4 + (if src.length % 4 > j then 1 else 0) :=
  ⟨Nx.interleave_transpose src, fun j hj => Nx.transpose_length src j hj⟩

/-- the symbol list written by `write_alphabet` is read back exactly by `ReadAlphabet` -/
theorem alphabet_roundtrip (A : List Bool) (rest : List Nat) (hlen : A.length = 256)
    (hex : ∃ a ∈ A, a = true) : Nx.readAlpha (Nx.writeAlpha A ++ rest) = .ok (A, rest) :=
  Nx.readAlpha_writeAlpha A rest hlen hex

/-- Order-0 entropy stage with any number of interleaved states (4 and 32 are used): alphabet,
frequencies, states and payload written by noodles decode to the input under `RansDecodeNx16_0`;
the encoder never meets a zero frequency. -/
theorem rans_nx16_o0_stage (n : Nat) (hn : 0 < n) (src : List Nat) (hsym : ∀ x ∈ src, x < 256)
    (hne : src ≠ []) (rest : List Nat) :
    ∃ e, Nx.encodeO0 n src = .ok e ∧ Nx.decodeO0 n src.length (e ++ rest) = .ok src := by
  obtain ⟨e, h⟩ := Nx.encodeO0_ok n src hsym
  exact ⟨e, h, Nx.decodeO0_encodeO0 n hn src e hsym hne h rest⟩

/-- `rans_nx16_roundtrip`: for EVERY flag byte without the ORDER bit — N32, STRIPE, NO_SIZE, CAT,
RLE, PACK and the reserved bit in any combination, including the encoder's own rewrites of the
flag byte — and EVERY byte string, what noodles' encoder returns is decoded back to the input by
the decoder written from the specification (given the input length, which the CRAM block header
supplies when NO_SIZE is set). -/
theorem rans_nx16_roundtrip (f : Nx.Flags) (src bs : List Nat) (hsym : ∀ x ∈ src, x < 256)
    (hord : f.order = false) (h : Nx.encode f src = .ok bs) : Nx.decode bs src.length = .ok src :=
  Nx.decode_encode f src bs hsym hord h

/-- the flag byte survives: all eight bits are kept by `Flags::from(u8)` / `u8::from(Flags)` -/
theorem nx16_flags_byte (f : Nx.Flags) : Nx.Flags.ofByte f.toByte = f := Nx.ofByte_toByte f

/-! ## non-vacuity -/

-- the hypothesis `encode f src = .ok bs` of `rans_nx16_roundtrip` is satisfiable: plain CAT
example : Nx.encode (Nx.Flags.ofByte 32) [1, 2, 3] = .ok [32, 3, 1, 2, 3] := by rfl
-- … and the encoder's rewrite of its own flag byte (3 bytes < 4 states: CAT is forced)
example : Nx.encode (Nx.Flags.ofByte 0) [1, 2, 3] = .ok [32, 3, 1, 2, 3] := by rfl


-- the hypotheses of the step / renormalisation lemmas hold for the initial state and a real entry
example : L ≤ L ∧ L < 2 ^ 31 ∧ 0 < 4095 ∧ 0 + 4095 ≤ 4096 := by decide

-- a table satisfying the hypotheses of `freq_table_roundtrip` exists
example : ∃ T : List Nat, T.length = 256 ∧ (∀ f ∈ T, f ≤ 65535) ∧ ∃ f ∈ T, f ≠ 0 :=
  ⟨4095 :: List.replicate 255 0, by rw [List.length_cons, List.length_replicate], by
    intro f hf
    rw [List.mem_cons, List.mem_replicate] at hf
    omega, 4095, List.mem_cons_self, by decide⟩

-- the hypothesis `encode0 src = .ok bs` of the round trip is satisfiable for every small input
example (src : List Nat) (hsym : ∀ x ∈ src, x < 256) (hlen : src.length < 2 ^ 29) :
    ∃ bs, encode0 src = .ok bs := encode0_ok src hsym hlen

-- and concretely: ITF8 of -1 is `ff ff ff ff 0f`, LTF8 of 2^56 is the 9-byte form
example : writeItf8 (-1) = [255, 255, 255, 255, 15] := by decide
example : readItf8 [255, 255, 255, 255, 15, 7] = .ok (-1, [7]) := by rfl
example : writeUint7 300 = some [130, 44] := by decide

end Noodles.Props.C08
