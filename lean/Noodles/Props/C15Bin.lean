import Noodles.Hostile.IndexReadProof
import Noodles.Hostile.FramingProof
import Noodles.Hostile.CramProof
/-!
# C15, binary headers and index files — hostile input is an error, never a panic

The readers below are transcribed as `Rd α = Bytes → Res (α × Bytes)` (`Noodles/Hostile/Stream.lean`):
given what is left of the stream they answer `ok (value, what is left now)`, `err e` or `panic`,
`panic` being produced exactly where the Rust indexes, slices, asserts, unwraps or overflows.
For EVERY byte string (no length bound) each reader

* `…_total_no_panic` — does not answer `panic`;
* `…_consumes_in_bounds` — when it answers `ok (v, rest)`, `rest` is a suffix of its input
  (`rest <:+ s`, i.e. `∃ consumed, consumed ++ rest = s`): it consumed a prefix and never looked
  outside the bytes it was given.

External components are universally quantified parameters: CRC-32 (`crc`, any function), the
SAM/VCF header parsers (`P`, any function of the lines), `flate2`'s gzip decoder on a CRAM file
header block (`G`, any behaviour) and the CRAM block codecs (`D`, any function that answers bytes
or an error). Helper lemmas: `Noodles/Hostile/{StreamProof,IndexReadProof,FramingProof,CramProof}.lean`.
-/
namespace Noodles.Props.C15
open Noodles.Hostile

-- the `decide` of the examples compares deeply nested tuples
set_option synthInstance.maxSize 4096

/-! ## BAI, tabix, CSI -/

theorem bai_reader_total_no_panic (s : Bytes) : Idx.readBai s ≠ .panic :=
  Idx.safe_readBai.ne_panic s

theorem bai_reader_consumes_in_bounds (s rest : Bytes) (ix : Noodles.Index.Bai)
    (h : Idx.readBai s = .ok (ix, rest)) : rest <:+ s := Idx.safe_readBai.suffix h

theorem tabix_reader_total_no_panic (s : Bytes) : Idx.readTabix s ≠ .panic :=
  Idx.safe_readTabix.ne_panic s

theorem tabix_reader_consumes_in_bounds (s rest : Bytes) (ix : Noodles.Index.Tabix)
    (h : Idx.readTabix s = .ok (ix, rest)) : rest <:+ s := Idx.safe_readTabix.suffix h

/-- the tabix header on its own (`noodles_csi::io::reader::index::read_header`, public): format,
the three column indices with their `n.get() - 1`, meta character, skip count, the names block -/
theorem tabix_header_total_no_panic (s : Bytes) : Idx.readHeader s ≠ .panic :=
  Idx.safe_readHeader.ne_panic s

theorem tabix_header_consumes_in_bounds (s rest : Bytes) (h : Noodles.Index.Header)
    (e : Idx.readHeader s = .ok (h, rest)) : rest <:+ s := Idx.safe_readHeader.suffix e

/-- `csi::io::Reader::read_index`, with `validate_geometry`: `Bin::metadata_id(depth)` (an
`assert!(depth <= 10)` and a 64-bit shift) is only reached with a validated depth -/
theorem csi_reader_total_no_panic (s : Bytes) : Idx.readCsi s ≠ .panic :=
  Idx.safe_readCsi.ne_panic s

theorem csi_reader_consumes_in_bounds (s rest : Bytes) (ix : Noodles.Index.CsiIndex)
    (h : Idx.readCsi s = .ok (ix, rest)) : rest <:+ s := Idx.safe_readCsi.suffix h

/-- the geometry of an index the CSI reader accepted is the one `csi_query_no_panic_partial`
(`Noodles/Props/C15.lean`) asks for: the reader establishes the query's validity hypothesis -/
theorem csi_reader_establishes_geometry (s rest : Bytes) (ix : Noodles.Index.CsiIndex)
    (h : Idx.readCsi s = .ok (ix, rest)) :
    0 < ix.minShift ∧ ix.minShift + 3 * ix.depth < 64 ∧ ix.depth ≤ 10 :=
  Idx.readCsi_geometry h

/-- why `validate_geometry` matters (finding F9, fixed): WITHOUT it a 20-byte file — magic,
`min_shift = 14`, `depth = 11`, `l_aux = 0`, `n_ref = 1`, `n_bin = 0` — reaches the assertion of
`bin_limit`; with it the same bytes are `InvalidData` -/
def csiDepth11 : Bytes :=
  [67, 83, 73, 1, 14, 0, 0, 0, 11, 0, 0, 0, 0, 0, 0, 0, 1, 0, 0, 0, 0, 0, 0, 0]

example : Idx.readCsiUnvalidated csiDepth11 = .panic := by decide
example : Idx.readCsi csiDepth11 = .err .invalidData := by decide

/-- non-vacuity: inputs the three readers accept (an empty BAI with `n_no_coor`, a tabix index
with one name and no reference sequence data, a CSI index with one empty reference sequence) -/
example : Idx.readBai [66, 65, 73, 1, 0, 0, 0, 0, 7, 0, 0, 0, 0, 0, 0, 0, 9] = .ok (⟨[], some 7⟩, [9]) := by
  decide
example : Idx.readTabix ([84, 66, 73, 1, 0, 0, 0, 0] ++ [2, 0, 0, 0, 1, 0, 0, 0, 2, 0, 0, 0, 0, 0, 0, 0,
    35, 0, 0, 0, 0, 0, 0, 0, 2, 0, 0, 0, 97, 0]) =
    .ok (⟨some ⟨.vcf, 0, 1, none, 35, 0, [[97]]⟩, [], none⟩, []) := by decide
example : Idx.readCsi (csiDepth11.set 8 5) = .ok (⟨14, 5, none, [⟨[], [], none⟩], none⟩, []) := by decide

/-- the readers as they are since /repo `fix:` 125ecd7 and 8288cb5 (the model follows the code):
a tabix names block cut short by the end of the input (`l_nm = 3`, then only `a NUL`) is an error —
`UnexpectedEof`, re-wrapped by `read_index` —, the header reader alone reports `UnexpectedEof`; a CSI
`aux` block of `l_aux = 34` = a 30-byte header + 4 bytes of padding is skipped in full: `n_ref = 0` and
`n_no_coor = 5` are read from behind the padding -/
example : Idx.readTabix ([84, 66, 73, 1, 0, 0, 0, 0] ++ [2, 0, 0, 0, 1, 0, 0, 0, 2, 0, 0, 0, 0, 0, 0, 0,
    35, 0, 0, 0, 0, 0, 0, 0, 3, 0, 0, 0, 97, 0]) = .err .invalidData := by decide
example : Idx.readHeader [2, 0, 0, 0, 1, 0, 0, 0, 2, 0, 0, 0, 0, 0, 0, 0,
    35, 0, 0, 0, 0, 0, 0, 0, 3, 0, 0, 0, 97, 0] = .err .eof := by decide
example : Idx.readCsi ([67, 83, 73, 1, 14, 0, 0, 0, 5, 0, 0, 0, 34, 0, 0, 0] ++
    [2, 0, 0, 0, 1, 0, 0, 0, 2, 0, 0, 0, 0, 0, 0, 0, 35, 0, 0, 0, 0, 0, 0, 0, 2, 0, 0, 0, 97, 0] ++
    [9, 9, 9, 9] ++ [0, 0, 0, 0, 5, 0, 0, 0, 0, 0, 0, 0]) =
    .ok (⟨14, 5, some ⟨.vcf, 0, 1, none, 35, 0, [[97]]⟩, [], some 5⟩, []) := by decide

/-! ## BAM header -/

/-- `bam::io::Reader::read_header` on ANY byte string, for ANY behaviour of the SAM header parser -/
theorem bam_header_total_no_panic (P : List Bytes → Option BamHdr.Refs) (s : Bytes) :
    BamHdr.readHeader P s ≠ .panic := (BamHdr.safe_readHeader P).ne_panic s

theorem bam_header_consumes_in_bounds (P : List Bytes → Option BamHdr.Refs) (s rest : Bytes)
    (refs : BamHdr.Refs) (h : BamHdr.readHeader P s = .ok (refs, rest)) : rest <:+ s :=
  (BamHdr.safe_readHeader P).suffix h

/-- the one slice expression of the header text reader, `&src[..=i]` in `fill_buf` (the same
function serves the CRAM file header and the BCF header text): in range for every buffer content
and both states of `is_eol`, and what it hands out is a prefix of the buffer -/
theorem header_text_fill_buf_no_panic (isEol : Bool) (src : Bytes) :
    BamHdr.fillBuf isEol src ≠ .panic := BamHdr.fillBuf_ne_panic isEol src

theorem header_text_fill_buf_in_bounds (isEol e : Bool) (src b : Bytes)
    (h : BamHdr.fillBuf isEol src = .ok (b, e)) : b <+: src := BamHdr.fillBuf_prefix h

/-- the binary dictionary (`read_reference_sequences`, public through `header_reader()`) -/
theorem bam_reference_sequences_total_no_panic (s : Bytes) :
    BamHdr.readReferenceSequences s ≠ .panic := BamHdr.safe_readReferenceSequences.ne_panic s

/-- an entry that was accepted has a NUL-free name (`l_name` bytes ending in the only NUL) and a
length in `1 ..= u32::MAX` -/
theorem bam_reference_sequence_valid (s rest : Bytes) (e : Bytes × Nat)
    (h : BamHdr.readReferenceSequence s = .ok (e, rest)) :
    (0 : UInt8) ∉ e.1 ∧ 0 < e.2 ∧ e.2 < 2^32 := BamHdr.post_readReferenceSequence s e rest h

/-- non-vacuity: magic, `l_text = 4` (`@CO\n`), `n_ref = 1`, `l_name = 2` (`a\0`), `l_ref = 5` -/
example : BamHdr.readHeaderParts [66, 65, 77, 1, 4, 0, 0, 0, 64, 67, 79, 10, 1, 0, 0, 0, 2, 0, 0, 0, 97, 0,
    5, 0, 0, 0] = .ok (([[64, 67, 79]], [([97], 5)]), []) := by decide
/-- a name without its NUL, and a zero length, are `InvalidData` -/
example : BamHdr.readReferenceSequence [1, 0, 0, 0, 97, 5, 0, 0, 0] = .err .invalidData := by decide
example : BamHdr.readReferenceSequence [2, 0, 0, 0, 97, 0, 0, 0, 0, 0] = .err .invalidData := by decide

/-! ## BCF header and record framing -/

theorem bcf_header_total_no_panic (P : List Bytes → BcfFrame.Parsed) (s : Bytes) :
    BcfFrame.readHeader P s ≠ .panic := (BcfFrame.safe_readHeader P).ne_panic s

theorem bcf_header_consumes_in_bounds (P : List Bytes → BcfFrame.Parsed) (s rest : Bytes)
    (h : BcfFrame.readHeader P s = .ok ((), rest)) : rest <:+ s := (BcfFrame.safe_readHeader P).suffix h

/-- `bcf::io::Reader::read_record` (`l_shared`, `l_indiv`, the two blocks, `Fields::index`)
followed by the four lazy site accessors, on ANY byte string -/
theorem bcf_record_total_no_panic (s : Bytes) : BcfFrame.readRecordAndTouch s ≠ .panic :=
  BcfFrame.safe_readRecordAndTouch.ne_panic s

theorem bcf_record_consumes_in_bounds (s rest : Bytes)
    (v : Option (Bytes × Bytes × Bytes × Bytes × Bytes))
    (h : BcfFrame.readRecordAndTouch s = .ok (v, rest)) : rest <:+ s :=
  BcfFrame.safe_readRecordAndTouch.suffix h

/-- non-vacuity: a record `read_record` accepts (`l_shared = 28`, `l_indiv = 1`: `.` ID, REF `A`,
one allele, no filter, one byte of samples), and the end-of-stream answers -/
example : BcfFrame.readRecordAndTouch ([28, 0, 0, 0, 1, 0, 0, 0] ++ List.replicate 18 0 ++ [1, 0] ++
    List.replicate 4 0 ++ [0x07, 0x17, 0x41, 0x00] ++ [0x99, 0x55]) =
    .ok (some ([], [0x41], [], [0x00], [0x99]), [0x55]) := by decide
example : BcfFrame.readRecordAndTouch [] = .ok (none, []) := by decide
example : BcfFrame.readRecordAndTouch [0, 0, 0, 0, 1, 2] = .ok (none, [1, 2]) := by decide
example : BcfFrame.readRecordAndTouch [1, 0, 0] = .err .eof := by decide

/-! ## CRAM -/

theorem cram_file_definition_total_no_panic (s : Bytes) : Cram.readFileDefinition s ≠ .panic :=
  Cram.safe_readFileDefinition.ne_panic s

theorem cram_file_definition_consumes_in_bounds (s rest : Bytes) (d : Cram.FileDefinition)
    (h : Cram.readFileDefinition s = .ok (d, rest)) : rest <:+ s :=
  Cram.safe_readFileDefinition.suffix h

/-- `read_file_header`: the header container's header (ITF8/LTF8 fields, landmark count, CRC-32),
its block (method, content type, sizes), the text — for ANY CRC function, ANY gzip behaviour and
ANY parser behaviour -/
theorem cram_file_header_total_no_panic (crc : Bytes → Nat) (G : Bytes → Cram.GzRun)
    (P : List Bytes → Option BamHdr.Refs) (s : Bytes) : Cram.readFileHeader crc G P s ≠ .panic :=
  (Cram.safe_readFileHeader crc G P).ne_panic s

theorem cram_file_header_consumes_in_bounds (crc : Bytes → Nat) (G : Bytes → Cram.GzRun)
    (P : List Bytes → Option BamHdr.Refs) (s rest : Bytes) (refs : BamHdr.Refs)
    (h : Cram.readFileHeader crc G P s = .ok (refs, rest)) : rest <:+ s :=
  (Cram.safe_readFileHeader crc G P).suffix h

/-- the data container header: length, reference sequence context (`usize::from(span) - 1`,
`checked_add`), counts, landmarks, CRC-32, the EOF test -/
theorem cram_container_header_total_no_panic (crc : Bytes → Nat) (s : Bytes) :
    Cram.readContainerHeader crc s ≠ .panic := (Cram.safe_readContainerHeader crc).ne_panic s

theorem cram_container_header_consumes_in_bounds (crc : Bytes → Nat) (s rest : Bytes)
    (v : Nat × Cram.ContainerHeader) (h : Cram.readContainerHeader crc s = .ok (v, rest)) :
    rest <:+ s := (Cram.safe_readContainerHeader crc).suffix h

/-- `read_block` on a `&mut &[u8]`: `original_src.len() - src.len()` cannot underflow and
`&original_src[..end]` is in range, whatever the size fields say -/
theorem cram_block_total_no_panic (crc : Bytes → Nat) (s : Bytes) : Cram.readBlock crc s ≠ .panic :=
  (Cram.safe_readBlock crc).ne_panic s

theorem cram_block_consumes_in_bounds (crc : Bytes → Nat) (s rest : Bytes) (b : Cram.Block)
    (h : Cram.readBlock crc s = .ok (b, rest)) : rest <:+ s := (Cram.safe_readBlock crc).suffix h

/-- the bytes a block hands to its codec (`Block::src`) are a contiguous piece of the slice
`read_block` was given (`b.src <:+: s`, i.e. `∃ before after, before ++ b.src ++ after = s`) -/
theorem cram_block_data_in_bounds (crc : Bytes → Nat) (s rest : Bytes) (b : Cram.Block)
    (h : Cram.readBlock crc s = .ok (b, rest)) : b.src <:+: s := Cram.readBlock_src_infix h

/-- why that needs an argument: the tail of `read_block` run against an `original_src` that is
SHORTER than what is left (which the head can never produce) does underflow -/
example : Cram.readBlockTail (fun _ => 0) [1] ⟨0, 0, 0, 0, []⟩ [0, 0, 0, 0, 0] = .panic := by decide

/-- the slice header: its block, `decode` (any codec that answers bytes or an error) and the
fields of `read_header_inner` -/
theorem cram_slice_header_total_no_panic (crc : Bytes → Nat) (D : Cram.Codec)
    (hD : Cram.CodecTotal D) (s : Bytes) : Cram.readSliceHeader crc D s ≠ .panic :=
  (Cram.safe_readSliceHeader crc hD).ne_panic s

theorem cram_slice_header_consumes_in_bounds (crc : Bytes → Nat) (D : Cram.Codec)
    (hD : Cram.CodecTotal D) (s rest : Bytes) (h : Cram.SliceHeader)
    (e : Cram.readSliceHeader crc D s = .ok (h, rest)) : rest <:+ s :=
  (Cram.safe_readSliceHeader crc hD).suffix e

/-- `Container::slices` on ANY landmark array and ANY body (`landmarks[i]`, `src.get(start..end)`),
each item followed by `decode_blocks` -/
theorem cram_slices_total_no_panic (crc : Bytes → Nat) (D : Cram.Codec) (hD : Cram.CodecTotal D)
    (h : Cram.ContainerHeader) (src : Bytes) (hlen : h.landmarks.length < 2^63) :
    Cram.slices crc D h src ≠ .panic := Cram.slices_ne_panic crc hD h src hlen

/-- `read_container`, then every slice of the container with its blocks -/
theorem cram_container_total_no_panic (crc : Bytes → Nat) (D : Cram.Codec) (hD : Cram.CodecTotal D)
    (s : Bytes) : Cram.readContainerAndSlices crc D s ≠ .panic :=
  (Cram.safe_readContainerAndSlices crc hD).ne_panic s

theorem cram_container_consumes_in_bounds (crc : Bytes → Nat) (D : Cram.Codec)
    (hD : Cram.CodecTotal D) (s rest : Bytes)
    (v : Option (Cram.ContainerHeader × Nat × List Cram.SliceItem))
    (h : Cram.readContainerAndSlices crc D s = .ok (v, rest)) : rest <:+ s :=
  (Cram.safe_readContainerAndSlices crc hD).suffix h

/-- the reference sequence context of an accepted container / slice header: its (crate-internal)
accessor `Context::alignment_span` — `end - start + 1` on `usize` — cannot overflow -/
theorem cram_context_span_no_panic (id start span : Int) (c : Cram.RefCtx)
    (h : Cram.refCtxOf id start span = .ok c) : Cram.alignmentSpan c ≠ .panic :=
  Cram.alignmentSpan_ne_panic (Cram.refCtxOf_wf h)

theorem cram_container_context_span_no_panic (crc : Bytes → Nat) (s rest : Bytes)
    (v : Nat × Cram.ContainerHeader) (h : Cram.readContainerHeader crc s = .ok (v, rest)) :
    Cram.alignmentSpan v.2.ctx ≠ .panic :=
  Cram.alignmentSpan_ne_panic (Cram.post_readContainerHeader crc s v rest h).1

/-- what the invariant is for: a context with `end < start` (which `try_from` never builds)
underflows in the accessor -/
example : Cram.alignmentSpan (.some 0 5 3) = .panic := by decide
example : Cram.refCtxOf 0 5 3 = .ok (.some 0 5 7) := by decide

/-- non-vacuity of `CodecTotal` -/
example : Cram.CodecTotal (fun _ _ _ => .err .invalidData) := fun _ _ _ => by simp
/-- non-vacuity: a file definition, and a container (CRC function constantly 0) of one slice
whose header block is raw: 12 header bytes (`len = 44`, context `None`, no records, one block, one
landmark 0, CRC 0), then the slice header block (method 0, type 2, id 0, sizes 22) with
`read_header_inner`'s fields, CRC 0, and a core data block; the EOF container -/
example : Cram.readFileDefinition ([0x43, 0x52, 0x41, 0x4d, 3, 0] ++ List.replicate 20 7 ++ [1]) =
    .ok (⟨3, 0, List.replicate 20 7⟩, [1]) := by decide

def sampleContainer : Bytes :=
  [51, 0, 0, 0, 0xff, 0xff, 0xff, 0xff, 0x0f, 0, 0, 0, 0, 0, 2, 1, 0, 0, 0, 0, 0] ++
  ([0, 2, 0, 32, 32] ++ ([0xff, 0xff, 0xff, 0xff, 0x0f, 0, 0, 0, 0, 1, 0, 0xff, 0xff, 0xff, 0xff, 0x0f] ++
    List.replicate 16 0) ++ [0, 0, 0, 0]) ++
  [0, 5, 0, 1, 1, 0xaa, 0, 0, 0, 0]

example : Cram.readContainer (fun _ => 0) sampleContainer =
    .ok (some (⟨.none, 0, 0, 0, 2, [0]⟩, sampleContainer.drop 21), []) := by decide
example : Cram.slices (fun _ => 0) (fun _ _ _ => .err .invalidData) ⟨.none, 0, 0, 0, 2, [0]⟩
    (sampleContainer.drop 21) = .ok [.ok (⟨.none, 0, 0, 1, [], none, none, []⟩, .ok ([0xaa], []))] := by
  decide
/-- a landmark beyond the body is "invalid landmark" (`InvalidData`) for that item, not a panic -/
example : Cram.slices (fun _ => 0) (fun _ _ _ => .err .invalidData) ⟨.none, 0, 0, 0, 1, [9, 3]⟩ [1, 2, 3, 4] =
    .ok [.error .invalidData, .error .eof] := by decide

end Noodles.Props.C15
