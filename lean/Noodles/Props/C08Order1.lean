import Noodles.Cram.Order1
import Noodles.Cram.Order1R4
import Noodles.Cram.Order1Nx
import Noodles.Cram.Order1Proof
import Noodles.Cram.Order1R4Proof
import Noodles.Cram.Order1NxProof
/-!
# C08, order-1 rANS — rANS 4x8 order 1 and rANS Nx16 with the ORDER flag

Models: `Noodles/Cram/Order1.lean` (what the two order-1 coders share: per-context frequency
tables, the chunk layout with the remainder on the last state, one lane per state, the symbol list
with run lengths), `Order1R4.lean` (rANS 4x8 order 1), `Order1Nx.lean` (rANS Nx16 order 1, and
`rans_nx16::encode` / `decode` for every flag byte). The encoders are transcribed from noodles, the
decoders are the specification's algorithms together with the validity checks of noodles' readers
(frequency totals, symbol runs). Helper lemmas: `Order1Proof.lean`, `Order1R4Proof.lean`,
`Order1NxProof.lean`.

The theorems of `Props/C08.lean` stay as they are; `rans_nx16_roundtrip_all_flags` is the same
statement as `rans_nx16_roundtrip` without the restriction to flag bytes without ORDER, for the
complete models `Nx.encodeA` / `Nx.decodeA`, which extend `Nx.encode` / `Nx.decode`
(`rans_nx16_all_flags_extends`).
-/
namespace Noodles.Props.C08
open Noodles.Cram Noodles.Cram.Num Noodles.Cram.R4 Noodles.Cram.O1

/-! ## the shared step -/

/-- `o1_lane_step_inverse`: one encoder step on a lane (the newest symbol `s`, in the context of
its predecessor, NUL for the first symbol of a chunk) followed by one decoder step gives back the
lane and the stream, the encoder never meets a zero frequency, and the state stays in
`[L, 2^31)` — for the byte-wise renormalisation of rANS 4x8 and the 16-bit one of Nx16. `PairOK`
says that the table has a non-zero frequency for `s` after its predecessor and that the row fits
the 12-bit slot range. -/
theorem o1_lane_step_inverse (F : Table) (x s : Nat) (h : List Nat) (hp : PairOK F (h.headD 0) s) :
    (R4.L ≤ x → x < 2 ^ 31 → ∃ ln' b, encOne kit4 F (cumTable F) (x, s :: h) = some (ln', b) ∧
      ln'.2 = h ∧ R4.L ≤ ln'.1 ∧ ln'.1 < 2 ^ 31 ∧
      ∀ rest, decOne kit4 12 F (cumTable F) ln' (b ++ rest) = some ((x, s :: h), rest)) ∧
    (Nx.L ≤ x → x < 2 ^ 31 → ∃ ln' b, encOne kit16 F (cumTable F) (x, s :: h) = some (ln', b) ∧
      ln'.2 = h ∧ Nx.L ≤ ln'.1 ∧ ln'.1 < 2 ^ 31 ∧
      ∀ rest, decOne kit16 12 F (cumTable F) ln' (b ++ rest) = some ((x, s :: h), rest)) :=
  ⟨fun h1 h2 => decOne_encOne kit4 R4.L kit4_ok F x s h h1 h2 hp,
   fun h1 h2 => decOne_encOne kit16 Nx.L kit16_ok F x s h h1 h2 hp⟩

/-- `o1_table_covers_input`: the table the encoders build (every row normalised on its own to 4095
resp. 4096) has a usable entry — non-zero frequency, slot interval inside `[0, 4096)` — for every
pair (predecessor, symbol) of the input and for every chunk start in the context NUL; a row is
all zero or sums to exactly the total. -/
theorem o1_table_covers_input (total : Nat) (h1 : total = 4095 ∨ total = 4096) (n : Nat)
    (src : List Nat) (hsym : ∀ x ∈ src, x < 256) :
    TableOK (freqTable total n src) n src ∧
    ∀ r ∈ freqTable total n src, r.length = 256 ∧ (r = List.replicate 256 0 ∨ r.sum = total) :=
  ⟨tableOK_freqTable total (by omega) (by omega) n src hsym,
   fun r hr => ⟨(freqTable_row total (by omega) n src r hr).1, (freqTable_row total (by omega) n src r hr).2.1⟩⟩

/-- `o1_decoder_arithmetic_fits`: with a validated table (every frequency at most `2^bits`, every
row total at most 4096 for rANS 4x8) the decoders' fixed-width operations cannot overflow: the `u32`
expression `f * (x >> bits) + (x & mask)` of `state_step`, and the `u16` running sums of
`build_cumulative_frequencies`. -/
theorem o1_decoder_arithmetic_fits :
    (∀ bits f x : Nat, f ≤ 2 ^ bits → x < 2 ^ 32 → f * (x / 2 ^ bits) + x % 2 ^ bits < 2 ^ 32) ∧
    (∀ (r : List Nat) (s : Nat), r.sum ≤ 4096 → s < r.length → getF (cums 0 r) s < 2 ^ 16) := by
  constructor
  · intro bits f x hf hx
    have h1 := Nat.div_add_mod x (2 ^ bits)
    have h2 : f * (x / 2 ^ bits) ≤ 2 ^ bits * (x / 2 ^ bits) := Nat.mul_le_mul_right _ hf
    omega
  · intro r s hr hs
    rw [getF_cums r 0 s hs]
    have := cum_le_sum r s
    omega

/-! ## rANS 4x8 order 1 -/

/-- `o1_freq_table_roundtrip`: every table of 256 rows of 256 `u16` frequencies, each row with a
total of at most 4096 and at least one row not all zero, serialised by the order-1
`write_frequencies` (contexts with run lengths, every listed context followed by its row as an
order-0 table) is read back exactly by `ReadFrequencies1`, which stops at the end of the table. -/
theorem o1_freq_table_roundtrip (T : Table) (rest : List Nat) (hlen : T.length = 256)
    (hrow : ∀ r ∈ T, r.length = 256 ∧ (∀ f ∈ r, f ≤ 65535) ∧ r.sum ≤ 4096)
    (hex : ∃ r ∈ T, ∃ f ∈ r, f ≠ 0) :
    readFreqs1 (writeFreqs1 T ++ rest) = some (T, rest) :=
  readFreqs1_writeFreqs1 T rest hlen hrow hex

/-- `rans4x8_o1_roundtrip`: for EVERY byte string the encoder accepts, what
`rans_4x8::encode(Order::One, ·)` returns is decoded back to the input (its table passes the
reader's validation, no state leaves `[2^23, 2^31)`, the remainder on the fourth state included). -/
theorem rans4x8_o1_roundtrip (src bs : List Nat) (hsym : ∀ x ∈ src, x < 256)
    (h : encode1 src = .ok bs) : decode1 bs = some src :=
  decode1_encode1 src bs hsym h

/-- `rans4x8_o1_encode_total_or_refuses`: the encoder refuses exactly the inputs shorter than 4
bytes (`InvalidInput`) among all inputs below 512 MiB; for every other one it answers — it never
waits on a zero frequency — and the answer decodes to the input. -/
theorem rans4x8_o1_encode_total_or_refuses (src : List Nat) (hsym : ∀ x ∈ src, x < 256) :
    (src.length < 4 → encode1 src = .error .invalidInput) ∧
    (4 ≤ src.length → src.length < 2 ^ 29 → ∃ bs, encode1 src = .ok bs ∧ decode1 bs = some src) := by
  obtain ⟨h1, h2⟩ := encode1_total src hsym
  refine ⟨h1, fun a b => ?_⟩
  obtain ⟨bs, h⟩ := h2 a b
  exact ⟨bs, h, decode1_encode1 src bs hsym h⟩

/-! ## rANS Nx16 with ORDER -/

/-- `nx16_o1_table_roundtrip`: the order-1 context noodles writes — the byte `12 << 4` (12 bits,
not compressed), the alphabet (NUL and the symbols of the input), one row per context of the
alphabet with a count after every zero — is read back exactly by `ReadFrequencies1`: bit count 12,
the encoder's table (every row passes `normalize_frequencies` unchanged), the rest untouched. -/
theorem nx16_o1_table_roundtrip (n : Nat) (src rest : List Nat) :
    readTable1 ([192] ++ Nx.writeAlpha (alphabet1 src)
        ++ writeTable1 (alphabet1 src) (freqTable 4096 n src) ++ rest)
      = some (12, freqTable 4096 n src, rest) :=
  readTable1_write n src rest

/-- `rans_nx16_o1_stage`: the order-1 entropy stage with any number of interleaved states (4 and 32
are used): the encoder always answers (no zero frequency), and context, states and payload decode
to the input under `RansDecodeNx16_1`. -/
theorem rans_nx16_o1_stage (n : Nat) (hn : 0 < n) (src : List Nat) (hsym : ∀ x ∈ src, x < 256)
    (rest : List Nat) :
    ∃ e, encodeO1 n src = .ok e ∧ decodeO1 n src.length (e ++ rest) = some src :=
  decodeO1_encodeO1 n hn src hsym rest

/-- `rans_nx16_roundtrip_all_flags`: for EVERY flag byte — ORDER, N32, STRIPE, NO_SIZE, CAT, RLE,
PACK and the reserved bit in any combination, including the encoder's own rewrites of the flag byte
(ORDER dropped and CAT forced when fewer bytes than states remain) — and EVERY byte string, what
noodles' encoder returns is decoded back to the input (given the input length, which the CRAM block
header supplies when NO_SIZE is set). -/
theorem rans_nx16_roundtrip_all_flags (f : Nx.Flags) (src bs : List Nat) (hsym : ∀ x ∈ src, x < 256)
    (h : Nx.encodeA f src = .ok bs) : Nx.decodeA bs src.length = .ok src :=
  Nx.decodeA_encodeA f src bs hsym h

/-- `rans_nx16_all_flags_extends`: the complete models agree with the order-0 models of
`Nx16.lean` wherever those answer: whatever `Nx.encode` returns `Nx.encodeA` returns, and whatever
`Nx.decode` decodes `Nx.decodeA` decodes to the same bytes. -/
theorem rans_nx16_all_flags_extends :
    (∀ (f : Nx.Flags) (src bs : List Nat), Nx.encode f src = .ok bs → Nx.encodeA f src = .ok bs) ∧
    (∀ (bs : List Nat) (outer : Nat) (d : List Nat), Nx.decode bs outer = .ok d →
      Nx.decodeA bs outer = .ok d) :=
  ⟨Nx.encodeA_of, Nx.decodeA_of⟩

/-! ## non-vacuity -/

-- the hypothesis `encode1 src = .ok bs` of `rans4x8_o1_roundtrip` is satisfiable: every input of
-- 4 bytes or more (below 512 MiB) is accepted
example (src : List Nat) (hsym : ∀ x ∈ src, x < 256) (h4 : 4 ≤ src.length) (hb : src.length < 2 ^ 29) :
    ∃ bs, encode1 src = .ok bs := (encode1_total src hsym).2 h4 hb

-- a table satisfying the hypotheses of `o1_freq_table_roundtrip` exists: the encoder's own
example (src : List Nat) (hsym : ∀ x ∈ src, x < 256) :
    (freqTable 4095 4 src).length = 256 ∧
    (∀ r ∈ freqTable 4095 4 src, r.length = 256 ∧ (∀ f ∈ r, f ≤ 65535) ∧ r.sum ≤ 4096) ∧
    ∃ r ∈ freqTable 4095 4 src, ∃ f ∈ r, f ≠ 0 :=
  ⟨freqTable_length 4095 4 src, freqTable4_rows src, freqTable4_ex src hsym⟩

-- `PairOK` of `o1_lane_step_inverse` holds for every pair the encoders code (`TableOK`), and the
-- initial state satisfies the range hypotheses
example (src : List Nat) (hsym : ∀ x ∈ src, x < 256) (c s : Nat) (h : s ∈ succs c src) :
    PairOK (freqTable 4095 4 src) c s :=
  (tableOK_freqTable 4095 (by decide) (by decide) 4 src hsym).pairs c s h
example : R4.L ≤ R4.L ∧ R4.L < 2 ^ 31 ∧ Nx.L ≤ Nx.L ∧ Nx.L < 2 ^ 31 := by decide

-- the hypothesis `encodeA f src = .ok bs` of `rans_nx16_roundtrip_all_flags` is satisfiable with
-- the ORDER flag: 3 bytes < 4 states, ORDER is dropped and CAT forced …
example : Nx.encodeA (Nx.Flags.ofByte 1) [1, 2, 3] = .ok [32, 3, 1, 2, 3] := by rfl
-- … and a genuine order-1 stream (ORDER alone, 5 bytes)
example : ∃ bs, Nx.encodeA (Nx.Flags.ofByte 1) [1, 2, 3, 4, 5] = .ok bs := by
  obtain ⟨e, h, _⟩ := decodeO1_encodeO1 4 (by decide) [1, 2, 3, 4, 5] (by decide) []
  refine ⟨[1, 5] ++ e, ?_⟩
  have hf : Nx.Flags.ofByte 1 = ⟨true, false, false, false, false, false, false, false⟩ := by decide
  rw [hf]
  simp only [Nx.encodeA, Nx.encodeBodyA, Nx.stagePack, Nx.stageRle, Nx.stageEntropyA, Nx.forceCat,
    Nx.stateCount, Nx.u7, Bool.false_eq_true, ↓reduceIte, List.length_cons, List.length_nil]
  simp [h, Nx.Flags.toByte, writeUint7, writeUint7Go]

end Noodles.Props.C08
