import Noodles.Cram.IndexMore
import Noodles.Cram.IndexMoreProof
import Noodles.Props.C07
/-!
# C19, extension: record spans from every feature kind, alignment starts as deltas, `query_unmapped`

Model: `Noodles/Cram/IndexMore.lean` (on top of `IndexModel.lean` and the C07 feature model
`Features.lean`); helper lemmas: `Noodles/Cram/IndexMoreProof.lean`.

* (1) `feature_span_eq_cigar_span` — for EVERY feature list (all twelve kinds, any order of kinds)
  that does not account for more read bases than the record has, the span `calculate_alignment_span`
  folds from the features is the reference length of the CIGAR `record/cigar/iter.rs` + `TrySimplify`
  rebuild from the same features, and no step of the fold underflows.
  `reader_validated_features_wf`: every feature list the reader's own `validate_features` accepts
  and that has no quality-only feature (the noodles writer emits none) is such a list;
  `validated_quality_features_break_span`: with quality-only features the reader's check is NOT
  enough (witness).
  `record_end_eq_scan_end`: hence the end the indexer computes for a record (from the features) is
  the end a scan and the query filter compute (from the CIGAR of the `RecordBuf`), including unmapped
  reads placed at their mate's position and mapped reads that cover no reference base — for the
  code AS REPAIRED (`unrepaired_record_end_differs` is the witness against the code as it stands).
* (2) `crai_spans_correct_all_features` — `crai_spans_correct` with its hypothesis `r.s ≤ r.e`
  discharged for records placed by their features: every CRAI entry's span is exactly what the
  slice's records on that reference cover, where "cover" is what a scan sees.
* (3) `query_unmapped_eq_tail_scan`, `query_unmapped_complete`, `query_unmapped_exact_partial`,
  `query_unmapped_empty_without_unplaced`; the full statement "exactly the unplaced unmapped
  records" is false of the code's flag filter: `query_unmapped_returns_placed_unmapped`.
* (4) `alignment_starts_roundtrip`, `slice_alignment_starts_roundtrip` — the AP series decodes to the
  alignment starts that were written, for absolute values and for deltas, from the register both
  sides initialise from the slice header.
-/
namespace Noodles.Props.C19
open Noodles.Cram Noodles.Cram.Index

/-! ## (1) span from features = span of the rebuilt CIGAR -/

/-- For every feature list that accounts for at most `readLength` read bases: no subtraction of
`calculate_alignment_span` underflows, and its result is the number of reference bases the CIGAR
rebuilt from the same features consumes. -/
theorem feature_span_eq_cigar_span (readLength : Nat) (fs : List Feature) (hwf : FeatWF readLength fs) :
    spanSafe readLength fs = true ∧ featSpan readLength fs = refLen (rebuildCigar readLength fs) :=
  featSpan_eq_refLen hwf

/-- Every feature list `validate_features` (run by `read_record`) accepts, made of features that
cover bases or nothing (no `Scores` / `QualityScore`), accounts for at most `readLength` bases. -/
theorem reader_validated_features_wf (readLength : Nat) (fs : List Feature)
    (hv : featuresValid readLength fs = true) (hb : ∀ f ∈ fs, baseCount f ≠ none) :
    FeatWF readLength fs :=
  featWF_of_valid hv hb

/-- non-vacuity: every feature kind that covers bases or nothing, in one accepted list (read length 20) -/
example :
    let fs : List Feature := [.hardClip 1 2, .softClip 1 [65, 67], .bases 3 [71], .readBase 4 82 30, .subst 5 1,
      .insertion 6 [65, 65, 65], .padding 9 1, .deletion 9 2, .insertBase 9 84, .refSkip 10 7, .subst 12 0]
    featuresValid 20 fs = true ∧ (∀ f ∈ fs, baseCount f ≠ none) ∧ FeatWF 20 fs ∧
      featSpan 20 fs = 23 ∧ refLen (rebuildCigar 20 fs) = 23 := by decide

/-- Every feature list the noodles writer derives from a CIGAR (`cigar_to_features`, the C07 model's
`features`) is such a list for any read length not below the CIGAR's (the writer refuses a CIGAR
that consumes more bases than the record has), whatever the reference, the bases and the matrix. -/
theorem writer_features_wf (ref : List Nat) (start : Nat) (c : Cigar) (seq quals : List Nat) (m : Matrix)
    (readLength : Nat) (h : readLen c ≤ readLength) :
    FeatWF readLength (features ref start c seq quals m) := by
  unfold FeatWF features
  have := readEnd_featGo ref seq quals m c (start - 1) 0 0 (Nat.le_refl _)
  omega

/-- Hence, for every read the SAM data model allows (`C07.ConsistentRead`) and every valid
substitution matrix: the span the reader (and the indexer) computes from the features the writer
stored is the number of reference bases the ORIGINAL CIGAR consumes — over all nine operations. -/
theorem written_span_eq_cigar_ref_len (ref : List Nat) (start : Nat) (c : Cigar) (seq quals : List Nat)
    (m : Matrix) (hm : m.OK) (h : Noodles.Props.C07.ConsistentRead ref start c seq) :
    featSpan seq.length (features ref start c seq quals m) = refLen c := by
  have hwf := writer_features_wf ref start c seq quals m seq.length (Nat.le_of_eq h.read_len)
  rw [(featSpan_eq_refLen hwf).2, (Noodles.Props.C07.features_rebuild ref start c seq quals m hm h).2,
    refLen_normCigar]

/-- With quality-only features the reader's check does not imply the span equation: the CIGAR
iterator moves its read position up to a `QualityScore` feature, `validate_features` keeps a
separate register for it. `[Q@10, X@5, X@6]` in a read of 10 bases is accepted, the span is 10, the
CIGAR is `11M`. (Such lists are not produced by the noodles writer; hostile input, cf. C15.) -/
theorem validated_quality_features_break_span :
    let fs : List Feature := [.qualityScore 10 30, .subst 5 0, .subst 6 0]
    featuresValid 10 fs = true ∧ ¬ FeatWF 10 fs ∧ featSpan 10 fs = 10 ∧
      rebuildCigar 10 fs = [⟨.M, 11⟩] := by decide

/-- The end the indexer computes for a record from its features (`cram::Record::alignment_end`, as
repaired) is the end a full scan and the filter of `query.rs` compute from the CIGAR of the
converted `RecordBuf` — for mapped and unmapped records, with or without a start. -/
theorem record_end_eq_scan_end (r : CRec) (hwf : FeatWF r.readLength r.feats)
    (hs : ∀ p, r.start = some p → 0 < p) : r.aend = bufEnd r.start r.cigar :=
  aend_eq_bufEnd r hwf hs

/-- A placed record ends at or after its start: it covers at least the position it is placed at. -/
theorem record_end_ge_start (r : CRec) (s : Nat) (hst : r.start = some s) (hp : 0 < s) :
    ∃ e, r.aend = some e ∧ s ≤ e :=
  aend_ge_start r hst hp

/-- The code as it stands (`start + alignment_span() - 1`): an unmapped read of 10 bases placed at
10 ends at 19 for the indexer and at 10 for a scan; a `4S` read at position 1 has no end at all for
the indexer (`None`, then `todo!()` in `fs::index`) and ends at 1 for a scan. -/
theorem unrepaired_record_end_differs :
    let u : CRec := ⟨true, some 0, some 10, 10, []⟩
    let z : CRec := ⟨false, some 1, some 1, 4, [.softClip 1 [78, 71, 71, 65]]⟩
    u.aendUnrepaired = some 19 ∧ bufEnd u.start u.cigar = some 10 ∧ u.aend = some 10 ∧
    z.aendUnrepaired = none ∧ bufEnd z.start z.cigar = some 1 ∧ z.aend = some 1 := by decide

/-! ## (2) the CRAI span over records placed by their features -/

/-- `crai_spans_correct` for records of every kind: when the records of the file are the decoded
records `src id` placed by their features (`CRec.place`), every index entry's reference / start /
span is exactly what the slice's records on that reference cover, and the end used for each of
them is the end a scan computes from the record's CIGAR. -/
theorem crai_spans_correct_all_features (f : FileL) (src : Nat → CRec)
    (hsrc : ∀ r ∈ f.recs, r = (src r.id).place r.id)
    (hpl : ∀ r ∈ f.recs, r.ref ≠ none → ∃ p, 0 < p ∧ (src r.id).start = some p)
    (hwf : ∀ r ∈ f.recs, FeatWF (src r.id).readLength (src r.id).feats)
    (en : Entry) (hen : en ∈ craiOf f) :
    ∃ i j c sl, f.cs[i]? = some c ∧ c.slices[j]? = some sl ∧
      en.offset = f.containerOffset i ∧ en.landmark = c.sliceLandmark j ∧ Covers en sl.recs ∧
      ∀ r ∈ sl.recs, r.ref ≠ none → r.s ≤ r.e ∧ bufEnd (some r.s) (src r.id).cigar = some r.e := by
  have hvalid : ∀ r ∈ f.recs, r.s ≤ r.e := by
    intro r hr
    have h := hsrc r hr
    cases hst : (src r.id).start with
    | none => rw [h]; simp [CRec.place, hst]
    | some p =>
      by_cases hp : 0 < p
      · obtain ⟨e, he, hle⟩ := aend_ge_start (src r.id) hst hp
        rw [h]; simp [CRec.place, hst, he]; exact hle
      · have : p = 0 := by omega
        rw [h]; simp [CRec.place, hst, this]
  obtain ⟨i, j, c, sl, hc, hs, h1, h2, hcov⟩ :
      ∃ i j c sl, f.cs[i]? = some c ∧ c.slices[j]? = some sl ∧
        en.offset = f.containerOffset i ∧ en.landmark = c.sliceLandmark j ∧ Covers en sl.recs := by
    -- (the proof of `crai_spans_correct`, which lives in the file that imports this one)
    obtain ⟨pre, c, post, pre', s, post', hcs, hss, hen'⟩ := mem_craiOf.mp hen
    obtain ⟨hi, hti⟩ := getElem?_of_split hcs
    obtain ⟨hj, htj⟩ := getElem?_of_split hss
    obtain ⟨h1, h2, _⟩ := sliceEntries_pos hen'
    refine ⟨pre.length, pre'.length, c, s, hi, hj, ?_, ?_, ?_⟩
    · rw [h1]; unfold FileL.containerOffset; rw [hti]
    · rw [h2]; unfold ContainerL.sliceLandmark; rw [htj]
    · apply sliceEntries_covers _ hen'
      intro r hr
      apply hvalid
      unfold FileL.recs ContainerL.recs
      rw [hcs]
      simp only [List.flatMap_append, List.flatMap_cons, List.mem_append, hss]
      right; left; right; left; exact hr
  refine ⟨i, j, c, sl, hc, hs, h1, h2, hcov, ?_⟩
  intro r hr hne
  have hrf : r ∈ f.recs := by
    unfold FileL.recs ContainerL.recs
    exact List.mem_flatMap.mpr ⟨c, List.mem_of_getElem? hc,
      List.mem_flatMap.mpr ⟨sl, List.mem_of_getElem? hs, hr⟩⟩
  refine ⟨hvalid r hrf, ?_⟩
  obtain ⟨p, hp, hst⟩ := hpl r hrf hne
  have heq := aend_eq_bufEnd (src r.id) (hwf r hrf) (by intro q hq; rw [hst] at hq; cases hq; exact hp)
  obtain ⟨e, he, _⟩ := aend_ge_start (src r.id) hst hp
  have h := hsrc r hrf
  have hs' : r.s = p := by rw [h]; simp [CRec.place, hst]
  have he' : r.e = e := by rw [h]; simp [CRec.place, he]
  rw [hs', he', ← hst, ← heq, he]

/-- non-vacuity: a multi-reference slice with a mapped read, its unmapped mate placed at the same
position (10 bases), a `4S` read at position 1 of the second reference and an unplaced read -/
example :
    let src : Nat → CRec := fun id =>
      match id with
      | 0 => ⟨false, some 0, some 10, 4, []⟩
      | 1 => ⟨true, some 0, some 10, 10, []⟩
      | 2 => ⟨false, some 1, some 1, 4, [.softClip 1 [78, 71, 71, 65]]⟩
      | _ => ⟨true, none, none, 4, []⟩
    let f : FileL := ⟨188, [⟨22, 187, [⟨700, [(src 0).place 0, (src 1).place 1, (src 2).place 2, (src 3).place 3]⟩]⟩]⟩
    (∀ r ∈ f.recs, r = (src r.id).place r.id) ∧
    (∀ r ∈ f.recs, r.ref ≠ none → ∃ p, 0 < p ∧ (src r.id).start = some p) ∧
    (∀ r ∈ f.recs, FeatWF (src r.id).readLength (src r.id).feats) ∧
    craiOf f = [⟨none, 0, 0, 188, 187, 700⟩, ⟨some 0, 10, 4, 188, 187, 700⟩, ⟨some 1, 1, 1, 188, 187, 700⟩] := by
  refine ⟨by decide, ?_, by decide, by decide⟩
  intro r hr hne
  simp only [FileL.recs, ContainerL.recs, List.flatMap_cons, List.flatMap_nil, List.append_nil,
    List.mem_cons, List.not_mem_nil, or_false] at hr
  rcases hr with rfl | rfl | rfl | rfl
  · exact ⟨10, by decide, rfl⟩
  · exact ⟨10, by decide, rfl⟩
  · exact ⟨1, by decide, rfl⟩
  · exact absurd rfl hne

/-! ## (4) the AP data series -/

/-- For every initial register and every list of alignment starts that fit an `i32` (absent ones
included), in both modes: the writer succeeds, every stored value is an `i32`, there is one value
per record, and the reader decodes exactly the starts that were written. -/
theorem alignment_starts_roundtrip (deltas : Bool) (init : Option Nat) (starts : List (Option Nat))
    (hi : PosOK init) (hs : ∀ s ∈ starts, PosOK s) :
    ∃ vs, apEncode deltas init starts = .ok vs ∧ (∀ v ∈ vs, i32Min ≤ v ∧ v ≤ i32Max) ∧
      vs.length = starts.length ∧ apDecode deltas init vs = .ok starts :=
  ap_roundtrip deltas starts init hi hs

/-- … in particular for every slice: the register is initialised from the slice's reference
context (`Some(k, a, b)` ↦ `a`, else absent) on both sides, whatever the context is (single
reference, unmapped, multi-reference) and whatever the order of the records. -/
theorem slice_alignment_starts_roundtrip (deltas : Bool) (recs : List Rec)
    (hpos : ∀ r ∈ recs, r.ref ≠ none → 1 ≤ r.s ∧ (r.s : Int) ≤ i32Max) :
    ∃ vs, apEncode deltas (sliceCtx recs).apInit (recs.map Rec.apStart) = .ok vs ∧
      (∀ v ∈ vs, i32Min ≤ v ∧ v ≤ i32Max) ∧
      apDecode deltas (sliceCtx recs).apInit vs = .ok (recs.map Rec.apStart) := by
  have hi : PosOK (sliceCtx recs).apInit := by
    cases hc : sliceCtx recs with
    | none => intro p hp; cases hp
    | many => intro p hp; cases hp
    | some k a b =>
      obtain ⟨hall, ⟨r, hr, hra⟩, _⟩ := sliceCtx_some hc
      intro p hp
      simp only [Ctx.apInit, Option.some.injEq] at hp
      have := hpos r hr (by rw [(hall r hr).1]; simp)
      omega
  have hs : ∀ s ∈ recs.map Rec.apStart, PosOK s := by
    intro s hs p hp
    obtain ⟨r, hr, rfl⟩ := List.mem_map.mp hs
    unfold Rec.apStart at hp
    cases href : r.ref with
    | none => rw [href] at hp; cases hp
    | some k =>
      rw [href] at hp
      have := hpos r hr (by rw [href]; simp)
      simp only [posNew] at hp
      split at hp
      · cases hp
      · cases hp; exact this
  obtain ⟨vs, h1, h2, _, h4⟩ := ap_roundtrip deltas (recs.map Rec.apStart) _ hi hs
  exact ⟨vs, h1, h2, h4⟩

/-- non-vacuity, and what the series looks like: a multi-reference slice (register absent) with a
descending start across the reference change and an unplaced record -/
example :
    apEncode true none [some 4, some 9, some 2, none] = .ok [4, 5, -7, -2] ∧
    apDecode true none [4, 5, -7, -2] = .ok [some 4, some 9, some 2, none] ∧
    apEncode false none [some 4, some 9, some 2, none] = .ok [4, 9, 2, 0] ∧
    apEncode true (some 7) [some 7, some 7, some 12] = .ok [0, 0, 5] := ⟨rfl, rfl, rfl, rfl⟩

/-- the reader's error branches: a delta below the first position, and `i32` overflow -/
example :
    apDecode true (some 5) [-6] = .error .invalidData ∧
    apDecode true (some 5) [2147483647] = .error .invalidData ∧
    apDecode false none [-1] = .error .invalidData ∧
    apEncode true none [some 2147483648] = .error .invalidInput := ⟨rfl, rfl, rfl, rfl⟩

/-! ## (3) `query_unmapped` -/

/-- Through the file's own index `query_unmapped` never fails and returns the records flagged
unmapped of the containers from the first one that holds an unplaced record on (nothing if there
is none). -/
theorem query_unmapped_eq_tail_scan (f : FileL) (hwf : f.WF) (hne : f.NoEmptySlice) (flag : Rec → Bool) :
    queryUnmapped f (craiOf f) flag = some (f.tailRecs.filter flag) := by
  have h := unmapped_seek f.cs f.start (fun c hc => (hwf c hc).1) hne
  unfold queryUnmapped craiOf FileL.tailRecs
  cases hu : unmappedOffset (craiGo f.start f.cs) with
  | none => rw [hu] at h; simp only [] at h ⊢; rw [h]; rfl
  | some off => rw [hu] at h; simp only [] at h ⊢; rw [h.2]; rfl

/-- Every unplaced unmapped record is returned, each once, in file order, and nothing that is not
flagged unmapped: the answer is a sublist of the file's record list whose unplaced part is exactly
the list of unplaced unmapped records of the file. -/
theorem query_unmapped_complete (f : FileL) (hwf : f.WF) (hne : f.NoEmptySlice) (flag : Rec → Bool) :
    ∃ rs, queryUnmapped f (craiOf f) flag = some rs ∧ rs.Sublist f.recs ∧ (∀ r ∈ rs, flag r = true) ∧
      rs.filter (fun r => r.ref.isNone) = f.unplacedUnmapped flag := by
  refine ⟨_, query_unmapped_eq_tail_scan f hwf hne flag, ?_, ?_, ?_⟩
  · obtain ⟨pre, hpre⟩ := tailContainers_suffix f.cs
    have : f.recs = pre.flatMap (·.recs) ++ f.tailRecs := by
      unfold FileL.recs FileL.tailRecs
      rw [← List.flatMap_append, ← hpre]
    rw [this]
    exact List.Sublist.trans List.filter_sublist (List.sublist_append_right _ _)
  · intro r hr; exact (List.mem_filter.mp hr).2
  · unfold FileL.unplacedUnmapped FileL.recs FileL.tailRecs
    have hcomm : ∀ l : List Rec, (l.filter flag).filter (fun r => r.ref.isNone) =
        (l.filter (fun r => r.ref.isNone)).filter flag := by
      intro l; rw [List.filter_filter, List.filter_filter]; congr 1; funext r; exact Bool.and_comm _ _
    have h2 : ∀ l : List Rec, l.filter (fun r => r.ref.isNone && flag r) =
        (l.filter (fun r => r.ref.isNone)).filter flag := by
      intro l; rw [List.filter_filter]; congr 1; funext r; exact Bool.and_comm _ _
    rw [hcomm, tail_filter_unplaced, h2]

/-- The strongest exactness that is true of the code: when no record flagged unmapped in the tail
containers is placed (no unmapped read placed at its mate's position shares a container with, or
follows, the first unplaced record), the answer is exactly the unplaced unmapped records of the
file, in file order. -/
theorem query_unmapped_exact_partial (f : FileL) (hwf : f.WF) (hne : f.NoEmptySlice) (flag : Rec → Bool)
    (htail : ∀ r ∈ f.tailRecs, flag r = true → r.ref = none) :
    queryUnmapped f (craiOf f) flag = some (f.unplacedUnmapped flag) := by
  obtain ⟨rs, h1, _, _, h4⟩ := query_unmapped_complete f hwf hne flag
  rw [h1, ← h4]
  congr 1
  have hrs : rs = f.tailRecs.filter flag := by
    have := query_unmapped_eq_tail_scan f hwf hne flag
    rw [h1] at this; exact Option.some.inj this
  symm
  apply List.filter_eq_self.mpr
  intro r hr
  rw [hrs] at hr
  obtain ⟨hm, hf⟩ := List.mem_filter.mp hr
  simp [htail r hm hf]

/-
The full statement
    queryUnmapped f (craiOf f) flag = some (f.unplacedUnmapped flag)          (for every WF file)
is FALSE of the code: `query_unmapped` filters by the unmapped FLAG, not by the absence of a
reference. Witness below (byte lengths as observed), replayed on the real reader by the harness
(`morecorpus 4`: request `c19 qunm 157 22/187/604=0:0:3:7;1:0:3:3;2:-:0:0 1,2 own` → `recs=1,2`).
-/

/-- One slice `[r0 mapped @sq0:3, r1 unmapped placed @sq0:3, r2 unplaced]`: `query_unmapped`
returns `r1` and `r2`; the unplaced unmapped records are `[r2]`. -/
theorem query_unmapped_returns_placed_unmapped :
    let f : FileL := ⟨157, [⟨22, 187, [⟨604, [⟨0, some 0, 3, 7⟩, ⟨1, some 0, 3, 3⟩, ⟨2, none, 0, 0⟩]⟩]⟩]⟩
    let flag : Rec → Bool := fun r => r.id == 1 || r.id == 2
    queryUnmapped f (craiOf f) flag = some [⟨1, some 0, 3, 3⟩, ⟨2, none, 0, 0⟩] ∧
    f.unplacedUnmapped flag = [⟨2, none, 0, 0⟩] := by decide

/-- A file without unplaced records: nothing is returned (and no error). -/
theorem query_unmapped_empty_without_unplaced (f : FileL) (hwf : f.WF) (hne : f.NoEmptySlice)
    (flag : Rec → Bool) (hpl : ∀ r ∈ f.recs, r.ref ≠ none) :
    queryUnmapped f (craiOf f) flag = some [] := by
  rw [query_unmapped_eq_tail_scan f hwf hne flag]
  unfold FileL.tailRecs
  rw [tailContainers_nil f.cs hpl]
  rfl

/-- The code as it stands fails on such a file (`SeekFrom::End(0)` is behind the EOF container):
one container, one record on `sq0`. -/
theorem unrepaired_query_unmapped_fails :
    let f : FileL := ⟨157, [⟨18, 187, [⟨833, [⟨0, some 0, 5, 19⟩]⟩]⟩]⟩
    queryUnmappedUnrepaired f (craiOf f) (fun _ => false) = none ∧
    queryUnmapped f (craiOf f) (fun _ => false) = some [] := by decide

/-- non-vacuity of the hypotheses of the `query_unmapped` theorems: two containers, the tail starts
in the second slice of the first one -/
example :
    let f : FileL := ⟨187, [⟨24, 187, [⟨678, [⟨0, some 0, 4, 6⟩, ⟨1, some 1, 2, 5⟩]⟩, ⟨531, [⟨2, some 1, 9, 9⟩, ⟨3, none, 0, 0⟩]⟩]⟩,
      ⟨22, 187, [⟨490, [⟨4, none, 0, 0⟩, ⟨5, none, 0, 0⟩]⟩]⟩]⟩
    f.WF ∧ f.NoEmptySlice ∧
    queryUnmapped f (craiOf f) (fun r => decide (3 ≤ r.id)) = some [⟨3, none, 0, 0⟩, ⟨4, none, 0, 0⟩, ⟨5, none, 0, 0⟩] := by
  refine ⟨?_, ?_, by decide⟩
  · intro c hc; simp at hc; rcases hc with rfl | rfl <;> simp
  · intro c hc s hs; simp at hc; rcases hc with rfl | rfl <;> simp at hs <;> (try rcases hs with rfl | rfl) <;> simp_all

end Noodles.Props.C19
