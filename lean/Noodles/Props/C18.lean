import Noodles.Gff.Model
import Noodles.Gff.Gtf
import Noodles.Gff.Bed
import Noodles.Gff.ModelProof
import Noodles.Gff.GtfProof
import Noodles.Gff.BedProof
import Noodles.Gff.LineProof
/-!
# C18 — GFF3, GTF and BED lines round-trip, including escaping of reserved characters

Models: `Noodles.Gff` (GFF3), `Noodles.Gtf`, `Noodles.Bed`; writer and reader are transcribed
separately (writer sets per column, reader decode per accessor), so every statement below is a
genuine `read ∘ write = id`, not a property of a symmetric codec. Helper lemmas are in
`Noodles/Gff/{KitProof,ModelProof,GtfProof,BedProof,LineProof}.lean`.

The GTF model describes the code after the `fix:` commit for F21 (the closing quote of an attribute
value is the first *unescaped* `"`; before, `gene_id "g\"0";` — what the writer emits for `g"0` — was
cut at `g\`).

The GFF3 model describes the code as it stands, with the KNOWN FINDING F19: the seqid is
percent-encoded on output but NOT decoded on input, and source / type are written raw. The
unrestricted `gff_record_roundtrip` is therefore false; it is kept below as a comment, its negation
is proved (`gff_record_roundtrip_false`, witnesses `sq 0` and source `a<TAB>b`), and the strongest
true statements are proved instead (`gff_record_roundtrip_partial`, `gff_record_reads_encoded_seqid`).

The `f32` score is a parameter (`FloatFmt`) with the law `parse (fmt x) = x`, `fmt x ≠ "."`,
`fmt x` free of TAB/LF/CR, validated on the real formatter and parser by the harness.
-/
namespace Noodles.Props.C18
open Noodles Noodles.Gff

/-! ## percent-encoding with the escape sets of the code -/

/-- decode ∘ encode = id for the seqid set and the attribute tag/value set (the only two sets in
the code: source and type are not encoded at all, see F19) -/
theorem pct_roundtrip (s : Bytes) :
    Pct.decode (Pct.encode seqidEsc s) = s ∧ Pct.decode (Pct.encode attrEsc s) = s :=
  ⟨Pct.decode_encode _ seqidEsc_pct s, Pct.decode_encode _ attrEsc_pct s⟩

/-- encoded text never contains a column or line delimiter; encoded attribute text never contains
`;` `=` `,` `&` either, so it can be split on them before decoding; an encoded seqid never starts a
comment, a directive or a FASTA header -/
theorem pct_delimiter_free (s : Bytes) :
    (∀ d : UInt8, d = 9 ∨ d = 10 ∨ d = 13 → d ∉ Pct.encode seqidEsc s ∧ d ∉ Pct.encode attrEsc s) ∧
    (∀ d : UInt8, d = 59 ∨ d = 61 ∨ d = 44 ∨ d = 38 → d ∉ Pct.encode attrEsc s) ∧
    (∀ d : UInt8, d = 35 ∨ d = 62 → d ∉ Pct.encode seqidEsc s) := by
  refine ⟨?_, ?_, ?_⟩
  · intro d hd
    rcases hd with rfl | rfl | rfl <;>
      exact ⟨encode_free' _ s _ (by decide) (by decide) (by decide),
             encode_free' _ s _ (by decide) (by decide) (by decide)⟩
  · intro d hd
    rcases hd with rfl | rfl | rfl | rfl <;> exact encode_free' _ s _ (by decide) (by decide) (by decide)
  · intro d hd
    rcases hd with rfl | rfl <;> exact encode_free' _ s _ (by decide) (by decide) (by decide)

/-! ## GFF3 -/

/-- attributes: arbitrary bytes in tags and values, any number of attributes, 1..k values each; the
lazy iterator over the written column returns the same list — same tags, same values, same order -/
theorem gff_attrs_roundtrip (f : Fields) (as : Attrs) (hcan : ∀ tv ∈ as, tv.2.Canonical)
    (hf : f.attrs = writeAttrs as) : lazyAttrs f = .ok as :=
  lazyAttrs_writeAttrs f as hcan hf

/- The full-strength statement of the property — FALSE for the code as it stands (F19), see
`gff_record_roundtrip_false` below; it becomes provable once the reader decodes seqid/source/type
and the writer encodes source/type:

  theorem gff_record_roundtrip (ff : FloatFmt F) (hff : ff.Lawful) (r : Record F) (hwf : r.WF)
      (line : Bytes) (h : writeRecord ff r = .ok line) : readRecord ff line = .ok r
-/

/-- record, strongest true variant: any record the writer accepts whose seqid contains no byte of the
writer's escape set (every non-ASCII byte, `%`, and every ASCII byte outside `[a-zA-Z0-9.:^*$@!+_?-|]`)
and whose source and type contain no TAB is read back as an equal owned record. No restriction on
attribute tags and values. -/
theorem gff_record_roundtrip_partial {F : Type} (ff : FloatFmt F) (hff : ff.Lawful) (r : Record F)
    (hwf : r.WF) (hpl : r.Plain) (line : Bytes) (h : writeRecord ff r = .ok line) :
    readRecord ff line = .ok r :=
  readRecord_writeRecord ff hff r hwf hpl line h

/-- … and what is read back for ANY seqid (source and type TAB-free): the same record with the seqid
in its percent-encoded form — the exact shape of finding F19 -/
theorem gff_record_reads_encoded_seqid {F : Type} (ff : FloatFmt F) (hff : ff.Lawful) (r : Record F)
    (hwf : r.WF) (hs : TAB ∉ r.source) (ht : TAB ∉ r.ty) (line : Bytes)
    (h : writeRecord ff r = .ok line) :
    readRecord ff line = .ok { r with seqid := Pct.encode seqidEsc r.seqid } :=
  readRecord_writeRecord_encoded ff hff r hwf hs ht line h

/-- … and the written text is one record line of a file (source and type free of LF and CR, since they
are written raw): no LF, no CR, not blank, not `#…` -/
theorem gff_record_is_line {F : Type} (ff : FloatFmt F) (hff : ff.Lawful) (r : Record F)
    (hsrc : LF ∉ r.source ∧ CR ∉ r.source) (hty : LF ∉ r.ty ∧ CR ∉ r.ty) (line : Bytes)
    (h : writeRecord ff r = .ok line) :
    lineKind line = .record ∧ isBlank line = false ∧ LF ∉ line ∧ CR ∉ line :=
  writeRecord_line ff hff r hsrc hty line h

/-- directive: a key without ASCII whitespace is read back unchanged; the value comes back as the
string it was rendered to (a string value: itself) -/
theorem gff_directive_roundtrip (d : Directive) (hk : Gtf.WsFree d.key) (line : Bytes)
    (h : writeDirective d = .ok line) :
    lineKind line = .directive ∧
    readDirective line = ⟨d.key, d.value.map (fun v => .string (writeDValue v))⟩ :=
  readDirective_writeDirective d hk line h

/-- typed directive values parse back (`FromStr`) from the text they are rendered to -/
theorem gff_directive_typed_roundtrip :
    (∀ ma mi p, ma ≤ U32_MAX → (∀ x, mi = some x → x ≤ U32_MAX) → (∀ x, p = some x → x ≤ U32_MAX) →
      (mi = none → p = none) →
      parseGffVersion (writeDValue (.gffVersion ma mi p)) = some (.gffVersion ma mi p)) ∧
    (∀ name s e, Gtf.WsFree name → name ≠ [] → 1 ≤ s ∧ s ≤ USIZE_MAX → 1 ≤ e ∧ e ≤ USIZE_MAX →
      parseSequenceRegion (writeDValue (.sequenceRegion name s e)) = some (.sequenceRegion name s e)) ∧
    (∀ src name, Gtf.WsFree src → src ≠ [] → Gtf.WsFree name → name ≠ [] →
      parseGenomeBuild (writeDValue (.genomeBuild src name)) = some (.genomeBuild src name)) :=
  ⟨parseGffVersion_write, parseSequenceRegion_write, parseGenomeBuild_write⟩

/-- a file: lines without LF, not ending in CR and not blank are delivered by the reader exactly as
written, in order (records satisfy this by `gff_record_is_line`) -/
theorem gff_file_roundtrip (ls : List Bytes)
    (h : ∀ l ∈ ls, LF ∉ l ∧ l.getLast? ≠ some CR ∧ isBlank l = false) :
    (fileLines (writeLines ls)).filter (fun l => !isBlank l) = ls :=
  readLines_writeLines ls h

/-! ## GTF -/

/-- quotes and backslashes: the reader finds the closing quote the writer appended (whatever
follows) and unescaping the text in between gives the value back — for every byte string -/
theorem gtf_escape_roundtrip (v rest : Bytes) :
    Gtf.writeValue v = Gtf.QUOTE :: Gtf.escape v ++ [Gtf.QUOTE] ∧
    Gtf.parseString (Gtf.escape v ++ Gtf.QUOTE :: rest) = some (Gtf.escape v, rest) ∧
    Gtf.escapeDecode (Gtf.escape v) = .ok v :=
  ⟨Gtf.writeValue_eq v, Gtf.parseString_escape v rest, Gtf.escapeDecode_escape v⟩

/-- attribute column: distinct non-empty keys without ASCII whitespace, arbitrary values, 1..k values
per key — read back equal, in order -/
theorem gtf_attrs_roundtrip (as : Attrs) (hcan : ∀ tv ∈ as, tv.2.Canonical)
    (hnd : (as.map (·.1)).Nodup) (hk : ∀ tv ∈ as, Gtf.WsFree tv.1 ∧ tv.1 ≠ []) :
    Gtf.parseAttrs (Gtf.writeAttrs as) = .ok as :=
  Gtf.parseAttrs_writeAttrs as hcan hnd hk

/-- record: plain columns free of TAB (the property's hypothesis), keys as above, any values -/
theorem gtf_record_roundtrip {F : Type} (ff : FloatFmt F) (hff : ff.Lawful) (r : Record F) (hwf : r.WF)
    (hcols : TAB ∉ r.seqid ∧ TAB ∉ r.source ∧ TAB ∉ r.ty)
    (hk : ∀ tv ∈ r.attrs, Gtf.WsFree tv.1 ∧ tv.1 ≠ [])
    (line : Bytes) (h : Gtf.writeRecord ff r = .ok line) : Gtf.readRecord ff line = .ok r :=
  Gtf.readRecord_writeRecord ff hff r hwf hcols hk line h

/-! ## BED -/

/-- BED3 … BED6 plus any number of optional columns (BED12 = BED6 + 6): whatever follows the written
line in the file, the first record read back is the record, every optional column preserved as the
text it was written as, in order -/
theorem bed_roundtrip (r : Bed.Record) (hwf : r.WF) (text : Bytes) (h : Bed.writeRecord r = .ok text)
    (rest : Bytes) : Bed.readRecord r.n (text ++ rest) = .ok (Bed.expected r) :=
  Bed.readRecord_writeRecord r hwf text h rest

/-- for optional columns that are strings already, that is the record itself -/
theorem bed_roundtrip_strings (r : Bed.Record) (hwf : r.WF)
    (hs : ∀ v ∈ r.other, ∃ s, v = .string s) (text : Bytes) (h : Bed.writeRecord r = .ok text)
    (rest : Bytes) : Bed.readRecord r.n (text ++ rest) = .ok r := by
  rw [bed_roundtrip r hwf text h rest]
  congr 1
  obtain ⟨n, seqid, start, end_, name, score, strand, other⟩ := r
  simp only [Bed.expected, Bed.Record.mk.injEq, true_and]
  rw [List.map_congr_left (g := id)]
  · simp
  · intro v hv
    obtain ⟨s, rfl⟩ := hs v hv
    rfl

/-! ## lazy line views = owned record -/

/-- GFF3: whenever the owned record can be built from a line, every lazy accessor of that line
succeeds and returns the value of the corresponding owned field — seqid, source and type are the raw
(undecoded) columns on both sides (attributes: collected in order, a repeated tag keeping its first
position and last value, as `IndexMap` does) -/
theorem gff_lazy_eq_owned {F : Type} (ff : FloatFmt F) (line : Bytes) (r : Record F)
    (h : readRecord ff line = .ok r) :
    ∃ f, bounds line = .ok f ∧
      lazySeqid f = r.seqid ∧ lazySource f = r.source ∧ lazyType f = r.ty ∧
      lazyStart f = .ok r.start ∧ lazyEnd f = .ok r.end_ ∧
      transpose (lazyScore ff f) = .ok r.score ∧ parseStrand f.strand = .ok r.strand ∧
      transpose (parsePhase f.phase) = .ok r.phase ∧
      ∃ as, lazyAttrs f = .ok as ∧ collectAttrs as = r.attrs := by
  unfold readRecord at h
  cases hb : bounds line with
  | error e => simp [hb, bind, Except.bind] at h
  | ok f =>
    cases h1 : lazyStart f with
    | error e => simp [hb, h1, bind, Except.bind] at h
    | ok s =>
      cases h2 : lazyEnd f with
      | error e => simp [hb, h1, h2, bind, Except.bind] at h
      | ok e =>
        cases h3 : transpose (lazyScore ff f) with
        | error e => simp [hb, h1, h2, h3, bind, Except.bind] at h
        | ok sc =>
          cases h4 : parseStrand f.strand with
          | error e => simp [hb, h1, h2, h3, h4, bind, Except.bind] at h
          | ok st =>
            cases h5 : transpose (parsePhase f.phase) with
            | error e => simp [hb, h1, h2, h3, h4, h5, bind, Except.bind] at h
            | ok ph =>
              cases h6 : lazyAttrs f with
              | error e => simp [hb, h1, h2, h3, h4, h5, h6, bind, Except.bind] at h
              | ok as =>
                simp only [hb, h1, h2, h3, h4, h5, h6, bind, Except.bind, pure, Except.pure,
                  Except.ok.injEq] at h
                subst h
                exact ⟨f, rfl, rfl, rfl, rfl, h1, h2, h3, h4, h5, as, h6, rfl⟩

/-- GTF: the same; the plain columns are the raw columns -/
theorem gtf_lazy_eq_owned {F : Type} (ff : FloatFmt F) (line : Bytes) (r : Record F)
    (h : Gtf.readRecord ff line = .ok r) :
    ∃ f, bounds line = .ok f ∧ f.seqid = r.seqid ∧ f.source = r.source ∧ f.ty = r.ty ∧
      parsePosition f.start = .ok r.start ∧ parsePosition f.end_ = .ok r.end_ ∧
      transpose (parseScore ff f.score) = .ok r.score ∧ Gtf.parseStrand f.strand = .ok r.strand ∧
      transpose (parsePhase f.phase) = .ok r.phase ∧
      ∃ as, Gtf.parseAttrs f.attrs = .ok as ∧ collectAttrs as = r.attrs := by
  unfold Gtf.readRecord Gtf.tryNew at h
  cases hb : bounds line with
  | error e => simp [hb, bind, Except.bind] at h
  | ok f =>
    cases h6 : Gtf.parseAttrs f.attrs with
    | error e => simp [hb, h6, bind, Except.bind] at h
    | ok as =>
      cases h1 : parsePosition f.start with
      | error e => simp [hb, h6, h1, bind, Except.bind, pure, Except.pure] at h
      | ok s =>
        cases h2 : parsePosition f.end_ with
        | error e => simp [hb, h6, h1, h2, bind, Except.bind, pure, Except.pure] at h
        | ok e =>
          cases h3 : transpose (parseScore ff f.score) with
          | error e => simp [hb, h6, h1, h2, h3, bind, Except.bind, pure, Except.pure] at h
          | ok sc =>
            cases h4 : Gtf.parseStrand f.strand with
            | error e => simp [hb, h6, h1, h2, h3, h4, bind, Except.bind, pure, Except.pure] at h
            | ok st =>
              cases h5 : transpose (parsePhase f.phase) with
              | error e => simp [hb, h6, h1, h2, h3, h4, h5, bind, Except.bind, pure, Except.pure] at h
              | ok ph =>
                simp only [hb, h1, h2, h3, h4, h5, h6, bind, Except.bind, pure, Except.pure,
                  Except.ok.injEq] at h
                subst h
                exact ⟨f, rfl, rfl, rfl, rfl, h1, h2, h3, h4, h5, as, h6, rfl⟩

/-- GTF: reading a line never reaches the `unwrap` in the trait method `attributes()`: a malformed
attribute column is an error of the line (`Record::try_new` parses the column once), whatever the
line holds. -/
theorem gtf_read_never_panics {F : Type} (ff : FloatFmt F) (line : Bytes) :
    Gtf.readRecord ff line ≠ .error .panic := by
  have hpos := Gtf.parsePosition_ne_panic
  have hscore := Gtf.parseScore_ne_panic ff
  have hphase := Gtf.parsePhase_ne_panic
  have hb := Gtf.bounds_ne_panic line
  have ha := Gtf.parseAttrs_ne_panic
  unfold Gtf.readRecord Gtf.tryNew
  cases hb' : bounds line with
  | error e =>
    simp only [bind, Except.bind]
    intro h; injection h with h; subst h; exact hb hb'
  | ok f =>
    cases h6 : Gtf.parseAttrs f.attrs with
    | error e =>
      simp only [bind, Except.bind, h6]
      intro h; injection h with h; subst h; exact ha _ h6
    | ok as =>
      cases h1 : parsePosition f.start with
      | error e =>
        simp only [bind, Except.bind, pure, Except.pure, h6, h1]
        intro h; injection h with h; subst h; exact hpos _ h1
      | ok s =>
        cases h2 : parsePosition f.end_ with
        | error e =>
          simp only [bind, Except.bind, pure, Except.pure, h6, h1, h2]
          intro h; injection h with h; subst h; exact hpos _ h2
        | ok e =>
          cases h3 : transpose (parseScore ff f.score) with
          | error e =>
            simp only [bind, Except.bind, pure, Except.pure, h6, h1, h2, h3]
            intro h; injection h with h; subst h; exact hscore _ h3
          | ok sc =>
            cases h4 : Gtf.parseStrand f.strand with
            | error e =>
              simp only [bind, Except.bind, pure, Except.pure, h6, h1, h2, h3, h4]
              intro h; injection h with h; subst h
              unfold Gtf.parseStrand at h4
              repeat' split at h4
              all_goals cases h4
            | ok st =>
              cases h5 : transpose (parsePhase f.phase) with
              | error e =>
                simp only [bind, Except.bind, pure, Except.pure, h6, h1, h2, h3, h4, h5]
                intro h; injection h with h; subst h; exact hphase _ h5
              | ok ph => simp [bind, Except.bind, pure, Except.pure, h6, h1, h2, h3, h4, h5]

/-- BED: the owned record holds exactly the values of the accessors over the flat buffer and its
bounds index (`name`, `score`, `strand` from N = 4, 5, 6 on), optional columns in order -/
theorem bed_lazy_eq_owned (l : Bed.Lazy) (r : Bed.Record) (h : Bed.toOwned l = .ok r) :
    r.n = l.n ∧ l.seqid = .ok r.seqid ∧ l.start = .ok r.start ∧ l.end_ = .ok r.end_ ∧
    l.name = .ok r.name ∧ l.score = .ok r.score ∧ l.strand = .ok r.strand ∧
    ∃ os, l.others = .ok os ∧ r.other = os.map Bed.OValue.string := by
  unfold Bed.toOwned at h
  cases h0 : l.seqid with
  | error e => simp [h0, bind, Except.bind] at h
  | ok a =>
    cases h1 : l.start with
    | error e => simp [h0, h1, bind, Except.bind] at h
    | ok s =>
      cases h2 : l.end_ with
      | error e => simp [h0, h1, h2, bind, Except.bind] at h
      | ok en =>
        cases h3 : l.name with
        | error e => simp [h0, h1, h2, h3, bind, Except.bind] at h
        | ok nm =>
          cases h4 : l.score with
          | error e => simp [h0, h1, h2, h3, h4, bind, Except.bind] at h
          | ok sc =>
            cases h5 : l.strand with
            | error e => simp [h0, h1, h2, h3, h4, h5, bind, Except.bind] at h
            | ok st =>
              cases h6 : l.others with
              | error e => simp [h0, h1, h2, h3, h4, h5, h6, bind, Except.bind] at h
              | ok os =>
                simp only [h0, h1, h2, h3, h4, h5, h6, bind, Except.bind, pure, Except.pure,
                  Except.ok.injEq] at h
                subst h
                exact ⟨rfl, rfl, rfl, rfl, rfl, rfl, rfl, os, rfl, rfl⟩

/-! ## non-vacuity -/

/-- a lawful float formatter exists (decimal naturals); the real `f32` formatter is validated
against the same law by the harness -/
def natFmt : FloatFmt Nat := ⟨Text.printNat, Text.parseNat⟩

theorem natFmt_lawful : natFmt.Lawful where
  parse_fmt := Text.parse_print
  fmt_ne_missing := fun x h => by
    have := printNat_digits x 46 (by rw [show natFmt.fmt x = Text.printNat x from rfl] at h; rw [h]; simp [MISSING])
    unfold isDigit at this; simp at this
  fmt_clean := fun x b hb => by
    have := printNat_digits x b hb
    unfold isDigit at this
    refine ⟨?_, ?_, ?_⟩ <;> (intro h; rw [h] at this; simp at this)

/-- a GFF3 record with reserved characters everywhere is well-formed and accepted by the writer -/
example : ∃ (r : Record Nat) (line : Bytes), r.WF ∧ writeRecord natFmt r = .ok line :=
  ⟨⟨[35, 115, 113, 32, 48], [97, 9, 98], [37, 10], 8, 13, some 5, .forward, none,
     [([73, 68, 61], .string [59, 44]), ([80], .array [[97, 44], [98]])]⟩, _,
   ⟨by decide, by decide, by decide, by
      intro tv htv
      simp only [List.mem_cons, List.mem_nil_iff, or_false] at htv
      rcases htv with rfl | rfl <;> simp [Value.Canonical]⟩, rfl⟩

/-- the hypotheses of `gff_record_roundtrip_partial` are satisfiable with reserved characters in the
source (`%`, `;`, space), the type and everywhere in the attributes -/
example : ∃ (r : Record Nat) (line : Bytes), r.WF ∧ r.Plain ∧ writeRecord natFmt r = .ok line :=
  ⟨⟨[115, 113, 48, 46, 58, 124], [37, 52, 49, 59, 32], [61, 44], 8, 13, some 5, .unknown, some .two,
     [([73, 9, 61], .string [59, 10, 37]), ([80], .array [[97, 44], []])]⟩, _,
   ⟨by decide, by decide, by decide, by
      intro tv htv
      simp only [List.mem_cons, List.mem_nil_iff, or_false] at htv
      rcases htv with rfl | rfl <;> simp [Value.Canonical]⟩,
   ⟨by decide, by decide, by decide⟩, rfl⟩

/-- a BED6+2 record is well-formed and accepted -/
example : ∃ (r : Bed.Record) (t : Bytes), r.WF ∧ Bed.writeRecord r = .ok t :=
  ⟨⟨6, [115, 113, 48], 8, some 13, some [110], 500, some .forward, [.string [97], .uint 7]⟩, _,
   ⟨by decide, by decide, by intro e he; simp at he; subst he; decide, by decide, by decide,
    by decide, by decide, by decide⟩, rfl⟩

/-! ## negation witnesses for the known finding F19 (replayed on the real code by the harness corpus:
`gff-corpus 1`, `gff-corpus 14`), and the pre-fix witness of F21 (`gtf-corpus 1`) -/

/-- the record `sq 0 / . / gene / 8..13` -/
def witnessSeqid : Record Nat := ⟨[115, 113, 32, 48], [46], [103, 101, 110, 101], 8, 13, none, .forward, none, []⟩
/-- the record `sq0 / a<TAB>b / gene / 8..13` -/
def witnessSource : Record Nat := ⟨[115, 113, 48], [97, 9, 98], [103, 101, 110, 101], 8, 13, none, .forward, none, []⟩

def errOf {α : Type} : Except Err α → Option Err
  | .ok _ => none
  | .error e => some e

/-- F19a: seqid `sq 0` is written as `sq%200` and the record read back has seqid `sq%200` -/
theorem f19_seqid_witness :
    witnessSeqid.WF ∧
    (writeRecord natFmt witnessSeqid).toOption.map (fun l => l.take 7)
      = some [115, 113, 37, 50, 48, 48, 9] ∧
    ((writeRecord natFmt witnessSeqid).toOption.bind
      (fun l => (readRecord natFmt l).toOption.map (·.seqid))) = some [115, 113, 37, 50, 48, 48] := by
  refine ⟨⟨by decide, by decide, by decide, by intro tv h; simp [witnessSeqid] at h⟩, by decide, by decide⟩

/-- F19b: source `a<TAB>b` is written raw; the line does not read back (`b` is taken for the type,
`gene` for the start position: `InvalidData`) -/
theorem f19_source_witness :
    witnessSource.WF ∧
    ((writeRecord natFmt witnessSource).toOption.map (fun l => errOf (readRecord natFmt l)))
      = some (some .invalidData) := by
  refine ⟨⟨by decide, by decide, by decide, by intro tv h; simp [witnessSource] at h⟩, by decide⟩

/-- the unrestricted round trip is false for the code as it stands -/
theorem gff_record_roundtrip_false :
    ¬ (∀ (r : Record Nat), r.WF → ∀ line, writeRecord natFmt r = .ok line → readRecord natFmt line = .ok r) := by
  intro hall
  obtain ⟨hwf, _, h3⟩ := f19_seqid_witness
  cases hw : writeRecord natFmt witnessSeqid with
  | error e => rw [hw] at h3; simp [Except.toOption] at h3
  | ok line =>
    have := hall witnessSeqid hwf line hw
    rw [hw] at h3
    simp only [Except.toOption, Option.bind_some, this, Option.map_some] at h3
    revert h3
    decide

/-- F21 (fixed): cutting at the first `"` (as before the fix) stops inside the escaped value `g"0` -/
example : splitOnce 34 (Gtf.escape [103, 34, 48] ++ [34, 59]) = some ([103, 92], [48, 34, 59]) ∧
    Gtf.parseString (Gtf.escape [103, 34, 48] ++ [34, 59]) = some ([103, 92, 34, 48], [59]) := by decide

end Noodles.Props.C18
