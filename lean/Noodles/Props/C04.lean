import Noodles.Props.C04Join
import Noodles.Props.C04Span
import Noodles.Csi.QueryModel
import Noodles.Csi.QueryProof
/-!
# C04 — indexed region queries return exactly what a linear scan would

For ANY list of records on a reference (no coordinate-sortedness is needed for these
statements), ANY strictly increasing offsets, ANY geometry and ANY region `[qs, qe]`:
the query through the index noodles builds — linear (BAI/tabix) or binned (CSI) — yields
exactly the records a full scan keeps, in file order, each once.
Helper lemmas: `Noodles/Csi/QueryProof.lean` (and the earlier `Noodles/Csi/*.lean`).
-/
namespace Noodles.Props.C04
open Noodles.Csi

/-- BAI / tabix: query = scan. -/
theorem query_eq_scan_linear (minShift depth : Nat) (off : Nat → Nat)
    (hmono : ∀ a b, a < b → off a < off b) (recs : List Rec)
    (hvalid : ValidRecs minShift depth recs) (qs qe : Nat) (hq1 : 1 ≤ qs) (hqq : qs ≤ qe) :
    queryRecs (queryChunksLinear minShift depth off recs qs qe) off recs qs qe = scan recs qs qe := by
  unfold queryChunksLinear
  exact query_eq_scan_of_min minShift depth off hmono recs hvalid qs qe hq1 _
    (fun i hi hov => minOffset_sound off hmono recs qs i hi hov)

/-- CSI (binned index, with the corrected `min_offset`): query = scan. -/
theorem query_eq_scan_binned (minShift depth : Nat) (off : Nat → Nat)
    (hmono : ∀ a b, a < b → off a < off b) (recs : List Rec)
    (hvalid : ValidRecs minShift depth recs) (qs qe : Nat) (hq1 : 1 ≤ qs) (hqq : qs ≤ qe) :
    queryRecs (queryChunksBinned minShift depth off recs qs qe) off recs qs qe = scan recs qs qe := by
  unfold queryChunksBinned
  exact query_eq_scan_of_min minShift depth off hmono recs hvalid qs qe hq1 _
    (fun i hi hov => minOffsetBinned_sound' minShift depth off recs hvalid qs i hi hov)

/-- Soundness of the binned `min_offset` on its own: every record ending at or after the query
start lies at or after `min_offset` in the file (this is what the F4 fix restored). -/
theorem minOffsetBinned_sound (minShift depth : Nat) (off : Nat → Nat)
    (hmono : ∀ a b, a < b → off a < off b) (recs : List Rec)
    (hvalid : ValidRecs minShift depth recs) (qs : Nat) (i : Nat) (hi : i < recs.length)
    (hov : qs ≤ recs[i].e) :
    minOffsetBinned (buildBinned minShift depth off 0 [] recs) minShift depth qs ≤ off i := by
  exact minOffsetBinned_sound' minShift depth off recs hvalid qs i hi hov

/-- The chunk list a query returns is sorted by start and pairwise disjoint (so a record is
served at most once, and in file order). -/
theorem optimize_sorted_disjoint (chunks : List Chunk) (min : Nat) (hwf : ∀ c ∈ chunks, c.s ≤ c.e) :
    (optimize chunks min).Pairwise (fun a b => a.e < b.s) := by
  exact optimize_disjoint chunks min

/-- Merging invents no coverage: every offset covered by the result was covered by a retained
input chunk. -/
theorem optimize_no_new_coverage (chunks : List Chunk) (min x : Nat)
    (h : ∃ c' ∈ optimize chunks min, c'.covers x) : ∃ c ∈ chunks, c.e > min ∧ c.covers x := by
  exact optimize_no_new chunks min x h

/-- **Unmapped query (linear index).**  `query_unmapped` seeks to
`last_first_record_start_position` = the last linear offset of the last non-empty reference and
scans from there keeping the records flagged unmapped. Every value of a reference's linear index
is the start offset of one of THAT reference's records, hence lies strictly before the offset
`off recs.length` at which the records after this reference (later references, then the unplaced
unmapped tail of a coordinate-sorted file) begin: the scan starts before every unplaced record, so
none is missed; the flag filter makes it return nothing that is not flagged unmapped. -/
theorem unmapped_seek_before_tail (off : Nat → Nat) (hmono : ∀ a b, a < b → off a < off b)
    (recs : List Rec) (v : Nat) (hv : v ∈ buildLin off 0 [] recs) : v < off recs.length := by
  have hinv := buildLin_inv off hmono recs [] [] ⟨by simp, by simp⟩
  simp only [List.nil_append, List.length_nil] at hinv
  obtain ⟨j, hj, rfl⟩ := hinv.vals v hv
  exact hmono _ _ hj

/-- non-vacuity: the F4 witness layout is a valid input (a long record precedes a short one) -/
example : ValidRecs 14 5 [⟨1, 100000⟩, ⟨50000, 50010⟩] := by
  intro r hr; simp at hr; rcases hr with rfl | rfl <;> decide

end Noodles.Props.C04
