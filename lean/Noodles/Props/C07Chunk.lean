import Noodles.Cram.Chunk
import Noodles.Cram.ChunkProof
import Noodles.Props.C07Enc
import Noodles.Props.C07Sam
/-!
# C07 (extension "chunk") — record stream → slices → containers

`cram::io::Writer`'s chunking state machine (`Noodles/Cram/Chunk.lean`: `add_record`, `flush`, `try_finish`,
`build_container`'s `chunks_mut` loop, `get_container_reference_sequence_context`; replayed against the real
writer + reader by `c07 chunk …`) and what it guarantees for EVERY record stream, every `records_per_slice ≥ 1`
and every `slices_per_container ≥ 1` (the public builder has `slices_per_container = 1`), whenever the writer
accepts the stream (`run = ok`; it fails only when a slice fails or — for `slices_per_container > 1` — when two
slices of one container have different contexts, see `chunk_rejects_mixed_container`):

* nothing is lost, duplicated or reordered (`chunk_preserves_stream`);
* slices hold `1..rps` records, containers `1..spc` slices (`chunk_bounds`);
* a slice header's context is the context of exactly its records (`chunk_slice_context`; with `getRefCtx` it
  covers every record: `chunk_refctx_covers`), the container header's context agrees with every slice's
  (`chunk_container_context`);
* the cut is by position alone: slices are `chunks rps` of `chunks (rps·spc)` of the stream
  (`chunk_layout_explicit`); with one slice per container every stream whose slices build is accepted
  (`chunk_accepts_one_slice_per_container`);
* record counters are running totals, counts add up (`chunk_counters`);
* `try_finish` on an empty writer writes no data container, for every layout incl. 0 (`finish_empty`);
* if every slice round-trips then the file does (`file_records_roundtrip`, generic;
  `sam_file_roundtrip`: joined with `sam_slice_roundtrip`).

At HEAD a change of reference never closes a slice: only the record count does (see the model's header).
`records_per_slice = 0` panics at the first non-empty flush, `slices_per_container = 0` behaves as a container
of 4 records (`Vec` growth): `chunk_zero_layouts`.
-/
namespace Noodles.Props.C07
open Noodles.Cram Noodles.Cram.Enc Noodles.Cram.Sam Noodles.Cram.Chunk
open Noodles.Cram.Container (sliceCounters)

variable {α : Type}

/-- **Nothing lost, duplicated or reordered.** The records of all slices of all containers, in file order,
are the input stream. -/
theorem chunk_preserves_stream (P : Params α) (rps spc : Nat) (h1 : 1 ≤ rps) (h2 : 1 ≤ spc) (rs : List α)
    (out : List (ContainerOut α)) (h : run P rps spc rs = .ok out) :
    (out.flatMap fun c => c.slices.flatMap (·.records)) = rs := by
  have := (run_spec P rps spc h1 h2 rs out h).1
  simpa [allRecords, allSlices, List.flatMap_assoc] using this

/-- **Sizes.** Every slice has between 1 and `records_per_slice` records, every container between 1 and
`slices_per_container` slices (so there is no empty data container). -/
theorem chunk_bounds (P : Params α) (rps spc : Nat) (h1 : 1 ≤ rps) (h2 : 1 ≤ spc) (rs : List α)
    (out : List (ContainerOut α)) (h : run P rps spc rs = .ok out) :
    ∀ c ∈ out, (1 ≤ c.slices.length ∧ c.slices.length ≤ spc) ∧
      ∀ s ∈ c.slices, 1 ≤ s.records.length ∧ s.records.length ≤ rps := by
  intro c hc
  have g := (run_spec P rps spc h1 h2 rs out h).2.1 c hc
  exact ⟨⟨g.slices_pos, g.slices_le⟩, fun s hs => ⟨g.rec_pos s hs, g.rec_le s hs⟩⟩

/-- non-vacuity: a stream of 5 records on two references, 2 records per slice, 1 slice per container -/
example : (run lparams 2 1 [⟨"a", some 0, some 1, some 5, 5⟩, ⟨"b", some 0, some 3, some 9, 7⟩,
    ⟨"c", some 1, some 4, some 4, 1⟩, ⟨"d", some 1, some 10, some 12, 3⟩, ⟨"e", none, none, none, 2⟩]).map
      (·.map fun c => (c.ctx, c.counter, c.slices.map (·.records.length))) =
    .ok [(.some 0 1 9, 0, [2]), (.some 1 4 12, 2, [2]), (.none, 4, [1])] := rfl

/-- **Slice context.** Every slice header's reference sequence context is what `build_slice` computes for
exactly the slice's records (given the container's records, which determine the compression header). -/
theorem chunk_slice_context (P : Params α) (rps spc : Nat) (h1 : 1 ≤ rps) (h2 : 1 ≤ spc) (rs : List α)
    (out : List (ContainerOut α)) (h : run P rps spc rs = .ok out) :
    ∀ c ∈ out, ∀ s ∈ c.slices, P.ctxOf c.records s.records = .ok s.ctx :=
  fun c hc s hs => ((run_spec P rps spc h1 h2 rs out h).2.1 c hc).ctx s hs

/-- the slice work reduced to `get_reference_sequence_context` over CRAM records -/
def crecParams : Params CRec := ⟨fun _ => getRefCtx, (·.readLength)⟩

/-- **Joined with `refctx_covers`.** In every file the writer produces, a slice header with a single-reference
context names the reference id of every record of that slice, and a slice header with the unmapped context
holds only records without a reference id — whatever the stream's order of references. -/
theorem chunk_refctx_covers (rps spc : Nat) (h1 : 1 ≤ rps) (h2 : 1 ≤ spc) (rs : List CRec)
    (out : List (ContainerOut CRec)) (h : run crecParams rps spc rs = .ok out) :
    ∀ c ∈ out, ∀ s ∈ c.slices, ∀ r ∈ s.records,
      (∀ id st e, s.ctx = .some id st e → r.refId = some id) ∧ (s.ctx = .none → r.refId = none) :=
  fun c hc s hs r hr => refctx_covers s.records s.ctx (chunk_slice_context crecParams rps spc h1 h2 rs out h c hc s hs) r hr

/-- **Container context.** The container header's context is `get_container_reference_sequence_context` of
its slices' contexts, and it agrees with every slice: unmapped with unmapped, multi-reference with
multi-reference, single-reference with the same reference and a covering range. -/
theorem chunk_container_context (P : Params α) (rps spc : Nat) (h1 : 1 ≤ rps) (h2 : 1 ≤ spc) (rs : List α)
    (out : List (ContainerOut α)) (h : run P rps spc rs = .ok out) :
    ∀ c ∈ out, containerCtx (c.slices.map (·.ctx)) = .ok c.ctx ∧ ∀ s ∈ c.slices, Agrees c.ctx s.ctx := by
  intro c hc
  have g := (run_spec P rps spc h1 h2 rs out h).2.1 c hc
  exact ⟨g.cctx, fun s hs => containerCtx_agrees _ _ g.cctx s.ctx (List.mem_map_of_mem hs)⟩

/-- The writer REJECTS a stream whose container would hold slices of different contexts (reachable only with
`slices_per_container > 1`, i.e. through the verification hook): `InvalidInput` from
`get_container_reference_sequence_context`. Replayed on the real writer (`chunkhand 15`, `17`, `19`, `21`). -/
theorem chunk_rejects_mixed_container :
    run lparams 1 2 [⟨"a", some 0, some 1, some 5, 5⟩, ⟨"b", some 1, some 3, some 9, 7⟩] = .error .invalidInput ∧
    run lparams 1 2 [⟨"a", some 0, some 1, some 5, 5⟩, ⟨"b", none, none, none, 7⟩] = .error .invalidInput ∧
    (run lparams 1 1 [⟨"a", some 0, some 1, some 5, 5⟩, ⟨"b", some 1, some 3, some 9, 7⟩]).isOk = true := by
  refine ⟨rfl, rfl, rfl⟩

/-- **The layout, explicitly.** The slices' record lists are `chunks_mut(rps)` of `chunks(rps·spc)` of the
stream: containers are cut every `rps·spc` records and slices every `rps` records, by position alone — at
HEAD neither a change of reference, nor mapped → unmapped, nor anything else about a record closes a slice
or a container (the contexts FOLLOW the cut: `chunk_slice_context`). -/
theorem chunk_layout_explicit (P : Params α) (rps spc : Nat) (h1 : 1 ≤ rps) (h2 : 1 ≤ spc) (rs : List α)
    (out : List (ContainerOut α)) (h : run P rps spc rs = .ok out) :
    out.map (fun c => c.slices.map (·.records)) = (chunks (rps * spc) rs).map (chunks rps) := by
  have hl := run_layout P rps spc h1 h2 rs out h
  have hg := (run_spec P rps spc h1 h2 rs out h).2.1
  rw [← hl, List.map_map]
  exact List.map_congr_left fun c hc => (hg c hc).slices_eq

/-- the cut on 7 positions, 2 records per slice, 2 slices per container -/
example : (chunks (2 * 2) [0, 1, 2, 3, 4, 5, 6]).map (chunks 2) = [[[0, 1], [2, 3]], [[4, 5], [6]]] := by decide

/-- **The public layout accepts every stream whose slices build.** With one slice per container (the only
layout the public builder offers; `records_per_slice ≥ 1` arbitrary) the chunking itself never fails: if
`build_slice` succeeds on every non-empty chunk, the writer accepts the whole stream — so the hypothesis
`run = ok` of the theorems here is met by every such stream. (For more slices per container it is not:
`chunk_rejects_mixed_container`.) -/
theorem chunk_accepts_one_slice_per_container (P : Params α) (rps : Nat) (h1 : 1 ≤ rps)
    (hP : ∀ all chunk : List α, chunk ≠ [] → ∃ ctx, P.ctxOf all chunk = .ok ctx) (rs : List α) :
    ∃ out, run P rps 1 rs = .ok out :=
  run_total P rps h1 hP rs

/-- non-vacuity: the light records' slice builder never fails on a non-empty chunk -/
example : ∀ all chunk : List LRec, chunk ≠ [] → ∃ ctx, lparams.ctxOf all chunk = .ok ctx := by
  intro _ chunk h
  cases chunk with
  | nil => exact absurd rfl h
  | cons r rs => exact ⟨_, rfl⟩

/-- **Counters.** Container record counters are the running totals of the container record counts; a
container's record count is the number of records in its slices, its base count the sum of their read
lengths; slice record counters start at the container's and advance by the slices' record counts
(`Container.sliceCounters` is the function `counters_prefix_sums` / `slice_counter_prefix` are stated with). -/
theorem chunk_counters (P : Params α) (rps spc : Nat) (h1 : 1 ≤ rps) (h2 : 1 ≤ spc) (rs : List α)
    (out : List (ContainerOut α)) (h : run P rps spc rs = .ok out) :
    out.map (·.counter) = sliceCounters 0 (out.map (·.nrec)) ∧
    (out.map (·.nrec)).sum = rs.length ∧
    ∀ c ∈ out, c.nrec = (c.slices.map (·.records.length)).sum ∧
      c.bases = (c.records.map P.readLen).sum ∧
      c.slices.map (·.counter) = sliceCounters c.counter (c.slices.map (·.records.length)) := by
  obtain ⟨s1, s2, s3⟩ := run_spec P rps spc h1 h2 rs out h
  refine ⟨s3, ?_, fun c hc => ?_⟩
  · rw [← s1]
    have hn : ∀ c ∈ out, c.nrec = c.records.length := fun c hc => (s2 c hc).nrec
    clear s1 s2 s3 h
    induction out with
    | nil => rfl
    | cons c cs ih =>
      have : allRecords (c :: cs) = c.records ++ allRecords cs := by
        simp [allRecords, allSlices, ContainerOut.records]
      rw [this, List.length_append, List.map_cons, List.sum_cons, hn c (List.mem_cons_self ..),
        ih (fun c' hc' => hn c' (List.mem_cons_of_mem _ hc'))]
  · have g := s2 c hc
    refine ⟨?_, g.bases, g.scounters⟩
    rw [g.nrec]
    simp [ContainerOut.records, List.length_flatMap]

/-- **`try_finish` on an empty writer writes no data container** — for every layout, the zeros included
(`write_container` returns before `chunks_mut`); the file is the header container and the EOF container. -/
theorem finish_empty (P : Params α) (rps spc : Nat) : run P rps spc [] = .ok [] := rfl

/-- **The zero layouts** (outside the theorems above; replayed on the real writer: `chunkhand 28`–`33`).
`records_per_slice = 0`: `chunks_mut(0)` panics at the first flush of a non-empty buffer.
`slices_per_container = 0`: `Vec::with_capacity(0)` grows to capacity 4 at the first push, so containers
hold 4 records — here 4 slices of 1 record, more than "0 slices per container". -/
theorem chunk_zero_layouts :
    run lparams 0 1 [⟨"a", some 0, some 1, some 5, 5⟩] = .error .panic ∧
    (run lparams 1 0 ((List.range 5).map fun i => ⟨"r", some 0, some (i + 1), some (i + 1), 1⟩)).map
      (·.map fun c => c.slices.length) = .ok [4, 1] := by
  refine ⟨rfl, rfl⟩

/-- **Composition (generic).** Let `dec` read one slice (`Slice::records` on the slice the writer built from
`s.records` inside container `c`) and `R` be any per-slice round-trip relation. If every slice the chunking
produces round-trips (`dec (c, s) = ok o ∧ R (c, s) o`), then reading the whole file — every slice of every
container in file order, `Reader::records` — succeeds and returns the concatenation of per-slice outputs that
are `R`-related, slice by slice, to slices whose records concatenate to the input stream. -/
theorem file_records_roundtrip {γ : Type} (P : Params α) (rps spc : Nat) (h1 : 1 ≤ rps) (h2 : 1 ≤ spc) (rs : List α)
    (out : List (ContainerOut α)) (h : run P rps spc rs = .ok out)
    (dec : ContainerOut α × SliceOut α → Res (List γ)) (R : ContainerOut α × SliceOut α → List γ → Prop)
    (hslice : ∀ c ∈ out, ∀ s ∈ c.slices, P.ctxOf c.records s.records = .ok s.ctx →
      ∃ o, dec (c, s) = .ok o ∧ R (c, s) o) :
    ∃ outs : List (List γ), readAll dec (items out) = .ok outs.flatten ∧
      Forall2 R (items out) outs ∧ (items out).flatMap (·.2.records) = rs := by
  have hctx := chunk_slice_context P rps spc h1 h2 rs out h
  obtain ⟨outs, r1, r2⟩ := readAll_spec dec R (items out) (fun i hi => by
    obtain ⟨c, s⟩ := i
    obtain ⟨m1, m2⟩ := mem_items out c s hi
    exact hslice c m1 s m2 (hctx c m1 s m2))
  exact ⟨outs, r1, r2, by rw [items_records]; exact (run_spec P rps spc h1 h2 rs out h).1⟩

/-- `build_slice` over SAM records: the compression header and substitution matrix are functions of the
container's records (`build_compression_header(ctx, records)`), the slice is `encodeSlice` of the chunk.
(`Record::try_from_alignment_record` runs inside `encodeSlice` here; the real writer converts at
`write_alignment_record`, so a conversion error surfaces earlier there — irrelevant for accepted streams.) -/
def samParams (refs : Refs) (chOf : List SamRec → CH) (mOf : List SamRec → Matrix) : Params SamRec :=
  ⟨fun all rs => (encodeSlice (chOf all) refs (mOf all) rs).map (·.1), fun r => r.seq.length⟩

/-- `Slice::records` on the slice written for `s.records` in container `c`, under the slice header's context,
record count and record counter -/
def samDec (refs : Refs) (chOf : List SamRec → CH) (mOf : List SamRec → Matrix)
    (i : ContainerOut SamRec × SliceOut SamRec) : Res (List SamRec) :=
  match encodeSlice (chOf i.1.records) refs (mOf i.1.records) i.2.records with
  | .error e => .error e
  | .ok (_, core, ext) =>
    decodeSlice (chOf i.1.records) refs (mOf i.1.records) i.2.ctx i.2.records.length i.2.counter core (blocksOf ext)

/-- **SAM → CRAM file → SAM.** For every reference repository, every choice of compression header and (valid)
substitution matrix per container, every layout `rps, spc ≥ 1` and every SAM record stream the writer accepts
(`run = ok`): if every slice the chunking produces is `SamSliceWF` (the hypothesis of `sam_slice_roundtrip`),
then reading the file slice by slice succeeds, returns exactly as many records as were written, and — slice by
slice, the slices' inputs concatenating to the input stream in order — record `p` of a slice comes `Back`
field for field (flags, reference, position, MAPQ, read group, tags unchanged; CIGAR in normal form; bases up
to case; qualities; mate fields; the name rule under the slice's OWN record counter, which is the number of
records written before it: `chunk_counters`). -/
theorem sam_file_roundtrip (refs : Refs) (chOf : List SamRec → CH) (mOf : List SamRec → Matrix)
    (hm : ∀ a, (mOf a).OK) (rps spc : Nat) (h1 : 1 ≤ rps) (h2 : 1 ≤ spc) (rs : List SamRec)
    (out : List (ContainerOut SamRec)) (h : run (samParams refs chOf mOf) rps spc rs = .ok out)
    (hwf : ∀ c ∈ out, ∀ s ∈ c.slices, SamSliceWF refs (chOf c.records) (mOf c.records) s.records) :
    ∃ outs : List (List SamRec), readAll (samDec refs chOf mOf) (items out) = .ok outs.flatten ∧
      outs.flatten.length = rs.length ∧ (items out).flatMap (·.2.records) = rs ∧
      Forall2 (fun i o => o.length = i.2.records.length ∧
        ∀ (p : Nat) (r : SamRec), i.2.records[p]? = some r → ∃ r', o[p]? = some r' ∧
          Back (expectedName (chOf i.1.records).recordsHaveNames i.2.counter (i.2.records.map samView) p r.name) r r')
        (items out) outs := by
  obtain ⟨outs, r1, r2, r3⟩ := file_records_roundtrip (samParams refs chOf mOf) rps spc h1 h2 rs out h
    (samDec refs chOf mOf)
    (fun i o => o.length = i.2.records.length ∧
      ∀ (p : Nat) (r : SamRec), i.2.records[p]? = some r → ∃ r', o[p]? = some r' ∧
        Back (expectedName (chOf i.1.records).recordsHaveNames i.2.counter (i.2.records.map samView) p r.name) r r')
    (fun c hc s hs hctx => by
      simp only [samParams] at hctx
      cases he : encodeSlice (chOf c.records) refs (mOf c.records) s.records with
      | error e => rw [he] at hctx; cases hctx
      | ok v =>
        obtain ⟨ctx, core, ext⟩ := v
        rw [he] at hctx
        have hc' : ctx = s.ctx := by simpa [Except.map] using hctx
        rw [hc'] at he
        obtain ⟨o, d1, d2, d3⟩ := sam_slice_roundtrip (chOf c.records) refs (mOf c.records) (hm _) s.records
          (hwf c hc s hs) s.ctx core ext he s.counter
        exact ⟨o, by simp only [samDec, he]; exact d1, d2, d3⟩)
  refine ⟨outs, r1, ?_, r3, r2⟩
  rw [← r3]
  clear r1 r3
  generalize items out = is at r2 ⊢
  induction r2 with
  | nil => rfl
  | cons hR _ ih => simp [List.length_append, hR.1, ih]

/-- non-vacuity of `sam_file_roundtrip`: the example slice of `C07Sam.lean` written twice (8 records, two
references, an unmapped record, a pair) with 4 records per slice is accepted, gives two containers of one
slice each, and every slice is `SamSliceWF` -/
example : ∃ out, run (samParams exRefs (fun _ => exCH true) (fun _ => exM)) 4 1 (exSlice ++ exSlice) = .ok out ∧
    out.length = 2 ∧ ∀ c ∈ out, ∀ s ∈ c.slices, SamSliceWF exRefs (exCH true) exM s.records := by
  have h : ((run (samParams exRefs (fun _ => exCH true) (fun _ => exM)) 4 1 (exSlice ++ exSlice)).toOption.map
      (·.map (·.slices.map (·.records)))) = some [[exSlice], [exSlice]] := by decide +kernel
  cases hr : run (samParams exRefs (fun _ => exCH true) (fun _ => exM)) 4 1 (exSlice ++ exSlice) with
  | error e => rw [hr] at h; simp [Except.toOption] at h
  | ok out =>
    rw [hr] at h
    simp only [Except.toOption, Option.map_some, Option.some.injEq] at h
    refine ⟨out, rfl, ?_, fun c hc s hs => ?_⟩
    · have := congrArg List.length h
      simpa using this
    · have hm : s.records ∈ ([[exSlice], [exSlice]] : List (List (List SamRec))).flatten := by
        rw [← h]
        simp only [List.mem_flatten, List.mem_map]
        exact ⟨_, ⟨c, hc, rfl⟩, List.mem_map_of_mem hs⟩
      have : s.records = exSlice := by simpa using hm
      rw [this]; exact exSlice_wf true

end Noodles.Props.C07
