import Noodles.Props.C10Record
import Noodles.Bcf.Typed
import Noodles.Bcf.StringMap
import Noodles.Bcf.TypedProof
import Noodles.Bcf.VectorProof
import Noodles.Bcf.SamplesProof
import Noodles.Bcf.GenotypeProof
import Noodles.Bcf.StringMapProof
/-!
# C10 — BCF typed encoding round-trips every value and carries the same content as VCF

Theorems over the model `Noodles.Bcf` (`Typed.lean`, `StringMap.lean`; whole records in
`Record.lean`), for **all** integers / vectors / ragged sample matrices / genotype columns /
dictionaries — no bound on lengths or values other than the ranges of the Rust types.
Helper lemmas are in `Noodles/Bcf/*Proof.lean`.

The model describes noodles-bcf / noodles-vcf **with** the `fix:` commits proposed together with
this property (each is a genuine defect of the unchanged tree, found by the oracle):
F14 (integer vector column with every sample missing), end-of-vector padding of genotypes of mixed
ploidy, the phase bit of a missing allele, the INFO field with a missing value, `IDX` not written to
the header, and F13 (reserved codes are `invalid data`, not `todo!()`). The statements below are
false of the unfixed code; the negation witnesses at the end replay the unfixed computations.

Normal form (what the VCF text cannot distinguish, and the code itself imposes): an INFO vector /
per-sample vector that is exactly `[missing]` reads back as a missing value (eager) or stays
`[missing]` (lazy); before VCF 4.4 the lazy accessor infers the first allele's phasing.
-/
namespace Noodles.Props.C10
open Noodles.Bcf
open Noodles.Codec (Bytes)

/-! ## width selection and the reserved codes -/

/-- The width chosen by the min/max cascade represents every `i32` in `[min, max]` as a *value*:
it fits the width and is none of the eight reserved codes (missing, end-of-vector, reserved). -/
theorem width_no_sentinel_collision (mn mx x : Int) (w : W) (h : selectWidth mn mx = some w)
    (hmx : mx ≤ I32_MAX) (h1 : mn ≤ x) (h2 : x ≤ mx) :
    w.min ≤ x ∧ x ≤ w.max ∧ classify w x = .value x := by
  obtain ⟨a, b⟩ := selectWidth_sound mn mx w h hmx
  have := min_lt_max w
  refine ⟨?_, by omega, classify_value w x (by omega)⟩
  unfold W.minValue at a; omega

/-- A width is selected exactly when the minimum is representable (`≥ -2^31 + 8`). -/
theorem width_selected_iff (mn mx : Int) : (∃ w, selectWidth mn mx = some w) ↔ I32_MIN + 8 ≤ mn := by
  constructor
  · intro ⟨w, hw⟩
    by_cases h : I32_MIN + 8 ≤ mn
    · exact h
    · rw [selectWidth_none mn mx (by omega)] at hw; cases hw
  · exact selectWidth_some mn mx

/-! ## the type descriptor -/

/-- Every descriptor `(type, length)` with a length the format can hold round-trips, including
lengths ≥ 15 that are stored as a typed Int8 / Int16 / Int32. -/
theorem bcf_descriptor_roundtrip (ty : Ty) (len : Nat) (h : len ≤ 2147483647) (rest : Bytes) :
    ∃ bs, writeType (some (ty, len)) = .ok bs ∧ readType (bs ++ rest) = .ok (some (ty, len), rest) :=
  readType_writeType ty len h rest

/-- A longer vector is an error of the writer. -/
theorem bcf_descriptor_too_long (ty : Ty) (len : Nat) (h : 2147483647 < len) :
    writeType (some (ty, len)) = .error .invalidInput :=
  writeType_too_long ty len h

/-! ## integers -/

/-- INFO integer vector: every vector of representable `i32`s, with missing entries anywhere,
is written and read back (eager and lazy reader) as the same vector, up to the normal form. -/
theorem bcf_int_roundtrip (xs : List (Option Int)) (hne : xs ≠ []) (hlen : xs.length ≤ 2147483647)
    (hr : ∀ x ∈ xs, ∀ v, x = some v → I32_MIN + 8 ≤ v ∧ v ≤ I32_MAX) (lazy : Bool) (rest : Bytes) :
    ∃ bs, writeInfoInts xs = .ok bs ∧
      readInfoVal lazy .other .integer (bs ++ rest) = .ok (normInts xs, rest) :=
  info_ints_roundtrip xs hne hlen hr lazy rest

/-- INFO integer scalar. -/
theorem bcf_int_scalar_roundtrip (n : Int) (h1 : I32_MIN + 8 ≤ n) (h2 : n ≤ I32_MAX) (lazy : Bool)
    (rest : Bytes) :
    ∃ bs, writeInfoInt n = .ok bs ∧
      readInfoVal lazy .one .integer (bs ++ rest) = .ok (some (.int n), rest) :=
  info_int_roundtrip n h1 h2 lazy rest

/-- An integer BCF cannot represent (below `-2^31 + 8`) is an error of every integer writer —
INFO scalar, INFO vector, per-sample scalar column, per-sample vector column — never a different
value. -/
theorem bcf_int_rejects (v : Int) (h : v < I32_MIN + 8) :
    writeInfoInt v = .error .invalidInput ∧
    (∀ xs, some v ∈ xs → writeInfoInts xs = .error .invalidInput) ∧
    (∀ col, some v ∈ col → writeIntValues col = .error .invalidInput) ∧
    (∀ col, some v ∈ flatVals col → writeIntArrayValues col = .error .invalidInput) :=
  ⟨writeInfoInt_rejects v h, fun xs hv => writeInfoInts_rejects xs v hv h,
   fun col hv => writeIntValues_rejects col v hv h,
   fun col hv => writeIntArrayValues_rejects col v hv h⟩

/-! ## floats -/

/-- Every 32-bit pattern other than the eight reserved NaNs `0x7f800001 … 0x7f800007` keeps its
bits (INFO scalar and INFO vector, missing entries anywhere; eager and lazy reader). -/
theorem bcf_float_bits :
    (∀ (b : Nat), b < 4294967296 → (b < 0x7f800001 ∨ 0x7f800007 < b) → ∀ (lazy : Bool) (rest : Bytes),
      ∃ bs, writeInfoFloat b = .ok bs ∧
        readInfoVal lazy .one .float (bs ++ rest) = .ok (some (.float b), rest)) ∧
    (∀ (xs : List (Option Nat)), xs ≠ [] → xs.length ≤ 2147483647 → (∀ x ∈ xs, FitsF x) →
      ∀ (lazy : Bool) (rest : Bytes),
      ∃ bs, writeInfoFloats xs = .ok bs ∧
        readInfoVal lazy .other .float (bs ++ rest) = .ok (normFloats xs, rest)) :=
  ⟨fun b hb hres lazy rest => info_float_roundtrip b hb hres lazy rest,
   fun xs hne hlen hr lazy rest => info_floats_roundtrip xs hne hlen hr lazy rest⟩

/-! ## per-sample columns -/

/-- Per-sample integer **vector** column: any number of samples, vectors of unequal length
(padded with end-of-vector), missing entries inside vectors, missing samples — including the
column in which *every* sample is missing. Eager reader: the same column up to the normal form
(`[missing]` ≡ missing sample); lazy accessor: a missing sample is `[missing]`. -/
theorem bcf_samples_roundtrip (col : List (Option (List (Option Int))))
    (h1 : 1 ≤ maxLen col) (hlen : maxLen col ≤ 2147483647)
    (hr : ∀ x ∈ flatVals col, ∀ v, x = some v → I32_MIN + 8 ≤ v ∧ v ≤ I32_MAX) (rest : Bytes) :
    ∃ bs, writeIntArrayValues col = .ok bs ∧
      readColumnEager (.field .other .integer) col.length (bs ++ rest) = .ok (col.map normS, rest) ∧
      ∀ v44, readColumnLazy v44 (.field .other .integer) col.length (bs ++ rest)
        = .ok (col.map lazyS, rest) :=
  samples_ints_roundtrip col h1 hlen hr rest

/-- Per-sample integer **scalar** column (`Number=1`). -/
theorem bcf_samples_scalar_roundtrip (col : List (Option Int))
    (hr : ∀ x ∈ col, ∀ v, x = some v → I32_MIN + 8 ≤ v ∧ v ≤ I32_MAX) (rest : Bytes) :
    ∃ bs, writeIntValues col = .ok bs ∧
      readColumnEager (.field .one .integer) col.length (bs ++ rest)
        = .ok (col.map (·.map SVal.int), rest) :=
  samples_int_roundtrip col hr rest

/-- Genotype column: any ploidies (mixed within the column, 0 included as long as one sample has
an allele), missing alleles, any phasing, allele indices up to 62. The eager reader returns every
allele and every phase bit; the lazy accessor returns the same alleles, with the first allele's
phasing explicit from VCF 4.4 on and inferred before (`fixFirst`). -/
theorem bcf_genotype_roundtrip (col : List (List Allele)) (h : ∀ g ∈ col, ∀ a ∈ g, AlleleOk a)
    (h1 : 1 ≤ ploidy col) (hlen : ploidy col ≤ 2147483647) (rest : Bytes) :
    ∃ bs, writeGenotypeValues (col.map some) = .ok bs ∧
      readColumnEager .gt col.length (bs ++ rest) = .ok (col.map (fun g => some (SVal.gt g)), rest) ∧
      ∀ v44, readColumnLazy v44 .gt col.length (bs ++ rest)
        = .ok (col.map (fun g => some (SVal.gt (fixFirst v44 g))), rest) :=
  genotype_roundtrip col h h1 hlen rest

/-! ## the dictionary -/

/-- For any list of header entries with arbitrary `IDX` assignments that do not clash, the string
map built by writer and reader is a bijection between names and occupied indices, every header
entry resolves index ↔ name, and `PASS` stays at 0. -/
theorem stringmap_resolves (es : List (String × Option Nat)) (m : StringMap)
    (hn : StringMap.NoClash StringMap.defaultStrings es)
    (h : StringMap.build StringMap.defaultStrings es = some m) :
    StringMap.Consistent m ∧
    (∀ e ∈ es, ∃ i, m.getIndexOf e.1 = some i ∧ m.getIndex i = some e.1) ∧
    m.getIndexOf "PASS" = some 0 := by
  obtain ⟨a, b, c⟩ := StringMap.build_consistent _ m es StringMap.consistent_default hn h
  exact ⟨a, b, c "PASS" 0 rfl⟩

/-- `NoClash` holds when no entry carries an `IDX` (order of appearance) … -/
theorem stringmap_noclash_implicit (es : List (String × Option Nat)) (h : ∀ e ∈ es, e.2 = none) :
    StringMap.NoClash StringMap.defaultStrings es :=
  StringMap.noClash_of_implicit _ es h

/-- … and when every entry carries one, the assignment is injective on names and 0 is `PASS`. -/
theorem stringmap_noclash_explicit (es : List (String × Option Nat))
    (hall : ∀ e ∈ es, ∃ i, e.2 = some i)
    (hinj : ∀ e1 ∈ es, ∀ e2 ∈ es, e1.2 = e2.2 → e1.1 = e2.1)
    (h0 : ∀ e ∈ es, e.2 = some 0 → e.1 = "PASS") :
    StringMap.NoClash StringMap.defaultStrings es :=
  StringMap.noClash_of_injective es hall hinj h0

/-! ## BCF ≡ VCF -/

/-- the `,`-separated fields of the VCF text of a per-sample integer vector value (`.` = `none`) -/
def txtRead : Option SVal → Option (List (Option Int))
  | none => some [none]
  | some (.ints vs) => some vs
  | _ => none

/-- the same for the value that was written -/
def txtWritten : Option (List (Option Int)) → List (Option Int)
  | none => [none]
  | some vs => vs

/-- the genotype as the VCF text shows it: before 4.4 the first allele has no phasing character -/
def txtGt (v44 : Bool) : List Allele → List Allele
  | [] => []
  | (p, ph) :: rest => (p, if v44 then ph else false) :: rest

/-- What the eager reader and the lazy accessor return renders to the same VCF text as what was
written: per-sample integer vectors field by field, genotypes allele by allele with every phasing
character the text has. (The text layer itself — digits, separators — is C09's.) -/
theorem bcf_vcf_agree :
    (∀ (col : List (Option (List (Option Int)))),
      (col.map normS).map txtRead = col.map (fun s => some (txtWritten s)) ∧
      (col.map lazyS).map txtRead = col.map (fun s => some (txtWritten s))) ∧
    (∀ (v44 : Bool) (g : List Allele), txtGt v44 (fixFirst v44 g) = txtGt v44 g) := by
  refine ⟨fun col => ⟨?_, ?_⟩, ?_⟩
  · rw [List.map_map]
    apply List.map_congr_left
    intro s _
    cases s with
    | none => rfl
    | some vs =>
      simp only [Function.comp, normS, normVec, txtWritten]
      split <;> rfl
  · rw [List.map_map]
    apply List.map_congr_left
    intro s _
    cases s <;> rfl
  · intro v44 g
    cases g with
    | nil => rfl
    | cons a g => rcases a with ⟨p, ph⟩; cases v44 <;> rfl

/-! ## non-vacuity and witnesses -/

/-- the boundary values select the widths the format prescribes -/
example : selectWidth (-120) 127 = some .w1 ∧ selectWidth (-121) 127 = some .w2 ∧
    selectWidth (-120) 128 = some .w2 ∧ selectWidth (-32760) 32767 = some .w2 ∧
    selectWidth (-32761) 0 = some .w4 ∧ selectWidth 0 32768 = some .w4 ∧
    selectWidth (-2147483640) 2147483647 = some .w4 ∧ selectWidth (-2147483641) 0 = none := by
  decide

/-- a ragged column with a missing sample and an all-missing column satisfy the hypotheses -/
example : 1 ≤ maxLen [some [some 1, some 2], none, some [some (-121)]] ∧
    1 ≤ maxLen ([none, none, none] : List (Option (List (Option Int)))) := by decide

/-- F14, fixed behaviour: `GT:AD 0/1:. ./.:. 0/0:.` — the AD column is `0x11 0x80 0x80 0x80` and
reads back as three missing values. (The unfixed writer emitted `0x01 0x80 0x80 0x80`: descriptor
length 0, which both readers reject as `invalid length`.) -/
example : writeIntArrayValues [none, none, none] = .ok [0x11, 0x80, 0x80, 0x80] ∧
    readColumnEager (.field .other .integer) 3 [0x11, 0x80, 0x80, 0x80] = .ok ([none, none, none], []) ∧
    (readColumnEager (.field .other .integer) 3 [0x01, 0x80, 0x80, 0x80]).toOption = none :=
  ⟨rfl, rfl, rfl⟩

/-- mixed ploidy, fixed behaviour: `0/1/1`, `0/1`, `0` — one end-of-vector per missing allele slot.
(The unfixed writer emitted `02 81 04 81` for `0/1`, one byte too many, and the eager reader then
returned `0/1/1`, `0`, `` — a silently different record.) -/
example : writeGenotypeValues [some [(some 0, false), (some 1, false), (some 1, false)],
      some [(some 0, false), (some 1, false)], some [(some 0, false)]]
    = .ok [0x31, 0x02, 0x04, 0x04, 0x02, 0x04, 0x81, 0x02, 0x81, 0x81] := rfl

/-- `0|.`: the missing allele keeps its phase bit (the unfixed writer emitted `02 00` = `0/.`). -/
example : writeGenotypeValues [some [(some 0, false), (none, true)]] = .ok [0x21, 0x02, 0x01] :=
  rfl

end Noodles.Props.C10
