import Noodles.Props.C06Lazy
import Noodles.Props.C06File
import Noodles.Sam.Record
import Noodles.Sam.Header
import Noodles.Sam.Bam
import Noodles.Sam.RecordProof
import Noodles.Sam.HeaderProof
import Noodles.Sam.BamProof
import Noodles.Sam.LazyProof
/-!
# C06 — SAM text records and headers round-trip; SAM and BAM carry the same content

Models: `Noodles/Sam/Record.lean` (record writer + `RecordBuf` parser), `Noodles/Sam/Header.lean`
(header writer + parser), `Noodles/Sam/Bam.lean` (BAM record normal form, BAM header block),
`Noodles/Sam/Num.lean` (lexical-core integer syntax). Helper lemmas: `Noodles/Sam/*Proof.lean`.

Quantifiers are unbounded: every dictionary of valid reference names, every `RecordBuf`
(`WellTyped` = the ranges of the Rust field types and `Data`'s distinct tags), every float
library satisfying `FloatFmt.Lawful` (the law is validated against lexical-core / `Display` on
every run).

What the statements exclude, and why (each with a checked witness below):
* a lone quality score 9 on a one-base read prints as QUAL `*`, which SAM text defines as
  "no qualities" — the text cannot carry that record (`qual9_not_representable`);
* reserved FLAG bits (`0x1000`…`0x8000`, reachable only through `Flags::from_bits_retain`) are
  dropped by `Flags::from(u16)` on every read path (`reserved_flag_bits_dropped`);
* non-finite `B:f` elements: `f` fields are refused by the writer, array elements are not, and
  `NaN ≠ NaN`, so they are outside the SAM data model (`[-+]?[0-9]*\.?[0-9]+([eE][-+]?[0-9]+)?`).
-/
namespace Noodles.Props.C06
open Noodles.Sam

/-- a float library for closed examples that involve no float -/
def F0 : FloatFmt := ⟨fun _ => [], fun _ => [], fun _ => none⟩

/-- **Text round trip.** Every record the writer accepts is read back equal, integer tags compared
by numeric value (`numNorm`). -/
theorem sam_roundtrip (F : FloatFmt) (hF : F.Lawful) (refs : List Bytes) (hv : ValidRefs refs)
    (r : Rec) (hw : WellTyped r) (hfin : FiniteArrays r) (hflags : r.flags < 4096)
    (hq : r.qual ≠ [9]) (l : Bytes) (h : samWrite F refs r = .ok l) :
    samParse F refs l = .ok (numNorm r) :=
  samParse_samWrite F hF refs hv r hw hfin hflags hq l h

/-- **Fixed point.** Parsing noodles' own output and writing it again reproduces it byte for byte
(no exclusion of the quality-9 record here: it and its image print the same line). -/
theorem sam_fixed_point (F : FloatFmt) (hF : F.Lawful) (refs : List Bytes) (hv : ValidRefs refs)
    (r : Rec) (hw : WellTyped r) (hfin : FiniteArrays r) (hflags : r.flags < 4096)
    (l : Bytes) (h : samWrite F refs r = .ok l) :
    ∃ r', samParse F refs l = .ok r' ∧ samWrite F refs r' = .ok l := by
  by_cases hq : r.qual = [9]
  · have h0 := samWrite_qual9 F refs r hq l h
    have hw0 : WellTyped { r with qual := [] } := ⟨hw.flags, hw.mapq, hw.tlen, hw.ops, hw.data, hw.tags⟩
    refine ⟨numNorm { r with qual := [] }, ?_, ?_⟩
    · exact samParse_samWrite F hF refs hv _ hw0 hfin hflags (by simp) l h0
    · rw [samWrite_numNorm]; exact h0
  · exact ⟨numNorm r, samParse_samWrite F hF refs hv r hw hfin hflags hq l h,
      by rw [samWrite_numNorm]; exact h⟩

/-- Writing does not depend on the storage width of integer tags (so `numNorm` loses nothing that
the text carries). -/
theorem sam_write_width_blind (F : FloatFmt) (refs : List Bytes) (r : Rec) :
    samWrite F refs (numNorm r) = samWrite F refs r :=
  samWrite_numNorm F refs r

/-- **SAM ≡ BAM (records).** A record accepted by both writers reads back from BAM as it reads
back from SAM, up to BAM's 16-letter upper-case base alphabet (`bamBase`); `CG` is BAM's own tag
and is excluded. -/
theorem sam_bam_agree (F : FloatFmt) (hF : F.Lawful) (refs : List Bytes) (hv : ValidRefs refs)
    (r : Rec) (hw : WellTyped r) (hfin : FiniteArrays r) (hflags : r.flags < 4096)
    (hq : r.qual ≠ [9]) (hcg : ∀ p ∈ r.data, p.1 ≠ CG)
    (l : Bytes) (hs : samWrite F refs r = .ok l) (rb : Rec) (hb : bamRoundTrip refs.length r = .ok rb) :
    ∃ rs, samParse F refs l = .ok rs ∧ numNorm rb = { rs with seq := rs.seq.map bamBase } := by
  refine ⟨numNorm r, samParse_samWrite F hF refs hv r hw hfin hflags hq l hs, ?_⟩
  unfold bamRoundTrip at hb
  split at hb
  · simp only [Except.ok.injEq] at hb
    subst hb
    have hf : r.data.filter (fun p => p.1 != CG) = r.data := by
      rw [List.filter_eq_self]
      intro p hp
      simpa using hcg p hp
    simp [numNorm, hf, Nat.mod_eq_of_lt hflags]
  · cases hb

/-- … and exactly equal when the bases already are in the BAM alphabet. -/
theorem sam_bam_agree_exact (F : FloatFmt) (hF : F.Lawful) (refs : List Bytes) (hv : ValidRefs refs)
    (r : Rec) (hw : WellTyped r) (hfin : FiniteArrays r) (hflags : r.flags < 4096)
    (hq : r.qual ≠ [9]) (hcg : ∀ p ∈ r.data, p.1 ≠ CG) (hbases : ∀ b ∈ r.seq, b ∈ bamAlphabet)
    (l : Bytes) (hs : samWrite F refs r = .ok l) (rb : Rec) (hb : bamRoundTrip refs.length r = .ok rb) :
    samParse F refs l = .ok (numNorm rb) := by
  obtain ⟨rs, h1, h2⟩ := sam_bam_agree F hF refs hv r hw hfin hflags hq hcg l hs rb hb
  have hrs : rs = numNorm r :=
    Except.ok.inj ((h1.symm).trans (samParse_samWrite F hF refs hv r hw hfin hflags hq l hs))
  have hid : ∀ b ∈ bamAlphabet, bamBase b = b := by decide
  have hmap : rs.seq.map bamBase = rs.seq := by
    rw [hrs]
    show r.seq.map bamBase = r.seq
    conv => rhs; rw [← List.map_id r.seq]
    exact List.map_congr_left fun b hb' => hid b (hbases b hb')
  rw [h1, h2, hmap]

/-! ### the lazy `sam::Record` view (as fixed by /repo commit 3068e42) -/

/-- **Lazy = eager on the optional fields.** For the optional-field section the writer emits, the
lazy iterator of `sam::Record::data()` (`Lazy.lean`, with the fixed array framing) and the eager
`parse_data` read the same fields, integer tags compared by value (the lazy view types every
integer `Int32`/`UInt32`, the eager one picks the narrowest type). `fs` are the written fields;
the section after QUAL's TAB is `join 9 fs`. -/
theorem sam_lazy_data_agrees (F : FloatFmt) (hF : F.Lawful) (hne : ∀ x, F.fmtA x ≠ [])
    (r : Rec) (hw : WellTyped r) (hfin : FiniteArrays r) (d : Bytes)
    (h : writeData F r.data = .ok d) :
    ∃ fs, d = fs.flatMap (fun f => 9 :: f) ∧
      (lazyData F ((Noodles.Text.join 9 fs).length + 1) (Noodles.Text.join 9 fs)).toOption.map normData
        = some (normData r.data) ∧
      parseData F (dataFields (Noodles.Text.join 9 fs)) [] = .ok (normData r.data) := by
  obtain ⟨fs, e1, e2, e3⟩ := lazyData_writeData F hF hne r.data d h hw.data hfin
  obtain ⟨fs', e1', e2', e3'⟩ := writeData_spec F hF r.data d h hw.data hfin
  have hsame : fs = fs' := by
    cases fs with
    | nil =>
      cases fs' with
      | nil => rfl
      | cons g gs => rw [e1] at e1'; simp at e1'
    | cons f rest =>
      cases fs' with
      | nil => rw [e1'] at e1; simp at e1
      | cons g gs =>
        have a := flatMap_tab (f :: rest) (by simp)
        have b := flatMap_tab (g :: gs) (by simp)
        have : Noodles.Text.join 9 (f :: rest) = Noodles.Text.join 9 (g :: gs) := by
          have := e1.symm.trans e1'
          rw [a, b] at this
          exact List.tail_eq_of_cons_eq this
        rw [← dataFields_join (f :: rest) e2, ← dataFields_join (g :: gs) e2', this]
  subst hsame
  refine ⟨fs, e1, ?_, ?_⟩
  · rw [e3 _ (by omega)]
    show some (normData (lazyNormData r.data)) = _
    congr 1
    simp only [normData, lazyNormData, List.map_map]
    apply List.map_congr_left
    intro p hp
    simp [numNormV_lazyNormV p.2 (hw.data p hp)]
  · rw [dataFields_join fs e2]
    have := e3' [] (by simpa using hw.tags)
    simpa using this

/-- the text the defect was about: an empty array that is not the last field
(`XB:B:c<TAB>NH:i:1`). With the fixed framing both fields are read. -/
theorem lazy_empty_array_mid_line :
    (lazyData F0 14 [88, 66, 58, 66, 58, 99, 9, 78, 72, 58, 105, 58, 49]).toOption
      = some [((88, 66), .iarr .i8 []), ((78, 72), .int .i32 1)] := by
  decide

/-! ### headers -/

/-- **Header round trip.** Every header value the writer accepts (`HdrWF` = the invariants of the
Rust types, and comments that fit on a line) is read back equal: `@HD` fields, the reference
sequence dictionary, read groups, programs and comments, each with its other fields in order. -/
theorem sam_header_roundtrip (h : Hdr) (hwf : HdrWF h) (text : Bytes)
    (hw : headerWrite h = .ok text) : headerParse text = .ok h :=
  headerParse_headerWrite h hwf text hw

/-- **Header fixed point.** Parsing noodles' own header text and writing it again reproduces it
byte for byte. (Foreign text is *not* claimed to be reproduced: the writer emits `@HD`, `@SQ`,
`@RG`, `@PG`, `@CO` in that order with `SN`/`LN`/`ID`/`VN` first.) -/
theorem sam_header_fixed_point (h : Hdr) (hwf : HdrWF h) (text : Bytes)
    (hw : headerWrite h = .ok text) :
    ∃ h', headerParse text = .ok h' ∧ headerWrite h' = .ok text :=
  ⟨h, headerParse_headerWrite h hwf text hw, hw⟩

/-- **BAM header round trip** (byte level): magic, `l_text`, the SAM text, `n_ref` and the binary
reference list are read back to the same header value, and exactly the header block is consumed
(`rest` = the records that follow). The text's `@SQ` dictionary and the binary list agree by
construction, so the reader's cross-check passes. -/
theorem bam_header_roundtrip (h : Hdr) (hwf : HdrWF h) (bytes : Bytes)
    (hw : bamHeaderWrite h = .ok bytes) (rest : Bytes) :
    bamHeaderRead (bytes ++ rest) = .ok (h, rest) :=
  bamHeaderRead_bamHeaderWrite h hwf bytes hw rest

/-- **SAM ≡ BAM (headers).** The same header written as SAM text and as a BAM header block reads
back as the same value from both (reference dictionary, read groups, programs, comments). -/
theorem sam_bam_header_agree (h : Hdr) (hwf : HdrWF h) (text bytes rest : Bytes)
    (hs : headerWrite h = .ok text) (hb : bamHeaderWrite h = .ok bytes) :
    (bamHeaderRead (bytes ++ rest)).toOption.map (·.1) = (headerParse text).toOption := by
  rw [bamHeaderRead_bamHeaderWrite h hwf bytes hb rest, headerParse_headerWrite h hwf text hs]
  rfl

/-- the dictionary the record theorems quantify over is what a written header provides -/
theorem header_refs_valid (h : Hdr) (hwf : HdrWF h) (text : Bytes) (hw : headerWrite h = .ok text) :
    ValidRefs h.refs := by
  refine ⟨hwf.sqNames, ?_⟩
  intro n hn
  obtain ⟨l, hl, rfl⟩ := List.mem_map.mp hn
  exact headerWrite_sq_valid h text hw l hl

/-! ### witnesses for the exclusions (the full-strength statements are false without them) -/

def rQ9 : Rec :=
  { name := none, flags := 4, rid := none, pos := 0, mapq := 255, cigar := [], mrid := none,
    mpos := 0, tlen := 0, seq := [65], qual := [9], data := [] }

/-- `*\t4\t*\t0\t255\t*\t*\t0\t0\tA\t*`: the quality score 9 is read back as "absent" -/
theorem qual9_not_representable :
    (samWrite F0 [] rQ9).toOption.map (fun l => (samParse F0 [] l).toOption.map (·.qual))
      = some (some []) := by
  decide

/-- FLAG 4096 is written as `4096` and read back as 0 -/
theorem reserved_flag_bits_dropped :
    (samWrite F0 [] { rQ9 with flags := 4096, qual := [] }).toOption.map
      (fun l => (samParse F0 [] l).toOption.map (·.flags)) = some (some 0) := by
  decide

/-! ### non-vacuity -/

/-- the hypotheses of the record theorems are satisfiable: a mapped read with a mate on the same
reference, an integer tag and an integer array is well-typed and accepted by the writer. -/
example : (samWrite F0 [[115, 113, 48]]
    { name := some [114, 48], flags := 99, rid := some 0, pos := 100, mapq := 60,
      cigar := [⟨.M, 2⟩], mrid := some 0, mpos := 200, tlen := -50, seq := [65, 67],
      qual := [30, 31], data := [((78, 72), .int .u8 1), ((88, 66), .iarr .i16 [-1, 300])] }).toOption.isSome
    = true := by
  decide

example : ValidRefs [[115, 113, 48]] := ⟨by simp, by decide⟩

/-- a header with every section is well-formed and accepted by the writer -/
def hEx : Hdr :=
  { hd := some ⟨1, 6, [((83, 79), [120])]⟩, sq := [⟨[115, 113, 48], 8, [((77, 53), [97])]⟩],
    rg := [⟨[114, 103], []⟩], pg := [⟨[112, 103], [((80, 78), [120])]⟩], co := [[104, 105], []] }

example : (headerWrite hEx).toOption.isSome = true := by decide

example : HdrWF hEx where
  hd := by
    intro l e; cases e
    exact ⟨by decide, by decide, ⟨by decide, by decide⟩⟩
  sq := by
    intro l hl
    simp only [hEx, List.mem_singleton] at hl
    subst hl
    exact ⟨by decide, ⟨by decide, by decide⟩⟩
  sqNames := by decide
  rg := by
    intro l hl
    simp only [hEx, List.mem_singleton] at hl
    subst hl
    exact ⟨by decide, by decide⟩
  rgIds := by decide
  pg := by
    intro l hl
    simp only [hEx, List.mem_singleton] at hl
    subst hl
    exact ⟨by decide, by decide⟩
  pgIds := by decide
  co := by decide

end Noodles.Props.C06
