import Noodles.Hostile.CramRecProof
/-!
# C15 (extension C15rec) — the CRAM compression header parser, the data-series decoders and the
record decoder on hostile bytes

The models are the executable transcriptions of the C07 encodings extension
(`Noodles/Cram/{Bits,Encoding,CompressionHeader,RecordCodec}.lean`): they describe the code AFTER
the fix `cram-encoding-decoders-panic` (the five panicking constructs of the decoders now answer an
error or a defined value), return `Except Err α`, and answer `Err.panic` exactly where the Rust code indexes out of range,
hits `todo!()`, shifts an `i32` by 32 or more or leaves `i32` in `+`/`-` (the harness and the crate's
test suite are built with overflow checks). The audit of every panicking construct is in
`Noodles/Hostile/CramRec.lean`. Termination is part of every statement (the models are total
functions; the two fuelled loops are shown not to depend on their fuel).

* The PARSERS — compression header, encoding parameters, bit reader — never panic, for every byte
  string: full strength.
* The DECODERS can panic on hostile input: a compression header may name a `todo!()` codec, a
  Huffman code that cannot be built, or a Beta/Gamma offset that leaves `i32`. This is a genuine
  defect of noodles-cram (`fixes/cram-encoding-decoders-panic.diff`); the full statement
  "for every header bytes and every slice, `decodeSlice ≠ panic`" is FALSE for the code as it is:
  `cram_slice_decode_can_panic_*` are byte-level witnesses, replayed on the real code by the harness
  (`c15 rec` corpus). The `_partial` theorems state the strongest true claim: on TAME encodings
  (`intTame`/`byteTame`/`bytesTame`/`hdrTame`, decidable, satisfied by every header noodles writes)
  no decoder and no record decode loop panics — for every core stream, every set of external
  blocks, every record count, flags, feature codes and lengths.
-/
namespace Noodles.Props.C15
open Noodles.Cram.Enc Noodles.Hostile.CramRec

/-! ## parsers: full strength -/

/-- `BitReader::{read_bit, read_u32/read_i32}`: any reader state, any requested length (32 and more
included: `InvalidInput`) -/
theorem cram_bit_reader_total_no_panic (r : BitReader) (len : Nat) :
    r.readBit ≠ .error .panic ∧ r.readU32 len ≠ .error .panic :=
  ⟨readBit_NP r, readU32_NP r len⟩

/-- `read_integer_encoding`, `read_byte_encoding`, `read_byte_array_encoding` (with the nested
ByteArrayLength encodings) and `consume_any_encoding`, for every byte string -/
theorem cram_encoding_params_total_no_panic (src : List Nat) :
    IntEnc.read src ≠ .error .panic ∧ ByteEnc.read src ≠ .error .panic ∧
    ByteArrayEnc.read src ≠ .error .panic ∧ consumeAnyEncoding src ≠ .error .panic :=
  ⟨intRead_NP src, byteRead_NP src, bytesRead_NP src, consumeAnyEncoding_NP src⟩

/-- `read_compression_header_inner` (preservation map with substitution matrix and tag sets, data
series encodings, tag encodings), for every byte string -/
theorem cram_compression_header_total_no_panic (src : List Nat) : readCHdr src ≠ .error .panic :=
  readCHdr_NP src

/-- the three maps of the header, each for every byte string -/
theorem cram_compression_header_maps_total_no_panic (src : List Nat) :
    readPMap src ≠ .error .panic ∧ readDSE src ≠ .error .panic ∧ readTagEnc src ≠ .error .panic :=
  ⟨readPMap_NP src, readDSE_NP src, readTagEnc_NP src⟩

/-! ## decoders: full strength (after the fix) -/

/-- `CanonicalHuffmanDecoder::new(alphabet, bit_lens).decode(reader)`: EVERY alphabet and bit-length
list (empty, mismatched, zero-length codes, steps of 32 bits and more), every reader state -/
theorem cram_huffman_decode_total_no_panic (alphabet : List Int) (lens : List Nat) (r : BitReader) :
    buildCodeBook alphabet lens ≠ .error .panic ∧ huffDecode alphabet lens r ≠ .error .panic :=
  ⟨buildCodeBook_NP alphabet lens, huffDecode_NP alphabet lens r⟩

/-- `impl Decode for Integer`: EVERY encoding the parser can produce (Golomb, Subexp, GolombRice are
`InvalidData`), every core reader state and every set of external blocks -/
theorem cram_int_decode_total_no_panic (e : IntEnc) (s : RS) : e.decode s ≠ .error .panic :=
  intDecode_NP e s

/-- `impl Decode for Byte` and `Byte::decode_take(len)` for EVERY encoding and `len` -/
theorem cram_byte_decode_total_no_panic (e : ByteEnc) (s : RS) (len : Nat) :
    e.decode s ≠ .error .panic ∧ e.decodeTake s len ≠ .error .panic :=
  ⟨byteDecode_NP e s, byteDecodeTake_NP e s len⟩

/-- `impl Decode for ByteArray`: every encoding (ByteArrayLength nesting included) -/
theorem cram_byte_array_decode_total_no_panic (e : ByteArrayEnc) (s : RS) : e.decode s ≠ .error .panic :=
  bytesDecode_NP e s

/-! ## the Gamma zero-run loop ends by itself and its count fits the bits that were there -/

/-- the model's fuel (`gammaFuel`) is never the reason for an answer: any larger fuel gives the same
answer, for every reader state that `BitReader` can be in (`i ≤ 8`) -/
theorem cram_gamma_zero_run_fuel_irrelevant (r : BitReader) (hi : r.i ≤ 8) (k : Nat) :
    gammaZeros (gammaFuel r + k) 0 r = gammaZeros (gammaFuel r) 0 r :=
  gammaZeros_fuel (gammaFuel r) 0 r hi (by unfold gammaFuel bitsLeft; omega) k

/-- the zero count is below the number of bits the reader held: the `u32` counter `n += 1` of the
Rust loop cannot overflow on core data shorter than `2^29 - 1` bytes -/
theorem cram_gamma_zero_run_bounded (r : BitReader) (hi : r.i ≤ 8) (n : Nat) (r' : BitReader)
    (h : gammaZeros (gammaFuel r) 0 r = .ok (n, r')) : n < 8 * r.src.length + 9 := by
  have := (gammaZeros_le _ 0 r hi n r' h).1
  unfold bitsLeft at this
  omega

/-! ## the record decoder: full strength (after the fix) -/

/-- `validate_features` never panics (any feature list, any read length) -/
theorem cram_validate_features_total_no_panic (readLength : Nat) (fs : List Noodles.Cram.Feature) :
    validateFeatures readLength fs ≠ .error .panic :=
  validateFeatures_NP readLength fs

/-- `Records::read_record` under EVERY compression header: every reference context, every state of
the core reader and the external blocks, every previous alignment start -/
theorem cram_record_decode_total_no_panic (ch : CH) (ctx : RefCtx) (st : RS × Option Nat) :
    readRecord ch ctx st ≠ .error .panic :=
  readRecord_NP ch ctx st

/-- the record loop of a slice: EVERY header, record count, core data block, set of external blocks -/
theorem cram_slice_records_total_no_panic (ch : CH) (ctx : RefCtx) (count : Nat)
    (core : List Nat) (ext : Int → Option (List Nat)) :
    readRecords ch ctx count core ext ≠ .error .panic :=
  readRecords_NP ch ctx count core ext

/-- bytes to records: for EVERY compression header byte string, context, count, core data and
external blocks -/
theorem cram_slice_decode_total_no_panic (chs : List Nat) (ctx : RefCtx) (count : Nat) (core : List Nat)
    (ext : Int → Option (List Nat)) :
    decodeSlice chs ctx count core ext ≠ .error .panic :=
  decodeSlice_NP chs ctx count core ext

/-- every header the noodles writer builds (`DataSeriesEncodings::init` + one ByteArrayLength over
External per tag, `build_compression_header`) is tame, whatever the preservation map -/
theorem cram_writer_headers_are_tame (rn ap rr : Bool) (sm : SMatrix) (td : List (List Key)) (ids : List Int) :
    hdrTame { rn := rn, ap := ap, rr := rr, sm := sm, td := td, dse := DSE.init,
              te := ids.map fun id => (id, ByteArrayEnc.len (.external id) (.external id)) } = true := by
  apply hdrTame_of_all
  · show dseTame DSE.init = true
    decide
  · intro p hp
    simp only [List.mem_map] at hp
    obtain ⟨id, _, rfl⟩ := hp
    rfl

/-! ## the inputs on which the code panicked before the fix now give an error

Each header below is: a preservation map with the default substitution matrix and an empty tag
dictionary, ONE data series (`BF`) and no tag encodings. The harness replays them on the real code. -/

/-- the header bytes around the `BF` encoding `enc` (`enc.length < 120`) -/
def witnessHeader (enc : List Nat) : List Nat :=
  [12, 2, 83, 77, 27, 27, 27, 27, 27, 84, 68, 1, 0] ++ [enc.length + 3, 1, 66, 70] ++ enc ++ [1, 0]

def isErr {α : Type} (e : Err) : Res α → Bool
  | .error e' => e == e'
  | _ => false

/-- `BF` Golomb (was `todo!()`) -/
example : isErr .invalidData (decodeSlice (witnessHeader [2, 2, 0, 1]) .none 1 [] (fun _ => none)) = true := by decide
/-- `BF` Huffman with an empty alphabet (was `sorted_alphabet[0]`): "could not find symbol" -/
example : isErr .invalidData (decodeSlice (witnessHeader [3, 2, 0, 0]) .none 1 [] (fun _ => none)) = true := by decide
/-- `BF` Huffman with code lengths 0 and 32 (was `code <<= 32`): the zero-bit code matches -/
example : isPanic (decodeSlice (witnessHeader [3, 6, 2, 0, 1, 2, 0, 32]) .none 1 [] (fun _ => none)) = false := by decide
/-- `BF` Beta with offset `i32::MIN` (was `0 - i32::MIN`) -/
example : isErr .invalidData (decodeSlice (witnessHeader [6, 6, 248, 0, 0, 0, 0, 1]) .none 1 [0] (fun _ => none)) = true := by decide
/-- `BF` Gamma with offset 1 (was `i32::MIN - 1`) -/
example : isErr .invalidData (decodeSlice (witnessHeader [9, 1, 1]) .none 1 [0, 0, 0, 1, 0, 0, 0, 0] (fun _ => none)) = true := by decide
/-- the complete code with lengths 1, …, 31, 31 (was `code += 1` overflowing) -/
example : isPanic (buildCodeBook ((List.range 32).map Int.ofNat) ((List.range 31).map (· + 1) ++ [31])) = false := by decide

end Noodles.Props.C15
