import Noodles.Cram.Fqz
import Noodles.Cram.FqzArrayProof
import Noodles.Cram.FqzParamProof
import Noodles.Cram.FqzEncProof
import Noodles.Cram.FqzCodecProof
import Noodles.Cram.FqzTopProof
import Noodles.Cram.FqzDeadProof
import Noodles.Props.C08Aac
/-!
# C08 (extension) — the fqzcomp quality codec decodes exactly what it encoded

Model: `Noodles/Cram/Fqz.lean` — `noodles-cram/src/codecs/fqzcomp` transcribed, encoder AND decoder:
the run-length coded parameter tables (`write_array` / `read_array`), the parameter block
(`fqz_encode_params` / `fqz_decode_params`), `build_parameters`, the record layout validation, the
encoder's main loop (generic over its `Parameters`, every `todo!()` an outcome of its own), and the
COMPLETE decoder (parameter selectors and selector table, several parameter sets, fixed-length
records, duplicates, reversed records, quality maps, q / p / d tables, the hardened checks of
commit a70dc96). The adaptive model and the range coder are those of `Noodles/Cram/Aac.lean`; the
round trip is proved ON TOP of `aac_symbol_sync` (`Aac.Sync`), there is no new assumption. Helper
lemmas: `FqzArrayProof`, `FqzParamProof`, `FqzEncProof`, `FqzCodecProof`, `FqzTopProof`,
`FqzDeadProof`.

What noodles' ENCODER can emit (`fqz_encoder_parameter_set`): exactly one parameter set, no global
flag; context 0; `HAVE_PTAB`, plus `DO_LEN` when all records have one length; `q_bits` 9,
`q_shift` 5, `q_loc` 7, `s_loc` 15, `p_loc` 0, `d_loc` 15; the position table `min(127, i >>
(lens[0] > 128))`; the identity quality table (not written). Everything else of the format —
MULTI_PARAM, HAVE_S_TAB / selectors (DO_SEL), DO_REV, DO_DEDUP, HAVE_QMAP, HAVE_QTAB, HAVE_DTAB —
only the DECODER understands (in `encode.rs` they are `todo!()`); those decoder paths are inside
the model (and inside `fqz_decoder_never_traps`), and are tied to the code by the correspondence on
hand-made streams.

Two statements one would like are FALSE of the current code and are stated in their true form:
* `fqz_array_roundtrip` for EVERY nondecreasing byte table is false (`…_full_strength_false`):
  `read_array` starts with `last = 0` where `write_array` (and the reference implementation)
  start with −1, so a table without the value 0 is misread; and a table whose largest value fills
  a multiple of 255 entries is written with a final part 0 that `read_array` never reads — and
  then misses (the reference implementation shares this one). Neither table is ever written by
  noodles' encoder (`fqz_array_encoder_tables`); both witnesses are in the harness corpus
  (`q-table-without-value-0`, `q-table-last-run-255`) and the real decoder rejects them as the
  model does.
* "the encoder answers for every input" is false by design since commit c3b9b4a: exactly the
  invalid record layouts are refused (`fqzcomp_encode_total_or_refuses`).
-/
namespace Noodles.Props.C08
open Noodles.Cram Noodles.Cram.Aac Noodles.Cram.Fqz

/-! ## 1. the run-length coded tables -/

/-- **`fqz_array_roundtrip` (partial).** `read_array(write_array(t)) = t`, and the reader stops
exactly at the end of the table's encoding (whatever follows), for every table that is a
nondecreasing byte table (`ArrayOk`), is empty or STARTS WITH THE VALUE 0, and whose largest value
does NOT fill a multiple of 255 entries. This covers the value-255 continuation of a run length
(a run of 255·k + r entries is k parts 255 and a part r), the second-level "repeat count" coding
of equal parts, empty runs (skipped values) and the decoder's limit on the number of parts.

FULL-STRENGTH STATEMENT (false, see `fqz_array_roundtrip_full_strength_false`):
`∀ data, (∀ x ∈ data, x < 256) → data.Pairwise (· ≤ ·) →
   ∃ w, writeArray data = .ok w ∧ readArray data.length w = .ok (data, [])`. -/
theorem fqz_array_roundtrip_partial (data rest : List Nat) (h : ArrayOk data) :
    ∃ w, writeArray data = .ok w ∧ readArray data.length (w ++ rest) = .ok (data, rest) :=
  readArray_writeArray data rest h

attribute [local instance] exceptDecEq

/-- the full-strength statement is FALSE, in both ways: the 256-entry table `1, 1, …, 1` (no value
0) is written as `00 ff 01` and read back as an error, and the table `0, 1, …, 1` (255 entries of
the largest value) is written as `01 ff 00` and read back as an error. Both streams are in the
harness corpus inside a q-table parameter block; the real `fqzcomp::decode` rejects them too. -/
theorem fqz_array_roundtrip_full_strength_false :
    ¬ (∀ data : List Nat, (∀ x ∈ data, x < 256) → data.Pairwise (· ≤ ·) →
        ∃ w, writeArray data = .ok w ∧ readArray data.length w = .ok (data, [])) ∧
    writeArray (List.replicate 256 1) = .ok [0, 255, 1] ∧
    readArray 256 [0, 255, 1] = .error .eof ∧
    writeArray (0 :: List.replicate 255 1) = .ok [1, 255, 0] ∧
    readArray 256 [1, 255, 0] = .error .invalidData := by
  have w1 : writeArray (List.replicate 256 1) = .ok [0, 255, 1] := by decide +kernel
  have r1 : readArray 256 [0, 255, 1] = .error .eof := by decide +kernel
  have w2 : writeArray (0 :: List.replicate 255 1) = .ok [1, 255, 0] := by decide +kernel
  have r2 : readArray 256 [1, 255, 0] = .error .invalidData := by decide +kernel
  refine ⟨fun h => ?_, w1, r1, w2, r2⟩
  obtain ⟨w, hw, hr⟩ := h (List.replicate 256 1) (by intro x hx; rw [List.mem_replicate] at hx; omega)
    (pairwise_of_sortedB _ (by decide +kernel))
  rw [w1] at hw
  simp only [Except.ok.injEq] at hw
  subst hw
  rw [List.length_replicate, r1] at hr
  cases hr

/-- the only table noodles' encoder writes — the position table `min(127, i >> s)`, `s` = 0 or 1,
1024 entries — IS one of the tables that round-trip (it starts with 0, and its last run has 897 =
3·255 + 132 resp. 770 = 3·255 + 5 entries) -/
theorem fqz_array_encoder_tables (s : Nat) (hs : s = 0 ∨ s = 1) :
    ArrayOk (buildPtab s) ∧ (buildPtab s).length = 1024 :=
  buildPtab_ok s hs

/-- `read_array` on ANY input (the hardening of commit a70dc96): never an index panic; an answer has
exactly the `n` entries asked for -/
theorem fqz_read_array_total (n : Nat) (src : List Nat) :
    readArray n src ≠ .error .trap ∧ readArray n src ≠ .error .fuel ∧
    ∀ a rest, readArray n src = .ok (a, rest) → a.length = n :=
  ⟨(readArray_spec n src).1.1, (readArray_spec n src).1.2, fun a rest h => ((readArray_spec n src).2 a rest h).1⟩

/-! ## 2. the parameter block -/

/-- **`fqz_params_roundtrip`.** For EVERY `Parameters` value that the encoder's writer can write
(`Writable`: any global flags, one or up to 255 parameter sets under MULTI_PARAM, max selector and
selector table under HAVE_S_TAB, per set any context, any of RESERVED / DO_DEDUP / DO_LEN / DO_SEL /
HAVE_PTAB, symbol count 1..256, nibbles below 16, tables that round-trip) `fqz_decode_params` reads
back the same parameters (`toDec`: the decoder's representation — selector count, maximum symbol
count, the identity quality table) and stops exactly at the end of the block. -/
theorem fqz_params_roundtrip (P : EParams) (rest : List Nat) (h : P.Writable) :
    ∃ w, writeParams P = .ok w ∧ readParams (w ++ rest) = .ok (P.toDec, rest) :=
  readParams_writeParams P rest h

/-- **What the encoder emits.** `build_parameters` answers for every non-empty record list with ONE
fixed parameter set — `builtParams`: no global flag, context 0, flags `HAVE_PTAB` (+ `DO_LEN` iff
all lengths are equal), `q_bits` 9, `q_shift` 5, `q_loc` 7, `s_loc` 15, `p_loc` 0, `d_loc` 15,
identity quality table, position table `min(127, i >> (lens[0] > 128))`, symbol count = largest
quality + 1 — and that set is `Writable` (none of the `todo!()` of `fqz_encode_params` is reached). -/
theorem fqz_encoder_parameter_set (lens src : List Nat) (l0 : Nat) (h : lens.head? = some l0)
    (hb : ∀ q ∈ src, q < 256) :
    buildParameters lens src
      = .ok (builtParams (allEqual lens) (countSymbols src) (if l0 > 128 then 1 else 0)) ∧
    (builtParams (allEqual lens) (countSymbols src) (if l0 > 128 then 1 else 0)).Writable ∧
    (builtParams (allEqual lens) (countSymbols src) (if l0 > 128 then 1 else 0))
      = ⟨0, 0, List.replicate 256 0,
          [⟨0, 32 + (if allEqual lens then 4 else 0), countSymbols src, 9, 5, 7, 15, 0, 15, List.range 256,
            buildPtab (if l0 > 128 then 1 else 0)⟩], countSymbols src⟩ := by
  refine ⟨buildParameters_eq lens src l0 h, ?_, rfl⟩
  apply builtParams_writable
  · unfold countSymbols; omega
  · exact countSymbols_le src hb
  · split <;> simp

/-! ## 3. the context -/

/-- **`fqz_context_sync`.** For the parameter set the encoder builds, the encoder's context update
(`encUpdate`: `qlast`, `last`, `p` of `encode.rs`, with its `u8` shift of the position table entry)
and the decoder's (`updateCtx` = `fqz_update_context` on `record.q_ctx`, `record.pos`) are THE SAME
function `nextCtx` of the history (qualities left in the record, quality history, the quality
just coded): from equal histories both sides compute the same next context and the same next
history, for every quality byte. At a record start both sides start from (context 0, history 0)
(`encNewRecordEv` / `newRecord`). Along any input the two context sequences are therefore equal —
which `fqzcomp_roundtrip` uses at every quality. -/
theorem fqz_context_sync (fixed : Bool) (nsym pshift p qlast q : Nat) (r : Rec) (hq : q < 256)
    (hp : r.pos = p) (hh : r.qctx = qlast) :
    encUpdate (builtParam fixed nsym pshift) p qlast q = .ok (nextCtx pshift p qlast q) ∧
    updateCtx (builtParam fixed nsym pshift).toDec q r
      = .ok ((nextCtx pshift p qlast q).1, { r with qctx := (nextCtx pshift p qlast q).2 }) ∧
    (nextCtx pshift p qlast q).1 < 65536 := by
  subst hp hh
  exact ⟨encUpdate_built fixed nsym pshift r.pos r.qctx q hq, updateCtx_built fixed nsym pshift q r hq,
    nextCtx_lt _ _ _ _⟩

/-! ## 4. events, lengths, the loop -/

/-- The encoder's main loop CODES A LIST OF EVENTS: whenever the event list exists (`encEvents`,
the loop without models and coder: no `todo!()`, no index panic), `encLoop` is exactly
`Aac.encSyms` over those (model index, symbol) pairs in order — which is what the symbol-sync
lemmas of the arithmetic coder speak about. -/
theorem fqz_encoder_codes_events (P : EParams) (src : List Nat) (ms : Array Model) (e : Enc) (st : ESt)
    (evs : List (Nat × Nat)) (h : encEvents P st src = .ok evs) :
    encLoop P ms e st src = match encSyms ms.toList e evs with
      | none => .error .trap
      | some (l, e') => .ok (l.toArray, e') :=
  encLoop_eq P src ms e st evs h

/-- **Record length coding.** The four events of `encode_length` (the bytes of the length, in the
four length models) are read back by `read_length` as the same length, for every length below
`2^32`, and the coders stay in step. -/
theorem fqz_length_sync (B : List Nat) (ms : Array Model) (e : Enc) (d : Dec) (len : Nat)
    (evs : List (Nat × Nat)) (h32 : len < 2 ^ 32) (h : Sync B ms.toList e d (lenEvents len ++ evs)) :
    ∃ ms' d' e', readLength ms d = .ok (len, ms', d') ∧ Sync B ms'.toList e' d' evs :=
  readLength_sync B ms e d len evs h32 h

/-- **The decoder's main loop in step with the encoder's events**: from encoder loop variables and
a decoder record state that agree (position, history, context, record number, fixed length), with
the coders in step for the events of the remaining qualities `src`, the loop decodes exactly `src`
(record starts with or without a coded length, the fixed-length flag, positions beyond the table,
everything). -/
theorem fqz_decoder_loop_sync (fixed : Bool) (nsym pshift n : Nat) (B : List Nat) (src : List Nat)
    (st : ESt) (evs : List (Nat × Nat)) (ms : Array Model) (e : Enc) (d : Dec) (r : Rec)
    (ctx lastLen i : Nat) (revLen : List (Bool × Nat)) (out : List Nat) (fuel : Nat)
    (hev : encEvents (builtParams fixed nsym pshift) st src = .ok evs) (hs : Sync B ms.toList e d evs)
    (hb : ∀ q ∈ src, q < 256) (h1 : r.pos = st.p) (h2 : r.qctx = st.qlast) (h3 : r.isDup = false)
    (h4 : r.recNo = st.recNum) (h5 : st.x = 0) (h6 : 0 < st.p → ctx = st.last ∧ st.last < 65536)
    (h7 : ∀ l ∈ st.lensRest, 0 < l ∧ l < 2 ^ 32)
    (h8 : fixed = true → ∃ c, (∀ l ∈ st.lensRest, l = c) ∧ (0 < st.recNum → lastLen = c))
    (h9 : st.p + st.lensRest.sum = src.length) (h10 : i + src.length = n) (h11 : src.length ≤ fuel) :
    ∃ st', decLoop (builtDec fixed nsym pshift) n fuel ⟨ms, d, r, 0, ctx, lastLen, i, revLen, out⟩ = .ok st' ∧
      st'.out = src.reverse ++ out :=
  decLoop_sync fixed nsym pshift n B src st evs ms e d r ctx lastLen i revLen out fuel hev hs hb h1 h2 h3 h4
    h5 h6 h7 h8 h9 h10 h11

/-! ## 5. the codec -/

/-- the record layout `encode` insists on (commit c3b9b4a) -/
def FqzValidLayout (lens src : List Nat) : Prop :=
  lens ≠ [] ∧ (∀ l ∈ lens, 0 < l) ∧ lens.sum = src.length

theorem fqz_valid_layout_iff (lens src : List Nat) :
    validLayout lens src = true ↔ FqzValidLayout lens src := by
  simp only [validLayout, Bool.and_eq_true, Bool.not_eq_true', List.isEmpty_eq_false_iff,
    List.all_eq_true, decide_eq_true_eq, FqzValidLayout, and_assoc]

/-- **`fqzcomp_roundtrip`.** For EVERY list of record lengths and EVERY byte string: whatever
`fqzcomp::encode(lens, src)` returns, `fqzcomp::decode` returns `src` — one record or many, fixed or
variable lengths, lengths 1 and beyond the 1023-entry position table, any alphabet, any total size
below 4 GiB. Proved on top of the arithmetic coder's symbol-sync lemmas; no assumption. -/
theorem fqzcomp_roundtrip (lens src enc : List Nat) (hb : ∀ q ∈ src, q < 256)
    (h : Fqz.encode lens src = .ok enc) : Fqz.decode enc = .ok src :=
  Fqz.decode_encode lens src enc hb h

/-- **`fqzcomp_encode_total_or_refuses`.** `encode` answers EXACTLY for the valid record layouts (at
least one record, no empty record, lengths adding up to the input; below 4 GiB) — no `todo!()`, no
index panic, no overflow is reachable, the answer decodes to the input — and refuses every other
input with `InvalidInput`. -/
theorem fqzcomp_encode_total_or_refuses (lens src : List Nat) (hb : ∀ q ∈ src, q < 256) :
    (FqzValidLayout lens src ∧ src.length < 2 ^ 32 →
      ∃ enc, Fqz.encode lens src = .ok enc ∧ Fqz.decode enc = .ok src) ∧
    (¬ (FqzValidLayout lens src ∧ src.length < 2 ^ 32) → Fqz.encode lens src = .error .invalidInput) := by
  constructor
  · rintro ⟨hv, h32⟩
    obtain ⟨enc, he⟩ := Fqz.encode_total lens src hb ((fqz_valid_layout_iff lens src).mpr hv) h32
    exact ⟨enc, he, Fqz.decode_encode lens src enc hb he⟩
  · intro hn
    unfold Fqz.encode
    cases hv : validLayout lens src with
    | false => rfl
    | true =>
      have h32 : ¬ src.length < 2 ^ 32 := fun h => hn ⟨(fqz_valid_layout_iff lens src).mp hv, h⟩
      simp only [Bool.not_true, Bool.false_eq_true, if_false, h32, not_false_eq_true, if_true]

/-! ## 6. the decoder on arbitrary input -/

/-- **`fqz_decoder_never_traps`.** On ANY byte string — corrupt streams included — the transcribed
decoder answers with data or with one of the real decoder's `io::Error`s (`UnexpectedEof`,
`InvalidData`): the two artificial outcomes of the model are dead. `trap` stands for every index /
slice / underflow panic the real decoder could have: `models.qual[ctx]`, the selector table, the
q / p / d tables, `params[x]`, `copy_record`, `reverse_qualities`, `record.pos -= 1`, `read_array`'s
lists; `fuel` for the loop budget (every iteration advances the output). -/
theorem fqz_decoder_never_traps (bs : List Nat) (hb : ∀ b ∈ bs, b < 256) :
    Fqz.decode bs ≠ .error .trap ∧ Fqz.decode bs ≠ .error .fuel :=
  Fqz.decode_clean bs hb

/-! ## non-vacuity -/

-- `ArrayOk` is satisfiable, and really is about the repeat-count and 255-continuation coding:
-- 600 zeros, then 7 ones
example : ArrayOk (List.replicate 600 0 ++ List.replicate 7 1) :=
  ⟨by decide +kernel, pairwise_of_sortedB _ (by decide +kernel), by decide +kernel, by decide +kernel⟩
example : writeArray (List.replicate 600 0 ++ List.replicate 7 1) = .ok [255, 255, 0, 90, 7] := by
  decide +kernel
example : readArray 607 [255, 255, 0, 90, 7, 99] = .ok (List.replicate 600 0 ++ List.replicate 7 1, [99]) := by
  decide +kernel
-- the position tables the encoder writes (`ff ff 01` = "255, 255, one more 255")
example : writeArray (buildPtab 0) = .ok [1, 1, 125, 255, 255, 1, 132] := by decide +kernel
example : writeArray (buildPtab 1) = .ok [2, 2, 125, 255, 255, 1, 5] := by decide +kernel
-- a table that is not nondecreasing: the real loop never ends
example : writeArray [1, 0] = .error .hang := by decide +kernel

-- `Writable` is satisfiable beyond what the encoder builds: two parameter sets with a selector
-- table, DO_SEL and DO_DEDUP — `fqz_params_roundtrip` is about more than one block
example : (⟨3, 1, List.replicate 128 0 ++ List.replicate 128 1,
    [⟨7, 2 + 8, 41, 8, 4, 7, 14, 0, 15, List.range 256, []⟩, ⟨0, 4, 4, 9, 5, 7, 15, 0, 15, List.range 256, []⟩], 41⟩
    : EParams).Writable := by
  refine ⟨by decide, by decide, fun _ => by decide, fun _ => by decide +kernel, fun _ => ?_, ?_⟩
  · exact ⟨by decide +kernel, pairwise_of_sortedB _ (by decide +kernel), by decide +kernel, by decide +kernel⟩
  · intro p hp
    simp only [List.mem_cons, List.not_mem_nil, or_false] at hp
    rcases hp with rfl | rfl <;>
      exact ⟨by decide, by decide, by decide, by decide, by decide, by decide, by decide, by decide, by decide,
        by decide, by decide, by decide, by decide, by decide +kernel, fun h => absurd h (by decide),
        fun h => absurd h (by decide)⟩

-- the hypothesis of `fqzcomp_roundtrip` is satisfiable (noodles' own unit-test input; the bytes
-- of its expected output are compared by the correspondence, `unit-test`)
example : ∃ enc, Fqz.encode [10, 10, 5]
    [0, 0, 0, 1, 1, 2, 1, 1, 0, 0, 0, 1, 2, 3, 3, 3, 3, 3, 3, 3, 2, 1, 1, 0, 0] = .ok enc := by
  apply Fqz.encode_total
  · decide
  · decide
  · simp only [List.length_cons, List.length_nil]; omega
-- … and the refusals are real
example : Fqz.encode [] [] = .error .invalidInput := by decide +kernel
example : Fqz.encode [0, 2] [5, 5] = .error .invalidInput := by decide +kernel
example : Fqz.encode [1] [5, 5] = .error .invalidInput := by decide +kernel

-- the context function on a concrete history: 3 qualities left, history 0x25, quality 7
example : nextCtx 0 3 0x25 7 = (((0x25 * 32 + 7) % 512) * 128 + 3, 0x25 * 32 + 7) := by decide

-- the decoder really runs on a hostile stream and answers with an error (a q table made of empty
-- runs, one of the witnesses of commit a70dc96)
example : Fqz.decode [0x01, 0x05, 0x00, 0x00, 0x00, 0x80, 0x00, 0x00, 0x00, 0x00, 0x00, 0xff, 0x00, 0xff]
    = .error .invalidData := by decide +kernel

end Noodles.Props.C08
