import Noodles.Props.C06File
import Noodles.Sam.LazyFile
import Noodles.Sam.LazyFileSpec
import Noodles.Sam.LazyFileProof
import Noodles.Sam.LazyFileLineProof
import Noodles.Sam.LazyFileFieldProof
import Noodles.Sam.LazyFileWrittenProof
import Noodles.Sam.LazyFileLoopProof
/-!
# C06, the LAZY reader at file level — `read_record` / `records()` → `sam::Record` → `RecordBuf`

Model: `Noodles/Sam/LazyFile.lean` (`readSamFileLazyB` = `read_header` (C06File) + the `records()`
loop = `IO.samRecordsAll` (C12: eleven `read_field`s from the `fill_buf` windows into one buffer +
bounds, `read_line` for the rest) + `RecordBuf::try_from_alignment_record` per record = the accessors
of `record/fields.rs` on the buffer slices + `Sam.lazyData`), closed form `LazyFileSpec.lean`, helper
lemmas `LazyFile{,Line,Field,Written,Loop}Proof.lean`.

Quantifiers as in `C06File.lean`: every well-formed header, every list of records the writer accepts,
every float library obeying `FloatFmt.Lawful` + `LineSafe` + "a printed `B:f` element is not empty"
(the hypothesis of `sam_lazy_data_agrees`), every `BufReader` capacity ≥ 1, EVERY `fill_buf` schedule.

`lazyView r` is `r` with every integer tag typed `Int32`/`UInt32` (what the lazy view yields);
`numNorm (lazyView r) = numNorm r`.
-/
namespace Noodles.Props.C06
open Noodles.Sam Noodles.Sam.File Noodles.Sam.LazyFile

/-- **Any capacity, any schedule = the closed form**, for the lazy reader. -/
theorem sam_file_lazy_reader_any_schedule (F : FloatFmt) (b : Noodles.IO.BufR UInt8) (hc : 0 < b.cap) :
    readSamFileLazyB F b = readSamFileLazy F b.stream :=
  readSamFileLazyB_eq_spec F b hc

theorem sam_file_lazy_schedule_irrelevant (F : FloatFmt) (b₁ b₂ : Noodles.IO.BufR UInt8)
    (h₁ : 0 < b₁.cap) (h₂ : 0 < b₂.cap) (hs : b₁.stream = b₂.stream) :
    readSamFileLazyB F b₁ = readSamFileLazyB F b₂ := by
  rw [readSamFileLazyB_eq_spec F b₁ h₁, readSamFileLazyB_eq_spec F b₂ h₂, hs]

/-- the lazy view loses nothing but the storage width of integers -/
theorem lazy_view_by_value (r : Rec) (hw : WellTyped r) : numNorm (lazyView r) = numNorm r :=
  numNorm_lazyView r hw.data

/-- **One written line through `read_record`**, followed by LF, CR LF or the end of the stream: one
record, nothing else consumed, and `try_from_alignment_record` gives the record written with integer
tags typed `Int32`/`UInt32`. -/
theorem sam_lazy_record_roundtrip (F : FloatFmt) (hF : F.Lawful) (hE : LineSafe F)
    (hne : ∀ x, F.fmtA x ≠ []) (refs : List Bytes) (hv : ValidRefs refs) (r : Rec) (ok : RecOk r)
    (l : Bytes) (h : samWrite F refs r = .ok l) (T rest : Bytes) (hT : Term T rest) :
    ∃ lr, samReadRecordS (l ++ T) = (.ok lr, rest) ∧ lr.len ≠ 0 ∧
      lazyToRec F refs lr = .ok (lazyView r) :=
  lazy_written_line' F hF hE hne refs hv r ok l h T rest hT

theorem forall₂_lazy (F : FloatFmt) (hF : F.Lawful) (hE : LineSafe F) (hne : ∀ x, F.fmtA x ≠ [])
    (refs : List Bytes) (hv : ValidRefs refs) (rs : List Rec) (ls : List Bytes)
    (hrs : ∀ r ∈ rs, RecOk r) (h : Forall₂ (fun r l => samWrite F refs r = .ok l) rs ls) :
    Forall₂ (LineReads F refs) ls (rs.map fun r => .ok (lazyView r)) := by
  induction h with
  | nil => exact .nil
  | @cons r l rs' ls' hw _ ih =>
    exact .cons (lineReads_written F hF hE hne refs hv r (hrs r (by simp)) l hw)
      (ih fun x hx => hrs x (List.mem_cons_of_mem _ hx))

/-- the written file: header lines, record lines, and every record line is read by the lazy reader
as the record written -/
theorem written_file_lazy_lines (F : FloatFmt) (hF : F.Lawful) (hE : LineSafe F)
    (hne : ∀ x, F.fmtA x ≠ []) (h : Hdr) (hwf : HdrWF h)
    (rs : List Rec) (hrs : ∀ r ∈ rs, RecOk r) (bytes : Bytes)
    (hw : writeSamFile F h rs = .ok bytes) :
    ∃ rls, bytes = unlinesWith [10] (hdrLines h) ++ unlinesWith [10] rls ∧
      Lines F (hdrLines h) rls h (rs.map numNorm) ∧
      Forall₂ (LineReads F h.refs) rls (rs.map fun r => .ok (lazyView r)) := by
  unfold writeSamFile at hw
  cases ht : headerWrite h with
  | error e => rw [ht] at hw; cases hw
  | ok text =>
    rw [ht] at hw
    cases hb : writeRecords F h.refs rs with
    | error e => rw [hb] at hw; cases hw
    | ok body =>
      rw [hb] at hw
      simp only [Except.ok.injEq] at hw
      obtain ⟨htext, _⟩ := headerWrite_spec h text ht
      obtain ⟨ls, hls, hall⟩ := writeRecords_spec F h.refs rs body hb
      have hv : ValidRefs h.refs := by
        refine ⟨hwf.sqNames, ?_⟩
        intro n hn
        obtain ⟨l, hl, rfl⟩ := List.mem_map.mp hn
        exact headerWrite_sq_valid h text ht l hl
      refine ⟨ls, ?_, ?_, forall₂_lazy F hF hE hne h.refs hv rs ls hrs hall⟩
      · rw [← hw, htext, hls]; rfl
      · exact ⟨hdrLines_good h hwf text ht, parseLines_hdrLines h hwf text ht,
          forall₂_recLine F hE h.refs hv rs ls hall, forall₂_parse F hF h.refs hv rs ls hrs hall⟩

/-- **File round trip through the lazy reader.** For every well-formed header and every list of
records the writer accepts, the SAM file the writer produces is read back by `read_header` +
`records()` + `RecordBuf::try_from_alignment_record` as the same header and the same records (integer
tags typed `Int32`/`UInt32`, i.e. equal by value: `lazy_view_by_value`), every conversion succeeds,
no error — through a `BufReader` of any capacity under every delivery schedule. -/
theorem sam_file_lazy_roundtrip (F : FloatFmt) (hF : F.Lawful) (hE : LineSafe F)
    (hne : ∀ x, F.fmtA x ≠ []) (h : Hdr) (hwf : HdrWF h)
    (rs : List Rec) (hrs : ∀ r ∈ rs, RecOk r) (bytes : Bytes) (hw : writeSamFile F h rs = .ok bytes)
    (b : Noodles.IO.BufR UInt8) (hc : 0 < b.cap) (hs : b.stream = bytes) :
    readSamFileLazyB F b = ⟨.ok h, rs.map fun r => .ok (lazyView r), none⟩ := by
  obtain ⟨rls, hb, hl, hp⟩ := written_file_lazy_lines F hF hE hne h hwf rs hrs bytes hw
  rw [readSamFileLazyB_eq_spec F b hc, hs, hb]
  have := readSamFileLazy_core F (.inl rfl) _ rls h _ hl _ hp [] [] none
    (fun fuel acc _ => ⟨[], by rw [lazy_end]; simp, rfl⟩)
    (head_unlinesWith [10] rls [] hl.rgood (by simp))
  simpa using this

/-- **CRLF**, lazy reader: the same file with every LF replaced by CR LF reads back the same (the CR
is popped off the last standard field by `read_field`, or off the optional fields by `read_line`). -/
theorem sam_file_lazy_roundtrip_crlf (F : FloatFmt) (hF : F.Lawful) (hE : LineSafe F)
    (hne : ∀ x, F.fmtA x ≠ []) (h : Hdr) (hwf : HdrWF h)
    (rs : List Rec) (hrs : ∀ r ∈ rs, RecOk r) (bytes : Bytes) (hw : writeSamFile F h rs = .ok bytes)
    (b : Noodles.IO.BufR UInt8) (hc : 0 < b.cap) (hs : b.stream = toCrlf bytes) :
    readSamFileLazyB F b = ⟨.ok h, rs.map fun r => .ok (lazyView r), none⟩ := by
  obtain ⟨rls, hb, hl, hp⟩ := written_file_lazy_lines F hF hE hne h hwf rs hrs bytes hw
  rw [readSamFileLazyB_eq_spec F b hc, hs, hb, toCrlf_append,
    toCrlf_unlines _ (fun l hl' => (hl.hgood l hl').2.1),
    toCrlf_unlines _ (fun l hl' hm => ((hl.rgood l hl').2.2 10 hm).1 rfl)]
  have := readSamFileLazy_core F (.inr rfl) _ rls h _ hl _ hp [] [] none
    (fun fuel acc _ => ⟨[], by rw [lazy_end]; simp, rfl⟩)
    (head_unlinesWith [13, 10] rls [] hl.rgood (by simp))
  simpa using this

/-- **A blank line after the data**, lazy reader: all records are returned, then `read_record` fails
with `InvalidData` (`unexpected EOL` in the first `read_required_field`) — as the eager reader. -/
theorem sam_file_lazy_trailing_blank_line (F : FloatFmt) (hF : F.Lawful) (hE : LineSafe F)
    (hne : ∀ x, F.fmtA x ≠ []) (h : Hdr) (hwf : HdrWF h)
    (rs : List Rec) (hrs : ∀ r ∈ rs, RecOk r) (bytes : Bytes) (hw : writeSamFile F h rs = .ok bytes)
    (b : Noodles.IO.BufR UInt8) (hc : 0 < b.cap) (hs : b.stream = bytes ++ [10]) :
    readSamFileLazyB F b = ⟨.ok h, rs.map fun r => .ok (lazyView r), some .invalidData⟩ := by
  obtain ⟨rls, hb, hl, hp⟩ := written_file_lazy_lines F hF hE hne h hwf rs hrs bytes hw
  rw [readSamFileLazyB_eq_spec F b hc, hs, hb]
  have := readSamFileLazy_core F (.inl rfl) _ rls h _ hl _ hp [10] [] (some .invalidData)
    (fun fuel acc _ => ⟨[], by rw [lazy_blank]; simp, rfl⟩)
    (head_unlinesWith [10] rls [10] hl.rgood (by simp))
  simpa using this

/-- **No final newline**, lazy reader (files with at least one record): the same file without its
last byte reads back the same — at the end of the stream `read_field` / `read_line` end the last
field without a terminator. -/
theorem sam_file_lazy_roundtrip_no_final_newline (F : FloatFmt) (hF : F.Lawful) (hE : LineSafe F)
    (hne : ∀ x, F.fmtA x ≠ []) (h : Hdr) (hwf : HdrWF h)
    (rs : List Rec) (hrs : ∀ r ∈ rs, RecOk r) (hne' : rs ≠ []) (bytes : Bytes)
    (hw : writeSamFile F h rs = .ok bytes)
    (b : Noodles.IO.BufR UInt8) (hc : 0 < b.cap) (hs : b.stream = dropFinalNewline bytes) :
    readSamFileLazyB F b = ⟨.ok h, rs.map fun r => .ok (lazyView r), none⟩ := by
  obtain ⟨rls, hb, hl, hp⟩ := written_file_lazy_lines F hF hE hne h hwf rs hrs bytes hw
  rw [readSamFileLazyB_eq_spec F b hc, hs, hb]
  rcases List.eq_nil_or_concat rls with rfl | ⟨rls', last, rfl⟩
  · cases rs with
    | nil => exact absurd rfl hne'
    | cons r rs' => cases hp
  · rw [List.concat_eq_append] at hl hp ⊢
    obtain ⟨rs', r, hrs', hpr', hr⟩ := hl.rparse.snoc_inv
    obtain ⟨items', item, hit, hp', hlast'⟩ := hp.snoc_inv
    have hlast : RecLine last := hl.rgood last (by simp)
    have H' : Lines F (hdrLines h) rls' h rs' :=
      ⟨hl.hgood, hl.hparse, fun l hl' => hl.rgood l (by simp [hl']), hpr'⟩
    have e : dropFinalNewline (unlinesWith [10] (hdrLines h) ++ unlinesWith [10] (rls' ++ [last]))
        = unlinesWith [10] (hdrLines h) ++ (unlinesWith [10] rls' ++ last) := by
      unfold dropFinalNewline
      rw [unlinesWith_append, unlinesWith_cons, unlinesWith_nil]
      simp only [List.append_nil]
      rw [← List.append_assoc, ← List.append_assoc, List.dropLast_concat, List.append_assoc]
    rw [e, hit]
    have hlen : 0 < last.length := List.length_pos_iff.mpr hlast.1
    refine readSamFileLazy_core F (.inl rfl) _ rls' h rs' H' items' hp' last [item] none ?_ ?_
    · intro fuel acc hf
      obtain ⟨k, rfl⟩ : ∃ k, fuel = k + 1 := ⟨fuel - 1, by omega⟩
      exact lazy_last F h.refs k acc last item hlast'
    · exact head_unlinesWith [10] rls' last H'.rgood hlast.2.1
/-- the eager result as the lazy reader would present it -/
def eagerAsLazy (o : Out) : LOut := ⟨o.hdr, o.recs.map fun r => .ok (lazyView r), o.err⟩

/-- **Lazy = eager at file level**, on the written file, its CRLF form, and with a blank line
appended: `records()` + conversion returns exactly what `record_bufs()` returns — the same header,
the same records (integers retyped `Int32`/`UInt32`), the same end of the loop. -/
theorem sam_file_lazy_eq_eager (F : FloatFmt) (hF : F.Lawful) (hE : LineSafe F)
    (hne : ∀ x, F.fmtA x ≠ []) (h : Hdr) (hwf : HdrWF h)
    (rs : List Rec) (hrs : ∀ r ∈ rs, RecOk r) (bytes : Bytes) (hw : writeSamFile F h rs = .ok bytes)
    (b : Noodles.IO.BufR UInt8) (hc : 0 < b.cap)
    (hs : b.stream = bytes ∨ b.stream = toCrlf bytes ∨ b.stream = bytes ++ [10]) :
    readSamFileLazyB F b = eagerAsLazy (readSamFileB F b) := by
  have hmap : (rs.map numNorm).map (fun r => (Except.ok (lazyView r) : Except LErr Rec))
      = rs.map fun r => .ok (lazyView r) := by
    rw [List.map_map]
    apply List.map_congr_left
    intro r _
    simp [lazyView_numNorm]
  rcases hs with hs | hs | hs
  · rw [sam_file_lazy_roundtrip F hF hE hne h hwf rs hrs bytes hw b hc hs,
      sam_file_roundtrip F hF hE h hwf rs hrs bytes hw b hc hs]
    simp only [eagerAsLazy, hmap]
  · rw [sam_file_lazy_roundtrip_crlf F hF hE hne h hwf rs hrs bytes hw b hc hs,
      sam_file_roundtrip_crlf F hF hE h hwf rs hrs bytes hw b hc hs]
    simp only [eagerAsLazy, hmap]
  · rw [sam_file_lazy_trailing_blank_line F hF hE hne h hwf rs hrs bytes hw b hc hs,
      sam_file_trailing_blank_line F hF hE h hwf rs hrs bytes hw b hc hs]
    simp only [eagerAsLazy, hmap]

/-- **Lazy = eager without the final newline** (files with at least one record). -/
theorem sam_file_lazy_eq_eager_no_final_newline (F : FloatFmt) (hF : F.Lawful) (hE : LineSafe F)
    (hne : ∀ x, F.fmtA x ≠ []) (h : Hdr) (hwf : HdrWF h)
    (rs : List Rec) (hrs : ∀ r ∈ rs, RecOk r) (hne' : rs ≠ []) (bytes : Bytes)
    (hw : writeSamFile F h rs = .ok bytes)
    (b : Noodles.IO.BufR UInt8) (hc : 0 < b.cap) (hs : b.stream = dropFinalNewline bytes) :
    readSamFileLazyB F b = eagerAsLazy (readSamFileB F b) := by
  have hmap : (rs.map numNorm).map (fun r => (Except.ok (lazyView r) : Except LErr Rec))
      = rs.map fun r => .ok (lazyView r) := by
    rw [List.map_map]
    apply List.map_congr_left
    intro r _
    simp [lazyView_numNorm]
  rw [sam_file_lazy_roundtrip_no_final_newline F hF hE hne h hwf rs hrs hne' bytes hw b hc hs,
    sam_file_roundtrip_no_final_newline F hF hE h hwf rs hrs bytes hw b hc hs]
  simp only [eagerAsLazy, hmap]

/-! ### arbitrary lines -/

/-- **Eager accepts ⇒ every lazy accessor of a standard field succeeds with the same value.** For
any eleven TAB-free fields and any text `d` after an eleventh TAB: if `parse_record_buf` accepts the
line as `r` and neither position text is a non-canonical zero (`PosCanon`; cannot be dropped:
`lazy_pos_00_rejected`), then `try_from_alignment_record` on the lazy record depends on the optional
fields alone and, when they convert, gives `r` with the lazy reading of the optional fields. -/
theorem lazy_line_ok_implies_fields (F : FloatFmt) (refs : List Bytes)
    (f1 f2 f3 f4 f5 f6 f7 f8 f9 f10 f11 tail d : Bytes) (r : Rec)
    (t1 : (9 : UInt8) ∉ f1) (t2 : (9 : UInt8) ∉ f2) (t3 : (9 : UInt8) ∉ f3) (t4 : (9 : UInt8) ∉ f4)
    (t5 : (9 : UInt8) ∉ f5) (t6 : (9 : UInt8) ∉ f6) (t7 : (9 : UInt8) ∉ f7) (t8 : (9 : UInt8) ∉ f8)
    (t9 : (9 : UInt8) ∉ f9) (t10 : (9 : UInt8) ∉ f10) (t11 : (9 : UInt8) ∉ f11)
    (htail : (tail = [] ∧ d = []) ∨ tail = 9 :: d) (hp4 : PosCanon f4) (hp8 : PosCanon f8)
    (h : samParse F refs (f1 ++ 9 :: (f2 ++ 9 :: (f3 ++ 9 :: (f4 ++ 9 :: (f5 ++ 9 :: (f6 ++ 9 ::
      (f7 ++ 9 :: (f8 ++ 9 :: (f9 ++ 9 :: (f10 ++ 9 :: (f11 ++ tail))))))))))) = .ok r) :
    lazyConv F refs [f1, f2, f3, f4, f5, f6, f7, f8, f9, f10, f11] d =
      match lazyDataBuf F d with
      | .error e => .error e
      | .ok data => .ok { r with data := data } :=
  lazyConv_of_eager F refs f1 f2 f3 f4 f5 f6 f7 f8 f9 f10 f11 tail d r t1 t2 t3 t4 t5 t6 t7 t8 t9 t10
    t11 htail hp4 hp8 h

/-- … and the lazy record of such a line IS those fields: eleven fields without TAB / LF, the last
without CR, followed by LF, CR LF or the end of the stream, are read as one record whose accessors
see exactly the fields (no optional fields). -/
theorem lazy_record_of_fields (F : FloatFmt) (refs : List Bytes) (fs : List Bytes) (f11 T rest : Bytes)
    (hlen : fs.length = 10) (hfs : ∀ f ∈ fs, NoSep f) (h11 : NoSep f11) (hcr : (13 : UInt8) ∉ f11)
    (hT : Term T rest) :
    ∃ lr, samReadRecordS (fs.flatMap (fun f => f ++ [9]) ++ (f11 ++ T)) = (.ok lr, rest) ∧
      lr.len ≠ 0 ∧ lazyToRec F refs lr = lazyConv F refs (fs ++ [f11]) [] := by
  obtain ⟨n, hn, hrd⟩ := samReadRecordS_line fs f11 T rest hlen hfs h11 hcr hT
  refine ⟨_, hrd, by simp only; omega, ?_⟩
  have := lazyToRec_fields F refs n (fs ++ [f11]) [] (by simp)
  rw [List.append_nil] at this
  exact this

/-! ### where lazy and eager differ (closed forms; each replayed on the real reader by the
correspondence corpus `corpus-lstream`) -/

def sq0 : List Bytes := [[115, 113, 48]]

/-- the conversion failed with `InvalidData` -/
def isInv {α : Type} : Except LErr α → Bool
  | .error .invalidData => true
  | _ => false

/-- `r\t0\tsq0\t00\t1\t*\t*\t0\t0\t*\t*`: POS `00` — the eager parser reads "missing"
(`Position::new(0)`), the lazy accessor fails (`Position::try_from(0)`). So `PosCanon` cannot be
dropped from `lazy_line_ok_implies_fields`. -/
theorem lazy_pos_00_rejected :
    (samParse F0f sq0 [114, 9, 48, 9, 115, 113, 48, 9, 48, 48, 9, 49, 9, 42, 9, 42, 9, 48, 9, 48, 9, 42, 9, 42]).toOption.map (·.pos)
      = some 0 ∧
    isInv (lazyConv F0f sq0 [[114], [48], [115, 113, 48], [48, 48], [49], [42], [42], [48], [48], [42], [42]] [])
      = true := by
  decide +kernel

/-- what the lazy reader accepts and the eager one rejects (a sample): an empty QNAME, empty CIGAR /
SEQ / QUAL, QUAL longer than SEQ, a QUAL byte above `~`, a repeated tag (the later value wins). -/
theorem lazy_accepts_more :
    (samParse F0f [] [9, 52, 9, 42, 9, 48, 9, 50, 53, 53, 9, 42, 9, 42, 9, 48, 9, 48, 9, 42, 9, 42]).toOption = none ∧
    (lazyConv F0f [] [[], [52], [42], [48], [50, 53, 53], [42], [42], [48], [48], [42], [42]] []).toOption.map (·.name)
      = some (some []) ∧
    (lazyConv F0f [] [[114], [52], [42], [48], [50, 53, 53], [], [42], [48], [48], [], []] []).toOption.isSome = true ∧
    (lazyConv F0f [] [[114], [52], [42], [48], [50, 53, 53], [42], [42], [48], [48], [65, 67], [33, 33, 127]] []).toOption.map (·.qual)
      = some [0, 0, 94] ∧
    (lazyConv F0f [] [[114], [52], [42], [48], [50, 53, 53], [42], [42], [48], [48], [42], [42]]
        [78, 72, 58, 105, 58, 49, 9, 78, 72, 58, 105, 58, 50]).toOption.map (·.data)
      = some [((78, 72), .int .i32 2)] := by
  decide +kernel

/-- **A last line cut short is a record for the lazy reader.** `r\t4\t*\t0\t255\t*\t*\t0\t0\t*` at the
end of the stream (ten columns, no LF): `read_field` ends a field at the end of the stream without
`is_eol`, so `read_record` returns a record whose QUAL is empty — and it converts. The eager reader
fails on the same bytes. Before an LF the same line is `InvalidData` for both. -/
theorem lazy_accepts_truncated_last_line :
    let bytes : Bytes := [114, 9, 52, 9, 42, 9, 48, 9, 50, 53, 53, 9, 42, 9, 42, 9, 48, 9, 48, 9, 42]
    ((readSamFileLazy F0f bytes).recs.map (·.toOption.isSome), (readSamFileLazy F0f bytes).err) = ([true], none) ∧
    ((readSamFile F0f bytes).recs, (readSamFile F0f bytes).err) = ([], some .invalidData) ∧
    ((readSamFileLazy F0f (bytes ++ [10])).recs.length, (readSamFileLazy F0f (bytes ++ [10])).err)
      = (0, some .invalidData) := by
  decide +kernel

/-- **CRLF without the final LF**: the bare CR stays on the last line. The eager reader ends the loop
with `InvalidData`; the lazy reader RETURNS the record (QUAL `*\r`) and the failure appears when it is
converted (`*\r` is two bytes, CR is below `!`). -/
theorem lazy_crlf_without_final_lf :
    (writeSamFile F0f Hdr.empty [rStar, rStar]).toOption.map (fun bytes =>
      let o := readSamFileLazy F0f (toCrlf bytes).dropLast
      (o.recs.map (·.toOption.isSome), o.err)) = some ([true, false], none) := by
  decide +kernel

/-! ### non-vacuity -/

/-- `Fdec` also prints non-empty array elements: all float hypotheses are jointly satisfiable -/
example : ∀ x, Fdec.fmtA x ≠ [] := fun x => printNat_ne_nil x

/-- the conclusion of `sam_file_lazy_roundtrip` on the example file of `C06File.lean`, computed on
the closed form (LF and CRLF) -/
example :
    (writeSamFile F0f hF1 [rF1, rStar]).toOption.map (fun bytes =>
      let o := readSamFileLazy F0f bytes
      (o.hdr.toOption, o.recs.map (·.toOption), o.err))
      = some (some hF1, [some (lazyView rF1), some rStar], none) := by
  decide +kernel

example :
    (writeSamFile F0f hF1 [rF1, rStar]).toOption.map (fun bytes =>
      let o := readSamFileLazy F0f (toCrlf bytes)
      (o.hdr.toOption, o.recs.map (·.toOption), o.err))
      = some (some hF1, [some (lazyView rF1), some rStar], none) := by
  decide +kernel

example : Term [10, 1, 2] [1, 2] := .inl rfl
example : PosCanon [49, 48] := by intro h; revert h; decide
example : NoSep [114, 48] := by intro x hx; revert x; decide

end Noodles.Props.C06
