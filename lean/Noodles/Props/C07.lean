import Noodles.Props.C07Chunk
import Noodles.Props.C07Sam
import Noodles.Props.C07Enc
import Noodles.Cram.Features
import Noodles.Cram.FeaturesProof
import Noodles.Cram.Container
import Noodles.Cram.ContainerProof
import Noodles.Cram.Mates
import Noodles.Cram.MatesProof
/-!
# C07 — CRAM files round-trip their records and are structurally conformant containers

Three cores of the CRAM writer/reader pair, each with its inverse law, over hand-written models
(`Noodles/Cram/{Features,Mates,Container}.lean`) that are replayed against the real code on every
run. Helper lemmas are in the `*Proof.lean` files next to the models.

1. **Edit script.** `cigar_to_features` (writer) against the reader's base iterator and CIGAR
   iterator: for every reference, every alignment start, every CIGAR (all nine operations, any
   order, clips, pads, skips, adjacent `M`/`=`/`X`), every read over any byte alphabet (non-ACGTN
   bases, lower case) and every valid substitution matrix, the reader rebuilds the read's bases
   case-insensitively and the CIGAR in the normal form `=`/`X` ↦ `M`, adjacent operations merged.
2. **Mate links.** `set_mates` / `resolve_mates` (the code after the `fix:` commit for F26/F27).
3. **Container bookkeeping.** `Block::size` is the number of bytes `write_block` emits, the container
   length is the sum of its blocks, `landmarks[i]` is the byte offset of slice `i`, record counters
   are prefix sums, base and record counts add up, the EOF container is the specification's.

The ~30 data-series encodings, the block codecs and the compression-header choice are not
modelled; they are exercised by the differential oracle (`harness/src/props/c07.rs`) only.
-/
namespace Noodles.Props.C07
open Noodles.Cram

/-- a read the SAM data model allows over the supplied reference: the alignment lies inside the
reference, the CIGAR consumes exactly the read's bases, no operation is empty -/
structure ConsistentRead (ref : List Nat) (start : Nat) (c : Cigar) (seq : List Nat) : Prop where
  start_pos : 1 ≤ start
  inside : start - 1 + refLen c ≤ ref.length
  read_len : readLen c = seq.length
  ops_pos : ∀ op ∈ c, 0 < op.len

/-- **Edit-script round trip.** What the reader rebuilds from the writer's features equals the read up
to `≈`: bases compared case-insensitively; CIGAR with `=`/`X` as `M` and adjacent operations merged.
`quals` is arbitrary (it only feeds the `ReadBase` quality, which the array-mode reader ignores). -/
theorem features_rebuild (ref : List Nat) (start : Nat) (c : Cigar) (seq quals : List Nat) (m : Matrix)
    (hm : m.OK) (h : ConsistentRead ref start c seq) :
    let fs := features ref start c seq quals m
    (rebuildBases ref start seq.length fs m).map upper = seq.map upper ∧
    rebuildCigar seq.length fs = normCigar c := by
  obtain ⟨h1, h2, h3, h4⟩ := h
  refine ⟨?_, ?_⟩
  · have := Good.featGo ref seq m seq.length hm quals rfl c (start - 1) 0 h2 (by omega)
    have := this (start - 1) 0 (Lag.refl ref seq _ _)
    simpa [rebuildBases, features] using this
  · have hg := CGood.featGo ref seq m seq.length quals rfl c (start - 1) 0 (by omega)
    have he := hg 0 (Nat.le_refl _)
    simp only [Nat.sub_self, List.replicate_zero, List.nil_append] at he
    have hp : Pos (cigGo seq.length 0 (featGo ref seq quals m (start - 1) 0 c)) :=
      Pos.cigGo seq.length _ 0 (FPos.featGo ref seq m quals c (start - 1) 0 h4 (by omega))
    show simplify (cigGo seq.length 0 (featGo ref seq quals m (start - 1) 0 c)) = normCigar c
    rw [simplify_eq_rle _ hp, he]
    rfl

/-- **Quality array.** A missing quality string (stored as `0xff` per base) and a present one (not all
`0xff`; SAM qualities are ≤ 93) both come back unchanged. -/
theorem quals_roundtrip (quals : List Nat) (n : Nat)
    (h : quals = [] ∨ ∃ q ∈ quals, q ≠ 255) : decodeQuals (encodeQuals quals n) = quals := by
  rcases h with rfl | ⟨q, hq, hne⟩
  · simp [encodeQuals, decodeQuals]
  · have hne' : quals ≠ [] := by intro e; subst e; simp at hq
    have h1 : quals.isEmpty = false := by cases quals <;> simp_all
    have h2 : quals.all (· == 255) = false := by
      rw [Bool.eq_false_iff]; intro hall
      rw [List.all_eq_true] at hall
      exact hne (by simpa using hall q hq)
    simp [encodeQuals, decodeQuals, h1, h2]

open Noodles.Cram.Container in
/-- **`Block::size` is exact**: the size used for the container length and the landmarks is the number
of bytes `write_block` writes (ITF8 field widths included), for every block. -/
theorem block_size_exact (crc : List Nat → List Nat) (hcrc : ∀ x, (crc x).length = 4) (b : Block) :
    (writeBlock crc b).length = b.size :=
  writeBlock_length crc hcrc b

open Noodles.Cram.Container in
/-- **Container invariants.** For every compression-header block and every list of slices (any number
of external blocks each): the container length is the number of bytes written after the header;
there is one landmark per slice; landmark `i` is the number of bytes written before slice `i`'s
header block (so the slice starts exactly there); the block count is the number of blocks written. -/
theorem container_invariants (crc : List Nat → List Nat) (hcrc : ∀ x, (crc x).length = 4)
    (ch : Block) (ss : List Slice) (hss : ss ≠ []) :
    let (len, lm) := layout ch ss
    len = (serialize crc ch ss).length ∧
    lm.length = ss.length ∧
    (∀ i, i < ss.length → lm[i]? = some (serialize crc ch (ss.take i)).length) ∧
    (∀ i, i ≤ ss.length → ∃ tail, serialize crc ch ss = serialize crc ch (ss.take i) ++ tail) ∧
    blockCount ch ss = 1 + (ss.map fun s => 2 + s.ext.length).sum := by
  simp only [layout]
  refine ⟨?_, ?_, ?_, ?_, ?_⟩
  · rw [layoutGo_size, serialize_take crc hcrc]
  · rw [List.length_cons, layoutGo_landmarks_length]
    cases ss with
    | nil => exact absurd rfl hss
    | cons s r => simp
  · intro i hi
    rw [serialize_take crc hcrc]
    cases i with
    | zero => simp [slicesLen]
    | succ i =>
      rw [List.getElem?_cons_succ, layoutGo_landmarks ss ch.size i hi]
  · intro i _
    refine ⟨(((ss.drop i).flatMap Slice.blocks).map (writeBlock crc)).flatten, ?_⟩
    rw [← serialize_append, List.take_append_drop]
  · exact blockCount_eq ch ss

open Noodles.Cram.Container in
/-- **Counters are prefix sums.** For every writer layout (records per slice, slices per container) and
every record stream: each container's record counter is the number of records before it, each
slice's counter the number before that slice, slice record counts add up to the container's, and
over the file the record counts / base counts add up to the stream's. -/
theorem counters_prefix_sums (rps spc : Nat) (hr : 0 < rps) (hs : 0 < spc) (readLens : List Nat) :
    let cs := containers rps spc readLens
    WellCounted 0 cs ∧ (cs.map (·.nrec)).sum = readLens.length ∧ (cs.map (·.bases)).sum = readLens.sum := by
  have hk : 0 < rps * spc := Nat.mul_pos hr hs
  have := foldl_goStep rps hr (chunks (rps * spc) readLens.length readLens) 0 [] trivial rfl
  rw [containers_eq]
  obtain ⟨a, b, _, d⟩ := this
  refine ⟨a, ?_, ?_⟩
  · rw [b, sum_map_length_flatten, chunks_flatten _ hk _ _ (Nat.le_refl _)]; simp
  · rw [d, sum_map_sum_flatten, chunks_flatten _ hk _ _ (Nat.le_refl _)]; simp

open Noodles.Cram.Container in
/-- slice `i` of a container starts at the container's counter plus the records of the slices before -/
theorem slice_counter_prefix (c : Nat) (ns : List Nat) (i : Nat) (hi : i < ns.length) :
    (sliceCounters c ns)[i]? = some (c + (ns.take i).sum) :=
  sliceCounters_get ns c i hi

open Noodles.Cram.Container in
/-- **EOF container.** The constant the writer appends is a container header (length 15, reference −1,
start 4542278, span 0, no records, one block, no landmarks) with a correct CRC32, followed by one
raw compression-header block of 6 bytes with a correct CRC32 — 15 bytes, as the header says. -/
theorem eof_container_wellformed :
    let hdr := [15, 0, 0, 0] ++ writeItf8 (-1) ++ writeItf8 4542278 ++ [0, 0, 0, 0] ++ writeItf8 1 ++ writeItf8 0
    let blk : Block := ⟨0, 1, 0, 6, [1, 0, 1, 0, 1, 0]⟩
    eof = hdr ++ crcBytes hdr ++ writeBlock crcBytes blk ∧ (writeBlock crcBytes blk).length = 15 := by
  decide +kernel

open Noodles.Cram.Mates in
/-- a slice whose mate information is consistent in the sense of the SAM specification: CRAM-side
fields as the converter leaves them; at most two mapped primary segments per read name; the two
segments of such a pair name each other (RNEXT/PNEXT), carry each other's strand bit, consume
reference bases, and have TLEN per §1.4.9 (0 across references — the F26 input; supplementary and
secondary records are unconstrained — the F27 input). Every other record (unpaired, unmapped,
secondary, supplementary, mate in another slice) is arbitrary. -/
structure MateConsistent (rs : List Rec) : Prop where
  fresh : Fresh rs
  pairs : PairsOnly rs
  mates : ∀ (i j : Nat) (a b : Rec), i < j → rs[i]? = some a → rs[j]? = some b →
    attachable a = true → attachable b = true → a.name = b.name →
    1 ≤ a.span ∧ 1 ≤ b.span ∧ a.mrid = b.rid ∧ a.mpos = b.pos ∧ b.mrid = a.rid ∧ b.mpos = a.pos ∧
    (isReverse b.flags = true → isMateReverse a.flags = true) ∧
    (isReverse a.flags = true → isMateReverse b.flags = true) ∧
    a.tlen = samTlen a b ∧ b.tlen = -a.tlen

open Noodles.Cram.Mates in
/-- **Mate links round trip.** For every slice (any length, any interleaving of templates) with
consistent mate information, writing (`set_mates`, then the fields `write_mate` stores) and reading
(`read_mate`, then `resolve_mates`) returns every record with its flags, mate reference, mate
position and template length — and its own reference, position and name — unchanged. -/
theorem mates_roundtrip (rs : List Rec) (h : MateConsistent rs) (p : Nat) (r : Rec) (hp : rs[p]? = some r) :
    ∃ r', (roundTrip rs)[p]? = some r' ∧ r'.flags = r.flags ∧ r'.mrid = r.mrid ∧ r'.mpos = r.mpos ∧
      r'.tlen = r.tlen ∧ r'.rid = r.rid ∧ r'.pos = r.pos ∧ r'.name = r.name := by
  have hrt : roundTrip rs = resolveMates (written rs) := rfl
  rw [hrt]
  have PL := pairLinks_written rs h.fresh h.pairs
  obtain ⟨R1, R2⟩ := resolveMates_pairs (written rs) PL
  obtain ⟨w, hw, w1, w2, w3, w4, w5, w6⟩ := written_get' rs h.fresh p r hp
  cases hm : md rs p with
  | some d =>
    -- `p` is the first record of a pair
    obtain ⟨a, b, ha, hb, haa, hab, hn⟩ := md_some rs p d hm
    rw [hp] at ha; cases ha
    obtain ⟨wb, hwb, b1, b2, b3, b4, _, _⟩ := written_get' rs h.fresh (p + d + 1) b hb
    have hmi : (mateIndices (written rs)).getD p none = some (p + d + 1) := by
      rw [mi_written rs h.fresh, hm]; rfl
    obtain ⟨c1, c2, c3, c4, _, _, c7, _, c9, _⟩ := h.mates p (p + d + 1) r b (by omega) hp hb haa hab hn.symm
    obtain ⟨o1, _⟩ := R1 p (p + d + 1) w wb hmi hw hwb
    refine ⟨_, o1, ?_, ?_, ?_, ?_, ?_, ?_, ?_⟩
    · simp only [resFirst]
      rw [setMate_flags, w1]
      · rw [b1, w1]; exact c7
      · rw [b1]; exact attachable_mapped b hab
    · simp only [resFirst, setMate_mrid, b2, c3]
    · simp only [resFirst, setMate_mpos, b3, c4]
    · simp only [resFirst]
      rw [c9]
      exact pairT_eq _ _ r b ⟨w2, w3, w4⟩ ⟨b2, b3, b4⟩ c1 c2
    · simp only [resFirst, setMate_rid, w2]
    · simp only [resFirst, setMate_pos, w3]
    · simp only [resFirst, setMate_name, w5]
  | none =>
    by_cases hpred : hasPred rs p
    · -- `p` is the second record of a pair
      obtain ⟨p', d, hpd, hm'⟩ := hpred
      obtain ⟨a, b, ha, hb, haa, hab, hn⟩ := md_some rs p' d hm'
      rw [hpd, hp] at hb; cases hb
      obtain ⟨wa, hwa, a1, a2, a3, a4, _, _⟩ := written_get' rs h.fresh p' a ha
      have hmi : (mateIndices (written rs)).getD p' none = some p := by
        rw [mi_written rs h.fresh, hm', ← hpd]; rfl
      obtain ⟨c1, c2, c3, c4, c5, c6, c7, c8, c9, c10⟩ := h.mates p' p a r (by omega) ha hp haa hab hn.symm
      obtain ⟨_, o2⟩ := R1 p' p wa w hmi hwa hw
      have hfirst : (setMate wa w).flags = a.flags := by
        rw [setMate_flags, a1]
        · rw [w1, a1]; exact c7
        · rw [w1]; exact attachable_mapped r hab
      refine ⟨_, o2, ?_, ?_, ?_, ?_, ?_, ?_, ?_⟩
      · simp only [resLast]
        rw [setMate_flags, w1]
        · rw [hfirst, w1]; exact c8
        · rw [hfirst]; exact attachable_mapped a haa
      · simp only [resLast, setMate_mrid, setMate_rid, a2, c5]
      · simp only [resLast, setMate_mpos, setMate_pos, a3, c6]
      · simp only [resLast]
        rw [c10, c9]
        congr 1
        exact pairT_eq _ _ a r ⟨a2, a3, a4⟩ ⟨w2, w3, w4⟩ c1 c2
      · simp only [resLast, setMate_rid, w2]
      · simp only [resLast, setMate_pos, w3]
      · simp only [resLast, setMate_name, w5]
    · -- `p` is in no pair: it was written detached, with its mate fields verbatim
      have hv : w.mrid = r.mrid ∧ w.mpos = r.mpos ∧ w.tlen = r.tlen := by
        rcases w6 with (h1 | h1) | h1
        · simp [hm] at h1
        · exact absurd h1 hpred
        · exact h1
      have hmi : (mateIndices (written rs)).getD p none = none := by
        rw [mi_written rs h.fresh, hm]; rfl
      have hno : ∀ i, (mateIndices (written rs)).getD i none ≠ some p := by
        intro i hi
        rw [mi_written rs h.fresh] at hi
        cases hmi' : md rs i with
        | none => rw [hmi'] at hi; simp at hi
        | some d => rw [hmi'] at hi; simp at hi; exact hpred ⟨i, d, hi, hmi'⟩
      exact ⟨w, (R2 p hmi hno).trans hw, w1, hv.1, hv.2.1, hv.2.2, w2, w3, w5⟩

/-! ### non-vacuity -/

open Noodles.Cram.Mates in
/-- a slice with an interleaved pair (flags 99 / 147, TLEN ±25), an unpaired read and a supplementary
record of the same template -/
def exampleSlice : List Rec :=
  [ ⟨99, some 1, some 0, some 10, 5, some 0, some 30, 25, false, false, none⟩,
    ⟨0, some 2, some 0, some 12, 4, none, none, 0, false, false, none⟩,
    ⟨2113, some 1, some 1, some 7, 6, some 0, some 30, 0, false, false, none⟩,
    ⟨147, some 1, some 0, some 30, 5, some 0, some 10, -25, false, false, none⟩ ]

open Noodles.Cram.Mates in
theorem exampleSlice_att (i : Nat) (a : Rec) (h1 : exampleSlice[i]? = some a) (h2 : attachable a = true) :
    (i = 0 ∧ a = ⟨99, some 1, some 0, some 10, 5, some 0, some 30, 25, false, false, none⟩) ∨
    (i = 3 ∧ a = ⟨147, some 1, some 0, some 30, 5, some 0, some 10, -25, false, false, none⟩) := by
  rcases i with _ | _ | _ | _ | i
  · simp [exampleSlice] at h1; subst h1; left; exact ⟨rfl, rfl⟩
  · simp [exampleSlice] at h1; subst h1; exact absurd h2 (by decide)
  · simp [exampleSlice] at h1; subst h1; exact absurd h2 (by decide)
  · simp [exampleSlice] at h1; subst h1; right; exact ⟨rfl, rfl⟩
  · simp [exampleSlice] at h1

open Noodles.Cram.Mates in
/-- the hypotheses of `mates_roundtrip` are satisfiable -/
example : MateConsistent exampleSlice := by
  refine ⟨?_, ?_, ?_⟩
  · intro r hr
    simp only [exampleSlice, List.mem_cons, List.not_mem_nil, or_false] at hr
    rcases hr with rfl | rfl | rfl | rfl <;> exact ⟨rfl, rfl, rfl⟩
  · intro i j k a b c hij hjk ha hb hc haa hab hac _ _
    rcases exampleSlice_att i a ha haa with ⟨hi, _⟩ | ⟨hi, _⟩ <;>
    rcases exampleSlice_att j b hb hab with ⟨hj, _⟩ | ⟨hj, _⟩ <;>
    rcases exampleSlice_att k c hc hac with ⟨hk, _⟩ | ⟨hk, _⟩ <;> omega
  · intro i j a b hij ha hb haa hab _
    rcases exampleSlice_att i a ha haa with ⟨hi, ea⟩ | ⟨hi, ea⟩ <;>
    rcases exampleSlice_att j b hb hab with ⟨hj, eb⟩ | ⟨hj, eb⟩
    · omega
    · subst ea; subst eb; decide
    · omega
    · omega

open Noodles.Cram.Mates in
/-- and on it the model returns the mate fields unchanged (the theorem, instantiated and evaluated) -/
example : (roundTrip exampleSlice).map (fun r => (r.flags, r.mrid, r.mpos, r.tlen)) =
    exampleSlice.map (fun r => (r.flags, r.mrid, r.mpos, r.tlen)) := by decide

/-- the hypotheses of `features_rebuild` are satisfiable: `2S3M1I1=1X2D1M1H` at position 3 -/
example : ConsistentRead [65,67,71,84,65,67,71,84,65,67,71,84] 3
    [⟨.S,2⟩, ⟨.M,3⟩, ⟨.I,1⟩, ⟨.Eq,1⟩, ⟨.X,1⟩, ⟨.D,2⟩, ⟨.M,1⟩, ⟨.H,1⟩] [84,84,71,84,78,71,67,65,65] :=
  ⟨by decide, by decide, by decide, by decide⟩

/-- the default substitution matrix (`READ_BASES`) is valid -/
example : Matrix.OK (fun r c => match r, c with
    | .A, 0 => .C | .A, 1 => .G | .A, 2 => .T | .A, _ => .N
    | .C, 0 => .A | .C, 1 => .G | .C, 2 => .T | .C, _ => .N
    | .G, 0 => .A | .G, 1 => .C | .G, 2 => .T | .G, _ => .N
    | .T, 0 => .A | .T, 1 => .C | .T, 2 => .G | .T, _ => .N
    | .N, 0 => .A | .N, 1 => .C | .N, 2 => .G | .N, _ => .T) := by
  intro r b h
  cases r <;> cases b <;> first | exact absurd rfl h | exact ⟨0, by decide, rfl⟩ | exact ⟨1, by decide, rfl⟩ | exact ⟨2, by decide, rfl⟩ | exact ⟨3, by decide, rfl⟩

end Noodles.Props.C07
