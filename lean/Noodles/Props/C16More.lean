import Noodles.Io.AsyncMore
import Noodles.Io.AsyncMoreProgProof
import Noodles.Io.AsyncMoreTextProof
import Noodles.Io.AsyncMoreFastaProof
import Noodles.Io.AsyncMoreLazyProof
import Noodles.Io.AsyncMoreWriteProof
/-!
# C16 — the remaining format-level async readers and writers behave like their sync twins

Second format extension (models: `Noodles/Io/AsyncMore.lean`; helper lemmas: `Noodles/Io/AsyncMore*Proof.lean`).
As in `C16Formats.lean` every theorem quantifies over EVERY lawful async reader / writer state — hence
every poll schedule: transfer sizes, `Pending` anywhere — and every sync delivery schedule / `BufReader`
capacity, and says: same value / same error, same bytes left.

`fixed = true` models are the code after the `fix:` diffs delivered with this extension
(`fasta-async-trailing-cr`, `csi-names-truncated`, `csi-aux-drain`); for the code at the pinned commit
(`fixed = false`) the full statements are false: Lean counterexamples below, replayed on the real code by
the harness corpus (`m2-corpus fa-trailing-cr`, `tbi-names-truncated`, `csi-aux-leftover`).
-/
namespace Noodles.Props.C16
open Noodles.IO Noodles.IO.Async
open Noodles.Bgzf.Async (Poll1 Poll)

variable {σ α β : Type}

/-- `r = .ok v`, as a `Bool` (for `decide`) -/
def okIs [BEq β] (r : Except Err β) (v : β) : Bool := match r with | .ok x => x == v | .error _ => false
/-- `r = .error e`, as a `Bool` -/
def errIs (r : Except Err β) (e : Err) : Bool := match r with | .error x => x == e | .ok _ => false

/-! ## binary readers: everything that reads through `read_exact` / `read_exact_or_eof` / `take(n).read_to_end` -/

/-- **A reader that touches its source only through `read_exact` (tokio `ReadExact`, `ReadU8`‥`ReadU64`),
the async `read_exact_or_eof`, and `take(n).read_to_end` — with the next request depending only on the
bytes received so far (`Prog`) — computes on a lawful async source, under every poll schedule and every
`Vec` growth policy, what its sync run computes under every delivery schedule: the same value or error,
the same bytes left.** -/
theorem async_prog_eq_sync (A : ARead σ UInt8) (hA : A.Lawful) (ask : Nat × σ → Nat) (hask : ∀ t, 0 < ask t)
    (sz : Nat → List Nat) (p : Prog β) (s : σ) (src : Src UInt8) (h : A.rest s = src.data) :
    (p.runA A ask s).1 = (Prog.run sz p src).1 ∧
    A.rest (p.runA A ask s).2 = (Prog.run sz p src).2.data :=
  runA_eq_sync A hA ask hask sz p s src h

/-- **BCF `read_record` and the record stream: async = sync** (noodles-bcf `async/io/reader/record.rs`
makes the calls of `io/reader/record.rs`: `read_exact_or_eof` of `l_shared`, `read_u32_le` of `l_indiv`,
`read_exact_to_vec` of the site block, `Fields::index` — a parameter —, `read_exact_to_vec` of the samples) -/
theorem async_bcf_records_eq_sync (A : ARead σ UInt8) (hA : A.Lawful) (ask : Nat × σ → Nat)
    (hask : ∀ t, 0 < ask t) (sz : Nat → List Nat) (index : Bytes → Option Err) (fuel : Nat) (s : σ)
    (src : Src UInt8) (h : A.rest s = src.data) :
    (((Prog.bcfReadRecord index).runA A ask s).1 = (Prog.run sz (Prog.bcfReadRecord index) src).1 ∧
      A.rest ((Prog.bcfReadRecord index).runA A ask s).2 = (Prog.run sz (Prog.bcfReadRecord index) src).2.data) ∧
    (((Prog.bcfRecords index fuel []).runA A ask s).1 = (Prog.run sz (Prog.bcfRecords index fuel []) src).1 ∧
      A.rest ((Prog.bcfRecords index fuel []).runA A ask s).2 =
        (Prog.run sz (Prog.bcfRecords index fuel []) src).2.data) :=
  ⟨runA_eq_sync A hA ask hask sz _ s src h, runA_eq_sync A hA ask hask sz _ s src h⟩

/-- non-vacuity: a record with a 2-byte site block and 1 byte of samples, delivered 3 bytes per poll
with `Pending`s in between, then a clean end of stream -/
example :
    okIs ((Prog.bcfRecords (fun _ => none) 9 []).runA scripted (fun _ => 32)
      ⟨[2, 0, 0, 0, 1, 0, 0, 0, 7, 8, 9], [.pending, .ready 3, .pending], 3, 0, 0⟩).1
      ([([7, 8], [9])], none) = true := by
  decide +kernel

/-- **BAI `read_index`: whatever the sync reader accepts, the async reader (its own transcription of
the format: unsigned counts, its own `read_chunks` / `read_metadata`, errors not re-wrapped) reads as the
same index, leaving the same bytes — under every poll schedule.**  (The converse needs a file of more
than 2^31 chunks; error kinds of rejected files differ.) -/
theorem async_bai_index_eq_sync (A : ARead σ UInt8) (hA : A.Lawful) (ask : Nat × σ → Nat)
    (hask : ∀ t, 0 < ask t) (sz : Nat → List Nat) (s : σ) (src : Src UInt8) (h : A.rest s = src.data)
    (ix : Noodles.Index.Bai) (hs : (Prog.run sz Prog.baiReadIndex src).1 = .ok ix) :
    (Prog.baiReadIndexA.runA A ask s).1 = .ok ix ∧
    A.rest (Prog.baiReadIndexA.runA A ask s).2 = (Prog.run sz Prog.baiReadIndex src).2.data :=
  Prog.refines_lift _ _ Prog.baiReadIndex_refines A hA ask hask sz s src h ix hs

/-- **tabix `read_index`: whatever the sync reader (after `fixes/csi-names-truncated.diff`) accepts, the
async reader — static header fields and the names block gathered into a buffer first, then parsed from
the slice with the sync header reader — reads as the same index.** -/
theorem async_tabix_index_eq_sync (A : ARead σ UInt8) (hA : A.Lawful) (ask : Nat × σ → Nat)
    (hask : ∀ t, 0 < ask t) (sz : Nat → List Nat) (s : σ) (src : Src UInt8) (h : A.rest s = src.data)
    (ix : Noodles.Index.Tabix) (hs : (Prog.run sz (Prog.tabixReadIndexF true) src).1 = .ok ix) :
    ((Prog.tabixReadIndexA (Prog.tabixHeaderF true)).runA A ask s).1 = .ok ix ∧
    A.rest ((Prog.tabixReadIndexA (Prog.tabixHeaderF true)).runA A ask s).2 =
      (Prog.run sz (Prog.tabixReadIndexF true) src).2.data :=
  Prog.refines_lift _ _ Prog.tabixReadIndex_refines A hA ask hask sz s src h ix hs

/-- **CSI `read_index`: whatever the sync reader (after `fixes/csi-names-truncated.diff` and
`fixes/csi-aux-drain.diff`) accepts, the async reader — `aux` block gathered into a buffer and parsed from
the slice, `validate_geometry` after it — reads as the same index.** -/
theorem async_csi_index_eq_sync (A : ARead σ UInt8) (hA : A.Lawful) (ask : Nat × σ → Nat)
    (hask : ∀ t, 0 < ask t) (sz : Nat → List Nat) (s : σ) (src : Src UInt8) (h : A.rest s = src.data)
    (ix : Noodles.Index.CsiIndex) (hs : (Prog.run sz (Prog.csiReadIndexF true) src).1 = .ok ix) :
    ((Prog.csiReadIndexA (Prog.tabixHeaderF true)).runA A ask s).1 = .ok ix ∧
    A.rest ((Prog.csiReadIndexA (Prog.tabixHeaderF true)).runA A ask s).2 =
      (Prog.run sz (Prog.csiReadIndexF true) src).2.data :=
  Prog.refines_lift _ _ Prog.csiReadIndex_refines A hA ask hask sz s src h ix hs

/-- the `fixed = true` sync readers — the code since /repo `fix:` 125ecd7 (names block cut short by
the end of the input is `UnexpectedEof`) and 8288cb5 (`read_aux` drains the `l_aux` bytes) — are the
models C12 is proved about (`Noodles.Io.Binary`) -/
theorem sync_index_fixed_is_c12_model (d : Bytes) :
    Prog.runPure (Prog.tabixReadIndexF true) d = Prog.runPure Prog.tabixReadIndex d ∧
    Prog.runPure (Prog.csiReadIndexF true) d = Prog.runPure Prog.csiReadIndex d :=
  ⟨Prog.tabixReadIndexF_true d, Prog.csiReadIndexF_true d⟩

/-- a tabix index: `n_ref = 0`, format VCF, columns 1 / 2 / 0, meta `#`, skip 0, `l_nm = 3`, and then only
the two bytes `a NUL` before the file ends -/
def tbiCut : Bytes :=
  [84, 66, 73, 1, 0, 0, 0, 0, 2, 0, 0, 0, 1, 0, 0, 0, 2, 0, 0, 0, 0, 0, 0, 0, 35, 0, 0, 0, 0, 0, 0, 0,
   3, 0, 0, 0, 97, 0]

/-- **For the code at the pinned commit the full tabix statement is FALSE**: the sync reader accepts a
names block cut short by the end of the file (it parses what is there), the async reader answers
`UnexpectedEof`.  (`async_tabix_index_eq_sync` with `tabixReadIndexF false` on the left would claim `.ok`.) -/
theorem async_tabix_index_unfixed_counterexample :
    okIs (Prog.run (fun _ => []) (Prog.tabixReadIndexF false) ⟨tbiCut, []⟩).1
      ⟨some ⟨.vcf, 0, 1, none, 35, 0, [[97]]⟩, [], none⟩ = true ∧
    errIs ((Prog.tabixReadIndexA (Prog.tabixHeaderF false)).runA scripted (fun _ => 32) ⟨tbiCut, [], 7, 0, 0⟩).1
      .eof = true ∧
    errIs (Prog.run (fun _ => []) (Prog.tabixReadIndexF true) ⟨tbiCut, []⟩).1 .invalidData = true := by
  refine ⟨?_, ?_, ?_⟩ <;> decide +kernel

/-- a CSI index: min_shift 14, depth 5, `l_aux = 34` = a 30-byte tabix header (names `a NUL`) + 4 more
bytes, then `n_ref = 0` and `n_no_coor = 5` -/
def csiLeftover : Bytes :=
  [67, 83, 73, 1, 14, 0, 0, 0, 5, 0, 0, 0, 34, 0, 0, 0,
   2, 0, 0, 0, 1, 0, 0, 0, 2, 0, 0, 0, 0, 0, 0, 0, 35, 0, 0, 0, 0, 0, 0, 0, 2, 0, 0, 0, 97, 0,
   0, 0, 0, 0,
   0, 0, 0, 0, 5, 0, 0, 0, 0, 0, 0, 0]

/-- **For the code at the pinned commit the full CSI statement is FALSE**: the sync reader does not
skip what the header leaves of the `aux` block and reads `n_ref` / `n_no_coor` four bytes early (it
reports `5 · 2^32` unplaced records and leaves 4 bytes unread); the async reader consumes the whole
block and reports 5. Both accept. -/
theorem async_csi_index_unfixed_counterexample :
    ((Prog.run (fun _ => []) (Prog.csiReadIndexF false) ⟨csiLeftover, []⟩).1.toOption.map (·.unplaced))
      = some (some 21474836480) ∧
    (((Prog.csiReadIndexA (Prog.tabixHeaderF false)).runA scripted (fun _ => 32)
      ⟨csiLeftover, [], 7, 0, 0⟩).1.toOption.map (·.unplaced)) = some (some 5) ∧
    ((Prog.run (fun _ => []) (Prog.csiReadIndexF true) ⟨csiLeftover, []⟩).1.toOption.map (·.unplaced))
      = some (some 5) := by
  refine ⟨?_, ?_, ?_⟩ <;> decide +kernel

/-- PARTIAL statements for the code at the pinned commit: on every input on which the two `fix:` diffs
make no difference to the sync reader (the names block is complete and the `aux` block is exactly as long
as its header), whatever the sync reader accepts the async reader reads as the same index -/
theorem async_tabix_csi_index_eq_sync_partial (A : ARead σ UInt8) (hA : A.Lawful) (ask : Nat × σ → Nat)
    (hask : ∀ t, 0 < ask t) (sz : Nat → List Nat) (s : σ) (src : Src UInt8) (h : A.rest s = src.data) :
    (∀ ix, Prog.run sz (Prog.tabixReadIndexF true) src = Prog.run sz (Prog.tabixReadIndexF false) src →
      (Prog.run sz (Prog.tabixReadIndexF false) src).1 = .ok ix →
      ((Prog.tabixReadIndexA (Prog.tabixHeaderF true)).runA A ask s).1 = .ok ix) ∧
    (∀ ix, Prog.run sz (Prog.csiReadIndexF true) src = Prog.run sz (Prog.csiReadIndexF false) src →
      (Prog.run sz (Prog.csiReadIndexF false) src).1 = .ok ix →
      ((Prog.csiReadIndexA (Prog.tabixHeaderF true)).runA A ask s).1 = .ok ix) := by
  refine ⟨?_, ?_⟩
  · intro ix he hs
    rw [← he] at hs
    exact (async_tabix_index_eq_sync A hA ask hask sz s src h ix hs).1
  · intro ix he hs
    rw [← he] at hs
    exact (async_csi_index_eq_sync A hA ask hask sz s src h ix hs).1

/-! ## text readers over a tokio `BufReader` -/

/-- **tokio `read_u8` over a `BufReader` of any capacity (incl. the bypass of an empty buffer when the
capacity is 1) and the async `read_line`, under every poll schedule, in closed form**: the next byte or
`UnexpectedEof`; the line through the first LF -/
theorem async_read_u8_read_line_spec (A : ARead σ UInt8) (hA : A.Lawful) (cap : Nat) (hc : 0 < cap)
    (b : ABuf σ UInt8) :
    ((readU8A A cap b).1 = (match (b.stream A).head? with | some x => .ok x | none => .error .eof) ∧
      (readU8A A cap b).2.stream A = (b.stream A).tail) ∧
    ((readLineA A cap b).1 = .ok ((specUntil (· == LF) (b.stream A)).1.length,
        stripEol (specUntil (· == LF) (b.stream A)).1) ∧
      (readLineA A cap b).2.stream A = (specUntil (· == LF) (b.stream A)).2) := by
  obtain ⟨a1, a2⟩ := readU8A_spec A hA cap hc b
  refine ⟨⟨?_, a2⟩, readLineA_spec A hA cap hc b⟩
  rw [a1]
  cases (b.stream A).head? <;> rfl

/-- **"One line, then parse it" — FASTA `read_definition`, fai `read_record` / `read_index`, SAM and
VCF (`utf8`) `read_record_buf`: async = sync for EVERY line parser**, one call and the whole loop: the
same items and byte counts, the same ending, the same stream position -/
theorem async_parsed_lines_eq_sync {ρ : Type} (utf8 : Bool) (parse : Bytes → Except Err ρ)
    (A : ARead σ UInt8) (hA : A.Lawful) (cap : Nat) (hc : 0 < cap) (b : ABuf σ UInt8) (bs : BufR UInt8)
    (hcs : 0 < bs.cap) (h : b.stream A = bs.stream) :
    ((readParsedLineA utf8 parse A cap b).1 = (readParsedLine utf8 parse bs).1 ∧
      (readParsedLineA utf8 parse A cap b).2.stream A = (readParsedLine utf8 parse bs).2.stream) ∧
    (.ok (parsedLinesAllA utf8 parse A cap b).1 = (parsedLinesAll utf8 parse bs).1 ∧
      (parsedLinesAllA utf8 parse A cap b).2.stream A = (parsedLinesAll utf8 parse bs).2.stream) := by
  obtain ⟨a1, a2, _⟩ := readParsedLineA_eq_sync utf8 parse A hA cap hc b bs hcs h
  refine ⟨⟨a1, a2⟩, ?_⟩
  unfold parsedLinesAllA parsedLinesAll
  rw [h]
  exact parsedLinesA_eq_sync utf8 parse A hA cap hc _ b bs [] hcs h

/-- **FASTQ `read_record`: the two DIFFERENT algorithms agree on EVERY byte string** — the sync scanner
(name up to the first space / tab / LF window by window, CR stripped after the loop, description by a
second `read_line`, `consume_line` for the `+` line) and the async reader (one `read_line` for the whole
definition line, split at the first space / tab afterwards, `read_line` into a scratch buffer for the `+`
line): the same record and byte count, or the same `Ok(0)`, or the same error, and the same stream
position — for every stream (well formed or not), poll schedule, delivery schedule and pair of
capacities.  Also the whole `records()` stream. -/
theorem async_fastq_record_eq_sync (A : ARead σ UInt8) (hA : A.Lawful) (cap : Nat) (hc : 0 < cap)
    (b : ABuf σ UInt8) (bs : BufR UInt8) (hcs : 0 < bs.cap) (h : b.stream A = bs.stream) :
    ((fastqReadRecordA A cap b).1 = (fastqReadRecord true bs).1 ∧
      (fastqReadRecordA A cap b).2.stream A = (fastqReadRecord true bs).2.stream) ∧
    ((fastqRecordsAllA A cap b).1 = (fastqRecordsAll true bs).1 ∧
      (fastqRecordsAllA A cap b).2.stream A = (fastqRecordsAll true bs).2.stream) := by
  obtain ⟨a1, a2, _⟩ := fastqReadRecordA_eq_sync A hA cap hc b bs hcs h
  refine ⟨⟨a1, a2⟩, ?_⟩
  unfold fastqRecordsAllA fastqRecordsAll
  rw [h]
  exact fastqRecordsA_eq_sync A hA cap hc _ b bs [] hcs h

/-- non-vacuity / the interesting branch: `@a b\r\n` — CRLF, a description — under a one-byte source
with capacity 1 on both sides -/
example :
    okIs (fastqReadRecordA scripted 1 ⟨[], ⟨[64, 97, 32, 98, 13, 10, 65, 13, 10, 43, 10, 33, 10], [], 1, 0, 0⟩⟩).1
      (some (13, ⟨[97], [98], [65], [33]⟩)) = true := by
  decide +kernel

/-- **FASTA `read_sequence` (after `fixes/fasta-async-trailing-cr.diff`) = sync `read_sequence`** on a
sequence block with well-formed lines (`wfSeq`: a `>` only at the start of a line, a CR only before an
LF or at the very end — the hypothesis under which the SYNC reader itself is independent of the chunking,
C12): the same bases, the same stream position, under every poll schedule / delivery schedule / `Vec`
growth policy; the number the async function returns is the number of bytes consumed (the sync function
returns the number of bases). -/
theorem async_fasta_sequence_eq_sync (A : ARead σ UInt8) (hA : A.Lawful) (cap : Nat) (hc : 0 < cap)
    (b : ABuf σ UInt8) (bs : BufR UInt8) (hcs : 0 < bs.cap) (h : b.stream A = bs.stream)
    (sizes : List Nat) (hwf : wfSeq LF bs.stream = true) :
    (readSequenceA true A cap b).1.map (·.1) = (readSequence sizes bs).1 ∧
    (readSequenceA true A cap b).2.stream A = (readSequence sizes bs).2.stream ∧
    (∀ x n, (readSequenceA true A cap b).1 = .ok (x, n) →
      n + ((readSequenceA true A cap b).2.stream A).length = (b.stream A).length) :=
  readSequenceA_eq_sync A hA cap hc b bs hcs h sizes hwf

/-- **`read_definition` + `read_sequence` until the end = the sync `records()`** on FASTA text whose
sequence blocks have well-formed lines -/
theorem async_fasta_records_eq_sync (A : ARead σ UInt8) (hA : A.Lawful) (cap : Nat) (hc : 0 < cap)
    (b : ABuf σ UInt8) (bs : BufR UInt8) (hcs : 0 < bs.cap) (h : b.stream A = bs.stream)
    (sizes : Nat → List Nat) (hwf : wfFasta bs.stream = true) :
    .ok (fastaRecordsAllA true A cap b).1 = (fastaRecordsAll sizes bs).1 ∧
    (fastaRecordsAllA true A cap b).2.stream A = (fastaRecordsAll sizes bs).2.stream :=
  fastaRecordsAllA_eq_sync A hA cap hc b bs hcs h sizes hwf

/-- **For the code at the pinned commit the FASTA statement is FALSE**: on the well-formed block `AC\r`
(a CRLF text cut after the CR) the sync reader yields `AC`, the async reader `AC\r` -/
theorem async_fasta_sequence_unfixed_counterexample :
    wfSeq LF [65, 67, 13] = true ∧
    okIs (readSequence [] (BufR.ofSrc ⟨[65, 67, 13], []⟩ 8)).1 [65, 67] = true ∧
    okIs (readSequenceA false scripted 8 ⟨[], ⟨[65, 67, 13], [], 8, 0, 0⟩⟩).1 ([65, 67, 13], 3) = true ∧
    okIs (readSequenceA true scripted 8 ⟨[], ⟨[65, 67, 13], [], 8, 0, 0⟩⟩).1 ([65, 67], 3) = true := by
  refine ⟨?_, ?_, ?_, ?_⟩ <;> decide +kernel

/-- **The lazy SAM and VCF `read_record`: async (one `read_until` / `read_line`, then the SYNC record
reader on the line as a slice) = sync (the record reader on the stream), on EVERY byte string**: the
same record or `Ok(0)` or the same error class — for VCF including lines that are not UTF-8, which tokio's
`read_line` rejects before and the sync reader while splitting —, and after a record the same stream
position (after an error the async reader has consumed the whole line). Also the `records()` streams. -/
theorem async_lazy_record_eq_sync (A : ARead σ UInt8) (hA : A.Lawful) (cap : Nat) (hc : 0 < cap)
    (b : ABuf σ UInt8) (bs : BufR UInt8) (hcs : 0 < bs.cap) (h : b.stream A = bs.stream) :
    ((lazyReadRecordA false samReadRecord A cap b).1 = (samReadRecord bs).1.map lazyOpt ∧
      (∀ x, (samReadRecord bs).1 = .ok x →
        (lazyReadRecordA false samReadRecord A cap b).2.stream A = (samReadRecord bs).2.stream)) ∧
    ((lazyReadRecordA true vcfReadRecord A cap b).1 = (vcfReadRecord bs).1.map lazyOpt ∧
      (∀ x, (vcfReadRecord bs).1 = .ok x →
        (lazyReadRecordA true vcfReadRecord A cap b).2.stream A = (vcfReadRecord bs).2.stream)) ∧
    .ok (lazyRecordsAllA false samReadRecord A cap b).1 = (samRecordsAll bs).1 ∧
    .ok (lazyRecordsAllA true vcfReadRecord A cap b).1 = (vcfRecordsAll bs).1 := by
  obtain ⟨a1, a2, _⟩ := lazyReadRecordA_sam_eq_sync A hA cap hc b bs hcs h
  obtain ⟨b1, b2, _⟩ := lazyReadRecordA_vcf_eq_sync A hA cap hc b bs hcs h
  refine ⟨⟨a1, a2⟩, ⟨b1, b2⟩, ?_, ?_⟩
  · unfold lazyRecordsAllA samRecordsAll
    rw [h]
    exact lazyRecordsA_sam_eq_sync A hA cap hc _ b bs [] hcs h
  · unfold lazyRecordsAllA vcfRecordsAll
    rw [h]
    exact lazyRecordsA_vcf_eq_sync A hA cap hc _ b bs [] hcs h

/-! ## writers -/

/-- non-vacuity: the scripted sink of the harness is a lawful `AsyncWrite` -/
example (sched : List Poll1) (fb : Nat) : (scriptedW : AWrite (ASink α) α).Lawful ∧
    scriptedW.sunk (⟨[], sched, fb, 0, 0⟩ : ASink α) = [] := ⟨scriptedW_lawful, rfl⟩

/-- **tokio `write_all` sequences: async = sync.**  For every lawful `AsyncWrite` state (every schedule of
partial writes and `Pending`s) consecutive `write_all(piece).await?` calls succeed and leave in the sink
exactly the concatenation of the pieces, in order — what std `write_all` of the same pieces leaves in a
destination that accepts bytes under ANY script of short writes and `Interrupted` (C14's model); and a
`Pending` poll is a stutter (sink contents ++ bytes still to be written is unchanged). -/
theorem async_write_all_eq_sync (W : AWrite σ UInt8) (hW : W.Lawful) (ps : List Bytes) (s : σ)
    (script : List Noodles.Bgzf.SM.Step) (fb : Nat) :
    (writePiecesA W ps s).1 = .ok () ∧
    W.sunk (writePiecesA W ps s).2 =
      W.sunk s ++ (Noodles.Bgzf.SM.feed (Noodles.Bgzf.SM.Sink.fresh script fb none 0) ps).2.accepted ∧
    (Noodles.Bgzf.SM.feed (Noodles.Bgzf.SM.Sink.fresh script fb none 0) ps).1 = none ∧
    (∀ fuel buf t t', buf.length < fuel → pollWriteAll W fuel (buf, t) = (.pending, t') →
      W.sunk t'.2 ++ t'.1 = W.sunk t ++ buf ∧ W.credit t'.2 < W.credit t) := by
  obtain ⟨a1, a2⟩ := writePiecesA_spec W hW ps s
  obtain ⟨b1, b2⟩ := feed_ok script fb ps
  exact ⟨a1, by rw [a2, b2], b1, fun fuel buf t t' hf hp => pollWriteAll_pending W hW fuel buf t hf t' hp⟩

/-- **The FASTQ and FASTA async writers = the sync writers** (the same `write_all` calls — transcribed
once, `fastqPieces` / `fastaPieces`, and checked against the buffers the real writers offer; FASTQ: for
the default definition separator): from an empty sink, under every schedule on either side, the same bytes -/
theorem async_fastx_writer_eq_sync (W : AWrite σ UInt8) (hW : W.Lawful) (s : σ) (hs : W.sunk s = [])
    (script : List Noodles.Bgzf.SM.Step) (fb : Nat) :
    (∀ recs : List FastqRec,
      W.sunk (writePiecesA W (recs.flatMap (fastqPieces SPACE)) s).2 =
        (Noodles.Bgzf.SM.feed (Noodles.Bgzf.SM.Sink.fresh script fb none 0) (recs.flatMap (fastqPieces SPACE))).2.accepted) ∧
    (∀ (width : Nat) (recs : List (Bytes × Option Bytes × Bytes)),
      W.sunk (writePiecesA W (recs.flatMap fun r => fastaPieces width r.1 r.2.1 r.2.2) s).2 =
        (Noodles.Bgzf.SM.feed (Noodles.Bgzf.SM.Sink.fresh script fb none 0)
          (recs.flatMap fun r => fastaPieces width r.1 r.2.1 r.2.2)).2.accepted) := by
  refine ⟨?_, ?_⟩
  · intro recs
    have := (async_write_all_eq_sync W hW (recs.flatMap (fastqPieces SPACE)) s script fb).2.1
    rw [this, hs, List.nil_append]
  · intro width recs
    have := (async_write_all_eq_sync W hW (recs.flatMap fun r => fastaPieces width r.1 r.2.1 r.2.2) s script fb).2.1
    rw [this, hs, List.nil_append]

/-- **The SAM / VCF / BCF async writers (every item serialized by the SYNC serializer into a `Vec`, one
`write_all`)**: for every serializer `ser`, when every item serializes the sink holds the concatenation
of the serializations — what the sync writer, which runs the same serializer on the destination,
leaves —; when an item does not, its error is returned and the sink holds exactly the items before it,
nothing of the failing one. -/
theorem async_buffered_writer_eq_sync {ρ ε : Type} (ser : ρ → Except ε Bytes) (W : AWrite σ UInt8)
    (hW : W.Lawful) (rs : List ρ) (s : σ) :
    (∀ bss, rs.mapM ser = .ok bss →
      (bufferedWriteA ser W rs s).1 = .ok () ∧ W.sunk (bufferedWriteA ser W rs s).2 = W.sunk s ++ bss.flatten) ∧
    (∀ pre r post bss e, rs = pre ++ r :: post → pre.mapM ser = .ok bss → ser r = .error e →
      (bufferedWriteA ser W rs s).1 = .error (.inl e) ∧
      W.sunk (bufferedWriteA ser W rs s).2 = W.sunk s ++ bss.flatten) :=
  bufferedWriteA_spec ser W hW rs s

end Noodles.Props.C16
