import Noodles.Bcf.RecordSpec
import Noodles.Bcf.ScalarsProof
import Noodles.Bcf.StringsProof
import Noodles.Bcf.ColumnProof
import Noodles.Bcf.SiteProof
import Noodles.Bcf.SamplesBlockProof
import Noodles.Bcf.SiteLayoutProof
import Noodles.Bcf.RecordProof
/-!
# C10 / Record — string and character values, the site block, whole-record assembly

Theorems over the whole-record model `Noodles/Bcf/Record.lean` (`writeRecord`, `readRecord`
for the eager `read_record_buf` and the lazy `bcf::Record` accessors) and its typed-value layer
`Typed.lean`. Helper lemmas: `Noodles/Bcf/{Scalars,Strings,Column,Site,SamplesBlock,SiteLayout,
Record}Proof.lean`; the normal form `normRec` and the decidable well-formedness `recWF` are in
`Noodles/Bcf/RecordSpec.lean`.

The model describes the code as it is. Where noodles' BCF strings cannot carry a value of a
conforming VCF record (`,` / `.` as an element of a string or character vector, the per-sample
string `.`, a NUL inside a per-sample string) the full-strength round trip is **false**; the true
statement carries the `_partial` suffix, the full statement is kept as a comment and its negation
is proved on a concrete witness (`…_false`), which the harness replays on the real code
(corpus cases `info-strs-3/4`, `info-chars-3/4`, `fmt-str-4/5`; oracle class
`bcf-string-value-not-escaped`, known finding F40).
-/
namespace Noodles.Props.C10
open Noodles.Bcf
open Noodles.Codec (Bytes le)

/-! ## (1) typed string / character values -/

/-- INFO `Number=1` string: every non-empty byte string (NUL, `,`, `.` included — the descriptor
carries the length) is written and read back unchanged by both readers. -/
theorem bcf_info_string_roundtrip (s : Bytes) (hne : s ≠ []) (hlen : s.length ≤ LEN_MAX)
    (lazy : Bool) (rest : Bytes) :
    ∃ bs, writeInfoVal (some (.str s)) = .ok bs ∧
      readInfoVal lazy .one .string (bs ++ rest) = .ok (some (.str s), rest) :=
  info_str_roundtrip s hne hlen lazy rest

/-- … and the empty string is the typed "string of length 0", which is the missing value. -/
theorem bcf_info_string_empty_is_missing (lazy : Bool) (rest : Bytes) :
    writeInfoVal (some (.str [])) = .ok [0x07] ∧
      readInfoVal lazy .one .string ([0x07] ++ rest) = .ok (none, rest) :=
  info_str_empty lazy rest

/-- INFO character: every byte. -/
theorem bcf_info_char_roundtrip (c : UInt8) (lazy : Bool) (rest : Bytes) :
    ∃ bs, writeInfoVal (some (.char c)) = .ok bs ∧
      readInfoVal lazy .one .character (bs ++ rest) = .ok (some (.char c), rest) :=
  info_char_roundtrip c lazy rest

/-- INFO flag and the missing value `KEY=.` of every non-flag definition. -/
theorem bcf_info_flag_missing_roundtrip (lazy : Bool) (rest : Bytes) :
    (writeInfoVal (some .flag) = .ok [0x00] ∧
      readInfoVal lazy .zero .flag ([0x00] ++ rest) = .ok (some .flag, rest)) ∧
    (∀ (num : Num) (ty : HTy), num ≠ .zero → ty ≠ .flag →
      writeInfoVal none = .ok [0x00] ∧ readInfoVal lazy num ty ([0x00] ++ rest) = .ok (none, rest)) :=
  ⟨info_flag_roundtrip lazy rest, fun num ty h1 h2 => info_none_roundtrip num ty h1 h2 lazy rest⟩

/- full statement (FALSE, see `bcf_info_string_array_roundtrip_false`):
   ∀ xs lazy rest, ∃ bs, writeInfoVal (some (.strs xs)) = .ok bs ∧
     readInfoVal lazy .other .string (bs ++ rest) = .ok (some (.strs xs), rest) -/
/-- INFO string vector (`,`-joined, `.` for a missing element): round trip for every vector whose
elements hold no `,` and are not the string `.` and whose serialisation is not empty (so `[]`
and `[""]` are excluded; empty elements next to others are fine). -/
theorem bcf_info_string_array_roundtrip_partial (xs : List (Option Bytes)) (hj : joinStrs xs ≠ [])
    (hel : ∀ s, some s ∈ xs → COMMA ∉ s ∧ s ≠ [DOT]) (hlen : (joinStrs xs).length ≤ LEN_MAX)
    (lazy : Bool) (rest : Bytes) :
    ∃ bs, writeInfoVal (some (.strs xs)) = .ok bs ∧
      readInfoVal lazy .other .string (bs ++ rest) = .ok (some (.strs xs), rest) :=
  info_strs_roundtrip xs hj hel hlen lazy rest

/-- the values excluded above are accepted and read back as something else: `["a,b"]` comes back
as `["a", "b"]`, `["."]` as `[missing]`, `[]` and `[""]` as a missing value -/
theorem bcf_info_string_array_roundtrip_false :
    (∃ bs, writeInfoVal (some (.strs [some [0x61, 0x2c, 0x62]])) = .ok bs ∧
      readInfoVal false .other .string bs = .ok (some (.strs [some [0x61], some [0x62]]), [])) ∧
    (∃ bs, writeInfoVal (some (.strs [some [0x2e]])) = .ok bs ∧
      readInfoVal false .other .string bs = .ok (some (.strs [none]), [])) ∧
    (∃ bs, writeInfoVal (some (.strs [])) = .ok bs ∧
      readInfoVal false .other .string bs = .ok (none, [])) ∧
    (∃ bs, writeInfoVal (some (.strs [some []])) = .ok bs ∧
      readInfoVal false .other .string bs = .ok (none, [])) :=
  ⟨⟨_, rfl, rfl⟩, ⟨_, rfl, rfl⟩, ⟨_, rfl, rfl⟩, ⟨_, rfl, rfl⟩⟩

/- full statement (FALSE): the same for `.chars xs` with every `xs`. -/
/-- INFO character vector: round trip when no element is `,` or `.` and the vector is not empty. -/
theorem bcf_info_char_array_roundtrip_partial (xs : List (Option UInt8)) (hne : xs ≠ [])
    (hel : ∀ c, some c ∈ xs → c ≠ COMMA ∧ c ≠ DOT) (hlen : (joinChars xs).length ≤ LEN_MAX)
    (lazy : Bool) (rest : Bytes) :
    ∃ bs, writeInfoVal (some (.chars xs)) = .ok bs ∧
      readInfoVal lazy .other .character (bs ++ rest) = .ok (some (.chars xs), rest) :=
  info_chars_roundtrip xs hne hel hlen lazy rest

/-- `['.']` comes back as `[missing]`; `[',']` is serialised as `,`: the eager reader returns the
empty vector, the lazy accessor fails on the writer's own output -/
theorem bcf_info_char_array_roundtrip_false :
    (∃ bs, writeInfoVal (some (.chars [some 0x2e])) = .ok bs ∧
      readInfoVal false .other .character bs = .ok (some (.chars [none]), [])) ∧
    (∃ bs, writeInfoVal (some (.chars [some 0x2c])) = .ok bs ∧
      readInfoVal false .other .character bs = .ok (some (.chars []), []) ∧
      readInfoVal true .other .character bs = .error .invalid) :=
  ⟨⟨_, rfl, rfl⟩, ⟨_, rfl, rfl, rfl⟩⟩

/- full statement (FALSE): every column `col` with at least one string. -/
/-- FORMAT `Number=1` string column, NUL-padded to the longest value, `.` for a missing sample:
round trip (both readers) when no string holds a NUL or is the string `.`; empty strings are
fine unless the column is nothing but empty strings next to a missing sample (`hnone`). -/
theorem bcf_format_string_roundtrip_partial (col : List (Option Bytes)) (n : Nat)
    (hmax : maxLenSome (col.map fun s => s.map fun b => b) = some n)
    (hnone : none ∈ col → 1 ≤ n) (hlen : n ≤ LEN_MAX)
    (hs : ∀ s, some s ∈ col → NUL ∉ s ∧ s ≠ [DOT]) (rest : Bytes) :
    ∃ bs, writeStringValues col = .ok bs ∧
      readColumnEager (.field .one .string) col.length (bs ++ rest)
        = .ok (col.map (·.map SVal.str), rest) ∧
      ∀ v44, readColumnLazy v44 (.field .one .string) col.length (bs ++ rest)
        = .ok (col.map (·.map SVal.str), rest) :=
  samples_str_roundtrip col n hmax hnone hlen hs rest

/-- `a\0b` next to `abcd` comes back as `a`; `.` next to `a` comes back as a missing sample; a
missing sample next to the empty string is written with descriptor length 0 followed by one
byte, which no reader can frame (`hnone`) -/
theorem bcf_format_string_roundtrip_false :
    (∃ bs, writeStringValues [some [0x61, 0x00, 0x62], some [0x61, 0x62, 0x63, 0x64]] = .ok bs ∧
      readColumnEager (.field .one .string) 2 bs
        = .ok ([some (.str [0x61]), some (.str [0x61, 0x62, 0x63, 0x64])], [])) ∧
    (∃ bs, writeStringValues [some [0x2e], some [0x61]] = .ok bs ∧
      readColumnEager (.field .one .string) 2 bs = .ok ([none, some (.str [0x61])], [])) ∧
    (writeStringValues [none, some []] = .ok [0x07, 0x2e] ∧
      readColumnEager (.field .one .string) 2 [0x07, 0x2e]
        = .ok ([some (.str []), some (.str [])], [0x2e])) :=
  ⟨⟨_, rfl, rfl⟩, ⟨_, rfl, rfl⟩, rfl, rfl⟩

/-- FORMAT character column: no NUL, no `.`; at least one sample has a value (else refused). -/
theorem bcf_format_char_roundtrip_partial (col : List (Option UInt8)) (hex : ∃ c, some c ∈ col)
    (hc : ∀ c, some c ∈ col → c ≠ NUL ∧ c ≠ DOT) (rest : Bytes) :
    ∃ bs, writeStringValues (col.map (·.map fun c => [c])) = .ok bs ∧
      readColumnEager (.field .one .character) col.length (bs ++ rest)
        = .ok (col.map (·.map SVal.char), rest) ∧
      ∀ v44, readColumnLazy v44 (.field .one .character) col.length (bs ++ rest)
        = .ok (col.map (·.map SVal.char), rest) :=
  samples_char_roundtrip col hex hc rest

/-- FORMAT character vector column; a missing sample reads back as `[missing]` (`normSC`). -/
theorem bcf_format_char_array_roundtrip_partial (col : List (Option (List (Option UInt8))))
    (hex : ∃ cs, some cs ∈ col) (hne : ∀ cs, some cs ∈ col → cs ≠ [])
    (hc : ∀ cs, some cs ∈ col → ∀ c, some c ∈ cs → c ≠ NUL ∧ c ≠ COMMA ∧ c ≠ DOT)
    (hlen : ∀ cs, some cs ∈ col → (joinChars cs).length ≤ LEN_MAX) (rest : Bytes) :
    ∃ bs, writeStringValues (col.map (·.map joinChars)) = .ok bs ∧
      readColumnEager (.field .other .character) col.length (bs ++ rest)
        = .ok (col.map normSC, rest) ∧
      ∀ v44, readColumnLazy v44 (.field .other .character) col.length (bs ++ rest)
        = .ok (col.map normSC, rest) :=
  samples_chars_roundtrip col hex hne hc hlen rest

/-- FORMAT string vector column: eager — the serialised value `.` is a missing sample
(`normSS`); lazy — a missing sample is `[missing]` (`lazySS`). -/
theorem bcf_format_string_array_roundtrip_partial (col : List (Option (List (Option Bytes))))
    (hne : col ≠ []) (hj : ∀ xs, some xs ∈ col → joinStrs xs ≠ [])
    (hs : ∀ xs, some xs ∈ col → ∀ s, some s ∈ xs → NUL ∉ s ∧ COMMA ∉ s ∧ s ≠ [DOT])
    (hlen : ∀ xs, some xs ∈ col → (joinStrs xs).length ≤ LEN_MAX) (rest : Bytes) :
    ∃ bs, writeStringArrayValues col = .ok bs ∧
      readColumnEager (.field .other .string) col.length (bs ++ rest)
        = .ok (col.map normSS, rest) ∧
      ∀ v44, readColumnLazy v44 (.field .other .string) col.length (bs ++ rest)
        = .ok (col.map lazySS, rest) :=
  samples_strs_roundtrip col hne hj hs hlen rest

/-- FORMAT float columns (scalar: bits kept, missing sample = the missing pattern; vector:
ragged, end-of-vector padded; eager `[missing]` ≡ missing sample, lazy the converse). -/
theorem bcf_format_float_roundtrip :
    (∀ (col : List (Option Nat)), (∀ x ∈ col, FitsF x) → ∀ rest : Bytes,
      ∃ bs, writeFloatValues col = .ok bs ∧
        readColumnEager (.field .one .float) col.length (bs ++ rest)
          = .ok (col.map (·.map SVal.float), rest) ∧
        ∀ v44, readColumnLazy v44 (.field .one .float) col.length (bs ++ rest)
          = .ok (col.map (·.map SVal.float), rest)) ∧
    (∀ (col : List (Option (List (Option Nat)))) (n : Nat), maxLenSome col = some n → 1 ≤ n →
      n ≤ LEN_MAX → (∀ vs, some vs ∈ col → ∀ x ∈ vs, FitsF x) → ∀ rest : Bytes,
      ∃ bs, writeFloatArrayValues col = .ok bs ∧
        readColumnEager (.field .other .float) col.length (bs ++ rest) = .ok (col.map normSF, rest) ∧
        ∀ v44, readColumnLazy v44 (.field .other .float) col.length (bs ++ rest)
          = .ok (col.map lazySF, rest)) :=
  ⟨fun col hf rest => samples_float_roundtrip col hf rest,
   fun col n hmax h1 hlen hf rest => samples_floats_roundtrip col n hmax h1 hlen hf rest⟩

/-- every FORMAT column the decidable `colOk` accepts — whatever its kind — is written behind its
key index and read back by both readers as the column of normal forms -/
theorem bcf_format_column_roundtrip (h : Header) (key : String) (col : List (Option SVal))
    (ki : Nat) (hki : h.strings.getIndexOf key = some ki) (kb : Bytes) (hkb : writeIndex ki = .ok kb)
    (hd : (h.formats.lookup key).isSome = true) (hc : colOk (kindOf h key) col = true) (rest : Bytes) :
    ∃ body, writeColumn h key col = .ok (kb ++ body) ∧
      readColumnEager (kindOf h key) col.length (body ++ rest)
        = .ok (col.map (normSValE (kindOf h key)), rest) ∧
      ∀ v44, readColumnLazy v44 (kindOf h key) col.length (body ++ rest)
        = .ok (col.map (normSValL v44 (kindOf h key)), rest) :=
  writeColumn_body h key col ki hki kb hkb hd hc rest

/-- every INFO value the decidable `infoValOk d` accepts is written and read back (both readers)
as its normal form under the definition `d` of its key -/
theorem bcf_info_value_roundtrip (d : Def) (v : Option InfoVal) (hv : infoValOk d v = true)
    (lazy : Bool) (rest : Bytes) :
    ∃ bs, writeInfoVal v = .ok bs ∧
      readInfoVal lazy d.num d.ty (bs ++ rest) = .ok (normInfoVal v, rest) :=
  writeInfoVal_roundtrip d v hv lazy rest

/-! ## (2) the site block -/

/-- dictionary index of a key (INFO / FORMAT / contig are all `≤ 2^31 - 1`): Int8 / Int16 / Int32
by size, read back exactly; FILTER: the index vector, width by its maximum. -/
theorem bcf_string_map_index_roundtrip :
    (∀ (i : Nat), i ≤ 2147483647 → ∀ rest : Bytes,
      ∃ bs, writeIndex i = .ok bs ∧ bs ≠ [] ∧ readIndex (bs ++ rest) = .ok (i, rest)) ∧
    (∀ (is : List Nat), (∀ i ∈ is, i ≤ 2147483647) → is.length ≤ LEN_MAX → ∀ rest : Bytes,
      ∃ bs, writeIndices is = .ok bs ∧ readIndices (bs ++ rest) = .ok (is, rest)) :=
  ⟨fun i hi rest => writeIndex_roundtrip i hi rest,
   fun is hi hlen rest => writeIndices_roundtrip is hi hlen rest⟩

/-- ID / REF / ALT typed strings: unchanged; the empty string is the typed "no string"
(`.` for ID; an empty REF / ALT would come back as `.`, hence `recWF` asks for non-empty alleles) -/
theorem bcf_site_string_roundtrip (s : Bytes) (hlen : s.length ≤ LEN_MAX) (rest : Bytes) :
    ∃ bs, writeStr s = .ok bs ∧
      readStr (bs ++ rest) = .ok (if s = [] then none else some s, rest) :=
  writeStr_roundtrip s hlen rest

/-- Whenever the site writer succeeds, the block starts with exactly the seven fixed fields —
CHROM index (i32), 0-based POS (i32, `-1` = missing), rlen (i32), QUAL bits (missing = `0x7f800001`),
n_info (u16), n_allele (u16), `n_fmt << 24 | n_sample` (u32) — and every one of them is inside
the range of its field. -/
theorem bcf_site_layout (h : Header) (r : Rec) (site : Bytes) (hs : writeSite h r = .ok site) :
    ∃ ci rlen tail,
      h.contigs.getIndexOf r.chrom = some ci ∧ ci ≤ 2147483647 ∧
      (∀ p, r.pos = some p → p ≤ 2147483647) ∧
      rlenOf r.pos r.info r.ref = .ok rlen ∧ rlen ≤ 2147483647 ∧
      r.info.length ≤ 65535 ∧ r.alts.length + 1 ≤ 65535 ∧ h.nSample ≤ 16777215 ∧
      r.keys.length ≤ 255 ∧
      site = Noodles.Bcf.encS .w4 ci ++ encS .w4 (posField r.pos) ++ encS .w4 rlen
        ++ encF (r.qual.getD F_MISSING) ++ le 2 r.info.length ++ le 2 (r.alts.length + 1)
        ++ le 4 (r.keys.length * 16777216 + h.nSample) ++ tail :=
  writeSite_layout h r site hs

/-- n_info / n_allele beyond 16 bits, n_sample beyond 24 bits, n_fmt beyond 8 bits: the writer
refuses (no wrap-around into the neighbouring field). -/
theorem bcf_site_count_limits (h : Header) (r : Rec)
    (hc : 65535 < r.info.length ∨ 65535 < r.alts.length + 1 ∨ 16777215 < h.nSample
      ∨ 255 < r.keys.length) :
    ∀ site, writeSite h r ≠ .ok site :=
  writeSite_count_limits h r hc

/-- rlen: `END - POS + 1` when INFO has `END` with a value, else the number of REF bases; and the
end position the lazy `bcf::Record::end()` computes from the written block is `POS + rlen - 1`. -/
theorem bcf_rlen_end (h : Header) (r : Rec) (site : Bytes) (hs : writeSite h r = .ok site)
    (p : Nat) (hp : r.pos = some p) (hp1 : 1 ≤ p) :
    ∃ rlen, rlenOf r.pos r.info r.ref = .ok rlen ∧
      lazyEnd site = (if rlen = 0 then none else some (p + rlen - 1)) ∧
      (∀ e : Int, r.info.lookup "END" = some (some (.int e)) → (p : Int) ≤ e → (rlen : Int) = e - p + 1) ∧
      (r.info.lookup "END" = none → rlen = r.ref.length) := by
  obtain ⟨rlen, h1, h2⟩ := lazyEnd_writeSite h r site hs p hp hp1
  refine ⟨rlen, h1, h2, ?_, ?_⟩
  · intro e he hpe
    unfold rlenOf at h1
    rw [he, hp] at h1
    simp only [Option.getD] at h1
    split at h1
    · cases h1
    · rename_i h1'
      split at h1'
      · cases h1'
      · split at h1'
        · cases h1'
        · injection h1' with h1'; split at h1
          · cases h1
          · injection h1 with h1; omega
  · intro he
    unfold rlenOf at h1
    rw [he] at h1
    simp only at h1
    split at h1
    · cases h1
    · rename_i h1'
      split at h1'
      · cases h1'
      · injection h1' with h1'; split at h1
        · cases h1
        · injection h1 with h1; omega

/-- QUAL: the reserved NaN `0x7f800001` is the missing code, `0x7f800002 … 0x7f800007` are refused
by both readers, every other pattern is a value -/
theorem bcf_qual_codes (b : Nat) :
    classifyF F_MISSING = .missing ∧
    ((b < 0x7f800001 ∨ 0x7f800007 < b) → classifyF b = .value b) ∧
    ((0x7f800002 ≤ b ∧ b ≤ 0x7f800007) → classifyF b ≠ .value b ∧ classifyF b ≠ .missing) := by
  refine ⟨rfl, classifyF_value b, ?_⟩
  intro ⟨h1, h2⟩
  unfold classifyF F_MISSING F_EOV
  by_cases he : b = 0x7f800002
  · subst he; decide
  · have : ¬ b = 0x7f800001 := by omega
    have h3 : 0x7f800003 ≤ b ∧ b ≤ 0x7f800007 := by omega
    simp only [this, he, if_false, h3, and_self, if_true]
    exact ⟨fun h => (by cases h), fun h => (by cases h)⟩

/-- the site block of every record satisfying the decidable `siteWF` is written and both readers
return every field: CHROM, POS, QUAL, ID, REF, ALT, FILTER, INFO (normal forms), n_fmt, n_sample -/
theorem bcf_site_roundtrip (h : Header) (r : Rec) (hw : siteWF h r = true) :
    ∃ site, writeSite h r = .ok site ∧
      ∀ lazy : Bool, readSite lazy h site = .ok
        { chrom := r.chrom, pos := r.pos, qual := r.qual, ids := r.ids, ref := r.ref, alts := r.alts,
          filters := r.filters, info := r.info.map (fun kv => (kv.1, normInfoVal kv.2)),
          nFmt := r.keys.length, nSample := h.nSample } :=
  writeSite_roundtrip h r hw

/-! ## (3) the whole record -/

/-- **Whole-record round trip.** For every header (dictionary of strings and contigs with
arbitrary `IDX` assignments, INFO / FORMAT definitions, sample count, file format) and every record
satisfying the decidable relation `recWF h r`: the site and the samples block are written;
blocks of 4 GiB or more are refused (`u32::try_from`), otherwise the record is exactly
`l_shared ‖ l_indiv ‖ site ‖ samples` with the two length words equal to the block lengths, and
both readers — `read_record_buf` (`lazy = false`) and the `bcf::Record` accessors (`lazy = true`)
— return the normal form `normRec lazy h r`, consuming exactly the record (any `rest` that
follows is left alone). -/
theorem bcf_record_roundtrip (h : Header) (r : Rec) (hw : recWF h r = true) :
    ∃ site smp, writeSite h r = .ok site ∧ writeSamples h r = .ok smp ∧
      ((4294967295 < site.length ∨ 4294967295 < smp.length) → writeRecord h r = .error .invalidInput) ∧
      (site.length ≤ 4294967295 → smp.length ≤ 4294967295 →
        writeRecord h r = .ok (le 4 site.length ++ le 4 smp.length ++ site ++ smp) ∧
        ∀ (lazy : Bool) (rest : Bytes),
          readRecord lazy h (le 4 site.length ++ le 4 smp.length ++ site ++ smp ++ rest)
            = .ok (normRec lazy h r)) :=
  writeRecord_roundtrip h r hw

/-- the samples block alone: `n_fmt` columns for the eager reader, "until the block is used up"
for the lazy one; no FORMAT keys ⇒ an empty block (`l_indiv = 0`) -/
theorem bcf_samples_block_roundtrip (h : Header) (r : Rec) (hw : samplesWF h r = true) :
    ∃ smp, writeSamples h r = .ok smp ∧
      (r.keys = [] → smp = []) ∧
      readColumnsEager h h.nSample r.keys.length smp = .ok (normCols false h r, []) ∧
      readColumnsLazy h h.nSample smp.length smp = .ok (normCols true h r, []) :=
  writeSamples_roundtrip h r hw

/-! ## non-vacuity -/

/-- a header with a shuffled dictionary (`IDX` beyond 127) and a record with every kind of value,
an `END`, two filters, a missing sample and a narrow row satisfy `recWF` -/
def exHeader : Header :=
  { v44 := false, nSample := 2,
    strings := ((((StringMap.defaultStrings.insertAt 200 "S1").insertAt 3 "SD").insertAt 5 "END").insertAt 7
      "q10").insertAt 130 "M1" |>.insertAt 9 "GT" |>.insertAt 4 "LD",
    contigs := StringMap.empty.push "sq0",
    infos := [("S1", ⟨.one, .string⟩), ("SD", ⟨.other, .string⟩), ("END", ⟨.one, .integer⟩)],
    formats := [("GT", ⟨.one, .string⟩), ("M1", ⟨.one, .string⟩), ("LD", ⟨.other, .character⟩)] }

def exRec : Rec :=
  { chrom := "sq0", pos := some 100, qual := some 0x7fc00001, ids := [0x61, 0x3b, 0x62], ref := [0x41],
    alts := [[0x43], [0x3c, 0x44, 0x3e]], filters := ["q10", "PASS"],
    info := [("SD", some (.strs [some [0x61], none, some []])), ("END", some (.int 250)),
      ("S1", some (.str [0x00, 0x2c, 0x2e]))],
    keys := ["GT", "M1", "LD"],
    rows := [[some (.gt [(some 0, false), (some 1, true)]), some (.str [0x78, 0x79]), some (.chars [some 0x61, none])],
      [some (.gt [(none, false), (none, false)]), none]] }

set_option maxRecDepth 100000 in
example : recWF exHeader exRec = true := by decide



/-- a string vector with an empty element and a missing element satisfies the hypotheses -/
example : joinStrs [some [0x61], none, some []] ≠ [] ∧
    (∀ s, some s ∈ [some [0x61], none, some ([] : Bytes)] → COMMA ∉ s ∧ s ≠ [DOT]) := by
  refine ⟨by decide, ?_⟩
  intro s hs
  simp only [List.mem_cons, Option.some.injEq, List.not_mem_nil, or_false, reduceCtorEq,
    false_or] at hs
  rcases hs with rfl | rfl <;> decide

/-- a string column with a missing sample and an empty string next to a longer one -/
example : maxLenSome ([some [0x61, 0x62], none, some []].map fun (s : Option Bytes) => s.map fun b => b)
    = some 2 := rfl

end Noodles.Props.C10
