import Noodles.Props.C20More
import Noodles.Util.Detect
import Noodles.Util.DetectProof
/-!
# C20 — format autodetection picks the written format; conversions keep content

Model: `Noodles/Util/Detect.lean` (the two reader builders' `detect_compression_method` /
`detect_format` / `build_from_reader`, the two writer builders' dispatch, the first bytes every
format writer emits); helper lemmas: `Noodles/Util/DetectProof.lean`.

All statements hold for EVERY lawful BGZF layer `B` (the compressor and flate2's window decoder
are parameters constrained by four laws), every payload, and every size `k` of the first
`fill_buf` window, under the explicit decidable predicate `PrefixOK` — exactly the conditions the
detector's case analysis needs. `PrefixOK` is a real restriction only in two ways, both witnessed
below: the first `read` must deliver the magic number (`k ≥ 4`; `k ≥ 5` for a header-less SAM whose
first read name starts with `CRAM`), and the first window of a bgzipped BAM/BCF/VCF must inflate
to the magic number. For the text the SAM / VCF writers can produce it is vacuous otherwise
(`sam_writer_output_detected`, `detect_written_variant` with `VPrefixOK … = True`).

The model is the code after three `fix:` changes (listed in `Detect.lean`). Counterexamples of
the unfixed code, replayed on the real crates by the harness (`acorpus 0`, `acorpus 4`,
`vwriter bcf bgzf`):
* `SAM.gz` of an empty header and no records (the 28-byte EOF marker): `detect_format` returned
  `UnexpectedEof` (`read_exact` of 4 inflated bytes) — FIX 1, now `empty_sam_gz_detected`;
* header-less uncompressed SAM, first read named `CRAM1`: taken for CRAM — FIX 2, now
  `sam_writer_output_detected` (what is left of it: `cram_named_read_needs_five_bytes`);
* variant writer asked for `(Bcf, Bgzf)` (also the default for BCF) wrote raw BCF, asked for
  `(Bcf, None)` wrote bgzipped BCF — FIX 3, now `writer_honours_request_variant`.
A fourth defect found by the conversion oracle lives below this model, in a per-format codec
(`Codecs.roundtrip` is a hypothesis here): a lazily decoded BCF sample vector counted its
end-of-vector padding in `len()`, so BCF → BCF through the generic reader and writer wrote corrupt
records (`vdoc 1001000024`).

Still outside `PrefixOK` and NOT repaired (known finding F11c): the detectors look at the result
of ONE `fill_buf()`; a reader whose first `read` returns fewer bytes than the magic number defeats
them (`short_first_read_defeats_detection`).
-/
namespace Noodles.Props.C20
open Noodles.Util

/-- Alignment formats: a stream the generic writer produced for `(f, c)` is recognised as exactly
`(f, c)` from the first window alone. -/
theorem detect_written_alignment (B : BgzfLayer) (f : AFormat) (c : Comp) (p : APayload) (k : Nat)
    (h : APrefixOK B f c p k) : aDetect B k (aStream B f c p) = .ok (f, c) := by
  unfold aDetect aBuildWith aStream compress
  cases f <;> cases c <;> simp only [APrefixOK] at h
  · -- SAM, uncompressed
    obtain ⟨h1, h2, h3⟩ := h
    simp only [detectCompression_plain _ h1, aDetectFormat_plain_sam _ _ h2 h3]; rfl
  · -- SAM, bgzipped
    obtain ⟨hk, hb⟩ := h
    have hs := aDetectFormat_bgzf_sam ((B.frame (aPlain .sam p)).take k) (B.inflate ((B.frame (aPlain .sam p)).take k))
      (fun hl => by rw [window_take B _ k 4 hl]; exact hb) (B.inflate_stop _ k)
    simp only [detectCompression_bgzf _ (frame_window_magic B _ k hk), hs]; rfl
  · -- BAM, raw
    have h4 : ((aPlain .bam p).take k).take 4 = BAM_MAGIC := by
      rw [take_take_le _ _ _ h]; simp [aPlain, BAM_MAGIC]
    have h2 : ((aPlain .bam p).take k).take 2 ≠ GZIP_MAGIC := by
      rw [take_take_le _ _ _ (by omega)]; simp [aPlain, BAM_MAGIC, GZIP_MAGIC]
    simp only [detectCompression_plain _ h2, aDetectFormat_plain_bam _ _ h4]; rfl
  · -- BAM, bgzipped
    obtain ⟨hk, hl⟩ := h
    have hb := aDetectFormat_bgzf_bam ((B.frame (aPlain .bam p)).take k) (B.inflate ((B.frame (aPlain .bam p)).take k)) hl
      (by rw [window_take B _ k 4 hl]; simp [aPlain, BAM_MAGIC])
    simp only [detectCompression_bgzf _ (frame_window_magic B _ k hk), hb]; rfl
  · -- CRAM
    obtain ⟨hk, hv⟩ := h
    have h4 : ((aPlain .cram p).take k).take 4 = CRAM_MAGIC := by
      rw [take_take_le _ _ _ hk]; simp [aPlain, CRAM_MAGIC]
    have h2 : ((aPlain .cram p).take k).take 2 ≠ GZIP_MAGIC := by
      rw [take_take_le _ _ _ (by omega)]; simp [aPlain, CRAM_MAGIC, GZIP_MAGIC]
    simp only [detectCompression_plain _ h2, aDetectFormat_plain_cram _ _ h4 hv]; rfl

/-- Variant formats: the same, for VCF / VCF.gz / BCF (bgzipped and raw). -/
theorem detect_written_variant (B : BgzfLayer) (f : VFormat) (c : Comp) (body : Bytes) (k : Nat)
    (h : VPrefixOK B f c body k) : vDetect B k (vStream B f c body) = .ok (f, c) := by
  unfold vDetect vBuildWith vStream compress
  cases f <;> cases c <;> simp only [VPrefixOK] at h
  · -- VCF text: never looks like gzip or BCF, whatever the window
    have h2 : ((vPlain .vcf body).take k).take 2 ≠ GZIP_MAGIC := by
      intro hh
      have hl := length_of_take_eq hh rfl
      rw [List.take_take] at hh
      have : 2 ≤ k := by rw [List.length_take] at hl; omega
      rw [Nat.min_eq_left this] at hh
      simp [vPlain, VCF_LEAD, GZIP_MAGIC] at hh
    have h3 : ((vPlain .vcf body).take k).take 3 ≠ BCF_MAGIC := by
      intro hh
      have hl := length_of_take_eq hh rfl
      rw [List.take_take] at hh
      have : 3 ≤ k := by rw [List.length_take] at hl; omega
      rw [Nat.min_eq_left this] at hh
      simp [vPlain, VCF_LEAD, BCF_MAGIC] at hh
    simp only [detectCompression_plain _ h2, vDetectFormat_plain_vcf _ _ h3]; rfl
  · obtain ⟨hk, hl⟩ := h
    have hv := vDetectFormat_bgzf ((B.frame (vPlain .vcf body)).take k) (B.inflate ((B.frame (vPlain .vcf body)).take k)) hl
    rw [window_take B _ k 3 hl, if_neg (by simp [vPlain, VCF_LEAD, BCF_MAGIC])] at hv
    simp only [detectCompression_bgzf _ (frame_window_magic B _ k hk), hv]; rfl
  · have h3 : ((vPlain .bcf body).take k).take 3 = BCF_MAGIC := by
      rw [take_take_le _ _ _ h]; simp [vPlain, BCF_MAGIC]
    have h2 : ((vPlain .bcf body).take k).take 2 ≠ GZIP_MAGIC := by
      rw [take_take_le _ _ _ (by omega)]; simp [vPlain, BCF_MAGIC, GZIP_MAGIC]
    simp only [detectCompression_plain _ h2, vDetectFormat_plain_bcf _ _ h3]; rfl
  · obtain ⟨hk, hl⟩ := h
    have hv := vDetectFormat_bgzf ((B.frame (vPlain .bcf body)).take k) (B.inflate ((B.frame (vPlain .bcf body)).take k)) hl
    rw [window_take B _ k 3 hl, if_pos (by simp [vPlain, BCF_MAGIC])] at hv
    simp only [detectCompression_bgzf _ (frame_window_magic B _ k hk), hv]; rfl

/-- Every SAM text the SAM writer can produce — any header, EMPTY header, no records, any read
names that pass the writer's `is_valid` (or are missing) — is recognised, uncompressed and
bgzipped, as soon as the first read delivers five bytes (or the whole stream). -/
theorem sam_writer_output_detected (B : BgzfLayer) (p : APayload) (hp : SamWritable p) (c : Comp)
    (k : Nat) (hk : 5 ≤ k) : aDetect B k (aStream B .sam c p) = .ok (.sam, c) := by
  apply detect_written_alignment
  have shape := samText_shape p hp
  cases c <;> simp only [APrefixOK]
  · rcases shape with h | ⟨t, h⟩ | h
    · rw [h]; simp [GZIP_MAGIC, BAM_MAGIC, CRAM_MAGIC]
    · rw [h]
      obtain ⟨k', rfl⟩ : ∃ k', k = k' + 5 := ⟨k - 5, by omega⟩
      simp [GZIP_MAGIC, BAM_MAGIC, CRAM_MAGIC, AT, List.take_succ_cons]
    · exact nameTab_not_magic _ h k hk
  · refine ⟨by omega, ?_⟩
    rcases shape with h | ⟨t, h⟩ | h
    · rw [h]; simp [BAM_MAGIC]
    · rw [h]; simp [BAM_MAGIC, AT]
    · have := (nameTab_not_magic _ h 5 (by omega)).2.1
      rwa [take_take_le _ _ _ (by omega)] at this

/-- The binary formats written raw are recognised whenever the first read delivers the magic
number (CRAM: with any format version up to 7.7 — the writer emits 3.0 / 3.1). -/
theorem binary_plain_detected (B : BgzfLayer) (p : APayload) (k : Nat) (hk : 4 ≤ k)
    (hv : p.cramVersion.1 ≤ 7 ∧ p.cramVersion.2 ≤ 7) (body : Bytes) :
    aDetect B k (aStream B .bam .plain p) = .ok (.bam, .plain) ∧
    aDetect B k (aStream B .cram .plain p) = .ok (.cram, .plain) ∧
    vDetect B k (vStream B .bcf .plain body) = .ok (.bcf, .plain) := by
  refine ⟨detect_written_alignment B _ _ p k hk, detect_written_alignment B _ _ p k ⟨hk, ?_⟩,
    detect_written_variant B _ _ body k (by simp only [VPrefixOK]; omega)⟩
  obtain ⟨k', rfl⟩ : ∃ k', k = k' + 4 := ⟨k - 4, by omega⟩
  simp only [aPlain, CRAM_MAGIC, List.cons_append, List.nil_append, List.take_succ_cons, List.drop_succ_cons,
    List.drop_zero, cramVersionOK, MAX_CRAM_VERSION_NUMBER]
  match k' with
  | 0 => simp
  | 1 => simp [hv.1]
  | k'' + 2 => simp [List.take_succ_cons, hv.1, hv.2]

/-- The detector looks at no more than the first six window bytes and the first four inflated
bytes (this is what lets the correspondence pass truncated windows to the model). -/
theorem detect_depends_on_prefix (fo : Option AFormat) (co : Option Comp) (w : Bytes) (i : Inflated)
    (n m : Nat) (hn : 6 ≤ n) (hm : 4 ≤ m) :
    aBuildWith fo co (w.take n) ⟨i.bytes.take m, i.stop⟩ = aBuildWith fo co w i := by
  have hc : detectCompression (w.take n) = detectCompression w := detectCompression_take w n (by omega)
  have hg : getPrefix 4 (w.take n) = getPrefix 4 w := by
    unfold getPrefix
    rw [take_take_le _ _ _ (by omega), List.length_take]
    by_cases h : 4 ≤ w.length
    · rw [if_pos h, if_pos (by omega)]
    · rw [if_neg h, if_neg (by omega)]
  have hd : cramVersionOK ((w.take n).drop 4) = cramVersionOK (w.drop 4) := by
    unfold cramVersionOK
    rw [List.drop_take, take_take_le _ _ _ (by omega)]
  have hr : (⟨i.bytes.take m, i.stop⟩ : Inflated).readExact 4 = i.readExact 4 := by
    unfold Inflated.readExact
    simp only [List.length_take, take_take_le _ _ _ hm]
    by_cases h : 4 ≤ i.bytes.length
    · rw [if_pos h, if_pos (by omega)]
    · rw [if_neg h, if_neg (by omega)]
  have hf : ∀ c, aDetectFormat (w.take n) ⟨i.bytes.take m, i.stop⟩ c = aDetectFormat w i c := by
    intro c
    cases c
    · simp only [aDetectFormat, hg, hd]
    · simp only [aDetectFormat, hr]
  unfold aBuildWith
  simp only [hc, hf]

/-- same for the variant builder: three window bytes, three inflated bytes -/
theorem detect_depends_on_prefix_variant (fo : Option VFormat) (co : Option Comp) (w : Bytes) (i : Inflated)
    (n m : Nat) (hn : 3 ≤ n) (hm : 3 ≤ m) :
    vBuildWith fo co (w.take n) ⟨i.bytes.take m, i.stop⟩ = vBuildWith fo co w i := by
  have hc : detectCompression (w.take n) = detectCompression w := detectCompression_take w n (by omega)
  have hg : getPrefix 3 (w.take n) = getPrefix 3 w := by
    unfold getPrefix
    rw [take_take_le _ _ _ (by omega), List.length_take]
    by_cases h : 3 ≤ w.length
    · rw [if_pos h, if_pos (by omega)]
    · rw [if_neg h, if_neg (by omega)]
  have hr : (⟨i.bytes.take m, i.stop⟩ : Inflated).readExact 3 = i.readExact 3 := by
    unfold Inflated.readExact
    simp only [List.length_take, take_take_le _ _ _ hm]
    by_cases h : 3 ≤ i.bytes.length
    · rw [if_pos h, if_pos (by omega)]
    · rw [if_neg h, if_neg (by omega)]
  have hf : ∀ c, vDetectFormat (w.take n) ⟨i.bytes.take m, i.stop⟩ c = vDetectFormat w i c := by
    intro c
    cases c
    · simp only [vDetectFormat, hg]
    · simp only [vDetectFormat, hr]
  unfold vBuildWith
  simp only [hc, hf]

/-- The alignment writer builder writes the format and compression it is asked for (CRAM cannot
be bgzipped: `InvalidInput`), and the documented defaults otherwise. -/
theorem writer_honours_request_alignment (f : AFormat) (c : Comp) :
    aWriterKind (some f) (some c) = (if f = .cram ∧ c = .bgzf then .error .invalidInput else .ok (f, c)) ∧
    aWriterKind (some f) none = .ok (f, if f = .bam then .bgzf else .plain) ∧
    aWriterKind none none = .ok (.sam, .plain) := by
  cases f <;> cases c <;> decide

/-- The variant writer builder writes the format and compression it is asked for; BCF defaults
to bgzipped, VCF to uncompressed. (False of the unfixed builder: the two BCF arms are swapped.) -/
theorem writer_honours_request_variant (f : VFormat) (c : Comp) :
    vWriterKind (some f) (some c) = (f, c) ∧
    vWriterKind (some f) none = (f, if f = .bcf then .bgzf else .plain) ∧
    vWriterKind none none = (.vcf, .plain) := by
  cases f <;> cases c <;> decide

/-- Write with the generic writer, read with the generic reader that is told nothing: when the
detector's answer is the written `(f, c)`, the result is the format's own round trip. -/
theorem generic_read_written {F Doc : Type} (B : BgzfLayer) (C : Codecs F Doc)
    (detect : Bytes → Except Err (F × Comp)) (f : F) (c : Comp) (d : Doc)
    (hdet : detect (gWrite B C f c d) = .ok (f, c)) :
    gRead B C detect (gWrite B C f c d) = .ok (C.nf f d) := by
  unfold gRead
  rw [hdet]
  cases c
  · simp only [gWrite, compress]; exact C.roundtrip f d
  · simp only [gWrite, compress, B.unframe_frame]; exact C.roundtrip f d

/-- …instantiated for the alignment family: for every document whose byte stream has the
writers' leading structure and satisfies `PrefixOK`. -/
theorem generic_read_written_alignment {Doc : Type} (B : BgzfLayer) (C : Codecs AFormat Doc)
    (f : AFormat) (c : Comp) (d : Doc) (p : APayload) (k : Nat)
    (hlead : C.plain f d = aPlain f p) (hok : APrefixOK B f c p k) :
    gRead B C (aDetect B k) (gWrite B C f c d) = .ok (C.nf f d) := by
  apply generic_read_written
  have := detect_written_alignment B f c p k hok
  simpa [gWrite, aStream, hlead] using this

/-- …and for the variant family. -/
theorem generic_read_written_variant {Doc : Type} (B : BgzfLayer) (C : Codecs VFormat Doc)
    (f : VFormat) (c : Comp) (d : Doc) (body : Bytes) (k : Nat)
    (hlead : C.plain f d = vPlain f body) (hok : VPrefixOK B f c body k) :
    gRead B C (vDetect B k) (gWrite B C f c d) = .ok (C.nf f d) := by
  apply generic_read_written
  have := detect_written_variant B f c body k hok
  simpa [gWrite, vStream, hlead] using this

/-- Conversion: reader of `(f, c)` piped into the writer of `(g, c')` and read back is the
composition of the two formats' normal forms — every record survives at the data-model level
exactly as far as the two per-format round-trip theorems (C05–C10) say. -/
theorem convert_preserves {F Doc : Type} (B : BgzfLayer) (C : Codecs F Doc)
    (detect : Bytes → Except Err (F × Comp)) (f g : F) (c c' : Comp) (d : Doc)
    (h₁ : detect (gWrite B C f c d) = .ok (f, c))
    (h₂ : detect (gWrite B C g c' (C.nf f d)) = .ok (g, c')) :
    (gRead B C detect (gWrite B C f c d) >>= fun d₁ => gRead B C detect (gWrite B C g c' d₁))
      = .ok (C.nf g (C.nf f d)) := by
  rw [generic_read_written B C detect f c d h₁]
  exact generic_read_written B C detect g c' _ h₂

/-! ### `PrefixOK` is a real restriction: negation witnesses (each replayed on the real code) -/

/-- a reader that delivers one byte on the first `read` defeats detection: raw BAM is taken for
uncompressed SAM (known finding: `fill_buf` is called once) -/
theorem short_first_read_defeats_detection :
    aDetect storedLayer 1 (aStream storedLayer .bam .plain {}) = .ok (.sam, .plain) ∧
    aDetect storedLayer 1 (aStream storedLayer .bam .bgzf {}) = .ok (.sam, .plain) ∧
    vDetect storedLayer 2 (vStream storedLayer .bcf .plain []) = .ok (.vcf, .plain) := by decide

/-- a header-less SAM whose first read is named `CRAM1` is still taken for CRAM when the first
read delivers exactly the four magic bytes (with five it is SAM — FIX 2) -/
theorem cram_named_read_needs_five_bytes :
    let p : APayload := { recs := [⟨some [0x43, 0x52, 0x41, 0x4d, 0x31], [0x34]⟩] }
    aDetect storedLayer 4 (aStream storedLayer .sam .plain p) = .ok (.cram, .plain) ∧
    aDetect storedLayer 5 (aStream storedLayer .sam .plain p) = .ok (.sam, .plain) := by decide

/-- text that begins with a binary magic number (not producible by the SAM writer, which rejects
such read names) is misdetected: the first two conjuncts of `APrefixOK … sam plain` are needed -/
theorem magic_looking_text_misdetected :
    aDetect storedLayer 64 (aStream storedLayer .sam .plain { recs := [⟨some [0x42, 0x41, 0x4d, 0x01], []⟩] })
      = .ok (.bam, .plain) ∧
    aDetect storedLayer 64 (aStream storedLayer .sam .bgzf { recs := [⟨some [0x42, 0x41, 0x4d, 0x01], []⟩] })
      = .ok (.bam, .bgzf) := by decide

/-- a window that shows the gzip magic number but inflates to fewer than four bytes: a bgzipped
BAM is then taken for SAM.gz (the last conjunct of `APrefixOK … bam bgzf`) -/
theorem short_inflated_window_defeats_bam :
    aDetect storedLayer 5 (aStream storedLayer .bam .bgzf {}) = .ok (.sam, .bgzf) := by decide

/-- the empty `SAM.gz` (no header, no records) is recognised (FIX 1; the unfixed code answers
`UnexpectedEof`) -/
theorem empty_sam_gz_detected (B : BgzfLayer) (k : Nat) (hk : 5 ≤ k) :
    aDetect B k (aStream B .sam .bgzf {}) = .ok (.sam, .bgzf) :=
  sam_writer_output_detected B {} (by intro r hr; simp at hr) .bgzf k hk

/-! ### non-vacuity -/

example : APrefixOK storedLayer .bam .bgzf { body := [0, 0, 0, 0] } 8192 := by decide
example : APrefixOK storedLayer .sam .plain { recs := [⟨some [0x43, 0x52, 0x41, 0x4d, 0x31], [0x34]⟩] } 8192 := by decide
example : APrefixOK storedLayer .cram .plain {} 8192 := by decide
example : VPrefixOK storedLayer .bcf .bgzf [0, 0, 0, 0] 8192 := by decide
example : SamWritable { hdr := [[0x48, 0x44]], recs := [⟨some [0x72, 0x30], [0x34]⟩, ⟨none, []⟩] } := by
  intro r hr n hn
  simp at hr
  rcases hr with rfl | rfl
  · cases hn; decide
  · cases hn

end Noodles.Props.C20
