import Noodles.Cram.EncSpec
import Noodles.Cram.BitsProof
import Noodles.Cram.HuffmanProof
import Noodles.Cram.EncodingProof
import Noodles.Cram.RecordCodecProof
import Noodles.Cram.ValidateProof
import Noodles.Cram.CompressionHeaderProof
import Noodles.Cram.RefCtxProof
/-!
# C07 (extension) — CRAM data-series encodings, bit I/O and the record codec

Models: `Noodles/Cram/{Bits,Encoding,RecordCodec}.lean` (transcriptions), `EncSpec.lean`
(specification-side notions). Helper lemmas: `Noodles/Cram/{Bits,Huffman,Encoding,RecordCodec}Proof.lean`.
-/
namespace Noodles.Props.C07
open Noodles.Cram Noodles.Cram.Enc
open Noodles.Cram.Num (writeItf8)

/-! ## bit I/O -/

/-- **Bit layout.** A run of `write_u32(value, len)` calls (`len ≤ 32`) followed by `finish` yields
bytes whose bit string, most significant bit first, is the `len` low bits of each value, most
significant first, in call order, padded with fewer than 8 zero bits. -/
theorem bits_layout (ops : List (Nat × Nat)) (h : ∀ op ∈ ops, op.2 ≤ 32) :
    ∃ w bytes pad, writeAll {} ops = .ok w ∧ w.finish = .ok bytes ∧ pad < 8 ∧ (∀ b ∈ bytes, b < 256) ∧
      bytesBits bytes = ops.flatMap (fun op => codeBits op.1 op.2) ++ List.replicate pad false :=
  writeAll_finish ops h

/-- **Bit round trip.** What `BitWriter` wrote, `BitReader` reads back: for every run of writes of at
most 31 bits each (`read_u32` refuses 32), reading the same lengths from the finished bytes (followed
by anything) returns every value modulo `2^len`. -/
theorem bits_roundtrip (ops : List (Nat × Nat)) (h : ∀ op ∈ ops, op.2 ≤ 31) (rest : List Nat) :
    ∃ w bytes, writeAll {} ops = .ok w ∧ w.finish = .ok bytes ∧
      ∃ r, readAll (BitReader.new (bytes ++ rest)) (ops.map (·.2)) = .ok (ops.map (fun op => op.1 % 2 ^ op.2), r) :=
  writeAll_readAll ops h rest

/-- the asymmetry: a 32-bit write is accepted, a 32-bit read is not -/
example : ((({} : BitWriter).writeU32 0xdeadbeef 32).toOption.isSome = true) ∧
    (BitReader.new [0xde, 0xad, 0xbe, 0xef]).readU32 32 = .error .invalidInput := ⟨rfl, rfl⟩

/-! ## canonical Huffman code -/

/-- **The canonical code is a prefix code.** For code lengths satisfying Kraft's inequality the code
book `build_canonical_code_book` builds gives every symbol a word of its declared length, and no
symbol's word is a prefix of another's. -/
theorem huffman_prefix_free (alphabet : List Int) (lens : List Nat) (L : Nat) (h : HuffOK alphabet lens L)
    (hne : alphabet ≠ []) :
    ∃ book, buildCodeBook alphabet lens = .ok book ∧
      (∀ (i : Nat) (s : Int) (l : Nat), alphabet[i]? = some s → lens[i]? = some l → ∃ w, huffEncode book s = some w ∧ w.length = l) ∧
      (∀ s₁ s₂ w₁ w₂, huffEncode book s₁ = some w₁ → huffEncode book s₂ = some w₂ → s₁ ≠ s₂ → ¬ w₁ <+: w₂) :=
  huffman_prefix_free' alphabet lens L h hne

/-- **Huffman round trip.** `CanonicalHuffmanDecoder::decode` reads exactly a symbol's canonical code
word and returns the symbol. -/
theorem huffman_roundtrip (alphabet : List Int) (lens : List Nat) (L : Nat) (h : HuffOK alphabet lens L)
    (s : Int) (hs : s ∈ alphabet) (r : BitReader) (hr : r.OK) (t : List Bool) :
    ∃ book w, buildCodeBook alphabet lens = .ok book ∧ huffEncode book s = some w ∧
      (r.rem = w ++ t → ∃ r', huffDecode alphabet lens r = .ok (s, r') ∧ r'.rem = t ∧ r'.OK) :=
  huffman_roundtrip' alphabet lens L h s hs r hr t

/-- **Huffman integer / byte encodings**, including the one-symbol alphabet, whose code has 0 bits:
nothing is read. -/
theorem huffman_encoding_roundtrip (alphabet : List Int) (lens : List Nat) (L : Nat) (h : HuffOK alphabet lens L)
    (h1 : alphabet.length = 1 → lens = [0])
    (s : Int) (hs : s ∈ alphabet) (st : RS) (hr : st.core.OK) (t : List Bool) :
    ∃ book w, buildCodeBook alphabet lens = .ok book ∧ huffEncode book s = some w ∧
      (st.core.rem = w ++ t → ∃ r', r'.rem = t ∧ r'.OK ∧
        (IntEnc.huffman alphabet lens).decode st = .ok (s, { st with core := r' }) ∧
        (ByteEnc.huffman alphabet lens).decode st = .ok (Num.toU 8 s, { st with core := r' })) :=
  huffman_encoding_roundtrip' alphabet lens L h h1 s hs st hr t

/-- the hypotheses are satisfiable: the code of the noodles unit test (`A`:1, `B`–`D`:3, `E`,`F`:4) -/
example : HuffOK [65, 66, 67, 68, 69, 70] [1, 3, 3, 3, 4, 4] 4 :=
  ⟨rfl, by decide, by decide, by decide, by decide, by decide⟩

/-- a complete code with a 31-bit word: `code += 1` after the last symbol leaves `i32` (the reason for
`HuffOK.small`) — a panic under overflow checks before the fix `cram-encoding-decoders-panic`, a
wrapping addition after it: the code book is built -/
example : (match buildCodeBook ((List.range 32).map Int.ofNat) ((List.range 31).map (· + 1) ++ [31]) with
    | .ok book => book.length == 32
    | .error _ => false) = true := by
  decide

/-! ## Beta and Gamma -/

/-- **Beta round trip**: `len ≤ 31` bits of `v + offset`, for `0 ≤ v + offset < 2^len`. -/
theorem beta_roundtrip (offset : Int) (len : Nat) (v : Int) (hl : len ≤ 31) (hv : isI32 v)
    (h0 : 0 ≤ v + offset) (h1 : v + offset < 2 ^ len) (st : RS) (hr : st.core.OK) (t : List Bool)
    (hrem : st.core.rem = betaBits offset len v ++ t) :
    ∃ r', r'.rem = t ∧ r'.OK ∧ (IntEnc.beta offset len).decode st = .ok (v, { st with core := r' }) :=
  beta_decode offset len v hl hv h0 h1 st hr t hrem

/-- **Gamma round trip**: Elias gamma of `v + offset`, for `1 ≤ v + offset < 2^31`. -/
theorem gamma_roundtrip (offset : Int) (v : Int) (hv : isI32 v)
    (h0 : 1 ≤ v + offset) (h1 : v + offset < 2 ^ 31) (st : RS) (hr : st.core.OK) (t : List Bool)
    (hrem : st.core.rem = gammaBits offset v ++ t) :
    ∃ r', r'.rem = t ∧ r'.OK ∧ (IntEnc.gamma offset).decode st = .ok (v, { st with core := r' }) :=
  gamma_decode offset v hv h0 h1 st hr t hrem

/-! ## External, ByteArrayStop, ByteArrayLength -/

/-- **External integer**: ITF8 appended to / read from the block. -/
theorem external_int_roundtrip (id v : Int) (hv : isI32 v) (ws : WS) (pre : List Nat) (hws : ws.ext id = some pre)
    (rs : RS) (rest : List Nat) :
    ∃ ws', (IntEnc.external id).encode ws v = .ok ws' ∧ ws'.ext id = some (pre ++ writeItf8 v) ∧
      (rs.ext id = some (writeItf8 v ++ rest) → (IntEnc.external id).decode rs = .ok (v, rs.set id rest)) :=
  external_int_rt id v hv ws pre hws rs rest

/-- **External byte** and **External byte run** (`encode_extend` / `decode_take`). -/
theorem external_byte_roundtrip (id : Int) (b : Nat) (bs : List Nat) (ws : WS) (pre : List Nat)
    (hws : ws.ext id = some pre) (rs : RS) (rest : List Nat) :
    (∃ ws', (ByteEnc.external id).encode ws b = .ok ws' ∧ ws'.ext id = some (pre ++ [b]) ∧
      (rs.ext id = some (b :: rest) → (ByteEnc.external id).decode rs = .ok (b, rs.set id rest))) ∧
    (∃ ws', (ByteEnc.external id).encodeExtend ws bs = .ok ws' ∧ ws'.ext id = some (pre ++ bs) ∧
      (rs.ext id = some (bs ++ rest) → bs ≠ [] →
        (ByteEnc.external id).decodeTake rs bs.length = .ok (bs, rs.set id rest)) ∧
      (bs = [] → (ByteEnc.external id).decodeTake rs bs.length = .ok ([], rs))) :=
  ⟨external_byte_rt id b ws pre hws rs rest, external_bytes_rt id bs ws pre hws rs rest⟩

/-- **ByteArrayStop**: the value, then the stop byte — for values that do not contain it. -/
theorem bytearray_stop_roundtrip (sb : Nat) (id : Int) (v : List Nat) (hv : sb ∉ v) (ws : WS) (pre : List Nat)
    (hws : ws.ext id = some pre) (rs : RS) (rest : List Nat) :
    ∃ ws', (ByteArrayEnc.stop sb id).encode ws v = .ok ws' ∧ ws'.ext id = some (pre ++ v ++ [sb]) ∧
      (rs.ext id = some (v ++ [sb] ++ rest) → (ByteArrayEnc.stop sb id).decode rs = .ok (v, rs.set id rest)) :=
  bytearray_stop_rt sb id v hv ws pre hws rs rest

/-- a value containing the stop byte is written without complaint and read back cut short -/
example : ∃ ws', (ByteArrayEnc.stop 0 7).encode ⟨{}, fun _ => some []⟩ [65, 0, 66] = .ok ws' ∧
    ((ByteArrayEnc.stop 0 7).decode ⟨BitReader.new [], ws'.ext⟩).toOption.map (·.1) = some [65] :=
  ⟨_, rfl, by decide⟩

/-- **ByteArrayLength over one block** (length and values in the same External block — what the
writer builds for `QQ` and for every tag). -/
theorem bytearray_len_roundtrip (id : Int) (v : List Nat) (hv : v.length < 2 ^ 31) (ws : WS) (pre : List Nat)
    (hws : ws.ext id = some pre) (rs : RS) (rest : List Nat) :
    ∃ ws', (ByteArrayEnc.len (.external id) (.external id)).encode ws v = .ok ws' ∧
      ws'.ext id = some (pre ++ writeItf8 v.length ++ v) ∧
      (rs.ext id = some (writeItf8 v.length ++ v ++ rest) →
        ∃ rs', (ByteArrayEnc.len (.external id) (.external id)).decode rs = .ok (v, rs') ∧
          rs'.ext id = some rest ∧ ∀ j, j ≠ id → rs'.ext j = rs.ext j) :=
  bytearray_len_rt id v hv ws pre hws rs rest

/-! ## parameters in the compression header -/

/-- **Integer encoding parameters round trip**: all seven codecs. -/
theorem int_encoding_params_roundtrip (e : IntEnc) (h : e.ParamsOK) (rest : List Nat) :
    ∃ bs, e.write = .ok bs ∧ IntEnc.read (bs ++ rest) = .ok (e, rest) :=
  let ⟨bs, h1, _, h2⟩ := IntEnc.params_ok e h; ⟨bs, h1, h2 rest⟩

/-- **Byte encoding parameters round trip.** -/
theorem byte_encoding_params_roundtrip (e : ByteEnc) (h : e.ParamsOK) (rest : List Nat) :
    ∃ bs, e.write = .ok bs ∧ ByteEnc.read (bs ++ rest) = .ok (e, rest) :=
  let ⟨bs, h1, _, h2⟩ := ByteEnc.params_ok e h; ⟨bs, h1, h2 rest⟩

/-- **Byte array encoding parameters round trip** (nested encodings included). -/
theorem bytearray_encoding_params_roundtrip (e : ByteArrayEnc) (h : e.ParamsOK) (rest : List Nat) :
    ∃ bs, e.write = .ok bs ∧ ByteArrayEnc.read (bs ++ rest) = .ok (e, rest) :=
  let ⟨bs, h1, h2⟩ := ByteArrayEnc.params_ok e h; ⟨bs, h1, h2 rest⟩

/-- non-vacuity: a Huffman length encoding nested in a ByteArrayLength -/
example : (ByteArrayEnc.len (.huffman [1, 2, 3] [1, 2, 2]) (.external 5)).ParamsOK := by
  refine ⟨⟨?_, ?_, by decide⟩, ?_, by decide⟩
  · intro a ha; simp at ha; rcases ha with rfl | rfl | rfl <;> exact ⟨by decide, by decide⟩
  · intro l hl; simp at hl; rcases hl with rfl | rfl | rfl <;> decide
  · exact ⟨by decide, by decide⟩

/-- **Compression header round trip**: preservation map (names / delta flags, substitution matrix, tag
sets dictionary), the data series encodings map and the tag encodings map. Whatever
`write_compression_header` writes for a header the format can carry (`CHdr.OK`; the writer itself
refuses maps too long for an ITF8 length), `read_compression_header` reads back as the same header —
tag encodings in the order they were written. -/
theorem compression_header_roundtrip (h : CHdr) (hok : h.OK) (bs : List Nat) (hw : writeCHdr h = .ok bs)
    (rest : List Nat) : readCHdr (bs ++ rest) = .ok (h, rest) :=
  readCHdr_write h hok bs hw rest

set_option maxRecDepth 100000 in
/-- the header the writer builds by default (`DataSeriesEncodings::init`, default substitution matrix)
with two tag sets and their encodings is such a header, and is written -/
example : (⟨true, false, true, readBases, [[], [⟨78, 72, 67⟩, ⟨67, 79, 90⟩]], DSE.init,
    [(5130307, .len (.external 5130307) (.external 5130307)), (4411226, .len (.external 4411226) (.external 4411226))]⟩ : CHdr).OK
    ∧ (writeCHdr ⟨true, false, true, readBases, [[], [⟨78, 72, 67⟩, ⟨67, 79, 90⟩]], DSE.init,
    [(5130307, .len (.external 5130307) (.external 5130307)), (4411226, .len (.external 4411226) (.external 4411226))]⟩).toOption.isSome = true := by
  refine ⟨⟨⟨rfl, fun i row h => ⟨row, h, List.Perm.refl _⟩⟩, ?_, ?_, ?_⟩, ?_⟩
  · intro keys hk k hkk
    simp only [List.mem_cons, List.not_mem_nil, or_false] at hk
    rcases hk with rfl | rfl
    · cases hkk
    · simp only [List.mem_cons, List.not_mem_nil, or_false] at hkk
      rcases hkk with rfl | rfl <;> decide
  · simp only [DSE.ParamsOK, DSE.init, optOK, IntEnc.ParamsOK, ByteEnc.ParamsOK, ByteArrayEnc.ParamsOK, isI32]
    decide
  · intro p hp
    simp only [List.mem_cons, List.not_mem_nil, or_false] at hp
    rcases hp with rfl | rfl <;>
      simp only [ByteArrayEnc.ParamsOK, IntEnc.ParamsOK, ByteEnc.ParamsOK, isI32] <;> decide
  · decide

/-! ## the record codec -/

/-- **Record series round trip.** For every compression header (any assignment of encodings and
content ids, shared blocks included; names preserved or not; absolute or delta positions), every
reference context and every list of records of the shape the writer produces: if `write_records`
succeeds (it does exactly for the encodings noodles can encode: External, ByteArrayStop,
ByteArrayLength over External), then reading `len` records from the core data and the non-empty
external blocks returns, record by record, what the series store (`stored`), for every flag
combination — detached / attached-downstream / attached-last, mapped / unmapped, with or without
quality array, every feature kind, any tag line. -/
theorem record_series_roundtrip (ch : CH) (ctx : RefCtx) (recs : List CRec) (hwf : ∀ r ∈ recs, WF ch ctx r)
    (core : List Nat) (ext : Int → Option (List Nat)) (hw : writeRecords ch ctx recs = .ok (core, ext)) :
    readRecords ch ctx recs.length core (blocksOf ext) = .ok (recs.map (stored ch ctx)) :=
  record_series_roundtrip' ch ctx recs hwf core ext hw

/-- **What the writer produces passes the reader's validation.** For every reference, alignment start,
substitution matrix, read and CIGAR that does not consume more bases than the read has (what
`cigar_to_features` checks first), the feature list `cigar_to_features` builds is accepted by the
reader's `validate_features`: ordered, not overlapping, inside the read. -/
theorem features_pass_validation (ref : List Nat) (start : Nat) (c : Cigar) (seq quals : List Nat) (m : Matrix)
    (h : readLen c ≤ seq.length) :
    validateFeatures seq.length (features ref start c seq quals m) = .ok () :=
  validateFeatures_features ref start c seq quals m h

/-- a record in stored form is stored verbatim -/
theorem stored_verbatim (ch : CH) (ctx : RefCtx) (r : CRec) (h : Verbatim ch ctx r) : stored ch ctx r = r :=
  stored_verbatim' ch ctx r h

/-- **Exact form**: records in stored form come back unchanged. -/
theorem record_series_roundtrip_exact (ch : CH) (ctx : RefCtx) (recs : List CRec) (hwf : ∀ r ∈ recs, WF ch ctx r)
    (hv : ∀ r ∈ recs, Verbatim ch ctx r)
    (core : List Nat) (ext : Int → Option (List Nat)) (hw : writeRecords ch ctx recs = .ok (core, ext)) :
    readRecords ch ctx recs.length core (blocksOf ext) = .ok recs := by
  rw [record_series_roundtrip ch ctx recs hwf core ext hw]
  congr 1
  conv => rhs; rw [← List.map_id recs]
  exact List.map_congr_left fun r hr => stored_verbatim ch ctx r (hv r hr)

/-- **The slice's reference context covers its records.** The context `get_reference_sequence_context`
computes (the code after the fix "cram writer dropped the reference sequence of a record without an
alignment start") agrees with every record of the slice: a single-reference context names every
record's reference id, an unmapped context is taken only when no record has one. -/
theorem refctx_covers (recs : List CRec) (ctx : RefCtx) (h : getRefCtx recs = .ok ctx) (r : CRec) (hr : r ∈ recs) :
    (∀ id s e, ctx = .some id s e → r.refId = some id) ∧ (ctx = .none → r.refId = none) :=
  getRefCtx_covers recs ctx h r hr

/-- The witness against the code BEFORE that fix (replayed on the real code by the harness: corpus slice
`corpus-ref-without-position`, and `r1 4 sq1 0 …` through the public writer/reader): a single record
with a reference id and no alignment start. The unfixed first-record rule `_ => None` gives the
unmapped context, under which the id is not written and not implied — the fixed rule gives `Many`. -/
example : getRefCtx [{ bamFlags := 4, cramFlags := 3, refId := some 1 }] = .ok .many ∧
    (stored {} .none { bamFlags := 4, cramFlags := 3, refId := some 1 }).refId = none := ⟨rfl, rfl⟩

/-- **Slice round trip with the writer's own context.** For records of the writer's shape (`WF` under
the multi-reference context, i.e. without any assumption about reference ids) written under the
context the writer computes for them, reading returns what the series store. -/
theorem slice_series_roundtrip (ch : CH) (recs : List CRec) (ctx : RefCtx) (hctx : getRefCtx recs = .ok ctx)
    (hwf : ∀ r ∈ recs, WF ch .many r)
    (core : List Nat) (ext : Int → Option (List Nat)) (hw : writeRecords ch ctx recs = .ok (core, ext)) :
    readRecords ch ctx recs.length core (blocksOf ext) = .ok (recs.map (stored ch ctx)) := by
  refine record_series_roundtrip ch ctx recs (fun r hr => ?_) core ext hw
  have w := hwf r hr
  have c := refctx_covers recs ctx hctx r hr
  exact { w with ctxSome := c.1, ctxNone := c.2 }

end Noodles.Props.C07
