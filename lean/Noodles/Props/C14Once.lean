import Noodles.Io.BgzfOnce
import Noodles.Io.BgzfOnceProof
import Noodles.Props.C14More
/-!
# C14, transient failures: `bgzf::io::Writer` over a destination that fails ONCE, caller goes on

Model: `Noodles/Io/BgzfOnce.lean` (`WP.Once`: the writer of `Noodles/Bgzf/SinkModel.lean`, the
destination `ScriptSink { fail_once: true }`, four caller policies after an `Err`: stop, retry the
same call, go on with the next call, only the finishing call). Helper lemmas:
`Noodles/Io/BgzfOnceProof.lean`. The theorems quantify over EVERY list of writer programs (calls),
every destination script (short writes, `Interrupted`), every failure index `k`, every error kind,
every policy, every compression level and — except where `D.Lawful` is assumed — any DEFLATE library.

The answer to "can a transient failure corrupt the file with NO error reported?" is no
(`once_all_ok_complete`); "error reported once, caller carries on, every later call including
`try_finish` says `Ok`, file is garbage" is real (`once_reported_then_ok_but_corrupt`), because
`flush_block` rewrites the whole frame behind the part of it that the destination had accepted
(`once_failed_flush_keeps_block`), and a retried `write_all` returns `WriteZero` and, retried once
more, stages its bytes twice (`once_retried_write_all_is_write_zero`).
-/
namespace Noodles.Props.C14
open Noodles.Bgzf Noodles.Codec Noodles.WP Noodles.WP.Once
open Noodles.Bgzf.SM (Sink FW WErr)

/-- **(a) The call during which the destination fails returns the destination's error** — whatever
the writer went through before (any state `s` a caller can be in between two calls), whatever the
call is (any writer program). -/
theorem once_failure_reported_by_its_call (D : Deflater) (lvl : Nat) (c : WProg) (s : St)
    (h : s.w.sink.failed = false)
    (hf : (exec (bgzf D lvl) c s.w).2.sink.failed = true) :
    (call D lvl c s).1 = some (.sink s.w.sink.kind) :=
  exec_reports_failure (bgzf_lawful D lvl) c s.w h hf

/-- … and conversely a call returns a destination error only if the destination failed during
THAT call: an old failure is never reported a second time, a recovered destination is not blamed. -/
theorem once_sink_error_only_from_failing_call (D : Deflater) (lvl : Nat) (c : WProg) (s : St)
    (h : s.w.sink.failed = false) (k : Nat) (hr : (call D lvl c s).1 = some (.sink k)) :
    (exec (bgzf D lvl) c s.w).2.sink.failed = true ∧ k = s.w.sink.kind := by
  rcases call_cases D lvl c s h with ⟨a1, _⟩ | ⟨a1, a2⟩ | ⟨_, a1, _⟩
  · rw [a1] at hr; cases hr
  · rw [a1] at hr; injection hr with hr; injection hr with hr; exact ⟨a2, hr.symm⟩
  · rw [a1] at hr; cases hr

/-- **(a) for every policy.** Whatever the caller does after an `Err` (stop / retry the call /
next call / only the finishing call): if the destination failed during the run, the destination's
error is among the results the caller saw. -/
theorem once_every_policy_reports (D : Deflater) (lvl : Nat) (pol : Policy) (cs : List WProg)
    (S : Sink) (hS : S.failed = false)
    (hf : (runPol D lvl pol cs (St.init S)).2.hit = true) :
    some (WErr.sink S.kind) ∈ (runPol D lvl pol cs (St.init S)).1 := by
  obtain ⟨_, _, h⟩ := runPol_rep D lvl pol cs (St.init S) (Inv_init S hS)
  rcases h hf with a | a
  · cases a
  · exact a

/-- contrapositive: every call `Ok` ⇒ the destination never failed -/
theorem once_all_ok_never_failed (D : Deflater) (lvl : Nat) (pol : Policy) (cs : List WProg)
    (S : Sink) (hS : S.failed = false)
    (hok : ∀ r ∈ (runPol D lvl pol cs (St.init S)).1, r = none) :
    (runPol D lvl pol cs (St.init S)).2.hit = false := by
  cases hh : (runPol D lvl pol cs (St.init S)).2.hit with
  | false => rfl
  | true => cases hok _ (once_every_policy_reports D lvl pol cs S hS hh)

theorem andThen_pure {σ : Type} (o : Option WErr × σ) : andThen o (fun s => (none, s)) = o := by
  obtain ⟨r, s⟩ := o
  cases r <;> rfl

theorem exec_seqAll_snoc {σ : Type} (I : Impl σ) (cs : List WProg) (q : WProg) (s : σ) :
    exec I (seqAll (cs ++ [q])) s = exec I (.seq (seqAll cs) q) s := by
  induction cs generalizing s with
  | nil =>
    show andThen (exec I q s) (exec I .skip) = andThen (none, s) (exec I q)
    exact andThen_pure _
  | cons c cs ih =>
    show andThen (exec I c s) (exec I (seqAll (cs ++ [q]))) =
      andThen (andThen (exec I c s) (exec I (seqAll cs))) (exec I q)
    cases hR : exec I c s with
    | mk r s1 =>
      cases r with
      | some e => rfl
      | none => exact ih s1

/-- **(b) No corruption without a reported error.** For every policy, every failure index and
kind, every script: if EVERY call the caller made returned `Ok` and the last one was `try_finish`,
the destination holds a BGZF file that reads back to exactly the bytes handed over, and it never
failed. (So with a transient failure the only way to a corrupt file is through an `Err` that the
caller has seen.) -/
theorem once_all_ok_complete (D : Deflater) (hD : D.Lawful) (lvl : Nat) (pol : Policy)
    (cs : List WProg) (S : Sink) (hS : S.failed = false) (hA : S.accepted = [])
    (hp : (seqAll cs).noFinish = true)
    (hok : ∀ r ∈ (runPol D lvl pol (cs ++ [.finish]) (St.init S)).1, r = none) :
    readToEnd D (runPol D lvl pol (cs ++ [.finish]) (St.init S)).2.w.sink.accepted
      = .ok (seqAll cs).bytes ∧
    (runPol D lvl pol (cs ++ [.finish]) (St.init S)).2.hit = false := by
  obtain ⟨h1, h2, h3, _⟩ := runPol_all_ok D lvl pol (cs ++ [.finish]) (St.init S) (Inv_init S hS) hok
  refine ⟨?_, h3⟩
  obtain ⟨e1, e2⟩ := runCalls_exec (bgzf D lvl) (cs ++ [.finish]) 0 (St.init S).w
  rw [h1, e1, exec_seqAll_snoc]
  apply bgzf_all_ok_complete D hD lvl (seqAll cs) S hS hA hp
  rw [h2, exec_seqAll_snoc] at e2
  exact e2.symm

/-- non-vacuity of `once_all_ok_complete`: the failure index is beyond the run -/
example :
    (runPol idD 6 .retry ([.emit [65], .flush, .emit [66]] ++ [.finish])
      (St.init (Sink.fresh [.interrupted] 3 (some 99) 7))).1 = [none, none, none, none] := by
  decide

/-- **(b) What a failed flush leaves behind** (`flush_block`: `staging_buf.clear()` and
`position += block_size` come after `write_frame(...)?`): the block is still staged and
`position()` is unchanged, so the next `flush` / `try_finish` / `Drop` — or the next `write` that
fills the buffer — writes the WHOLE frame again, behind whatever part of it the destination had
already accepted. -/
theorem once_failed_flush_keeps_block (D : Deflater) (lvl : Nat) (w : FW) (e : WErr)
    (h : (SM.flush D lvl w).1 = some e) :
    (SM.flush D lvl w).2.staging = w.staging ∧ (SM.flush D lvl w).2.position = w.position :=
  flush_err_keeps_block D lvl w e h

/-- **(b) Exactly what the destination holds after a failed flush**: what it held, followed by a
PROPER prefix of the frame of the staged block (cut where the failing `write` call began — the
frame is fourteen `write_all`s, each possibly several short `write`s). Any DEFLATE library, any
script, any `k`. -/
theorem once_failed_flush_accepts_proper_prefix (D : Deflater) (lvl : Nat) (w : FW) (k : Nat)
    (hnf : w.sink.failed = false) (h : (SM.flush D lvl w).1 = some (.sink k)) :
    ∃ cdata pre suf, encodeBlock D lvl w.staging = .ok cdata ∧
      mkFrame cdata (D.crc w.staging) w.staging.length = pre ++ suf ∧ suf ≠ [] ∧
      (SM.flush D lvl w).2.sink.accepted = w.sink.accepted ++ pre :=
  flush_err_pre D lvl w k hnf h

/-- **(b) … and after the caller's retry returned `Ok`**: what it held, the accepted part `pre` of
the frame, then the WHOLE frame, and nothing is staged any more. So the file is intact exactly
when `pre = []` (the failure hit the first `write` of the frame); otherwise `pre` — 1 to
`frame.length - 1` stray bytes that begin like a BGZF header — sits in the middle of a file all of
whose later calls report `Ok`. -/
theorem once_retried_flush_layout (D : Deflater) (lvl : Nat) (w : FW) (k : Nat)
    (hnf : w.sink.failed = false) (h : (SM.flush D lvl w).1 = some (.sink k))
    (hre : (SM.flush D lvl (recoverW (SM.flush D lvl w).2)).1 = none) :
    ∃ cdata pre suf, encodeBlock D lvl w.staging = .ok cdata ∧
      mkFrame cdata (D.crc w.staging) w.staging.length = pre ++ suf ∧ suf ≠ [] ∧
      (SM.flush D lvl (recoverW (SM.flush D lvl w).2)).2.sink.accepted =
        w.sink.accepted ++ pre ++ mkFrame cdata (D.crc w.staging) w.staging.length ∧
      (SM.flush D lvl (recoverW (SM.flush D lvl w).2)).2.staging = [] :=
  flush_retry_layout D lvl w k hnf h hre

/-- non-vacuity of the two: one staged byte, the destination fails once at its 4th call -/
example :
    (SM.flush idD 6 ⟨[65], 0, Sink.fresh [] 100 (some 3) 7⟩).1 = some (.sink 7) ∧
    (SM.flush idD 6 (recoverW (SM.flush idD 6 ⟨[65], 0, Sink.fresh [] 100 (some 3) 7⟩).2)).1 = none := by
  decide

/-- **(c) Short writes and `Interrupted` stay invisible after the transient failure.** Two callers
in the same writer state (same staged bytes, `position()`, destination contents — e.g. right after
the same reported failure) over destinations that will not fail again (what `recover` leaves:
`once_recovered_is_healthy`), with ANY two scripts of partial acceptances and interruptions (any
number, any position): every call returns the same result on both, and when it is `Ok` the staged
bytes, `position()` and the destination contents agree again. -/
theorem once_interrupted_invisible (D : Deflater) (lvl : Nat) (c : WProg) (s₁ s₂ : St)
    (h1 : s₁.w.sink.failed = false) (h2 : s₂.w.sink.failed = false)
    (f1 : s₁.w.sink.failAt = none) (f2 : s₂.w.sink.failAt = none) (hA : s₁.w.pure = s₂.w.pure) :
    (call D lvl c s₁).1 = (call D lvl c s₂).1 ∧
    ((call D lvl c s₁).1 = none → (call D lvl c s₁).2.w.pure = (call D lvl c s₂).2.w.pure) := by
  obtain ⟨a, b⟩ := exec_short_identical (bgzf_lawful D lvl) c s₁.w s₂.w h1 h2 f1 f2 hA
  refine ⟨a, fun h => ?_⟩
  rw [call_w, call_w, recoverW_pure, recoverW_pure]
  exact b h

/-- the state a caller is in after a call during which the destination failed: healthy, no
scripted failure left — the hypotheses of `once_interrupted_invisible` -/
theorem once_recovered_is_healthy (D : Deflater) (lvl : Nat) (c : WProg) (s : St)
    (hf : (exec (bgzf D lvl) c s.w).2.sink.failed = true) :
    (call D lvl c s).2.w.sink.failed = false ∧ (call D lvl c s).2.w.sink.failAt = none := by
  refine ⟨call_inv D lvl c s, ?_⟩
  rw [call_w]
  unfold recoverW
  rw [if_pos hf]
  rfl

/-- **The counterexample class, exactly.** One byte, then `try_finish`; the destination fails ONCE
at its 4th call (inside the frame header: magic, CM, FLG accepted = 4 bytes). Under `retry` the
caller sees `[Ok, Err(kind 7), Ok]` — the error IS reported — and after the retried `try_finish`
returned `Ok` the destination holds the 4 stray bytes followed by the complete healthy file, which
is not a BGZF file. -/
theorem once_reported_then_ok_but_corrupt :
    (runPol idD 6 .retry [.emit [65], .finish] (St.init (Sink.fresh [] 100 (some 3) 7))).1
      = [none, some (.sink 7), none] ∧
    (runPol idD 6 .retry [.emit [65], .finish] (St.init (Sink.fresh [] 100 (some 3) 7))).2.w.sink.accepted
      = [0x1f, 0x8b, 0x08, 0x04] ++
        (exec (bgzf idD 6) (.seq (.emit [65]) .finish) (FW.init (Sink.fresh [] 100 none 7))).2.sink.accepted ∧
    (match readToEnd idD
        (runPol idD 6 .retry [.emit [65], .finish] (St.init (Sink.fresh [] 100 (some 3) 7))).2.w.sink.accepted with
      | .ok _ => true
      | .error _ => false) = false := by
  decide

/-- the same under "ignore the error, next call": the failed `flush` is followed by a `try_finish`
that returns `Ok` over a corrupt file -/
example :
    (runPol idD 6 .next [.emit [65], .flush, .finish] (St.init (Sink.fresh [] 100 (some 3) 7))).1
      = [none, some (.sink 7), none] ∧
    (runPol idD 6 .next [.emit [65], .flush, .finish] (St.init (Sink.fresh [] 100 (some 3) 7))).2.w.sink.accepted
      = [0x1f, 0x8b, 0x08, 0x04] ++
        (exec (bgzf idD 6) (.seq (.emit [65]) .finish) (FW.init (Sink.fresh [] 100 none 7))).2.sink.accepted := by
  decide

/-- … while a failure at the FIRST call of a frame (nothing accepted yet) followed by a retry gives
the healthy file: the outcome depends on `k` only through the bytes accepted before the failure -/
example :
    (runPol idD 6 .retry [.emit [65], .finish] (St.init (Sink.fresh [] 100 (some 0) 7))).1
      = [none, some (.sink 7), none] ∧
    (runPol idD 6 .retry [.emit [65], .finish] (St.init (Sink.fresh [] 100 (some 0) 7))).2.w.sink.accepted
      = (exec (bgzf idD 6) (.seq (.emit [65]) .finish) (FW.init (Sink.fresh [] 100 none 7))).2.sink.accepted := by
  decide

/-- a failed EOF write (call 14 = the marker) retried: `try_finish` is not idempotent on the flush
side (nothing staged) but writes the marker again — here the file is intact because nothing of the
marker had been accepted -/
example :
    (runPol idD 6 .retry [.emit [65], .finish] (St.init (Sink.fresh [] 100 (some 14) 7))).1
      = [none, some (.sink 7), none] ∧
    (runPol idD 6 .retry [.emit [65], .finish] (St.init (Sink.fresh [] 100 (some 14) 7))).2.w.sink.accepted
      = (exec (bgzf idD 6) (.seq (.emit [65]) .finish) (FW.init (Sink.fresh [] 100 none 7))).2.sink.accepted ∧
    (runPol idD 6 .retry [.emit [65], .finish] (St.init (Sink.fresh [] 100 (some 14) 7))).2.w.position = 27 + 28 + 28 := by
  decide

/-- **The retry path of `write_all`, as in the code.** `write` stages its bytes BEFORE it flushes,
so after a `write_all` that failed in that flush the buffer is full; the same `write_all` issued
again takes 0 bytes, flushes (now successfully), returns `Ok(0)` — and std's `write_all` turns
that into `ErrorKind::WriteZero`, although the destination is healthy and the block has just been
written. (A third attempt then stages the same bytes a second time.) -/
theorem once_retried_write_all_is_write_zero (D : Deflater) (lvl : Nat) (w w' : FW) (buf : Bytes)
    (fuel : Nat) (hb : buf ≠ []) (hfull : w.staging.length = MAX_BUF)
    (hflush : SM.flush D lvl w = (none, w')) :
    SM.writeAll D lvl (fuel + 1) w buf = (some (.enc .writeZero), w') := by
  have hb' : buf.isEmpty = false := by cases buf with
    | nil => exact absurd rfl hb
    | cons a t => rfl
  have h0 : min (MAX_BUF - w.staging.length) buf.length = 0 := by rw [hfull]; simp
  have hw : ({ w with staging := w.staging ++ buf.take (min (MAX_BUF - w.staging.length) buf.length) } : FW) = w := by
    rw [h0]; simp
  have h1 : SM.write1 D lvl w buf = (.ok 0, w') := by
    unfold SM.write1
    rw [hw, h0]
    have : ¬ (w.staging ++ List.take 0 buf).length < MAX_BUF := by simp [hfull]
    rw [if_neg this, hflush]
  unfold SM.writeAll
  simp [hb', h1]

end Noodles.Props.C14
