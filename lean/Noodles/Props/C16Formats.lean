import Noodles.Io.AsyncLoops
import Noodles.Io.AsyncLoopsProof
import Noodles.Io.AsyncBgzfSource
import Noodles.Bgzf.AsyncWriter
import Noodles.Bgzf.AsyncWriterProof
/-!
# C16 — the format-level async readers behave like their sync twins (BAM header / records, line readers)

The async functions are poll machines over an abstract `AsyncRead` (`Noodles.IO.Async.ARead`: what a
`poll_read` call may do is constrained only by `ARead.Lawful` — `Pending` finitely often and without
effect, `Ready` with a prefix of the bytes that are left, non-empty unless nothing was asked for or
nothing is left).  The sync twins run over `Noodles.IO.Src` (C12's sources: short reads and
`Interrupted` under an arbitrary finite schedule).  Every theorem quantifies over EVERY lawful async
reader state (hence every poll schedule: transfer sizes, `Pending` anywhere, including in the middle of a
4-byte integer, of a line, of the NUL padding) and EVERY sync delivery schedule, and says: same value /
same error, and the same bytes left in the stream (= the same number of bytes consumed).

The scripted source of the harness (`scripted`, `adversary.rs::AsyncSchedReader`) is lawful
(`scripted_lawful`), and so is a `Take` of a lawful reader (`takeRead_lawful`).

`ask` / `askS`: the sizes `read_to_end` offers (the `Vec` growth policy, an external component) —
arbitrary positive functions; see `Noodles/Io/AsyncLoops.lean`.
Helper lemmas are in `Noodles/Io/AsyncLoopsProof.lean`.
-/
namespace Noodles.Props.C16
open Noodles.IO Noodles.IO.Async
open Noodles.Bgzf.Async (Poll1 Poll)

variable {σ α π : Type}

/-- non-vacuity of every theorem below: lawful readers exist — the scripted adversary of the harness,
for every data, schedule and fallback -/
example (data : List α) (sched : List Poll1) (fb : Nat) :
    (scripted : ARead (ASrc α) α).Lawful ∧ scripted.rest (⟨data, sched, fb, 0, 0⟩ : ASrc α) = data :=
  ⟨scripted_lawful, rfl⟩

/-- **A `Pending` poll is a stutter** for the three hand-written futures the format readers are made of
(tokio `ReadExact` / `ReadU32Le`, tokio `ReadToEnd`, the `fill_buf` / `consume` loop future = tokio
`read_until` and the `async fn` scanners): the bytes gathered so far followed by the bytes still to
come are unchanged (nothing lost, nothing duplicated, nothing reordered), and the loop state of a
scanner still denotes the same result. Only the source's `Pending` credit went down. -/
theorem async_format_pending_is_stutter (A : ARead σ α) (hA : A.Lawful) :
    (∀ n fuel acc s t', acc.length ≤ n → n - acc.length < fuel →
      pollReadExact A n fuel (acc, s) = (.pending, t') →
      t'.1 ++ A.rest t'.2 = acc ++ A.rest s ∧ A.credit t'.2 < A.credit s) ∧
    (∀ (ask : σ → Nat) fuel acc s t', (∀ t, 0 < ask t) → (A.rest s).length < fuel →
      pollReadToEnd A ask fuel (acc, s) = (.pending, t') →
      t'.1 ++ A.rest t'.2 = acc ++ A.rest s ∧ A.credit t'.2 < A.credit s) ∧
    (∀ {st ρ : Type} (k : st → List α → Scan st ρ) (spec : st → List α → ρ × List α) cap fuel s0 b t',
      ScanSpec k spec → 0 < cap → (b.stream A).length < fuel →
      scanPoll A cap k fuel (s0, b) = (.pending, t') →
      spec t'.1 (t'.2.stream A) = spec s0 (b.stream A) ∧ A.credit t'.2.inner < A.credit b.inner) := by
  refine ⟨?_, ?_, ?_⟩
  · intro n fuel acc s t' h1 h2 h3
    obtain ⟨a, _, c⟩ := (pollReadExact_spec A hA n fuel acc s h1 h2).1 t' h3
    exact ⟨a, c⟩
  · intro ask fuel acc s t' h1 h2 h3
    exact (pollReadToEnd_spec A hA ask h1 fuel acc s h2).1 t' h3
  · intro st ρ k spec cap fuel s0 b t' H hc hf h
    obtain ⟨a, _, c⟩ := (scanPoll_spec A hA cap hc k spec H fuel s0 b hf).1 t' h
    exact ⟨a, c⟩

/-- tokio `read_exact` / `read_u32_le` (awaited, under every poll schedule) = std `read_exact` (under
every delivery schedule): the same bytes or the same `UnexpectedEof`, the same bytes left. -/
theorem async_read_exact_eq_sync (A : ARead σ α) (hA : A.Lawful) (s : σ) (src : Src α)
    (h : A.rest s = src.data) (n : Nat) :
    (readExactA A s n).1 = (defaultReadExact src n).1 ∧
    A.rest (readExactA A s n).2 = (defaultReadExact src n).2.data :=
  readExactA_eq_sync A hA s src h n

/-- **noodles-bam `read_exact_or_eof`: async = sync.**  Filled buffer, or nothing at a clean end of
stream, or `UnexpectedEof` for a partial fill — the same outcome and the same bytes left, however the
source splits the transfer (in particular: after a short read inside the 4-byte `block_size`). -/
theorem async_read_exact_or_eof_eq_sync (A : ARead σ α) (hA : A.Lawful) (s : σ) (src : Src α)
    (h : A.rest s = src.data) (want : Nat) :
    (readExactOrEofA A s want).1 = (readExactOrEof src want).1 ∧
    A.rest (readExactOrEofA A s want).2 = (readExactOrEof src want).2.data :=
  readExactOrEofA_eq_sync A hA s src h want

/-- **noodles-bam `read_exact_to_vec`: async = sync** (`take(len).read_to_end(buf)` + length check on both
sides), for every buffer growth policy on either side; and both are `read_exact`. -/
theorem async_read_exact_to_vec_eq_sync (A : ARead σ α) (hA : A.Lawful) (ask : Nat × σ → Nat)
    (hask : ∀ t, 0 < ask t) (askS : Src α → Nat) (haskS : ∀ s, 0 < askS s) (s : σ) (src : Src α)
    (h : A.rest s = src.data) (len : Nat) :
    (readExactToVecA A ask s len).1 = (readExactToVecS askS src len).1 ∧
    A.rest (readExactToVecA A ask s len).2 = (readExactToVecS askS src len).2.data ∧
    (readExactToVecS askS src len).1 = (defaultReadExact src len).1 ∧
    (readExactToVecS askS src len).2.data = (defaultReadExact src len).2.data := by
  obtain ⟨a, b⟩ := readExactToVecA_eq_sync A hA ask hask askS haskS s src h len
  obtain ⟨c, d⟩ := readExactToVecS_eq_readExact askS haskS src len
  exact ⟨a, b, c, d⟩

/-- **BAM `read_record`: async = sync.**  End of stream, the record bytes, or the error — and the same
bytes left — under every poll schedule / delivery schedule / growth policy. -/
theorem async_bam_record_eq_sync (A : ARead σ UInt8) (hA : A.Lawful) (ask : Nat × σ → Nat)
    (hask : ∀ t, 0 < ask t) (askS : Src UInt8 → Nat) (haskS : ∀ s, 0 < askS s) (s : σ) (src : Src UInt8)
    (h : A.rest s = src.data) :
    (bamReadRecordA A ask s).1 = (bamReadRecordS askS src).1 ∧
    A.rest (bamReadRecordA A ask s).2 = (bamReadRecordS askS src).2.data :=
  bamReadRecordA_eq_sync A hA ask hask askS haskS s src h

/-- the sync record reader as it is now (`read_exact_to_vec`) computes what C12's model of it
(`read_exact` into a resized buffer) computes: C12's theorems carry over -/
theorem sync_bam_record_eq_c12_model (askS : Src UInt8 → Nat) (haskS : ∀ s, 0 < askS s) (src : Src UInt8) :
    (bamReadRecordS askS src).1 = (bamReadRecord src).1 ∧
    (bamReadRecordS askS src).2.data = (bamReadRecord src).2.data :=
  bamReadRecordS_eq_c12 askS haskS src

/-- **BAM `read_header`: async = sync.**  Magic, `l_text`, the header lines through the `Take`-limited
`BufReader` and the NUL filter, `discard_to_end` of the padding, the reference sequence dictionary and
the merge: the same parser state and dictionary or the same error, for EVERY SAM header parser `P`
(the parser is the same code on both sides); when the header is read, the same bytes are left — so the
first record starts at the same byte.  (After a failed header the position is not comparable: the two
dropped sub-readers have read ahead differently.) -/
theorem async_bam_header_eq_sync (A : ARead σ UInt8) (hA : A.Lawful) (ask : Nat × σ → Nat)
    (hask : ∀ t, 0 < ask t) (askS : Src UInt8 → Nat) (haskS : ∀ s, 0 < askS s) (P : HdrParser π)
    (s : σ) (src : Src UInt8) (h : A.rest s = src.data) :
    (bamReadHeaderA A ask P s).1 = (bamReadHeaderS askS P src).1 ∧
    (∀ x, (bamReadHeaderA A ask P s).1 = .ok x →
      A.rest (bamReadHeaderA A ask P s).2 = (bamReadHeaderS askS P src).2.data) :=
  bamReadHeaderA_eq_sync A hA ask hask askS haskS P s src h

/-- non-vacuity of the success branch, and the NUL padding is discarded: text `@CO\n` + 2 NULs, one
reference sequence `a` of length 5, then 3 more bytes; the source delivers 3 bytes per poll with
`Pending`s in between (so `l_text`, the padding and `l_name` are all split).  The parser here just
collects the lines. -/
example :
    let P : HdrParser (List Bytes) := ⟨[], fun p l => some (p ++ [l]), fun _ => []⟩
    let data : Bytes := [66, 65, 77, 1, 6, 0, 0, 0, 64, 67, 79, 10, 0, 0, 1, 0, 0, 0, 2, 0, 0, 0, 97, 0,
      5, 0, 0, 0, 7, 8, 9]
    let r := bamReadHeaderA scripted (fun _ => 32) P ⟨data, [.pending, .ready 3, .pending, .pending], 3, 0, 0⟩
    (match r.1 with
      | .ok (ls, refs) => ls == [[64, 67, 79]] && refs == [([97], 5)]
      | .error _ => false) = true ∧ r.2.data = [7, 8, 9] := by
  decide +kernel

/-- **async `read_line` = sync `read_line`** (noodles-fasta / -fastq / -gff / -sam `read_line`:
`read_until(b'\n')` + LF / CRLF strip) on the same stream, whatever the two `BufReader`s hold, their
capacities, the poll schedule and the delivery schedule: the same byte count, the same line, the same
stream position afterwards. -/
theorem async_read_line_eq_sync (A : ARead σ UInt8) (hA : A.Lawful) (cap : Nat) (hc : 0 < cap)
    (b : ABuf σ UInt8) (bs : BufR UInt8) (hcs : 0 < bs.cap) (h : b.stream A = bs.stream) :
    (readLineA A cap b).1 = .ok (readLine bs).1 ∧
    (readLineA A cap b).2.stream A = (readLine bs).2.stream :=
  ⟨(readLineA_eq_sync A hA cap hc b bs hcs h).1, (readLineA_eq_sync A hA cap hc b bs hcs h).2.1⟩

/-- **The SAM (`@`) and VCF (`#`) async header readers = the sync ones**: `read_line` on
`header::Reader` until it returns 0 hands the parser the same raw header lines and stops at the same
byte (the first line that does not start with the prefix), under every poll schedule / delivery
schedule / pair of buffer capacities.  The sync side is C12's `hdrLinesAll`. -/
theorem async_sam_vcf_header_lines_eq_sync (A : ARead σ UInt8) (hA : A.Lawful) (cap : Nat) (hc : 0 < cap)
    (pfx : UInt8) (b : ABuf σ UInt8) (bs : BufR UInt8) (hcs : 0 < bs.cap) (h : b.stream A = bs.stream) :
    (hdrLinesAllA A cap pfx b).1 = (hdrLinesAll pfx bs).1 ∧
    (hdrLinesAllA A cap pfx b).2.stream A = (hdrLinesAll pfx bs).2.stream := by
  unfold hdrLinesAllA hdrLinesAll
  rw [h]
  exact hdrLinesA_eq_sync A hA cap hc pfx _ true b bs [] hcs h

/-- **GFF `read_line` (blank lines skipped) and the whole line stream: async = sync.** -/
theorem async_gff_lines_eq_sync (A : ARead σ UInt8) (hA : A.Lawful) (cap : Nat) (hc : 0 < cap)
    (fuel : Nat) (b : ABuf σ UInt8) (bs : BufR UInt8) (hcs : 0 < bs.cap) (h : b.stream A = bs.stream) :
    ((gffReadLineA A cap fuel b).1 = (gffReadLineS fuel bs).1 ∧
      (gffReadLineA A cap fuel b).2.stream A = (gffReadLineS fuel bs).2.stream) ∧
    ((gffLinesA A cap fuel b []).1 = (gffLinesS fuel bs []).1 ∧
      (gffLinesA A cap fuel b []).2.stream A = (gffLinesS fuel bs []).2.stream) := by
  obtain ⟨a1, a2, _⟩ := gffReadLineA_eq_sync A hA cap hc fuel b bs hcs h
  exact ⟨⟨a1, a2⟩, gffLinesA_eq_sync A hA cap hc fuel b bs [] hcs h⟩

/-- **A whole BAM stream — `read_header`, then `read_record` until it returns 0 or fails: async = sync.**
The same header (or error), the same records in the same order, the same ending (end of stream or the
same error), and — when the header is read — the same bytes left. -/
theorem async_records_stream_eq_sync (A : ARead σ UInt8) (hA : A.Lawful) (ask : Nat × σ → Nat)
    (hask : ∀ t, 0 < ask t) (askS : Src UInt8 → Nat) (haskS : ∀ s, 0 < askS s) (P : HdrParser π)
    (s : σ) (src : Src UInt8) (h : A.rest s = src.data) :
    (bamFileA A ask P s).1 = (bamFileS askS P src).1 ∧
    (∀ x, (bamFileA A ask P s).1.header = .ok x →
      A.rest (bamFileA A ask P s).2 = (bamFileS askS P src).2.data) :=
  bamFileA_eq_sync A hA ask hask askS haskS P s src h

/-- the record stream alone (no header), from any position -/
theorem async_bam_records_eq_sync (A : ARead σ UInt8) (hA : A.Lawful) (ask : Nat × σ → Nat)
    (hask : ∀ t, 0 < ask t) (askS : Src UInt8 → Nat) (haskS : ∀ s, 0 < askS s) (s : σ) (src : Src UInt8)
    (h : A.rest s = src.data) :
    (bamRecordsAllA A ask s).1 = (bamRecordsAllS askS src).1 ∧
    A.rest (bamRecordsAllA A ask s).2 = (bamRecordsAllS askS src).2.data := by
  unfold bamRecordsAllA bamRecordsAllS
  rw [h]
  exact bamRecordsA_eq_sync A hA ask hask askS haskS _ s src [] h

/-- **Poll-schedule irrelevance** (corollary, stated on the scripted sources of the harness): two runs
of the async BAM reader on the same bytes under ANY two schedules / fallbacks / growth policies see
the same header, records and ending. -/
theorem async_bam_schedule_irrelevant (data : Bytes) (sc₁ sc₂ : List Poll1) (fb₁ fb₂ : Nat)
    (ask₁ ask₂ : Nat × ASrc UInt8 → Nat) (h₁ : ∀ t, 0 < ask₁ t) (h₂ : ∀ t, 0 < ask₂ t) (P : HdrParser π) :
    (bamFileA scripted ask₁ P ⟨data, sc₁, fb₁, 0, 0⟩).1 = (bamFileA scripted ask₂ P ⟨data, sc₂, fb₂, 0, 0⟩).1 := by
  have e₁ := (bamFileA_eq_sync scripted scripted_lawful ask₁ h₁ (fun _ => 1) (fun _ => Nat.one_pos) P
    ⟨data, sc₁, fb₁, 0, 0⟩ ⟨data, []⟩ rfl).1
  have e₂ := (bamFileA_eq_sync scripted scripted_lawful ask₂ h₂ (fun _ => 1) (fun _ => Nat.one_pos) P
    ⟨data, sc₂, fb₂, 0, 0⟩ ⟨data, []⟩ rfl).1
  rw [e₁, e₂]

/-- the async record stream ends with end of stream or a genuine error: the model's fuel never runs
out and no schedule starves it -/
theorem async_bam_records_terminate (A : ARead σ UInt8) (hA : A.Lawful) (ask : Nat × σ → Nat)
    (hask : ∀ t, 0 < ask t) (s : σ) : (bamRecordsAllA A ask s).1.2 ≠ some .fuel :=
  bamRecordsAllA_ne_fuel A hA ask hask s

/-! ## over the async BGZF layer -/

open Noodles.Bgzf.RM Noodles.Bgzf.Async Noodles.IO.AsyncBgzf in
/-- **The async BGZF reader (C16's BGZF-layer model: `poll_read` over `TryBuffered<FramedRead<…>>`) is a
lawful `AsyncRead` whose stream is the uncompressed stream `flat L`**, for every layout (empty members
anywhere), worker count ≥ 1 and script (transfer sizes, `Pending`s, inflate completion times). -/
theorem async_bgzf_reader_is_lawful_source (L : Layout α) (w : Nat) (hw : 1 ≤ w) (sd : Sched) :
    (bgzfRead L w hw).Lawful ∧ (bgzfRead L w hw).rest (BgzfSt.init L sd) = flat L :=
  ⟨bgzfRead_lawful L w hw, bgzfRead_rest_init L w hw sd⟩

open Noodles.Bgzf.RM Noodles.Bgzf.Async Noodles.IO.AsyncBgzf in
/-- **`bam::r#async::io::Reader::new(src)` = the sync BAM reader on the uncompressed stream** (the
composition of the two layers): the BAM poll machines running over the async BGZF reader, under every
script of the underlying source and of the inflate workers, read the header, the records and the
ending that the sync BAM reader reads from `flat L` under any delivery schedule — which is how the
sync BGZF reader hands `flat L` out (C02: `read` returns the bytes of `flat L` in order). -/
theorem async_bam_over_bgzf_eq_sync (L : Layout UInt8) (w : Nat) (hw : 1 ≤ w) (sd : Sched)
    (ask : Nat × BgzfSt L → Nat) (hask : ∀ t, 0 < ask t) (askS : Src UInt8 → Nat)
    (haskS : ∀ s, 0 < askS s) (P : HdrParser π) (ssched : List Delivery) :
    (bamFileA (bgzfRead L w hw) ask P (BgzfSt.init L sd)).1 = (bamFileS askS P ⟨flat L, ssched⟩).1 :=
  (bamFileA_eq_sync (bgzfRead L w hw) (bgzfRead_lawful L w hw) ask hask askS haskS P
    (BgzfSt.init L sd) ⟨flat L, ssched⟩ (bgzfRead_rest_init L w hw sd)).1

/-! ## writers: the record buffer through the async BGZF writer -/

open Noodles.Bgzf Noodles.Bgzf.AW in
/-- **The async BAM writer's output = the sync BAM writer's output, and it reads back as the record
stream.**  For every list of encoded records, lawful DEFLATE library, level, worker count ≥ 1 and EVERY
script (partial sink writes, `Pending`s, deflate completion times): the `write_u32_le` + `write_all`
calls of `write_alignment_record` followed by `shutdown` leave in the sink exactly the bytes the sync
writer leaves for the same records and `finish` (same blocks, same boundaries, EOF marker), and those
bytes inflate to `block_size ‖ record` for every record in order.  (Instance of the BGZF-layer writer
theorem at the calls the format writer makes; the encoder is the same function on both sides.) -/
theorem async_bam_writer_eq_sync (D : Deflater) (hD : D.Lawful) (lvl cap : Nat) (hcap : 1 ≤ cap)
    (recs : List Bytes) (sd : WSched) :
    ∃ w sd1 w' sd2 ws ws',
      runAW D lvl cap AW.init sd (bamRecordOps recs) = .ok (w, sd1) ∧
      shutdownAW D lvl cap w sd1 = .ok (w', sd2) ∧
      run D lvl Writer.init (bamRecordOps recs) = .ok ws ∧ finish D lvl ws = .ok ws' ∧
      w'.sink = ws'.sink ∧ readToEnd D w'.sink = .ok (bamFramed recs) := by
  have hE := fun x hx => enc_of_lawful D hD lvl x hx
  obtain ⟨ws, hrun, hinv⟩ := run_ok' D hD lvl (bamRecordOps recs) Writer.init [] (Inv_init D)
  obtain ⟨w, sd1, hA, hrel⟩ := run_sim D lvl cap hcap hE (bamRecordOps recs) AW.init sd Writer.init ws
    (relW_init D lvl) hrun
  obtain ⟨w', sd2, hS, hsink, _⟩ := driveShutdown_spec D lvl cap hcap (sd1.measure + 1) w sd1
    hrel.good (fun _ => hE _ hrel.len_le) (by omega)
  obtain ⟨ws', hF, hfs⟩ := finish_sim D lvl hE w ws hrel
  obtain ⟨ws1, frs, hf, hg, hsink1, hpay⟩ := finish_ok D hD lvl ws _ hinv
  rw [hF] at hf; cases hf
  refine ⟨w, sd1, w', sd2, ws, ws', hA, hS, hrun, hF, by rw [hsink, hfs], ?_⟩
  rw [hsink, ← hfs, hsink1, readToEnd_frames D hD frs hg, hpay, List.nil_append, payload_bamRecordOps]

end Noodles.Props.C16
