import Noodles.Bgzf.WriterLayout
import Noodles.Bgzf.WriterLayoutProof
/-!
# C02 (writer half) — a virtual position obtained from the writer just before a byte is written
identifies that byte in the finished file
-/
namespace Noodles.Props.C02
open Noodles.Bgzf Noodles.Codec

/-- For every lawful deflater, level and write/flush history split at ANY point into `pre` and
`post`: the position the writer reports after `pre` resolves, in the block layout of the
finished file, to the number of payload bytes written so far — i.e. to exactly the next byte. -/
theorem writer_tell_names_byte (D : Deflater) (hD : D.Lawful) (lvl : Nat) (pre post : List Op)
    (w w' wf : Writer)
    (h1 : run D lvl Writer.init pre = .ok w) (h2 : run D lvl w post = .ok w')
    (h3 : finish D lvl w' = .ok wf) :
    ∃ L, layoutOfSink D (wf.sink.length + 1) wf.sink = some L ∧ RM.WF L ∧
      RM.flat L = payload (pre ++ post) ∧
      RM.resolve L w.vpos.1 w.vpos.2 = some (payload pre).length := by
  -- state after `pre`
  obtain ⟨w1, hr1, ⟨⟨hpos, frs0, hg0, hsink0, hpay0⟩, hst0⟩⟩ :=
    run_ok' D hD lvl pre Writer.init [] (Inv_init D)
  rw [h1] at hr1
  injection hr1 with hr1
  subst hr1
  rw [List.nil_append] at hpay0
  -- run `post` and `finish` with the invariant relative to `w`
  have hi2 : Inv2 D frs0 w.staging w (payload pre) :=
    ⟨⟨hpos, [], by simp, by simpa using hsink0, by simpa using hpay0, List.prefix_refl _⟩, hst0⟩
  obtain ⟨w2, hr2, hi3⟩ := run2_ok D hD lvl frs0 w.staging post w _ hi2
  rw [h2] at hr2
  injection hr2 with hr2
  subst hr2
  obtain ⟨w3, more, hr3, hgm, hsink3, hpay3, hpre⟩ := finish2_ok D hD lvl frs0 w.staging w' _ hi3
  rw [h3] at hr3
  injection hr3 with hr3
  subst hr3
  have hg : ∀ p ∈ frs0 ++ more, Good D p := by
    intro p hp
    rcases List.mem_append.1 hp with hp | hp
    · exact hg0 p hp
    · exact hgm p hp
  refine ⟨blocks (frs0 ++ more) ++ [⟨28, []⟩], ?_, WF_blocks D _ hg, ?_, ?_⟩
  · rw [hsink3]; exact layoutOfSink_enc D hD _ hg
  · rw [flat_blocks, hpay3, payload_append]
  · have := resolve_blocks D frs0 more w.staging hg hpre
    rw [← hsink0, ← hpos, ← List.length_append, hpay0] at this
    exact this

end Noodles.Props.C02
