import Noodles.Props.C16Query
import Noodles.Props.C16More
import Noodles.Props.C16Formats
import Noodles.Bgzf.AsyncReader
import Noodles.Bgzf.AsyncReaderProof
import Noodles.Bgzf.AsyncWriter
import Noodles.Bgzf.AsyncWriterProof
/-!
# C16 — async readers and writers behave like their sync counterparts (BGZF layer)

Reader.  The async BGZF reader (model `Noodles.Bgzf.Async`: `poll_fill_buf` / `poll_read` over
`TryBuffered<FramedRead<_, BlockCodec>>`, driven by a *script* that fixes what every `poll_read` of
the underlying `AsyncRead` does — partial transfer of any size or `Pending` — and when every
`spawn_blocking` inflate task finishes) is compared with the sync reader model `Noodles.Bgzf.RM`
(the one C02 is proved about) on the same block layout and the same operation history.
All quantifiers are unbounded: every well-formed layout (empty members anywhere), every history of
read / read_exact / fill_buf+consume / seek / virtual_position, every worker count ≥ 1, every script.
`seek` is modelled as it is after `fixes/bgzf-async-seek.diff`.
Helper lemmas are in `Noodles/Bgzf/AsyncReaderProof.lean`.

Writer.  The async BGZF writer (model `Noodles.Bgzf.AW`: `poll_write` / `poll_flush` /
`poll_shutdown` over `Buffer<Deflater<FramedWrite<_, BlockCodec>>>`, driven by a script that fixes
what every `poll_write` / `poll_flush` of the underlying `AsyncWrite` does and when every
`spawn_blocking` deflate task finishes) is compared with the sync writer model `Noodles.Bgzf`
(the one C01 is proved about) for the same `write_all` / `flush` calls followed by
`shutdown` / `finish`.  Helper lemmas are in `Noodles/Bgzf/AsyncWriterProof.lean`.
-/
namespace Noodles.Props.C16
open Noodles.Bgzf.RM Noodles.Bgzf.Async

variable {α : Type}

/-- A poll of `poll_fill_buf` that returns `Pending` is a stutter: it hands out no bytes, the reader
still names the same byte of the uncompressed stream, and what the next `Ready` poll will deliver
(the sequential `fill_buf`) is unchanged.  It does consume part of the script (so a finite script
allows only finitely many `Pending`s). -/
theorem pending_is_stutter (L : Layout α) (hL : WF L) (w : Nat) (hw : 1 ≤ w) (a : AR α) (sd : Sched)
    (hr : Inv L a.r) (hp : PInv L a.r.next a.p)
    (hpend : (pollFillBuf L w (fbFuel L a) a sd).2.2 = .pending) :
    let a' := (pollFillBuf L w (fbFuel L a) a sd).1
    cursor L a'.r = cursor L a.r ∧ fillBufA L a'.r = fillBufA L a.r ∧ Inv L a'.r ∧
    (pollFillBuf L w (fbFuel L a) a sd).2.1.measure < sd.measure := by
  obtain ⟨_, _, f3, _⟩ := pollFillBuf_spec L w hw (fbFuel L a) a sd hp (fbFuel_ok L a)
  obtain ⟨g1, g2, g3⟩ := f3 hpend
  have hi' := skip_inv L _ _ g3 hr
  refine ⟨?_, skip_fillBufA L _ _ g3 g2, hi', g1⟩
  rw [cursor_of_inv L hL _ hi', cursor_of_inv L hL _ hr, skip_off L _ _ g3 hr g2]

/-- The exact form — the whole observable reader state (block, cursor, `position()`, hence
`virtual_position()`) is unchanged by a `Pending` poll — holds when the next member of the stream is
not empty.  It is FALSE in general for the code as it is: `poll_fill_buf` installs every empty member
it takes from the stream before it polls for the next one (see the witness below). -/
theorem pending_is_stutter_exact_partial (L : Layout α) (w : Nat) (hw : 1 ≤ w) (a : AR α) (sd : Sched)
    (hp : PInv L a.r.next a.p)
    (hne : ∀ b, L[a.r.next]? = some b → b.data.length > 0)
    (hpend : (pollFillBuf L w (fbFuel L a) a sd).2.2 = .pending) :
    (pollFillBuf L w (fbFuel L a) a sd).1.r = a.r := by
  obtain ⟨_, _, f3, _⟩ := pollFillBuf_spec L w hw (fbFuel L a) a sd hp (fbFuel_ok L a)
  obtain ⟨_, _, g3⟩ := f3 hpend
  exact skip_exact L _ _ g3 hne

/-- counterexample to the exact form: one empty member (the EOF marker), the source delivers it and
then answers `Pending`: the poll is `Pending` but `virtual_position()` moved from (0,0) to (28,0).
Both name flat offset 0. -/
example :
    let L : Layout Nat := [⟨28, []⟩]
    let r := pollFillBuf L 1 (fbFuel L AR.init) AR.init ⟨[.ready 28, .pending], []⟩
    (match r.2.2 with | .pending => true | _ => false) = true ∧
    tell (AR.init : AR Nat).r = (0, 0) ∧ tell r.1.r = (28, 0) := by decide

/-- **Schedule irrelevance.**  Under EVERY script (transfer sizes, `Pending`s, inflate completion
times) and every worker count, every operation polled to completion yields exactly what the
sequential reading of the async code yields; no script starves an operation. -/
theorem async_reader_schedule_irrelevant (L : Layout α) (w : Nat) (hw : 1 ≤ w) (ops : List AOp)
    (sd sd' : Sched) :
    runA L w AR.init sd ops = runA L w AR.init sd' ops ∧
    ∀ o ∈ runA L w AR.init sd ops, ∃ x, o = AOut.out x := by
  rw [runA_eq_seq L w hw ops AR.init sd (pinv_init L), runA_eq_seq L w hw ops AR.init sd' (pinv_init L)]
  refine ⟨rfl, ?_⟩
  intro o ho
  obtain ⟨x, _, hx⟩ := List.mem_map.mp ho
  exact ⟨x, hx.symm⟩

/-- **async = sync.**  For every well-formed layout, every history, every worker count and every
script, the async reader's outputs are the sync reader's outputs: the same bytes from `read`,
`read_exact` and `fill_buf`, the same errors (`UnexpectedEof`, `InvalidInput` for an in-block offset
beyond the block), and virtual positions that name the same byte of the uncompressed stream. -/
theorem async_reader_eq_sync (L : Layout α) (hL : WF L) (w : Nat) (hw : 1 ≤ w) (ops : List AOp)
    (hv : ∀ op ∈ ops, SeekValid L op) (sd : Sched) :
    ∃ outs, runA L w AR.init sd ops = outs.map AOut.out ∧ OutsSim L outs (runS L R.init ops) := by
  refine ⟨runSeq L R.init ops, runA_eq_seq L w hw ops AR.init sd (pinv_init L), ?_⟩
  exact (runSeq_sim L hL (fun _ => True) (fun _ _ => trivial) (fun _ _ _ _ => trivial) ops
    R.init R.init (sim_init L _) hv).1

/-- The exact form — reported virtual positions are NUMERICALLY equal — holds when the file has no
two consecutive empty members (so: for every file with a single EOF marker).  Without the
hypothesis it is false for the code as it is: after a seek onto the first of two consecutive empty
members the async reader reports the end of the first, the sync reader (which skips empty members
inside `seek`) the end of the second.  Witness below. -/
theorem async_reader_eq_sync_exact_partial (L : Layout α) (hL : WF L) (hne : NoAdjacentEmpty L)
    (w : Nat) (hw : 1 ≤ w) (ops : List AOp) (hv : ∀ op ∈ ops, SeekValid L op) (sd : Sched) :
    runA L w AR.init sd ops = (runS L R.init ops).map AOut.out := by
  rw [runA_eq_seq L w hw ops AR.init sd (pinv_init L)]
  congr 1
  refine (runSeq_sim L hL (PX L) ?_ ?_ ops R.init R.init (sim_init L _) hv).2 (fun _ h => h)
  · intro k hk b hb; rw [hk] at hb; cases hb
  · intro k b hb h0 b' hb'
    exact hne k b b' hb hb' (by omega)

/-- counterexample to the exact form without the hypothesis: members "ab", "", "", "c";
`seek` to the first empty member, then `virtual_position()`: async (37,0), sync (46,0);
both name flat offset 2, and the next read returns "c" on both sides. -/
example :
    let L : Layout Nat := [⟨30, [97, 98]⟩, ⟨7, []⟩, ⟨9, []⟩, ⟨29, [99]⟩]
    let ops := [AOp.seek 30 0, .tell, .read 5, .tell]
    runA L 2 AR.init ⟨[.pending, .ready 3], [false]⟩ ops =
      [.out .unit, .out (.vpos 37 0), .out (.bytes [99]), .out (.vpos 75 0)] ∧
    runS L R.init ops = [.unit, .vpos 46 0, .bytes [99], .vpos 75 0] ∧
    resolve L 37 0 = some 2 ∧ resolve L 46 0 = some 2 := by
  refine ⟨by decide, by decide +kernel, by decide, by decide⟩

/-- non-vacuity: the hypotheses are satisfiable by a layout with an empty member mid-file and the
history used in the correspondence corpus -/
example : WF ([⟨35, [1,2,3,4,5,6,7]⟩, ⟨28, []⟩, ⟨31, [8,9,10,11]⟩, ⟨28, []⟩] : Layout Nat) ∧
    NoAdjacentEmpty ([⟨35, [1,2,3,4,5,6,7]⟩, ⟨28, []⟩, ⟨31, [8,9,10,11]⟩, ⟨28, []⟩] : Layout Nat) ∧
    SeekValid ([⟨35, [1,2,3,4,5,6,7]⟩, ⟨28, []⟩, ⟨31, [8,9,10,11]⟩, ⟨28, []⟩] : Layout Nat) (.seek 35 0) := by
  refine ⟨?_, ?_, ?_⟩
  · intro b hb; simp at hb; rcases hb with rfl | rfl | rfl | rfl <;> simp [MAX_ISIZE]
  · intro k b b' hb hb' h0
    match k with
    | 0 => simp at hb; subst hb; simp at h0
    | 1 => simp at hb'; subst hb'; simp
    | 2 => simp at hb; subst hb; simp at h0
    | 3 => simp at hb'
    | k + 4 => simp at hb
  · intro k b hm hb h0
    rfl

/-! ## writer -/

open Noodles.Bgzf Noodles.Bgzf.AW in
/-- **async writer = sync writer.**  For every lawful DEFLATE library, level, worker count ≥ 1, every
history of `write_all` / `flush` calls and EVERY script (partial sink writes, `Pending`s, deflate
completion times): `shutdown().await` completes, and the bytes in the sink are exactly the bytes the
sync writer produces for the same calls and `finish` — the same blocks with the same boundaries in
the same order, followed by the EOF marker — and nothing is left in the pipeline. -/
theorem async_writer_blocks_eq_sync (D : Deflater) (hD : D.Lawful) (lvl cap : Nat) (hcap : 1 ≤ cap)
    (ops : List Noodles.Bgzf.Op) (sd : WSched) :
    ∃ w sd1 w' sd2 ws ws',
      runAW D lvl cap AW.init sd ops = .ok (w, sd1) ∧ shutdownAW D lvl cap w sd1 = .ok (w', sd2) ∧
      run D lvl Writer.init ops = .ok ws ∧ finish D lvl ws = .ok ws' ∧
      w'.sink = ws'.sink ∧
      w'.queue = [] ∧ w'.slot = none ∧ w'.wbuf = [] ∧ w'.staging = [] ∧ w'.eofLeft = [] := by
  have hE := fun x hx => enc_of_lawful D hD lvl x hx
  obtain ⟨ws, hrun, _⟩ := run_ok' D hD lvl ops Writer.init [] (Inv_init D)
  obtain ⟨w, sd1, hA, hrel⟩ := run_sim D lvl cap hcap hE ops AW.init sd Writer.init ws
    (relW_init D lvl) hrun
  obtain ⟨w', sd2, hS, hsink, rest⟩ := driveShutdown_spec D lvl cap hcap (sd1.measure + 1) w sd1
    hrel.good (fun _ => hE _ hrel.len_le) (by omega)
  obtain ⟨ws', hF, hfs⟩ := finish_sim D lvl hE w ws hrel
  exact ⟨w, sd1, w', sd2, ws, ws', hA, hS, hrun, hF, by rw [hsink, hfs], rest⟩

open Noodles.Bgzf Noodles.Bgzf.AW in
/-- Corollary (with C01's round trip): what the async writer leaves in the sink reads back as exactly
the bytes written, under every script. -/
theorem async_writer_roundtrip (D : Deflater) (hD : D.Lawful) (lvl cap : Nat) (hcap : 1 ≤ cap)
    (ops : List Noodles.Bgzf.Op) (sd : WSched) :
    ∃ w sd1 w' sd2,
      runAW D lvl cap AW.init sd ops = .ok (w, sd1) ∧ shutdownAW D lvl cap w sd1 = .ok (w', sd2) ∧
      readToEnd D w'.sink = .ok (payload ops) := by
  obtain ⟨w, sd1, w', sd2, ws, ws', h1, h2, h3, h4, h5, _⟩ :=
    async_writer_blocks_eq_sync D hD lvl cap hcap ops sd
  obtain ⟨ws0, hrun, hinv⟩ := run_ok' D hD lvl ops Writer.init [] (Inv_init D)
  obtain ⟨ws1, frs, hf, hg, hsink, hpay⟩ := finish_ok D hD lvl ws0 _ hinv
  rw [h3] at hrun; cases hrun
  rw [h4] at hf; cases hf
  refine ⟨w, sd1, w', sd2, h1, h2, ?_⟩
  rw [h5, hsink, readToEnd_frames D hD frs hg, hpay, List.nil_append]

/-- non-vacuity of the writer theorems: a lawful `Deflater` exists (stored "compression": the CDATA is
the data itself, except that the fixed CDATA `03 00` of the EOF marker inflates to nothing) -/
example : (⟨fun _ x => x,
    fun c n => if c = [0x03, 0x00] ∧ n = 0 then some [] else if c.length = n then some c else none,
    fun _ => 0⟩ : Noodles.Bgzf.Deflater).Lawful := by
  refine ⟨?_, ?_, ?_, ?_, ?_⟩
  · intro l x
    by_cases h : x = [0x03, 0x00] ∧ x.length = 0
    · obtain ⟨h1, h2⟩ := h; rw [h1] at h2; simp at h2
    · simp only [h, if_false, if_true]
  · intro x hx
    have : Noodles.Bgzf.MAX_BUF ≤ Noodles.Bgzf.MAX_COMPRESSED := by decide
    exact Nat.le_trans hx this
  · intro x; show (0 : Nat) < 2 ^ 32; decide
  · decide
  · rfl

end Noodles.Props.C16
