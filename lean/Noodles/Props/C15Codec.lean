import Noodles.Hostile.Rans4x8Proof
import Noodles.Hostile.RansNx16Proof
import Noodles.Hostile.NameTokProof
import Noodles.Hostile.CodecAgree
/-!
# C15, CRAM codec decoders — hostile input is an error, never a panic

The rANS 4x8, rANS Nx16 and name tokenizer decoders of noodles-cram, transcribed at the level
where a panic could arise (`Noodles/Hostile/{CodecKit,Rans4x8,RansNx16,NameTok}.lean`): every
table index, every slice / `split_at`, every `unwrap`, every `+ - * / % <<` on `u16`/`u32`/`usize`
(overflow checks ON) is a primitive that answers `panic` exactly where the Rust would panic, and a
loop that would not terminate runs out of fuel, which is also `panic`. For EVERY byte string (no
length bound), every declared size and every behaviour of the allocator behind `alloc_zeroed`
(`alloc : Nat → Bool`, `false` = the reservation fails = an `io::Error`) each decoder answers
bytes or an error.

The stream decompressor inside the name tokenizer is a parameter that may return any bytes or
any error; the rANS Nx16 model is one such function (`name_tokenizer_rans_decode_total_no_panic`).
Helper lemmas: `Noodles/Hostile/{CodecKitProof,Rans4x8Proof,RansNx16Proof,NameTokProof}.lean`.
-/
namespace Noodles.Props.C15
open Noodles.Hostile Noodles.Hostile.Codec

/-! ## rANS 4x8 -/

/-- `rans_4x8::decode` (header, `alloc_zeroed`, order 0 and order 1) never panics -/
theorem rans4x8_decode_total_no_panic (alloc : Nat → Bool) (src : Bytes) :
    R4x8.decodeBytes alloc src ≠ .panic := R4x8.decodeBytes_ne_panic alloc src

/-- a frequency table that `read_frequencies` returned has 256 entries and a total of at most
4096 — for every input (`validate_frequencies`) -/
theorem rans4x8_frequencies_validated (s rest : Bytes) (F : List Nat)
    (h : R4x8.readFrequencies s = .ok (F, rest)) : F.length = 256 ∧ F.sum ≤ 4096 ∧ rest <:+ s :=
  ⟨(R4x8.safeP_readFrequencies.post h).1, (R4x8.safeP_readFrequencies.post h).2,
    R4x8.safeP_readFrequencies.suffix h⟩

/-- with a validated table the cumulative frequencies fit `u16` and the 4096-slot lookup table is
total: every slot `f` holds a symbol `sym < 256` with `C[sym] ≤ f` -/
theorem rans4x8_lookup_table_in_bounds (F : List Nat) (hF : F.length = 256 ∧ F.sum ≤ 4096) :
    ∃ C T, R4x8.buildCum add16 F = .ok C ∧ R4x8.buildTable C = .ok T ∧ C.length = 256 ∧
      T.size = 4096 ∧ ∀ f v, T[f]? = some v → v < 256 ∧ ∃ c, C[v]? = some c ∧ c ≤ f := by
  obtain ⟨C, hC, hcum⟩ := R4x8.buildCum_add16 hF
  obtain ⟨T, hT, htab⟩ := R4x8.buildTable_spec hcum
  exact ⟨C, T, hC, hT, hcum.1, htab.1, htab.2⟩

/-- `state_step`: `f * (s >> 12) + (s & 0xfff) - g` neither overflows nor underflows `u32` when
`f ≤ 4096` and `g ≤ s & 0xfff`, which is what a validated table and the lookup give -/
theorem rans4x8_state_step_no_overflow (s f g : Nat) (hs : s < 2^32) (hf : f ≤ 4096)
    (hg : g ≤ s &&& 0x0fff) : ∃ v, R4x8.stateStep s f g = .ok v ∧ v < 2^32 :=
  R4x8.stateStep_spec hs hf hg

/-- the bound is tight and the primitive does see the overflow: one more than 4096 overflows at
the largest state, and a cumulative frequency above the slot underflows -/
example : R4x8.stateStep (2^32 - 1) 4096 0 = .ok (2^32 - 1) := by decide
example : R4x8.stateStep (2^32 - 1) 4097 0 = .panic := by decide
example : R4x8.stateStep 0 0 1 = .panic := by decide

/-- `state_renormalize` terminates (its fuel is never exhausted) and keeps the state a `u32` -/
theorem rans4x8_renormalize_total (s : Nat) (hs : s < 2^32) (src : Bytes) :
    R4x8.renormalize s src ≠ .panic ∧
      ∀ v rest, R4x8.renormalize s src = .ok (v, rest) → v < 2^32 ∧ rest <:+ src :=
  ⟨(R4x8.safeP_renormalize hs).ne_panic src,
    fun _ _ h => ⟨(R4x8.safeP_renormalize hs).post h, (R4x8.safeP_renormalize hs).suffix h⟩⟩

/-- the order-0 and order-1 symbol loops write every byte of a destination of `n` bytes exactly
once (the model builds the output as it goes, the Rust writes into `dst`; an `ok` answer has the
declared length) and read only inside their input -/
theorem rans4x8_order0_fills_destination (n : Nat) (s rest : Bytes) (out : List Nat)
    (h : R4x8.decode0 n s = .ok (out, rest)) : out.length = n ∧ rest <:+ s :=
  ⟨(R4x8.safeP_decode0 n).post h, (R4x8.safeP_decode0 n).suffix h⟩

theorem rans4x8_order1_fills_destination (n : Nat) (hn : n < 2^32) (s rest : Bytes)
    (out : List Nat) (h : R4x8.decode1 n s = .ok (out, rest)) : out.length = n ∧ rest <:+ s :=
  ⟨(R4x8.safeP_decode1 n hn).post h, (R4x8.safeP_decode1 n hn).suffix h⟩

/-! ## rANS Nx16 -/

/-- `rans_nx16::decode(src, uncompressed_size)` — all flag combinations (order 0/1, N = 4/32,
STRIPE nested up to `MAX_STRIPE_DEPTH`, NO_SIZE, CAT, RLE, PACK), the compressed order-1 table,
the compressed RLE metadata — never panics, for any `usize` declared size -/
theorem rans_nx16_decode_total_no_panic (alloc : Nat → Bool) (src : Bytes) (len : Nat)
    (hlen : len < 2^64) : Nx16.decode alloc src len ≠ .panic :=
  Nx16.decode_ne_panic alloc src len hlen

/-- `normalize_frequencies(frequencies, bits)` for `bits < 32` (the callers pass 12 or a 4-bit
field): no overflow in the checked sum, the doubling loop or the shifts, the loop terminates, and
an accepted row keeps its length and has a total of at most `2^bits` -/
theorem rans_nx16_normalize_total (F : List Nat) (bits : Nat) (hb : bits < 32) :
    ∃ r, Nx16.normalize F bits = .ok r ∧
      ∀ F', r = some F' → F'.length = F.length ∧ F'.sum ≤ 2 ^ bits :=
  Nx16.normalize_spec F hb

/-- a total that is not `2^bits / 2^k` is rejected, a power-of-two fraction is scaled up, and a
shift amount of 32 would panic: the `bits < 32` hypothesis is needed -/
example : Nx16.normalize [3, 0] 2 = .ok none := by decide
example : Nx16.normalize [1, 1] 2 = .ok (some [2, 2]) := by decide
example : Nx16.normalize [1] 32 = .panic := by decide

/-- `state_step` with `bits` of normalisation: no overflow, no underflow, for a row total of at
most `2^bits` and a cumulative frequency at most the slot -/
theorem rans_nx16_state_step_no_overflow (s f g bits : Nat) (hs : s < 2^32) (hb : bits < 32)
    (hf : f ≤ 2 ^ bits) (hg : g ≤ s % 2 ^ bits) :
    ∃ v, Nx16.stateStep s f g bits = .ok v ∧ v < 2^32 := Nx16.stateStep_spec hs hb hf hg

example : Nx16.stateStep (2^32 - 1) 4097 0 12 = .panic := by decide

/-- the symbol loops with `N` interleaved states fill a destination of `n` bytes exactly -/
theorem rans_nx16_order0_fills_destination (N n : Nat) (hN : N ≠ 0) (s rest : Bytes)
    (out : List Nat) (h : Nx16.decode0 N n s = .ok (out, rest)) : out.length = n ∧ rest <:+ s :=
  ⟨(Nx16.safeP_decode0 hN n).post h, (Nx16.safeP_decode0 hN n).suffix h⟩

theorem rans_nx16_order1_fills_destination (alloc : Nat → Bool) (N n : Nat) (hN : N ≠ 0)
    (hn : n < 2^64) (s rest : Bytes) (out : List Nat)
    (h : Nx16.decode1 alloc N n s = .ok (out, rest)) : out.length = n ∧ rest <:+ s :=
  ⟨(Nx16.safeP_decode1 alloc hN hn).post h, (Nx16.safeP_decode1 alloc hN hn).suffix h⟩

/-- striping: chunk `i` of `n` holds `len / n` bytes, one more when `i < len % n`; each of its
positions `j` is written to `dst[j * n + i]`, inside the destination of `len` bytes -/
theorem rans_nx16_stripe_index_in_bounds (len n i j : Nat) (hi : i < n)
    (hj : j < len / n + (if len % n > i then 1 else 0)) : j * n + i < len :=
  Nx16.stripe_index hi hj

/-- order 1: lane `j < N` of round `i < len / N` writes `dst[j * (len / N) + i]`, inside the
destination -/
theorem rans_nx16_order1_index_in_bounds (N len i j : Nat) (hi : i < len / N) (hj : j < N) :
    j * (len / N) + i < len := Nx16.lane_index rfl hi hj

/-- eight levels of nesting are decoded (a stored chunk of one byte inside eight stripes of one
chunk each), a ninth level is refused with an error -/
example : Nx16.decode (fun _ => true)
    [0x08,0x01,0x01,0x1e, 0x08,0x01,0x01,0x1a, 0x08,0x01,0x01,0x16, 0x08,0x01,0x01,0x12,
     0x08,0x01,0x01,0x0e, 0x08,0x01,0x01,0x0a, 0x08,0x01,0x01,0x06, 0x08,0x01,0x01,0x02,
     0x30,0x2a] 0 = .ok [0x2a] := by decide
example : Nx16.decode (fun _ => true)
    [0x08,0x01,0x01,0x22,
     0x08,0x01,0x01,0x1e, 0x08,0x01,0x01,0x1a, 0x08,0x01,0x01,0x16, 0x08,0x01,0x01,0x12,
     0x08,0x01,0x01,0x0e, 0x08,0x01,0x01,0x0a, 0x08,0x01,0x01,0x06, 0x08,0x01,0x01,0x02,
     0x30,0x2a] 0 = .err .invalidData := by decide

/-! ## name tokenizer -/

/-- `name_tokenizer::decode` never panics, whatever the decompressor of the token byte streams
answers (any bytes, any error), as long as that decompressor does not panic itself -/
theorem name_tokenizer_decode_total_no_panic (inner : Nat → Bytes → Res Bytes)
    (hinner : ∀ m b, inner m b ≠ .panic) (alloc : Nat → Bool) (src : Bytes) :
    Tok.decode inner alloc src ≠ .panic := Tok.decode_ne_panic inner hinner alloc src

/-- the composition for the rANS method: with `rans_nx16::decode(buf, 0)` (the model above) as
the decompressor of method 0 and any non-panicking function for the arithmetic coder, the
tokenizer never panics -/
theorem name_tokenizer_rans_decode_total_no_panic (aac : Bytes → Res Bytes)
    (haac : ∀ b, aac b ≠ .panic) (alloc : Nat → Bool) (src : Bytes) :
    Tok.decode (fun m b => if m = 0 then Nx16.decode alloc b 0 else aac b) alloc src ≠ .panic :=
  Tok.decode_ne_panic _ (fun m b => by
    split
    · exact Nx16.decode_ne_panic alloc b 0 (by decide)
    · exact haac b) alloc src

/-- the per-name decoder keeps the name and token lists at their length, so that `names[n]`,
`names[m]`, `tokens[m]`, `tokens[n]` with `m = n - dist ≤ n` stay inside them -/
theorem name_tokenizer_name_indices_in_bounds (n len : Nat) (hn : n < len) (st st' : Tok.St)
    (name : Bytes) (hst : st.names.length = len ∧ st.tokens.length = len)
    (h : Tok.decodeSingleName st n = .ok (st', name)) :
    st'.names.length = len ∧ st'.tokens.length = len :=
  (Tok.decodeSingleName_sat hn st hst).of_ok h

/-- the hypothesis on the decompressor is needed: a panicking decompressor is reached -/
example : Tok.decode (fun _ _ => .panic) (fun _ => true)
    [0,0,0,0, 1,0,0,0, 0, 0x80, 0x00] = .panic := by decide

/-- a stream that starts without the new-token flag is an error, not an index out of range -/
example : Tok.decode (fun _ b => .ok b) (fun _ => true)
    [0,0,0,0, 1,0,0,0, 0, 0x00, 0x00] = .err .invalidData := by decide

/-- a `Match` with no previous token ends the name (`prev_token.cloned()` is `None`): two names
`A` decoded from a Diff/Char/Match and a Dup -/
example : Tok.decode (fun _ b => .ok b) (fun _ => true)
    [4,0,0,0, 2,0,0,0, 0,
     0x80, 0x02, 6, 5,            -- token 0, type stream: Diff, Dup
     0x06, 0x04, 0,0,0,0,         -- Diff distances
     0x05, 0x04, 1,0,0,0,         -- Dup distances
     0x80, 0x02, 2, 10,           -- token 1, type stream: Char, Match
     0x02, 0x01, 0x41,            -- Char stream "A"
     0x80, 0x01, 10]              -- token 2, type stream: Match (no previous token: ends the name)
    = .ok [0x41, 0, 0x41, 0] := by decide

/-! ## agreement with the C08 decoder models where the checked machine answers

C08's decoders (`Noodles/Cram/Rans4x8.lean`, `Nx16.lean`, from the specification, `List Nat`) say
what is decoded; wherever the checked state machine of this file answers `ok`, it is the same
function. -/

/-- rANS 4x8 `state_step` = `RansAdvanceStep` of the C08 decoder -/
theorem rans4x8_state_step_agrees_with_c08 (s f g v : Nat) (h : R4x8.stateStep s f g = .ok v) :
    v = Noodles.Cram.R4.decStep s f g := Agree.r4_stateStep_agrees h

/-- rANS 4x8 `state_renormalize` = `RansRenorm` of the C08 decoder: same state, same bytes left -/
theorem rans4x8_renormalize_agrees_with_c08 (s v : Nat) (src rest : Bytes)
    (h : R4x8.renormalize s src = .ok (v, rest)) :
    Noodles.Cram.R4.renormDec (src.map UInt8.toNat) s = .ok (v, rest.map UInt8.toNat) :=
  Agree.r4_renormalize_agrees h

/-- rANS Nx16 `state_step` (12 bits) = `RansAdvanceStep` -/
theorem rans_nx16_state_step_agrees_with_c08 (s f g v : Nat)
    (h : Nx16.stateStep s f g 12 = .ok v) : v = Noodles.Cram.R4.decStep s f g :=
  Agree.nx_stateStep_agrees h

/-- rANS Nx16 `state_renormalize` = `RansRenorm` of the C08 Nx16 decoder -/
theorem rans_nx16_renormalize_agrees_with_c08 (s v : Nat) (src rest : Bytes)
    (h : Nx16.renormalize s src = .ok (v, rest)) :
    Noodles.Cram.Nx.renormDec (src.map UInt8.toNat) s = .ok (v, rest.map UInt8.toNat) :=
  Agree.nx_renormalize_agrees h

/-- rANS Nx16 `cumulative_frequencies_symbol` on a 256-entry row = `RansGetSymbolFromFreq` -/
theorem rans_nx16_symbol_lookup_agrees_with_c08 (C : List Nat) (hC : C.length = 256) (f : Nat) :
    Nx16.cumSymbol C.toArray f = .ok (Noodles.Cram.R4.lookup C f) :=
  Agree.nx_cumSymbol_agrees C hC f

end Noodles.Props.C15
