import Noodles.Span.AlignProof
import Noodles.Span.VariantProof
import Noodles.Span.ComposeProof
import Noodles.Span.UnmappedProof
import Noodles.Span.FileLevelProof
/-!
# C04, continued — span functions, the region filter, the unmapped seek, record-level composition

`Noodles/Props/C04.lean` proves that the CHUNKS of a query serve exactly the records whose closed
span `[s, e]` meets the closed region. This file brings the rest of the property inside the model:

* how `e` is computed — `alignment_span` / `alignment_end` (POS + CIGAR) and `variant_end` /
  `variant_span` (REF, INFO END before VCF 4.5, max(|REF|, SVLEN, LEN) from 4.5);
* the `intersects` filters of the BAM / VCF / BCF / generic query iterators, with the region's
  optional bounds;
* `last_first_record_start_position` for the linear index, the binned index in memory and the
  binned index read back from a CSI file, and the scan `query_unmapped` does from there;
* the composition: index(spans) + chunks + filter = the linear scan, at record level.

Models: `Noodles/Span/{Align,Variant,Filter,Unmapped,Compose}.lean`; helper lemmas:
`Noodles/Span/*Proof.lean`.
-/
namespace Noodles.Props.C04
open Noodles.Span Noodles.Csi
open Noodles.Bam (Op consumesRef)
open Noodles.Vcf (Val endFrom)

/-! ## alignment spans -/

/-- the operations that consume the reference are exactly `M D N = X` (indices 0 2 3 7 8 of
`MIDNSHP=X`) -/
theorem consumes_reference_kinds (k : Nat) :
    consumesRef k = true ↔ k = 0 ∨ k = 2 ∨ k = 3 ∨ k = 7 ∨ k = 8 := by
  simp [consumesRef, or_assoc]

/-- `Cigar::alignment_span` succeeds exactly when no item of the iterator is an error and the sum of
the reference-consuming lengths fits a `usize`, and then it IS that sum. -/
theorem alignment_span_spec (items : List (Option Op)) (n : Nat) :
    cigarSpan items = some n ↔
      ∃ ops, items = ops.map some ∧ n = refLen ops ∧ refLen ops ≤ USIZE_MAX := by
  constructor
  · intro h
    obtain ⟨ops, he, hn⟩ := cigarSpanLoop_some items 0 n h
    refine ⟨ops, he, by omega, ?_⟩
    rw [he, cigarSpan_ok] at h
    by_cases hle : refLen ops ≤ USIZE_MAX
    · exact hle
    · rw [if_neg hle] at h; cases h
  · rintro ⟨ops, rfl, rfl, hle⟩
    rw [cigarSpan_ok, if_pos hle]

/-- an erroneous item makes the span an error wherever it stands (before or after an overflow) -/
theorem alignment_span_err_item (pre post : List (Option Op)) :
    cigarSpan (pre ++ none :: post) = none :=
  cigarSpanLoop_err pre post 0

/-- `Record::alignment_end` in closed form: no start → `None` whatever the CIGAR; otherwise
`start + max(1, span) − 1` (so a zero span — unmapped read placed at its mate, clip-only CIGAR —
gives `end = start`), an `Err` exactly when that does not fit a `usize`. -/
theorem alignment_end_spec (ops : List Op) :
    (∀ items, alignmentEnd .absent items = .absent) ∧
    (∀ items, alignmentEnd .err items = .err) ∧
    (∀ s, 1 ≤ s → s ≤ USIZE_MAX →
      alignmentEnd (.val s) (ops.map some) =
        if s + (max 1 (refLen ops) - 1) ≤ USIZE_MAX then .val (s + (max 1 (refLen ops) - 1)) else .err) :=
  ⟨fun _ => rfl, fun _ => rfl, fun s h1 h2 => alignmentEnd_ok s ops h1 h2⟩

/-- whenever an end is reported it is at or after the start, and the CIGAR had no erroneous item -/
theorem alignment_end_ge_start (s e : Nat) (items : List (Option Op))
    (h : alignmentEnd (.val s) items = .val e) :
    s ≤ e ∧ ∃ ops : List Op, items = ops.map some := by
  unfold alignmentEnd alignmentSpan at h
  cases hc : cigarSpan items with
  | none => rw [hc] at h; simp at h
  | some n =>
    obtain ⟨ops, he, _⟩ := (alignment_span_spec items n).mp hc
    refine ⟨?_, ops, he⟩
    rw [hc] at h
    cases n with
    | zero => simp at h; omega
    | succ k =>
      simp only at h
      split at h
      · simp only [OR.val.injEq] at h; omega
      · cases h

/-- the lazy BAM view agrees with the decoded one: on the packed `u32` words of any CIGAR with valid
kinds, `bam::Record`'s `alignment_span` / `alignment_end` equal those over the operation list
(`RecordBuf` through the `Record` trait) -/
theorem bam_lazy_end_eq_decoded (start : OR Nat) (ops : List Op) (hk : ∀ o ∈ ops, o.kind ≤ 8) :
    alignmentSpan (lazyItems (ops.map packOp)) = alignmentSpan (ops.map some) ∧
    alignmentEnd start (lazyItems (ops.map packOp)) = alignmentEnd start (ops.map some) := by
  rw [lazyItems_pack ops hk]; exact ⟨rfl, rfl⟩

/-- a BAM record cannot overflow: with at most 2^32 `u32` words of valid kinds and a 31-bit
position, `alignment_end` is `POS + max(1, span) − 1`, never an error -/
theorem bam_alignment_end_total (ws : List Nat) (pos : Int)
    (hw : ∀ w ∈ ws, w < 4294967296 ∧ w % 16 ≤ 8) (hn : ws.length ≤ 4294967296)
    (hp0 : 0 ≤ pos) (hp : pos < 2147483648) :
    alignmentEnd (lazyField 1 pos) (lazyItems ws) =
      .val (pos.toNat + 1 + (max 1 (refLen (wordOps ws)) - 1)) := by
  have hstart : lazyField 1 pos = .val (pos.toNat + 1) := by
    unfold lazyField
    rw [if_neg (by omega), if_neg (by omega)]
  rw [hstart, lazyItems_valid ws (fun w h => (hw w h).2)]
  have hb := refLen_wordOps_le ws (fun w h => (hw w h).1)
  have hb2 : ws.length * 268435455 ≤ 4294967296 * 268435455 := Nat.mul_le_mul_right _ hn
  have hU : USIZE_MAX = 18446744073709551615 := rfl
  rw [alignmentEnd_ok _ _ (by omega) (by omega), if_pos (by omega)]

/-- `RecordBuf`'s INHERENT `alignment_end` (fixed: `checked_add`) agrees with the trait's whenever the
sum of the lengths itself fits a `usize`: the same position, and `None` exactly where the trait
method reports the overflow error. -/
theorem recordbuf_inherent_end_agrees (s : Nat) (ops : List Op) (hs1 : 1 ≤ s) (hs : s ≤ USIZE_MAX)
    (hsum : refLen ops ≤ USIZE_MAX) :
    bufAlignmentEnd (some s) ops = .ret (match alignmentEnd (.val s) (ops.map some) with
      | .val e => some e
      | _ => none) := by
  rw [alignmentEnd_ok s ops hs1 hs]
  unfold bufAlignmentEnd
  rw [bufAlignmentSpan_eq, if_pos hsum]
  by_cases h0 : refLen ops = 0
  · have : max 1 0 - 1 = 0 := by decide
    simp [h0, hs]
  · simp only [h0, if_false]
    have : max 1 (refLen ops) = refLen ops := by omega
    rw [this]
    by_cases hfit : s + (refLen ops - 1) ≤ USIZE_MAX
    · rw [if_pos hfit, if_pos hfit]
    · rw [if_neg hfit, if_neg hfit]

/-- non-vacuity: an ordinary record (`100`, `5S 10M 3I 20D 7M 2H`) → span 37, end 136, both views -/
example : alignmentEnd (.val 100) ([⟨4, 5⟩, ⟨0, 10⟩, ⟨1, 3⟩, ⟨2, 20⟩, ⟨0, 7⟩, ⟨5, 2⟩].map some) = .val 136 ∧
    bufAlignmentEnd (some 100) [⟨4, 5⟩, ⟨0, 10⟩, ⟨1, 3⟩, ⟨2, 20⟩, ⟨0, 7⟩, ⟨5, 2⟩] = .ret (some 136) ∧
    alignmentEnd (lazyField 1 99) (lazyItems [84, 160, 49, 322, 112, 37]) = .val 136 := by decide

/-! ## variant spans -/

/-- `variant_end` before VCF 4.5: INFO `END` when present (a positive integer; any other type is an
error), else `POS + |REF| − 1` (`POS = 1` when missing; an empty REF is an error) -/
theorem variant_end_rule_before_4_5 (major minor : Nat) (hv : (hdrOf major minor).before 4 5 = true)
    (start : OR Nat) (refLen : Nat) (infoEnd svlen : Option (Option Val))
    (lenCol : Option (List (Option Val))) :
    (∀ n, infoEnd = some (some (.integer n)) →
      variantEnd major minor start refLen infoEnd svlen lenCol = if 1 ≤ n then some n.toNat else none) ∧
    ((infoEnd = none ∨ infoEnd = some none) →
      variantEnd major minor start refLen infoEnd svlen lenCol =
        if refLen = 0 then none else endFrom (startArg start) refLen) := by
  refine ⟨fun n hn => ?_, fun hn => ?_⟩
  · simp [variantEnd, Noodles.Vcf.variantEndCore, hv, hn]
  · rcases hn with hn | hn <;> simp [variantEnd, Noodles.Vcf.variantEndCore, hv, hn]

/-- `variant_end` from VCF 4.5 on: `POS + max(|REF|, max SVLEN, max LEN) − 1`; INFO `END` is not
looked at; an empty REF, a negative or wrongly typed SVLEN / LEN entry is an error (`len45`) -/
theorem variant_end_rule_4_5 (major minor : Nat) (hv : (hdrOf major minor).before 4 5 = false)
    (start : OR Nat) (refLen : Nat) (infoEnd svlen : Option (Option Val))
    (lenCol : Option (List (Option Val))) :
    variantEnd major minor start refLen infoEnd svlen lenCol =
      match len45 refLen svlen lenCol with
      | none => none
      | some n => endFrom (startArg start) n :=
  variantEndCore_4_5 _ hv _ _ _ _ _

/-- when the end is derived from a length `n ≥ 1` (every case but INFO `END`), it is at or after
the start and `variant_span` is that length -/
theorem variant_span_of_len (major minor : Nat) (start : OR Nat) (refLen n e : Nat)
    (infoEnd svlen : Option (Option Val)) (lenCol : Option (List (Option Val)))
    (hstart : start ≠ .err) (hn : 1 ≤ n)
    (hend : variantEnd major minor start refLen infoEnd svlen lenCol = some e)
    (hfrom : endFrom (startArg start) n = some e) :
    variantSpan major minor start refLen infoEnd svlen lenCol = some n := by
  unfold variantSpan
  cases start with
  | err => exact absurd rfl hstart
  | absent =>
    simp only [hend]
    simp only [endFrom, startArg, Option.getD_none] at hfrom
    split at hfrom
    · simp only [Option.some.injEq] at hfrom
      rw [if_pos (by omega)]; congr 1; omega
    · cases hfrom
  | val s =>
    simp only [hend]
    simp only [endFrom, startArg, Option.getD_some] at hfrom
    split at hfrom
    · simp only [Option.some.injEq] at hfrom
      rw [if_pos (by omega)]; congr 1; omega
    · cases hfrom

/-- with INFO `END` (before 4.5) the span is `END − POS + 1`, and an END before the start is an
error of `variant_span` (fix d10df78), not an underflow -/
theorem variant_span_of_end (major minor : Nat) (hv : (hdrOf major minor).before 4 5 = true)
    (s refLen : Nat) (n : Int) (svlen : Option (Option Val)) (lenCol : Option (List (Option Val)))
    (hn : 1 ≤ n) :
    variantSpan major minor (.val s) refLen (some (some (.integer n))) svlen lenCol =
      if s ≤ n.toNat then some (n.toNat - s + 1) else none := by
  unfold variantSpan
  rw [(variant_end_rule_before_4_5 major minor hv (.val s) refLen _ svlen lenCol).1 n rfl, if_pos hn]

/-- non-vacuity: 4.3 with END, 4.3 without, 4.5 with SVLEN and LEN, 4.3 with END before POS -/
example :
    variantSpan 4 3 (.val 100) 1 (some (some (.integer 250))) none none = some 151 ∧
    variantSpan 4 3 (.val 100) 4 none none none = some 4 ∧
    variantSpan 4 5 (.val 100) 1 (some (some (.integer 250))) (some (some (.ints [some 30, none, some 70])))
      (some [some (.integer 90), none]) = some 90 ∧
    variantSpan 4 3 (.val 100) 1 (some (some (.integer 50))) none none = none := by decide

/-! ## the region filter -/

/-- `bam::io::reader::query::intersects` keeps a placed record whose end could be computed iff it
is on the queried reference and its closed span meets the region (a missing region bound being no
constraint) -/
theorem bam_filter_iff (id s e : Nat) (items : List (Option Op)) (qrid : Nat) (iv : Interval)
    (hs1 : 1 ≤ s) (he : e ≤ USIZE_MAX) (hend : alignmentEnd (.val s) items = .val e) :
    bamIntersects (.val id) (.val s) items qrid iv = some (decide (id = qrid ∧ Overlaps s e iv)) :=
  bamIntersects_spec id s e items qrid iv hs1 (alignment_end_ge_start s e items hend).1 he hend

/-- the VCF / BCF / generic (`csi::io::FilterByRegion`) filters likewise -/
theorem variant_filter_iff (nameEq : Bool) (recId qrid s e : Nat) (iv : Interval)
    (hs1 : 1 ≤ s) (hse : s ≤ e) (he : e ≤ USIZE_MAX) :
    vcfIntersects nameEq (.val s) (some e) iv = some (nameEq && decide (Overlaps s e iv)) ∧
    bcfIntersects (some recId) (.val s) (some e) qrid iv =
      some ((recId == qrid) && decide (Overlaps s e iv)) ∧
    csiFilterIntersects nameEq s e iv = (nameEq && decide (Overlaps s e iv)) := by
  refine ⟨vcfIntersects_spec nameEq s e iv hs1 hse he, ?_, ?_⟩
  · unfold bcfIntersects; exact vcfIntersects_spec _ s e iv hs1 hse he
  · unfold csiFilterIntersects; rw [intersects_closed s e iv (by omega) (by omega)]

/-- what the filters do with records the property does not speak about: no reference id → dropped;
a reference id but no position → dropped for a bounded region, KEPT for an unbounded one (the
shortcut does not look at the position) -/
theorem filter_unplaced (start : OR Nat) (items : List (Option Op)) (qrid : Nat) (iv : Interval) :
    bamIntersects .absent start items qrid iv = some false ∧
    (iv.unbounded = false → bamIntersects (.val qrid) .absent items qrid iv = some false) ∧
    (iv.unbounded = true → bamIntersects (.val qrid) .absent items qrid iv = some true) := by
  refine ⟨rfl, fun h => ?_, fun h => ?_⟩ <;> simp [bamIntersects, h]

/-! ## the unmapped query -/

/-- the three index kinds `query_unmapped` is used with -/
def IsIndexKind (K : IxKind) : Prop :=
  K = linearKind ∨ (∃ ms d, K = binnedKind ms d) ∨ (∃ ms d, K = binnedFileKind ms d)

theorem indexKind_lawful (K : IxKind) (h : IsIndexKind K) : K.Lawful := by
  rcases h with rfl | ⟨ms, d, rfl⟩ | ⟨ms, d, rfl⟩
  · exact linearKind_lawful
  · exact binnedKind_lawful ms d
  · exact binnedFileKind_lawful ms d

/-- **The seek target of `query_unmapped`** — `last_first_record_start_position` of the index
noodles builds for ANY file the indexer accepts, linear (BAI), binned in memory (CSI) or binned as
read back from a CSI file (whose `loffset`s are minima over ancestor chains) — is the start offset
of a PLACED record of that file. (Extends `unmapped_seek_before_tail`, which is the linear case for
one reference.) -/
theorem unmapped_seek_is_placed_record (K : IxKind) (hK : IsIndexKind K) (off : Nat → Nat)
    (file : List FRec) (nref : Nat) (refs : List K.σ) (p : Nat)
    (hix : indexFile K off 0 [] file = some refs)
    (hp : lastFirstRecordStart K (build K refs nref) = some p) :
    ∃ j, ∃ hj : j < file.length, p = off j ∧ file[j].ctx ≠ none := by
  have hL := indexKind_lawful K hK
  have hinv := indexFile_inv K hL off file [] [] refs (by simpa using hix)
    (by intro st hst; cases hst)
  simp only [List.nil_append] at hinv
  exact lastFirst_of_refs K hL _ refs nref p hinv hp

/-- hence, in a coordinate-sorted file (no placed record after an unplaced one), the seek target is
strictly before every unplaced record -/
theorem unmapped_seek_before_unplaced (K : IxKind) (hK : IsIndexKind K) (off : Nat → Nat)
    (hmono : ∀ a b, a < b → off a < off b) (file : List FRec) (hsorted : PlacedFirst file)
    (nref : Nat) (refs : List K.σ) (p : Nat)
    (hix : indexFile K off 0 [] file = some refs)
    (hp : lastFirstRecordStart K (build K refs nref) = some p)
    (i : Nat) (hi : i < file.length) (hun : file[i].ctx = none) : p < off i := by
  obtain ⟨j, hj, rfl, hpl⟩ := unmapped_seek_is_placed_record K hK off file nref refs p hix hp
  exact hmono _ _ (hsorted i j hi hj hun hpl)

/-- **The unmapped query is complete and sound**: on a coordinate-sorted file, for each index kind,
the records `query_unmapped` yields (i) contain every unplaced unmapped record, in file order, each
once — filtering the result to the unplaced records gives exactly `unplacedUnmapped file` —,
(ii) are all flagged unmapped, (iii) come in file order without repetition. -/
theorem query_unmapped_complete_sound (K : IxKind) (hK : IsIndexKind K) (off : Nat → Nat)
    (hmono : ∀ a b, a < b → off a < off b) (file : List FRec) (hsorted : PlacedFirst file)
    (nref : Nat) (res : List Nat) (h : unmappedQuery K off file nref = some res) :
    (res.filter fun i => match file[i]? with
      | some r => r.ctx.isNone
      | none => false) = unplacedUnmapped file ∧
    (∀ i ∈ res, ∃ hi : i < file.length, file[i].unmapped = true) ∧
    res.Pairwise (· < ·) := by
  unfold unmappedQuery at h
  cases hix : indexFile K off 0 [] file with
  | none => rw [hix] at h; cases h
  | some refs =>
    rw [hix] at h
    simp only [Option.some.injEq] at h
    subst h
    refine ⟨?_, ?_, ?_⟩
    · unfold queryUnmapped unplacedUnmapped
      rw [List.filter_filter]
      apply List.filter_congr
      intro i hi
      have hlt : i < file.length := List.mem_range.mp hi
      simp only [List.getElem?_eq_getElem hlt]
      cases hc : (file[i]).ctx with
      | some c => simp
      | none =>
        simp only [Option.isNone_none, Bool.true_and]
        cases hp : lastFirstRecordStart K (build K refs nref) with
        | none => simp
        | some p =>
          have := unmapped_seek_before_unplaced K hK off hmono file hsorted nref refs p hix hp i hlt hc
          simp [Nat.le_of_lt this]
    · intro i hi
      unfold queryUnmapped at hi
      simp only [List.mem_filter, List.mem_range, Bool.and_eq_true] at hi
      obtain ⟨hlt, _, hu⟩ := hi
      rw [List.getElem?_eq_getElem hlt] at hu
      exact ⟨hlt, hu⟩
    · unfold queryUnmapped
      exact List.Pairwise.filter _ List.pairwise_lt_range

/- The stronger reading "the unmapped query yields EXACTLY the unplaced unmapped records"
   (`∀ …, res = unplacedUnmapped file`) is FALSE for the current code, and not demanded by the
   property ("every unplaced unmapped record, in file order, and nothing that is not flagged
   unmapped"): a placed record flagged unmapped that lies at or after the seek target is yielded
   too. Witness: one placed unmapped read followed by one unplaced read. -/
theorem query_unmapped_not_only_unplaced :
    ¬ ∀ (file : List FRec) (res : List Nat), PlacedFirst file →
      unmappedQuery linearKind (fun i => 100 * (i + 1)) file 1 = some res → res = unplacedUnmapped file := by
  intro h
  have hs : PlacedFirst [⟨some (0, ⟨100, 100⟩), true⟩, ⟨none, true⟩] := by
    intro i j hi hj h1 h2
    simp only [List.length_cons, List.length_nil] at hi hj
    have hi' : i = 0 ∨ i = 1 := by omega
    have hj' : j = 0 ∨ j = 1 := by omega
    rcases hi' with rfl | rfl <;> rcases hj' with rfl | rfl <;> simp at h1 h2 ⊢
  have := h [⟨some (0, ⟨100, 100⟩), true⟩, ⟨none, true⟩] [0, 1] hs (by decide)
  revert this
  decide

/-- non-vacuity: a sorted two-reference file with a placed-unmapped read and an unplaced tail is
indexed by all three kinds, and the unmapped query answers -/
example : unmappedQuery linearKind (fun i => 100 * (i + 1))
      [⟨some (0, ⟨5, 40⟩), false⟩, ⟨some (2, ⟨70000, 70000⟩), true⟩, ⟨none, true⟩, ⟨none, true⟩] 3
      = some [1, 2, 3] ∧
    unmappedQuery (binnedKind 14 5) (fun i => 100 * (i + 1))
      [⟨some (0, ⟨5, 40⟩), false⟩, ⟨some (2, ⟨70000, 70000⟩), true⟩, ⟨none, true⟩, ⟨none, true⟩] 3
      = some [1, 2, 3] ∧
    unmappedQuery (binnedFileKind 14 5) (fun i => 100 * (i + 1))
      [⟨some (0, ⟨5, 40⟩), false⟩, ⟨some (2, ⟨70000, 70000⟩), true⟩, ⟨none, true⟩, ⟨none, true⟩] 3
      = some [1, 2, 3] := by decide

/-! ## composition at record level -/

/-- **Region query = linear scan, at record level, for alignment records with arbitrary CIGARs.**
For any records of the queried reference (1-based starts, spans inside the geometry), any strictly
increasing offsets, linear (BAI) or binned (CSI) index, any geometry that fits a `usize` and any
region with optional bounds inside the geometry: indexing the records with the spans
`alignment_end` computes, taking the chunks of the resolved region, serving them and applying the
BAM `intersects` filter yields exactly the records whose SPECIFICATION span
`[POS, POS + max(1, Σ M/D/N/=/X lengths) − 1]` meets the region, in file order, each once. -/
theorem query_records_eq_scan (binned : Bool) (minShift depth : Nat) (off : Nat → Nat)
    (hmono : ∀ a b, a < b → off a < off b) (rs : List ARec)
    (hgeom : maxPos minShift depth ≤ USIZE_MAX)
    (hvalid : ∀ r ∈ rs, 1 ≤ r.start ∧ r.specEnd ≤ maxPos minShift depth)
    (qrid : Nat) (iv : Interval) (hiv : ∀ s, iv.start = some s → 1 ≤ s)
    (hin : (resolveInterval minShift depth iv).isSome) :
    queryAlignments binned minShift depth off rs qrid iv =
      some ((List.range rs.length).filter (ARec.specKeep rs iv)) := by
  have hse : ∀ r : ARec, r.start ≤ r.specEnd := fun r => by unfold ARec.specEnd; omega
  have hend : ∀ r ∈ rs, r.end? = .val r.specEnd := by
    intro r hr
    obtain ⟨h1, h2⟩ := hvalid r hr
    unfold ARec.end?
    rw [alignmentEnd_ok r.start r.ops h1 (by have := hse r; omega)]
    unfold ARec.specEnd at h2 ⊢
    rw [if_pos (by omega)]
  have hspan : ∀ r ∈ rs, r.span? = some ((fun r : ARec => (⟨r.start, r.specEnd⟩ : Rec)) r) := by
    intro r hr; unfold ARec.span?; rw [hend r hr]
  unfold queryAlignments
  rw [mapM?_spec _ _ rs hspan]
  cases hres : resolveInterval minShift depth iv with
  | none => rw [hres] at hin; cases hin
  | some q =>
    obtain ⟨qs, qe⟩ := q
    simp only
    obtain ⟨recs, hrecs⟩ : ∃ recs : List Rec, recs = rs.map fun r => ⟨r.start, r.specEnd⟩ := ⟨_, rfl⟩
    rw [← hrecs]
    have hlen : recs.length = rs.length := by simp [hrecs]
    have hvr : ValidRecs minShift depth recs := by
      intro r hr
      simp only [hrecs, List.mem_map] at hr
      obtain ⟨a, ha, rfl⟩ := hr
      obtain ⟨h1, h2⟩ := hvalid a ha
      exact ⟨h1, hse a, by unfold maxPos at h2; exact h2⟩
    have hkeep : ∀ i (hi : i < rs.length),
        ARec.keep rs qrid iv i = decide (Overlaps rs[i].start rs[i].specEnd iv) := by
      intro i hi
      unfold ARec.keep
      have hmem : rs[i] ∈ rs := List.getElem_mem hi
      obtain ⟨h1, h2⟩ := hvalid rs[i] hmem
      have he := hend rs[i] hmem
      unfold ARec.end? at he
      rw [List.getElem?_eq_getElem hi]
      simp only
      rw [bamIntersects_spec qrid rs[i].start rs[i].specEnd _ qrid iv h1 (hse _) (by omega) he]
      by_cases ho : Overlaps rs[i].start rs[i].specEnd iv <;> simp [ho]
    have := serve_generic binned minShift depth off hmono recs hvr (ARec.keep rs qrid iv) iv qs qe
      hres hiv
      (by intro i hi
          have hi' : i < rs.length := by omega
          rw [hkeep i hi']
          have hget : recs[i] = ⟨rs[i].start, rs[i].specEnd⟩ := by simp [hrecs]
          rw [hget])
    rw [hlen] at this
    rw [this]
    congr 1
    apply List.filter_congr
    intro i hi
    have hi' : i < rs.length := List.mem_range.mp hi
    rw [hkeep i hi']
    unfold ARec.specKeep
    rw [List.getElem?_eq_getElem hi']

/-- non-vacuity: a long record (`1M 99998N 1M`, span 100000) before a short one (`3S 11M`), the
default geometry and the region `50005-` (unbounded end) satisfy the hypotheses -/
example : (maxPos 14 5 ≤ USIZE_MAX) ∧
    (∀ r ∈ [(⟨1, [⟨0, 1⟩, ⟨3, 99998⟩, ⟨0, 1⟩]⟩ : ARec), ⟨50000, [⟨4, 3⟩, ⟨0, 11⟩]⟩],
      1 ≤ r.start ∧ r.specEnd ≤ maxPos 14 5) ∧
    (resolveInterval 14 5 ⟨some 50005, none⟩).isSome := by
  refine ⟨by decide, ?_, by decide⟩
  intro r hr
  simp only [List.mem_cons, List.mem_nil_iff, or_false] at hr
  rcases hr with rfl | rfl <;> decide

/-- **The same for variant records** (VCF with tabix, BCF/VCF with CSI): whenever `variant_end`
yields, for every record, an end `e` with `POS ≤ e` inside the geometry (which
`variant_end_rule_*` / `variant_span_of_len` characterise), the query yields exactly the records
whose span `[POS, e]` meets the region. -/
theorem query_variants_eq_scan (binned : Bool) (major minor minShift depth : Nat) (off : Nat → Nat)
    (hmono : ∀ a b, a < b → off a < off b) (rs : List VRec)
    (hgeom : maxPos minShift depth ≤ USIZE_MAX)
    (hvalid : ∀ r ∈ rs, 1 ≤ r.start ∧ ∃ e, r.end? major minor = some e ∧ r.start ≤ e ∧
      e ≤ maxPos minShift depth)
    (iv : Interval) (hiv : ∀ s, iv.start = some s → 1 ≤ s)
    (hin : (resolveInterval minShift depth iv).isSome) :
    queryVariants binned major minor minShift depth off rs iv =
      some ((List.range rs.length).filter (VRec.specKeep major minor rs iv)) := by
  have hspan : ∀ r ∈ rs, r.span? major minor =
      some ((fun r : VRec => (⟨r.start, (r.end? major minor).getD 0⟩ : Rec)) r) := by
    intro r hr
    obtain ⟨_, e, he, _, _⟩ := hvalid r hr
    simp [VRec.span?, he]
  unfold queryVariants
  rw [mapM?_spec _ _ rs hspan]
  cases hres : resolveInterval minShift depth iv with
  | none => rw [hres] at hin; cases hin
  | some q =>
    obtain ⟨qs, qe⟩ := q
    simp only
    obtain ⟨recs, hrecs⟩ : ∃ recs : List Rec,
      recs = rs.map fun r => ⟨r.start, (r.end? major minor).getD 0⟩ := ⟨_, rfl⟩
    rw [← hrecs]
    have hlen : recs.length = rs.length := by simp [hrecs]
    have hvr : ValidRecs minShift depth recs := by
      intro r hr
      simp only [hrecs, List.mem_map] at hr
      obtain ⟨a, ha, rfl⟩ := hr
      obtain ⟨h1, e, he, h2, h3⟩ := hvalid a ha
      simp only [he, Option.getD_some]
      exact ⟨h1, h2, by unfold maxPos at h3; exact h3⟩
    have hkeep : ∀ i (hi : i < rs.length),
        VRec.keep major minor rs iv i =
        decide (Overlaps rs[i].start ((rs[i].end? major minor).getD 0) iv) := by
      intro i hi
      unfold VRec.keep
      obtain ⟨h1, e, he, h2, h3⟩ := hvalid rs[i] (List.getElem_mem hi)
      rw [List.getElem?_eq_getElem hi]
      simp only [he, Option.getD_some]
      rw [vcfIntersects_spec true rs[i].start e iv h1 h2 (by omega)]
      by_cases ho : Overlaps rs[i].start e iv <;> simp [ho]
    have := serve_generic binned minShift depth off hmono recs hvr (VRec.keep major minor rs iv) iv
      qs qe hres hiv
      (by intro i hi
          have hi' : i < rs.length := by omega
          rw [hkeep i hi']
          have hget : recs[i] = ⟨rs[i].start, (rs[i].end? major minor).getD 0⟩ := by simp [hrecs]
          rw [hget])
    rw [hlen] at this
    rw [this]
    congr 1
    apply List.filter_congr
    intro i hi
    have hi' : i < rs.length := List.mem_range.mp hi
    obtain ⟨h1, e, he, h2, h3⟩ := hvalid rs[i] (List.getElem_mem hi')
    rw [hkeep i hi']
    unfold VRec.specKeep
    rw [List.getElem?_eq_getElem hi']
    simp only [he, Option.getD_some]

/-- non-vacuity: a 4.3 file with a symbolic deletion carrying END before a SNV, and a 4.5 record
whose end comes from SVLEN, satisfy the hypotheses -/
example :
    (∀ r ∈ [(⟨1, 1, some (some (.integer 100000)), none, none⟩ : VRec), ⟨50000, 1, none, none, none⟩],
      1 ≤ r.start ∧ ∃ e, r.end? 4 3 = some e ∧ r.start ≤ e ∧ e ≤ maxPos 14 5) ∧
    (∀ r ∈ [(⟨7, 1, none, some (some (.ints [some 500])), none⟩ : VRec)],
      1 ≤ r.start ∧ ∃ e, r.end? 4 5 = some e ∧ r.start ≤ e ∧ e ≤ maxPos 14 5) := by
  refine ⟨?_, ?_⟩
  · intro r hr
    simp only [List.mem_cons, List.mem_nil_iff, or_false] at hr
    rcases hr with rfl | rfl
    · exact ⟨by decide, 100000, by decide, by decide, by decide⟩
    · exact ⟨by decide, 50000, by decide, by decide, by decide⟩
  · intro r hr
    simp only [List.mem_cons, List.mem_nil_iff, or_false] at hr
    subst hr
    exact ⟨by decide, 506, by decide, by decide, by decide⟩

/-! ## composition at whole-file level -/

/-- **Region query = linear scan on the WHOLE file.** The records of the queried reference `q` form
a block `mid` between arbitrary records of other references / unplaced records (`pre`, `post`);
the index of `q` is built from the block at its global offsets, the chunks are served against ALL
records of the file (`csi::io::Query` delivers whatever starts inside a chunk) and the filter tests
the reference id and the span: the result is the scan of the whole file — no record of another
reference, no omission, file order, each once. Linear and binned index, any geometry. -/
theorem query_file_eq_scan (binned : Bool) (minShift depth : Nat) (offG : Nat → Nat)
    (hmono : ∀ a b, a < b → offG a < offG b) (pre post : List GRec) (mid : List Rec) (q : Nat)
    (hpre : ∀ r ∈ pre, r.rid ≠ some q) (hpost : ∀ r ∈ post, r.rid ≠ some q)
    (hvalid : ValidRecs minShift depth mid) (qs qe : Nat) (hq1 : 1 ≤ qs) :
    queryFile binned minShift depth offG pre mid post q qs qe = scanFile pre mid post q qs qe := by
  unfold queryFile scanFile
  simp only
  have hmono' : ∀ a b, a < b → offG (pre.length + a) < offG (pre.length + b) :=
    fun a b h => hmono _ _ (by omega)
  apply sorted_ext
  · exact List.Pairwise.filter _ (served_sorted offG hmono _ _ (chunksFor_disjoint _ _ _ _ _ _ _))
  · exact List.Pairwise.filter _ List.pairwise_lt_range
  · intro i
    simp only [List.mem_filter, List.mem_range]
    constructor
    · rintro ⟨hs, hk⟩
      exact ⟨((mem_served offG _ _ i).mp hs).1, hk⟩
    · rintro ⟨hlt, hk⟩
      refine ⟨?_, hk⟩
      obtain ⟨j, hj, rfl, hint⟩ := keep_in_block pre mid post q qs qe i hpre hpost hk
      have hscan : j ∈ scan mid qs qe := by
        unfold scan
        simp only [List.mem_filter, List.mem_range]
        exact ⟨hj, by rw [List.getElem?_eq_getElem hj]; exact hint⟩
      rw [← chunksFor_eq_scan binned minShift depth (fun j => offG (pre.length + j)) hmono' mid hvalid
        qs qe hq1] at hscan
      unfold queryRecs at hscan
      have hserved := (List.mem_filter.mp hscan).1
      obtain ⟨_, c, hc, hcov⟩ := (mem_served _ _ _ j).mp hserved
      exact (mem_served offG _ _ _).mpr ⟨hlt, c, hc, hcov⟩

/-- non-vacuity: two records of reference 1 between a record of reference 0 and an unplaced one -/
example : (∀ r ∈ [(⟨some 0, ⟨5, 9⟩⟩ : GRec)], r.rid ≠ some 1) ∧ (∀ r ∈ [(⟨none, ⟨0, 0⟩⟩ : GRec)], r.rid ≠ some 1) ∧
    ValidRecs 14 5 [⟨1, 100000⟩, ⟨50000, 50010⟩] := by
  refine ⟨by intro r hr; simp at hr; subst hr; decide, by intro r hr; simp at hr; subst hr; decide, ?_⟩
  intro r hr; simp at hr; rcases hr with rfl | rfl <;> decide

end Noodles.Props.C04
