import Noodles.Basic.Crc32
import Noodles.Trunc.Cut
import Noodles.Trunc.CutProof
import Noodles.Trunc.BinaryCutProof
import Noodles.Trunc.CramHeader
import Noodles.Trunc.CramHeaderProof
import Noodles.Trunc.LinesSpec
import Noodles.Trunc.LinesCutProof
/-!
# C13, second part — truncation ABOVE the framing

`Noodles/Props/C13.lean` proves the framing layers (BGZF members, BAM / BCF records over a byte
string, CRAM containers, BAM / BCF header framing) over the model of `Noodles/Trunc/Model.lean`. This
file is about the readers as they are transcribed call by call in `Noodles/Io/Prog.lean`,
`Noodles/Io/Binary.lean` (the C12 extension: every reader is a tree of `read_exact`,
`read_exact_or_eof` and `take(n).read_to_end` calls), `Noodles/Io/Lines.lean` (the text record readers
over a `BufReader`) and `Noodles/Trunc/CramHeader.lean` (the CRAM file header container).

**One generic theorem** (`prog_truncate`, by induction on the tree) says what ANY such reader does on
the first `k` bytes of its input: the same as on the whole input if it uses at most `k` bytes of it;
otherwise it runs as on the whole input up to the first call that does not fit, that call sees the end
of the source, and everything is used up. Two consequences hold for every tree: a run that leaves a
byte unread returns what the complete run returns (`prog_truncate_no_fabrication`); and a tree in
which every read is followed by `?` (`Prog.Strict`) FAILS when cut inside what it would have used
(`prog_truncate_strict`), and does not look ahead (`prog_strict_no_lookahead`). For the record loops
(`Prog.records`, and the text loops) one generic theorem (`record_loop_truncate`) says that the items of
the frames wholly inside the cut are delivered unchanged and in order and that what follows depends
only on the bytes present of the frame the cut falls into.

Everything else is an instance: BAM / BCF records, the CRAM file (definition, containers, EOF
container), the CRAM file header container, BAI / tabix / CSI / gzi — for EVERY input of the stated
shape and EVERY cut, no bound.

`Prog.runPure p d` is what the reader computes from the bytes `d` its source still has — by
`Noodles.Props.C12.prog_refines` over ANY scheduled source (short reads, `Interrupted`, any buffer
sizes), so the cut file may arrive in any way (`prog_truncate_any_delivery`).

Helper lemmas: `Noodles/Trunc/CutProof.lean`, `BinaryCutProof.lean`, `CramHeaderProof.lean`,
`LinesCutProof.lean`; definitions needed to state the theorems: `Noodles/Trunc/Cut.lean`,
`LinesSpec.lean`.
-/
namespace Noodles.Props.C13
open Noodles.IO Noodles.IO.Prog

/-! ## the generic theorems -/

/-- **Truncation of a `Prog` tree, every tree, every input, every cut.** `used p d` is the number of
bytes the run over `d` uses up; `starve p d k` is the continuation of the first call of that run that
does not fit into the first `k` bytes, applied to what the call returns when the source ends there
(`read_exact`: `UnexpectedEof`; `read_exact_or_eof`: `Ok(nothing)` if the cut is exactly where the call
starts — an item boundary — and `UnexpectedEof` otherwise; `read_to_end`: the bytes there are). -/
theorem prog_truncate {β : Type} (p : Prog β) (d : Bytes) (k : Nat) (hk : k ≤ d.length) :
    runPure p (d.take k) =
      if used p d ≤ k then ((runPure p d).1, (runPure p d).2.take (k - used p d))
      else ((runPure (starve p d k) []).1, []) :=
  runPure_take p d k hk

/-- the cut file may be delivered in any way: the run over ANY scheduled source holding the first `k`
bytes, with any buffer sizes inside `read_to_end`, is the run of `prog_truncate` -/
theorem prog_truncate_any_delivery {β : Type} (p : Prog β) (sz : Nat → List Nat) (d : Bytes) (k : Nat)
    (sched : List Noodles.IO.Delivery) :
    (Prog.run sz p ⟨d.take k, sched⟩).1 = (runPure p (d.take k)).1 :=
  (Prog.run_spec sz p ⟨d.take k, sched⟩).1

/-- **No fabrication, for every tree**: a run over a cut file that leaves a byte unread returns
exactly what the run over the whole file returns — a value that differs from the complete run's can
only come from a run that used up the whole cut file, i.e. that was told "end of input". -/
theorem prog_truncate_no_fabrication {β : Type} (p : Prog β) (d : Bytes) (k : Nat) (hk : k ≤ d.length)
    (h : (runPure p (d.take k)).2 ≠ []) : (runPure p (d.take k)).1 = (runPure p d).1 :=
  runPure_take_same p d k hk h

/-- **Strict trees**: if every read of `p` is followed by `?` (the continuation of a read that finds
the source ended fails with an error in `E`), then a cut anywhere inside what `p` would have used of
`d` makes `p` FAIL with an error in `E`, everything used up — never a value, never a different error
class. -/
theorem prog_truncate_strict {β : Type} {E : Err → Prop} {p : Prog β} (hs : Strict E p) (d : Bytes)
    (k : Nat) (hk : k ≤ d.length) (hu : k < used p d) :
    ∃ e, E e ∧ runPure p (d.take k) = (.error e, []) :=
  strict_cutFails hs d k hk hu

/-- a reader all of whose cuts fail does not look ahead: if it reads `f` to its end and succeeds, it
reads `f` followed by ANYTHING with the same result and leaves what follows untouched -/
theorem prog_strict_no_lookahead {β : Type} {E : Err → Prop} {p : Prog β} (hp : CutFails E p) (f : Bytes)
    (v : β) (h : runPure p f = (.ok v, [])) (rest : Bytes) : runPure p (f ++ rest) = (.ok v, rest) :=
  cutFails_extend hp f v h rest

/-- `while reader.read_record(&mut record)? != 0` over a `Prog` is the loop `pLoop` over its step
function -/
theorem records_is_record_loop {β : Type} (rd : Prog (Option β)) (fuel : Nat) (acc : List β) (d : Bytes) :
    runPure (records rd fuel acc) d =
      (.ok (pLoop (stepOf rd) fuel acc d).1, (pLoop (stepOf rd) fuel acc d).2) :=
  runPure_records rd fuel acc d

/-- **The generic cut theorem for record loops** (binary and text). A stream is a list of frames
followed by a tail `t`; each frame, followed by anything, is read by the step function as its item.
Then the loop over the first `k` bytes delivers the items of the frames wholly inside the cut,
unchanged and in order (`cutPos` counts them: `Noodles.Trunc.whole` of the frame lengths), and goes on
with the bytes present of the frame the cut falls into (`cutRest`) — nothing else of the stream
matters: what comes after the prefix is decided by the cut frame alone. -/
theorem record_loop_truncate {β : Type} (st : Bytes → Except Err (Option β) × Bytes)
    (fs : List (Bytes × β)) (t : Bytes)
    (hitem : ∀ p ∈ fs, ∀ r, st (p.1 ++ r) = (.ok (some p.2), r))
    (k fuel : Nat) (acc : List β) :
    pLoop st (fuel + (cutPos fs k).1) acc (((fs.map (·.1)).flatten ++ t).take k) =
      pLoop st fuel (((fs.take (cutPos fs k).1).map (·.2)).reverse ++ acc) (cutRest fs t k) :=
  pLoop_cut st fs t hitem k fuel acc

/-- … and when the step function reports the clean end on an empty source and `UnexpectedEof` on a
frame cut after its first byte: exactly the items of the frames wholly inside, then a clean end IFF
the cut is at a frame boundary, else `UnexpectedEof`. -/
theorem record_loop_truncate_framed {β : Type} (st : Bytes → Except Err (Option β) × Bytes)
    (fs : List (Bytes × β))
    (hitem : ∀ p ∈ fs, ∀ r, st (p.1 ++ r) = (.ok (some p.2), r))
    (hnil : st [] = (.ok none, []))
    (hcut : ∀ p ∈ fs, ∀ j, 0 < j → j < p.1.length → st (p.1.take j) = (.error .eof, []))
    (k fuel : Nat) (hf : (cutPos fs k).1 < fuel) :
    pLoop st fuel [] (((fs.map (·.1)).flatten).take k) =
      (((fs.take (cutPos fs k).1).map (·.2),
        if (cutPos fs k).1 = fs.length ∨ (cutPos fs k).2 = 0 then none else some .eof), []) :=
  pLoop_cut_framed st fs hitem hnil hcut k fuel hf

/-! ## BAM and BCF records (the readers as they are now: bodies through `read_exact_to_vec`) -/

/-- **BAM.** For every list of records that pass `validate` and every cut `k` of the record stream:
exactly the records wholly inside, then a clean end iff the cut is at a record boundary, else
`UnexpectedEof` — never a clean end inside a record; everything is used up. -/
theorem bam_records_truncate (recs : List Bytes)
    (hv : ∀ r ∈ recs, bamValidate r = true ∧ r.length < 2 ^ 32) (k fuel : Nat) (hf : recs.length < fuel) :
    runPure (bamRecordsV fuel []) ((Noodles.Trunc.bamStream recs).take k) =
      (.ok (recs.take (Noodles.Trunc.bamCut recs k).1,
        if (Noodles.Trunc.bamCut recs k).1 = recs.length ∨ (Noodles.Trunc.bamCut recs k).2 = 0
        then none else some .eof), []) :=
  bamRecordsV_cut recs hv k fuel hf

/-- **BCF**: the same for `l_shared` / `l_indiv`-framed records whose site block `Fields::index`
accepts. -/
theorem bcf_records_truncate (index : Bytes → Option Err) (recs : List (Bytes × Bytes))
    (hv : ∀ p ∈ recs, BcfOkV index p) (k fuel : Nat) (hf : recs.length < fuel) :
    runPure (bcfRecords index fuel []) ((Noodles.Trunc.bcfStream recs).take k) =
      (.ok (recs.take (Noodles.Trunc.bcfCut recs k).1,
        if (Noodles.Trunc.bcfCut recs k).1 = recs.length ∨ (Noodles.Trunc.bcfCut recs k).2 = 0
        then none else some .eof), []) :=
  bcfRecords_cut index recs hv k fuel hf

/-! ## CRAM -/

/-- the file definition (magic, version, file id) cut anywhere: `UnexpectedEof` -/
theorem cram_file_definition_truncate (defn : Bytes) (dv : Bytes × Bytes)
    (h : runPure cramFileDefinition defn = (.ok dv, [])) (k : Nat) (hk : k < defn.length) :
    runPure cramFileDefinition (defn.take k) = (.error .eof, []) := by
  have hu : used cramFileDefinition defn = defn.length := by simp [used, h]
  obtain ⟨e, he, hr⟩ := cutFails_cramFileDefinition defn k (by omega) (by omega)
  rw [hr, he]

/-- a container (`read_container`: header through the `CrcReader`, then `take(len).read_to_end`) cut
ANYWHERE — also before its first byte: the header starts with `read_exact` — is `UnexpectedEof` -/
theorem cram_container_truncate (crc : Bytes → Nat) (c : Bytes) (v : Option (CramHeader × Bytes))
    (h : runPure (cramReadContainer crc) c = (.ok v, [])) (k : Nat) (hk : k < c.length) :
    runPure (cramReadContainer crc) (c.take k) = (.error .eof, []) := by
  have hu : used (cramReadContainer crc) c = c.length := by simp [used, h]
  obtain ⟨e, he, hr⟩ := cutFails_cramReadContainer crc c k (by omega) (by omega)
  rw [hr, he]

/-- **The CRAM file at container granularity, every cut** (`read_file_definition`, then
`read_container` until `Ok(0)`). The file is a definition `defn`, containers `cs` (each a byte string
that `read_container` reads, alone, as exactly one container) and the EOF container `eofh ++ eofb`
(`eofh`: its header, at which `read_container` reports the end; `eofb`: its body, never read).
A cut inside the definition is `UnexpectedEof`; otherwise exactly the containers wholly inside the cut
are delivered, and the end is `UnexpectedEof` UNLESS every container and the whole header of the EOF
container are present. -/
theorem cram_file_truncate (crc : Bytes → Nat) (defn : Bytes) (dv : Bytes × Bytes)
    (hdef : runPure cramFileDefinition defn = (.ok dv, []))
    (cs : List (Bytes × (CramHeader × Bytes)))
    (hc : ∀ p ∈ cs, runPure (cramReadContainer crc) p.1 = (.ok (some p.2), []))
    (eofh eofb : Bytes) (heof : runPure (cramReadContainer crc) eofh = (.ok none, []))
    (k fuel : Nat) (hf : cs.length < fuel) :
    (runPure (cramFile crc fuel) ((defn ++ ((cs.map (·.1)).flatten ++ (eofh ++ eofb))).take k)).1 =
      if k < defn.length then .error .eof
      else .ok (dv, (cs.take (cutPos cs (k - defn.length)).1).map (·.2),
        if (cutPos cs (k - defn.length)).1 = cs.length ∧ eofh.length ≤ (cutPos cs (k - defn.length)).2
        then none else some .eof) :=
  cramFile_cut crc defn dv hdef cs hc eofh eofb heof k fuel hf

/-- **The EOF-container rule.** A file cut exactly before the EOF container — every data container
whole — is NOT reported as a clean end: all containers are delivered and then `UnexpectedEof`. (The
property asks for an error only when the file ends INSIDE a container; at a container boundary it
allows either outcome. The code reports the missing EOF container.) -/
theorem cram_cut_before_eof_container_is_error (crc : Bytes → Nat) (defn : Bytes) (dv : Bytes × Bytes)
    (hdef : runPure cramFileDefinition defn = (.ok dv, []))
    (cs : List (Bytes × (CramHeader × Bytes)))
    (hc : ∀ p ∈ cs, runPure (cramReadContainer crc) p.1 = (.ok (some p.2), []))
    (eofh eofb : Bytes) (heof : runPure (cramReadContainer crc) eofh = (.ok none, []))
    (fuel : Nat) (hf : cs.length < fuel) :
    (runPure (cramFile crc fuel) ((defn ++ ((cs.map (·.1)).flatten ++ (eofh ++ eofb))).take
      (defn.length + ((cs.map (·.1)).flatten).length))).1 = .ok (dv, cs.map (·.2), some .eof) := by
  have h := cram_file_truncate crc defn dv hdef cs hc eofh eofb heof
    (defn.length + ((cs.map (·.1)).flatten).length) fuel hf
  rw [h, if_neg (by omega)]
  have hk : defn.length + ((cs.map (·.1)).flatten).length - defn.length = ((cs.map (·.1)).flatten).length := by
    omega
  rw [hk]
  -- the cut position: all `cs.length` frames, nothing beyond
  have hsum : ((cs.map (·.1)).flatten).length = (cs.map (·.1.length)).sum := by
    simp [List.length_flatten, List.map_map, Function.comp_def]
  have hpos : ∀ (l : List Nat), Noodles.Trunc.whole l l.sum = (l.length, 0) := by
    intro l
    induction l with
    | nil => rfl
    | cons n ns ih =>
      have hle : n ≤ (n :: ns).sum := by simp
      unfold Noodles.Trunc.whole
      rw [if_pos hle, show (n :: ns).sum - n = ns.sum by simp, ih]
      rfl
  have hcp : cutPos cs ((cs.map (·.1)).flatten).length = (cs.length, 0) := by
    simp only [cutPos]; rw [hsum, hpos]; simp
  have heofpos : 0 < eofh.length := by
    cases eofh with
    | nil => exact absurd (congrArg Prod.fst heof) (by rw [starved_cramReadContainer]; simp)
    | cons _ _ => simp
  rw [hcp]
  simp only [List.take_length]
  rw [if_neg (by omega)]

/-- **The CRAM file header container as noodles writes it (one gzip block), every cut.** The container
is `hdr ++ (bh ++ z ++ pad)`: container header, block header, the gzip stream `z`, and what follows it
in the container (the block's CRC-32, which this reader skips). `G` is flate2's `GzDecoder` under the
read pattern of `read_file_header`, `P` the SAM header parser, `crc` CRC-32 — parameters. For every cut:
inside the container header or the block header an error; with the whole gzip stream present the
complete header `h` (the bytes missing are never looked at); in between an error or — when flate2
needs none of the missing bytes (`GzCutLaw`, validated on every run) — the complete header:
NEVER a different (shorter) header. -/
theorem cram_file_header_truncate {ρ : Type} (crc : Bytes → Nat) (G : Bytes → GzRun)
    (P : List Bytes → Option ρ) (hdr bh z pad f4 text : Bytes) (len cs us : Nat) (h : ρ)
    (hh : runPure (cramHdrContainerLen crc) hdr = (.ok len, []))
    (hlen : (bh ++ (z ++ pad)).length = len)
    (hb : runPure cramHdrBlock bh = (.ok (1, cs, us), [])) (hz : z.length = cs)
    (hg : G z = ⟨.ok f4, text, none⟩) (hf4 : leNat f4 < 2 ^ 31)
    (hP : P (Noodles.Hostile.BamHdr.textLines text) = some h)
    (hlaw : GzCutLaw G z f4 text) (k : Nat) :
    (k < hdr.length + bh.length →
      ∃ e, (runPure (cramFileHeader crc G P) ((hdr ++ (bh ++ (z ++ pad))).take k)).1 = .error e) ∧
    (hdr.length + bh.length + z.length ≤ k →
      (runPure (cramFileHeader crc G P) ((hdr ++ (bh ++ (z ++ pad))).take k)).1 = .ok h) ∧
    (∀ h', (runPure (cramFileHeader crc G P) ((hdr ++ (bh ++ (z ++ pad))).take k)).1 = .ok h' → h' = h) :=
  cramFileHeader_cut crc G P hdr bh z pad f4 text len cs us h hh hlen hb hz hg hf4 hP hlaw k

/-! ## index files: a cut index is an error, never a shorter index — with one exception each -/

/-- **BAI, every cut.** `d` = an index that the reader reads as `refs` up to the trailing count and
`t`, whatever follows (nothing, or the 8 bytes of `n_no_coor`). A cut before the count is an ERROR
(`UnexpectedEof`; `InvalidData` where the chunk list or the metadata of a bin is cut — `read_bins`
re-wraps those errors). THE EXCEPTION: a cut inside the trailing count delivers the complete index
WITHOUT the count — it is optional in the format, and a file cut there is byte for byte a file written
without it. -/
theorem bai_truncate (d : Bytes) (refs : List Noodles.Index.RefLin) (t : Bytes)
    (hd : runPure baiHead d = (.ok refs, t)) (k : Nat) (hk : k ≤ d.length) :
    (k < d.length - t.length → ∃ e, EofOrInvalid e ∧ runPure baiReadIndex (d.take k) = (.error e, [])) ∧
    (d.length - t.length ≤ k → runPure baiReadIndex (d.take k) =
      (.ok ⟨refs, unplacedOf (t.take (k - (d.length - t.length)))⟩,
        (t.take (k - (d.length - t.length))).drop 8)) :=
  bai_cut d refs t hd k hk

/-- **tabix (the uncompressed payload), every cut** — with or without reference sequences: as BAI.
(The names are read through `take(l_nm)` to its end; since /repo `fix:` 125ecd7 a `Take` that still has
a limit left afterwards — the input ended inside the names block — is `UnexpectedEof`, reported as
`InvalidData` by `read_index`: a cut at a name boundary is an ERROR, not a shorter name list. Before
that commit this theorem needed `0 < n_ref`; `tabix_cut_names_rejected_when_no_reference` is the old
counterexample, now an error.) -/
theorem tabix_truncate (d : Bytes) (nRef : Nat) (h : Noodles.Index.Header)
    (refs : List Noodles.Index.RefLin) (t : Bytes)
    (hd : runPure tabixHead d = (.ok (nRef, h, refs), t)) (k : Nat) (hk : k ≤ d.length) :
    (k < d.length - t.length → ∃ e, EofOrInvalid e ∧ runPure tabixReadIndex (d.take k) = (.error e, [])) ∧
    (d.length - t.length ≤ k → runPure tabixReadIndex (d.take k) =
      (.ok ⟨some h, refs, unplacedOf (t.take (k - (d.length - t.length)))⟩,
        (t.take (k - (d.length - t.length))).drop 8)) :=
  tabix_cut d nRef h refs t hd k hk

/-- **CSI (the uncompressed payload), every cut**: `csi::io::Reader::read_index` reports every error as
`InvalidData`, so that is what a cut before the trailing count gives; the exception is the same. -/
theorem csi_truncate (d : Bytes) (ms dp : Nat) (h : Option Noodles.Index.Header)
    (refs : List Noodles.Index.RefCsi) (t : Bytes)
    (hd : runPure csiHead d = (.ok (ms, dp, h, refs), t)) (k : Nat) (hk : k ≤ d.length) :
    (k < d.length - t.length → runPure csiReadIndex (d.take k) = (.error .invalidData, [])) ∧
    (d.length - t.length ≤ k → runPure csiReadIndex (d.take k) =
      (.ok ⟨ms, dp, h, refs, unplacedOf (t.take (k - (d.length - t.length)))⟩,
        (t.take (k - (d.length - t.length))).drop 8)) :=
  csi_cut d ms dp h refs t hd k hk

/-- **gzi, every cut**: the entry count comes first, so a cut anywhere before the end of the last
entry is `UnexpectedEof` — NO exception. (`t`: what follows the entries — nothing in a written file; a
reader that finds a byte there reports `InvalidData`.) -/
theorem gzi_truncate (d : Bytes) (ix : Noodles.Index.Gzi) (t : Bytes)
    (hd : runPure gziHead d = (.ok ix, t)) (k : Nat) (hk : k ≤ d.length) :
    (k < d.length - t.length → runPure gziReadIndex (d.take k) = (.error .eof, [])) ∧
    (d.length - t.length ≤ k → (runPure gziReadIndex (d.take k)).1 =
      if k = d.length - t.length then .ok ix else .error .invalidData) :=
  gzi_cut d ix t hd k hk

/-! ## the text record readers: a cut inside a line

A text is complete lines (`IsLine`: LF-free bytes, then one LF); the input is its first `k` bytes, ANY
`k`, delivered in ANY way (`b` is any `BufReader` state — buffer, scheduled source, capacity — whose
logical stream is the cut text). `cutN ls k` lines are wholly inside the cut; `cutP ls k` are the bytes
present of the line the cut falls into (`[]`: the cut is at a line boundary or beyond the end).

Every reader delivers the records of the whole lines before the cut, unchanged and in order. What it
does with the bytes present of the CUT line — an input that now ENDS with an unterminated line — is
stated per reader. The property allows "end of input or an error" after the prefix and forbids a
fabricated or altered record: the line readers DO deliver a cut line that still parses as one more
record (they cannot tell it from a file written without a final newline); the theorems say exactly
when, the witnesses show it, and the harness replays the witnesses on the real readers. -/

/-- **"One line, then parse it" readers** (`parsedLinesAll`: fai, crai, SAM / VCF `RecordBuf`, GTF
lines, FASTA definitions; `parse` is the line parser — a parameter —, `utf8`: the line goes through
`BufRead::read_line(&mut String)`). After the items of the whole lines:
the cut at a line boundary → a clean end; the bytes present not valid UTF-8 (`utf8`; the cut is inside
a character) → `InvalidData`; the parser rejects the bytes present → that error; the parser ACCEPTS
them → they are delivered as one more record, then a clean end. -/
theorem lines_truncate {ρ : Type} (utf8 : Bool) (parse : Bytes → Except Err ρ) (item : Bytes → ρ)
    (ls : List Bytes) (hline : ∀ l ∈ ls, IsLine l)
    (hutf : utf8 = true → ∀ l ∈ ls, Noodles.Index.validUtf8 l = true)
    (hparse : ∀ l ∈ ls, parse (stripEol l) = .ok (item l))
    (k : Nat) (b : BufR UInt8) (hc : 0 < b.cap) (hs : b.stream = ls.flatten.take k) :
    (parsedLinesAll utf8 parse b).1 = .ok (
      let items := (ls.take (cutN ls k)).map fun l => (l.length, item l)
      let p := cutP ls k
      if p = [] then (items, none)
      else if utf8 = true ∧ Noodles.Index.validUtf8 p = false then (items, some .invalidData)
      else match parse p with
        | .error e => (items, some e)
        | .ok r => (items ++ [(p.length, r)], none)) :=
  parsedLines_cut utf8 parse item ls hline hutf hparse k b hc hs

/-- the prefix property, and exactly how far a line reader can go beyond it: the items of the whole
lines are a prefix of what is delivered; at most ONE more item, and only when the cut is inside a
line -/
theorem lines_truncate_prefix {ρ : Type} (utf8 : Bool) (parse : Bytes → Except Err ρ) (item : Bytes → ρ)
    (ls : List Bytes) (hline : ∀ l ∈ ls, IsLine l)
    (hutf : utf8 = true → ∀ l ∈ ls, Noodles.Index.validUtf8 l = true)
    (hparse : ∀ l ∈ ls, parse (stripEol l) = .ok (item l))
    (k : Nat) (b : BufR UInt8) (hc : 0 < b.cap) (hs : b.stream = ls.flatten.take k) :
    ∃ items e, (parsedLinesAll utf8 parse b).1 = .ok (items, e) ∧
      ((ls.take (cutN ls k)).map fun l => (l.length, item l)) <+: items ∧
      items.length ≤ cutN ls k + 1 ∧ (items.length = cutN ls k + 1 → cutP ls k ≠ []) :=
  parsedLines_cut_prefix utf8 parse item ls hline hutf hparse k b hc hs

/-- WITNESS — a record that was never written: the GTF raw-line reader on `"ab\ncd\n"` cut after 4
bytes delivers the lines `"ab"` and `"c"`, then a clean end of input -/
theorem lines_cut_delivers_partial_line :
    (parsedLinesAll false (fun l => Except.ok l)
      (BufR.ofSrc ⟨([[97, 98, 10], [99, 100, 10]] : List Bytes).flatten.take 4, []⟩ 8)).1
      = .ok ([(3, [97, 98]), (1, [99])], none) :=
  parsedLines_cut_delivers_partial_line

/-- **The lazy SAM record reader** (`samRecordsAll`). The text is complete lines with at least 10 TABs
(11 fields: exactly the lines the reader accepts, `Noodles.IO.pSamReadRecord_line`); `samRecOfLine l` is
the record the reader makes of the bytes `l` alone. After the records of the whole lines, a cut inside
a line ALWAYS delivers what is present of it as one more record (`sam_lazy_cut_line_is_a_record`), then
a clean end — never an error. -/
theorem sam_lazy_truncate (ls : List Bytes) (hline : ∀ l ∈ ls, IsLine l) (htab : ∀ l ∈ ls, 10 ≤ l.count TAB)
    (k : Nat) (b : BufR UInt8) (hc : 0 < b.cap) (hs : b.stream = ls.flatten.take k) :
    (samRecordsAll b).1 = .ok (
      if cutP ls k = [] then ((ls.take (cutN ls k)).map samRecOfLine, none)
      else ((ls.take (cutN ls k)).map samRecOfLine ++ [samRecOfLine (cutP ls k)], none)) :=
  sam_lazy_cut ls hline htab k b hc hs

/-- the lazy SAM reader on LF-free bytes at the end of the input: never an error (a required field
fails only when it hits the LF); a record whose `len` is the number of bytes present -/
theorem sam_lazy_cut_line_is_a_record (p : Bytes) (h : noLF p = true) :
    ∃ rec, pSamReadRecord p = (.ok rec, []) ∧ rec.len = p.length :=
  pSamReadRecord_noLF p h

/-- WITNESS (lazy SAM): two lines cut 3 bytes into the second (`"1\t2"`): a second record with
`len = 3`, the buffer `"12"` and nine empty fields is delivered, then a clean end -/
theorem sam_lazy_cut_witness :
    (samRecordsAll (BufR.ofSrc ⟨([samLineW, samLineW] : List Bytes).flatten.take 25, []⟩ 8)).1
      = .ok ([⟨22, [49, 50, 51, 52, 53, 54, 55, 56, 57, 65, 66], [1, 2, 3, 4, 5, 6, 7, 8, 9, 10, 11]⟩,
              ⟨3, [49, 50], [1, 2, 2, 2, 2, 2, 2, 2, 2, 2, 2]⟩], none) :=
  sam_lazy_cut_delivers_partial_line

/-- **The lazy VCF record reader** (`vcfRecordsAll`; the record buffer is a `String`). The text is
complete lines the reader accepts. After the records of the whole lines, what is present of the cut
line is delivered as one more record iff it is valid UTF-8; otherwise (the cut is inside a multi-byte
character) the reader fails with `InvalidData`. -/
theorem vcf_lazy_truncate (ls : List Bytes) (hline : ∀ l ∈ ls, IsLine l)
    (hacc : ∀ l ∈ ls, ∃ rec, (pVcfReadRecord l).1 = .ok rec)
    (k : Nat) (b : BufR UInt8) (hc : 0 < b.cap) (hs : b.stream = ls.flatten.take k) :
    (vcfRecordsAll b).1 = .ok (
      if cutP ls k = [] then ((ls.take (cutN ls k)).map vcfRecOfLine, none)
      else if Noodles.Index.validUtf8 (cutP ls k) = true then
        ((ls.take (cutN ls k)).map vcfRecOfLine ++ [vcfRecOfLine (cutP ls k)], none)
      else ((ls.take (cutN ls k)).map vcfRecOfLine, some .invalidData)) :=
  vcf_lazy_cut_utf8 ls hline hacc k b hc hs

/-- an ASCII line with at least 7 TABs is one the lazy VCF reader accepts (the hypothesis `hacc`) -/
theorem vcf_lazy_line_accepted (l : Bytes) (h : IsLine l) (ha : isAscii l = true) (ht : 7 ≤ l.count TAB) :
    ∃ rec, (pVcfReadRecord l).1 = .ok rec := by
  have := vcf_line_accepted l h ha ht
  exact this

/-- WITNESS (lazy VCF): a cut inside the two-byte character `é` is `InvalidData` after the first record -/
theorem vcf_lazy_cut_inside_character_witness :
    (vcfRecordsAll (BufR.ofSrc ⟨([vcfLineW, vcfLineW] : List Bytes).flatten.take 18, []⟩ 8)).1
      = .ok ([⟨17, [0xC3, 0xA9, 50, 51, 52, 53, 54, 55, 56], [2, 3, 4, 5, 6, 7, 8, 9]⟩],
             some .invalidData) :=
  vcf_lazy_cut_inside_character

/-- **The GFF3 line reader** (`gffLinesAll`; blank lines — only ASCII whitespace — are skipped), any
text of complete lines: the non-blank whole lines, then what is present of the cut line is dropped if
blank and otherwise delivered as one more line; a clean end either way — never an error. -/
theorem gff_lines_truncate (ls : List Bytes) (hline : ∀ l ∈ ls, IsLine l)
    (k : Nat) (b : BufR UInt8) (hc : 0 < b.cap) (hs : b.stream = ls.flatten.take k) :
    (gffLinesAll b).1 = .ok (
      if isBlank (cutP ls k) = true then ((ls.take (cutN ls k)).filterMap gffItem, none)
      else ((ls.take (cutN ls k)).filterMap gffItem ++ [((cutP ls k).length, cutP ls k)], none)) :=
  gff_lines_cut ls hline k b hc hs

/-- **FASTA records** (`fastaRecordsAll`; records `FaLines`: a definition line `">" ++ d`, then
`>`-free sequence lines; `sizes`: the buffer sizes of std's `read_to_end`, arbitrary). After the whole
records: a cut at a record boundary → a clean end; inside the definition line → the bytes present are
parsed as a definition: an error, or a record with a CUT name and an empty sequence; after the
definition line → a record with the bases present so far, a SHORTER record, then a clean end. -/
theorem fasta_truncate (sizes : Nat → List Nat) (fs : List FaLines) (nd : FaLines → Bytes × Bytes)
    (hwf : ∀ f ∈ fs, f.Wf)
    (hparse : ∀ f ∈ fs, parseDefinition (stripEol (GT :: f.d)) = .ok (nd f))
    (k : Nat) (b : BufR UInt8) (hc : 0 < b.cap) (hs : b.stream = (fs.map (·.bytes)).flatten.take k) :
    (fastaRecordsAll sizes b).1 = .ok (
      let item := fun f : FaLines => (⟨(nd f).1, (nd f).2, bases f.s⟩ : FastaRec)
      let F := fs.map fun f => (f.bytes, item f)
      let n := (cutPos F k).1
      let q := cutRest F [] k
      let items := (fs.take n).map item
      match fs[n]? with
      | none => (items, none)
      | some f =>
        if q = [] then (items, none)
        else if q.length ≤ f.d.length then
          match parseDefinition q with
          | .error e => (items, some e)
          | .ok (name, desc) => (items ++ [⟨name, desc, []⟩], none)
        else (items ++ [⟨(nd f).1, (nd f).2, bases (q.drop (f.d.length + 1))⟩], none)) :=
  fasta_cut sizes fs nd hwf hparse k b hc hs

/-- WITNESS (FASTA): `">a\nACGT\n>b\nGG\n"` cut after 5 bytes delivers the record `a` with the
sequence `"AC"`, then a clean end -/
theorem fasta_cut_witness :
    (fastaRecordsAll (fun _ => []) (BufR.ofSrc ⟨(fastaW.map (·.bytes)).flatten.take 5, []⟩ 8)).1
      = .ok ([⟨[97], [], [65, 67]⟩], none) :=
  fasta_cut_delivers_shorter_record

/-- **FASTQ records** (`fastqRecordsAll true`: the reader after the `fix:` commits; four-line records
`FqLines`). After the whole records: a cut at a record boundary → a clean end; before the `+` of the
third line → `UnexpectedEof`; with the `+` present → a record with the quality bytes present so far
(possibly none) IS delivered, then a clean end. -/
theorem fastq_truncate (fs : List FqLines) (hwf : ∀ f ∈ fs, f.Wf) (k : Nat) (b : BufR UInt8) (hc : 0 < b.cap)
    (hs : b.stream = (fs.map (·.bytes)).flatten.take k) :
    (fastqRecordsAll true b).1 =
      (let F := fs.map fun f => (f.bytes, f.item)
       let n := (cutPos F k).1
       let q := cutRest F [] k
       let items := (fs.take n).map (·.item)
       match fs[n]? with
       | none => (items, none)
       | some f =>
         if q = [] then (items, none)
         else if q.length ≤ (f.n.length + 1) + f.s.length then (items, some .eof)
         else (items ++ [(q.length, ⟨(fqDef f.n).1, (fqDef f.n).2, stripEol f.s,
            q.drop ((f.n.length + 1) + f.s.length + (f.c.length + 1))⟩)], none)) :=
  fastq_cut fs hwf k b hc hs

/-- WITNESS (FASTQ): `"@r\nACGT\n+\nIIII\n"` cut after 11 bytes delivers the record with the quality
string `"I"`; after 10 or 9 bytes with an EMPTY quality string; after 8 bytes: `UnexpectedEof` -/
theorem fastq_cut_witness :
    (fastqRecordsAll true (BufR.ofSrc ⟨(fastqW.map (·.bytes)).flatten.take 11, []⟩ 8)).1
      = ([(11, ⟨[114], [], [65, 67, 71, 84], [73]⟩)], none) ∧
    (fastqRecordsAll true (BufR.ofSrc ⟨(fastqW.map (·.bytes)).flatten.take 10, []⟩ 8)).1
      = ([(10, ⟨[114], [], [65, 67, 71, 84], []⟩)], none) ∧
    (fastqRecordsAll true (BufR.ofSrc ⟨(fastqW.map (·.bytes)).flatten.take 9, []⟩ 8)).1
      = ([(9, ⟨[114], [], [65, 67, 71, 84], []⟩)], none) ∧
    (fastqRecordsAll true (BufR.ofSrc ⟨(fastqW.map (·.bytes)).flatten.take 8, []⟩ 8)).1
      = ([], some .eof) :=
  fastq_cut_delivers_short_quality

/-- the hypotheses of the text theorems are satisfiable -/
example : (∀ l ∈ [samLineW, samLineW], IsLine l) ∧ (∀ l ∈ [samLineW, samLineW], 10 ≤ l.count TAB) ∧
    (∀ l ∈ [samLineW, samLineW], isAscii l = true) ∧ (∀ f ∈ fastaW, f.Wf) ∧ (∀ f ∈ fastqW, f.Wf) := by
  decide

/-! ## what is NOT true, with witnesses (replayed on the real readers by the harness corpus) -/

def le4 (n : Nat) : Bytes := Noodles.Codec.le 4 n

/-- a tabix payload with `n_ref = 0` and the names `a`, `b` -/
def tbiNoRef : Bytes :=
  [0x54, 0x42, 0x49, 1] ++ le4 0 ++ le4 2 ++ le4 1 ++ le4 2 ++ le4 0 ++ le4 35 ++ le4 0 ++ le4 4 ++
    [97, 0, 98, 0]

def namesOf (r : Except Err Noodles.Index.Tabix) : Option (List Bytes) :=
  match r with
  | .ok ix => ix.header.map (·.names)
  | .error _ => none

def errOf (r : Except Err Noodles.Index.Tabix) : Option Err :=
  match r with
  | .ok _ => none
  | .error e => some e

/-- WITNESS for `tabix_truncate` with `n_ref = 0` (the case the theorem excluded before /repo `fix:`
125ecd7): the 40-byte payload with the names `a`, `b` is read; cut at the name boundary (38 bytes: `l_nm
= 4`, then only `a NUL`) it is REJECTED — `UnexpectedEof` from `read_reference_sequence_names`, which
`read_index` reports as `InvalidData` — and so is every other strict cut. (Before the fix the first 38
bytes were accepted as an index with the single name `a`.) -/
theorem tabix_cut_names_rejected_when_no_reference :
    namesOf (runPure tabixReadIndex tbiNoRef).1 = some [[97], [98]] ∧
    errOf (runPure tabixReadIndex (tbiNoRef.take 38)).1 = some .invalidData ∧
    ∀ k, k < 40 → (errOf (runPure tabixReadIndex (tbiNoRef.take k)).1).isSome = true := by
  decide

/-- a CRAM file header container with a RAW (uncompressed) block — not what noodles writes —: header
`@HD VN:1.6`, `@CO x` -/
def rawHeaderContainer : Bytes :=
  [30, 0, 0, 0, 0, 0, 0, 0, 0, 0, 1, 0, 204, 201, 231, 135,
   0, 0, 0, 21, 21, 17, 0, 0, 0,
   64, 72, 68, 9, 86, 78, 58, 49, 46, 54, 10, 64, 67, 79, 9, 120, 10, 1, 2, 3, 4]

def noGzip : Bytes → GzRun := fun _ => ⟨.error .eof, [], none⟩

def linesOfResult (r : Except Err (List Bytes)) : Option (List Bytes) :=
  match r with
  | .ok l => some l
  | .error _ => none

/-- `cram_file_header_truncate` is about the gzip block noodles writes. With a RAW block every `Take`
in the chain simply ends: the first 36 of the 46 bytes — cut after the first header line — are
accepted as a header of ONE line (the complete one has two). Files written by other tools hold raw
header blocks; for them a truncated header is silently shortened. -/
theorem cram_raw_header_cut_accepted :
    linesOfResult (runPure (cramFileHeader Noodles.Crc32.crc32 noGzip some) rawHeaderContainer).1 =
      some [[64, 72, 68, 9, 86, 78, 58, 49, 46, 54], [64, 67, 79, 9, 120]] ∧
    linesOfResult (runPure (cramFileHeader Noodles.Crc32.crc32 noGzip some) (rawHeaderContainer.take 36)).1 =
      some [[64, 72, 68, 9, 86, 78, 58, 49, 46, 54]] := by
  decide +kernel

/-! ## the hypotheses are satisfiable -/

/-- 32 zero bytes are a BAM record that `validate` accepts -/
example : bamValidate (List.replicate 32 0) = true ∧ (List.replicate 32 (0 : UInt8)).length < 2 ^ 32 := by
  decide

example : BcfOkV (fun _ => none) ([1, 2, 3], [4]) := by simp [BcfOkV]

/-- Boolean views of results, for the examples proved by evaluation -/
def isOkNil {α : Type} (x : Except Err α × Bytes) : Bool :=
  match x with
  | (.ok _, []) => true
  | _ => false

theorem isOkNil_eq {α : Type} (x : Except Err α × Bytes) (h : isOkNil x = true) : ∃ v, x = (.ok v, []) := by
  rcases x with ⟨r, d⟩
  cases r with
  | error e => simp [isOkNil] at h
  | ok v =>
    cases d with
    | nil => exact ⟨v, rfl⟩
    | cons _ _ => simp [isOkNil] at h

def isSomeNil {α : Type} (x : Except Err (Option α) × Bytes) : Bool :=
  match x with
  | (.ok (some _), []) => true
  | _ => false

def isNoneNil {α : Type} (x : Except Err (Option α) × Bytes) : Bool :=
  match x with
  | (.ok none, []) => true
  | _ => false

/-- a file definition; a one-byte container (reference 0, start 1, span 1, no landmarks) whose stored
CRC-32 is the real CRC-32 of its header; the 23-byte header of the EOF container -/
example : isOkNil (runPure cramFileDefinition (CRAM_MAGIC ++ [3, 0] ++ List.replicate 20 0)) = true := by
  decide

example : isSomeNil (runPure (cramReadContainer Noodles.Crc32.crc32)
    ([1, 0, 0, 0, 0, 1, 1, 0, 0, 0, 0, 0] ++
      le4 (Noodles.Crc32.crc32 [1, 0, 0, 0, 0, 1, 1, 0, 0, 0, 0, 0]) ++ [42])) = true := by
  decide +kernel

example : isNoneNil (runPure (cramReadContainer Noodles.Crc32.crc32) (Noodles.Trunc.CRAM_EOF.take 23)) = true := by
  decide +kernel

/-- a BAI with one reference sequence (a bin with one chunk, the metadata bin, one interval); a tabix
payload with one reference sequence; a CSI with one reference sequence; a gzi with two entries -/
def baiOne : Bytes :=
  [0x42, 0x41, 0x49, 1] ++ le4 1 ++ le4 2 ++ le4 4681 ++ le4 1 ++ List.replicate 16 1 ++
    le4 37450 ++ le4 2 ++ List.replicate 32 3 ++ le4 1 ++ List.replicate 8 4

example : isOkNil (runPure baiHead baiOne) = true := by decide

def tbiOne : Bytes :=
  [0x54, 0x42, 0x49, 1] ++ le4 1 ++ le4 2 ++ le4 1 ++ le4 2 ++ le4 0 ++ le4 35 ++ le4 0 ++ le4 4 ++
    [97, 0, 98, 0] ++ le4 0 ++ le4 0

def nRefOf (x : Except Err (Nat × Noodles.Index.Header × List Noodles.Index.RefLin) × Bytes) : Option Nat :=
  match x with
  | (.ok (n, _, _), []) => some n
  | _ => none

example : nRefOf (runPure tabixHead tbiOne) = some 1 := by decide

def csiOne : Bytes :=
  [0x43, 0x53, 0x49, 1] ++ le4 14 ++ le4 5 ++ le4 0 ++ le4 1 ++ le4 1 ++ le4 4681 ++ List.replicate 8 9 ++
    le4 1 ++ List.replicate 16 1

example : isOkNil (runPure csiHead csiOne) = true := by decide

example : isOkNil (runPure gziHead ([2, 0, 0, 0, 0, 0, 0, 0] ++ List.replicate 32 5)) = true := by decide

/-- the hypotheses of `cram_file_header_truncate` hold together: the container header of
`rawHeaderContainer`'s shape with a gzip block header (`method = 1`), a three-byte "gzip stream"
`[7, 8, 9]` and a decoder `G` that knows exactly that stream -/
def toyG : Bytes → GzRun := fun w =>
  if w = [7, 8, 9] then ⟨.ok [11, 0, 0, 0], [64, 67, 79, 9, 120, 10], none⟩ else ⟨.error .eof, [], none⟩

example : GzCutLaw toyG [7, 8, 9] [11, 0, 0, 0] [64, 67, 79, 9, 120, 10] := by
  intro j hj
  refine Or.inl ⟨.eof, ?_⟩
  have : j = 0 ∨ j = 1 ∨ j = 2 := by simp at hj; omega
  rcases this with rfl | rfl | rfl <;> rfl

example : isOkNil (runPure cramHdrBlock [1, 0, 0, 3, 15]) = true := by decide

example : isOkNil (runPure (cramHdrContainerLen Noodles.Crc32.crc32)
    ([12, 0, 0, 0, 0, 0, 0, 0, 0, 0, 1, 0] ++
      le4 (Noodles.Crc32.crc32 [12, 0, 0, 0, 0, 0, 0, 0, 0, 0, 1, 0]))) = true := by
  decide +kernel

/-- `readExact n` is a strict tree (the premise of `prog_truncate_strict` is not empty) -/
example : Strict IsEof (readExact 4) := strict_readExact 4

end Noodles.Props.C13
