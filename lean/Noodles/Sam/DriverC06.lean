import Noodles.Basic.Wire
import Noodles.Sam.Bam
import Noodles.Sam.Lazy
/-!
Line-protocol handler for the SAM text / BAM header models (`c06 …`).

Tokens (no spaces inside a token):
* bytes: lowercase hex, the empty string for no bytes (`hexE`);
* record: `name;flags;rid;pos;mapq;cigar;mrid;mpos;tlen;seq;qual;data` with `~` for an absent
  name / reference id, `n<hex>` for a name, cigar ops each written `,<len><K>`, data fields each
  written `|<tag hex>.<type>.<payload>` (array elements each written `_<number>`; floats are
  32-bit patterns in decimal);
* reference names: `r` then `,<hex>` per name;
* float table: `t` then `,s<bits>:<hex>` (scalar print) / `,a<bits>:<hex>` (array print) /
  `,p<hex>:<bits|x>` (parse) — the float library's answers, computed by the harness with
  lexical-core / `Display` directly;
* header: `hd/sq/rg/pg/co`, `hd` = `~` or `<major>.<minor>` then `,<tag hex>=<hex>` per other
  field; `sq` entries `|<name hex>:<len>` + other fields; `rg`/`pg` entries `|<id hex>` + other
  fields; `co` entries `|<hex>`.
-/
namespace Noodles.Sam.Drv
open Noodles.Wire Noodles.Sam

def hexE (b : Bytes) : String :=
  String.ofList (b.flatMap fun x => [hexNibble (x.toNat / 16), hexNibble (x.toNat % 16)])

def unhexE (s : String) : Option Bytes := unhexChars s.toList

def errStr : Err → String
  | .invalidInput => "err:invalid-input"
  | .invalidData => "err:invalid-data"

def berrStr : BErr → String
  | .eof => "err:eof"
  | .invalidInput => "err:invalid-input"
  | .invalidData => "err:invalid-data"

/-- items each preceded by the separator: `""` ↦ `[]`, `",a,b"` ↦ `["a","b"]` -/
def items (sep : String) (s : String) : Option (List String) :=
  match s.splitOn sep with
  | "" :: rest => some rest
  | _ => none

/-! ### records -/

def kindCh : Kind → Char
  | .M => 'M' | .I => 'I' | .D => 'D' | .N => 'N' | .S => 'S' | .H => 'H' | .P => 'P' | .Eq => '=' | .X => 'X'

def chKind (c : Char) : Option Kind :=
  match c with
  | 'M' => some .M | 'I' => some .I | 'D' => some .D | 'N' => some .N | 'S' => some .S
  | 'H' => some .H | 'P' => some .P | '=' => some .Eq | 'X' => some .X | _ => none

def tyStr : IntTy → String
  | .i8 => "c" | .u8 => "C" | .i16 => "s" | .u16 => "S" | .i32 => "i" | .u32 => "I"

def strTy (s : String) : Option IntTy :=
  match s with
  | "c" => some .i8 | "C" => some .u8 | "s" => some .i16 | "S" => some .u16
  | "i" => some .i32 | "I" => some .u32 | _ => none

def fmtValue : Value → String
  | .char c => s!"A.{hexE [c]}"
  | .int t n => s!"{tyStr t}.{n}"
  | .float b => s!"f.{b}"
  | .str s => s!"Z.{hexE s}"
  | .hex s => s!"H.{hexE s}"
  | .iarr t l => s!"B{tyStr t}." ++ String.join (l.map fun n => s!"_{n}")
  | .farr l => "Bf." ++ String.join (l.map fun n => s!"_{n}")

def fmtTag (t : Tag) : String := hexE [t.1, t.2]

def fmtOpt (o : Option Nat) : String :=
  match o with
  | none => "~"
  | some n => toString n

def fmtRec (r : Rec) : String :=
  let name := match r.name with
    | none => "~"
    | some n => "n" ++ hexE n
  let cigar := String.join (r.cigar.map fun op => s!",{op.len}{kindCh op.kind}")
  let data := String.join (r.data.map fun p => s!"|{fmtTag p.1}.{fmtValue p.2}")
  s!"{name};{r.flags};{fmtOpt r.rid};{r.pos};{r.mapq};{cigar};{fmtOpt r.mrid};{r.mpos};{r.tlen};{hexE r.seq};{hexE r.qual};{data}"

def parseOpt (s : String) : Option (Option Nat) :=
  if s = "~" then some none else s.toNat?.map some

def parseTag (s : String) : Option Tag :=
  match unhexE s with
  | some [a, b] => some (a, b)
  | _ => none

def parseOpTok (s : String) : Option Op :=
  match s.toList.reverse with
  | k :: ds => do
    let kd ← chKind k
    let n ← (String.ofList ds.reverse).toNat?
    pure ⟨kd, n⟩
  | [] => none

def parseValueTok (ty payload : String) : Option Value :=
  match ty with
  | "A" => match unhexE payload with
    | some [c] => some (.char c)
    | _ => none
  | "f" => payload.toNat?.map .float
  | "Z" => (unhexE payload).map .str
  | "H" => (unhexE payload).map .hex
  | "Bf" => do
    let xs ← items "_" payload
    let l ← xs.mapM (·.toNat?)
    pure (.farr l)
  | _ =>
    match ty.toList with
    | ['B', c] => do
      let t ← strTy (String.ofList [c])
      let xs ← items "_" payload
      let l ← xs.mapM (·.toInt?)
      pure (.iarr t l)
    | [c] => do
      let t ← strTy (String.ofList [c])
      let n ← payload.toInt?
      pure (.int t n)
    | _ => none

def parseFieldTok (s : String) : Option (Tag × Value) :=
  match s.splitOn "." with
  | [tag, ty, payload] => do pure ((← parseTag tag), (← parseValueTok ty payload))
  | _ => none

def parseRec (s : String) : Option Rec :=
  match s.splitOn ";" with
  | [name, flags, rid, pos, mapq, cigar, mrid, mpos, tlen, seq, qual, data] => do
    let name ← (if name = "~" then some none else
      match name.toList with
      | 'n' :: h => (unhexChars h).map some
      | _ => none)
    let cigar ← (← items "," cigar).mapM parseOpTok
    let data ← (← items "|" data).mapM parseFieldTok
    pure { name, flags := ← flags.toNat?, rid := ← parseOpt rid, pos := ← pos.toNat?,
           mapq := ← mapq.toNat?, cigar, mrid := ← parseOpt mrid, mpos := ← mpos.toNat?,
           tlen := ← tlen.toInt?, seq := ← unhexE seq, qual := ← unhexE qual, data }
  | _ => none

def parseRefs (s : String) : Option (List Bytes) :=
  match s.toList with
  | 'r' :: rest => do (← items "," (String.ofList rest)).mapM unhexE
  | _ => none

structure FTab where
  s : List (Nat × Bytes) := []
  a : List (Nat × Bytes) := []
  p : List (Bytes × Option Nat) := []

def FTab.fmt (t : FTab) : FloatFmt where
  fmtS := fun b => (t.s.lookup b).getD [63]
  fmtA := fun b => (t.a.lookup b).getD [63]
  parse := fun x => (t.p.lookup x).join

def parseFTab (s : String) : Option FTab :=
  match s.toList with
  | 't' :: rest => do
    let es ← items "," (String.ofList rest)
    es.foldlM (init := ({} : FTab)) fun acc e =>
      match e.toList with
      | 's' :: r => match (String.ofList r).splitOn ":" with
        | [b, h] => do pure { acc with s := ((← b.toNat?), (← unhexE h)) :: acc.s }
        | _ => none
      | 'a' :: r => match (String.ofList r).splitOn ":" with
        | [b, h] => do pure { acc with a := ((← b.toNat?), (← unhexE h)) :: acc.a }
        | _ => none
      | 'p' :: r => match (String.ofList r).splitOn ":" with
        | [h, b] => do
          let v ← (if b = "x" then some none else b.toNat?.map some)
          pure { acc with p := ((← unhexE h), v) :: acc.p }
        | _ => none
      | _ => none
  | _ => none

/-! ### headers -/

def fmtOthers (o : Others) : String := String.join (o.map fun p => s!",{fmtTag p.1}={hexE p.2}")

def fmtHdr (h : Hdr) : String :=
  let hd := match h.hd with
    | none => "~"
    | some l => s!"{l.major}.{l.minor}{fmtOthers l.others}"
  let sq := String.join (h.sq.map fun l => s!"|{hexE l.name}:{l.len}{fmtOthers l.others}")
  let rg := String.join (h.rg.map fun l => s!"|{hexE l.id}{fmtOthers l.others}")
  let pg := String.join (h.pg.map fun l => s!"|{hexE l.id}{fmtOthers l.others}")
  let co := String.join (h.co.map fun c => s!"|{hexE c}")
  s!"{hd}/{sq}/{rg}/{pg}/{co}"

def parseOthers (l : List String) : Option Others :=
  l.mapM fun e =>
    match e.splitOn "=" with
    | [t, v] => do pure ((← parseTag t), (← unhexE v))
    | _ => none

def parseIdLines (s : String) : Option (List IdLine) := do
  (← items "|" s).mapM fun e =>
    match e.splitOn "," with
    | id :: oth => do pure ⟨← unhexE id, ← parseOthers oth⟩
    | [] => none

def parseHdr (s : String) : Option Hdr :=
  match s.splitOn "/" with
  | [hd, sq, rg, pg, co] => do
    let hd ← (if hd = "~" then some none else
      match hd.splitOn "," with
      | v :: oth =>
        match v.splitOn "." with
        | [a, b] => do pure (some ⟨← a.toNat?, ← b.toNat?, ← parseOthers oth⟩)
        | _ => none
      | [] => none)
    let sq ← (← items "|" sq).mapM fun e =>
      match e.splitOn "," with
      | nl :: oth =>
        match nl.splitOn ":" with
        | [n, l] => do pure (⟨← unhexE n, ← l.toNat?, ← parseOthers oth⟩ : SqLine)
        | _ => none
      | [] => none
    let co ← (← items "|" co).mapM unhexE
    pure ⟨hd, sq, ← parseIdLines rg, ← parseIdLines pg, co⟩
  | _ => none

/-! ### lexical-core integer model (`c06 num …`) -/

def numAnswer (kind : String) (s : Bytes) : String :=
  let showC (o : Option Int) : String := match o with
    | some v => toString v
    | none => "x"
  let showP (o : Option (Int × Bytes)) : String := match o with
    | some (v, rest) => s!"{v}/{s.length - rest.length}"
    | none => "x"
  match kind with
  | "u8" => showC ((parseU8 s).map Int.ofNat)
  | "u16" => showC ((parseU16 s).map Int.ofNat)
  | "u32" => showC ((parseU32 s).map Int.ofNat)
  | "usize" => showC ((parseUsize s).map Int.ofNat)
  | "i32" => showC (parseI32 s)
  | "i64" => showC (parseI64 s)
  | "pusize" => showP (parsePartial false 0 18446744073709551615 s)
  | "pi8" => showP (parsePartial true IntTy.i8.lo IntTy.i8.hi s)
  | "pu8" => showP (parsePartial false IntTy.u8.lo IntTy.u8.hi s)
  | "pi16" => showP (parsePartial true IntTy.i16.lo IntTy.i16.hi s)
  | "pu16" => showP (parsePartial false IntTy.u16.lo IntTy.u16.hi s)
  | "pi32" => showP (parsePartial true IntTy.i32.lo IntTy.i32.hi s)
  | "pu32" => showP (parsePartial false IntTy.u32.lo IntTy.u32.hi s)
  | _ => "bad-op"

/-! ### handler -/

def handleC06 : List String → String
  | ["rec", refs, rec, ftab] =>
    match parseRefs refs, parseRec rec, parseFTab ftab with
    | some refs, some r, some t =>
      match samWrite t.fmt refs r with
      | .error e => s!"{errStr e} -"
      | .ok line =>
        match samParse t.fmt refs line with
        | .ok r' => s!"{hex line} {fmtRec r'}"
        | .error e => s!"{hex line} {errStr e}"
    | _, _, _ => "bad-op"
  | ["parse", refs, line, ftab] =>
    match parseRefs refs, unhex line, parseFTab ftab with
    | some refs, some line, some t =>
      match samParse t.fmt refs line with
      | .ok r => fmtRec r
      | .error e => errStr e
    | _, _, _ => "bad-op"
  | ["hdr", h] =>
    match parseHdr h with
    | some h =>
      match headerWrite h with
      | .error e => s!"{errStr e} -"
      | .ok text =>
        match headerParse text with
        | .ok h' => s!"{hex text} {fmtHdr h'}"
        | .error e => s!"{hex text} {errStr e}"
    | none => "bad-op"
  | ["hparse", text] =>
    match unhex text with
    | some text =>
      match headerParse text with
      | .ok h => fmtHdr h
      | .error e => errStr e
    | none => "bad-op"
  | ["bam", nrefs, rec] =>
    match nrefs.toNat?, parseRec rec with
    | some n, some r =>
      match bamRoundTrip n r with
      | .ok r' => fmtRec r'
      | .error e => errStr e
    | _, _ => "bad-op"
  | ["bamhdr", h] =>
    match parseHdr h with
    | some h =>
      match bamHeaderWrite h with
      | .error e => s!"{berrStr e} -"
      | .ok bytes =>
        match bamHeaderRead bytes with
        | .ok (h', rest) => s!"{hex bytes} {fmtHdr h'} {rest.length}"
        | .error e => s!"{hex bytes} {berrStr e}"
    | none => "bad-op"
  | ["bamhparse", bytes] =>
    match unhex bytes with
    | some bytes =>
      match bamHeaderRead bytes with
      | .ok (h, rest) => s!"{fmtHdr h} {rest.length}"
      | .error e => berrStr e
    | none => "bad-op"
  | ["lazy", data, ftab] =>
    match unhex data, parseFTab ftab with
    | some data, some t =>
      match lazyData t.fmt (data.length + 1) data with
      | .ok fs => if fs.isEmpty then "-" else String.join (fs.map fun p => s!"|{fmtTag p.1}.{fmtValue p.2}")
      | .error .eof => "err:eof"
      | .error .invalidData => "err:invalid-data"
    | _, _ => "bad-op"
  | ["num", kind, s] =>
    match unhex s with
    | some s => numAnswer kind s
    | none => "bad-op"
  | _ => "bad-op"

end Noodles.Sam.Drv
