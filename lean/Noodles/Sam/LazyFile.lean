import Noodles.Sam.File
import Noodles.Sam.Lazy
/-!
# The lazy SAM reader at file level (C06, `read_record` / `records()` → `sam::Record` → `RecordBuf`)

GLUE over existing transcriptions plus the mandatory-field accessors of the lazy record:

* `IO.samReadRecord` / `IO.samRecordsAll` (`Io/Lines.lean`, C12) — noodles-sam `io/reader/record.rs`
  `read_record`: eleven `read_field`s straight from the `fill_buf` windows into ONE buffer with the
  field ends recorded (`Bounds`), then `read_line` for the optional fields; the `records()` loop;
* `Sam.lazyData` (`Sam/Lazy.lean`) — `record/data.rs` … the optional-field iterator;
* NEW here: `record/fields.rs` (`Fields::name`, `flags`, `reference_sequence_id`, `alignment_start`,
  `mapping_quality`, `cigar`, `mate_reference_sequence_id` incl. `=`, `mate_alignment_start`,
  `template_length`, `sequence`, `quality_scores`, `data` — every one a slice of the buffer between two
  recorded ends), `record/fields/bounds.rs` (the ranges), `record/cigar.rs` (`Cigar::iter`: the eager
  `parse_op`, an error ends the iteration), `record/quality_scores.rs` (`b.checked_sub(b'!')`),
  `record/sequence.rs` (the bytes), and `alignment/record_buf/convert.rs`
  (`RecordBuf::try_clone_from_alignment_record`: the accessors in field order, `?` on each,
  `Data::insert` per optional field — a repeated tag REPLACES the earlier value in place).

The lazy record validates nothing when it is read: `read_record` only fails when a line ends before
the eleventh field (`unexpected EOL`, `InvalidData`). Quirks transcribed as they are:

* at the END OF THE STREAM a field simply ends (`is_eol = false`), so a last line cut short
  (`r0<TAB>4<EOF>`) is a record whose remaining fields are EMPTY — the eager reader fails on it;
* `alignment_start` / `mate_alignment_start`: the text `0` is "missing", anything else is parsed and
  then `Position::try_from(n)` — which FAILS for 0, so `00` is `InvalidData` here while the eager
  `parse_alignment_start` (`Position::new`) reads it as missing;
* an empty field is accepted for QNAME (`Some("")`), CIGAR, SEQ, QUAL (no ops / bases / scores);
* QUAL is not compared with the length of SEQ and every byte ≥ `!` is a score (the eager reader wants
  `!`..`~` and equal lengths);
* `Z` / `H` values are not checked; duplicate tags are not an error (the later value wins);
  integers come as `Int32`/`UInt32`; a field cut short is `UnexpectedEof`, not `InvalidData`.
-/
namespace Noodles.Sam.LazyFile
open Noodles.Sam Noodles.Sam.File Noodles.Text

/-- `&buf[a..e]` for every range of `Bounds` in order: `0..name_end`, `name_end..flags_end`, … -/
def cuts (buf : Bytes) : Nat → List Nat → List Bytes
  | _, [] => []
  | a, e :: es => ((buf.take e).drop a) :: cuts buf e es

/-- `&buf[bounds.data_range()]` = `quality_scores_end..` -/
def dataOf (buf : Bytes) (ends : List Nat) : Bytes := buf.drop (ends.getLast?.getD 0)

def liftE {α : Type} : Except Err α → Except LErr α
  | .ok a => .ok a
  | .error _ => .error .invalidData

def optE {α : Type} : Option α → Except LErr α
  | some a => .ok a
  | none => .error .invalidData

/-- `Fields::name`: `*` is `None`, everything else — the empty string too — is the name -/
def lazyName (f : Bytes) : Option Bytes := if f = [42] then none else some f

/-- `Fields::reference_sequence_id`: `*` is `None`, else `get_index_of` or `InvalidData` -/
def lazyRid (refs : List Bytes) (f : Bytes) : Except LErr (Option Nat) :=
  if f = [42] then .ok none
  else match indexOf f refs with
    | some i => .ok (some i)
    | none => .error .invalidData

/-- `Fields::alignment_start` / `mate_alignment_start`: the text `0` is `None`; otherwise
`parse_position` = `lexical_core::parse::<usize>` then `Position::try_from(n)`, which fails for 0 -/
def lazyPos (f : Bytes) : Except LErr Nat :=
  if f = [48] then .ok 0
  else match parseUsize f with
    | none => .error .invalidData
    | some n => if n = 0 then .error .invalidData else .ok n

/-- `Record::mapping_quality`: the text `255` is `None`; otherwise `parse_int::<u8>`, then
`MappingQuality::new` (`None` for 255) -/
def lazyMapq (f : Bytes) : Except LErr Nat :=
  if f = [50, 53, 53] then .ok 255 else optE (parseU8 f)

/-- `Fields::cigar` (`*` → empty) + `Cigar::iter` collected with `?`: the eager `parse_op` per
operation; nothing to iterate over an empty field -/
def lazyCigar (f : Bytes) : Except LErr (List Op) :=
  if f = [42] then .ok []
  else if f.isEmpty then .ok []
  else liftE (parseOps (f.length + 1) f)

/-- `Fields::mate_reference_sequence_id`: `*` → `None`, `=` → `reference_sequence_name()` (so `None`
when RNAME is `*`), then `get_index_of` -/
def lazyMateRid (refs : List Bytes) (rname f : Bytes) : Except LErr (Option Nat) :=
  if f = [42] then .ok none
  else if f = [61] then lazyRid refs rname
  else match indexOf f refs with
    | some i => .ok (some i)
    | none => .error .invalidData

/-- `Fields::sequence`: `*` → empty, else the bytes as they are -/
def lazySeq (f : Bytes) : Bytes := if f = [42] then [] else f

/-- `Fields::quality_scores` (`*` → empty) + `QualityScores::iter`: `b.checked_sub(b'!')` per byte -/
def lazyQual (f : Bytes) : Except LErr Bytes :=
  let q := if f = [42] then [] else f
  if q.all (fun b => 33 ≤ b.toNat) then .ok (q.map (· - 33)) else .error .invalidData

/-- `Data::insert`: a tag already present is replaced in place, otherwise the field is appended -/
def dataInsert (acc : List (Tag × Value)) (p : Tag × Value) : List (Tag × Value) :=
  if acc.any (fun q => q.1 == p.1) then acc.map (fun q => if q.1 == p.1 then p else q)
  else acc ++ [p]

/-- `for result in record.data().iter() { let (tag, value) = result?; data.insert(tag, value.try_into()?) }` -/
def lazyDataBuf (F : FloatFmt) (d : Bytes) : Except LErr (List (Tag × Value)) :=
  match lazyData F (d.length + 1) d with
  | .error e => .error e
  | .ok ps => .ok (ps.foldl dataInsert [])

/-- `RecordBuf::try_clone_from_alignment_record` on the eleven standard fields and the rest of the
line: the accessors in field order, the first failure is returned -/
def lazyConv (F : FloatFmt) (refs : List Bytes) (fs : List Bytes) (d : Bytes) : Except LErr Rec :=
  match fs with
  | [f1, f2, f3, f4, f5, f6, f7, f8, f9, f10, f11] => do
    let flags ← optE (parseU16 f2)
    let rid ← lazyRid refs f3
    let pos ← lazyPos f4
    let mapq ← lazyMapq f5
    let cigar ← lazyCigar f6
    let mrid ← lazyMateRid refs f3 f7
    let mpos ← lazyPos f8
    let tlen ← optE (parseI32 f9)
    let qual ← lazyQual f11
    let data ← lazyDataBuf F d
    pure { name := lazyName f1, flags := flags % 4096, rid, pos, mapq, cigar, mrid, mpos, tlen,
           seq := lazySeq f10, qual, data }
  | _ => .error .invalidData

/-- a `sam::Record` (buffer + bounds) to a `RecordBuf` -/
def lazyToRec (F : FloatFmt) (refs : List Bytes) (r : Noodles.IO.LazyRec) : Except LErr Rec :=
  lazyConv F refs (cuts r.buf 0 r.ends) (dataOf r.buf r.ends)

/-- what a caller of `read_header` + `records()` (each item converted with
`RecordBuf::try_from_alignment_record`) sees: the header, per record read the `RecordBuf` or the
conversion error, and the error that ended the record loop -/
structure LOut where
  hdr : Except IOErr Hdr
  recs : List (Except LErr Rec)
  err : Option IOErr

/-- `reader.read_header()?`, then `read_record` until `Ok(0)` or the first error, over a `BufReader` -/
def readSamFileLazyB (F : FloatFmt) (b : Noodles.IO.BufR UInt8) : LOut :=
  match Noodles.IO.hdrLinesAll 64 b with
  | (.error e, _) => ⟨.error e, [], none⟩
  | (.ok ls, b') =>
    match finishHeader ls with
    | .error e => ⟨.error e, [], none⟩
    | .ok h =>
      match (Noodles.IO.samRecordsAll b').1 with
      | .error e => ⟨.ok h, [], some e⟩
      | .ok (items, e) => ⟨.ok h, items.map (lazyToRec F h.refs), e⟩

/-- the eager result in the lazy result's shape -/
def ofEager (o : Out) : LOut := ⟨o.hdr, o.recs.map .ok, o.err⟩

end Noodles.Sam.LazyFile
