import Noodles.Sam.File
import Noodles.Io.LoopsProof
/-!
# Closed form of the SAM file reader on the byte string

`IO.specHdr` / `IO.specUntil` (C12, `Io/LoopsProof.lean`) are the closed forms of one `read_until`
over `header::Reader` / over the `BufReader`; here the two loops of `File.readSamFileB` are replayed
over them. `FileProof.lean` proves `readSamFileB F b = readSamFile F b.stream` for every capacity
≥ 1 and every delivery schedule.
-/
namespace Noodles.Sam.File
open Noodles.Sam

/-! ### closed form on the byte string -/

/-- `IO.hdrLines` on the stream (`IO.specHdr` = one `read_until` over `header::Reader`):
(the raw lines, where the records begin) -/
def hdrLinesS (pfx : UInt8) : Nat → Bool → Bytes → List Bytes → Except IOErr (List Bytes) × Bytes
  | 0, _, xs, _ => (.error .fuel, xs)
  | fuel+1, isEol, xs, acc =>
    let r := Noodles.IO.specHdr pfx ([], isEol) xs
    if r.1.1.length = 0 then (.ok acc.reverse, r.2)
    else hdrLinesS pfx fuel r.1.2 r.2 (Noodles.IO.stripEol r.1.1 :: acc)

/-- `IO.parsedLines (readParsedLine false parse)` on the stream (`IO.specUntil` = one
`read_until(b'\n')`) -/
def parsedLinesS {ρ : Type} (parse : Bytes → Except IOErr ρ) :
    Nat → Bytes → List ρ → List ρ × Option IOErr
  | 0, _, acc => (acc.reverse, some .fuel)
  | fuel+1, xs, acc =>
    let l := Noodles.IO.specUntil (· == Noodles.IO.LF) xs
    if l.1.length = 0 then (acc.reverse, none)
    else match parse (Noodles.IO.stripEol l.1) with
      | .error e => (acc.reverse, some e)
      | .ok r => parsedLinesS parse fuel l.2 (r :: acc)

/-- `read_header` + `records()` on a byte string -/
def readSamFile (F : FloatFmt) (bytes : Bytes) : Out :=
  match hdrLinesS 64 (bytes.length + 1) true bytes [] with
  | (.error e, _) => ⟨.error e, [], none⟩
  | (.ok ls, rest) =>
    match finishHeader ls with
    | .error e => ⟨.error e, [], none⟩
    | .ok h =>
      let r := parsedLinesS (recParse F h.refs) (rest.length + 1) rest []
      ⟨.ok h, r.1, r.2⟩

end Noodles.Sam.File
