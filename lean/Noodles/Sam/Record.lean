import Noodles.Sam.Num
/-!
# SAM text records: the writer and the `RecordBuf` parser of noodles-sam

Transcribed from
* `noodles-sam/src/io/writer/record.rs` (`write_record`) and its field writers under
  `io/writer/record/` (`name.rs`, `flags.rs`, `reference_sequence_name.rs`, `position.rs`,
  `mapping_quality.rs`, `cigar.rs`, `template_length.rs`, `sequence.rs`, `quality_scores.rs`,
  `data.rs`, `data/field*.rs`, `data/field/value/*.rs`);
* `noodles-sam/src/io/reader/record_buf.rs` (`parse_record_buf`, `next_field`,
  `parse_mate_reference_sequence_id`) and its field parsers under `io/reader/record_buf/`;
* `noodles-sam/src/alignment/record_buf/data/field/value.rs` (`TryFrom<i64> for Value`,
  `From<u32> for Value`) and `alignment/record_buf/data.rs` (`Data::insert`).

The value being written is `sam::alignment::RecordBuf`:
* `Option<Position>` is a `Nat` with `0 = None` (`Position` is `NonZero<usize>`; the writer prints
  `None` as `0`, the reader maps `0` to `None`);
* `Option<MappingQuality>` is a `Nat < 256` with `255 = None` (`MappingQuality::new(255) = None`);
* `Flags` is a `Nat < 65536`; `Flags::from(u16)` is `from_bits_truncate`, twelve bits are defined,
  so reading keeps `n % 4096`;
* reference sequence ids index the header's reference sequence dictionary, which the record code
  uses only as the list of names (`refs`);
* `Data` is an insertion-ordered list of `(tag, value)` with distinct tags (`Data::insert`).

`f32` values are their 32-bit patterns; text formatting/parsing of floats is the parameter
`FloatFmt` (lexical-core for `f` fields, `core::fmt::Display` for `B:f` elements, lexical-core
for reading both).
-/
namespace Noodles.Sam
open Noodles.Text

inductive Err | invalidInput | invalidData
deriving DecidableEq, Repr

inductive Kind | M | I | D | N | S | H | P | Eq | X
deriving DecidableEq, Repr

structure Op where
  kind : Kind
  len : Nat
deriving DecidableEq, Repr

inductive IntTy | i8 | u8 | i16 | u16 | i32 | u32
deriving DecidableEq, Repr

def IntTy.signed : IntTy → Bool
  | .i8 | .i16 | .i32 => true
  | _ => false

def IntTy.lo : IntTy → Int
  | .i8 => -128 | .i16 => -32768 | .i32 => -2147483648 | _ => 0

def IntTy.hi : IntTy → Int
  | .i8 => 127 | .u8 => 255 | .i16 => 32767 | .u16 => 65535 | .i32 => 2147483647 | .u32 => 4294967295

abbrev Tag := UInt8 × UInt8

inductive Value
  | char (c : UInt8)
  | int (t : IntTy) (n : Int)
  | float (bits : Nat)
  | str (s : Bytes)
  | hex (s : Bytes)
  | iarr (t : IntTy) (l : List Int)
  | farr (l : List Nat)
deriving DecidableEq, Repr

structure Rec where
  name : Option Bytes
  flags : Nat
  rid : Option Nat
  pos : Nat
  mapq : Nat
  cigar : List Op
  mrid : Option Nat
  mpos : Nat
  tlen : Int
  seq : Bytes
  qual : Bytes
  data : List (Tag × Value)
deriving DecidableEq, Repr

/-- Float text as a parameter. `fmtS`: `lexical_core::write_with_options` with `trim_floats`
(`io/writer/num.rs::write_f32`, used for `f` fields); `fmtA`: `write!(writer, ",{n}")`, i.e.
`core::fmt::Display for f32` (`data/field/value/array.rs`, used for `B:f` elements);
`parse`: `lexical_core::parse::<f32>` (`none` = any error). -/
structure FloatFmt where
  fmtS : Nat → Bytes
  fmtA : Nat → Bytes
  parse : Bytes → Option Nat

/-- `f32::is_finite` on the bit pattern -/
def finiteBits (x : Nat) : Bool := x < 4294967296 && (x / 8388608) % 256 != 255

/-- The law assumed of the float library (validated on the real crates by the harness on every
run, suite `float-law`): finite values survive print-then-parse for both printers, and printed
text contains neither TAB nor `,`. -/
structure FloatFmt.Lawful (F : FloatFmt) : Prop where
  parseS : ∀ x, finiteBits x = true → F.parse (F.fmtS x) = some x
  parseA : ∀ x, finiteBits x = true → F.parse (F.fmtA x) = some x
  cleanS : ∀ x, ∀ b ∈ F.fmtS x, b ≠ 9
  cleanA : ∀ x, ∀ b ∈ F.fmtA x, b ≠ 9 ∧ b ≠ 44

/-! ### character classes -/

/-- `u8::is_ascii_graphic` -/
def isGraphic (b : UInt8) : Bool := 33 ≤ b.toNat && b.toNat ≤ 126
/-- `b' '..=b'~'` -/
def isPrintable (b : UInt8) : Bool := 32 ≤ b.toNat && b.toNat ≤ 126
def isAlpha (b : UInt8) : Bool := (65 ≤ b.toNat && b.toNat ≤ 90) || (97 ≤ b.toNat && b.toNat ≤ 122)
def isAlnum (b : UInt8) : Bool := isAlpha b || isDigit b
/-- `[0-9A-F]` -/
def isHexUpper (b : UInt8) : Bool := isDigit b || (65 ≤ b.toNat && b.toNat ≤ 70)
/-- `sequence.rs::is_valid_base`: `[A-Za-z=.]` -/
def isBase (b : UInt8) : Bool := isAlpha b || b.toNat == 61 || b.toNat == 46

/-! ### writer -/

/-- `name.rs::is_valid` -/
def validName (n : Bytes) : Bool :=
  decide (1 ≤ n.length) && decide (n.length ≤ 254) && n != [42] &&
    n.all (fun b => isGraphic b && b.toNat != 64)

def writeName : Option Bytes → Except Err Bytes
  | none => .ok [42]
  | some n => if validName n then .ok n else .error .invalidInput

/-- `Record::reference_sequence(header)`: the name of reference `id`; an id outside the dictionary
is `io::ErrorKind::InvalidData` ("invalid reference sequence ID"). -/
def refName (refs : List Bytes) : Option Nat → Except Err (Option Bytes)
  | none => .ok none
  | some i =>
    match refs[i]? with
    | some n => .ok (some n)
    | none => .error .invalidData

def writeRname : Option Bytes → Bytes
  | none => [42]
  | some n => n

/-- `write_mate_reference_sequence_name`: `=` when both names are present and equal -/
def writeMateRname (rn mn : Option Bytes) : Bytes :=
  match rn, mn with
  | some n, some m => if n = m then [61] else m
  | _, _ => writeRname mn

/-- `position.rs::write_position` -/
def writePos (n : Nat) : Except Err Bytes :=
  if n ≤ 2147483647 then .ok (printNat n) else .error .invalidInput

def kindChar : Kind → UInt8
  | .M => 77 | .I => 73 | .D => 68 | .N => 78 | .S => 83 | .H => 72 | .P => 80 | .Eq => 61 | .X => 88

def writeOp (op : Op) : Bytes := printNat op.len ++ [kindChar op.kind]

def writeCigar (ops : List Op) : Bytes :=
  if ops.isEmpty then [42] else ops.flatMap writeOp

def Kind.consumesRead : Kind → Bool
  | .M | .I | .S | .Eq | .X => true
  | _ => false

/-- `Cigar::read_length` -/
def readLength (ops : List Op) : Nat :=
  (ops.map fun op => if op.kind.consumesRead then op.len else 0).sum

/-- `sequence.rs::write_sequence` (the `RecordBuf` sequence is `SequenceRef::Raw`) -/
def writeSeq (readLen : Nat) (seq : Bytes) : Except Err Bytes :=
  if seq.isEmpty then .ok [42]
  else if readLen > 0 ∧ seq.length ≠ readLen then .error .invalidInput
  else if seq.all isBase then .ok seq
  else .error .invalidInput

/-- `quality_scores.rs::write_quality_scores` -/
def writeQual (baseCount : Nat) (q : Bytes) : Except Err Bytes :=
  if q.isEmpty then .ok [42]
  else if q.length = baseCount then
    if q.all (fun n => n.toNat ≤ 93) then .ok (q.map (· + 33)) else .error .invalidInput
  else .error .invalidInput

/-- `data/field/tag.rs::is_valid` -/
def validTag (t : Tag) : Bool := isAlpha t.1 && isAlnum t.2

def subChar : IntTy → UInt8
  | .i8 => 99 | .u8 => 67 | .i16 => 115 | .u16 => 83 | .i32 => 105 | .u32 => 73

/-- `ty.rs::encode` of `Value::ty()` -/
def tyChar : Value → UInt8
  | .char _ => 65
  | .int _ _ => 105
  | .float _ => 102
  | .str _ => 90
  | .hex _ => 72
  | .iarr _ _ => 66
  | .farr _ => 66

/-- `data/field/value.rs::write_value` -/
def writeValue (F : FloatFmt) : Value → Except Err Bytes
  | .char c => if isGraphic c then .ok [c] else .error .invalidInput
  | .int _ n => .ok (printInt n)
  | .float b => if finiteBits b then .ok (F.fmtS b) else .error .invalidInput
  | .str s => if s.all isPrintable then .ok s else .error .invalidInput
  | .hex s => if s.length % 2 == 0 && s.all isHexUpper then .ok s else .error .invalidInput
  | .iarr t l => .ok (subChar t :: l.flatMap fun n => 44 :: printInt n)
  | .farr l => .ok (102 :: l.flatMap fun b => 44 :: F.fmtA b)

/-- `data/field.rs::write_field` -/
def writeField (F : FloatFmt) (t : Tag) (v : Value) : Except Err Bytes :=
  if validTag t then
    match writeValue F v with
    | .ok b => .ok (t.1 :: t.2 :: 58 :: tyChar v :: 58 :: b)
    | .error e => .error e
  else .error .invalidInput

/-- `data.rs::write_data`: every field preceded by a TAB -/
def writeData (F : FloatFmt) : List (Tag × Value) → Except Err Bytes
  | [] => .ok []
  | (t, v) :: rest =>
    match writeField F t v with
    | .error e => .error e
    | .ok f =>
      match writeData F rest with
      | .error e => .error e
      | .ok r => .ok (9 :: f ++ r)

/-- `write_record` without the final line feed. The steps that can fail fail in source order:
name, reference sequence, position, mate reference sequence, mate position, sequence, quality
scores, data. -/
def samWrite (F : FloatFmt) (refs : List Bytes) (r : Rec) : Except Err Bytes := do
  let name ← writeName r.name
  let rn ← refName refs r.rid
  let pos ← writePos r.pos
  let mn ← refName refs r.mrid
  let mpos ← writePos r.mpos
  let seq ← writeSeq (readLength r.cigar) r.seq
  let qual ← writeQual r.seq.length r.qual
  let data ← writeData F r.data
  pure (name ++ 9 :: printNat r.flags ++ 9 :: writeRname rn ++ 9 :: pos ++ 9 :: printNat r.mapq
    ++ 9 :: writeCigar r.cigar ++ 9 :: writeMateRname rn mn ++ 9 :: mpos ++ 9 :: printInt r.tlen
    ++ 9 :: seq ++ 9 :: qual ++ data)

/-! ### reader -/

/-- `next_field`: split at the first TAB (the TAB is dropped); no TAB: everything, rest empty -/
def nextField : Bytes → Bytes × Bytes
  | [] => ([], [])
  | b :: r => if b = 9 then ([], r) else ((b :: (nextField r).1), (nextField r).2)

/-- The fields seen by `parse_data`'s loop `while !src.is_empty() { next_field(&mut src) … }`.
(Differs from a plain split on TAB only in that empty input has no field and a trailing TAB does
not open an empty last field.) -/
def dataFields : Bytes → List Bytes
  | [] => []
  | b :: r =>
    if b = 9 then [] :: dataFields r
    else match dataFields r with
      | [] => [[b]]
      | f :: fs => (b :: f) :: fs

def parseName (f : Bytes) : Except Err (Option Bytes) :=
  if f = [42] then .ok none
  else if f.isEmpty then .error .invalidData
  else .ok (some f)

/-- `IndexMap::get_index_of` on the reference sequence names -/
def indexOf (x : Bytes) : List Bytes → Option Nat
  | [] => none
  | y :: ys => if y = x then some 0 else (indexOf x ys).map (· + 1)

def parseRid (refs : List Bytes) (f : Bytes) : Except Err (Option Nat) :=
  if f = [42] then .ok none
  else match indexOf f refs with
    | some i => .ok (some i)
    | none => .error .invalidData

def parseMateRid (refs : List Bytes) (rid : Option Nat) (f : Bytes) : Except Err (Option Nat) :=
  if f = [42] then .ok none
  else if f = [61] then .ok rid
  else parseRid refs f

def optErr {α : Type} : Option α → Except Err α
  | some a => .ok a
  | none => .error .invalidData

def kindOf (b : UInt8) : Option Kind :=
  if b = 77 then some .M else if b = 73 then some .I else if b = 68 then some .D
  else if b = 78 then some .N else if b = 83 then some .S else if b = 72 then some .H
  else if b = 80 then some .P else if b = 61 then some .Eq else if b = 88 then some .X
  else none

/-- `cigar.rs::parse_cigar` loop (`fuel` ≥ length of the input) -/
def parseOps : Nat → Bytes → Except Err (List Op)
  | 0, _ => .error .invalidData
  | _ + 1, [] => .ok []
  | fuel + 1, b :: s =>
    match parsePartialUsize (b :: s) with
    | none => .error .invalidData
    | some (n, rest) =>
      match rest with
      | [] => .error .invalidData
      | k :: rest' =>
        match kindOf k with
        | none => .error .invalidData
        | some kd =>
          match parseOps fuel rest' with
          | .ok ops => .ok (⟨kd, n⟩ :: ops)
          | .error e => .error e

def parseCigar (f : Bytes) : Except Err (List Op) :=
  if f = [42] then .ok []
  else if f.isEmpty then .error .invalidData
  else parseOps (f.length + 1) f

def parseSeq (f : Bytes) : Except Err Bytes :=
  if f = [42] then .ok []
  else if f.isEmpty then .error .invalidData
  else .ok f

def parseQual (seqLen : Nat) (f : Bytes) : Except Err Bytes :=
  if f = [42] then .ok []
  else if f.isEmpty then .error .invalidData
  else if f.length ≠ seqLen then .error .invalidData
  else if f.all isGraphic then .ok (f.map (· - 33))
  else .error .invalidData

/-- `Value::try_from(i64)` / `Value::from(u32)`: the narrowest type that holds the number -/
def canonInt (n : Int) : Option Value :=
  if n > 4294967295 then none
  else if 0 ≤ n then
    (if n ≤ 255 then some (.int .u8 n) else if n ≤ 65535 then some (.int .u16 n) else some (.int .u32 n))
  else if -128 ≤ n then some (.int .i8 n)
  else if -32768 ≤ n then some (.int .i16 n)
  else if -2147483648 ≤ n then some (.int .i32 n)
  else none

def subOf (b : UInt8) : Option IntTy :=
  if b = 99 then some .i8 else if b = 67 then some .u8 else if b = 115 then some .i16
  else if b = 83 then some .u16 else if b = 105 then some .i32 else if b = 73 then some .u32
  else none

/-- integer array elements: `while !src.is_empty() { consume ','; parse_partial }` -/
def parseIntArr (t : IntTy) : Nat → Bytes → Except Err (List Int)
  | 0, _ => .error .invalidData
  | _ + 1, [] => .ok []
  | fuel + 1, b :: s =>
    if b ≠ 44 then .error .invalidData
    else match parsePartial t.signed t.lo t.hi s with
      | none => .error .invalidData
      | some (v, rest) =>
        match parseIntArr t fuel rest with
        | .ok vs => .ok (v :: vs)
        | .error e => .error e

/-- float array elements. lexical's partial float parser stops at the first byte that cannot
continue a float, and `,` never can, so each element is the text up to the next `,` and must be a
complete float. -/
def parseFloats (F : FloatFmt) : List Bytes → Except Err (List Nat)
  | [] => .ok []
  | tok :: rest =>
    match F.parse tok with
    | none => .error .invalidData
    | some b =>
      match parseFloats F rest with
      | .ok l => .ok (b :: l)
      | .error e => .error e

def parseFloatArr (F : FloatFmt) (s : Bytes) : Except Err (List Nat) :=
  match s with
  | [] => .ok []
  | b :: r =>
    if b ≠ 44 then .error .invalidData
    else parseFloats F (splitOn 44 r)

/-- `value.rs::parse_value` -/
def parseValue (F : FloatFmt) (ty : UInt8) (s : Bytes) : Except Err Value :=
  if ty = 65 then
    match s with
    | [c] => .ok (.char c)
    | _ => .error .invalidData
  else if ty = 105 then
    match parseI64 s with
    | some n => optErr (canonInt n)
    | none => .error .invalidData
  else if ty = 102 then
    match F.parse s with
    | some b => .ok (.float b)
    | none => .error .invalidData
  else if ty = 90 then
    if s.all isPrintable then .ok (.str s) else .error .invalidData
  else if ty = 72 then
    if s.length % 2 == 0 && s.all isHexUpper then .ok (.hex s) else .error .invalidData
  else if ty = 66 then
    match s with
    | [] => .error .invalidData
    | st :: r =>
      if st = 102 then
        match parseFloatArr F r with
        | .ok l => .ok (.farr l)
        | .error e => .error e
      else match subOf st with
        | none => .error .invalidData
        | some t =>
          match parseIntArr t (r.length + 1) r with
          | .ok l => .ok (.iarr t l)
          | .error e => .error e
  else .error .invalidData

/-- `field.rs::parse_field` on one TAB-delimited field: `TAG:TYPE:VALUE` -/
def parseField (F : FloatFmt) (f : Bytes) : Except Err (Tag × Value) :=
  match f with
  | t0 :: t1 :: c1 :: ty :: c2 :: v =>
    if c1 = 58 ∧ c2 = 58 then
      match parseValue F ty v with
      | .ok val => .ok ((t0, t1), val)
      | .error e => .error e
    else .error .invalidData
  | _ => .error .invalidData

/-- `data.rs::parse_data`: duplicate tags are an error -/
def parseData (F : FloatFmt) : List Bytes → List (Tag × Value) → Except Err (List (Tag × Value))
  | [], acc => .ok acc
  | f :: fs, acc =>
    match parseField F f with
    | .error e => .error e
    | .ok (t, v) =>
      if acc.any (fun p => p.1 == t) then .error .invalidData
      else parseData F fs (acc ++ [(t, v)])

/-- `parse_record_buf` on one line (line terminator already removed by `read_line`). Every failure
reaches the caller as `io::ErrorKind::InvalidData`. -/
def samParse (F : FloatFmt) (refs : List Bytes) (l : Bytes) : Except Err Rec := do
  let f1 := nextField l
  let name ← parseName f1.1
  let f2 := nextField f1.2
  let flags ← optErr (parseU16 f2.1)
  let f3 := nextField f2.2
  let rid ← parseRid refs f3.1
  let f4 := nextField f3.2
  let pos ← optErr (parseUsize f4.1)
  let f5 := nextField f4.2
  let mapq ← optErr (parseU8 f5.1)
  let f6 := nextField f5.2
  let cigar ← parseCigar f6.1
  let f7 := nextField f6.2
  let mrid ← parseMateRid refs rid f7.1
  let f8 := nextField f7.2
  let mpos ← optErr (parseUsize f8.1)
  let f9 := nextField f8.2
  let tlen ← optErr (parseI32 f9.1)
  let f10 := nextField f9.2
  let seq ← parseSeq f10.1
  let f11 := nextField f10.2
  let qual ← parseQual seq.length f11.1
  let data ← parseData F (dataFields f11.2) []
  pure { name, flags := flags % 4096, rid, pos, mapq, cigar, mrid, mpos, tlen, seq, qual, data }

/-! ### comparison up to integer storage width -/

def numNormV : Value → Value
  | .int t n => (canonInt n).getD (.int t n)
  | v => v

/-- integer tags compared by numeric value: every integer is re-typed the way the reader would -/
def numNorm (r : Rec) : Rec := { r with data := r.data.map fun p => (p.1, numNormV p.2) }

/-! ### the quantifier of the round-trip theorems -/

/-- range invariants that the Rust types give for free (`i8` … `u32`, `f32` bit patterns) -/
def Value.WellTyped : Value → Prop
  | .int t n => t.lo ≤ n ∧ n ≤ t.hi
  | .float b => b < 4294967296
  | .iarr t l => ∀ n ∈ l, t.lo ≤ n ∧ n ≤ t.hi
  | .farr l => ∀ b ∈ l, b < 4294967296
  | _ => True

/-- a `RecordBuf`: `u16` flags, `u8` mapping quality, `i32` template length, `usize` op lengths,
well-typed values, and distinct tags (`Data` can only be built through `Data::insert`) -/
structure WellTyped (r : Rec) : Prop where
  flags : r.flags < 65536
  mapq : r.mapq < 256
  tlen : -2147483648 ≤ r.tlen ∧ r.tlen ≤ 2147483647
  ops : ∀ op ∈ r.cigar, op.len < 18446744073709551616
  data : ∀ p ∈ r.data, p.2.WellTyped
  tags : (r.data.map (·.1)).Nodup

/-- the `B:f` elements are finite (the writer checks `f` fields itself, but not array elements) -/
def FiniteArrays (r : Rec) : Prop :=
  ∀ p ∈ r.data, ∀ l, p.2 = .farr l → ∀ b ∈ l, finiteBits b = true

end Noodles.Sam
