import Noodles.Sam.Lazy
import Noodles.Sam.HeaderProof
/-! Helper lemmas: on the writer's own optional fields the lazy view reads what was written. -/
namespace Noodles.Sam
open Noodles.Text

/-- a continuation at which a field ends: the end of the line, or a TAB -/
def FieldEnd (cont : Bytes) : Prop := cont = [] ∨ ∃ r, cont = 9 :: r

theorem fieldEnd_stops (cont : Bytes) (h : FieldEnd cont) : Stops cont := by
  rcases h with rfl | ⟨r, rfl⟩
  · exact stops_nil
  · exact stops_cons _ _ (by decide)

theorem parsePartial_printNat_over (signed : Bool) (lo hi : Int) (n : Nat) (rest : Bytes)
    (hr : Stops rest) (h : hi < (n : Int)) :
    parsePartial signed lo hi (printNat n ++ rest) = none := by
  obtain ⟨d, tl, hp, hd⟩ := printNat_head n
  unfold parsePartial
  rw [hp, List.cons_append, parseSign_digit signed d _ hd]
  simp only [List.isEmpty_cons, Bool.false_eq_true, if_false]
  rw [← List.cons_append, ← hp, takeDigits_printNat n rest hr]
  have : ¬((n : Int) ≤ hi) := by omega
  simp [this]

theorem lazyInt_printInt (t : IntTy) (n : Int) (h : t.lo ≤ n ∧ n ≤ t.hi) (cont : Bytes)
    (hc : FieldEnd cont) : lazyInt (printInt n ++ cont) = some (lazyNormV (.int t n), cont) := by
  obtain ⟨a1, a2⟩ := intTy_bounds t
  have hs := fieldEnd_stops cont hc
  unfold lazyInt lazyNormV
  by_cases hn : n ≤ 2147483647
  · rw [parsePartial_printInt true _ _ n cont hs (by omega) hn (fun _ => rfl)]
    simp [hn]
  · have hpos : 0 ≤ n := by omega
    have e : n = ((n.toNat : Nat) : Int) := by omega
    have hp : printInt n = printNat n.toNat := by
      unfold printInt; rw [if_neg (by omega)]
    rw [hp, parsePartial_printNat_over true _ _ n.toNat cont hs (by omega),
      parsePartial_printNat false 0 _ n.toNat cont hs (by omega) (by omega)]
    simp [hn, ← e]

theorem join_ne_nil (d : UInt8) (f : Bytes) (rest : List Bytes) (hf : f ≠ []) : join d (f :: rest) ≠ [] := by
  cases rest with
  | nil => simpa [join] using hf
  | cons g gs =>
    simp only [join]
    intro e
    exact hf (List.append_eq_nil_iff.mp e).1

theorem printInt_ne_nil (n : Int) : printInt n ≠ [] := by
  unfold printInt
  split
  · simp
  · exact printNat_ne_nil _

theorem comma_not_printInt (n : Int) : (44 : UInt8) ∉ printInt n := by
  intro hm
  rcases printInt_bytes n 44 hm with h | h
  · simp [isDigit] at h
  · cases h

theorem intArr_join (x : Int) (xs : List Int) :
    printInt x ++ xs.flatMap (fun n => 44 :: printInt n) = join 44 ((x :: xs).map printInt) := by
  induction xs generalizing x with
  | nil => simp [join]
  | cons y ys ih =>
    simp only [List.flatMap_cons, List.map_cons, join, List.cons_append]
    rw [ih y]
    simp [List.map_cons]

theorem lazyIntElems_map (t : IntTy) (l : List Int) (h : ∀ n ∈ l, t.lo ≤ n ∧ n ≤ t.hi) :
    lazyIntElems t (l.map printInt) = some l := by
  induction l with
  | nil => rfl
  | cons n rest ih =>
    obtain ⟨a, b⟩ := h n (by simp)
    simp only [List.map_cons, lazyIntElems,
      parseComplete_printInt t.signed t.lo t.hi n a b (intTy_signed t n a)]
    rw [ih (fun m hm => h m (List.mem_cons_of_mem _ hm))]

theorem lazyFloatElems_map (F : FloatFmt) (hF : F.Lawful) (l : List Nat)
    (h : ∀ b ∈ l, finiteBits b = true) : lazyFloatElems F (l.map F.fmtA) = some l := by
  induction l with
  | nil => rfl
  | cons x xs ih =>
    simp only [List.map_cons, lazyFloatElems, hF.parseA x (h x (by simp))]
    rw [ih (fun b hb => h b (List.mem_cons_of_mem _ hb))]

theorem subOf_isSome (t : IntTy) : (subOf (subChar t)).isNone = false := by
  rw [subOf_subChar]; rfl

theorem lazyArray_int (F : FloatFmt) (t : IntTy) (l : List Int) (h : ∀ n ∈ l, t.lo ≤ n ∧ n ≤ t.hi)
    (cont : Bytes) (hc : FieldEnd cont) :
    lazyArray F (subChar t :: (l.flatMap (fun n => 44 :: printInt n)) ++ cont) = .ok (.iarr t l, cont) := by
  have htv := takeValue_append (l.flatMap fun n => 44 :: printInt n) cont (tab_not_intArr l) hc
  unfold lazyArray
  simp only [List.cons_append, (subChar_ne t).1, ne_eq, not_false_eq_true, if_false, htv, subOf_subChar]
  cases l with
  | nil => simp [lazyIntElems]
  | cons x xs =>
    have hj := intArr_join x xs
    have hne := join_ne_nil 44 (printInt x) (xs.map printInt) (printInt_ne_nil x)
    have hemp : (join 44 ((x :: xs).map printInt)).isEmpty = false := by
      simpa [List.isEmpty_iff] using hne
    simp only [List.flatMap_cons, List.cons_append, if_true, hj, hemp, Bool.false_eq_true, if_false]
    rw [splitOn_join 44 _ (by simp) (by
      intro f hf
      obtain ⟨n, _, rfl⟩ := List.mem_map.mp hf
      exact comma_not_printInt n), lazyIntElems_map t (x :: xs) h]
    simp

theorem lazyArray_float (F : FloatFmt) (hF : F.Lawful) (hne : ∀ x, F.fmtA x ≠ []) (l : List Nat)
    (h : ∀ b ∈ l, finiteBits b = true) (cont : Bytes) (hc : FieldEnd cont) :
    lazyArray F (102 :: (l.flatMap (fun b => 44 :: F.fmtA b)) ++ cont) = .ok (.farr l, cont) := by
  have htv := takeValue_append (l.flatMap fun b => 44 :: F.fmtA b) cont (tab_not_floatArr F hF l) hc
  unfold lazyArray
  simp only [List.cons_append, ne_eq, not_true_eq_false, false_and, if_false, htv, if_true]
  cases l with
  | nil => simp [lazyFloatElems]
  | cons x xs =>
    have hj := floatArr_join F x xs
    have hne' := join_ne_nil 44 (F.fmtA x) (xs.map F.fmtA) (hne x)
    have hemp : (join 44 ((x :: xs).map F.fmtA)).isEmpty = false := by
      simpa [List.isEmpty_iff] using hne'
    simp only [List.flatMap_cons, List.cons_append, if_true, hj, hemp, Bool.false_eq_true, if_false]
    rw [splitOn_join 44 _ (by simp) (by
      intro f hf
      obtain ⟨b, _, rfl⟩ := List.mem_map.mp hf
      exact fun hm => (hF.cleanA b 44 hm).2 rfl), lazyFloatElems_map F hF (x :: xs) h]
    try simp

theorem lazyValue_A (F : FloatFmt) (c : UInt8) (rest : Bytes) :
    lazyValue F 65 (c :: rest) = .ok (.char c, rest) := by simp [lazyValue]

theorem lazyValue_i (F : FloatFmt) (s : Bytes) (p : Value × Bytes) (h : lazyInt s = some p) :
    lazyValue F 105 s = .ok p := by simp [lazyValue, h]

theorem lazyValue_f (F : FloatFmt) (s : Bytes) (b : Nat) (h : F.parse (takeValue s).1 = some b) :
    lazyValue F 102 s = .ok (.float b, (takeValue s).2) := by simp [lazyValue, h]

theorem lazyValue_Z (F : FloatFmt) (s : Bytes) :
    lazyValue F 90 s = .ok (.str (takeValue s).1, (takeValue s).2) := by simp [lazyValue]

theorem lazyValue_H (F : FloatFmt) (s : Bytes) :
    lazyValue F 72 s = .ok (.hex (takeValue s).1, (takeValue s).2) := by simp [lazyValue]

theorem lazyValue_B (F : FloatFmt) (s : Bytes) : lazyValue F 66 s = lazyArray F s := by
  simp [lazyValue]

theorem lazyValue_spec (F : FloatFmt) (hF : F.Lawful) (hne : ∀ x, F.fmtA x ≠ []) (v : Value) (b : Bytes)
    (h : writeValue F v = .ok b) (hw : v.WellTyped)
    (hfin : ∀ l, v = .farr l → ∀ x ∈ l, finiteBits x = true) (cont : Bytes) (hc : FieldEnd cont) :
    lazyValue F (tyChar v) (b ++ cont) = .ok (lazyNormV v, cont) := by
  obtain ⟨h9, _⟩ := writeValue_spec F hF v b h hw hfin
  cases v with
  | char c =>
    simp only [writeValue] at h
    split at h
    · simp only [Except.ok.injEq] at h; subst h
      exact lazyValue_A F c cont
    · cases h
  | int t n =>
    simp only [writeValue, Except.ok.injEq] at h; subst h
    have hw' : t.lo ≤ n ∧ n ≤ t.hi := hw
    exact lazyValue_i F _ _ (lazyInt_printInt t n hw' cont hc)
  | float x =>
    simp only [writeValue] at h
    split at h
    · rename_i hf
      simp only [Except.ok.injEq] at h; subst h
      have htv := takeValue_append _ cont h9 hc
      show lazyValue F 102 _ = _
      rw [lazyValue_f F _ x (by rw [htv]; exact hF.parseS x hf), htv]
      rfl
    · cases h
  | str s =>
    simp only [writeValue] at h
    split at h
    · simp only [Except.ok.injEq] at h; subst h
      show lazyValue F 90 _ = _
      rw [lazyValue_Z, takeValue_append _ cont h9 hc]
      rfl
    · cases h
  | hex s =>
    simp only [writeValue] at h
    split at h
    · simp only [Except.ok.injEq] at h; subst h
      show lazyValue F 72 _ = _
      rw [lazyValue_H, takeValue_append _ cont h9 hc]
      rfl
    · cases h
  | iarr t l =>
    simp only [writeValue, Except.ok.injEq] at h; subst h
    have hw' : ∀ n ∈ l, t.lo ≤ n ∧ n ≤ t.hi := hw
    show lazyValue F 66 _ = _
    rw [lazyValue_B]
    exact lazyArray_int F t l hw' cont hc
  | farr l =>
    simp only [writeValue, Except.ok.injEq] at h; subst h
    show lazyValue F 66 _ = _
    rw [lazyValue_B]
    exact lazyArray_float F hF hne l (hfin l rfl) cont hc

theorem tyChar_known (v : Value) :
    tyChar v = 65 ∨ tyChar v = 105 ∨ tyChar v = 102 ∨ tyChar v = 90 ∨ tyChar v = 72 ∨ tyChar v = 66 := by
  cases v <;> simp [tyChar]

/-- one written field, followed by the end of the line or by a TAB and more -/
theorem lazyField_spec (F : FloatFmt) (hF : F.Lawful) (hne : ∀ x, F.fmtA x ≠ []) (t : Tag) (v : Value)
    (f : Bytes) (h : writeField F t v = .ok f) (hw : v.WellTyped)
    (hfin : ∀ l, v = .farr l → ∀ x ∈ l, finiteBits x = true) :
    lazyField F f = .ok ((t, lazyNormV v), []) ∧
    ∀ rest, lazyField F (f ++ 9 :: rest) = .ok ((t, lazyNormV v), rest) := by
  unfold writeField at h
  split at h
  · cases hb : writeValue F v with
    | error e => rw [hb] at h; cases h
    | ok b =>
      rw [hb] at h
      simp only [Except.ok.injEq] at h
      subst h
      have hk := tyChar_known v
      refine ⟨?_, ?_⟩
      · have hv := lazyValue_spec F hF hne v b hb hw hfin [] (Or.inl rfl)
        rw [List.append_nil] at hv
        simp [lazyField, hk, hv]
      · intro rest
        have hv := lazyValue_spec F hF hne v b hb hw hfin (9 :: rest) (Or.inr ⟨rest, rfl⟩)
        simp [lazyField, hk, hv]
  · cases h

theorem lazyData_step (F : FloatFmt) (fuel : Nat) (s : Bytes) (hs : s ≠ []) :
    lazyData F (fuel + 1) s =
      match lazyField F s with
      | .error e => .error e
      | .ok (p, rest) =>
        match lazyData F fuel rest with
        | .ok ps => .ok (p :: ps)
        | .error e => .error e := by
  cases s with
  | nil => exact absurd rfl hs
  | cons b s => rfl

def lazyNormData (data : List (Tag × Value)) : List (Tag × Value) :=
  data.map fun p => (p.1, lazyNormV p.2)

theorem lazyData_writeData (F : FloatFmt) (hF : F.Lawful) (hne : ∀ x, F.fmtA x ≠ [])
    (data : List (Tag × Value)) (d : Bytes) (h : writeData F data = .ok d)
    (hw : ∀ p ∈ data, p.2.WellTyped)
    (hfin : ∀ p ∈ data, ∀ l, p.2 = .farr l → ∀ x ∈ l, finiteBits x = true) :
    ∃ fs, d = fs.flatMap (fun f => 9 :: f) ∧ (∀ f ∈ fs, (9 : UInt8) ∉ f ∧ f ≠ []) ∧
      ∀ fuel, (join 9 fs).length < fuel → lazyData F fuel (join 9 fs) = .ok (lazyNormData data) := by
  induction data generalizing d with
  | nil =>
    simp only [writeData, Except.ok.injEq] at h
    subst h
    refine ⟨[], rfl, by simp, ?_⟩
    intro fuel hf
    cases fuel with
    | zero => simp at hf
    | succ k => simp [join, lazyData, lazyNormData]
  | cons p rest ih =>
    obtain ⟨t, v⟩ := p
    simp only [writeData] at h
    cases hf : writeField F t v with
    | error e => rw [hf] at h; cases h
    | ok f =>
      rw [hf] at h
      cases hr : writeData F rest with
      | error e => rw [hr] at h; cases h
      | ok r =>
        rw [hr] at h
        simp only [Except.ok.injEq] at h
        subst h
        obtain ⟨fs, e1, e2, e3⟩ := ih r hr (fun q hq => hw q (List.mem_cons_of_mem _ hq))
          (fun q hq => hfin q (List.mem_cons_of_mem _ hq))
        obtain ⟨s1, s2, _⟩ := writeField_spec F hF t v f hf (hw (t, v) (by simp)) (hfin (t, v) (by simp))
        obtain ⟨l1, l2⟩ := lazyField_spec F hF hne t v f hf (hw (t, v) (by simp)) (hfin (t, v) (by simp))
        refine ⟨f :: fs, by simp [e1], ?_, ?_⟩
        · intro x hx
          rcases List.mem_cons.mp hx with rfl | hx
          · exact ⟨s1, s2⟩
          · exact e2 x hx
        · intro fuel hfu
          cases fuel with
          | zero => simp at hfu
          | succ k =>
            cases fs with
            | nil =>
              have hd : lazyNormData rest = [] := by
                have := e3 1 (by simp [join])
                simp only [join, lazyData] at this
                exact (Except.ok.inj this).symm
              simp only [join] at hfu ⊢
              rw [lazyData_step F k f s2, l1]
              cases k with
              | zero =>
                have : f.length = 0 := by omega
                exact absurd (List.length_eq_zero_iff.mp this) s2
              | succ k' => simp [lazyData, lazyNormData, hd] at *; exact hd
            | cons g gs =>
              simp only [join] at hfu ⊢
              have hne' : f ++ 9 :: join 9 (g :: gs) ≠ [] := by simp
              rw [lazyData_step F k _ hne', l2]
              have hlen : (join 9 (g :: gs)).length < k := by
                simp only [List.length_append, List.length_cons] at hfu
                omega
              simp only [e3 k hlen]
              simp [lazyNormData]

theorem numNormV_lazyNormV (v : Value) (hw : v.WellTyped) : numNormV (lazyNormV v) = numNormV v := by
  cases v with
  | int t n =>
    have hw' : t.lo ≤ n ∧ n ≤ t.hi := hw
    obtain ⟨a1, a2⟩ := intTy_bounds t
    obtain ⟨c, hc⟩ := canonInt_isSome n (by omega) (by omega)
    have e : lazyNormV (.int t n) = if n ≤ 2147483647 then .int .i32 n else .int .u32 n := rfl
    have e1 : ∀ t', numNormV (.int t' n) = c := by
      intro t'
      show (canonInt n).getD _ = c
      rw [hc]; rfl
    rw [e]
    by_cases h : n ≤ 2147483647
    · rw [if_pos h, e1, e1]
    · rw [if_neg h, e1, e1]
  | _ => rfl

end Noodles.Sam
