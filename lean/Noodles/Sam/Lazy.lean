import Noodles.Sam.Header
/-!
# The lazy `sam::Record` view of the optional fields

`sam::io::Reader::read_record` keeps the line and parses fields on access. Its optional-field
iterator is a second, independent parser for the same text as `parse_data` (Record.lean):

* `noodles-sam/src/record/data.rs` (`Data::iter`: `while !src.is_empty() { parse_field }`),
* `record/data/field.rs` (`parse_field`: tag, `:`, type, `:`, value, then a TAB or the end),
* `record/data/field/value.rs` (`A` one byte; `f` `parse_partial::<f32>`; `Z`/`H` the bytes up to
  the TAB, *unchecked*),
* `record/data/field/value/integer.rs` (`parse_partial::<i32>`, on overflow `parse_partial::<u32>`:
  the lazy view only ever yields `Int32` / `UInt32`),
* `record/data/field/value/array.rs` + `array/values.rs` — **as fixed by commit 3068e42**
  ("fix: sam lazy record failed on an empty array field followed by another field"): the array's
  bytes are split off at the TAB *first* and the optional `,` is consumed inside them. Before the
  fix the `,` was looked for in the rest of the whole line, so `XB:B:c<TAB>NH:i:1` — which the SAM
  writer emits for an empty array — failed with "invalid delimiter" (`lazyArray_prefix_witness`
  below shows the fixed framing accepting it). Elements are complete `lexical_core::parse`s of
  the `,`-separated pieces; an empty byte string after the optional `,` has no elements.

Unlike the eager reader the error kinds differ here (`UnexpectedEof` for a field cut short,
`InvalidData` otherwise), so both are modelled.
-/
namespace Noodles.Sam
open Noodles.Text

inductive LErr | eof | invalidData
deriving DecidableEq, Repr

/-- `integer.rs::parse_integer_value`. The `u32` retry happens only after `Error::Overflow`; after
any other failure of the `i32` parse the retry either fails too or reads zero digits and leaves a
byte that is not a field terminator, so trying it always gives the same final outcome. -/
def lazyInt (s : Bytes) : Option (Value × Bytes) :=
  match parsePartial true (-2147483648) 2147483647 s with
  | some (n, rest) => some (.int .i32 n, rest)
  | none =>
    match parsePartial false 0 4294967295 s with
    | some (n, rest) => some (.int .u32 n, rest)
    | none => none

def lazyIntElems (t : IntTy) : List Bytes → Option (List Int)
  | [] => some []
  | tok :: rest =>
    match parseComplete t.signed t.lo t.hi tok with
    | none => none
    | some v =>
      match lazyIntElems t rest with
      | some vs => some (v :: vs)
      | none => none

def lazyFloatElems (F : FloatFmt) : List Bytes → Option (List Nat)
  | [] => some []
  | tok :: rest =>
    match F.parse tok with
    | none => none
    | some v =>
      match lazyFloatElems F rest with
      | some vs => some (v :: vs)
      | none => none

/-- `array.rs::parse_array` (fixed) followed by iterating the values; input: the bytes after `B:` -/
def lazyArray (F : FloatFmt) (s : Bytes) : Except LErr (Value × Bytes) :=
  match s with
  | [] => .error .eof
  | st :: r =>
    if st ≠ 102 ∧ (subOf st).isNone then .error .invalidData
    else
      let tok := (takeValue r).1
      let rest := (takeValue r).2
      -- `maybe_consume_delimiter` on the field's own bytes
      let body : Option Bytes := match tok with
        | [] => some []
        | c :: b => if c = 44 then some b else none
      match body with
      | none => .error .invalidData
      | some b =>
        let pieces := if b.isEmpty then [] else splitOn 44 b
        if st = 102 then
          match lazyFloatElems F pieces with
          | some l => .ok (.farr l, rest)
          | none => .error .invalidData
        else
          match subOf st with
          | none => .error .invalidData
          | some t =>
            match lazyIntElems t pieces with
            | some l => .ok (.iarr t l, rest)
            | none => .error .invalidData

/-- `value.rs::parse_value` (+ element iteration for arrays): value and the unread rest -/
def lazyValue (F : FloatFmt) (ty : UInt8) (s : Bytes) : Except LErr (Value × Bytes) :=
  if ty = 65 then
    match s with
    | c :: rest => .ok (.char c, rest)
    | [] => .error .eof
  else if ty = 105 then
    match lazyInt s with
    | some p => .ok p
    | none => .error .invalidData
  else if ty = 102 then
    -- `parse_partial::<f32>` stops where the float stops; what follows must be the terminator
    match F.parse (takeValue s).1 with
    | some b => .ok (.float b, (takeValue s).2)
    | none => .error .invalidData
  else if ty = 90 then .ok (.str (takeValue s).1, (takeValue s).2)
  else if ty = 72 then .ok (.hex (takeValue s).1, (takeValue s).2)
  else if ty = 66 then lazyArray F s
  else .error .invalidData

/-- `field.rs::parse_field` -/
def lazyField (F : FloatFmt) (s : Bytes) : Except LErr ((Tag × Value) × Bytes) :=
  match s with
  | t0 :: t1 :: rest =>
    match rest with
    | [] => .error .eof
    | c1 :: rest =>
      if c1 ≠ 58 then .error .invalidData
      else match rest with
        | [] => .error .eof
        | ty :: rest =>
          if ¬(ty = 65 ∨ ty = 105 ∨ ty = 102 ∨ ty = 90 ∨ ty = 72 ∨ ty = 66) then .error .invalidData
          else match rest with
            | [] => .error .eof
            | c2 :: rest =>
              if c2 ≠ 58 then .error .invalidData
              else match lazyValue F ty rest with
                | .error e => .error e
                | .ok (v, rest) =>
                  match rest with
                  | [] => .ok (((t0, t1), v), [])
                  | b :: rest' => if b = 9 then .ok (((t0, t1), v), rest') else .error .invalidData
  | _ => .error .eof

/-- `Data::iter` collected (`fuel` ≥ length of the input) -/
def lazyData (F : FloatFmt) : Nat → Bytes → Except LErr (List (Tag × Value))
  | 0, _ => .error .invalidData
  | _ + 1, [] => .ok []
  | fuel + 1, b :: s =>
    match lazyField F (b :: s) with
    | .error e => .error e
    | .ok (p, rest) =>
      match lazyData F fuel rest with
      | .ok ps => .ok (p :: ps)
      | .error e => .error e

/-- what the lazy view makes of an integer: `Int32` if it fits, else `UInt32` -/
def lazyNormV : Value → Value
  | .int t n => if n ≤ 2147483647 then .int .i32 n else .int .u32 n
  | v => v

end Noodles.Sam
