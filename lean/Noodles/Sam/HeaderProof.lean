import Noodles.Sam.RecordProof
/-! Helper lemmas for the header theorems of `Props/C06.lean`. -/
namespace Noodles.Sam
open Noodles.Text

/-! ### what the writer emits, as data -/

def fieldBytes (t : Tag) (v : Bytes) : Bytes := 9 :: t.1 :: t.2 :: 58 :: v

def fieldsBytes (fs : List (Tag × Bytes)) : Bytes := fs.flatMap fun p => fieldBytes p.1 p.2

/-- a value that survives the line and field framing: non-empty, no TAB / LF / CR -/
def CleanV (v : Bytes) : Prop := v ≠ [] ∧ ∀ b ∈ v, b ≠ 9 ∧ b ≠ 10 ∧ b ≠ 13

/-- tag bytes that are no framing bytes -/
def CleanT (t : Tag) : Prop := (t.1 ≠ 9 ∧ t.1 ≠ 10 ∧ t.1 ≠ 13) ∧ (t.2 ≠ 9 ∧ t.2 ≠ 10 ∧ t.2 ≠ 13)

def CleanFs (fs : List (Tag × Bytes)) : Prop := ∀ p ∈ fs, CleanT p.1 ∧ CleanV p.2

theorem cleanV_of_all {p : UInt8 → Bool} (v : Bytes) (hne : v ≠ []) (h : v.all p = true)
    (h9 : p 9 = false) (h10 : p 10 = false) (h13 : p 13 = false) : CleanV v := by
  refine ⟨hne, fun b hb => ⟨?_, ?_, ?_⟩⟩ <;> intro e <;> subst e
  · have := List.all_eq_true.mp h _ hb; rw [h9] at this; cases this
  · have := List.all_eq_true.mp h _ hb; rw [h10] at this; cases this
  · have := List.all_eq_true.mp h _ hb; rw [h13] at this; cases this

theorem cleanV_hdrValue (v : Bytes) (h : validHdrValue v = true) : CleanV v := by
  simp only [validHdrValue, Bool.and_eq_true, Bool.not_eq_true'] at h
  exact cleanV_of_all v (by intro e; subst e; simp at h) h.2 (by decide) (by decide) (by decide)

theorem cleanT_hdrTag (t : Tag) (h : validHdrTag t = true) : CleanT t := by
  simp only [validHdrTag, Bool.and_eq_true] at h
  refine ⟨⟨?_, ?_, ?_⟩, ⟨?_, ?_, ?_⟩⟩ <;> intro e <;> rw [e] at h <;>
    simp [isAlpha, isAlnum, isDigit] at h

theorem cleanV_digits (v : Bytes) (hne : v ≠ []) (h : ∀ b ∈ v, isDigit b = true) : CleanV v := by
  refine ⟨hne, fun b hb => ⟨?_, ?_, ?_⟩⟩ <;> intro e <;> subst e <;>
    (have := h _ hb; simp [isDigit] at this)

theorem cleanV_printNat (n : Nat) : CleanV (printNat n) :=
  cleanV_digits _ (printNat_ne_nil n) (printNat_digits n)

theorem cleanV_rname (n : Bytes) (h : validRname n = true) : CleanV n := by
  cases n with
  | nil => simp [validRname] at h
  | cons b r =>
    simp only [validRname, Bool.and_eq_true] at h
    refine ⟨by simp, fun x hx => ?_⟩
    have hx' : isRnameChar x = true := by
      rcases List.mem_cons.mp hx with e | hx
      · subst e; exact h.1.2
      · exact List.all_eq_true.mp h.2 x hx
    refine ⟨?_, ?_, ?_⟩ <;> intro e <;> subst e <;> simp [isRnameChar, isGraphic] at hx'

def versionBytes (a b : Nat) : Bytes := printNat a ++ 46 :: printNat b

theorem cleanV_version (a b : Nat) : CleanV (versionBytes a b) := by
  refine ⟨by simp [versionBytes], fun x hx => ?_⟩
  simp only [versionBytes, List.mem_append, List.mem_cons] at hx
  rcases hx with h | h | h
  · exact (cleanV_printNat a).2 x h
  · subst h; decide
  · exact (cleanV_printNat b).2 x h

theorem writeHdrField_spec (t : Tag) (v b : Bytes) (h : writeHdrField t v = .ok b) :
    b = fieldBytes t v ∧ CleanT t ∧ CleanV v := by
  unfold writeHdrField at h
  split at h
  · rename_i ht
    split at h
    · rename_i hv'
      simp only [Except.ok.injEq] at h
      exact ⟨h.symm, cleanT_hdrTag t ht, cleanV_hdrValue v hv'⟩
    · cases h
  · cases h

theorem writeOthers_spec (o : Others) (b : Bytes) (h : writeOthers o = .ok b) :
    b = fieldsBytes o ∧ CleanFs o := by
  induction o generalizing b with
  | nil =>
    simp only [writeOthers, Except.ok.injEq] at h
    exact ⟨h.symm, by intro p hp; cases hp⟩
  | cons p rest ih =>
    obtain ⟨t, v⟩ := p
    simp only [writeOthers] at h
    cases hf : writeHdrField t v with
    | error e => rw [hf] at h; cases h
    | ok f =>
      rw [hf] at h
      cases hr : writeOthers rest with
      | error e => rw [hr] at h; cases h
      | ok r =>
        rw [hr] at h
        simp only [Except.ok.injEq] at h
        obtain ⟨e1, e2, e3⟩ := writeHdrField_spec t v f hf
        obtain ⟨i1, i2⟩ := ih r hr
        refine ⟨?_, ?_⟩
        · rw [← h, e1, i1]; simp [fieldsBytes]
        · intro q hq
          rcases List.mem_cons.mp hq with rfl | hq
          · exact ⟨e2, e3⟩
          · exact i2 q hq

/-! ### `mapFields` inverts `fieldsBytes` -/

theorem takeValue_append (v rest : Bytes) (hv : (9 : UInt8) ∉ v)
    (hr : rest = [] ∨ ∃ r, rest = 9 :: r) : takeValue (v ++ rest) = (v, rest) := by
  induction v with
  | nil =>
    rcases hr with rfl | ⟨r, rfl⟩ <;> simp [takeValue]
  | cons b r ih =>
    have hb : b ≠ 9 := fun h => hv (by simp [h])
    have hr' : (9 : UInt8) ∉ r := fun h => hv (List.mem_cons_of_mem _ h)
    simp [takeValue, hb, ih hr']

theorem fieldsBytes_shape (fs : List (Tag × Bytes)) :
    fieldsBytes fs = [] ∨ ∃ r, fieldsBytes fs = 9 :: r := by
  cases fs with
  | nil => exact Or.inl rfl
  | cons p rest =>
    exact Or.inr ⟨p.1.1 :: p.1.2 :: 58 :: (p.2 ++ fieldsBytes rest), by simp [fieldsBytes, fieldBytes]⟩

theorem mapFields_fieldsBytes (fs : List (Tag × Bytes)) (h : CleanFs fs) (fuel : Nat)
    (hf : (fieldsBytes fs).length < fuel) : mapFields fuel (fieldsBytes fs) = some fs := by
  induction fs generalizing fuel with
  | nil =>
    cases fuel with
    | zero => simp at hf
    | succ k => simp [fieldsBytes, mapFields]
  | cons p rest ih =>
    obtain ⟨t, v⟩ := p
    cases fuel with
    | zero => simp at hf
    | succ k =>
      have hs : fieldsBytes ((t, v) :: rest) = 9 :: t.1 :: t.2 :: 58 :: (v ++ fieldsBytes rest) := by
        simp [fieldsBytes, fieldBytes]
      have hv9 : (9 : UInt8) ∉ v := fun hm => ((h (t, v) (by simp)).2.2 9 hm).1 rfl
      have htv := takeValue_append v (fieldsBytes rest) hv9 (fieldsBytes_shape rest)
      have hlen : (fieldsBytes rest).length < k := by
        rw [hs] at hf
        simp only [List.length_cons, List.length_append] at hf
        omega
      rw [hs]
      simp only [mapFields, ne_eq, not_true_eq_false, if_false, htv]
      rw [ih (fun q hq => h q (List.mem_cons_of_mem _ hq)) k hlen]

/-! ### `foldFields` on duplicate-free fields -/

theorem insertOther_fresh (t : Tag) (v : Bytes) (o : Others) (h : ∀ p ∈ o, p.1 ≠ t) :
    insertOther t v o = (o ++ [(t, v)], false) := by
  induction o with
  | nil => rfl
  | cons q rest ih =>
    obtain ⟨t', v'⟩ := q
    have hne : t' ≠ t := h (t', v') (by simp)
    have := ih (fun p hp => h p (List.mem_cons_of_mem _ hp))
    simp [insertOther, hne, this]

theorem foldFields_others (dup : Bool) (isReq : Tag → Bool) (o : Others)
    (hnd : (o.map (·.1)).Nodup) (hns : ∀ p ∈ o, isReq p.1 = false) (hne : ∀ p ∈ o, p.2 ≠ [])
    (req : List (Tag × Bytes)) (oth0 : Others) (hdisj : ∀ p ∈ o, ∀ q ∈ oth0, q.1 ≠ p.1) :
    foldFields dup isReq o req oth0 = some (req, oth0 ++ o) := by
  induction o generalizing oth0 with
  | nil => simp [foldFields]
  | cons p rest ih =>
    obtain ⟨t, v⟩ := p
    have hv : v.isEmpty = false := by
      have := hne (t, v) (by simp)
      cases v with
      | nil => exact absurd rfl this
      | cons _ _ => rfl
    have hr : isReq t = false := hns (t, v) (by simp)
    have hfresh := insertOther_fresh t v oth0 (fun q hq => hdisj (t, v) (by simp) q hq)
    have hnd' : t ∉ rest.map (·.1) ∧ (rest.map (·.1)).Nodup := List.nodup_cons.mp hnd
    simp only [foldFields, hv, hr, hfresh, Bool.false_eq_true, if_false, Bool.false_and]
    rw [ih hnd'.2 (fun q hq => hns q (List.mem_cons_of_mem _ hq))
      (fun q hq => hne q (List.mem_cons_of_mem _ hq)) (oth0 ++ [(t, v)])]
    · simp
    · intro p hp q hq
      rcases List.mem_append.mp hq with hq | hq
      · exact hdisj p (List.mem_cons_of_mem _ hp) q hq
      · simp only [List.mem_singleton] at hq
        subst hq
        intro e
        have e' : t = p.1 := e
        exact hnd'.1 (by rw [e']; exact List.mem_map_of_mem hp)

theorem foldFields_req (dup : Bool) (isReq : Tag → Bool) (t : Tag) (v : Bytes)
    (rest req : List (Tag × Bytes)) (oth : Others) (hreq : isReq t = true) (hv : v ≠ [])
    (hfresh : ∀ p ∈ req, p.1 ≠ t) :
    foldFields dup isReq ((t, v) :: rest) req oth = foldFields dup isReq rest ((t, v) :: req) oth := by
  have hv' : v.isEmpty = false := by
    cases v with
    | nil => exact absurd rfl hv
    | cons _ _ => rfl
  have hany : req.any (fun p => p.1 == t) = false := by
    rw [List.any_eq_false]; intro p hp; simpa using hfresh p hp
  have hfilter : req.filter (fun p => p.1 != t) = req := by
    rw [List.filter_eq_self]; intro p hp; simpa using hfresh p hp
  simp [foldFields, hv', hreq, hany, hfilter]

/-! ### versions -/

theorem not_mem_digits (c : UInt8) (hc : isDigit c = false) (n : Nat) : c ∉ printNat n := by
  intro hm; rw [printNat_digits n c hm] at hc; cases hc

theorem parseVersion_versionBytes (a b : Nat) (ha : a < 4294967296) (hb : b < 4294967296) :
    parseVersion (versionBytes a b) = some (a, b) := by
  unfold parseVersion versionBytes
  rw [splitOn_append_delim 46 _ (not_mem_digits 46 (by decide) a),
    splitOn_free 46 _ (not_mem_digits 46 (by decide) b)]
  simp [join, parseU32_print a ha, parseU32_print b hb]

/-! ### each line kind is parsed back to its record -/

theorem cleanT_VN : CleanT VN := by unfold CleanT VN; decide
theorem cleanT_SN : CleanT SN := by unfold CleanT SN; decide
theorem cleanT_LN : CleanT LN := by unfold CleanT LN; decide
theorem cleanT_ID : CleanT ID := by unfold CleanT ID; decide

theorem parseHRecord_hd (dup : Bool) (a b : Nat) (ha : a < 4294967296) (hb : b < 4294967296)
    (o : Others) (hc : CleanFs o) (hok : OthersOk (· == VN) o) :
    parseHRecord dup (64 :: 72 :: 68 :: fieldsBytes ((VN, versionBytes a b) :: o))
      = some (.hd ⟨a, b, o⟩) := by
  have hcl : CleanFs ((VN, versionBytes a b) :: o) := by
    intro p hp
    rcases List.mem_cons.mp hp with rfl | hp
    · exact ⟨cleanT_VN, cleanV_version a b⟩
    · exact hc p hp
  have hm := mapFields_fieldsBytes _ hcl ((fieldsBytes ((VN, versionBytes a b) :: o)).length + 1) (by omega)
  have hpv := parseVersion_versionBytes a b ha hb
  have hall : ((VN, versionBytes a b) :: o).all (fun p => p.1 != VN || (parseVersion p.2).isSome) = true := by
    rw [List.all_eq_true]
    intro p hp
    rcases List.mem_cons.mp hp with rfl | hp
    · simp [hpv]
    · have := hok.nonstd p hp
      simp only [beq_eq_false_iff_ne, ne_eq] at this
      simp [this]
  have hfold : foldFields dup (· == VN) ((VN, versionBytes a b) :: o) [] []
      = some ([(VN, versionBytes a b)], o) := by
    rw [foldFields_req dup _ VN _ o [] [] (by simp) (cleanV_version a b).1 (by simp)]
    have := foldFields_others dup (· == VN) o hok.nodup hok.nonstd (fun p hp => (hc p hp).2.1)
      [(VN, versionBytes a b)] [] (by simp)
    simpa using this
  unfold parseHRecord
  simp only [hm]
  rw [if_neg (by decide), if_pos ⟨trivial, trivial⟩, if_pos hall, hfold]
  simp [lookupTag, hpv]

theorem parseHRecord_sq (dup : Bool) (name : Bytes) (len : Nat) (hn : CleanV name)
    (hl0 : 0 < len) (hl : len < 18446744073709551616)
    (o : Others) (hc : CleanFs o) (hok : OthersOk (fun t => t == SN || t == LN) o) :
    parseHRecord dup (64 :: 83 :: 81 :: fieldsBytes ((SN, name) :: (LN, printNat len) :: o))
      = some (.sq ⟨name, len, o⟩) := by
  have hcl : CleanFs ((SN, name) :: (LN, printNat len) :: o) := by
    intro p hp
    rcases List.mem_cons.mp hp with rfl | hp
    · exact ⟨cleanT_SN, hn⟩
    · rcases List.mem_cons.mp hp with rfl | hp
      · exact ⟨cleanT_LN, cleanV_printNat len⟩
      · exact hc p hp
  have hm := mapFields_fieldsBytes _ hcl
    ((fieldsBytes ((SN, name) :: (LN, printNat len) :: o)).length + 1) (by omega)
  have hpl := parseUsize_print len hl
  have hall : ((SN, name) :: (LN, printNat len) :: o).all
      (fun p => p.1 != LN || ((parseUsize p.2).map (· != 0)).getD false) = true := by
    rw [List.all_eq_true]
    intro p hp
    rcases List.mem_cons.mp hp with rfl | hp
    · have : (SN != LN) = true := by decide
      simp [this]
    · rcases List.mem_cons.mp hp with rfl | hp
      · have : len ≠ 0 := by omega
        simp [hpl, this]
      · have := hok.nonstd p hp
        simp only [Bool.or_eq_false_iff, beq_eq_false_iff_ne, ne_eq] at this
        simp [this.2]
  have hfold : foldFields dup (fun t => t == SN || t == LN) ((SN, name) :: (LN, printNat len) :: o) [] []
      = some ([(LN, printNat len), (SN, name)], o) := by
    rw [foldFields_req dup _ SN _ _ [] [] (by decide) hn.1 (by simp),
      foldFields_req dup _ LN _ _ _ [] (by decide) (cleanV_printNat len).1
        (by intro p hp; simp only [List.mem_singleton] at hp; subst hp; show SN ≠ LN; decide)]
    have := foldFields_others dup (fun t => t == SN || t == LN) o hok.nodup hok.nonstd
      (fun p hp => (hc p hp).2.1) [(LN, printNat len), (SN, name)] [] (by simp)
    simpa using this
  unfold parseHRecord
  simp only [hm]
  rw [if_neg (by decide), if_neg (by decide), if_pos ⟨trivial, trivial⟩, if_pos hall, hfold]
  have e1 : lookupTag SN [(LN, printNat len), (SN, name)] = some name := by
    simp [lookupTag, List.find?, show (LN == SN) = false by decide]
  have e2 : lookupTag LN [(LN, printNat len), (SN, name)] = some (printNat len) := by
    simp [lookupTag, List.find?]
  simp [e1, e2, hpl]

theorem parseHRecord_id (dup : Bool) (k0 : UInt8) (hk : k0 = 82 ∨ k0 = 80) (id : Bytes)
    (hi : CleanV id) (o : Others) (hc : CleanFs o) (hok : OthersOk (· == ID) o) :
    parseHRecord dup (64 :: k0 :: 71 :: fieldsBytes ((ID, id) :: o))
      = some (if k0 = 82 then .rg ⟨id, o⟩ else .pg ⟨id, o⟩) := by
  have hcl : CleanFs ((ID, id) :: o) := by
    intro p hp
    rcases List.mem_cons.mp hp with rfl | hp
    · exact ⟨cleanT_ID, hi⟩
    · exact hc p hp
  have hm := mapFields_fieldsBytes _ hcl ((fieldsBytes ((ID, id) :: o)).length + 1) (by omega)
  have hfold : foldFields dup (· == ID) ((ID, id) :: o) [] [] = some ([(ID, id)], o) := by
    rw [foldFields_req dup _ ID _ o [] [] (by simp) hi.1 (by simp)]
    have := foldFields_others dup (· == ID) o hok.nodup hok.nonstd (fun p hp => (hc p hp).2.1)
      [(ID, id)] [] (by simp)
    simpa using this
  unfold parseHRecord
  simp only [hm]
  rcases hk with rfl | rfl
  · rw [if_neg (by decide), if_neg (by decide), if_neg (by decide), if_pos (by decide), hfold]
    simp [lookupTag]
  · rw [if_neg (by decide), if_neg (by decide), if_neg (by decide), if_pos (by decide), hfold]
    simp [lookupTag]

theorem parseHRecord_co (dup : Bool) (c : Bytes) :
    parseHRecord dup (64 :: 67 :: 79 :: 9 :: c) = some (.co c) := by
  simp [parseHRecord]

/-! ### the text as a list of lines -/

def hdLine (l : HdLine) : Bytes :=
  64 :: 72 :: 68 :: fieldsBytes ((VN, versionBytes l.major l.minor) :: l.others)
def sqLine (l : SqLine) : Bytes :=
  64 :: 83 :: 81 :: fieldsBytes ((SN, l.name) :: (LN, printNat l.len) :: l.others)
def idLine (k0 : UInt8) (l : IdLine) : Bytes := 64 :: k0 :: 71 :: fieldsBytes ((ID, l.id) :: l.others)
def coLine (c : Bytes) : Bytes := 64 :: 67 :: 79 :: 9 :: c

def hdrLines (h : Hdr) : List Bytes :=
  (match h.hd with | some l => [hdLine l] | none => []) ++ h.sq.map sqLine ++ h.rg.map (idLine 82)
    ++ h.pg.map (idLine 80) ++ h.co.map coLine

def unlines (ls : List Bytes) : Bytes := ls.flatMap fun l => l ++ [10]

theorem writeHd_spec (l : HdLine) (b : Bytes) (h : writeHd l = .ok b) :
    b = hdLine l ++ [10] ∧ CleanFs l.others := by
  unfold writeHd at h
  cases ho : writeOthers l.others with
  | error e => rw [ho] at h; cases h
  | ok o =>
    rw [ho] at h
    simp only [Except.ok.injEq] at h
    obtain ⟨e1, e2⟩ := writeOthers_spec _ _ ho
    refine ⟨?_, e2⟩
    rw [← h, e1]
    simp [hdLine, fieldsBytes, fieldBytes, versionBytes, VN]

theorem rname_no_nul (n : Bytes) (h : validRname n = true) : (0 : UInt8) ∉ n := by
  cases n with
  | nil => simp
  | cons b r =>
    simp only [validRname, Bool.and_eq_true] at h
    intro hm
    have hx' : isRnameChar 0 = true := by
      rcases List.mem_cons.mp hm with e | hx
      · rw [e]; exact h.1.2
      · exact List.all_eq_true.mp h.2 0 hx
    simp [isRnameChar, isGraphic] at hx'

theorem writeSq_valid (l : SqLine) (b : Bytes) (h : writeSq l = .ok b) : validRname l.name = true := by
  unfold writeSq at h
  split at h
  · assumption
  · cases h

theorem writeSq_spec (l : SqLine) (b : Bytes) (h : writeSq l = .ok b) :
    b = sqLine l ++ [10] ∧ CleanV l.name ∧ l.len ≤ 2147483647 ∧ CleanFs l.others := by
  unfold writeSq at h
  split at h
  · rename_i hn
    split at h
    · rename_i hl
      cases ho : writeOthers l.others with
      | error e => rw [ho] at h; cases h
      | ok o =>
        rw [ho] at h
        simp only [Except.ok.injEq] at h
        obtain ⟨e1, e2⟩ := writeOthers_spec _ _ ho
        refine ⟨?_, cleanV_rname _ hn, hl, e2⟩
        rw [← h, e1]
        simp [sqLine, fieldsBytes, fieldBytes, SN, LN]
    · cases h
  · cases h

theorem writeIdLine_spec (k0 : UInt8) (l : IdLine) (b : Bytes) (h : writeIdLine k0 71 l = .ok b) :
    b = idLine k0 l ++ [10] ∧ CleanV l.id ∧ CleanFs l.others := by
  unfold writeIdLine at h
  cases hf : writeHdrField ID l.id with
  | error e => rw [hf] at h; cases h
  | ok f =>
    rw [hf] at h
    cases ho : writeOthers l.others with
    | error e => rw [ho] at h; cases h
    | ok o =>
      rw [ho] at h
      simp only [Except.ok.injEq] at h
      obtain ⟨e1, e2⟩ := writeOthers_spec _ _ ho
      obtain ⟨f1, _, f3⟩ := writeHdrField_spec _ _ _ hf
      refine ⟨?_, f3, e2⟩
      rw [← h, e1, f1]
      simp [idLine, fieldsBytes, fieldBytes]

theorem writeAll_spec {α : Type} (w : α → Except Err Bytes) (line : α → Bytes) (P : α → Prop)
    (hw : ∀ a b, w a = .ok b → b = line a ++ [10] ∧ P a) (ls : List α) (b : Bytes)
    (h : writeAll w ls = .ok b) : b = unlines (ls.map line) ∧ ∀ a ∈ ls, P a := by
  induction ls generalizing b with
  | nil =>
    simp only [writeAll, Except.ok.injEq] at h
    exact ⟨by rw [← h]; rfl, by intro a ha; cases ha⟩
  | cons a rest ih =>
    simp only [writeAll] at h
    cases ha : w a with
    | error e => rw [ha] at h; cases h
    | ok x =>
      rw [ha] at h
      cases hr : writeAll w rest with
      | error e => rw [hr] at h; cases h
      | ok y =>
        rw [hr] at h
        simp only [Except.ok.injEq] at h
        obtain ⟨e1, e2⟩ := hw a x ha
        obtain ⟨i1, i2⟩ := ih y hr
        refine ⟨?_, ?_⟩
        · rw [← h, e1, i1]; simp [unlines]
        · intro z hz
          rcases List.mem_cons.mp hz with rfl | hz
          · exact e2
          · exact i2 z hz

theorem unlines_append (a b : List Bytes) : unlines (a ++ b) = unlines a ++ unlines b := by
  simp [unlines]

/-- what a successful `headerWrite` tells -/
theorem headerWrite_spec (h : Hdr) (text : Bytes) (hw : headerWrite h = .ok text) :
    text = unlines (hdrLines h) ∧
    (∀ l, h.hd = some l → CleanFs l.others) ∧
    (∀ l ∈ h.sq, CleanV l.name ∧ l.len ≤ 2147483647 ∧ CleanFs l.others) ∧
    (∀ l ∈ h.rg, CleanV l.id ∧ CleanFs l.others) ∧
    (∀ l ∈ h.pg, CleanV l.id ∧ CleanFs l.others) := by
  unfold headerWrite at hw
  obtain ⟨hd, h1, t1⟩ := bind_ok _ _ _ hw
  obtain ⟨sq, h2, t2⟩ := bind_ok _ _ _ t1
  obtain ⟨rg, h3, t3⟩ := bind_ok _ _ _ t2
  obtain ⟨pg, h4, t4⟩ := bind_ok _ _ _ t3
  clear hw t1 t2 t3
  simp only [pure, Except.pure, Except.ok.injEq] at t4
  obtain ⟨s1, s2⟩ := writeAll_spec writeSq sqLine _ writeSq_spec _ _ h2
  obtain ⟨r1, r2⟩ := writeAll_spec (writeIdLine 82 71) (idLine 82) _ (writeIdLine_spec 82) _ _ h3
  obtain ⟨p1, p2⟩ := writeAll_spec (writeIdLine 80 71) (idLine 80) _ (writeIdLine_spec 80) _ _ h4
  have hco : h.co.flatMap writeCo = unlines (h.co.map coLine) := by
    have e : writeCo = fun a => coLine a ++ [10] := by funext a; simp [writeCo, coLine]
    rw [e]; simp [unlines, List.flatMap_map]
  cases hhd : h.hd with
  | none =>
    rw [hhd] at h1
    simp only [writeHdOpt, Except.ok.injEq] at h1
    refine ⟨?_, ?_, s2, r2, p2⟩
    · rw [← t4, ← h1, s1, r1, p1, hco]
      simp [hdrLines, hhd, unlines_append]
    · intro l e; cases e
  | some l =>
    rw [hhd] at h1
    simp only [writeHdOpt] at h1
    obtain ⟨e1, e2⟩ := writeHd_spec l hd h1
    refine ⟨?_, ?_, s2, r2, p2⟩
    · rw [← t4, e1, s1, r1, p1, hco]
      simp [hdrLines, hhd, unlines]
    · intro l' e; cases e; exact e2

/-! ### splitting the text back into lines -/

/-- a line that `read_header` takes whole and unchanged -/
def GoodLine (l : Bytes) : Prop := (∃ r, l = 64 :: r) ∧ (10 : UInt8) ∉ l ∧ l.getLast? ≠ some 13

theorem takeLine_append (l rest : Bytes) (h : (10 : UInt8) ∉ l) :
    takeLine (l ++ 10 :: rest) = (l, true, rest) := by
  induction l with
  | nil => simp [takeLine]
  | cons b r ih =>
    have hb : b ≠ 10 := fun e => h (by simp [e])
    have hr : (10 : UInt8) ∉ r := fun e => h (List.mem_cons_of_mem _ e)
    simp [takeLine, hb, ih hr]

theorem stripEol_good (l : Bytes) (h : l.getLast? ≠ some 13) : stripEol l true = l := by
  unfold stripEol
  rw [if_pos rfl]
  cases hl : l.getLast? with
  | none => rfl
  | some z =>
    by_cases hz : z = 13
    · subst hz; exact absurd hl h
    · split
      · rename_i e; exact absurd (Option.some.inj e) hz
      · rfl

theorem headerLines_unlines (ls : List Bytes) (h : ∀ l ∈ ls, GoodLine l) (fuel : Nat)
    (hf : (unlines ls).length < fuel) : headerLines fuel (unlines ls) = ls := by
  induction ls generalizing fuel with
  | nil =>
    cases fuel with
    | zero => simp at hf
    | succ k => simp [unlines, headerLines]
  | cons l rest ih =>
    cases fuel with
    | zero => simp at hf
    | succ k =>
      obtain ⟨⟨r, hr⟩, h10, h13⟩ := h l (by simp)
      have hs : unlines (l :: rest) = 64 :: (r ++ 10 :: unlines rest) := by
        simp [unlines, hr]
      have htl : takeLine (64 :: (r ++ 10 :: unlines rest)) = (l, true, unlines rest) := by
        have := takeLine_append l (unlines rest) h10
        rw [hr] at this ⊢
        simpa using this
      have hlen : (unlines rest).length < k := by
        rw [hs] at hf
        simp only [List.length_cons, List.length_append] at hf
        omega
      rw [hs]
      simp only [headerLines, ne_eq, not_true_eq_false, if_false, htl, stripEol_good l h13]
      rw [ih (fun x hx => h x (List.mem_cons_of_mem _ hx)) k hlen]

theorem getLast?_append_ne (a b : Bytes) (hb : b ≠ []) : (a ++ b).getLast? = b.getLast? := by
  rw [List.getLast?_append]
  cases hl : b.getLast? with
  | none => exact absurd (List.getLast?_eq_none_iff.mp hl) hb
  | some z => rfl

theorem cleanV_last (v : Bytes) (h : CleanV v) : ∃ z, v.getLast? = some z ∧ z ≠ 13 := by
  cases hl : v.getLast? with
  | none => exact absurd (List.getLast?_eq_none_iff.mp hl) h.1
  | some z => exact ⟨z, rfl, (h.2 z (List.mem_of_getLast? hl)).2.2⟩

theorem fieldsBytes_last (fs : List (Tag × Bytes)) (hne : fs ≠ []) (h : CleanFs fs) :
    ∃ z, (fieldsBytes fs).getLast? = some z ∧ z ≠ 13 := by
  induction fs with
  | nil => exact absurd rfl hne
  | cons p rest ih =>
    cases rest with
    | nil =>
      obtain ⟨z, hz, hz'⟩ := cleanV_last p.2 (h p (by simp)).2
      refine ⟨z, ?_, hz'⟩
      have e : fieldsBytes [p] = [9, p.1.1, p.1.2, 58] ++ p.2 := by simp [fieldsBytes, fieldBytes]
      rw [e, getLast?_append_ne _ _ (h p (by simp)).2.1, hz]
    | cons q rest' =>
      obtain ⟨z, hz, hz'⟩ := ih (by simp) (fun x hx => h x (List.mem_cons_of_mem _ hx))
      refine ⟨z, ?_, hz'⟩
      have e : fieldsBytes (p :: q :: rest') = fieldBytes p.1 p.2 ++ fieldsBytes (q :: rest') := by
        simp [fieldsBytes]
      have hne' : fieldsBytes (q :: rest') ≠ [] := by simp [fieldsBytes, fieldBytes]
      rw [e, getLast?_append_ne _ _ hne', hz]

theorem fieldsBytes_no_lf (fs : List (Tag × Bytes)) (h : CleanFs fs) : (10 : UInt8) ∉ fieldsBytes fs := by
  intro hm
  obtain ⟨p, hp, hb⟩ := List.mem_flatMap.mp hm
  obtain ⟨⟨t1, t2⟩, hv⟩ := h p hp
  simp only [fieldBytes, List.mem_cons] at hb
  rcases hb with e | e | e | e | e
  · cases e
  · exact t1.2.1 e.symm
  · exact t2.2.1 e.symm
  · cases e
  · exact (hv.2 10 e).2.1 rfl

theorem goodLine_map (k0 k1 : UInt8) (hk0 : k0 ≠ 10) (hk1 : k1 ≠ 10) (fs : List (Tag × Bytes))
    (hne : fs ≠ []) (h : CleanFs fs) : GoodLine (64 :: k0 :: k1 :: fieldsBytes fs) := by
  refine ⟨⟨_, rfl⟩, ?_, ?_⟩
  · intro hm
    simp only [List.mem_cons] at hm
    rcases hm with e | e | e | e
    · cases e
    · exact hk0 e.symm
    · exact hk1 e.symm
    · exact fieldsBytes_no_lf fs h e
  · obtain ⟨z, hz, hz'⟩ := fieldsBytes_last fs hne h
    have e : (64 :: k0 :: k1 :: fieldsBytes fs) = [64, k0, k1] ++ fieldsBytes fs := rfl
    have hne' : fieldsBytes fs ≠ [] := by
      intro e'; rw [e'] at hz; cases hz
    rw [e, getLast?_append_ne _ _ hne', hz]
    intro e'; exact hz' (Option.some.inj e')

theorem goodLine_co (c : Bytes) (h10 : (10 : UInt8) ∉ c) (h13 : c.getLast? ≠ some 13) :
    GoodLine (coLine c) := by
  refine ⟨⟨_, rfl⟩, ?_, ?_⟩
  · intro hm
    simp only [coLine, List.mem_cons] at hm
    rcases hm with e | e | e | e | e
    · cases e
    · cases e
    · cases e
    · cases e
    · exact h10 e
  · cases c with
    | nil => simp [coLine]
    | cons b r =>
      have e : coLine (b :: r) = [64, 67, 79, 9] ++ (b :: r) := rfl
      rw [e, getLast?_append_ne _ _ (by simp)]
      exact h13

/-! ### the parser's state machine over the lines -/

theorem parseLines_append (a b : List Bytes) (st : PState) :
    parseLines (a ++ b) st = (parseLines a st).bind (parseLines b) := by
  induction a generalizing st with
  | nil => simp [parseLines]
  | cons l rest ih =>
    simp only [List.cons_append, parseLines]
    cases parsePartialLine st l with
    | none => simp
    | some st' => simp [ih]

theorem step_sq (st : PState) (l : SqLine)
    (hrec : ∀ dup, parseHRecord dup (sqLine l) = some (.sq l))
    (hfresh : ∀ x ∈ st.h.sq, x.name ≠ l.name) :
    parsePartialLine st (sqLine l) = some ⟨st.dup, { st.h with sq := st.h.sq ++ [l] }⟩ := by
  have hany : st.h.sq.any (fun x => x.name == l.name) = false := by
    rw [List.any_eq_false]; intro x hx; simpa using hfresh x hx
  have hev : extractVersion (sqLine l) = none := by simp [sqLine, extractVersion]
  simp [parsePartialLine, hev, hrec, hany]

theorem step_rg (st : PState) (l : IdLine)
    (hrec : ∀ dup, parseHRecord dup (idLine 82 l) = some (.rg l))
    (hfresh : ∀ x ∈ st.h.rg, x.id ≠ l.id) :
    parsePartialLine st (idLine 82 l) = some ⟨st.dup, { st.h with rg := st.h.rg ++ [l] }⟩ := by
  have hany : st.h.rg.any (fun x => x.id == l.id) = false := by
    rw [List.any_eq_false]; intro x hx; simpa using hfresh x hx
  have hev : extractVersion (idLine 82 l) = none := by simp [idLine, extractVersion]
  simp [parsePartialLine, hev, hrec, hany]

theorem step_pg (st : PState) (l : IdLine)
    (hrec : ∀ dup, parseHRecord dup (idLine 80 l) = some (.pg l))
    (hfresh : ∀ x ∈ st.h.pg, x.id ≠ l.id) :
    parsePartialLine st (idLine 80 l) = some ⟨st.dup, { st.h with pg := st.h.pg ++ [l] }⟩ := by
  have hany : st.h.pg.any (fun x => x.id == l.id) = false := by
    rw [List.any_eq_false]; intro x hx; simpa using hfresh x hx
  have hev : extractVersion (idLine 80 l) = none := by simp [idLine, extractVersion]
  simp [parsePartialLine, hev, hrec, hany]

theorem step_co (st : PState) (c : Bytes) :
    parsePartialLine st (coLine c) = some ⟨st.dup, { st.h with co := st.h.co ++ [c] }⟩ := by
  have hev : extractVersion (coLine c) = none := by simp [coLine, extractVersion]
  have hrec : ∀ dup, parseHRecord dup (coLine c) = some (.co c) := fun dup => parseHRecord_co dup c
  simp [parsePartialLine, hev, hrec]

theorem step_hd (l : HdLine) (hrec : ∀ dup, parseHRecord dup (hdLine l) = some (.hd l)) :
    ∃ d, parsePartialLine {} (hdLine l) = some ⟨d, { Hdr.empty with hd := some l }⟩ := by
  simp only [parsePartialLine, hrec]
  have he : Hdr.empty.isEmpty = true := rfl
  exact ⟨_, by rw [if_pos he]⟩

theorem parseLines_sq (ls : List SqLine) (st : PState)
    (hrec : ∀ l ∈ ls, ∀ dup, parseHRecord dup (sqLine l) = some (.sq l))
    (hnd : (st.h.sq.map (·.name) ++ ls.map (·.name)).Nodup) :
    parseLines (ls.map sqLine) st = some ⟨st.dup, { st.h with sq := st.h.sq ++ ls }⟩ := by
  induction ls generalizing st with
  | nil => simp [parseLines]
  | cons l rest ih =>
    have hd := List.nodup_append.mp hnd
    have hfresh : ∀ x ∈ st.h.sq, x.name ≠ l.name := fun x hx =>
      hd.2.2 x.name (List.mem_map_of_mem hx) l.name (by simp)
    simp only [List.map_cons, parseLines, step_sq st l (hrec l (by simp)) hfresh]
    rw [ih _ (fun x hx => hrec x (List.mem_cons_of_mem _ hx)) (by simpa [List.append_assoc] using hnd)]
    simp

theorem parseLines_rg (ls : List IdLine) (st : PState)
    (hrec : ∀ l ∈ ls, ∀ dup, parseHRecord dup (idLine 82 l) = some (.rg l))
    (hnd : (st.h.rg.map (·.id) ++ ls.map (·.id)).Nodup) :
    parseLines (ls.map (idLine 82)) st = some ⟨st.dup, { st.h with rg := st.h.rg ++ ls }⟩ := by
  induction ls generalizing st with
  | nil => simp [parseLines]
  | cons l rest ih =>
    have hd := List.nodup_append.mp hnd
    have hfresh : ∀ x ∈ st.h.rg, x.id ≠ l.id := fun x hx =>
      hd.2.2 x.id (List.mem_map_of_mem hx) l.id (by simp)
    simp only [List.map_cons, parseLines, step_rg st l (hrec l (by simp)) hfresh]
    rw [ih _ (fun x hx => hrec x (List.mem_cons_of_mem _ hx)) (by simpa [List.append_assoc] using hnd)]
    simp

theorem parseLines_pg (ls : List IdLine) (st : PState)
    (hrec : ∀ l ∈ ls, ∀ dup, parseHRecord dup (idLine 80 l) = some (.pg l))
    (hnd : (st.h.pg.map (·.id) ++ ls.map (·.id)).Nodup) :
    parseLines (ls.map (idLine 80)) st = some ⟨st.dup, { st.h with pg := st.h.pg ++ ls }⟩ := by
  induction ls generalizing st with
  | nil => simp [parseLines]
  | cons l rest ih =>
    have hd := List.nodup_append.mp hnd
    have hfresh : ∀ x ∈ st.h.pg, x.id ≠ l.id := fun x hx =>
      hd.2.2 x.id (List.mem_map_of_mem hx) l.id (by simp)
    simp only [List.map_cons, parseLines, step_pg st l (hrec l (by simp)) hfresh]
    rw [ih _ (fun x hx => hrec x (List.mem_cons_of_mem _ hx)) (by simpa [List.append_assoc] using hnd)]
    simp

theorem parseLines_co (cs : List Bytes) (st : PState) :
    parseLines (cs.map coLine) st = some ⟨st.dup, { st.h with co := st.h.co ++ cs }⟩ := by
  induction cs generalizing st with
  | nil => simp [parseLines]
  | cons c rest ih =>
    simp only [List.map_cons, parseLines, step_co st c]
    rw [ih]
    simp

/-! ### the header round trip -/

theorem hdrLines_good (h : Hdr) (hwf : HdrWF h) (text : Bytes) (hw : headerWrite h = .ok text) :
    ∀ l ∈ hdrLines h, GoodLine l := by
  obtain ⟨htext, chd, csq, crg, cpg⟩ := headerWrite_spec h text hw
  intro l hl
  simp only [hdrLines, List.mem_append, List.mem_map] at hl
  rcases hl with (((hl | ⟨x, hx, rfl⟩) | ⟨x, hx, rfl⟩) | ⟨x, hx, rfl⟩) | ⟨c, hc, rfl⟩
  · cases hhd : h.hd with
    | none => rw [hhd] at hl; cases hl
    | some x =>
      rw [hhd] at hl
      simp only [List.mem_singleton] at hl
      subst hl
      refine goodLine_map 72 68 (by decide) (by decide) _ (by simp) ?_
      intro p hp
      rcases List.mem_cons.mp hp with rfl | hp
      · exact ⟨cleanT_VN, cleanV_version _ _⟩
      · exact chd x hhd p hp
  · obtain ⟨a, _, c⟩ := csq x hx
    refine goodLine_map 83 81 (by decide) (by decide) _ (by simp) ?_
    intro p hp
    rcases List.mem_cons.mp hp with rfl | hp
    · exact ⟨cleanT_SN, a⟩
    · rcases List.mem_cons.mp hp with rfl | hp
      · exact ⟨cleanT_LN, cleanV_printNat _⟩
      · exact c p hp
  · obtain ⟨a, c⟩ := crg x hx
    refine goodLine_map 82 71 (by decide) (by decide) _ (by simp) ?_
    intro p hp
    rcases List.mem_cons.mp hp with rfl | hp
    · exact ⟨cleanT_ID, a⟩
    · exact c p hp
  · obtain ⟨a, c⟩ := cpg x hx
    refine goodLine_map 80 71 (by decide) (by decide) _ (by simp) ?_
    intro p hp
    rcases List.mem_cons.mp hp with rfl | hp
    · exact ⟨cleanT_ID, a⟩
    · exact c p hp
  · exact goodLine_co c (hwf.co c hc).1 (hwf.co c hc).2

theorem parseLines_hdrLines (h : Hdr) (hwf : HdrWF h) (text : Bytes) (hw : headerWrite h = .ok text) :
    ∃ d, parseLines (hdrLines h) {} = some ⟨d, h⟩ := by
  obtain ⟨htext, chd, csq, crg, cpg⟩ := headerWrite_spec h text hw
  -- every line parses to its record
  have rsq : ∀ l ∈ h.sq, ∀ dup, parseHRecord dup (sqLine l) = some (.sq l) := by
    intro l hl dup
    obtain ⟨a, b, c⟩ := csq l hl
    exact parseHRecord_sq dup l.name l.len a (hwf.sq l hl).1 (by omega) l.others c (hwf.sq l hl).2
  have rrg : ∀ l ∈ h.rg, ∀ dup, parseHRecord dup (idLine 82 l) = some (.rg l) := by
    intro l hl dup
    obtain ⟨a, c⟩ := crg l hl
    have := parseHRecord_id dup 82 (Or.inl rfl) l.id a l.others c (hwf.rg l hl)
    simp only [if_true] at this
    exact this
  have rpg : ∀ l ∈ h.pg, ∀ dup, parseHRecord dup (idLine 80 l) = some (.pg l) := by
    intro l hl dup
    obtain ⟨a, c⟩ := cpg l hl
    have := parseHRecord_id dup 80 (Or.inr rfl) l.id a l.others c (hwf.pg l hl)
    rw [if_neg (by decide)] at this
    exact this
  -- the state machine
  have tail : ∀ st : PState, st.h.sq = [] → st.h.rg = [] → st.h.pg = [] → st.h.co = [] →
      parseLines (h.sq.map sqLine ++ h.rg.map (idLine 82) ++ h.pg.map (idLine 80) ++ h.co.map coLine) st
        = some ⟨st.dup, { st.h with sq := h.sq, rg := h.rg, pg := h.pg, co := h.co }⟩ := by
    intro st e1 e2 e3 e4
    rw [parseLines_append, parseLines_append, parseLines_append,
      parseLines_sq h.sq st rsq (by rw [e1]; simpa using hwf.sqNames)]
    simp only [Option.bind_some]
    rw [parseLines_rg h.rg _ rrg (by simp only [e2]; simpa using hwf.rgIds)]
    simp only [Option.bind_some]
    rw [parseLines_pg h.pg _ rpg (by simp only [e3]; simpa using hwf.pgIds)]
    simp only [Option.bind_some]
    rw [parseLines_co]
    simp [e1, e2, e3, e4]
  cases hhd : h.hd with
  | none =>
    have e : hdrLines h = h.sq.map sqLine ++ h.rg.map (idLine 82) ++ h.pg.map (idLine 80)
        ++ h.co.map coLine := by simp [hdrLines, hhd]
    rw [e, tail {} rfl rfl rfl rfl]
    refine ⟨false, ?_⟩
    cases h
    simp_all [Hdr.empty]
  | some x =>
    have e : hdrLines h = [hdLine x] ++ (h.sq.map sqLine ++ h.rg.map (idLine 82)
        ++ h.pg.map (idLine 80) ++ h.co.map coLine) := by simp [hdrLines, hhd]
    obtain ⟨b1, b2, b3⟩ := hwf.hd x hhd
    have rhd : ∀ dup, parseHRecord dup (hdLine x) = some (.hd x) := fun dup =>
      parseHRecord_hd dup x.major x.minor b1 b2 x.others (chd x hhd) b3
    obtain ⟨d, hd⟩ := step_hd x rhd
    rw [e, parseLines_append]
    simp only [parseLines, hd, Option.bind_some]
    rw [tail _ rfl rfl rfl rfl]
    refine ⟨d, ?_⟩
    cases h
    simp_all [Hdr.empty]


theorem headerParse_headerWrite (h : Hdr) (hwf : HdrWF h) (text : Bytes)
    (hw : headerWrite h = .ok text) : headerParse text = .ok h := by
  obtain ⟨htext, _⟩ := headerWrite_spec h text hw
  obtain ⟨d, hp⟩ := parseLines_hdrLines h hwf text hw
  unfold headerParse
  rw [htext, headerLines_unlines _ (hdrLines_good h hwf text hw) _ (by omega), hp]

theorem writeAll_ok_each {α : Type} (w : α → Except Err Bytes) (ls : List α) (b : Bytes)
    (h : writeAll w ls = .ok b) : ∀ a ∈ ls, ∃ x, w a = .ok x := by
  induction ls generalizing b with
  | nil => intro a ha; cases ha
  | cons a rest ih =>
    intro x hx
    simp only [writeAll] at h
    cases ha : w a with
    | error e => rw [ha] at h; cases h
    | ok y =>
      rw [ha] at h
      cases hr : writeAll w rest with
      | error e => rw [hr] at h; cases h
      | ok z =>
        rcases List.mem_cons.mp hx with rfl | hx
        · exact ⟨y, ha⟩
        · exact ih z hr x hx

theorem headerWrite_sq_valid (h : Hdr) (text : Bytes) (hw : headerWrite h = .ok text) :
    ∀ l ∈ h.sq, validRname l.name = true := by
  unfold headerWrite at hw
  obtain ⟨hd, _, t1⟩ := bind_ok _ _ _ hw
  obtain ⟨sq, h2, _⟩ := bind_ok _ _ _ t1
  intro l hl
  obtain ⟨x, hx⟩ := writeAll_ok_each writeSq h.sq sq h2 l hl
  exact writeSq_valid l x hx

end Noodles.Sam
