import Noodles.Sam.LazyFileSpec
import Noodles.Sam.FileSchedProof
/-!
# The buffered lazy SAM file reader equals its closed form on the byte stream
-/
namespace Noodles.Sam.LazyFile
open Noodles.Sam Noodles.Sam.File Noodles.IO

/-- `f` over a `BufReader` (any capacity ≥ 1, any schedule) computes `s` on the logical stream -/
def SpecB {β : Type} (f : RdB β) (s : RdS β) : Prop :=
  ∀ b : BufR UInt8, 0 < b.cap →
    (f b).1 = (s b.stream).1 ∧ (f b).2.stream = (s b.stream).2 ∧ (f b).2.cap = b.cap

theorem specB_pure {β : Type} (a : β) : SpecB (RdB.pure a) (RdS.pure a) := fun _ _ => ⟨rfl, rfl, rfl⟩
theorem specB_fail {β : Type} (e : IOErr) : SpecB (RdB.fail e : RdB β) (RdS.fail e) := fun _ _ => ⟨rfl, rfl, rfl⟩

theorem specB_bind {β γ : Type} {f : RdB β} {s : RdS β} {g : β → RdB γ} {t : β → RdS γ}
    (hf : SpecB f s) (hg : ∀ a, SpecB (g a) (t a)) : SpecB (RdB.bind f g) (RdS.bind s t) := by
  intro b hc
  obtain ⟨h1, h2, h3⟩ := hf b hc
  simp only [RdB.bind, RdS.bind]
  rcases e : f b with ⟨r, b'⟩
  rcases e' : s b.stream with ⟨r', xs'⟩
  rw [e, e'] at h1 h2
  rw [e] at h3
  simp only at h1 h2 h3
  subst h1 h2
  cases r with
  | error x => exact ⟨rfl, rfl, h3⟩
  | ok a =>
    obtain ⟨a1, a2, a3⟩ := hg a b' (by omega)
    exact ⟨a1, a2, by rw [a3, h3]⟩

theorem specB_attempt {β : Type} {f : RdB β} {s : RdS β} (hf : SpecB f s) :
    SpecB (RdB.attempt f) (RdS.attempt s) := by
  intro b hc
  obtain ⟨h1, h2, h3⟩ := hf b hc
  simp only [RdB.attempt, RdS.attempt]
  rcases e : f b with ⟨r, b'⟩
  rcases e' : s b.stream with ⟨r', xs'⟩
  rw [e, e'] at h1 h2
  rw [e] at h3
  simp only at h1 h2 h3
  subst h1 h2
  cases r with
  | error x => exact ⟨rfl, rfl, h3⟩
  | ok a => exact ⟨rfl, rfl, h3⟩

theorem specB_ite {β : Type} {c : Prop} [Decidable c] {f g : RdB β} {s t : RdS β}
    (hf : SpecB f s) (hg : SpecB g t) : SpecB (if c then f else g) (if c then s else t) := by
  by_cases h : c
  · simp only [if_pos h]; exact hf
  · simp only [if_neg h]; exact hg

theorem readFieldInto_specB (dst : Bytes) : SpecB (readFieldInto dst) (readFieldIntoS dst) := by
  intro b hc
  obtain ⟨h1, h2, h3⟩ := scanLoop_spec fieldStep specField fieldStep_spec b.fuel (dst, 0, none) b hc
    (mu_lt_fuel b)
  unfold readFieldInto readFieldIntoS
  rcases e : scanLoop true fieldStep b.fuel (dst, 0, none) b with ⟨r, b'⟩
  rw [e] at h1 h2 h3
  simp only at h1 h2 h3
  subst h1
  rcases hsp : specField (dst, 0, none) b.stream with ⟨⟨d, len, m⟩, rest⟩
  rw [hsp] at h2
  exact ⟨rfl, h2, h3⟩

theorem readLineInto_specB (dst : Bytes) : SpecB (readLineInto dst) (readLineIntoS dst) := by
  intro b hc
  obtain ⟨h1, h2, h3⟩ := readUntil_spec (· == LF) b.fuel b [] hc (mu_lt_fuel b)
  rw [List.nil_append] at h1
  simp only [readLineInto, readLineIntoS]
  rw [h1]
  exact ⟨rfl, h2, h3⟩

theorem samRequiredField_specB (dst : Bytes) : SpecB (samRequiredField dst) (samRequiredFieldS dst) :=
  specB_bind (readFieldInto_specB dst) fun ⟨_, _, _⟩ => specB_ite (specB_fail _) (specB_pure _)

theorem samRequiredFields_specB (k : Nat) (dst : Bytes) (ends : List Nat) (len : Nat) :
    SpecB (samRequiredFields k dst ends len) (samRequiredFieldsS k dst ends len) := by
  induction k generalizing dst ends len with
  | zero => exact specB_pure _
  | succ k ih =>
    exact specB_bind (samRequiredField_specB dst) fun ⟨d, n⟩ => ih d (d.length :: ends) (len + n)

theorem samReadRecord_specB : SpecB samReadRecord samReadRecordS :=
  specB_bind (samRequiredFields_specB 10 [] [] 0) fun ⟨d, _, _⟩ =>
  specB_bind (readFieldInto_specB d) fun ⟨d', _, _⟩ =>
    specB_ite (specB_pure _) (specB_bind (readLineInto_specB d') fun ⟨_, _⟩ => specB_pure _)

theorem lazyRecords_specB {rd : RdB LazyRec} {rs : RdS LazyRec} (h : SpecB rd rs) (fuel : Nat)
    (acc : List LazyRec) : SpecB (lazyRecords rd fuel acc) (lazyRecordsS rs fuel acc) := by
  induction fuel generalizing acc with
  | zero => exact specB_pure _
  | succ fuel ih =>
    refine specB_bind (specB_attempt h) fun r => ?_
    cases r with
    | error e => exact specB_pure _
    | ok r => exact specB_ite (specB_pure _) (ih (r :: acc))

/-- the buffered lazy reader (any `BufReader` capacity ≥ 1, ANY delivery schedule incl.
`Interrupted`) equals the closed form on the byte stream -/
theorem readSamFileLazyB_eq_spec (F : FloatFmt) (b : BufR UInt8) (hc : 0 < b.cap) :
    readSamFileLazyB F b = readSamFileLazy F b.stream := by
  obtain ⟨h1, h2, h3⟩ := hdrLines_eq_S 64 (b.stream.length + 1) true b [] hc
  unfold readSamFileLazyB readSamFileLazy hdrLinesAll
  rcases e1 : hdrLines 64 (b.stream.length + 1) true b [] with ⟨r1, b'⟩
  rcases e2 : hdrLinesS 64 (b.stream.length + 1) true b.stream [] with ⟨r2, rest⟩
  rw [e1, e2] at h1 h2
  rw [e1] at h3
  simp only at h1 h2 h3 ⊢
  subst h1 h2
  cases r1 with
  | error e => rfl
  | ok ls =>
    simp only
    cases finishHeader ls with
    | error e => rfl
    | ok h =>
      obtain ⟨a1, _, _⟩ := lazyRecords_specB samReadRecord_specB (b'.stream.length + 1) [] b' (by omega)
      simp only [samRecordsAll]
      rw [a1]
      rcases (lazyRecordsS samReadRecordS (b'.stream.length + 1) [] b'.stream).1 with e | ⟨items, e⟩ <;> rfl

end Noodles.Sam.LazyFile
