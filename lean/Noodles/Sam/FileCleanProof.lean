import Noodles.Sam.File
import Noodles.Sam.RecordProof
import Noodles.Sam.HeaderProof
/-! Every line the SAM record writer produces is a `RecLine` (no LF, no CR, not empty, does not
start with `@`), and the record part of a written file is those lines each followed by LF. -/
namespace Noodles.Sam.File
open Noodles.Sam Noodles.Text

/-- neither LF nor CR -/
def Clean (l : Bytes) : Prop := ∀ b ∈ l, b ≠ 10 ∧ b ≠ 13

theorem ok_of_ge (b : UInt8) (h : 32 ≤ b.toNat) : b ≠ 10 ∧ b ≠ 13 := by
  constructor
  · intro e; subst e; exact absurd h (by decide)
  · intro e; subst e; exact absurd h (by decide)

theorem clean_nil : Clean [] := by intro b hb; cases hb

theorem clean_cons {b : UInt8} {l : Bytes} (hb : 32 ≤ b.toNat) (hl : Clean l) : Clean (b :: l) := by
  intro x hx
  rcases List.mem_cons.mp hx with rfl | h
  · exact ok_of_ge _ hb
  · exact hl x h

theorem clean_tab {l : Bytes} (hl : Clean l) : Clean (9 :: l) := by
  intro x hx
  rcases List.mem_cons.mp hx with rfl | h
  · exact ⟨by decide, by decide⟩
  · exact hl x h

theorem clean_append {a c : Bytes} (ha : Clean a) (hc : Clean c) : Clean (a ++ c) := by
  intro x hx
  rcases List.mem_append.mp hx with h | h
  · exact ha x h
  · exact hc x h

theorem clean_flatMap {α : Type} (l : List α) (f : α → Bytes) (h : ∀ a ∈ l, Clean (f a)) :
    Clean (l.flatMap f) := by
  intro x hx
  obtain ⟨a, ha, hxa⟩ := List.mem_flatMap.mp hx
  exact h a ha x hxa

theorem clean_of_forall {l : Bytes} (h : ∀ b ∈ l, 32 ≤ b.toNat) : Clean l :=
  fun b hb => ok_of_ge b (h b hb)

theorem clean_of_all {p : UInt8 → Bool} (hp : ∀ b, p b = true → 32 ≤ b.toNat) (l : Bytes)
    (h : l.all p = true) : Clean l :=
  fun b hb => ok_of_ge b (hp b (List.all_eq_true.mp h b hb))

theorem clean_star : Clean [42] := clean_cons (by decide) clean_nil

/-! ### character classes -/

theorem isGraphic_ge (b : UInt8) (h : isGraphic b = true) : 32 ≤ b.toNat := by
  simp only [isGraphic, Bool.and_eq_true, decide_eq_true_eq] at h; omega

theorem isPrintable_ge (b : UInt8) (h : isPrintable b = true) : 32 ≤ b.toNat := by
  simp only [isPrintable, Bool.and_eq_true, decide_eq_true_eq] at h; omega

theorem isDigit_ge (b : UInt8) (h : isDigit b = true) : 32 ≤ b.toNat := by
  simp only [isDigit, Bool.and_eq_true, decide_eq_true_eq] at h; omega

theorem isAlpha_ge (b : UInt8) (h : isAlpha b = true) : 32 ≤ b.toNat := by
  simp only [isAlpha, Bool.and_eq_true, Bool.or_eq_true, decide_eq_true_eq] at h; omega

theorem isAlnum_ge (b : UInt8) (h : isAlnum b = true) : 32 ≤ b.toNat := by
  simp only [isAlnum, Bool.or_eq_true] at h
  rcases h with h | h
  · exact isAlpha_ge b h
  · exact isDigit_ge b h

theorem isHexUpper_ge (b : UInt8) (h : isHexUpper b = true) : 32 ≤ b.toNat := by
  simp only [isHexUpper, Bool.or_eq_true, Bool.and_eq_true, decide_eq_true_eq] at h
  rcases h with h | h
  · exact isDigit_ge b h
  · omega

theorem isBase_ge (b : UInt8) (h : isBase b = true) : 32 ≤ b.toNat := by
  simp only [isBase, Bool.or_eq_true, beq_iff_eq] at h
  rcases h with (h | h) | h
  · exact isAlpha_ge b h
  · omega
  · omega

theorem isRnameChar_ge (b : UInt8) (h : isRnameChar b = true) : 32 ≤ b.toNat := by
  simp only [isRnameChar, Bool.and_eq_true] at h
  exact isGraphic_ge b h.1

/-! ### numbers -/

theorem clean_printNat (n : Nat) : Clean (printNat n) :=
  clean_of_forall fun b hb => isDigit_ge b (printNat_digits n b hb)

theorem clean_printInt (v : Int) : Clean (printInt v) :=
  clean_of_forall fun b hb => by
    rcases printInt_bytes v b hb with h | h
    · exact isDigit_ge b h
    · subst h; decide

/-! ### fields -/

theorem validName_props (n : Bytes) (h : validName n = true) :
    n ≠ [] ∧ n.head? ≠ some 64 ∧ Clean n := by
  unfold validName at h
  simp only [Bool.and_eq_true, decide_eq_true_eq, bne_iff_ne, ne_eq] at h
  obtain ⟨⟨⟨h1, _⟩, _⟩, h4⟩ := h
  have hall := List.all_eq_true.mp h4
  refine ⟨?_, ?_, ?_⟩
  · intro e; subst e; simp at h1
  · cases n with
    | nil => simp
    | cons b r =>
      have hb := hall b (by simp)
      simp only [Bool.and_eq_true, bne_iff_ne, ne_eq] at hb
      intro e
      simp only [List.head?_cons, Option.some.injEq] at e
      subst e
      exact hb.2 (by decide)
  · intro b hb
    have := hall b hb
    simp only [Bool.and_eq_true] at this
    exact ok_of_ge b (isGraphic_ge b this.1)

theorem writeName_line (o : Option Bytes) (b : Bytes) (h : writeName o = .ok b) :
    b ≠ [] ∧ b.head? ≠ some 64 ∧ Clean b := by
  cases o with
  | none =>
    simp only [writeName, Except.ok.injEq] at h
    subst h
    exact ⟨by simp, by decide, clean_star⟩
  | some n =>
    simp only [writeName] at h
    split at h
    · rename_i hv
      simp only [Except.ok.injEq] at h
      subst h
      exact validName_props _ hv
    · cases h

theorem clean_validRname (n : Bytes) (h : validRname n = true) : Clean n := by
  cases n with
  | nil => exact clean_nil
  | cons b r =>
    simp only [validRname, Bool.and_eq_true] at h
    obtain ⟨⟨_, h3⟩, h4⟩ := h
    exact clean_cons (isRnameChar_ge b h3) (clean_of_all isRnameChar_ge r h4)

theorem refName_clean (refs : List Bytes) (hv : ValidRefs refs) (rid : Option Nat)
    (rn : Option Bytes) (h : refName refs rid = .ok rn) : ∀ n, rn = some n → Clean n := by
  intro n e
  subst e
  cases rid with
  | none => simp [refName] at h
  | some i =>
    simp only [refName] at h
    split at h
    · rename_i m hg
      simp only [Except.ok.injEq, Option.some.injEq] at h
      subst h
      exact clean_validRname _ (hv.2 _ (List.mem_of_getElem? hg))
    · cases h

theorem clean_writeRname (rn : Option Bytes) (h : ∀ n, rn = some n → Clean n) :
    Clean (writeRname rn) := by
  cases rn with
  | none => exact clean_star
  | some n => exact h n rfl

theorem clean_writeMateRname (rn mn : Option Bytes) (h : ∀ n, mn = some n → Clean n) :
    Clean (writeMateRname rn mn) := by
  unfold writeMateRname
  split
  · rename_i n m
    split
    · exact clean_cons (by decide) clean_nil
    · exact h m rfl
  · exact clean_writeRname mn h

theorem clean_writePos (n : Nat) (b : Bytes) (h : writePos n = .ok b) : Clean b := by
  unfold writePos at h
  split at h
  · simp only [Except.ok.injEq] at h; subst h; exact clean_printNat n
  · cases h

theorem kindChar_ge (k : Kind) : 32 ≤ (kindChar k).toNat := by cases k <;> decide

theorem clean_writeOp (op : Op) : Clean (writeOp op) :=
  clean_append (clean_printNat _) (clean_cons (kindChar_ge _) clean_nil)

theorem clean_writeCigar (ops : List Op) : Clean (writeCigar ops) := by
  unfold writeCigar
  split
  · exact clean_star
  · exact clean_flatMap _ _ fun op _ => clean_writeOp op

theorem clean_writeSeq (rl : Nat) (seq b : Bytes) (h : writeSeq rl seq = .ok b) : Clean b := by
  unfold writeSeq at h
  split at h
  · simp only [Except.ok.injEq] at h; subst h; exact clean_star
  · split at h
    · cases h
    · split at h
      · rename_i hall
        simp only [Except.ok.injEq] at h; subst h
        exact clean_of_all isBase_ge _ hall
      · cases h

theorem clean_writeQual (n : Nat) (q b : Bytes) (h : writeQual n q = .ok b) : Clean b := by
  unfold writeQual at h
  split at h
  · simp only [Except.ok.injEq] at h; subst h; exact clean_star
  · split at h
    · split at h
      · rename_i hall
        simp only [Except.ok.injEq] at h; subst h
        apply clean_of_forall
        intro b hb
        obtain ⟨x, hx, rfl⟩ := List.mem_map.mp hb
        have hx' := List.all_eq_true.mp hall x hx
        simp only [decide_eq_true_eq] at hx'
        rw [UInt8.toNat_add]
        have : (33 : UInt8).toNat = 33 := by decide
        rw [this]
        omega
      · cases h
    · cases h

theorem subChar_ge (t : IntTy) : 32 ≤ (subChar t).toNat := by cases t <;> decide

theorem tyChar_ge (v : Value) : 32 ≤ (tyChar v).toNat := by
  cases v <;> simp only [tyChar] <;> decide

theorem clean_writeValue (F : FloatFmt) (hE : LineSafe F) (v : Value) (b : Bytes)
    (h : writeValue F v = .ok b) : Clean b := by
  cases v with
  | char c =>
    simp only [writeValue] at h
    split at h
    · rename_i hg
      simp only [Except.ok.injEq] at h; subst h
      exact clean_cons (isGraphic_ge c hg) clean_nil
    · cases h
  | int t n =>
    simp only [writeValue, Except.ok.injEq] at h; subst h
    exact clean_printInt n
  | float x =>
    simp only [writeValue] at h
    split at h
    · simp only [Except.ok.injEq] at h; subst h
      exact (hE x).1
    · cases h
  | str s =>
    simp only [writeValue] at h
    split at h
    · rename_i hall
      simp only [Except.ok.injEq] at h; subst h
      exact clean_of_all isPrintable_ge _ hall
    · cases h
  | hex s =>
    simp only [writeValue] at h
    split at h
    · rename_i hall
      simp only [Bool.and_eq_true] at hall
      simp only [Except.ok.injEq] at h; subst h
      exact clean_of_all isHexUpper_ge _ hall.2
    · cases h
  | iarr t l =>
    simp only [writeValue, Except.ok.injEq] at h; subst h
    exact clean_cons (subChar_ge t)
      (clean_flatMap _ _ fun n _ => clean_cons (by decide) (clean_printInt n))
  | farr l =>
    simp only [writeValue, Except.ok.injEq] at h; subst h
    exact clean_cons (by decide)
      (clean_flatMap _ _ fun x _ => clean_cons (by decide) (hE x).2)

theorem clean_writeField (F : FloatFmt) (hE : LineSafe F) (t : Tag) (v : Value) (f : Bytes)
    (h : writeField F t v = .ok f) : Clean f := by
  unfold writeField at h
  split at h
  · rename_i ht
    simp only [validTag, Bool.and_eq_true] at ht
    split at h
    · rename_i b hb
      simp only [Except.ok.injEq] at h; subst h
      exact clean_cons (isAlpha_ge _ ht.1) (clean_cons (isAlnum_ge _ ht.2)
        (clean_cons (by decide) (clean_cons (tyChar_ge v) (clean_cons (by decide)
          (clean_writeValue F hE v b hb)))))
    · cases h
  · cases h

theorem clean_writeData (F : FloatFmt) (hE : LineSafe F) (data : List (Tag × Value)) (d : Bytes)
    (h : writeData F data = .ok d) : Clean d := by
  induction data generalizing d with
  | nil =>
    simp only [writeData, Except.ok.injEq] at h; subst h; exact clean_nil
  | cons p rest ih =>
    obtain ⟨t, v⟩ := p
    simp only [writeData] at h
    split at h
    · cases h
    · rename_i f hf
      split at h
      · cases h
      · rename_i r hr
        simp only [Except.ok.injEq] at h; subst h
        exact clean_tab (clean_append (clean_writeField F hE t v f hf) (ih r hr))

/-! ### the line -/

/-- a record line the SAM writer produced is a line the record loop takes whole and the header loop
does not take: non-empty, does not start with `@` (`name.rs::is_valid` refuses `@` anywhere in
QNAME; a missing name is `*`), and contains neither LF nor CR (every field writer validates its
bytes; floats by the assumption `LineSafe`) -/
theorem samWrite_recLine (F : FloatFmt) (hE : LineSafe F) (refs : List Bytes) (hv : ValidRefs refs)
    (r : Rec) (l : Bytes) (h : samWrite F refs r = .ok l) : RecLine l := by
  unfold samWrite at h
  obtain ⟨name, h1, t1⟩ := bind_ok _ _ _ h
  obtain ⟨rn, h2, t2⟩ := bind_ok _ _ _ t1
  obtain ⟨pos, h3, t3⟩ := bind_ok _ _ _ t2
  obtain ⟨mn, h4, t4⟩ := bind_ok _ _ _ t3
  obtain ⟨mpos, h5, t5⟩ := bind_ok _ _ _ t4
  obtain ⟨seq, h6, t6⟩ := bind_ok _ _ _ t5
  obtain ⟨qual, h7, t7⟩ := bind_ok _ _ _ t6
  obtain ⟨data, h8, t8⟩ := bind_ok _ _ _ t7
  clear h t1 t2 t3 t4 t5 t6 t7
  simp only [pure, Except.pure, Except.ok.injEq] at t8
  subst t8
  obtain ⟨a1, a2, a3⟩ := writeName_line _ _ h1
  have b1 := clean_writeRname rn (refName_clean refs hv _ _ h2)
  have c1 := clean_writePos _ _ h3
  have d1 := clean_writeMateRname rn mn (refName_clean refs hv _ _ h4)
  have e1 := clean_writePos _ _ h5
  have f1 := clean_writeSeq _ _ _ h6
  have g1 := clean_writeQual _ _ _ h7
  have k1 := clean_writeCigar r.cigar
  have m1 := clean_writeData F hE _ _ h8
  simp only [List.append_assoc, List.cons_append]
  refine ⟨?_, ?_, ?_⟩
  · cases name with
    | nil => exact absurd rfl a1
    | cons x xs => simp
  · cases name with
    | nil => exact absurd rfl a1
    | cons x xs => simpa using a2
  · exact clean_append a3 (clean_tab (clean_append (clean_printNat _) (clean_tab
      (clean_append b1 (clean_tab (clean_append c1 (clean_tab (clean_append (clean_printNat _)
      (clean_tab (clean_append k1 (clean_tab (clean_append d1 (clean_tab (clean_append e1
      (clean_tab (clean_append (clean_printInt _) (clean_tab (clean_append f1 (clean_tab
      (clean_append g1 m1))))))))))))))))))))

theorem Forall₂.length_eq {α β : Type} {R : α → β → Prop} {l₁ : List α} {l₂ : List β}
    (h : Forall₂ R l₁ l₂) : l₁.length = l₂.length := by
  induction h with
  | nil => rfl
  | cons _ _ ih => simp [ih]

theorem Forall₂.get {α β : Type} {R : α → β → Prop} {l₁ : List α} {l₂ : List β}
    (h : Forall₂ R l₁ l₂) : ∀ (i : Nat) (a : α) (b : β), l₁[i]? = some a → l₂[i]? = some b → R a b := by
  induction h with
  | nil => intro i a b ha; simp at ha
  | cons hr _ ih =>
    intro i a b ha hb
    cases i with
    | zero =>
      simp only [List.getElem?_cons_zero, Option.some.injEq] at ha hb
      subst ha; subst hb; exact hr
    | succ j =>
      simp only [List.getElem?_cons_succ] at ha hb
      exact ih j a b ha hb

/-- the record part of a written file is the written lines, each followed by LF -/
theorem writeRecords_spec (F : FloatFmt) (refs : List Bytes) (rs : List Rec) (b : Bytes)
    (h : writeRecords F refs rs = .ok b) :
    ∃ ls, b = unlinesWith [10] ls ∧ Forall₂ (fun r l => samWrite F refs r = .ok l) rs ls := by
  induction rs generalizing b with
  | nil =>
    simp only [writeRecords, Except.ok.injEq] at h; subst h
    exact ⟨[], by simp [unlinesWith], Forall₂.nil⟩
  | cons r rest ih =>
    simp only [writeRecords] at h
    split at h
    · cases h
    · rename_i l hl
      split at h
      · cases h
      · rename_i t ht
        simp only [Except.ok.injEq] at h; subst h
        obtain ⟨ls, e, hall⟩ := ih t ht
        subst e
        exact ⟨l :: ls, by simp [unlinesWith], Forall₂.cons hl hall⟩

end Noodles.Sam.File
