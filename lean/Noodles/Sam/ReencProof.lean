import Noodles.Sam.Reenc
import Noodles.Sam.RecordProof
import Noodles.Sam.LazyProof
import Noodles.Bam.ReencProof
/-!
# A lazy `sam::Record`, read from a line the SAM writer wrote, handed to the BAM writer
(lemmas for `Props/C05Reenc.lean::reencode_sam_lazy`)
-/
namespace Noodles.Sam
open Noodles.Text

/-- the `RecordBuf` the lazy record stands for: the twelve defined flag bits, integer aux fields
typed `Int32` / `UInt32` -/
def lazyNorm (r : Rec) : Rec := { r with flags := r.flags % 4096, data := lazyNormData r.data }

theorem takeTab_append (f rest : Bytes) (hf : (9 : UInt8) ∉ f) : takeTab (f ++ 9 :: rest) = some (f, rest) := by
  induction f with
  | nil => simp [takeTab]
  | cons b t ih =>
    have hb : b ≠ 9 := fun e => hf (by simp [e])
    have ht : (9 : UInt8) ∉ t := fun h => hf (List.mem_cons_of_mem _ h)
    simp only [List.cons_append, takeTab, if_neg hb, ih ht]

/-! ### the accessors against the eager field parsers -/

theorem lzRid_of_parseRid (refs : List Bytes) (f : Bytes) (x : Option Nat) (h : parseRid refs f = .ok x) :
    lzRid refs f = .ok x := by
  unfold parseRid at h
  unfold lzRid
  split
  · next hs => rw [if_pos hs] at h; cases h; rfl
  · next hs =>
    rw [if_neg hs] at h
    cases hi : indexOf f refs with
    | none => rw [hi] at h; cases h
    | some i => rw [hi] at h; cases h; rfl

theorem lzMateRid_of_parse (refs : List Bytes) (rname f : Bytes) (rid x : Option Nat)
    (hr : lzRid refs rname = .ok rid) (h : parseMateRid refs rid f = .ok x) :
    lzMateRid refs rname f = .ok x := by
  unfold parseMateRid at h
  unfold lzMateRid
  split
  · next hs => rw [if_pos hs] at h; cases h; rfl
  · next hs =>
    rw [if_neg hs] at h
    split
    · next he => rw [if_pos he] at h; cases h; exact hr
    · next he => rw [if_neg he] at h; exact lzRid_of_parseRid refs f x h

theorem lzPos_print (n : Nat) (h : n < 18446744073709551616) :
    lzPos (printNat n) = .ok (if n = 0 then none else some n) := by
  unfold lzPos
  have hp := parseUsize_print n h
  by_cases h0 : n = 0
  · subst h0
    have : printNat 0 = [48] := by decide
    simp [this]
  · have hne : printNat n ≠ [48] := by
      intro e
      rw [e] at hp
      have : parseUsize [48] = some 0 := by decide
      rw [this] at hp
      exact h0 (Option.some.inj hp).symm
    rw [if_neg hne, hp]
    simp [h0]

theorem lzMapq_print (n : Nat) (h : n < 256) :
    lzMapq (printNat n) = .ok (if n = 255 then none else some n) := by
  unfold lzMapq
  have hp := parseU8_print n h
  by_cases h0 : n = 255
  · subst h0
    have : printNat 255 = [50, 53, 53] := by decide
    simp [this]
  · have hne : printNat n ≠ [50, 53, 53] := by
      intro e
      rw [e] at hp
      have : parseU8 [50, 53, 53] = some 255 := by decide
      rw [this] at hp
      exact h0 (Option.some.inj hp).symm
    rw [if_neg hne, hp]

/-! ### CIGAR -/

theorem lzOps_of_parseOps (fuel : Nat) (s : Bytes) (ops : List Op) (h : parseOps fuel s = .ok ops) :
    lzOps fuel s = (ops.map toBamOp, none) := by
  induction fuel generalizing s ops with
  | zero => simp [parseOps] at h
  | succ fuel ih =>
    cases s with
    | nil =>
      simp only [parseOps, Except.ok.injEq] at h
      subst h; rfl
    | cons b s =>
      simp only [parseOps] at h
      simp only [lzOps]
      cases hp : parsePartialUsize (b :: s) with
      | none => simp [hp] at h
      | some p =>
        obtain ⟨n, rest⟩ := p
        simp only [hp] at h ⊢
        cases rest with
        | nil => simp at h
        | cons k rest' =>
          simp only at h ⊢
          cases hk : kindOf k with
          | none => simp [hk] at h
          | some kd =>
            simp only [hk] at h ⊢
            cases hr : parseOps fuel rest' with
            | error e => simp [hr] at h
            | ok ops' =>
              simp only [hr, Except.ok.injEq] at h
              subst h
              rw [ih rest' ops' hr]
              rfl

theorem kindOf_digit (b : UInt8) (h : isDigit b = true) : kindOf b = none := by
  simp only [isDigit, Bool.and_eq_true, decide_eq_true_eq] at h
  unfold kindOf
  have ne : ∀ c : UInt8, (c.toNat < 48 ∨ 57 < c.toNat) → b ≠ c := by
    intro c hc e; subst e; omega
  rw [if_neg (ne 77 (by decide)), if_neg (ne 73 (by decide)), if_neg (ne 68 (by decide)),
    if_neg (ne 78 (by decide)), if_neg (ne 83 (by decide)), if_neg (ne 72 (by decide)),
    if_neg (ne 80 (by decide)), if_neg (ne 61 (by decide)), if_neg (ne 88 (by decide))]

theorem countKinds_append (a b : Bytes) : countKinds (a ++ b) = countKinds a + countKinds b := by
  simp [countKinds, List.filter_append]

theorem countKinds_digits (l : Bytes) (h : ∀ b ∈ l, isDigit b = true) : countKinds l = 0 := by
  unfold countKinds
  rw [List.length_eq_zero_iff, List.filter_eq_nil_iff]
  intro b hb
  simp [kindOf_digit b (h b hb)]

theorem countKinds_flatMap (ops : List Op) : countKinds (ops.flatMap writeOp) = ops.length := by
  induction ops with
  | nil => rfl
  | cons op rest ih =>
    simp only [List.flatMap_cons, writeOp, countKinds_append, ih, List.length_cons]
    rw [countKinds_digits _ (printNat_digits op.len)]
    simp [countKinds, kindOf_kindChar]
    omega

theorem cigar_view (ops : List Op) (h : ∀ op ∈ ops, op.len < 18446744073709551616) :
    countKinds (star (writeCigar ops)) = ops.length ∧
    lzOps ((star (writeCigar ops)).length + 1) (star (writeCigar ops)) = (ops.map toBamOp, none) := by
  obtain ⟨_, hp⟩ := writeCigar_spec ops h
  cases ops with
  | nil => exact ⟨rfl, rfl⟩
  | cons op rest =>
    unfold parseCigar at hp
    have hne : writeCigar (op :: rest) ≠ [42] := by
      intro e; rw [if_pos e] at hp; cases hp
    rw [if_neg hne] at hp
    have hst : star (writeCigar (op :: rest)) = writeCigar (op :: rest) := by simp [star, hne]
    rw [hst]
    split at hp
    · cases hp
    · refine ⟨?_, lzOps_of_parseOps _ _ _ hp⟩
      have : writeCigar (op :: rest) = (op :: rest).flatMap writeOp := by simp [writeCigar]
      rw [this, countKinds_flatMap]

/-! ### sequence, quality scores -/

theorem seq_view (rl : Nat) (seq b : Bytes) (h : writeSeq rl seq = .ok b) : star b = seq := by
  obtain ⟨_, hp⟩ := writeSeq_spec rl seq b h
  unfold parseSeq at hp
  unfold star
  split
  · next e => rw [if_pos e] at hp; cases hp; rfl
  · next e =>
    rw [if_neg e] at hp
    split at hp
    · cases hp
    · cases hp; rfl

theorem lzQuals_map (q : Bytes) (h : ∀ x ∈ q, x.toNat ≤ 93) : lzQuals (q.map (· + 33)) = (q, none) := by
  induction q with
  | nil => rfl
  | cons x r ih =>
    have hx : x.toNat ≤ 93 := h x (by simp)
    have e : (x + 33).toNat = x.toNat + 33 := by
      rw [UInt8.toNat_add]
      have : (33 : UInt8).toNat = 33 := rfl
      rw [this]; omega
    simp only [List.map_cons, lzQuals, e]
    rw [if_neg (by omega), ih (fun y hy => h y (List.mem_cons_of_mem _ hy))]
    simp

theorem qual_view (n : Nat) (q b : Bytes) (h : writeQual n q = .ok b) (hq : q ≠ [9]) :
    (star b).length = q.length ∧ lzQuals (star b) = (q, none) := by
  unfold writeQual at h
  split at h
  · next he =>
    cases h
    have : q = [] := by cases q <;> simp_all
    subst this
    exact ⟨rfl, rfl⟩
  · next he =>
    split at h
    · split at h
      · next hall =>
        cases h
        have hne : q.map (· + 33) ≠ [42] := by
          intro e
          cases q with
          | nil => simp at e
          | cons x t =>
            cases t with
            | cons y t' => simp at e
            | nil =>
              simp only [List.map_cons, List.map_nil, List.cons.injEq, and_true] at e
              apply hq
              have : x = 9 := by
                have h2 : x + 33 - 33 = x := u8_add_sub x
                rw [e] at h2
                rw [← h2]; decide
              rw [this]
        have hst : star (q.map (· + 33)) = q.map (· + 33) := by simp [star, hne]
        rw [hst]
        refine ⟨by simp, lzQuals_map q ?_⟩
        intro x hx
        have := List.all_eq_true.mp hall x hx
        simpa using this
      · cases h
    · cases h

/-! ### data -/

theorem lzData_of_lazyData (F : FloatFmt) (fuel : Nat) (s : Bytes) (fs : List (Tag × Value))
    (h : lazyData F fuel s = .ok fs) :
    lzData F fuel s = (fs.map fun p => (p.1, toBamVal p.2), none) := by
  induction fuel generalizing s fs with
  | zero => simp [lazyData] at h
  | succ fuel ih =>
    cases s with
    | nil =>
      simp only [lazyData, Except.ok.injEq] at h
      subst h; rfl
    | cons b s =>
      simp only [lazyData] at h
      simp only [lzData]
      cases hf : lazyField F (b :: s) with
      | error e => simp [hf] at h
      | ok pr =>
        obtain ⟨p, rest⟩ := pr
        simp only [hf] at h ⊢
        cases hr : lazyData F fuel rest with
        | error e => simp [hr] at h
        | ok ps =>
          simp only [hr, Except.ok.injEq] at h
          subst h
          rw [ih rest ps hr]
          rfl

/-! ### the whole line -/

theorem name_view (o : Option Bytes) (b : Bytes) (h : writeName o = .ok b) :
    (if b = [42] then none else some b) = o := by
  cases o with
  | none => simp only [writeName, Except.ok.injEq] at h; subst h; rfl
  | some n =>
    simp only [writeName] at h
    split at h
    · next hv =>
      cases h
      unfold validName at hv
      simp only [Bool.and_eq_true, decide_eq_true_eq, bne_iff_ne, ne_eq] at hv
      rw [if_neg hv.1.2]
    · cases h

theorem writePos_eq (n : Nat) (b : Bytes) (h : writePos n = .ok b) : b = printNat n ∧ n ≤ 2147483647 := by
  simp only [writePos] at h
  split at h
  · cases h; exact ⟨rfl, by assumption⟩
  · cases h

theorem nextField_qual_data (q : Bytes) (hq : (9 : UInt8) ∉ q) (fs : List Bytes) :
    nextField (q ++ fs.flatMap fun f => 9 :: f) = (q, join 9 fs) := by
  cases fs with
  | nil => simp [nextField_free q hq, join]
  | cons f rest => rw [flatMap_tab (f :: rest) (by simp), nextField_append q _ hq]

/-- The lazy record read from a line the SAM writer wrote shows the BAM encoder exactly what the
`RecordBuf` `lazyNorm r` shows it. -/
theorem viewSam_written (F : FloatFmt) (hF : F.Lawful) (hne : ∀ x, F.fmtA x ≠ []) (refs : List Bytes)
    (hv : ValidRefs refs) (r : Rec) (hw : WellTyped r) (hfin : FiniteArrays r) (hq : r.qual ≠ [9])
    (l : Bytes) (h : samWrite F refs r = .ok l) :
    ∃ ln, splitLine l = some ln ∧ viewSam F refs ln = Noodles.Bam.viewBuf (toBamRec (lazyNorm r)) := by
  unfold samWrite at h
  obtain ⟨name, h1, t1⟩ := bind_ok _ _ _ h
  obtain ⟨rn, h2, t2⟩ := bind_ok _ _ _ t1
  obtain ⟨pos, h3, t3⟩ := bind_ok _ _ _ t2
  obtain ⟨mn, h4, t4⟩ := bind_ok _ _ _ t3
  obtain ⟨mpos, h5, t5⟩ := bind_ok _ _ _ t4
  obtain ⟨seq, h6, t6⟩ := bind_ok _ _ _ t5
  obtain ⟨qual, h7, t7⟩ := bind_ok _ _ _ t6
  obtain ⟨data, h8, t8⟩ := bind_ok _ _ _ t7
  clear h t1 t2 t3 t4 t5 t6 t7
  simp only [pure, Except.pure, Except.ok.injEq] at t8
  subst t8
  obtain ⟨a1, _⟩ := writeName_spec _ _ h1
  obtain ⟨b1, b2, _, _⟩ := refName_spec refs hv _ _ h2
  obtain ⟨c1, _⟩ := writePos_spec _ _ h3
  obtain ⟨d1, d2⟩ := mateRname_spec refs hv _ _ _ _ h2 h4
  obtain ⟨e1, _⟩ := writePos_spec _ _ h5
  obtain ⟨f1, _⟩ := writeSeq_spec _ _ _ h6
  obtain ⟨g1, _⟩ := writeQual_spec _ _ _ h7 hq
  obtain ⟨k1, _⟩ := writeCigar_spec r.cigar hw.ops
  obtain ⟨fs, m1, m2, m3⟩ := lazyData_writeData F hF hne r.data data h8 hw.data hfin
  subst m1
  obtain ⟨rfl, hpos⟩ := writePos_eq _ _ h3
  obtain ⟨rfl, hmpos⟩ := writePos_eq _ _ h5
  refine ⟨⟨name, printNat r.flags, writeRname rn, printNat r.pos, printNat r.mapq, writeCigar r.cigar,
    writeMateRname rn mn, printNat r.mpos, printInt r.tlen, seq, qual, join 9 fs⟩, ?_, ?_⟩
  · simp only [List.append_assoc, List.cons_append]
    unfold splitLine
    simp only [takeTabs, takeTab_append name _ a1, takeTab_append _ _ (tab_not_printNat r.flags),
      takeTab_append _ _ b1, takeTab_append _ _ c1, takeTab_append _ _ (tab_not_printNat r.mapq),
      takeTab_append _ _ k1, takeTab_append _ _ d1, takeTab_append _ _ e1,
      takeTab_append _ _ (tab_not_printInt r.tlen), takeTab_append _ _ f1,
      nextField_qual_data qual g1 fs]
  · have v1 : lzRid refs (writeRname rn) = .ok r.rid := lzRid_of_parseRid _ _ _ b2
    have v2 := lzPos_print r.pos (by omega)
    have v3 := name_view _ _ h1
    have v4 := lzMapq_print r.mapq hw.mapq
    obtain ⟨v5a, v5b⟩ := cigar_view r.cigar hw.ops
    have v6 : lzFlags (printNat r.flags) = .ok (r.flags % 4096) := by
      simp [lzFlags, parseU16_print r.flags hw.flags]
    have v7 := seq_view _ _ _ h6
    have v8 : lzMateRid refs (writeRname rn) (writeMateRname rn mn) = .ok r.mrid :=
      lzMateRid_of_parse _ _ _ _ _ v1 d2
    have v9 := lzPos_print r.mpos (by omega)
    have v10 : lzTlen (printInt r.tlen) = .ok r.tlen := by
      simp [lzTlen, parseI32_print r.tlen hw.tlen.1 hw.tlen.2]
    obtain ⟨v11a, v11b⟩ := qual_view _ _ _ h7 hq
    have v12 := lzData_of_lazyData F _ _ _ (m3 ((join 9 fs).length + 1) (by omega))
    simp only [viewSam, Noodles.Bam.viewBuf, toBamRec, lazyNorm, v1, v2, v3, v4, v5a, v5b, v6, v7, v8, v9,
      v10, v11a, v11b, v12, List.length_map]
    rfl

/-! ### the record the lazy view stands for is a `RecordBuf` of the BAM model -/

theorem inRange_of_bounds (t : IntTy) (n : Int) (h : t.lo ≤ n ∧ n ≤ t.hi) : (toBamTy t).inRange n := by
  have c1 : ((256 ^ 1 / 2 : Nat) : Int) = 128 := by decide
  have c2 : ((256 ^ 1 : Nat) : Int) = 256 := by decide
  have c3 : ((256 ^ 2 / 2 : Nat) : Int) = 32768 := by decide
  have c4 : ((256 ^ 2 : Nat) : Int) = 65536 := by decide
  have c5 : ((256 ^ 4 / 2 : Nat) : Int) = 2147483648 := by decide
  have c6 : ((256 ^ 4 : Nat) : Int) = 4294967296 := by decide
  cases t <;>
    simp only [IntTy.lo, IntTy.hi, toBamTy, Noodles.Bam.NumTy.inRange, Noodles.Bam.NumTy.signed,
      Noodles.Bam.NumTy.size, if_true, Bool.false_eq_true, if_false, c1, c2, c3, c4, c5, c6] at h ⊢ <;>
    omega

theorem float_inRange (b : Nat) (h : b < 4294967296) : Noodles.Bam.NumTy.f.inRange (Int.ofNat b) := by
  have c6 : ((256 ^ 4 : Nat) : Int) = 4294967296 := by decide
  simp only [Noodles.Bam.NumTy.inRange, Noodles.Bam.NumTy.signed, Noodles.Bam.NumTy.size,
    Bool.false_eq_true, if_false, c6]
  have : Int.ofNat b = (b : Int) := rfl
  rw [this]
  omega

theorem toBamVal_wf (v : Value) (hw : v.WellTyped) : Noodles.Bam.valWF (toBamVal (lazyNormV v)) := by
  cases v with
  | char c => trivial
  | str s => trivial
  | hex s => trivial
  | float b => exact float_inRange b hw
  | farr l =>
    intro x hx
    simp only [List.mem_map] at hx
    obtain ⟨b, hb, rfl⟩ := hx
    exact float_inRange b (hw b hb)
  | iarr t l => exact fun x hx => inRange_of_bounds t x (hw x hx)
  | int t n =>
    have hw' : t.lo ≤ n ∧ n ≤ t.hi := hw
    obtain ⟨a1, a2⟩ := intTy_bounds t
    show Noodles.Bam.valWF (toBamVal (if n ≤ 2147483647 then .int .i32 n else .int .u32 n))
    by_cases h : n ≤ 2147483647
    · rw [if_pos h]
      exact inRange_of_bounds .i32 n ⟨by simp only [IntTy.lo]; omega, by simp only [IntTy.hi]; omega⟩
    · rw [if_neg h]
      exact inRange_of_bounds .u32 n ⟨by simp only [IntTy.lo]; omega, by simp only [IntTy.hi]; omega⟩

theorem kindNat_le (k : Kind) : kindNat k ≤ 8 := by cases k <;> decide

theorem toBamRec_wf (r : Rec) (hw : WellTyped r) : Noodles.Bam.WF (toBamRec (lazyNorm r)) := by
  refine ⟨?_, ?_, ?_, ?_, ?_, ?_, ?_, ?_⟩
  · show r.flags % 4096 < 4096
    omega
  · intro p h
    change (if r.pos = 0 then none else some r.pos) = some p at h
    by_cases h0 : r.pos = 0
    · rw [if_pos h0] at h; cases h
    · rw [if_neg h0] at h; cases h; omega
  · intro p h
    change (if r.mpos = 0 then none else some r.mpos) = some p at h
    by_cases h0 : r.mpos = 0
    · rw [if_pos h0] at h; cases h
    · rw [if_neg h0] at h; cases h; omega
  · intro q h
    change (if r.mapq = 255 then none else some r.mapq) = some q at h
    have := hw.mapq
    by_cases h0 : r.mapq = 255
    · rw [if_pos h0] at h; cases h
    · rw [if_neg h0] at h; cases h; omega
  · intro o ho
    simp only [toBamRec, lazyNorm, List.mem_map] at ho
    obtain ⟨op, _, rfl⟩ := ho
    exact kindNat_le op.kind
  · have := hw.tlen
    show -2147483648 ≤ r.tlen ∧ r.tlen < 2147483648
    omega
  · intro f hf
    simp only [toBamRec, lazyNorm, lazyNormData, List.mem_map] at hf
    obtain ⟨p, ⟨p0, hp0, rfl⟩, rfl⟩ := hf
    exact toBamVal_wf p0.2 (hw.data p0 hp0)
  · have : ((toBamRec (lazyNorm r)).data.map (·.1)) = r.data.map (·.1) := by
      simp [toBamRec, lazyNorm, lazyNormData, List.map_map, Function.comp_def]
    rw [this]
    exact hw.tags

/-- typing every integer `Int32`/`UInt32` and then storing it in the narrowest type is storing it
in the narrowest type -/
theorem numNorm_lazyNorm (r : Rec) (hw : WellTyped r) :
    numNorm (lazyNorm r) = numNorm { r with flags := r.flags % 4096 } := by
  simp only [numNorm, lazyNorm, lazyNormData, List.map_map]
  congr 1
  apply List.map_congr_left
  intro p hp
  simp [numNormV_lazyNormV p.2 (hw.data p hp)]

end Noodles.Sam
