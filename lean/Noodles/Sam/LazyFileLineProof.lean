import Noodles.Sam.LazyFileProof
import Noodles.Sam.RecordProof
import Noodles.Sam.LazyProof
/-!
# One line through the lazy record reader (closed form), and the accessors against the eager parser
-/
namespace Noodles.Sam.LazyFile
open Noodles.Sam Noodles.Sam.File Noodles.IO Noodles.Text

theorem findSplit_at (p : UInt8 → Bool) (f r : Bytes) (d : UInt8) (hd : p d = true)
    (hf : ∀ x ∈ f, p x = false) : findSplit p (f ++ d :: r) = some (f, d, r) := by
  induction f with
  | nil => simp [findSplit, hd]
  | cons x f ih =>
    have hx : p x = false := hf x (by simp)
    simp [findSplit, hx, ih (fun y hy => hf y (List.mem_cons_of_mem _ hy))]

theorem findSplit_none_of (p : UInt8 → Bool) (f : Bytes) (hf : ∀ x ∈ f, p x = false) :
    findSplit p f = none := by
  induction f with
  | nil => rfl
  | cons x f ih =>
    have hx : p x = false := hf x (by simp)
    simp [findSplit, hx, ih (fun y hy => hf y (List.mem_cons_of_mem _ hy))]

/-- neither TAB nor LF -/
def NoSep (f : Bytes) : Prop := ∀ x ∈ f, x ≠ 9 ∧ x ≠ 10

theorem sep_false (f : Bytes) (h : NoSep f) :
    ∀ x ∈ f, (fun c : UInt8 => c == TAB || c == LF) x = false := by
  intro x hx
  have := h x hx
  simp [TAB, LF, this.1, this.2]

theorem getLast_ne_cr (f : Bytes) (h : (13 : UInt8) ∉ f) : ¬ f.getLast? = some CR := by
  intro e
  exact h (List.mem_of_getLast? e)

theorem readFieldIntoS_tab (dst f r : Bytes) (hf : NoSep f) :
    readFieldIntoS dst (f ++ 9 :: r) = (.ok (dst ++ f, f.length + 1, false), r) := by
  have hs := findSplit_at (fun c => c == TAB || c == LF) f r 9 (by decide) (sep_false f hf)
  simp only [readFieldIntoS, specField, Option.isSome_none, Bool.false_eq_true, if_false, hs]
  simp [LF]

theorem readFieldIntoS_lf (dst f r : Bytes) (hf : NoSep f) (hcr : (13 : UInt8) ∉ f) :
    readFieldIntoS dst (f ++ 10 :: r) = (.ok (dst ++ f, f.length + 1, true), r) := by
  have hs := findSplit_at (fun c => c == TAB || c == LF) f r 10 (by decide) (sep_false f hf)
  simp only [readFieldIntoS, specField, Option.isSome_none, Bool.false_eq_true, if_false, hs]
  have : ¬ f.getLast? = some CR := getLast_ne_cr f hcr
  simp [LF, this]

theorem readFieldIntoS_eof (dst f : Bytes) (hf : NoSep f) :
    readFieldIntoS dst f = (.ok (dst ++ f, f.length, false), []) := by
  have hs := findSplit_none_of (fun c => c == TAB || c == LF) f (sep_false f hf)
  simp only [readFieldIntoS, specField, Option.isSome_none, Bool.false_eq_true, if_false, hs]
  simp

theorem stripEol_lf (d : Bytes) (hcr : (13 : UInt8) ∉ d) : Noodles.IO.stripEol (d ++ [10]) = d := by
  have : ¬ d.getLast? = some CR := getLast_ne_cr d hcr
  simp [Noodles.IO.stripEol, LF, this]

theorem readLineIntoS_lf (dst d r : Bytes) (hd : (10 : UInt8) ∉ d) (hcr : (13 : UInt8) ∉ d) :
    readLineIntoS dst (d ++ 10 :: r) = (.ok (d.length + 1, dst ++ d), r) := by
  have hs := findSplit_at (fun c => c == LF) d r 10 (by decide)
    (by intro x hx; have : x ≠ 10 := fun e => hd (e ▸ hx); simp [LF, this])
  simp only [readLineIntoS, specUntil, hs]
  simp [stripEol_lf d hcr]

theorem readLineIntoS_eof (dst d : Bytes) (hd : (10 : UInt8) ∉ d) :
    readLineIntoS dst d = (.ok (d.length, dst ++ d), []) := by
  have hs := findSplit_none_of (fun c => c == LF) d
    (by intro x hx; have : x ≠ 10 := fun e => hd (e ▸ hx); simp [LF, this])
  simp only [readLineIntoS, specUntil, hs]
  have : ¬ d.getLast? = some LF := fun e => hd (List.mem_of_getLast? e)
  simp [Noodles.IO.stripEol, this]

/-- what may follow a record line: LF, CR LF, or the end of the stream -/
def Term (T rest : Bytes) : Prop := T = 10 :: rest ∨ T = 13 :: 10 :: rest ∨ (T = [] ∧ rest = [])

theorem readFieldIntoS_crlf (dst f r : Bytes) (hf : NoSep f) :
    readFieldIntoS dst (f ++ 13 :: 10 :: r) = (.ok (dst ++ f, f.length + 2, true), r) := by
  have hf' : NoSep (f ++ [13]) := by
    intro x hx
    rcases List.mem_append.mp hx with h | h
    · exact hf x h
    · simp only [List.mem_singleton] at h; subst h; exact ⟨by decide, by decide⟩
  have hs := findSplit_at (fun c => c == TAB || c == LF) (f ++ [13]) r 10 (by decide) (sep_false _ hf')
  have he : f ++ 13 :: 10 :: r = (f ++ [13]) ++ 10 :: r := by simp
  rw [he]
  simp only [readFieldIntoS, specField, Option.isSome_none, Bool.false_eq_true, if_false, hs]
  simp [LF, CR]

theorem readField_term (dst f T rest : Bytes) (hf : NoSep f) (hcr : (13 : UInt8) ∉ f)
    (hT : Term T rest) :
    ∃ k e, readFieldIntoS dst (f ++ T) = (.ok (dst ++ f, k, e), rest) ∧ (e = false → rest = []) := by
  rcases hT with rfl | rfl | ⟨rfl, rfl⟩
  · exact ⟨_, _, readFieldIntoS_lf dst f rest hf hcr, by simp⟩
  · exact ⟨_, _, readFieldIntoS_crlf dst f rest hf, by simp⟩
  · rw [List.append_nil]; exact ⟨_, _, readFieldIntoS_eof dst f hf, by simp⟩

theorem readLineIntoS_crlf (dst d r : Bytes) (hd : (10 : UInt8) ∉ d) :
    readLineIntoS dst (d ++ 13 :: 10 :: r) = (.ok (d.length + 2, dst ++ d), r) := by
  have hd' : (10 : UInt8) ∉ d ++ [13] := by
    intro hx
    rcases List.mem_append.mp hx with h | h
    · exact hd h
    · simp at h
  have hs := findSplit_at (fun c => c == LF) (d ++ [13]) r 10 (by decide)
    (by intro x hx; have : x ≠ 10 := fun e => hd' (e ▸ hx); simp [LF, this])
  have he : d ++ 13 :: 10 :: r = (d ++ [13]) ++ 10 :: r := by simp
  rw [he]
  simp only [readLineIntoS, specUntil, hs]
  simp [Noodles.IO.stripEol, LF, CR]

theorem readLine_term (dst d T rest : Bytes) (hd : (10 : UInt8) ∉ d) (hcr : (13 : UInt8) ∉ d)
    (hT : Term T rest) : ∃ k, readLineIntoS dst (d ++ T) = (.ok (k, dst ++ d), rest) := by
  rcases hT with rfl | rfl | ⟨rfl, rfl⟩
  · exact ⟨_, readLineIntoS_lf dst d rest hd hcr⟩
  · exact ⟨_, readLineIntoS_crlf dst d rest hd⟩
  · rw [List.append_nil]; exact ⟨_, readLineIntoS_eof dst d hd⟩

/-- the running field ends -/
def endsOf : Nat → List Bytes → List Nat
  | _, [] => []
  | a, f :: fs => (a + f.length) :: endsOf (a + f.length) fs

theorem samRequiredFieldsS_tabs (fs : List Bytes) (hfs : ∀ f ∈ fs, NoSep f) (dst : Bytes)
    (ends : List Nat) (len : Nat) (xs : Bytes) :
    ∃ n, samRequiredFieldsS fs.length dst ends len (fs.flatMap (fun f => f ++ [9]) ++ xs) =
      (.ok (dst ++ fs.flatten, (endsOf dst.length fs).reverse ++ ends, len + n), xs) ∧
      (fs ≠ [] → 0 < n) := by
  induction fs generalizing dst ends len with
  | nil => exact ⟨0, by simp [samRequiredFieldsS, RdS.pure, endsOf], by simp⟩
  | cons f fs ih =>
    obtain ⟨n, hn, _⟩ := ih (fun g hg => hfs g (List.mem_cons_of_mem _ hg)) (dst ++ f)
      ((dst ++ f).length :: ends) (len + (f.length + 1))
    refine ⟨f.length + 1 + n, ?_, by intro _; omega⟩
    have hf := hfs f (by simp)
    have hx : (f :: fs).flatMap (fun f => f ++ [9]) ++ xs
        = f ++ 9 :: (fs.flatMap (fun f => f ++ [9]) ++ xs) := by simp
    rw [hx]
    simp only [List.length_cons, samRequiredFieldsS, RdS.bind, samRequiredFieldS]
    rw [readFieldIntoS_tab dst f _ hf]
    simp only [Bool.false_eq_true, if_false, RdS.pure]
    rw [hn]
    simp [endsOf, List.flatten_cons, List.append_assoc, Nat.add_assoc]

theorem cuts_fields (pre : Bytes) (fs : List Bytes) (tl : Bytes) :
    cuts (pre ++ fs.flatten ++ tl) pre.length (endsOf pre.length fs) = fs := by
  induction fs generalizing pre with
  | nil => rfl
  | cons f fs ih =>
    simp only [endsOf, cuts, List.flatten_cons]
    have h1 : ((pre ++ (f ++ fs.flatten) ++ tl).take (pre.length + f.length)).drop pre.length = f := by
      have : pre ++ (f ++ fs.flatten) ++ tl = (pre ++ f) ++ (fs.flatten ++ tl) := by simp
      rw [this, List.take_left' (by simp), List.drop_left' rfl]
    rw [h1]
    have h2 : pre ++ (f ++ fs.flatten) ++ tl = (pre ++ f) ++ fs.flatten ++ tl := by simp
    have h3 : pre.length + f.length = (pre ++ f).length := by simp
    rw [h2, h3, ih (pre ++ f)]

theorem endsOf_getLast (a : Nat) (fs : List Bytes) (hne : fs ≠ []) :
    (endsOf a fs).getLast? = some (a + fs.flatten.length) := by
  induction fs generalizing a with
  | nil => exact absurd rfl hne
  | cons f fs ih =>
    cases fs with
    | nil => simp [endsOf]
    | cons g gs =>
      have := ih (a + f.length) (by simp)
      simp only [endsOf] at this ⊢
      rw [List.getLast?_cons_cons, this]
      simp [Nat.add_assoc]

theorem endsOf_snoc (a : Nat) (fs : List Bytes) (g : Bytes) :
    endsOf a (fs ++ [g]) = endsOf a fs ++ [a + (fs.flatten ++ g).length] := by
  induction fs generalizing a with
  | nil => simp [endsOf]
  | cons f fs ih => simp [endsOf, ih, Nat.add_assoc]

/-- the record the lazy reader makes of eleven TAB-separated fields (no LF, no CR in the last) and
the text `d` after the eleventh TAB, if there is one, is: the fields and `d` concatenated, with the
field ends as bounds — so the accessors see exactly the fields and `data()` sees `d` -/
theorem lazyToRec_fields (F : FloatFmt) (refs : List Bytes) (n : Nat) (fs : List Bytes) (d : Bytes)
    (hne : fs ≠ []) :
    lazyToRec F refs ⟨n, fs.flatten ++ d, endsOf 0 fs⟩ = lazyConv F refs fs d := by
  unfold lazyToRec
  have h1 := cuts_fields [] fs d
  simp only [List.nil_append, List.length_nil] at h1
  have h2 : dataOf (fs.flatten ++ d) (endsOf 0 fs) = d := by
    simp [dataOf, endsOf_getLast 0 fs hne]
  simp only [h1, h2]

theorem samReadRecordS_line (fs : List Bytes) (f11 T rest : Bytes) (hlen : fs.length = 10)
    (hfs : ∀ f ∈ fs, NoSep f) (h11 : NoSep f11) (hcr : (13 : UInt8) ∉ f11) (hT : Term T rest) :
    ∃ n, 0 < n ∧ samReadRecordS (fs.flatMap (fun f => f ++ [9]) ++ (f11 ++ T)) =
      (.ok ⟨n, (fs ++ [f11]).flatten, endsOf 0 (fs ++ [f11])⟩, rest) := by
  obtain ⟨n, hn, hpos⟩ := samRequiredFieldsS_tabs fs hfs [] [] 0 (f11 ++ T)
  have hpos := hpos (by intro e; rw [e] at hlen; cases hlen)
  rw [hlen] at hn
  obtain ⟨k, e, hk, he⟩ := readField_term ([] ++ fs.flatten) f11 T rest h11 hcr hT
  cases e with
  | true =>
    refine ⟨0 + n + k, by omega, ?_⟩
    simp only [samReadRecordS, RdS.bind, hn, hk, if_true, RdS.pure]
    simp [endsOf_snoc, List.reverse_reverse]
  | false =>
    have hr := he rfl
    subst hr
    refine ⟨0 + n + k + 0, by omega, ?_⟩
    have hl := readLineIntoS_eof ([] ++ fs.flatten ++ f11) [] (by simp)
    simp only [List.append_nil, List.length_nil] at hl
    simp only [samReadRecordS, RdS.bind, hn, hk, Bool.false_eq_true, if_false, hl, RdS.pure]
    simp [endsOf_snoc, List.reverse_reverse]

theorem samReadRecordS_line_data (fs : List Bytes) (f11 d T rest : Bytes) (hlen : fs.length = 10)
    (hfs : ∀ f ∈ fs, NoSep f) (h11 : NoSep f11) (hd : (10 : UInt8) ∉ d) (hcr : (13 : UInt8) ∉ d)
    (hT : Term T rest) :
    ∃ n, 0 < n ∧ samReadRecordS (fs.flatMap (fun f => f ++ [9]) ++ (f11 ++ 9 :: (d ++ T))) =
      (.ok ⟨n, (fs ++ [f11]).flatten ++ d, endsOf 0 (fs ++ [f11])⟩, rest) := by
  obtain ⟨n, hn, _⟩ := samRequiredFieldsS_tabs fs hfs [] [] 0 (f11 ++ 9 :: (d ++ T))
  rw [hlen] at hn
  obtain ⟨k, hk⟩ := readLine_term ([] ++ fs.flatten ++ f11) d T rest hd hcr hT
  refine ⟨0 + n + (f11.length + 1) + k, by omega, ?_⟩
  simp only [samReadRecordS, RdS.bind, hn, readFieldIntoS_tab _ f11 _ h11, Bool.false_eq_true,
    if_false, hk, RdS.pure]
  simp [endsOf_snoc, List.reverse_reverse]

end Noodles.Sam.LazyFile
