import Noodles.Sam.LazyFileFieldProof
import Noodles.Sam.FileCleanProof
import Noodles.Sam.FileLinesProof
/-!
# A line the SAM writer produced, through the lazy reader; whole written files
-/
namespace Noodles.Sam.LazyFile
open Noodles.Sam Noodles.Sam.File Noodles.IO Noodles.Text

theorem writePos_canon (n : Nat) (b : Bytes) (h : writePos n = .ok b) : PosCanon b := by
  simp only [writePos] at h
  split at h
  · simp only [Except.ok.injEq] at h
    subst h
    intro hp
    rw [parseUsize_print n (by omega)] at hp
    have : n = 0 := Option.some.inj hp
    subst this
    rfl
  · cases h

theorem foldl_dataInsert (ps acc : List (Tag × Value))
    (h : (acc.map (·.1) ++ ps.map (·.1)).Nodup) : ps.foldl dataInsert acc = acc ++ ps := by
  induction ps generalizing acc with
  | nil => simp
  | cons p ps ih =>
    have hp : p.1 ∉ acc.map (·.1) := by
      intro hm
      rw [List.nodup_append] at h
      exact h.2.2 _ hm _ (by simp) rfl
    have hany : acc.any (fun q => q.1 == p.1) = false := by
      rw [Bool.eq_false_iff]
      intro ha
      rw [List.any_eq_true] at ha
      obtain ⟨q, hq, he⟩ := ha
      have : q.1 = p.1 := by simpa using he
      exact hp (this ▸ List.mem_map.mpr ⟨q, hq, rfl⟩)
    simp only [List.foldl_cons, dataInsert, hany, Bool.false_eq_true, if_false]
    rw [ih (acc ++ [p]) (by simpa [List.map_append, List.append_assoc] using h)]
    simp

/-- **One written line.** The line the writer produced for a record, followed by LF, CR LF or the end of the stream, is read by
`read_record` as one record (all of it consumed, nothing more), and that record converts to the
record written, integer tags by value. -/
theorem lazy_written_line' (F : FloatFmt) (hF : F.Lawful) (hE : LineSafe F) (hne : ∀ x, F.fmtA x ≠ [])
    (refs : List Bytes) (hv : ValidRefs refs) (r : Rec) (ok : RecOk r) (l : Bytes)
    (h : samWrite F refs r = .ok l) (T rest : Bytes) (hT : Term T rest) :
    ∃ lr, samReadRecordS (l ++ T) = (.ok lr, rest) ∧ lr.len ≠ 0 ∧
      lazyToRec F refs lr = .ok { r with data := lazyNormData r.data } := by
  have hparse := samParse_samWrite F hF refs hv r ok.wt ok.fin ok.flags ok.qual l h
  have hline := samWrite_recLine F hE refs hv r l h
  unfold samWrite at h
  obtain ⟨name, h1, t1⟩ := bind_ok _ _ _ h
  obtain ⟨rn, h2, t2⟩ := bind_ok _ _ _ t1
  obtain ⟨pos, h3, t3⟩ := bind_ok _ _ _ t2
  obtain ⟨mn, h4, t4⟩ := bind_ok _ _ _ t3
  obtain ⟨mpos, h5, t5⟩ := bind_ok _ _ _ t4
  obtain ⟨seq, h6, t6⟩ := bind_ok _ _ _ t5
  obtain ⟨qual, h7, t7⟩ := bind_ok _ _ _ t6
  obtain ⟨data, h8, t8⟩ := bind_ok _ _ _ t7
  clear h t1 t2 t3 t4 t5 t6 t7
  simp only [pure, Except.pure, Except.ok.injEq] at t8
  obtain ⟨a1, _⟩ := writeName_spec _ _ h1
  obtain ⟨b1, _, _, _⟩ := refName_spec refs hv _ _ h2
  obtain ⟨c1, _⟩ := writePos_spec _ _ h3
  obtain ⟨d1, _⟩ := mateRname_spec refs hv _ _ _ _ h2 h4
  obtain ⟨e1, _⟩ := writePos_spec _ _ h5
  obtain ⟨f1, _⟩ := writeSeq_spec _ _ _ h6
  obtain ⟨g1, _⟩ := writeQual_spec _ _ _ h7 ok.qual
  obtain ⟨k1, _⟩ := writeCigar_spec r.cigar ok.wt.ops
  have p1 := tab_not_printNat r.flags
  have p2 := tab_not_printNat r.mapq
  have p3 := tab_not_printInt r.tlen
  obtain ⟨fs, m1, m2, m3⟩ := lazyData_writeData F hF hne r.data data h8 ok.wt.data ok.fin
  -- the line, right-nested
  have hl : l = name ++ 9 :: (printNat r.flags ++ 9 :: (writeRname rn ++ 9 :: (pos ++ 9 ::
      (printNat r.mapq ++ 9 :: (writeCigar r.cigar ++ 9 :: (writeMateRname rn mn ++ 9 :: (mpos ++ 9 ::
      (printInt r.tlen ++ 9 :: (seq ++ 9 :: (qual ++ data)))))))))) := by
    rw [← t8]; simp only [List.append_assoc, List.cons_append]
  let fs10 : List Bytes := [name, printNat r.flags, writeRname rn, pos, printNat r.mapq,
    writeCigar r.cigar, writeMateRname rn mn, mpos, printInt r.tlen, seq]
  have hl2 : l = fs10.flatMap (fun f => f ++ [9]) ++ (qual ++ data) := by
    rw [hl]; simp [fs10]
  have hmem : ∀ f ∈ fs10, ∀ x ∈ f, x ∈ l := by
    intro f hf x hx
    rw [hl2]
    exact List.mem_append_left _ (List.mem_flatMap.mpr ⟨f, hf, List.mem_append_left _ hx⟩)
  have htab : ∀ f ∈ fs10, (9 : UInt8) ∉ f := by
    intro f hf
    simp only [fs10, List.mem_cons, List.not_mem_nil, or_false] at hf
    rcases hf with rfl | rfl | rfl | rfl | rfl | rfl | rfl | rfl | rfl | rfl <;> assumption
  have hsep : ∀ f ∈ fs10, NoSep f := fun f hf x hx =>
    ⟨fun e => htab f hf (e ▸ hx), (hline.2.2 x (hmem f hf x hx)).1⟩
  have hqmem : ∀ x ∈ qual, x ∈ l := by
    intro x hx; rw [hl2]; exact List.mem_append_right _ (List.mem_append_left _ hx)
  have hdmem : ∀ x ∈ data, x ∈ l := by
    intro x hx; rw [hl2]; exact List.mem_append_right _ (List.mem_append_right _ hx)
  have hqsep : NoSep qual := fun x hx => ⟨fun e => g1 (e ▸ hx), (hline.2.2 x (hqmem x hx)).1⟩
  have hqcr : (13 : UInt8) ∉ qual := fun hx => (hline.2.2 13 (hqmem 13 hx)).2 rfl
  -- the optional fields as the lazy view reads them
  have hdata : lazyDataBuf F (join 9 fs) = .ok (lazyNormData r.data) := by
    unfold lazyDataBuf
    rw [m3 _ (by omega)]
    simp only
    rw [foldl_dataInsert _ [] (by simpa [lazyNormData, List.map_map, Function.comp_def] using ok.wt.tags)]
    simp
  have htail : (data = [] ∧ join 9 fs = []) ∨ data = 9 :: join 9 fs := by
    cases fs with
    | nil => left; exact ⟨by rw [m1]; rfl, rfl⟩
    | cons g gs => right; rw [m1, flatMap_tab (g :: gs) (by simp)]
  have hconv := lazyConv_of_eager F refs name (printNat r.flags) (writeRname rn) pos (printNat r.mapq)
    (writeCigar r.cigar) (writeMateRname rn mn) mpos (printInt r.tlen) seq qual data (join 9 fs)
    (numNorm r) a1 p1 b1 c1 p2 k1 d1 e1 p3 f1 g1 htail (writePos_canon _ _ h3) (writePos_canon _ _ h5)
    (hl ▸ hparse)
  rw [hdata] at hconv
  simp only at hconv
  have hne10 : fs10 ++ [qual] ≠ [] := by simp
  rcases htail with ⟨hd0, hj0⟩ | hd1
  · obtain ⟨n, hn, hrd⟩ := samReadRecordS_line fs10 qual T rest rfl hsep hqsep hqcr hT
    have hstream : l ++ T = fs10.flatMap (fun f => f ++ [9]) ++ (qual ++ T) := by
      rw [hl2, hd0]; simp
    refine ⟨_, by rw [hstream]; exact hrd, by simp only; omega, ?_⟩
    have := lazyToRec_fields F refs n (fs10 ++ [qual]) [] hne10
    rw [List.append_nil] at this
    rw [this, ← hj0]
    exact hconv
  · have hd10 : (10 : UInt8) ∉ join 9 fs := fun hx =>
      (hline.2.2 10 (hdmem 10 (by rw [hd1]; exact List.mem_cons_of_mem _ hx))).1 rfl
    have hd13 : (13 : UInt8) ∉ join 9 fs := fun hx =>
      (hline.2.2 13 (hdmem 13 (by rw [hd1]; exact List.mem_cons_of_mem _ hx))).2 rfl
    obtain ⟨n, hn, hrd⟩ := samReadRecordS_line_data fs10 qual (join 9 fs) T rest rfl hsep hqsep hd10 hd13 hT
    have hstream : l ++ T
        = fs10.flatMap (fun f => f ++ [9]) ++ (qual ++ 9 :: (join 9 fs ++ T)) := by
      rw [hl2, hd1]; simp
    refine ⟨_, by rw [hstream]; exact hrd, by simp only; omega, ?_⟩
    rw [lazyToRec_fields F refs n (fs10 ++ [qual]) (join 9 fs) hne10]
    exact hconv

end Noodles.Sam.LazyFile
