import Noodles.Sam.Num
/-! Helper lemmas: decimal printing followed by lexical-style parsing is the identity. -/
namespace Noodles.Sam
open Noodles.Text

/-- value of a digit string read from accumulator `acc` -/
def dval (acc : Nat) (ds : Bytes) : Nat := ds.foldl (fun a b => a * 10 + (b.toNat - 48)) acc

/-- "the digits stop here": empty, or a non-digit first -/
def Stops (rest : Bytes) : Prop := ∀ b r, rest = b :: r → isDigit b = false

theorem stops_nil : Stops [] := by intro b r h; cases h

theorem stops_cons (b : UInt8) (r : Bytes) (h : isDigit b = false) : Stops (b :: r) := by
  intro b' r' e; cases e; exact h

theorem isDigit_digit (n : Nat) : isDigit (digit n) = true := by
  unfold isDigit; rw [digit_toNat]; simp; omega

theorem printNatAux_digits (fuel n : Nat) (acc : Bytes) (hacc : ∀ b ∈ acc, isDigit b = true) :
    ∀ b ∈ printNatAux fuel n acc, isDigit b = true := by
  induction fuel generalizing n acc with
  | zero => simpa [printNatAux] using hacc
  | succ fuel ih =>
    unfold printNatAux
    have hc : ∀ b ∈ digit n :: acc, isDigit b = true := by
      intro b hb
      rcases List.mem_cons.mp hb with rfl | h
      · exact isDigit_digit n
      · exact hacc b h
    split
    · exact hc
    · exact ih _ _ hc

theorem printNat_digits (n : Nat) : ∀ b ∈ printNat n, isDigit b = true :=
  printNatAux_digits _ _ [] (by simp)

theorem printNat_ne_nil (n : Nat) : printNat n ≠ [] :=
  printNatAux_ne_nil _ _ (by omega) _

theorem parseNatAux_digits (ds : Bytes) (h : ∀ b ∈ ds, isDigit b = true) (acc : Nat) :
    parseNatAux ds acc = some (dval acc ds) := by
  induction ds generalizing acc with
  | nil => simp [parseNatAux, dval]
  | cons b r ih =>
    have hb := h b (by simp)
    unfold isDigit at hb
    simp only [Bool.and_eq_true, decide_eq_true_eq] at hb
    simp only [parseNatAux, hb, and_self, if_true]
    rw [ih (fun x hx => h x (List.mem_cons_of_mem _ hx))]
    simp [dval]

theorem dval_printNat (n : Nat) : dval 0 (printNat n) = n := by
  have h := parse_print n
  unfold parseNat at h
  rw [if_neg (printNat_ne_nil n), parseNatAux_digits _ (printNat_digits n)] at h
  exact Option.some.inj h

theorem takeDigits_append (ds : Bytes) (h : ∀ b ∈ ds, isDigit b = true) (rest : Bytes)
    (hr : Stops rest) (acc : Nat) : takeDigits (ds ++ rest) acc = (dval acc ds, rest) := by
  induction ds generalizing acc with
  | nil =>
    cases rest with
    | nil => simp [takeDigits, dval]
    | cons b r => simp [takeDigits, dval, hr b r rfl]
  | cons b r ih =>
    simp only [List.cons_append, takeDigits, h b (by simp), if_true]
    rw [ih (fun x hx => h x (List.mem_cons_of_mem _ hx))]
    simp [dval]

theorem takeDigits_printNat (n : Nat) (rest : Bytes) (hr : Stops rest) :
    takeDigits (printNat n ++ rest) 0 = (n, rest) := by
  rw [takeDigits_append _ (printNat_digits n) rest hr, dval_printNat]

/-- a printed natural number starts with a digit -/
theorem printNat_head (n : Nat) : ∃ d tl, printNat n = d :: tl ∧ isDigit d = true := by
  cases h : printNat n with
  | nil => exact absurd h (printNat_ne_nil n)
  | cons d tl => exact ⟨d, tl, rfl, printNat_digits n d (by rw [h]; simp)⟩

theorem parseSign_digit (signed : Bool) (d : UInt8) (tl : Bytes) (hd : isDigit d = true) :
    parseSign signed (d :: tl) = (false, d :: tl) := by
  unfold isDigit at hd
  simp only [Bool.and_eq_true, decide_eq_true_eq] at hd
  unfold parseSign
  split
  · rename_i r h; injection h with h1 _; subst h1; simp at hd
  · rename_i r h; injection h with h1 _; subst h1; simp at hd
  · rfl

theorem parsePartial_printNat (signed : Bool) (lo hi : Int) (n : Nat) (rest : Bytes)
    (hr : Stops rest) (hlo : lo ≤ (n : Int)) (hhi : (n : Int) ≤ hi) :
    parsePartial signed lo hi (printNat n ++ rest) = some ((n : Int), rest) := by
  obtain ⟨d, tl, hp, hd⟩ := printNat_head n
  unfold parsePartial
  rw [hp, List.cons_append, parseSign_digit signed d _ hd]
  simp only [List.isEmpty_cons, Bool.false_eq_true, if_false]
  rw [← List.cons_append, ← hp, takeDigits_printNat n rest hr]
  simp [hlo, hhi]

theorem parsePartial_neg (lo hi : Int) (m : Nat) (rest : Bytes)
    (hr : Stops rest) (hlo : lo ≤ -(m : Int)) (hhi : -(m : Int) ≤ hi) :
    parsePartial true lo hi (45 :: printNat m ++ rest) = some (-(m : Int), rest) := by
  obtain ⟨d, tl, hp, _⟩ := printNat_head m
  unfold parsePartial
  have hs : parseSign true (45 :: printNat m ++ rest) = (true, printNat m ++ rest) := by
    simp [parseSign]
  rw [hs]
  have hne : (printNat m ++ rest).isEmpty = false := by rw [hp]; simp
  simp only [hne, Bool.false_eq_true, if_false]
  rw [takeDigits_printNat m rest hr]
  simp [hlo, hhi]

/-- printing any integer of a type and reading it back with that type's partial parser -/
theorem parsePartial_printInt (signed : Bool) (lo hi v : Int) (rest : Bytes) (hr : Stops rest)
    (hlo : lo ≤ v) (hhi : v ≤ hi) (hs : v < 0 → signed = true) :
    parsePartial signed lo hi (printInt v ++ rest) = some (v, rest) := by
  unfold printInt
  by_cases hv : v < 0
  · rw [if_pos hv, hs hv]
    have e : v = -((v.natAbs : Nat) : Int) := by omega
    rw [parsePartial_neg lo hi v.natAbs rest hr (by omega) (by omega)]
    rw [← e]
  · rw [if_neg hv]
    have e : v = ((v.toNat : Nat) : Int) := by omega
    rw [parsePartial_printNat signed lo hi v.toNat rest hr (by omega) (by omega)]
    rw [← e]

theorem parseComplete_printInt (signed : Bool) (lo hi v : Int)
    (hlo : lo ≤ v) (hhi : v ≤ hi) (hs : v < 0 → signed = true) :
    parseComplete signed lo hi (printInt v) = some v := by
  have h := parsePartial_printInt signed lo hi v [] stops_nil hlo hhi hs
  rw [List.append_nil] at h
  unfold parseComplete
  rw [h]

theorem printInt_ofNat (n : Nat) : printInt (n : Int) = printNat n := by
  unfold printInt
  rw [if_neg (by omega)]
  simp

theorem parseUnsigned_printNat (hi : Int) (n : Nat) (h : (n : Int) ≤ hi) :
    (parseComplete false 0 hi (printNat n)).map Int.toNat = some n := by
  rw [← printInt_ofNat, parseComplete_printInt false 0 hi n (by omega) h (by omega)]
  simp

theorem parseU8_print (n : Nat) (h : n < 256) : parseU8 (printNat n) = some n :=
  parseUnsigned_printNat 255 n (by omega)
theorem parseU16_print (n : Nat) (h : n < 65536) : parseU16 (printNat n) = some n :=
  parseUnsigned_printNat 65535 n (by omega)
theorem parseU32_print (n : Nat) (h : n < 4294967296) : parseU32 (printNat n) = some n :=
  parseUnsigned_printNat 4294967295 n (by omega)
theorem parseUsize_print (n : Nat) (h : n < 18446744073709551616) : parseUsize (printNat n) = some n :=
  parseUnsigned_printNat 18446744073709551615 n (by omega)
theorem parseI32_print (v : Int) (h1 : -2147483648 ≤ v) (h2 : v ≤ 2147483647) :
    parseI32 (printInt v) = some v :=
  parseComplete_printInt true _ _ v h1 h2 (fun _ => rfl)
theorem parseI64_print (v : Int) (h1 : -9223372036854775808 ≤ v) (h2 : v ≤ 9223372036854775807) :
    parseI64 (printInt v) = some v :=
  parseComplete_printInt true _ _ v h1 h2 (fun _ => rfl)

theorem parsePartialUsize_print (n : Nat) (h : n < 18446744073709551616) (rest : Bytes) (hr : Stops rest) :
    parsePartialUsize (printNat n ++ rest) = some (n, rest) := by
  unfold parsePartialUsize
  rw [parsePartial_printNat false 0 _ n rest hr (by omega) (by omega)]
  simp

/-- no TAB, `,`, `:` … in printed numbers: every byte is a digit or `-` -/
theorem printInt_bytes (v : Int) : ∀ b ∈ printInt v, isDigit b = true ∨ b = 45 := by
  intro b hb
  unfold printInt at hb
  split at hb
  · rcases List.mem_cons.mp hb with rfl | h
    · exact Or.inr rfl
    · exact Or.inl (printNat_digits _ b h)
  · exact Or.inl (printNat_digits _ b hb)

theorem isDigit_ne (b : UInt8) (h : isDigit b = true) (c : UInt8) (hc : c.toNat < 48 ∨ 57 < c.toNat) :
    b ≠ c := by
  intro e; subst e
  unfold isDigit at h
  simp only [Bool.and_eq_true, decide_eq_true_eq] at h
  omega

end Noodles.Sam
