import Noodles.Sam.Record
/-!
# SAM headers: `sam::Header`, its text writer and its parser

Transcribed from
* `noodles-sam/src/io/writer/header.rs` (`write_header`: `@HD`, then every `@SQ`, `@RG`, `@PG`,
  `@CO` in insertion order) and `io/writer/header/record*.rs`, `…/value/map*.rs`
  (`write_field`, `write_other_fields`, `is_valid_value`, `tag.rs::is_valid`,
  `reference_sequence/name.rs::is_valid_name`, `reference_sequence/length.rs`);
* `noodles-sam/src/header/parser.rs` (`Parser::parse_partial`, `extract_version`, `try_insert`),
  `header/parser/context.rs`, `header/parser/record*.rs` and the four map parsers under
  `header/parser/record/value/map/`;
* `noodles-sam/src/io/reader/header.rs` (`read_header`: lines are taken while a line starts with
  `@`) and `io/reader.rs::read_line` (strip `\n`, then one `\r`).

The header value is what `sam::Header` is: an optional `@HD` map, three insertion-ordered maps
(`IndexMap`) keyed by `SN` / `ID` / `ID`, and the comment list. Each map entry has its typed
required fields and an insertion-ordered map of the other `(tag, value)` pairs
(`OtherFields`; its keys can never be a standard tag of the line kind: `tag::Other::try_from`).
-/
namespace Noodles.Sam
open Noodles.Text

abbrev Others := List (Tag × Bytes)

structure HdLine where
  major : Nat
  minor : Nat
  others : Others
deriving DecidableEq, Repr

structure SqLine where
  name : Bytes
  len : Nat
  others : Others
deriving DecidableEq, Repr

structure IdLine where
  id : Bytes
  others : Others
deriving DecidableEq, Repr

structure Hdr where
  hd : Option HdLine
  sq : List SqLine
  rg : List IdLine
  pg : List IdLine
  co : List Bytes
deriving DecidableEq, Repr

def Hdr.empty : Hdr := ⟨none, [], [], [], []⟩

/-- `Parser::is_empty` / `Header::is_empty` -/
def Hdr.isEmpty (h : Hdr) : Bool :=
  h.hd.isNone && h.sq.isEmpty && h.rg.isEmpty && h.pg.isEmpty && h.co.isEmpty

/-- the reference sequence names, which is all the record code uses of a header -/
def Hdr.refs (h : Hdr) : List Bytes := h.sq.map (·.name)

/-! ### writer -/

/-- `map.rs::is_valid_value`: `[ -~]+` -/
def validHdrValue (v : Bytes) : Bool := !v.isEmpty && v.all isPrintable

/-- `map/tag.rs::is_valid` -/
def validHdrTag (t : Tag) : Bool := isAlpha t.1 && isAlnum t.2

/-- `map.rs::write_field`: TAB, tag, `:`, value -/
def writeHdrField (t : Tag) (v : Bytes) : Except Err Bytes :=
  if validHdrTag t then
    if validHdrValue v then .ok (9 :: t.1 :: t.2 :: 58 :: v) else .error .invalidInput
  else .error .invalidInput

def writeOthers : Others → Except Err Bytes
  | [] => .ok []
  | (t, v) :: rest =>
    match writeHdrField t v with
    | .error e => .error e
    | .ok f =>
      match writeOthers rest with
      | .error e => .error e
      | .ok r => .ok (f ++ r)

/-- `reference_sequence/name.rs::is_valid_name_char` -/
def isRnameChar (b : UInt8) : Bool :=
  isGraphic b && !(b.toNat == 92 || b.toNat == 44 || b.toNat == 34 || b.toNat == 96 || b.toNat == 39
    || b.toNat == 40 || b.toNat == 41 || b.toNat == 91 || b.toNat == 93 || b.toNat == 123
    || b.toNat == 125 || b.toNat == 60 || b.toNat == 62)

/-- `reference_sequence/name.rs::is_valid_name` -/
def validRname : Bytes → Bool
  | [] => false
  | b :: r => !(b.toNat == 42 || b.toNat == 61) && isRnameChar b && r.all isRnameChar

def VN : Tag := (86, 78)
def SN : Tag := (83, 78)
def LN : Tag := (76, 78)
def ID : Tag := (73, 68)

/-- `@HD`: `VN:major.minor` (never fails), then the other fields -/
def writeHd (l : HdLine) : Except Err Bytes :=
  match writeOthers l.others with
  | .error e => .error e
  | .ok o => .ok ([64, 72, 68, 9, 86, 78, 58] ++ printNat l.major ++ 46 :: printNat l.minor ++ o ++ [10])

/-- `@SQ`: name (`InvalidInput` if invalid), length (`i32::try_from`, `InvalidData` if it does not
fit), other fields -/
def writeSq (l : SqLine) : Except Err Bytes :=
  if validRname l.name then
    if l.len ≤ 2147483647 then
      match writeOthers l.others with
      | .error e => .error e
      | .ok o => .ok ([64, 83, 81, 9, 83, 78, 58] ++ l.name ++ [9, 76, 78, 58] ++ printNat l.len ++ o ++ [10])
    else .error .invalidData
  else .error .invalidInput

/-- `@RG` / `@PG` (`kind` = `RG` / `PG`): `ID` through `write_field`, other fields -/
def writeIdLine (k0 k1 : UInt8) (l : IdLine) : Except Err Bytes :=
  match writeHdrField ID l.id with
  | .error e => .error e
  | .ok f =>
    match writeOthers l.others with
    | .error e => .error e
    | .ok o => .ok ([64, k0, k1] ++ f ++ o ++ [10])

/-- `@CO`: the comment is written as is (`value/string.rs::write_string` has no check) -/
def writeCo (c : Bytes) : Bytes := [64, 67, 79, 9] ++ c ++ [10]

def writeAll {α : Type} (w : α → Except Err Bytes) : List α → Except Err Bytes
  | [] => .ok []
  | a :: rest =>
    match w a with
    | .error e => .error e
    | .ok b =>
      match writeAll w rest with
      | .error e => .error e
      | .ok r => .ok (b ++ r)

def writeHdOpt : Option HdLine → Except Err Bytes
  | none => .ok []
  | some l => writeHd l

/-- `io/writer/header.rs::write_header` -/
def headerWrite (h : Hdr) : Except Err Bytes := do
  let hd ← writeHdOpt h.hd
  let sq ← writeAll writeSq h.sq
  let rg ← writeAll (writeIdLine 82 71) h.rg
  let pg ← writeAll (writeIdLine 80 71) h.pg
  pure (hd ++ sq ++ rg ++ pg ++ (h.co.flatMap writeCo))

/-! ### reader -/

/-- one `read_until(b'\n')`: (line without the `\n`, was there a `\n`?, rest) -/
def takeLine : Bytes → Bytes × Bool × Bytes
  | [] => ([], false, [])
  | b :: r => if b = 10 then ([], true, r) else ((b :: (takeLine r).1), (takeLine r).2.1, (takeLine r).2.2)

/-- `read_line`: the `\n` is removed and then one `\r`, only if there was a `\n` -/
def stripEol (line : Bytes) (hadLf : Bool) : Bytes :=
  if hadLf then
    match line.getLast? with
    | some 13 => line.dropLast
    | _ => line
  else line

/-- `io/reader/header.rs`: the header is the run of lines that start with `@`
(`fuel` ≥ length of the input) -/
def headerLines : Nat → Bytes → List Bytes
  | 0, _ => []
  | _ + 1, [] => []
  | fuel + 1, b :: r =>
    if b ≠ 64 then []
    else
      let t := takeLine (b :: r)
      stripEol t.1 t.2.1 :: headerLines fuel t.2.2

/-- `IndexMap::insert` on `OtherFields`: a present key keeps its place and gets the new value;
returns whether the key was present -/
def insertOther (t : Tag) (v : Bytes) : Others → Others × Bool
  | [] => ([(t, v)], false)
  | (t', v') :: rest =>
    if t' = t then ((t, v) :: rest, true)
    else ((t', v') :: (insertOther t v rest).1, (insertOther t v rest).2)

/-- `field/value.rs::parse_value`: the bytes up to (not including) the next TAB, and the rest -/
def takeValue : Bytes → Bytes × Bytes
  | [] => ([], [])
  | b :: r => if b = 9 then ([], b :: r) else ((b :: (takeValue r).1), (takeValue r).2)

/-- the `while !src.is_empty() { TAB; 2-byte tag; ':'; value }` loop shared by the four map
parsers, as the list of `(tag, raw value)`; `none` = a framing error (`InvalidField` /
`InvalidTag`). The tag is whatever two bytes follow the TAB. Values are checked by the caller
(`fuel` ≥ length of the input). For `LN` the code reads digits with `parse_partial` instead of
scanning to the TAB and lets the next iteration trip over what is left; since a TAB is not a
digit and every failure is the same error, that is "the text up to the TAB must parse
completely", which is how `parseHRecord` treats it. -/
def mapFields : Nat → Bytes → Option (List (Tag × Bytes))
  | 0, _ => none
  | _ + 1, [] => some []
  | fuel + 1, b :: r =>
    if b ≠ 9 then none
    else match r with
      | t0 :: t1 :: c :: r' =>
        if c ≠ 58 then none
        else match mapFields fuel (takeValue r').2 with
          | some fs => some (((t0, t1), (takeValue r').1) :: fs)
          | none => none
      | _ => none

/-- `header/version.rs::parse_version` -/
def parseVersion (s : Bytes) : Option (Nat × Nat) :=
  match splitOn 46 s with
  | a :: b :: rest =>
    match parseU32 a, parseU32 (join 46 (b :: rest)) with
    | some x, some y => some (x, y)
    | _, _ => none
  | _ => none

/-- `Context::from(version)`: duplicate tags are tolerated below SAM 1.6 -/
def allowDup (v : Nat × Nat) : Bool := v.1 < 1 || (v.1 == 1 && v.2 < 6)

/-- fold of one map line: required tags go to `req` (last one wins when duplicates are allowed),
the rest to `others`; `none` on an empty value or a forbidden duplicate -/
def foldFields (dup : Bool) (isReq : Tag → Bool) :
    List (Tag × Bytes) → List (Tag × Bytes) → Others → Option (List (Tag × Bytes) × Others)
  | [], req, oth => some (req, oth)
  | (t, v) :: rest, req, oth =>
    if v.isEmpty then none
    else if isReq t then
      if req.any (fun p => p.1 == t) && !dup then none
      else foldFields dup isReq rest ((t, v) :: req.filter (fun p => p.1 != t)) oth
    else
      let r := insertOther t v oth
      if r.2 && !dup then none else foldFields dup isReq rest req r.1

def lookupTag (t : Tag) (l : List (Tag × Bytes)) : Option Bytes :=
  (l.find? (fun p => p.1 == t)).map (·.2)

inductive HRecord
  | hd (l : HdLine) | sq (l : SqLine) | rg (l : IdLine) | pg (l : IdLine) | co (c : Bytes)

/-- `header/parser/record.rs::parse_record`. Required values are validated when their tag is
met in the code; every failure is the same error here, so validating after the loop is
equivalent — except that a bad required value must also fail when a later duplicate would replace
it, which is why `foldFields` is not enough for `VN`/`LN`: they are checked on every occurrence
below (`checkAll`). -/
def parseHRecord (dup : Bool) (line : Bytes) : Option HRecord :=
  match line with
  | 64 :: k0 :: k1 :: rest =>
    if k0 = 67 ∧ k1 = 79 then
      match rest with
      | 9 :: c => some (.co c)
      | _ => none
    else
      match mapFields (rest.length + 1) rest with
      | none => none
      | some fs =>
        if k0 = 72 ∧ k1 = 68 then
          if fs.all (fun p => p.1 != VN || (parseVersion p.2).isSome) then
            match foldFields dup (· == VN) fs [] [] with
            | some (req, oth) =>
              match (lookupTag VN req).bind parseVersion with
              | some v => some (.hd ⟨v.1, v.2, oth⟩)
              | none => none
            | none => none
          else none
        else if k0 = 83 ∧ k1 = 81 then
          if fs.all (fun p => p.1 != LN || ((parseUsize p.2).map (· != 0)).getD false) then
            match foldFields dup (fun t => t == SN || t == LN) fs [] [] with
            | some (req, oth) =>
              match lookupTag SN req, (lookupTag LN req).bind parseUsize with
              | some n, some len => some (.sq ⟨n, len, oth⟩)
              | _, _ => none
            | none => none
          else none
        else if (k0 = 82 ∧ k1 = 71) ∨ (k0 = 80 ∧ k1 = 71) then
          match foldFields dup (· == ID) fs [] [] with
          | some (req, oth) =>
            match lookupTag ID req with
            | some id => some (if k0 = 82 then .rg ⟨id, oth⟩ else .pg ⟨id, oth⟩)
            | none => none
          | none => none
        else none
  | _ => none

/-- `parser.rs::extract_version`: the first `VN:` field of a leading `@HD` line -/
def extractVersion (line : Bytes) : Option (Nat × Nat) :=
  match line with
  | 64 :: 72 :: 68 :: 9 :: rest =>
    match (splitOn 9 rest).find? (fun f => f.take 3 == [86, 78, 58]) with
    | some f => parseVersion (f.drop 3)
    | none => none
  | _ => none

structure PState where
  dup : Bool := false
  h : Hdr := Hdr.empty

/-- `Parser::parse_partial` -/
def parsePartialLine (st : PState) (line : Bytes) : Option PState :=
  let dup := if st.h.isEmpty then
      match extractVersion line with
      | some v => allowDup v
      | none => st.dup
    else st.dup
  match parseHRecord dup line with
  | none => none
  | some (.hd l) => if st.h.isEmpty then some ⟨dup, { st.h with hd := some l }⟩ else none
  | some (.sq l) =>
    if st.h.sq.any (fun x => x.name == l.name) then none
    else some ⟨dup, { st.h with sq := st.h.sq ++ [l] }⟩
  | some (.rg l) =>
    if st.h.rg.any (fun x => x.id == l.id) then none
    else some ⟨dup, { st.h with rg := st.h.rg ++ [l] }⟩
  | some (.pg l) =>
    if st.h.pg.any (fun x => x.id == l.id) then none
    else some ⟨dup, { st.h with pg := st.h.pg ++ [l] }⟩
  | some (.co c) => some ⟨dup, { st.h with co := st.h.co ++ [c] }⟩

def parseLines : List Bytes → PState → Option PState
  | [], st => some st
  | l :: ls, st =>
    match parsePartialLine st l with
    | none => none
    | some st' => parseLines ls st'

/-- `sam::io::Reader::read_header` on a text: every failure is `InvalidData` -/
def headerParse (text : Bytes) : Except Err Hdr :=
  match parseLines (headerLines (text.length + 1) text) {} with
  | some st => .ok st.h
  | none => .error .invalidData

/-- `OtherFields<S>` is an `IndexMap` (distinct keys) whose keys are never a standard tag of the
line kind (`tag::Other::try_from` refuses them) -/
structure OthersOk (isStd : Tag → Bool) (o : Others) : Prop where
  nodup : (o.map (·.1)).Nodup
  nonstd : ∀ p ∈ o, isStd p.1 = false

/-- The invariants of a `sam::Header` value that its Rust types enforce (`u32` version numbers,
`NonZero<usize>` lengths, `IndexMap` keys distinct, other-field keys not standard), plus the one
thing a line-oriented text cannot carry in a comment: a line feed, or a final carriage return
(`read_line` strips `\r\n`). -/
structure HdrWF (h : Hdr) : Prop where
  hd : ∀ l, h.hd = some l → l.major < 4294967296 ∧ l.minor < 4294967296 ∧ OthersOk (· == VN) l.others
  sq : ∀ l ∈ h.sq, 0 < l.len ∧ OthersOk (fun t => t == SN || t == LN) l.others
  sqNames : (h.sq.map (·.name)).Nodup
  rg : ∀ l ∈ h.rg, OthersOk (· == ID) l.others
  rgIds : (h.rg.map (·.id)).Nodup
  pg : ∀ l ∈ h.pg, OthersOk (· == ID) l.others
  pgIds : (h.pg.map (·.id)).Nodup
  co : ∀ c ∈ h.co, (10 : UInt8) ∉ c ∧ c.getLast? ≠ some 13

/-- a reference sequence dictionary the header writer accepts: distinct names (`IndexMap` keys),
each passing `is_valid_name` -/
def ValidRefs (refs : List Bytes) : Prop := refs.Nodup ∧ ∀ n ∈ refs, validRname n = true

end Noodles.Sam
