import Noodles.Sam.FileSpec
import Noodles.Sam.HeaderProof
/-!
# `readSamFile` on files given as lines (C06, file level)

The closed form `File.readSamFile` (`FileSpec.lean`) evaluated on `unlinesWith eol hls ++
unlinesWith eol rls` for `eol` = LF and CR LF, on the LF file without its final newline, and on the
LF file followed by a blank line.
-/
namespace Noodles.Sam.File
open Noodles.Sam

theorem Forall₂.snoc_inv {α β : Type} {R : α → β → Prop} :
    ∀ {as : List α} {a : α} {bs : List β}, Forall₂ R (as ++ [a]) bs →
      ∃ bs' b, bs = bs' ++ [b] ∧ Forall₂ R as bs' ∧ R a b := by
  intro as
  induction as with
  | nil =>
    intro a bs h
    cases h with
    | cons h1 h2 =>
      cases h2
      exact ⟨[], _, rfl, .nil, h1⟩
  | cons x xs ih =>
    intro a bs h
    cases h with
    | cons h1 h2 =>
      obtain ⟨bs', b, rfl, h3, h4⟩ := ih h2
      exact ⟨_ :: bs', b, rfl, .cons h1 h3, h4⟩

/-- hypotheses shared by the four theorems: header lines `hls` that parse to `h`, record lines `rls`
that parse to `rs` -/
structure Lines (F : FloatFmt) (hls rls : List Bytes) (h : Hdr) (rs : List Rec) : Prop where
  hgood : ∀ l ∈ hls, GoodLine l
  hparse : ∃ d, parseLines hls {} = some ⟨d, h⟩
  rgood : ∀ l ∈ rls, RecLine l
  rparse : Forall₂ (fun l r => samParse F h.refs l = .ok r) rls rs

/-! ### `unlinesWith` -/

theorem unlinesWith_nil (eol : Bytes) : unlinesWith eol [] = [] := rfl

theorem unlinesWith_cons (eol l : Bytes) (ls : List Bytes) :
    unlinesWith eol (l :: ls) = l ++ eol ++ unlinesWith eol ls := by
  simp [unlinesWith]

theorem unlinesWith_append (eol : Bytes) (a b : List Bytes) :
    unlinesWith eol (a ++ b) = unlinesWith eol a ++ unlinesWith eol b := by
  simp [unlinesWith]

theorem unlinesWith_length (eol : Bytes) (he : eol ≠ []) (ls : List Bytes) :
    ls.length ≤ (unlinesWith eol ls).length := by
  induction ls with
  | nil => simp
  | cons l ls ih =>
    rw [unlinesWith_cons]
    have : 0 < eol.length := List.length_pos_iff.mpr he
    simp only [List.length_append, List.length_cons]
    omega

/-! ### line ends -/

/-- LF or CR LF -/
def IsEol (eol : Bytes) : Prop := eol = [10] ∨ eol = [13, 10]

theorem IsEol.ne_nil {eol : Bytes} (he : IsEol eol) : eol ≠ [] := by
  rcases he with rfl | rfl <;> simp

theorem findSplit_lf (l rest : Bytes) (h : (10 : UInt8) ∉ l) :
    Noodles.IO.findSplit (· == Noodles.IO.LF) (l ++ 10 :: rest) = some (l, 10, rest) := by
  induction l with
  | nil => simp [Noodles.IO.findSplit, Noodles.IO.LF]
  | cons x xs ih =>
    have hx : (x == Noodles.IO.LF) = false := by
      simp only [Noodles.IO.LF, beq_eq_false_iff_ne]; exact fun e => h (by simp [e])
    have hxs : (10 : UInt8) ∉ xs := fun e => h (by simp [e])
    simp [Noodles.IO.findSplit, hx, ih hxs]

theorem findSplit_noLf (l : Bytes) (h : (10 : UInt8) ∉ l) :
    Noodles.IO.findSplit (· == Noodles.IO.LF) l = none := by
  induction l with
  | nil => simp [Noodles.IO.findSplit]
  | cons x xs ih =>
    have hx : (x == Noodles.IO.LF) = false := by
      simp only [Noodles.IO.LF, beq_eq_false_iff_ne]; exact fun e => h (by simp [e])
    have hxs : (10 : UInt8) ∉ xs := fun e => h (by simp [e])
    simp [Noodles.IO.findSplit, hx, ih hxs]

theorem findSplit_eol {eol : Bytes} (he : IsEol eol) (l rest : Bytes) (h : (10 : UInt8) ∉ l) :
    ∃ pre, Noodles.IO.findSplit (· == Noodles.IO.LF) (l ++ eol ++ rest) = some (pre, 10, rest) ∧
      pre ++ [10] = l ++ eol := by
  rcases he with rfl | rfl
  · refine ⟨l, ?_, rfl⟩
    have e : l ++ [10] ++ rest = l ++ 10 :: rest := by simp
    rw [e]; exact findSplit_lf l rest h
  · refine ⟨l ++ [13], ?_, by simp⟩
    have e : l ++ [13, 10] ++ rest = (l ++ [13]) ++ 10 :: rest := by simp
    rw [e]; exact findSplit_lf _ rest (by simp [h])

theorem stripEol_snoc_lf (pre : Bytes) :
    Noodles.IO.stripEol (pre ++ [10]) = if pre.getLast? = some 13 then pre.dropLast else pre := by
  simp [Noodles.IO.stripEol, Noodles.IO.LF, Noodles.IO.CR]

theorem stripEol_eol {eol : Bytes} (he : IsEol eol) (l : Bytes) (h : l.getLast? ≠ some 13) :
    Noodles.IO.stripEol (l ++ eol) = l := by
  rcases he with rfl | rfl
  · rw [stripEol_snoc_lf, if_neg h]
  · have e : l ++ [13, 10] = (l ++ [13]) ++ [10] := by simp
    rw [e, stripEol_snoc_lf]
    simp

theorem stripEol_noLf (l : Bytes) (h : (10 : UInt8) ∉ l) : Noodles.IO.stripEol l = l := by
  have : l.getLast? ≠ some 10 := by
    intro e
    exact h (List.mem_of_getLast? e)
  simp [Noodles.IO.stripEol, Noodles.IO.LF, this]

theorem specUntil_eol {eol : Bytes} (he : IsEol eol) (l rest : Bytes) (h : (10 : UInt8) ∉ l) :
    Noodles.IO.specUntil (· == Noodles.IO.LF) (l ++ eol ++ rest) = (l ++ eol, rest) := by
  obtain ⟨pre, hf, hp⟩ := findSplit_eol he l rest h
  simp only [Noodles.IO.specUntil, hf, hp]

theorem specUntil_noLf (l : Bytes) (h : (10 : UInt8) ∉ l) :
    Noodles.IO.specUntil (· == Noodles.IO.LF) l = (l, []) := by
  simp only [Noodles.IO.specUntil, findSplit_noLf l h]

/-! ### the header loop -/

theorem specHdr_line {eol : Bytes} (he : IsEol eol) (l rest : Bytes) (hl : GoodLine l) :
    Noodles.IO.specHdr 64 ([], true) (l ++ eol ++ rest) = ((l ++ eol, true), rest) := by
  obtain ⟨⟨r, rfl⟩, h10, _⟩ := hl
  obtain ⟨pre, hf, hp⟩ := findSplit_eol he (64 :: r) rest h10
  unfold Noodles.IO.specHdr
  rw [hf]
  simp [hp]

theorem specHdr_stop (rest : Bytes) (h : rest.head? ≠ some 64) :
    Noodles.IO.specHdr 64 ([], true) rest = (([], true), rest) := by
  simp [Noodles.IO.specHdr, h]

theorem specHdr_last (l : Bytes) (hl : GoodLine l) :
    Noodles.IO.specHdr 64 ([], true) l = ((l, false), []) := by
  obtain ⟨⟨r, rfl⟩, h10, _⟩ := hl
  unfold Noodles.IO.specHdr
  rw [findSplit_noLf _ h10]
  simp

theorem specHdr_eof : Noodles.IO.specHdr 64 ([], false) [] = (([], false), []) := by
  simp [Noodles.IO.specHdr, Noodles.IO.findSplit]

theorem hdr_lines {eol : Bytes} (he : IsEol eol) (hls : List Bytes) (hg : ∀ l ∈ hls, GoodLine l) :
    ∀ (fuel : Nat) (acc : List Bytes) (rest : Bytes),
      hdrLinesS 64 (hls.length + fuel) true (unlinesWith eol hls ++ rest) acc
        = hdrLinesS 64 fuel true rest (hls.reverse ++ acc) := by
  induction hls with
  | nil => intro fuel acc rest; simp [unlinesWith]
  | cons l ls ih =>
    intro fuel acc rest
    have hl := hg l (by simp)
    have e1 : (l :: ls).length + fuel = (ls.length + fuel) + 1 := by
      simp only [List.length_cons]; omega
    have e2 : unlinesWith eol (l :: ls) ++ rest = l ++ eol ++ (unlinesWith eol ls ++ rest) := by
      rw [unlinesWith_cons]; simp
    have hne : (l ++ eol).length ≠ 0 := by
      have := List.length_pos_iff.mpr he.ne_nil
      simp only [List.length_append]; omega
    rw [e1, e2, hdrLinesS]
    simp only [specHdr_line he l _ hl]
    rw [if_neg hne, stripEol_eol he l hl.2.2, ih (fun x hx => hg x (by simp [hx]))]
    simp

theorem hdr_end (fuel : Nat) (acc : List Bytes) (rest : Bytes) (h : rest.head? ≠ some 64) :
    hdrLinesS 64 (fuel + 1) true rest acc = (.ok acc.reverse, rest) := by
  rw [hdrLinesS]
  simp only [specHdr_stop rest h]
  simp

theorem hdr_last (fuel : Nat) (acc : List Bytes) (l : Bytes) (hl : GoodLine l) :
    hdrLinesS 64 (fuel + 2) true l acc = (.ok (l :: acc).reverse, []) := by
  have hne : l.length ≠ 0 := by
    obtain ⟨⟨r, rfl⟩, _, _⟩ := hl
    simp
  rw [hdrLinesS]
  simp only [specHdr_last l hl]
  rw [if_neg hne, hdrLinesS]
  simp only [specHdr_eof]
  simp [stripEol_noLf l hl.2.1]

/-! ### the record loop -/

/-- what the record loop needs of a line -/
def PlainLine (l : Bytes) : Prop := (10 : UInt8) ∉ l ∧ l.getLast? ≠ some 13

theorem RecLine.plain {l : Bytes} (h : RecLine l) : PlainLine l := by
  obtain ⟨_, _, h3⟩ := h
  refine ⟨fun hm => (h3 _ hm).1 rfl, fun e => ?_⟩
  exact (h3 _ (List.mem_of_getLast? e)).2 rfl

theorem rec_lines {ρ : Type} (parse : Bytes → Except IOErr ρ) {eol : Bytes} (he : IsEol eol)
    (rls : List Bytes) (rs : List ρ) (hp : Forall₂ (fun l r => parse l = .ok r) rls rs) :
    (∀ l ∈ rls, PlainLine l) →
    ∀ (fuel : Nat) (acc : List ρ) (rest : Bytes),
      parsedLinesS parse (rls.length + fuel) (unlinesWith eol rls ++ rest) acc
        = parsedLinesS parse fuel rest (rs.reverse ++ acc) := by
  induction hp with
  | nil => intro _ fuel acc rest; simp [unlinesWith]
  | @cons l r ls rs' h1 _ ih =>
    intro hg fuel acc rest
    have hl := hg l (by simp)
    have e1 : (l :: ls).length + fuel = (ls.length + fuel) + 1 := by
      simp only [List.length_cons]; omega
    have e2 : unlinesWith eol (l :: ls) ++ rest = l ++ eol ++ (unlinesWith eol ls ++ rest) := by
      rw [unlinesWith_cons]; simp
    have hne : (l ++ eol).length ≠ 0 := by
      have := List.length_pos_iff.mpr he.ne_nil
      simp only [List.length_append]; omega
    rw [e1, e2, parsedLinesS]
    simp only [specUntil_eol he l _ hl.1]
    rw [if_neg hne, stripEol_eol he l hl.2, h1]
    simp only []
    rw [ih (fun x hx => hg x (by simp [hx]))]
    simp

theorem rec_end {ρ : Type} (parse : Bytes → Except IOErr ρ) (fuel : Nat) (acc : List ρ) :
    parsedLinesS parse (fuel + 1) [] acc = (acc.reverse, none) := by
  simp [parsedLinesS, Noodles.IO.specUntil, Noodles.IO.findSplit]

theorem rec_last {ρ : Type} (parse : Bytes → Except IOErr ρ) (fuel : Nat) (acc : List ρ)
    (l : Bytes) (r : ρ) (h10 : (10 : UInt8) ∉ l) (hne : l ≠ []) (hp : parse l = .ok r) :
    parsedLinesS parse (fuel + 2) l acc = ((r :: acc).reverse, none) := by
  have hlen : l.length ≠ 0 := by
    intro e; exact hne (List.length_eq_zero_iff.mp e)
  rw [parsedLinesS]
  simp only [specUntil_noLf l h10]
  rw [if_neg hlen, stripEol_noLf l h10, hp]
  simp only []
  rw [rec_end]

theorem rec_blank {ρ : Type} (parse : Bytes → Except IOErr ρ) (fuel : Nat) (acc : List ρ)
    (e : IOErr) (hp : parse [] = .error e) :
    parsedLinesS parse (fuel + 1) [10] acc = (acc.reverse, some e) := by
  have h1 : Noodles.IO.specUntil (· == Noodles.IO.LF) [10] = ([10], []) := by
    simp [Noodles.IO.specUntil, Noodles.IO.findSplit, Noodles.IO.LF]
  have h2 : Noodles.IO.stripEol [10] = [] := by
    simp [Noodles.IO.stripEol, Noodles.IO.LF]
  rw [parsedLinesS]
  simp only [h1]
  rw [if_neg (by simp), h2, hp]

theorem samParse_nil (F : FloatFmt) (refs : List Bytes) : samParse F refs [] = .error .invalidData := by
  simp [samParse, nextField, parseName]
  rfl

theorem recParse_nil (F : FloatFmt) (refs : List Bytes) :
    recParse F refs [] = .error .invalidData := by
  simp [recParse, samParse_nil]

theorem recParse_ok {F : FloatFmt} {refs : List Bytes} {l : Bytes} {r : Rec}
    (h : samParse F refs l = .ok r) : recParse F refs l = .ok r := by
  simp [recParse, h]

theorem Forall₂.imp {α β : Type} {R S : α → β → Prop} (hRS : ∀ a b, R a b → S a b)
    {as : List α} {bs : List β} (h : Forall₂ R as bs) : Forall₂ S as bs := by
  induction h with
  | nil => exact .nil
  | cons h1 _ ih => exact .cons (hRS _ _ h1) ih

/-! ### assembling -/

theorem readSamFile_of (F : FloatFmt) (bytes : Bytes) (ls : List Bytes) (rest : Bytes) (h : Hdr)
    (rs : List Rec) (e : Option IOErr)
    (h1 : hdrLinesS 64 (bytes.length + 1) true bytes [] = (.ok ls, rest))
    (h2 : finishHeader ls = .ok h)
    (h3 : parsedLinesS (recParse F h.refs) (rest.length + 1) rest [] = (rs, e)) :
    readSamFile F bytes = ⟨.ok h, rs, e⟩ := by
  simp [readSamFile, h1, h2, h3]

theorem Lines.finish {F : FloatFmt} {hls rls : List Bytes} {h : Hdr} {rs : List Rec}
    (H : Lines F hls rls h rs) : finishHeader hls = .ok h := by
  obtain ⟨d, hd⟩ := H.hparse
  simp [finishHeader, hd]

/-- header lines, record lines, and a tail the record loop finishes on -/
theorem readSamFile_core (F : FloatFmt) {eol : Bytes} (he : IsEol eol) (hls rls : List Bytes)
    (h : Hdr) (rs : List Rec) (H : Lines F hls rls h rs) (tail : Bytes) (trs : List Rec)
    (e : Option IOErr)
    (htail : ∀ fuel acc, tail.length ≤ fuel →
      parsedLinesS (recParse F h.refs) (fuel + 1) tail acc = (acc.reverse ++ trs, e))
    (hhead : (unlinesWith eol rls ++ tail).head? ≠ some 64) :
    readSamFile F (unlinesWith eol hls ++ (unlinesWith eol rls ++ tail)) = ⟨.ok h, rs ++ trs, e⟩ := by
  have hl1 := unlinesWith_length eol he.ne_nil hls
  have hl2 := unlinesWith_length eol he.ne_nil rls
  refine readSamFile_of F _ hls (unlinesWith eol rls ++ tail) h _ e ?_ H.finish ?_
  · obtain ⟨k, hk⟩ : ∃ k, (unlinesWith eol hls ++ (unlinesWith eol rls ++ tail)).length + 1
        = hls.length + (k + 1) := by
      refine ⟨(unlinesWith eol hls ++ (unlinesWith eol rls ++ tail)).length - hls.length, ?_⟩
      simp only [List.length_append]; omega
    rw [hk, hdr_lines he hls H.hgood, hdr_end _ _ _ hhead]
    simp
  · obtain ⟨k, hk, hk2⟩ : ∃ k, (unlinesWith eol rls ++ tail).length + 1 = rls.length + (k + 1) ∧
        tail.length ≤ k := by
      refine ⟨(unlinesWith eol rls ++ tail).length - rls.length, ?_, ?_⟩ <;>
        simp only [List.length_append] <;> omega
    rw [hk, rec_lines (recParse F h.refs) he rls rs (H.rparse.imp fun _ _ => recParse_ok)
      (fun l hl => (H.rgood l hl).plain), htail _ _ hk2]
    simp

theorem head_unlinesWith (eol : Bytes) (rls : List Bytes) (tail : Bytes)
    (hg : ∀ l ∈ rls, RecLine l) (ht : tail.head? ≠ some 64) :
    (unlinesWith eol rls ++ tail).head? ≠ some 64 := by
  cases rls with
  | nil => simpa [unlinesWith] using ht
  | cons l ls =>
    obtain ⟨hne, hh, _⟩ := hg l (by simp)
    cases l with
    | nil => exact absurd rfl hne
    | cons x xs =>
      rw [unlinesWith_cons]
      simpa using hh

theorem readSamFile_eol (F : FloatFmt) {eol : Bytes} (he : IsEol eol) (hls rls : List Bytes)
    (h : Hdr) (rs : List Rec) (H : Lines F hls rls h rs) :
    readSamFile F (unlinesWith eol hls ++ unlinesWith eol rls) = ⟨.ok h, rs, none⟩ := by
  have := readSamFile_core F he hls rls h rs H [] [] none
    (fun fuel acc _ => by rw [rec_end]; simp)
    (head_unlinesWith eol rls [] H.rgood (by simp))
  simpa using this

theorem readSamFile_lf (F : FloatFmt) (hls rls : List Bytes) (h : Hdr) (rs : List Rec)
    (H : Lines F hls rls h rs) :
    readSamFile F (unlinesWith [10] hls ++ unlinesWith [10] rls) = ⟨.ok h, rs, none⟩ :=
  readSamFile_eol F (.inl rfl) hls rls h rs H

theorem readSamFile_crlf (F : FloatFmt) (hls rls : List Bytes) (h : Hdr) (rs : List Rec)
    (H : Lines F hls rls h rs) :
    readSamFile F (unlinesWith [13, 10] hls ++ unlinesWith [13, 10] rls) = ⟨.ok h, rs, none⟩ :=
  readSamFile_eol F (.inr rfl) hls rls h rs H

/-- a blank line after the last record (or after the header when there are no records) is an
error: `read_line` returns 1, the empty line does not parse (`parseName [] = .error .invalidData`),
mapped to `InvalidData` by `recParse` -/
theorem readSamFile_blank (F : FloatFmt) (hls rls : List Bytes) (h : Hdr) (rs : List Rec)
    (H : Lines F hls rls h rs) :
    readSamFile F (unlinesWith [10] hls ++ unlinesWith [10] rls ++ [10])
      = ⟨.ok h, rs, some .invalidData⟩ := by
  have := readSamFile_core F (.inl rfl) hls rls h rs H [10] [] (some .invalidData)
    (fun fuel acc _ => by rw [rec_blank _ _ _ _ (recParse_nil F h.refs)]; simp)
    (head_unlinesWith [10] rls [10] H.rgood (by simp))
  simpa using this

/-- the header alone, its last line not terminated -/
theorem readSamFile_hdr_noFinalLf (F : FloatFmt) (hls : List Bytes) (last : Bytes) (h : Hdr)
    (H : Lines F (hls ++ [last]) [] h []) :
    readSamFile F (unlinesWith [10] hls ++ last) = ⟨.ok h, [], none⟩ := by
  have hlast : GoodLine last := H.hgood last (by simp)
  have hl1 := unlinesWith_length [10] (by simp) hls
  have hlen : 0 < last.length := by
    obtain ⟨⟨r, rfl⟩, _, _⟩ := hlast
    simp
  refine readSamFile_of F _ (hls ++ [last]) [] h [] none ?_ H.finish ?_
  · obtain ⟨k, hk⟩ : ∃ k, (unlinesWith [10] hls ++ last).length + 1 = hls.length + (k + 2) := by
      refine ⟨(unlinesWith [10] hls ++ last).length - hls.length - 1, ?_⟩
      simp only [List.length_append]; omega
    rw [hk]
    have := hdr_lines (.inl rfl) hls (fun l hl => H.hgood l (by simp [hl])) (k + 2) [] last
    rw [this, hdr_last _ _ _ hlast]
    simp
  · rw [rec_end]; simp

/-- the file without its final newline -/
theorem readSamFile_noFinalLf (F : FloatFmt) (hls rls : List Bytes) (h : Hdr) (rs : List Rec)
    (H : Lines F hls rls h rs) :
    readSamFile F (unlinesWith [10] hls ++ unlinesWith [10] rls).dropLast = ⟨.ok h, rs, none⟩ := by
  rcases List.eq_nil_or_concat rls with rfl | ⟨rls', last, rfl⟩
  · have hrs : rs = [] := by
      cases H.rparse; rfl
    subst hrs
    rcases List.eq_nil_or_concat hls with rfl | ⟨hls', last, rfl⟩
    · simpa [unlinesWith] using readSamFile_lf F [] [] h [] H
    · rw [List.concat_eq_append] at H ⊢
      have e : (unlinesWith [10] (hls' ++ [last]) ++ unlinesWith [10] []).dropLast
          = unlinesWith [10] hls' ++ last := by
        rw [unlinesWith_append, unlinesWith_nil, unlinesWith_cons, unlinesWith_nil]
        simp only [List.append_nil]
        rw [← List.append_assoc, List.dropLast_concat]
      rw [e]
      exact readSamFile_hdr_noFinalLf F hls' last h H
  · rw [List.concat_eq_append] at H ⊢
    obtain ⟨rs', r, rfl, hrs', hr⟩ := H.rparse.snoc_inv
    have hlast : RecLine last := H.rgood last (by simp)
    have H' : Lines F hls rls' h rs' :=
      ⟨H.hgood, H.hparse, fun l hl => H.rgood l (by simp [hl]), hrs'⟩
    have e : (unlinesWith [10] hls ++ unlinesWith [10] (rls' ++ [last])).dropLast
        = unlinesWith [10] hls ++ (unlinesWith [10] rls' ++ last) := by
      rw [unlinesWith_append, unlinesWith_cons, unlinesWith_nil]
      simp only [List.append_nil]
      rw [← List.append_assoc, ← List.append_assoc, List.dropLast_concat, List.append_assoc]
    rw [e]
    have hlen : 0 < last.length := List.length_pos_iff.mpr hlast.1
    refine readSamFile_core F (.inl rfl) hls rls' h rs' H' last [r] none ?_ ?_
    · intro fuel acc hf
      obtain ⟨k, rfl⟩ : ∃ k, fuel = k + 1 := ⟨fuel - 1, by omega⟩
      rw [rec_last _ _ _ last r hlast.plain.1 hlast.1 (recParse_ok hr)]
      simp
    · refine head_unlinesWith [10] rls' last H'.rgood hlast.2.1

/-! ### LF → CR LF -/

theorem toCrlf_append (a b : Bytes) : toCrlf (a ++ b) = toCrlf a ++ toCrlf b := by
  induction a with
  | nil => simp [toCrlf]
  | cons x xs ih =>
    simp only [List.cons_append, toCrlf]
    split <;> simp [ih]

theorem toCrlf_noLf (l : Bytes) (h : (10 : UInt8) ∉ l) : toCrlf l = l := by
  induction l with
  | nil => rfl
  | cons x xs ih =>
    have hx : x ≠ 10 := fun e => h (by simp [e])
    have hxs : (10 : UInt8) ∉ xs := fun e => h (by simp [e])
    simp [toCrlf, hx, ih hxs]

/-- LF → CRLF rewriting of a file made of LF-free lines -/
theorem toCrlf_unlines (ls : List Bytes) (h : ∀ l ∈ ls, (10 : UInt8) ∉ l) :
    toCrlf (unlinesWith [10] ls) = unlinesWith [13, 10] ls := by
  induction ls with
  | nil => rfl
  | cons l ls ih =>
    rw [unlinesWith_cons, unlinesWith_cons, toCrlf_append, toCrlf_append,
      toCrlf_noLf l (h l (by simp)), ih (fun x hx => h x (by simp [hx]))]
    simp [toCrlf]

end Noodles.Sam.File
