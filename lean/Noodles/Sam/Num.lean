import Noodles.Basic.Text
/-!
# Decimal integers as noodles-sam reads and writes them

Writing goes through `lexical_core::write` (`noodles-sam/src/io/writer/num.rs`): plain decimal,
`-` for negatives, no padding. Reading goes through `lexical_core::parse` /
`lexical_core::parse_partial` in the STANDARD format (`lexical-parse-integer` `algorithm!`):

* an optional sign: `+` for every type, `-` only for signed types (for an unsigned type a `-` is
  simply not a digit);
* if nothing is left after the sign: `Error::Empty`;
* then the longest run of decimal digits (possibly none!), leading zeros allowed;
* the value must fit the type (`Overflow`/`Underflow`);
* `parse` (complete) additionally demands that everything was consumed (`InvalidDigit`);
  `parse_partial` returns the rest — so `parse_partial("M")` is `Ok((0, 0))`: zero digits read.

All of this was observed on lexical-core 1.0.6 (see `harness/src/props/c06.rs`, suite `num`, which
replays the boundary table against the real crate on every run).
-/
namespace Noodles.Sam
open Noodles.Text

abbrev Bytes := List UInt8

def isDigit (b : UInt8) : Bool := 48 ≤ b.toNat && b.toNat ≤ 57

/-- longest run of leading decimal digits: (value accumulated from `acc`, rest) -/
def takeDigits : Bytes → Nat → Nat × Bytes
  | [], acc => (acc, [])
  | b :: r, acc => if isDigit b then takeDigits r (acc * 10 + (b.toNat - 48)) else (acc, b :: r)

/-- `lexical_core::write` for every integer type -/
def printInt (n : Int) : Bytes :=
  if n < 0 then 45 :: printNat n.natAbs else printNat n.toNat

/-- `parse_sign!`: (negative?, rest) -/
def parseSign (signed : Bool) (s : Bytes) : Bool × Bytes :=
  match s with
  | 43 :: r => (false, r)
  | 45 :: r => if signed then (true, r) else (false, s)
  | _ => (false, s)

/-- `lexical_core::parse_partial::<T>` for an integer type `T` with range `[lo, hi]`;
`none` = any `lexical_core::Error` (noodles maps them all to one error). -/
def parsePartial (signed : Bool) (lo hi : Int) (s : Bytes) : Option (Int × Bytes) :=
  let (neg, r) := parseSign signed s
  if r.isEmpty then none
  else
    let (v, rest) := takeDigits r 0
    let v : Int := if neg then -(v : Int) else (v : Int)
    if lo ≤ v ∧ v ≤ hi then some (v, rest) else none

/-- `lexical_core::parse::<T>`: partial parse that must consume everything -/
def parseComplete (signed : Bool) (lo hi : Int) (s : Bytes) : Option Int :=
  match parsePartial signed lo hi s with
  | some (v, []) => some v
  | _ => none

def parseU8 (s : Bytes) : Option Nat := (parseComplete false 0 255 s).map Int.toNat
def parseU16 (s : Bytes) : Option Nat := (parseComplete false 0 65535 s).map Int.toNat
def parseU32 (s : Bytes) : Option Nat := (parseComplete false 0 4294967295 s).map Int.toNat
def parseUsize (s : Bytes) : Option Nat := (parseComplete false 0 18446744073709551615 s).map Int.toNat
def parseI32 (s : Bytes) : Option Int := parseComplete true (-2147483648) 2147483647 s
def parseI64 (s : Bytes) : Option Int := parseComplete true (-9223372036854775808) 9223372036854775807 s
def parsePartialUsize (s : Bytes) : Option (Nat × Bytes) :=
  (parsePartial false 0 18446744073709551615 s).map fun p => (p.1.toNat, p.2)

end Noodles.Sam
