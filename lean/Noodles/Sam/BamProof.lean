import Noodles.Sam.HeaderProof
import Noodles.Sam.Bam
/-! Helper lemmas: the BAM header reader inverts the BAM header writer (byte level). -/
namespace Noodles.Sam
open Noodles.Text Noodles.Codec

theorem bamTextLines_unlines (ls : List Bytes) (h : ∀ l ∈ ls, GoodLine l) (fuel : Nat)
    (hf : (unlines ls).length < fuel) : bamTextLines fuel (unlines ls) = ls := by
  induction ls generalizing fuel with
  | nil =>
    cases fuel with
    | zero => simp at hf
    | succ k => simp [unlines, bamTextLines]
  | cons l rest ih =>
    cases fuel with
    | zero => simp at hf
    | succ k =>
      obtain ⟨⟨r, hr⟩, h10, h13⟩ := h l (by simp)
      have hs : unlines (l :: rest) = 64 :: (r ++ 10 :: unlines rest) := by
        simp [unlines, hr]
      have htl : takeLine (64 :: (r ++ 10 :: unlines rest)) = (l, true, unlines rest) := by
        have := takeLine_append l (unlines rest) h10
        rw [hr] at this ⊢
        simpa using this
      have hlen : (unlines rest).length < k := by
        rw [hs] at hf
        simp only [List.length_cons, List.length_append] at hf
        omega
      rw [hs]
      simp only [bamTextLines, htl, stripEol_good l h13]
      rw [if_neg (by decide), ih (fun x hx => h x (List.mem_cons_of_mem _ hx)) k hlen]

theorem unleB_le (n k : Nat) (h : k < 256 ^ n) (r : Bytes) : unleB n (le n k ++ r) = .ok (k, r) := by
  simp [unleB, unle_le n k h r]

theorem takeN_append (a r : Bytes) : takeN a.length (a ++ r) = .ok (a, r) := by
  simp [takeN]

theorem decRef_encRef (l : SqLine) (r : Bytes) (h1 : l.name.length + 1 < 4294967296)
    (h0 : (0 : UInt8) ∉ l.name) (h2 : 0 < l.len) (h3 : l.len < 4294967296) :
    decRef (encRef l ++ r) = .ok ((l.name, l.len), r) := by
  have e : encRef l ++ r = le 4 (l.name.length + 1) ++ (l.name ++ 0 :: (le 4 l.len ++ r)) := by
    simp [encRef]
  have ht : takeN (l.name.length + 1) (l.name ++ 0 :: (le 4 l.len ++ r))
      = .ok (l.name ++ [0], le 4 l.len ++ r) := by
    have := takeN_append (l.name ++ [0]) (le 4 l.len ++ r)
    simpa using this
  have hne : l.len ≠ 0 := by omega
  have hl : (l.name ++ [0]).getLast? = some 0 := by simp
  have hd : (l.name ++ [0]).dropLast = l.name := by simp
  have hc : (l.name.contains 0) = false := by simpa using h0
  unfold decRef
  rw [e]
  simp only [bind, Except.bind, unleB_le 4 _ (show l.name.length + 1 < 256 ^ 4 by omega), ht, hl, hd, hc,
    unleB_le 4 l.len (show l.len < 256 ^ 4 by omega), hne, pure, Except.pure, if_false,
    Bool.false_eq_true]

theorem decRefs_encRefs (ls : List SqLine) (r : Bytes)
    (h : ∀ l ∈ ls, l.name.length + 1 < 4294967296 ∧ (0 : UInt8) ∉ l.name ∧ 0 < l.len ∧ l.len < 4294967296) :
    decRefs ls.length (ls.flatMap encRef ++ r) = .ok (ls.map (fun l => (l.name, l.len)), r) := by
  induction ls with
  | nil => simp [decRefs]
  | cons l rest ih =>
    obtain ⟨a, b, c, d⟩ := h l (by simp)
    simp only [List.flatMap_cons, List.append_assoc, List.length_cons, decRefs,
      decRef_encRef l _ a b c d, List.map_cons]
    rw [ih (fun x hx => h x (List.mem_cons_of_mem _ hx))]

theorem insertRef_fresh (x : Bytes × Nat) (acc : List (Bytes × Nat)) (h : ∀ y ∈ acc, y.1 ≠ x.1) :
    insertRef x acc = acc ++ [x] := by
  induction acc with
  | nil => rfl
  | cons y ys ih =>
    have hy : y.1 ≠ x.1 := h y (by simp)
    simp [insertRef, hy, ih (fun z hz => h z (List.mem_cons_of_mem _ hz))]

theorem foldl_insertRef (xs acc : List (Bytes × Nat)) (h : (acc.map (·.1) ++ xs.map (·.1)).Nodup) :
    xs.foldl (fun acc x => insertRef x acc) acc = acc ++ xs := by
  induction xs generalizing acc with
  | nil => simp
  | cons x rest ih =>
    have hd := List.nodup_append.mp h
    have hfresh : ∀ y ∈ acc, y.1 ≠ x.1 := fun y hy =>
      hd.2.2 y.1 (List.mem_map_of_mem hy) x.1 (by simp)
    simp only [List.foldl_cons, insertRef_fresh x acc hfresh]
    rw [ih (acc ++ [x]) (by simpa [List.append_assoc] using h)]
    simp

theorem bamHeaderRead_bamHeaderWrite (h : Hdr) (hwf : HdrWF h) (bytes : Bytes)
    (hw : bamHeaderWrite h = .ok bytes) (rest : Bytes) :
    bamHeaderRead (bytes ++ rest) = .ok (h, rest) := by
  unfold bamHeaderWrite at hw
  cases ht : headerWrite h with
  | error e => rw [ht] at hw; cases e <;> cases hw
  | ok text =>
    rw [ht] at hw
    simp only at hw
    split at hw
    · rename_i hb
      obtain ⟨b1, b2, b3⟩ := hb
      simp only [Except.ok.injEq] at hw
      obtain ⟨htext, _, csq, _, _⟩ := headerWrite_spec h text ht
      obtain ⟨d, hp⟩ := parseLines_hdrLines h hwf text ht
      have hlines : bamTextLines (text.length + 1) text = hdrLines h := by
        rw [htext]; exact bamTextLines_unlines _ (hdrLines_good h hwf text ht) _ (by omega)
      have hrefs : ∀ l ∈ h.sq, l.name.length + 1 < 4294967296 ∧ (0 : UInt8) ∉ l.name ∧ 0 < l.len
          ∧ l.len < 4294967296 := by
        intro l hl
        have := List.all_eq_true.mp b3 l hl
        simp only [decide_eq_true_eq] at this
        refine ⟨by omega, rname_no_nul _ (headerWrite_sq_valid h text ht l hl), (hwf.sq l hl).1, ?_⟩
        have := (csq l hl).2.1
        omega
      have hdec := decRefs_encRefs h.sq rest hrefs
      have hfold := foldl_insertRef (h.sq.map fun l => (l.name, l.len)) [] (by
        simpa [List.map_map, Function.comp_def] using hwf.sqNames)
      have e : bytes ++ rest = magic ++ (le 4 text.length ++ (text ++ (le 4 h.sq.length
          ++ (h.sq.flatMap encRef ++ rest)))) := by
        rw [← hw]; simp
      have hm : takeN 4 (magic ++ (le 4 text.length ++ (text ++ (le 4 h.sq.length
          ++ (h.sq.flatMap encRef ++ rest))))) = .ok (magic, le 4 text.length ++ (text ++ (le 4 h.sq.length
          ++ (h.sq.flatMap encRef ++ rest)))) := takeN_append magic _
      unfold bamHeaderRead
      rw [e]
      simp only [bind, Except.bind, hm, ne_eq, not_true_eq_false, if_false,
        unleB_le 4 text.length (show text.length < 256 ^ 4 by omega), List.take_left', List.drop_left',
        hlines, hp, pure, Except.pure, unleB_le 4 h.sq.length (show h.sq.length < 256 ^ 4 by omega),
        hdec, hfold, List.nil_append]
      by_cases hemp : h.sq.isEmpty = true
      · rw [if_pos hemp]
        have : h.sq = [] := by
          cases hsq : h.sq with
          | nil => rfl
          | cons _ _ => rw [hsq] at hemp; cases hemp
        cases h
        simp_all
      · rw [if_neg hemp]
        have hzip : ∀ ls : List SqLine, ((ls.zip (ls.map fun l => (l.name, l.len))).all fun p =>
            p.fst.name == p.snd.fst && p.fst.len == p.snd.snd) = true := by
          intro ls
          induction ls with
          | nil => rfl
          | cons a r ih => simp [ih]
        rw [if_pos ⟨by simp, hzip h.sq⟩]
    · cases hw

end Noodles.Sam
