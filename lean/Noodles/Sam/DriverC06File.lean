import Noodles.Sam.DriverC06
import Noodles.Sam.File
/-!
Line-protocol handler for the whole-file SAM model (`c06 file …`, `c06 wfile …`, `c06 bfile …`);
tokens as in `DriverC06.lean`.

* `c06 wfile <hdr> <ftab> <rec>*` → the bytes `File.writeSamFile` produces (hex) or the error class;
* `c06 file <cap> <hex bytes> <ftab>` → `File.readSamFileB` over a `BufReader` of capacity `cap` on
  the bytes (a slice source: every `read` delivers what is asked for): `read_header`'s error class,
  or `<hdr> <ok|error class of the record loop> <rec>*`;
* `c06 bfile <hdr> <rec>*` → the header read back from `bamHeaderWrite` and `File.bamRecords`:
  `<hdr> <rec>*`, or the error class of the first failing step.
-/
namespace Noodles.Sam.File.Drv
open Noodles.Wire Noodles.Sam Noodles.Sam.Drv Noodles.Sam.File

def ioErrStr : IOErr → String
  | .eof => "err:eof"
  | .invalidData => "err:invalid-data"
  | .interrupted => "err:interrupted"
  | .fuel => "err:fuel"

def outStr (o : Out) : String :=
  match o.hdr with
  | .error e => ioErrStr e
  | .ok h =>
    let e := match o.err with
      | none => "ok"
      | some e => ioErrStr e
    " ".intercalate (fmtHdr h :: e :: o.recs.map fmtRec)

def handle? : List String → Option String
  | ["file", cap, bytes, ftab] =>
    some <| match cap.toNat?, unhex bytes, parseFTab ftab with
    | some cap, some bytes, some t =>
      if cap = 0 then "bad-op" else outStr (readSamFileB t.fmt (Noodles.IO.BufR.ofSrc ⟨bytes, []⟩ cap))
    | _, _, _ => "bad-op"
  | "wfile" :: h :: ftab :: recs =>
    some <| match parseHdr h, parseFTab ftab, recs.mapM parseRec with
    | some h, some t, some rs =>
      match writeSamFile t.fmt h rs with
      | .ok b => hex b
      | .error e => errStr e
    | _, _, _ => "bad-op"
  | "bfile" :: h :: recs =>
    some <| match parseHdr h, recs.mapM parseRec with
    | some h, some rs =>
      match bamHeaderWrite h with
      | .error e => berrStr e
      | .ok bytes =>
        match bamHeaderRead bytes with
        | .error e => berrStr e
        | .ok (h', _) =>
          match bamRecords h.refs.length rs with
          | .error e => errStr e
          | .ok rs' => " ".intercalate (fmtHdr h' :: rs'.map fmtRec)
    | _, _ => "bad-op"
  | _ => none

end Noodles.Sam.File.Drv
