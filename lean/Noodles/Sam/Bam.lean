import Noodles.Basic.Codec
import Noodles.Sam.Header
/-!
# The BAM side of "SAM ≡ BAM"

Two models.

1. `bamRoundTrip`: what writing a `RecordBuf` with `bam::io::Writer::write_alignment_record` and
   reading it back with `bam::io::Reader::read_record_buf` does *to the record value* (the byte
   level is property C05's subject). Read from `noodles-bam/src/record/codec/encoder.rs` and its
   field encoders (which inputs are refused — all as `InvalidInput`), `encoder/sequence.rs`
   (`encode_base`: case-insensitive `=ACMGRSVTWYHKDBN`, everything else `N`),
   `encoder/data.rs::write_generic_data` (a `CG` field is silently dropped) and
   `decoder*.rs` (every other field comes back as written; `Flags::from` truncates to the twelve
   defined bits).
2. `bamHeaderWrite` / `bamHeaderRead`: the BAM header block at byte level
   (`noodles-bam/src/io/writer/header.rs`, `io/reader/header.rs`, `reader/header/sam_header.rs`,
   `reader/header/reference_sequences*.rs`): magic, `l_text`, SAM text, `n_ref`, then
   `(l_name, name NUL, l_ref)`; on reading the text's `@SQ` dictionary is cross-checked against
   the binary list (`reference_sequences_eq`), or replaced by it when the text has none.
-/
namespace Noodles.Sam
open Noodles.Text Noodles.Codec

/-! ### record level -/

def upper (b : UInt8) : UInt8 := if 97 ≤ b.toNat ∧ b.toNat ≤ 122 then b - 32 else b

/-- `=ACMGRSVTWYHKDBN` -/
def bamAlphabet : Bytes := [61, 65, 67, 77, 71, 82, 83, 86, 84, 87, 89, 72, 75, 68, 66, 78]

/-- `decode (encode_base b)` -/
def bamBase (b : UInt8) : UInt8 := if bamAlphabet.contains (upper b) then upper b else 78

def CG : Tag := (67, 71)

/-- values the BAM data encoder refuses (`string.rs`, `hex.rs`); everything else is stored as is -/
def bamValueOk : Value → Bool
  | .str s => s.all isPrintable
  | .hex s => s.length % 2 == 0 && s.all isHexUpper
  | .iarr _ l => decide (l.length ≤ 4294967295)
  | .farr l => decide (l.length ≤ 4294967295)
  | _ => true

/-- does `encode` accept the record? (every refusal is `io::ErrorKind::InvalidInput`) -/
def bamAccepts (nrefs : Nat) (r : Rec) : Bool :=
  (match r.rid with | some i => decide (i < nrefs ∧ i ≤ 2147483647) | none => true) &&
  decide (r.pos ≤ 2147483648) &&
  (match r.name with | some n => decide (n.length + 1 ≤ 255) && validName n | none => true) &&
  decide (r.seq.length ≤ 4294967295) &&
  (match r.mrid with | some i => decide (i < nrefs ∧ i ≤ 2147483647) | none => true) &&
  decide (r.mpos ≤ 2147483648) &&
  r.cigar.all (fun op => decide (op.len ≤ 268435455)) &&
  (r.seq.isEmpty || !(decide (readLength r.cigar > 0) && decide (r.seq.length ≠ readLength r.cigar))) &&
  (if r.qual.length = r.seq.length then r.qual.all (fun n => decide (n.toNat ≤ 93)) else r.qual.isEmpty) &&
  r.data.all (fun p => p.1 == CG || bamValueOk p.2)

/-- write as BAM, read back -/
def bamRoundTrip (nrefs : Nat) (r : Rec) : Except Err Rec :=
  if bamAccepts nrefs r then
    .ok { r with flags := r.flags % 4096, seq := r.seq.map bamBase,
                 data := r.data.filter (fun p => p.1 != CG) }
  else .error .invalidInput

/-! ### header block, byte level -/

inductive BErr | eof | invalidData | invalidInput
deriving DecidableEq, Repr

def magic : Bytes := [66, 65, 77, 1]

def encRef (l : SqLine) : Bytes := le 4 (l.name.length + 1) ++ l.name ++ [0] ++ le 4 l.len

/-- `bam::io::writer::header::write_header` (the text writer's own failures keep their class;
`l_text`, `n_ref` must fit `i32`, `l_name` must fit `u32`: all `InvalidInput`) -/
def bamHeaderWrite (h : Hdr) : Except BErr Bytes :=
  match headerWrite h with
  | .error .invalidInput => .error .invalidInput
  | .error .invalidData => .error .invalidData
  | .ok text =>
    if text.length ≤ 2147483647 ∧ h.sq.length ≤ 2147483647 ∧
        h.sq.all (fun l => decide (l.name.length + 1 ≤ 4294967295)) = true then
      .ok (magic ++ le 4 text.length ++ text ++ le 4 h.sq.length ++ h.sq.flatMap encRef)
    else .error .invalidInput

/-- `sam_header::Reader`: lines are taken until the text is exhausted or a line starts with NUL -/
def bamTextLines : Nat → Bytes → List Bytes
  | 0, _ => []
  | _ + 1, [] => []
  | fuel + 1, b :: r =>
    if b = 0 then []
    else
      let t := takeLine (b :: r)
      stripEol t.1 t.2.1 :: bamTextLines fuel t.2.2

def unleB (n : Nat) (s : Bytes) : Except BErr (Nat × Bytes) :=
  match unle n s with
  | .ok p => .ok p
  | .error _ => .error .eof

/-- `read_exact` of `n` bytes -/
def takeN (n : Nat) (s : Bytes) : Except BErr (Bytes × Bytes) :=
  if n ≤ s.length then .ok (s.take n, s.drop n) else .error .eof

/-- `read_reference_sequence`: `CStr::from_bytes_with_nul` wants exactly one NUL, at the end;
`l_ref = 0` is refused (`NonZero`) -/
def decRef (s : Bytes) : Except BErr ((Bytes × Nat) × Bytes) := do
  let (lname, s) ← unleB 4 s
  let (cname, s) ← takeN lname s
  let name ← match cname.getLast? with
    | some 0 => if cname.dropLast.contains 0 then .error .invalidData else pure cname.dropLast
    | _ => .error BErr.invalidData
  let (lref, s) ← unleB 4 s
  if lref = 0 then .error .invalidData else pure ((name, lref), s)

def decRefs : Nat → Bytes → Except BErr (List (Bytes × Nat) × Bytes)
  | 0, s => .ok ([], s)
  | n + 1, s =>
    match decRef s with
    | .error e => .error e
    | .ok (x, s') =>
      match decRefs n s' with
      | .error e => .error e
      | .ok (xs, s'') => .ok (x :: xs, s'')

/-- `ReferenceSequences::insert` in a loop: a repeated name keeps its first position and takes the
last length -/
def insertRef (x : Bytes × Nat) : List (Bytes × Nat) → List (Bytes × Nat)
  | [] => [x]
  | y :: ys => if y.1 = x.1 then x :: ys else y :: insertRef x ys

/-- `bam::io::reader::header::read_header`; returns the header and the unread rest -/
def bamHeaderRead (s : Bytes) : Except BErr (Hdr × Bytes) := do
  let (m, s) ← takeN 4 s
  if m ≠ magic then .error .invalidData else
  let (ltext, s) ← unleB 4 s
  -- `Take`: a short text region is not an error by itself
  let text := s.take ltext
  let s := s.drop ltext
  let h ← match parseLines (bamTextLines (text.length + 1) text) {} with
    | some st => pure st.h
    | none => .error BErr.invalidData
  let (nref, s) ← unleB 4 s
  let (refs, s) ← decRefs nref s
  let refs := refs.foldl (fun acc x => insertRef x acc) []
  if h.sq.isEmpty then
    pure ({ h with sq := refs.map fun x => ⟨x.1, x.2, []⟩ }, s)
  else if h.sq.length = refs.length ∧ (h.sq.zip refs).all (fun p => p.1.name == p.2.1 && p.1.len == p.2.2) then
    pure (h, s)
  else .error .invalidData

end Noodles.Sam
