import Noodles.Sam.DriverC06File
import Noodles.Sam.LazyFile
/-!
Line-protocol handler for the lazy whole-file SAM model (`c06 lazy …`); tokens as in `DriverC06.lean`.

* `c06 lazy <cap> <hex bytes> <ftab>` → `LazyFile.readSamFileLazyB` over a `BufReader` of capacity
  `cap` on the bytes (a slice source): `read_header`'s error class, or
  `<hdr> <ok|error class of the record loop> <item>*`, one item per `sam::Record` read: the
  `RecordBuf` it converts to, or the error class of `RecordBuf::try_from_alignment_record`.
-/
namespace Noodles.Sam.LazyFile.Drv
open Noodles.Wire Noodles.Sam Noodles.Sam.Drv Noodles.Sam.File Noodles.Sam.File.Drv Noodles.Sam.LazyFile

def lerrStr : LErr → String
  | .eof => "err:eof"
  | .invalidData => "err:invalid-data"

def itemStr : Except LErr Rec → String
  | .ok r => fmtRec r
  | .error e => lerrStr e

def loutStr (o : LOut) : String :=
  match o.hdr with
  | .error e => ioErrStr e
  | .ok h =>
    let e := match o.err with
      | none => "ok"
      | some e => ioErrStr e
    " ".intercalate (fmtHdr h :: e :: o.recs.map itemStr)

def handle? : List String → Option String
  | ["lazy", cap, bytes, ftab] =>
    some <| match cap.toNat?, unhex bytes, parseFTab ftab with
    | some cap, some bytes, some t =>
      if cap = 0 then "bad-op" else loutStr (readSamFileLazyB t.fmt (Noodles.IO.BufR.ofSrc ⟨bytes, []⟩ cap))
    | _, _, _ => "bad-op"
  | _ => none

end Noodles.Sam.LazyFile.Drv
