import Noodles.Sam.LazyFileWrittenProof
/-!
# The record loop of the lazy reader over the lines of a file; whole files
-/
namespace Noodles.Sam.LazyFile
open Noodles.Sam Noodles.Sam.File Noodles.IO Noodles.Text

/-- the record as the lazy reader returns it: every integer tag typed `Int32` / `UInt32` -/
def lazyView (r : Rec) : Rec := { r with data := lazyNormData r.data }

theorem numNorm_lazyView (r : Rec) (hw : ∀ p ∈ r.data, p.2.WellTyped) :
    numNorm (lazyView r) = numNorm r := by
  simp only [numNorm, lazyView]
  congr 1
  simp only [lazyNormData, List.map_map]
  apply List.map_congr_left
  intro p hp
  simp [numNormV_lazyNormV p.2 (hw p hp)]

theorem lazyNormV_numNormV (v : Value) : lazyNormV (numNormV v) = lazyNormV v := by
  cases v with
  | int t n =>
    obtain ⟨t', ht⟩ := numNormV_int t n
    rw [ht]; rfl
  | _ => rfl

theorem lazyView_numNorm (r : Rec) : lazyView (numNorm r) = lazyView r := by
  simp only [lazyView, numNorm, lazyNormData, List.map_map]
  congr 1
  apply List.map_congr_left
  intro p _
  simp [lazyNormV_numNormV]

/-- the line, followed by LF, CR LF or the end of the stream, is read as ONE record (nothing else
consumed), which converts to `item` -/
def LineReads (F : FloatFmt) (refs : List Bytes) (l : Bytes) (item : Except LErr Rec) : Prop :=
  ∀ T rest, Term T rest →
    ∃ lr, samReadRecordS (l ++ T) = (.ok lr, rest) ∧ lr.len ≠ 0 ∧ lazyToRec F refs lr = item

theorem lineReads_written (F : FloatFmt) (hF : F.Lawful) (hE : LineSafe F) (hne : ∀ x, F.fmtA x ≠ [])
    (refs : List Bytes) (hv : ValidRefs refs) (r : Rec) (ok : RecOk r) (l : Bytes)
    (h : samWrite F refs r = .ok l) : LineReads F refs l (.ok (lazyView r)) := by
  intro T rest hT
  obtain ⟨lr, h1, h2, h3⟩ := lazy_written_line' F hF hE hne refs hv r ok l h T rest hT
  exact ⟨lr, h1, h2, h3⟩

theorem lazyRecordsS_succ (fuel : Nat) (acc : List LazyRec) (xs : Bytes) :
    lazyRecordsS samReadRecordS (fuel + 1) acc xs =
      match samReadRecordS xs with
      | (.error e, r) => (.ok (acc.reverse, some e), r)
      | (.ok lr, r) =>
        if lr.len = 0 then (.ok (acc.reverse, none), r) else lazyRecordsS samReadRecordS fuel (lr :: acc) r := by
  simp only [lazyRecordsS, RdS.bind, RdS.attempt]
  rcases samReadRecordS xs with ⟨r, b1⟩
  cases r with
  | error e => rfl
  | ok lr =>
    by_cases hz : lr.len = 0
    · simp [hz, RdS.pure]
    · simp [hz, RdS.pure]

theorem eol_term {eol : Bytes} (he : IsEol eol) (rest : Bytes) : Term (eol ++ rest) rest := by
  rcases he with rfl | rfl
  · exact .inl rfl
  · exact .inr (.inl rfl)

theorem lazy_lines (F : FloatFmt) (refs : List Bytes) {eol : Bytes} (he : IsEol eol)
    (rls : List Bytes) (items : List (Except LErr Rec))
    (hp : Forall₂ (LineReads F refs) rls items) :
    ∀ (fuel : Nat) (acc : List LazyRec) (rest : Bytes),
      ∃ lrs : List LazyRec, lazyRecordsS samReadRecordS (rls.length + fuel) acc (unlinesWith eol rls ++ rest)
          = lazyRecordsS samReadRecordS fuel (lrs.reverse ++ acc) rest ∧
        lrs.map (lazyToRec F refs) = items := by
  induction hp with
  | nil => intro fuel acc rest; exact ⟨[], by simp [unlinesWith], rfl⟩
  | @cons l it ls its h1 _ ih =>
    intro fuel acc rest
    have e1 : (l :: ls).length + fuel = (ls.length + fuel) + 1 := by
      simp only [List.length_cons]; omega
    have e2 : unlinesWith eol (l :: ls) ++ rest = l ++ (eol ++ (unlinesWith eol ls ++ rest)) := by
      rw [unlinesWith_cons]; simp
    obtain ⟨lr, hrd, hlen, hconv⟩ := h1 _ _ (eol_term he (unlinesWith eol ls ++ rest))
    obtain ⟨lrs, hl, hm⟩ := ih fuel (lr :: acc) rest
    refine ⟨lr :: lrs, ?_, by simp [hconv, hm]⟩
    rw [e1, e2, lazyRecordsS_succ, hrd]
    simp only [if_neg hlen]
    rw [hl]
    simp

theorem noSep_nil : NoSep [] := by intro x hx; cases hx

theorem reqFields_nil (k : Nat) (ends : List Nat) (len : Nat) :
    ∃ ends', samRequiredFieldsS k [] ends len [] = (.ok ([], ends', len), []) := by
  induction k generalizing ends len with
  | zero => exact ⟨ends, rfl⟩
  | succ k ih =>
    have h := readFieldIntoS_eof [] [] noSep_nil
    simp only [List.append_nil, List.length_nil] at h
    obtain ⟨e', he'⟩ := ih (0 :: ends) (len + 0)
    refine ⟨e', ?_⟩
    simp only [samRequiredFieldsS, RdS.bind, samRequiredFieldS, h, Bool.false_eq_true, if_false,
      RdS.pure, List.length_nil]
    exact he'

theorem samReadRecordS_nil : ∃ lr, samReadRecordS [] = (.ok lr, []) ∧ lr.len = 0 := by
  obtain ⟨e', h⟩ := reqFields_nil 10 [] 0
  have hf := readFieldIntoS_eof [] [] noSep_nil
  simp only [List.append_nil, List.length_nil] at hf
  have hl := readLineIntoS_eof [] [] (by simp)
  simp only [List.append_nil, List.length_nil] at hl
  refine ⟨⟨0 + 0 + 0, [], (0 :: e').reverse⟩, ?_, rfl⟩
  simp only [samReadRecordS, RdS.bind, h, hf, Bool.false_eq_true, if_false, hl, RdS.pure, List.length_nil]

theorem lazy_end (fuel : Nat) (acc : List LazyRec) :
    lazyRecordsS samReadRecordS (fuel + 1) acc [] = (.ok (acc.reverse, none), []) := by
  obtain ⟨lr, h1, h2⟩ := samReadRecordS_nil
  rw [lazyRecordsS_succ, h1]
  simp only [if_pos h2]

theorem samReadRecordS_blank : samReadRecordS [10] = (.error .invalidData, []) := by
  have hf := readFieldIntoS_lf [] [] [] noSep_nil (by simp)
  simp only [List.nil_append, List.length_nil] at hf
  show RdS.bind (samRequiredFieldsS (9 + 1) [] [] 0) _ [10] = _
  simp only [samRequiredFieldsS, RdS.bind, samRequiredFieldS, hf, if_true, RdS.fail]

theorem lazy_blank (fuel : Nat) (acc : List LazyRec) :
    lazyRecordsS samReadRecordS (fuel + 1) acc [10] = (.ok (acc.reverse, some .invalidData), []) := by
  rw [lazyRecordsS_succ, samReadRecordS_blank]

theorem readSamFileLazy_core (F : FloatFmt) {eol : Bytes} (he : IsEol eol) (hls rls : List Bytes)
    (h : Hdr) (rs : List Rec) (H : Lines F hls rls h rs) (items : List (Except LErr Rec))
    (hp : Forall₂ (LineReads F h.refs) rls items) (tail : Bytes) (titems : List (Except LErr Rec))
    (e : Option IOErr)
    (htail : ∀ fuel acc, tail.length ≤ fuel → ∃ tl : List LazyRec,
      lazyRecordsS samReadRecordS (fuel + 1) acc tail = (.ok (acc.reverse ++ tl, e), []) ∧
      tl.map (lazyToRec F h.refs) = titems)
    (hhead : (unlinesWith eol rls ++ tail).head? ≠ some 64) :
    readSamFileLazy F (unlinesWith eol hls ++ (unlinesWith eol rls ++ tail))
      = ⟨.ok h, items ++ titems, e⟩ := by
  have hl1 := unlinesWith_length eol he.ne_nil hls
  have hl2 := unlinesWith_length eol he.ne_nil rls
  have hh : hdrLinesS 64 ((unlinesWith eol hls ++ (unlinesWith eol rls ++ tail)).length + 1) true
      (unlinesWith eol hls ++ (unlinesWith eol rls ++ tail)) [] = (.ok hls, unlinesWith eol rls ++ tail) := by
    obtain ⟨k, hk⟩ : ∃ k, (unlinesWith eol hls ++ (unlinesWith eol rls ++ tail)).length + 1
        = hls.length + (k + 1) := by
      refine ⟨(unlinesWith eol hls ++ (unlinesWith eol rls ++ tail)).length - hls.length, ?_⟩
      simp only [List.length_append]; omega
    rw [hk, hdr_lines he hls H.hgood, hdr_end _ _ _ hhead]
    simp
  obtain ⟨k, hk, hk2⟩ : ∃ k, (unlinesWith eol rls ++ tail).length + 1 = rls.length + (k + 1) ∧
      tail.length ≤ k := by
    refine ⟨(unlinesWith eol rls ++ tail).length - rls.length, ?_, ?_⟩ <;>
      simp only [List.length_append] <;> omega
  obtain ⟨lrs, hl, hm⟩ := lazy_lines F h.refs he rls items hp (k + 1) [] tail
  obtain ⟨tl, ht1, ht2⟩ := htail k (lrs.reverse ++ []) hk2
  simp only [readSamFileLazy, hh, H.finish]
  rw [hk, hl, ht1]
  simp [hm, ht2]

/-- the last line of a file, not terminated -/
theorem lazy_last (F : FloatFmt) (refs : List Bytes) (fuel : Nat) (acc : List LazyRec) (l : Bytes)
    (item : Except LErr Rec) (h : LineReads F refs l item) :
    ∃ tl : List LazyRec, lazyRecordsS samReadRecordS (fuel + 2) acc l = (.ok (acc.reverse ++ tl, none), []) ∧
      tl.map (lazyToRec F refs) = [item] := by
  obtain ⟨lr, hrd, hlen, hconv⟩ := h [] [] (.inr (.inr ⟨rfl, rfl⟩))
  rw [List.append_nil] at hrd
  refine ⟨[lr], ?_, by simp [hconv]⟩
  rw [lazyRecordsS_succ, hrd]
  simp only [if_neg hlen]
  rw [lazy_end]
  simp

end Noodles.Sam.LazyFile
