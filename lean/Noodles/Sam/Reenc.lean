import Noodles.Bam.Reenc
import Noodles.Sam.Lazy
/-!
# A lazy `sam::Record` handed to the BAM writer

`sam::io::Reader::read_record` (`noodles-sam/src/io/reader/record.rs`) keeps the line and only
records where its eleven mandatory fields end; `sam::Record` (`record.rs`, `record/fields.rs`,
`record/{cigar,sequence,quality_scores,data}.rs`) parses a field when it is asked for. Its
`impl sam::alignment::Record` overrides one of the four hidden `*_ref` methods: `sequence_ref` is
`SequenceRef::Raw(bytes)`; CIGAR, quality scores and data go through the iterators. This file gives
that record's `Bam.View` (`viewSam`), so that `Bam.encodeView nref (viewSam …)` is what
`bam::io::Writer::write_alignment_record(&header, &sam_record)` does.

The accessors, as transcribed:
* name: `*` is `None`; anything else — also the empty string — is the name;
* flags: `lexical_core::parse::<u16>`, then `Flags::from` (`from_bits_truncate`, 12 bits);
* RNAME: `*` is `None`, otherwise the index in the header's dictionary (`InvalidData` if absent);
  RNEXT: `*` is `None`, `=` is RNAME's answer, otherwise as RNAME;
* POS / PNEXT: the bytes `0` are `None`; otherwise `parse::<usize>` and `Position::try_from`
  (so `00` is an ERROR here, while the eager parser reads it as `None`);
* MAPQ: the bytes `255` are `None`; otherwise `parse::<u8>`, and 255 is `None` again;
* CIGAR: `*` is empty; `len()` COUNTS THE BYTES `MIDNSHP=X`, `iter()` is `parse_op` until the
  bytes run out or an op fails;
* TLEN: `parse::<i32>`; SEQ / QUAL: `*` is empty, otherwise the bytes; `QualityScores::iter`
  subtracts 33 (`InvalidData` below 33);
* data: `Data::iter` (`Lazy.lean`); integers are `Int32`, or `UInt32` above `i32::MAX`.

Every accessor error is `InvalidData` except a data field cut short (`UnexpectedEof`).
Carriage returns are not modelled (the harness feeds LF-terminated lines).
-/
namespace Noodles.Sam
open Noodles.Text

/-! ### values of the SAM model as values of the BAM model -/

def kindNat : Kind → Nat
  | .M => 0 | .I => 1 | .D => 2 | .N => 3 | .S => 4 | .H => 5 | .P => 6 | .Eq => 7 | .X => 8

def toBamOp (o : Op) : Noodles.Bam.Op := ⟨kindNat o.kind, o.len⟩

def toBamTy : IntTy → Noodles.Bam.NumTy
  | .i8 => .c | .u8 => .C | .i16 => .s | .u16 => .S | .i32 => .i | .u32 => .I

def toBamVal : Value → Noodles.Bam.Val
  | .char c => .char c
  | .int t n => .num (toBamTy t) n
  | .float b => .num .f (Int.ofNat b)
  | .str s => .str s
  | .hex s => .hex s
  | .iarr t l => .arr (toBamTy t) l
  | .farr l => .arr .f (l.map Int.ofNat)

/-- a `RecordBuf` of the SAM model as a `RecordBuf` of the BAM model -/
def toBamRec (r : Rec) : Noodles.Bam.Rec where
  name := r.name
  flags := r.flags
  refId := r.rid
  pos := if r.pos = 0 then none else some r.pos
  mapq := if r.mapq = 255 then none else some r.mapq
  cigar := r.cigar.map toBamOp
  mateRefId := r.mrid
  matePos := if r.mpos = 0 then none else some r.mpos
  tlen := r.tlen
  seq := r.seq
  qual := r.qual
  data := r.data.map fun p => (p.1, toBamVal p.2)

/-! ### `read_record`: where the fields end -/

/-- bytes up to the first TAB, and what follows it; `none` without a TAB (`read_required_field`:
"unexpected EOL") -/
def takeTab : Bytes → Option (Bytes × Bytes)
  | [] => none
  | b :: r =>
    if b = 9 then some ([], r)
    else
      match takeTab r with
      | none => none
      | some (f, rest) => some (b :: f, rest)

def takeTabs : Nat → Bytes → Option (List Bytes × Bytes)
  | 0, s => some ([], s)
  | n + 1, s =>
    match takeTab s with
    | none => none
    | some (f, r) =>
      match takeTabs n r with
      | none => none
      | some (fs, rest) => some (f :: fs, rest)

structure LazyLine where
  name : Bytes
  flags : Bytes
  rname : Bytes
  pos : Bytes
  mapq : Bytes
  cigar : Bytes
  rnext : Bytes
  pnext : Bytes
  tlen : Bytes
  seq : Bytes
  qual : Bytes
  data : Bytes
deriving DecidableEq, Repr

/-- ten TAB-terminated fields, an eleventh ended by a TAB or the end of the line, then the data -/
def splitLine (l : Bytes) : Option LazyLine :=
  match takeTabs 10 l with
  | some ([f1, f2, f3, f4, f5, f6, f7, f8, f9, f10], r) =>
    some ⟨f1, f2, f3, f4, f5, f6, f7, f8, f9, f10, (nextField r).1, (nextField r).2⟩
  | _ => none

/-! ### the accessors (`record/fields.rs`) -/

open Noodles.Bam (W Iter Fail)

def star (f : Bytes) : Bytes := if f = [42] then [] else f

def lzFlags (f : Bytes) : W Nat :=
  match parseU16 f with
  | some n => .ok (n % 4096)
  | none => .error .data

def lzRid (refs : List Bytes) (f : Bytes) : W (Option Nat) :=
  if f = [42] then .ok none
  else
    match indexOf f refs with
    | some i => .ok (some i)
    | none => .error .data

def lzMateRid (refs : List Bytes) (rname f : Bytes) : W (Option Nat) :=
  if f = [42] then .ok none
  else if f = [61] then lzRid refs rname
  else lzRid refs f

def lzPos (f : Bytes) : W (Option Nat) :=
  if f = [48] then .ok none
  else
    match parseUsize f with
    | some n => if n = 0 then .error .data else .ok (some n)
    | none => .error .data

def lzMapq (f : Bytes) : W (Option Nat) :=
  if f = [50, 53, 53] then .ok none
  else
    match parseU8 f with
    | some n => .ok (if n = 255 then none else some n)
    | none => .error .data

def lzTlen (f : Bytes) : W Int :=
  match parseI32 f with
  | some n => .ok n
  | none => .error .data

/-- `Cigar::len`: the number of bytes among `MIDNSHP=X` -/
def countKinds (c : Bytes) : Nat := (c.filter fun b => (kindOf b).isSome).length

/-- `Cigar::iter` (`parse_op` per item); `fuel` ≥ length of the input -/
def lzOps : Nat → Bytes → Iter Noodles.Bam.Op
  | 0, s => ([], if s.isEmpty then none else some .data)
  | _ + 1, [] => ([], none)
  | fuel + 1, b :: s =>
    match parsePartialUsize (b :: s) with
    | none => ([], some .data)
    | some (n, rest) =>
      match rest with
      | [] => ([], some .data)
      | k :: rest' =>
        match kindOf k with
        | none => ([], some .data)
        | some kd => (⟨kindNat kd, n⟩ :: (lzOps fuel rest').1, (lzOps fuel rest').2)

/-- `QualityScores::iter`: `b.checked_sub(b'!')` -/
def lzQuals : Bytes → Iter UInt8
  | [] => ([], none)
  | b :: r =>
    if b.toNat < 33 then ([], some .data)
    else (UInt8.ofNat (b.toNat - 33) :: (lzQuals r).1, (lzQuals r).2)

/-- `Data::iter` with the fields before the first failure kept -/
def lzData (F : FloatFmt) : Nat → Bytes → Iter (Noodles.Bam.Tag × Noodles.Bam.Val)
  | 0, s => ([], if s.isEmpty then none else some .data)
  | _ + 1, [] => ([], none)
  | fuel + 1, b :: s =>
    match lazyField F (b :: s) with
    | .error .eof => ([], some .eof)
    | .error .invalidData => ([], some .data)
    | .ok (p, rest) => ((p.1, toBamVal p.2) :: (lzData F fuel rest).1, (lzData F fuel rest).2)

/-- `impl sam::alignment::Record for sam::Record` -/
def viewSam (F : FloatFmt) (refs : List Bytes) (ln : LazyLine) : Noodles.Bam.View where
  refId := lzRid refs ln.rname
  pos := lzPos ln.pos
  name := .ok (if ln.name = [42] then none else some ln.name)
  mapq := lzMapq ln.mapq
  cigar := .ok ⟨countKinds (star ln.cigar), lzOps ((star ln.cigar).length + 1) (star ln.cigar)⟩
  flags := lzFlags ln.flags
  seq := .ok ((star ln.seq).length, star ln.seq)
  mateRefId := lzMateRid refs ln.rname ln.rnext
  matePos := lzPos ln.pnext
  tlen := lzTlen ln.tlen
  qual := .ok ((star ln.qual).length, lzQuals (star ln.qual))
  data := .ok (lzData F (ln.data.length + 1) ln.data)
  cigarRef := .ok .generic
  seqRef := .ok (.raw (star ln.seq))
  qualRef := .ok .generic
  dataRef := .ok .generic

/-- `sam::io::Reader::read_record` then `bam::io::Writer::write_alignment_record`; `none` when the
reader rejects the line (fewer than eleven fields) -/
def samToBam (F : FloatFmt) (refs : List Bytes) (l : Bytes) : Option (W Bytes) :=
  match splitLine l with
  | none => none
  | some ln => some (Noodles.Bam.writeView refs.length (viewSam F refs ln))

end Noodles.Sam
