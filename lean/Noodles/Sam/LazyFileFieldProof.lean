import Noodles.Sam.LazyFileLineProof
/-!
# The lazy accessors against the eager field parsers
-/
namespace Noodles.Sam.LazyFile
open Noodles.Sam Noodles.Sam.File Noodles.IO Noodles.Text

/-- the one place where an eager-accepted mandatory field is refused by the lazy accessor: a
position text other than `0` whose value is 0 (`00`, `000`, …) -/
def PosCanon (f : Bytes) : Prop := parseUsize f = some 0 → f = [48]

theorem optE_of {α : Type} (o : Option α) (a : α) (h : optErr o = .ok a) : optE o = .ok a := by
  cases o with
  | none => cases h
  | some x => exact congrArg Except.ok (Except.ok.inj h)

theorem lazyName_of (f : Bytes) (n : Option Bytes) (h : parseName f = .ok n) : lazyName f = n := by
  unfold parseName at h
  unfold lazyName
  by_cases h1 : f = [42]
  · rw [if_pos h1] at h ⊢; exact Except.ok.inj h
  · rw [if_neg h1] at h ⊢
    by_cases h2 : f.isEmpty = true
    · rw [if_pos h2] at h; cases h
    · rw [if_neg h2] at h; exact Except.ok.inj h

theorem lazyRid_of (refs : List Bytes) (f : Bytes) (rid : Option Nat) (h : parseRid refs f = .ok rid) :
    lazyRid refs f = .ok rid := by
  unfold parseRid at h
  unfold lazyRid
  by_cases h1 : f = [42]
  · rw [if_pos h1] at h ⊢; rw [Except.ok.inj h]
  · rw [if_neg h1] at h ⊢
    cases hi : indexOf f refs with
    | none => rw [hi] at h; cases h
    | some i => rw [hi] at h; simp only at h ⊢; rw [Except.ok.inj h]

theorem lazyPos_of (f : Bytes) (p : Nat) (h : optErr (parseUsize f) = .ok p) (hc : PosCanon f) :
    lazyPos f = .ok p := by
  unfold lazyPos
  by_cases h1 : f = [48]
  · rw [if_pos h1]
    subst h1
    have : parseUsize [48] = some 0 := by decide
    rw [this] at h
    rw [Except.ok.inj h]
  · rw [if_neg h1]
    cases hp : parseUsize f with
    | none => rw [hp] at h; cases h
    | some n =>
      rw [hp] at h
      have hn : n = p := Except.ok.inj h
      subst hn
      simp only
      by_cases h0 : n = 0
      · subst h0; exact absurd (hc hp) h1
      · rw [if_neg h0]

theorem lazyMapq_of (f : Bytes) (m : Nat) (h : optErr (parseU8 f) = .ok m) : lazyMapq f = .ok m := by
  unfold lazyMapq
  by_cases h1 : f = [50, 53, 53]
  · rw [if_pos h1]
    subst h1
    have : parseU8 [50, 53, 53] = some 255 := by decide
    rw [this] at h
    rw [Except.ok.inj h]
  · rw [if_neg h1]; exact optE_of _ _ h

theorem lazyCigar_of (f : Bytes) (ops : List Op) (h : parseCigar f = .ok ops) : lazyCigar f = .ok ops := by
  unfold parseCigar at h
  unfold lazyCigar
  by_cases h1 : f = [42]
  · rw [if_pos h1] at h ⊢; rw [Except.ok.inj h]
  · rw [if_neg h1] at h ⊢
    by_cases h2 : f.isEmpty = true
    · rw [if_pos h2] at h; cases h
    · rw [if_neg h2] at h ⊢; rw [h]; rfl

theorem lazyMateRid_of (refs : List Bytes) (f3 f7 : Bytes) (rid mrid : Option Nat)
    (h3 : parseRid refs f3 = .ok rid) (h : parseMateRid refs rid f7 = .ok mrid) :
    lazyMateRid refs f3 f7 = .ok mrid := by
  unfold parseMateRid at h
  unfold lazyMateRid
  by_cases h1 : f7 = [42]
  · rw [if_pos h1] at h ⊢; rw [Except.ok.inj h]
  · rw [if_neg h1] at h ⊢
    by_cases h2 : f7 = [61]
    · rw [if_pos h2] at h ⊢
      rw [← Except.ok.inj h]
      exact lazyRid_of refs f3 rid h3
    · rw [if_neg h2] at h ⊢
      have := lazyRid_of refs f7 mrid h
      unfold lazyRid at this
      rw [if_neg h1] at this
      exact this

theorem lazySeq_of (f s : Bytes) (h : parseSeq f = .ok s) : lazySeq f = s := by
  unfold parseSeq at h
  unfold lazySeq
  by_cases h1 : f = [42]
  · rw [if_pos h1] at h ⊢; exact Except.ok.inj h
  · rw [if_neg h1] at h ⊢
    by_cases h2 : f.isEmpty = true
    · rw [if_pos h2] at h; cases h
    · rw [if_neg h2] at h; exact Except.ok.inj h

theorem lazyQual_of (n : Nat) (f q : Bytes) (h : parseQual n f = .ok q) : lazyQual f = .ok q := by
  unfold parseQual at h
  unfold lazyQual
  by_cases h1 : f = [42]
  · rw [if_pos h1] at h
    subst h1
    rw [← Except.ok.inj h]
    rfl
  · rw [if_neg h1] at h
    simp only [if_neg h1]
    by_cases h2 : f.isEmpty = true
    · rw [if_pos h2] at h; cases h
    · rw [if_neg h2] at h
      by_cases h3 : f.length ≠ n
      · rw [if_pos h3] at h; cases h
      · rw [if_neg h3] at h
        by_cases h4 : f.all isGraphic = true
        · rw [if_pos h4] at h
          have hall : f.all (fun b => decide (33 ≤ b.toNat)) = true := by
            rw [List.all_eq_true] at h4 ⊢
            intro b hb
            have := h4 b hb
            simp only [isGraphic, Bool.and_eq_true, decide_eq_true_eq] at this
            simpa using this.1
          rw [if_pos hall, ← Except.ok.inj h]
        · rw [if_neg h4] at h; cases h

/-- **Eager accepts ⇒ lazy agrees on the eleven standard fields.** The line is eleven TAB-free
fields and, after an eleventh TAB if there is one, the text `d`. If the eager parser accepts the
line as `r` and neither position text is a non-canonical zero, `try_from_alignment_record` on the
lazy record fails or succeeds with the optional fields alone, and gives `r` with the lazy reading
of the optional fields. -/
theorem lazyConv_of_eager (F : FloatFmt) (refs : List Bytes)
    (f1 f2 f3 f4 f5 f6 f7 f8 f9 f10 f11 tail d : Bytes) (r : Rec)
    (t1 : (9 : UInt8) ∉ f1) (t2 : (9 : UInt8) ∉ f2) (t3 : (9 : UInt8) ∉ f3) (t4 : (9 : UInt8) ∉ f4)
    (t5 : (9 : UInt8) ∉ f5) (t6 : (9 : UInt8) ∉ f6) (t7 : (9 : UInt8) ∉ f7) (t8 : (9 : UInt8) ∉ f8)
    (t9 : (9 : UInt8) ∉ f9) (t10 : (9 : UInt8) ∉ f10) (t11 : (9 : UInt8) ∉ f11)
    (htail : (tail = [] ∧ d = []) ∨ tail = 9 :: d) (hp4 : PosCanon f4) (hp8 : PosCanon f8)
    (h : samParse F refs (f1 ++ 9 :: (f2 ++ 9 :: (f3 ++ 9 :: (f4 ++ 9 :: (f5 ++ 9 :: (f6 ++ 9 ::
      (f7 ++ 9 :: (f8 ++ 9 :: (f9 ++ 9 :: (f10 ++ 9 :: (f11 ++ tail))))))))))) = .ok r) :
    lazyConv F refs [f1, f2, f3, f4, f5, f6, f7, f8, f9, f10, f11] d =
      match lazyDataBuf F d with
      | .error e => .error e
      | .ok data => .ok { r with data := data } := by
  have hq : nextField (f11 ++ tail) = (f11, d) := by
    rcases htail with ⟨a, b⟩ | a
    · subst a b; rw [List.append_nil]; exact nextField_free f11 t11
    · subst a; exact nextField_append f11 d t11
  unfold samParse at h
  simp only [nextField_append _ _ t1, nextField_append _ _ t2, nextField_append _ _ t3,
    nextField_append _ _ t4, nextField_append _ _ t5, nextField_append _ _ t6,
    nextField_append _ _ t7, nextField_append _ _ t8, nextField_append _ _ t9,
    nextField_append _ _ t10, hq] at h
  obtain ⟨name, e1, h⟩ := bind_ok _ _ _ h
  obtain ⟨flags, e2, h⟩ := bind_ok _ _ _ h
  obtain ⟨rid, e3, h⟩ := bind_ok _ _ _ h
  obtain ⟨pos, e4, h⟩ := bind_ok _ _ _ h
  obtain ⟨mapq, e5, h⟩ := bind_ok _ _ _ h
  obtain ⟨cigar, e6, h⟩ := bind_ok _ _ _ h
  obtain ⟨mrid, e7, h⟩ := bind_ok _ _ _ h
  obtain ⟨mpos, e8, h⟩ := bind_ok _ _ _ h
  obtain ⟨tlen, e9, h⟩ := bind_ok _ _ _ h
  obtain ⟨seq, e10, h⟩ := bind_ok _ _ _ h
  obtain ⟨qual, e11, h⟩ := bind_ok _ _ _ h
  obtain ⟨data, _, h⟩ := bind_ok _ _ _ h
  simp only [pure, Except.pure, Except.ok.injEq] at h
  subst h
  simp only [lazyConv, optE_of _ _ e2, lazyRid_of _ _ _ e3, lazyPos_of _ _ e4 hp4, lazyMapq_of _ _ e5,
    lazyCigar_of _ _ e6, lazyMateRid_of _ _ _ _ _ e3 e7, lazyPos_of _ _ e8 hp8, optE_of _ _ e9,
    lazyQual_of _ _ _ e11, lazyName_of _ _ e1, lazySeq_of _ _ e10, bind, Except.bind, pure, Except.pure]
  cases lazyDataBuf F d <;> rfl

end Noodles.Sam.LazyFile
