import Noodles.Sam.LazyFile
import Noodles.Sam.FileSpec
/-!
# Closed form of the lazy SAM file reader on the byte string

The same code as `IO.samReadRecord` / `IO.lazyRecords` (`Io/Lines.lean`), over the closed forms
`IO.specField` (one `read_field`) and `IO.specUntil` (one `read_until`) of C12 instead of the
`BufReader`. `LazyFileProof.lean` proves `readSamFileLazyB F b = readSamFileLazy F b.stream` for
every capacity ≥ 1 and every delivery schedule.
-/
namespace Noodles.Sam.LazyFile
open Noodles.Sam Noodles.Sam.File Noodles.IO

/-- a reader on the byte string: result and the bytes left -/
def RdS (β : Type) : Type := Bytes → Except IOErr β × Bytes

namespace RdS
variable {β γ : Type}
def pure (a : β) : RdS β := fun xs => (.ok a, xs)
def fail (e : IOErr) : RdS β := fun xs => (.error e, xs)
def bind (f : RdS β) (g : β → RdS γ) : RdS γ := fun xs =>
  match f xs with
  | (.error e, r) => (.error e, r)
  | (.ok a, r) => g a r
def attempt (f : RdS β) : RdS (Except IOErr β) := fun xs =>
  match f xs with
  | (.error e, r) => (.ok (.error e), r)
  | (.ok a, r) => (.ok (.ok a), r)
end RdS

def readFieldIntoS (dst : Bytes) : RdS (Bytes × Nat × Bool) := fun xs =>
  let r := specField (dst, 0, none) xs
  let isEol := r.1.2.2 == some LF
  (.ok (if isEol && (r.1.1.drop dst.length).getLast? == some CR then r.1.1.dropLast else r.1.1,
        r.1.2.1, isEol), r.2)

def readLineIntoS (dst : Bytes) : RdS (Nat × Bytes) := fun xs =>
  let l := specUntil (· == LF) xs
  (.ok (l.1.length, dst ++ Noodles.IO.stripEol l.1), l.2)

def samRequiredFieldS (dst : Bytes) : RdS (Bytes × Nat) :=
  RdS.bind (readFieldIntoS dst) fun (d, len, isEol) =>
    if isEol then RdS.fail .invalidData else RdS.pure (d, len)

def samRequiredFieldsS : Nat → Bytes → List Nat → Nat → RdS (Bytes × List Nat × Nat)
  | 0, dst, ends, len => RdS.pure (dst, ends, len)
  | k+1, dst, ends, len =>
    RdS.bind (samRequiredFieldS dst) fun (d, n) => samRequiredFieldsS k d (d.length :: ends) (len + n)

def samReadRecordS : RdS LazyRec :=
  RdS.bind (samRequiredFieldsS 10 [] [] 0) fun (d, ends, len) =>
  RdS.bind (readFieldIntoS d) fun (d', n, isEol) =>
    if isEol then RdS.pure ⟨len + n, d', (d'.length :: ends).reverse⟩
    else RdS.bind (readLineIntoS d') fun (m, d'') => RdS.pure ⟨len + n + m, d'', (d'.length :: ends).reverse⟩

def lazyRecordsS (rd : RdS LazyRec) : Nat → List LazyRec → RdS (List LazyRec × Option IOErr)
  | 0, acc => RdS.pure (acc.reverse, some .fuel)
  | fuel+1, acc =>
    RdS.bind (RdS.attempt rd) fun
      | .error e => RdS.pure (acc.reverse, some e)
      | .ok r => if r.len = 0 then RdS.pure (acc.reverse, none) else lazyRecordsS rd fuel (r :: acc)

/-- `read_header` + `records()` (+ the conversion of every record) on a byte string -/
def readSamFileLazy (F : FloatFmt) (bytes : Bytes) : LOut :=
  match hdrLinesS 64 (bytes.length + 1) true bytes [] with
  | (.error e, _) => ⟨.error e, [], none⟩
  | (.ok ls, rest) =>
    match finishHeader ls with
    | .error e => ⟨.error e, [], none⟩
    | .ok h =>
      match (lazyRecordsS samReadRecordS (rest.length + 1) [] rest).1 with
      | .error e => ⟨.ok h, [], some e⟩
      | .ok (items, e) => ⟨.ok h, items.map (lazyToRec F h.refs), e⟩

end Noodles.Sam.LazyFile
