import Noodles.Sam.Record
import Noodles.Sam.Header
import Noodles.Sam.Bam
import Noodles.Io.Lines
/-!
# Whole SAM files: header + record lines through the real line splitters (C06, file level)

Everything below is GLUE over existing transcriptions:

* writer — noodles-sam `io/writer.rs`: `write_header` = `io/writer/header.rs::write_header`
  (`Sam.headerWrite`), `write_alignment_record` = `write_record` (`Sam.samWrite`) followed by ONE
  `\n` (`io/writer/record.rs`: `write_newline`), records in order;
* reader — noodles-sam `io/reader.rs`: `read_header` = `io/reader/header.rs::read_header`: the
  `header::Reader` adaptor (`is_eol` flag, the header ends at the first line that does not start
  with `@`, decided on whatever window the inner `fill_buf` returns) read line by line with
  `read_line` (`IO.hdrLinesAll 64`, C12) and every line handed to `header::Parser::parse_partial`
  (`Sam.parseLines`; any failure is `InvalidData`); then `records()` / `record_bufs(header)` =
  repeated `read_record_buf` (`io/reader/record_buf.rs`: `buf.clear(); read_line; Ok(0)` at the end
  of the stream, else `parse_record_buf(buf, header, record)` with EVERY parse error mapped to
  `io::ErrorKind::InvalidData`) — `IO.parsedLinesAll false` (C12) over `Sam.samParse`. (`records()` is
  the LAZY reader `read_record` → `sam::Record`, transcribed as `IO.samRecordsAll` for C12; the
  harness checks on every file that both readers return the same records.)

`readSamFileB` runs on a `BufReader` of any capacity over any delivery schedule (`IO.BufR`);
`readSamFile` (`FileSpec.lean`) is its closed form on the byte string (`FileProof.lean`: they agree
for every capacity ≥ 1 and every schedule).

Difference to the code that is not observable in the result: `read_header` parses each line as soon
as it is read and returns at the first bad line, the model collects the lines first; after an error
nothing more is read from the stream by the callers modelled here.
-/
namespace Noodles.Sam.File
open Noodles.Sam

abbrev IOErr := Noodles.IO.Err

/-! ### writer -/

/-- `for record in records { writer.write_alignment_record(&header, record)?; }`: each record is
`write_record` + `\n`; the first failure is returned -/
def writeRecords (F : FloatFmt) (refs : List Bytes) : List Rec → Except Err Bytes
  | [] => .ok []
  | r :: rs =>
    match samWrite F refs r with
    | .error e => .error e
    | .ok l =>
      match writeRecords F refs rs with
      | .error e => .error e
      | .ok t => .ok (l ++ 10 :: t)

/-- `writer.write_header(&header)?` then the records -/
def writeSamFile (F : FloatFmt) (h : Hdr) (rs : List Rec) : Except Err Bytes :=
  match headerWrite h with
  | .error e => .error e
  | .ok t =>
    match writeRecords F h.refs rs with
    | .error e => .error e
    | .ok b => .ok (t ++ b)

/-! ### reader -/

/-- `read_record_buf`'s `parse_record_buf(..).map_err(|e| io::Error::new(InvalidData, e))` -/
def recParse (F : FloatFmt) (refs : List Bytes) (l : Bytes) : Except IOErr Rec :=
  match samParse F refs l with
  | .ok r => .ok r
  | .error _ => .error .invalidData

/-- what a caller of `read_header` + `record_bufs()` sees: the header (or `read_header`'s error), the
records read before the end of the stream or the first error, and that error -/
structure Out where
  hdr : Except IOErr Hdr
  recs : List Rec
  err : Option IOErr

/-- the header lines to a header: `parser.parse_partial(&buf)` per line, `parser.finish()` -/
def finishHeader (ls : List Bytes) : Except IOErr Hdr :=
  match parseLines ls {} with
  | some st => .ok st.h
  | none => .error .invalidData

/-- `reader.read_header()?; reader.record_bufs(&header).collect()` over a `BufReader` -/
def readSamFileB (F : FloatFmt) (b : Noodles.IO.BufR UInt8) : Out :=
  match Noodles.IO.hdrLinesAll 64 b with
  | (.error e, _) => ⟨.error e, [], none⟩
  | (.ok ls, b') =>
    match finishHeader ls with
    | .error e => ⟨.error e, [], none⟩
    | .ok h =>
      match (Noodles.IO.parsedLinesAll false (recParse F h.refs) b').1 with
      | .error e => ⟨.ok h, [], some e⟩
      | .ok (items, e) => ⟨.ok h, items.map (·.2), e⟩


/-! ### the quantifiers of the file theorems -/

/-- assumed of the float library in addition to `FloatFmt.Lawful` (validated on every run, oracle
class `float-line-safe`): printed floats contain neither LF nor CR -/
def LineSafe (F : FloatFmt) : Prop :=
  ∀ x, (∀ b ∈ F.fmtS x, b ≠ 10 ∧ b ≠ 13) ∧ (∀ b ∈ F.fmtA x, b ≠ 10 ∧ b ≠ 13)

/-- the record hypotheses of `sam_roundtrip`, per record -/
structure RecOk (r : Rec) : Prop where
  wt : WellTyped r
  fin : FiniteArrays r
  flags : r.flags < 4096
  qual : r.qual ≠ [9]

/-- a line the record loop takes whole and unchanged, and the header loop does not take: not empty,
does not start with `@`, no LF, no CR -/
def RecLine (l : Bytes) : Prop := l ≠ [] ∧ l.head? ≠ some 64 ∧ ∀ b ∈ l, b ≠ 10 ∧ b ≠ 13

/-- lines each followed by `eol` -/
def unlinesWith (eol : Bytes) (ls : List Bytes) : Bytes := ls.flatMap fun l => l ++ eol

/-- pointwise relation of two lists (core Lean has no `List.Forall₂`) -/
inductive Forall₂ {α β : Type} (R : α → β → Prop) : List α → List β → Prop
  | nil : Forall₂ R [] []
  | cons {a b l₁ l₂} : R a b → Forall₂ R l₁ l₂ → Forall₂ R (a :: l₁) (b :: l₂)

/-! ### text rewrites of a file -/

/-- every LF becomes CR LF -/
def toCrlf : Bytes → Bytes
  | [] => []
  | b :: r => if b = 10 then 13 :: 10 :: toCrlf r else b :: toCrlf r

/-- the file without its final byte (used on files that end with LF) -/
def dropFinalNewline (bytes : Bytes) : Bytes := bytes.dropLast

/-! ### BAM file, at the level C06 models BAM records

`bam::io::Writer`: `write_header` = the header block (`Sam.bamHeaderWrite`, byte level), then one
`block_size` + record per `write_alignment_record`; `bam::io::Reader`: `read_header`, then `records()`.
The record bytes are property C05's subject; here a BAM record write + read is the function
`Sam.bamRoundTrip` on the record value (validated against the real writer + reader on every run). -/

/-- `rs.mapM (bamRoundTrip nrefs)`: the first refused record fails the write -/
def bamRecords (nrefs : Nat) : List Rec → Except Err (List Rec)
  | [] => .ok []
  | r :: rs =>
    match bamRoundTrip nrefs r with
    | .error e => .error e
    | .ok r' =>
      match bamRecords nrefs rs with
      | .error e => .error e
      | .ok t => .ok (r' :: t)

end Noodles.Sam.File
