import Noodles.Sam.NumProof
import Noodles.Sam.Header
/-! Helper lemmas for `Props/C06.lean`: every field writer is inverted by its field parser. -/
namespace Noodles.Sam
open Noodles.Text

/-! ### generic -/

theorem bind_ok {α β : Type} (x : Except Err α) (f : α → Except Err β) (b : β)
    (h : (x >>= f) = .ok b) : ∃ a, x = .ok a ∧ f a = .ok b := by
  cases x with
  | error e => simp [bind, Except.bind] at h
  | ok a => exact ⟨a, rfl, by simpa [bind, Except.bind] using h⟩

theorem nextField_append (f rest : Bytes) (hf : (9 : UInt8) ∉ f) :
    nextField (f ++ 9 :: rest) = (f, rest) := by
  induction f with
  | nil => simp [nextField]
  | cons b r ih =>
    have hb : b ≠ 9 := fun h => hf (by simp [h])
    have hr : (9 : UInt8) ∉ r := fun h => hf (List.mem_cons_of_mem _ h)
    simp [nextField, hb, ih hr]

theorem nextField_free (f : Bytes) (hf : (9 : UInt8) ∉ f) : nextField f = (f, []) := by
  induction f with
  | nil => simp [nextField]
  | cons b r ih =>
    have hb : b ≠ 9 := fun h => hf (by simp [h])
    have hr : (9 : UInt8) ∉ r := fun h => hf (List.mem_cons_of_mem _ h)
    simp [nextField, hb, ih hr]

theorem not_mem_of_all {p : UInt8 → Bool} (l : Bytes) (c : UInt8) (h : l.all p = true)
    (hc : p c = false) : c ∉ l := by
  intro hm
  have := List.all_eq_true.mp h c hm
  rw [hc] at this; cases this

theorem tab_not_digits (l : Bytes) (h : ∀ b ∈ l, isDigit b = true) : (9 : UInt8) ∉ l := by
  intro hm; have := h 9 hm; simp [isDigit] at this

theorem tab_not_printNat (n : Nat) : (9 : UInt8) ∉ printNat n :=
  tab_not_digits _ (printNat_digits n)

theorem tab_not_printInt (v : Int) : (9 : UInt8) ∉ printInt v := by
  intro hm
  rcases printInt_bytes v 9 hm with h | h
  · simp [isDigit] at h
  · cases h

/-! ### name -/

theorem writeName_spec (o : Option Bytes) (b : Bytes) (h : writeName o = .ok b) :
    (9 : UInt8) ∉ b ∧ parseName b = .ok o := by
  cases o with
  | none =>
    simp only [writeName, Except.ok.injEq] at h
    subst h
    exact ⟨by simp, by simp [parseName]⟩
  | some n =>
    simp only [writeName] at h
    split at h
    · rename_i hv
      simp only [Except.ok.injEq] at h
      subst h
      unfold validName at hv
      simp only [Bool.and_eq_true, decide_eq_true_eq, bne_iff_ne, ne_eq] at hv
      obtain ⟨⟨⟨h1, _⟩, h3⟩, h4⟩ := hv
      refine ⟨?_, ?_⟩
      · intro hm
        have := List.all_eq_true.mp h4 9 hm
        simp [isGraphic] at this
      · unfold parseName
        rw [if_neg h3]
        have : n.isEmpty = false := by
          cases n with
          | nil => simp at h1
          | cons _ _ => rfl
        simp [this]
    · cases h

/-! ### reference sequence names -/

theorem validRname_props (n : Bytes) (h : validRname n = true) :
    n ≠ [42] ∧ n ≠ [61] ∧ (9 : UInt8) ∉ n := by
  cases n with
  | nil => simp [validRname] at h
  | cons b r =>
    simp only [validRname, Bool.and_eq_true, Bool.not_eq_true', Bool.or_eq_false_iff,
      beq_eq_false_iff_ne, ne_eq] at h
    obtain ⟨⟨⟨h1, h2⟩, h3⟩, h4⟩ := h
    refine ⟨?_, ?_, ?_⟩
    · intro e; injection e with e1 _; subst e1; simp at h1
    · intro e; injection e with e1 _; subst e1; simp at h2
    · intro hm
      rcases List.mem_cons.mp hm with e | hm
      · subst e; simp [isRnameChar, isGraphic] at h3
      · have := List.all_eq_true.mp h4 9 hm
        simp [isRnameChar, isGraphic] at this

theorem indexOf_get (refs : List Bytes) (hn : refs.Nodup) (i : Nat) (n : Bytes)
    (h : refs[i]? = some n) : indexOf n refs = some i := by
  induction refs generalizing i with
  | nil => simp at h
  | cons y ys ih =>
    have hn' := List.nodup_cons.mp hn
    cases i with
    | zero =>
      simp only [List.getElem?_cons_zero, Option.some.injEq] at h
      simp [indexOf, h]
    | succ i =>
      simp only [List.getElem?_cons_succ] at h
      have hne : y ≠ n := by
        intro e; subst e
        exact hn'.1 (List.mem_of_getElem? h)
      simp [indexOf, hne, ih hn'.2 i h]

theorem get_inj (refs : List Bytes) (hn : refs.Nodup) (i j : Nat) (n : Bytes)
    (hi : refs[i]? = some n) (hj : refs[j]? = some n) : i = j := by
  have a := indexOf_get refs hn i n hi
  have b := indexOf_get refs hn j n hj
  rw [a] at b; exact Option.some.inj b

theorem refName_spec (refs : List Bytes) (hv : ValidRefs refs) (rid : Option Nat) (rn : Option Bytes)
    (h : refName refs rid = .ok rn) :
    (9 : UInt8) ∉ writeRname rn ∧ parseRid refs (writeRname rn) = .ok rid ∧
    (∀ n, rn = some n → ∃ i, rid = some i ∧ refs[i]? = some n) ∧ (rn = none → rid = none) := by
  cases rid with
  | none =>
    simp only [refName, Except.ok.injEq] at h
    subst h
    refine ⟨?_, ?_, ?_, ?_⟩
    · simp [writeRname]
    · simp [writeRname, parseRid]
    · intro n e; cases e
    · intro _; rfl
  | some i =>
    simp only [refName] at h
    split at h
    · rename_i n hg
      simp only [Except.ok.injEq] at h
      subst h
      have hmem : n ∈ refs := List.mem_of_getElem? hg
      obtain ⟨p1, _, p3⟩ := validRname_props n (hv.2 n hmem)
      refine ⟨by simpa [writeRname] using p3, ?_, ?_, by intro e; cases e⟩
      · simp only [writeRname, parseRid, if_neg p1, indexOf_get refs hv.1 i n hg]
      · intro n' e; cases e; exact ⟨i, rfl, hg⟩
    · cases h

theorem mateRname_spec (refs : List Bytes) (hv : ValidRefs refs) (rid mrid : Option Nat)
    (rn mn : Option Bytes) (h1 : refName refs rid = .ok rn) (h2 : refName refs mrid = .ok mn) :
    (9 : UInt8) ∉ writeMateRname rn mn ∧
    parseMateRid refs rid (writeMateRname rn mn) = .ok mrid := by
  obtain ⟨_, _, a3, _⟩ := refName_spec refs hv rid rn h1
  obtain ⟨b1, b2, b3, b4⟩ := refName_spec refs hv mrid mn h2
  cases mn with
  | none =>
    have : mrid = none := b4 rfl
    subst this
    cases rn <;> simp [writeMateRname, writeRname, parseMateRid]
  | some m =>
    obtain ⟨j, hj, hgj⟩ := b3 m rfl
    obtain ⟨q1, q2, q3⟩ := validRname_props m (hv.2 m (List.mem_of_getElem? hgj))
    have plain : (9 : UInt8) ∉ m ∧ parseMateRid refs rid m = .ok mrid := by
      refine ⟨q3, ?_⟩
      simp only [parseMateRid, if_neg q1, if_neg q2]
      simpa [writeRname] using b2
    cases rn with
    | none => simpa [writeMateRname, writeRname] using plain
    | some n =>
      obtain ⟨i, hi, hgi⟩ := a3 n rfl
      simp only [writeMateRname]
      split
      · rename_i e
        subst e
        have : i = j := get_inj refs hv.1 i j n hgi hgj
        subst this
        refine ⟨by simp, ?_⟩
        simp [parseMateRid, hi, hj]
      · exact plain

/-! ### positions -/

theorem writePos_spec (n : Nat) (b : Bytes) (h : writePos n = .ok b) :
    (9 : UInt8) ∉ b ∧ parseUsize b = some n := by
  simp only [writePos] at h
  split at h
  · simp only [Except.ok.injEq] at h
    subst h
    exact ⟨tab_not_printNat n, parseUsize_print n (by omega)⟩
  · cases h

/-! ### CIGAR -/

theorem kindOf_kindChar (k : Kind) : kindOf (kindChar k) = some k := by cases k <;> rfl

theorem kindChar_not_digit (k : Kind) : isDigit (kindChar k) = false := by cases k <;> rfl

theorem kindChar_ne_tab (k : Kind) : kindChar k ≠ 9 := by cases k <;> decide

theorem tab_not_writeOp (op : Op) : (9 : UInt8) ∉ writeOp op := by
  intro hm
  rcases List.mem_append.mp hm with h | h
  · exact tab_not_printNat _ h
  · simp only [List.mem_singleton] at h
    exact kindChar_ne_tab _ h.symm

theorem parseOps_step (fuel : Nat) (s : Bytes) (hs : s ≠ []) :
    parseOps (fuel + 1) s =
      match parsePartialUsize s with
      | none => .error .invalidData
      | some (n, rest) =>
        match rest with
        | [] => .error .invalidData
        | k :: rest' =>
          match kindOf k with
          | none => .error .invalidData
          | some kd =>
            match parseOps fuel rest' with
            | .ok ops => .ok (⟨kd, n⟩ :: ops)
            | .error e => .error e := by
  cases s with
  | nil => exact absurd rfl hs
  | cons b s => rfl

theorem parseOps_flatMap (ops : List Op) (h : ∀ op ∈ ops, op.len < 18446744073709551616)
    (fuel : Nat) (hf : (ops.flatMap writeOp).length < fuel) :
    parseOps fuel (ops.flatMap writeOp) = .ok ops := by
  induction ops generalizing fuel with
  | nil =>
    cases fuel with
    | zero => simp at hf
    | succ k => simp [parseOps]
  | cons op rest ih =>
    cases fuel with
    | zero => simp at hf
    | succ k =>
      have hs : (op :: rest).flatMap writeOp
          = printNat op.len ++ (kindChar op.kind :: rest.flatMap writeOp) := by
        simp [List.flatMap_cons, writeOp]
      have hne : (op :: rest).flatMap writeOp ≠ [] := by
        rw [hs]
        obtain ⟨d, tl, hp, _⟩ := printNat_head op.len
        rw [hp]; simp
      rw [parseOps_step k _ hne, hs,
        parsePartialUsize_print op.len (h op (by simp)) _ (stops_cons _ _ (kindChar_not_digit _))]
      simp only [kindOf_kindChar]
      have hlen : (rest.flatMap writeOp).length < k := by
        rw [hs] at hf
        simp only [List.length_append, List.length_cons] at hf
        omega
      rw [ih (fun o ho => h o (List.mem_cons_of_mem _ ho)) k hlen]

theorem writeCigar_spec (ops : List Op) (h : ∀ op ∈ ops, op.len < 18446744073709551616) :
    (9 : UInt8) ∉ writeCigar ops ∧ parseCigar (writeCigar ops) = .ok ops := by
  cases ops with
  | nil => exact ⟨by simp [writeCigar], by simp [writeCigar, parseCigar]⟩
  | cons op rest =>
    have hw : writeCigar (op :: rest) = (op :: rest).flatMap writeOp := by simp [writeCigar]
    obtain ⟨d, tl, hp, hd⟩ := printNat_head op.len
    have hs : (op :: rest).flatMap writeOp = d :: (tl ++ (kindChar op.kind :: rest.flatMap writeOp)) := by
      simp [List.flatMap_cons, writeOp, hp]
    refine ⟨?_, ?_⟩
    · rw [hw]
      intro hm
      obtain ⟨o, _, ho⟩ := List.mem_flatMap.mp hm
      exact tab_not_writeOp o ho
    · rw [hw]
      unfold parseCigar
      have h1 : (op :: rest).flatMap writeOp ≠ [42] := by
        rw [hs]; intro e; injection e with e1 _
        subst e1; simp [isDigit] at hd
      have h2 : ((op :: rest).flatMap writeOp).isEmpty = false := by rw [hs]; rfl
      rw [if_neg h1]
      simp only [h2, Bool.false_eq_true, if_false]
      exact parseOps_flatMap _ h _ (by omega)

/-! ### sequence and quality scores -/

theorem writeSeq_spec (rl : Nat) (seq b : Bytes) (h : writeSeq rl seq = .ok b) :
    (9 : UInt8) ∉ b ∧ parseSeq b = .ok seq := by
  unfold writeSeq at h
  split at h
  · rename_i he
    simp only [Except.ok.injEq] at h; subst h
    have : seq = [] := by cases seq <;> simp_all
    subst this
    exact ⟨by simp, by simp [parseSeq]⟩
  · rename_i he
    split at h
    · cases h
    · split at h
      · rename_i hall
        simp only [Except.ok.injEq] at h; subst h
        refine ⟨not_mem_of_all _ 9 hall (by decide), ?_⟩
        unfold parseSeq
        have h1 : seq ≠ [42] := by
          intro e; subst e; simp [isBase, isAlpha] at hall
        rw [if_neg h1]
        simp only [Bool.not_eq_true] at he
        simp [he]
      · cases h

theorem u8_add_sub (x : UInt8) : x + 33 - 33 = x := by
  apply UInt8.toNat_inj.mp
  simp only [UInt8.toNat_sub, UInt8.toNat_add]
  have := x.toNat_lt
  have e33 : UInt8.toNat 33 = 33 := rfl
  omega

theorem writeQual_spec (n : Nat) (q b : Bytes) (h : writeQual n q = .ok b) (hq : q ≠ [9]) :
    (9 : UInt8) ∉ b ∧ parseQual n b = .ok q := by
  unfold writeQual at h
  split at h
  · rename_i he
    simp only [Except.ok.injEq] at h; subst h
    have : q = [] := by cases q <;> simp_all
    subst this
    exact ⟨by simp, by simp [parseQual]⟩
  · rename_i he
    split at h
    · rename_i hlen
      split at h
      · rename_i hall
        simp only [Except.ok.injEq] at h; subst h
        have hrange : ∀ x ∈ q, x.toNat ≤ 93 := by
          intro x hx
          simpa using List.all_eq_true.mp hall x hx
        have hg : (q.map (· + 33)).all isGraphic = true := by
          rw [List.all_eq_true]
          intro y hy
          obtain ⟨x, hx, rfl⟩ := List.mem_map.mp hy
          have := hrange x hx
          simp only [isGraphic, Bool.and_eq_true, decide_eq_true_eq, UInt8.toNat_add]
          have := x.toNat_lt
          have e33 : UInt8.toNat 33 = 33 := rfl
          omega
        refine ⟨not_mem_of_all _ 9 hg (by decide), ?_⟩
        unfold parseQual
        have h1 : q.map (· + 33) ≠ [42] := by
          intro e
          cases q with
          | nil => simp at e
          | cons x r =>
            cases r with
            | cons y r' => simp at e
            | nil =>
              simp only [List.map_cons, List.map_nil, List.cons.injEq, and_true] at e
              apply hq
              have hx := hrange x (by simp)
              have e33 : UInt8.toNat 33 = 33 := rfl
              have e42 : UInt8.toNat 42 = 42 := rfl
              have : x.toNat = 9 := by
                have := congrArg UInt8.toNat e
                simp only [UInt8.toNat_add] at this
                have := x.toNat_lt
                omega
              have : x = 9 := UInt8.toNat_inj.mp (by simpa using this)
              rw [this]
        rw [if_neg h1]
        simp only [Bool.not_eq_true] at he
        have h2 : (q.map (· + 33)).isEmpty = false := by
          cases q with
          | nil => simp at he
          | cons _ _ => rfl
        simp only [h2, Bool.false_eq_true, if_false, List.length_map, hlen, ne_eq, not_true_eq_false,
          hg, if_true]
        congr 1
        rw [List.map_map]
        conv => rhs; rw [← List.map_id q]
        apply List.map_congr_left
        intro x _
        exact u8_add_sub x
      · cases h
    · cases h

/-! ### optional fields -/

theorem intTy_bounds (t : IntTy) : -2147483648 ≤ t.lo ∧ t.hi ≤ 4294967295 := by
  cases t <;> simp [IntTy.lo, IntTy.hi]

theorem intTy_signed (t : IntTy) (v : Int) (h : t.lo ≤ v) (hv : v < 0) : t.signed = true := by
  cases t <;> simp [IntTy.lo, IntTy.signed] at * <;> omega

theorem canonInt_isSome (n : Int) (h1 : -2147483648 ≤ n) (h2 : n ≤ 4294967295) :
    ∃ v, canonInt n = some v := by
  unfold canonInt
  rw [if_neg (by omega)]
  by_cases h0 : 0 ≤ n
  · rw [if_pos h0]
    by_cases a : n ≤ 255
    · exact ⟨_, by rw [if_pos a]⟩
    · rw [if_neg a]
      by_cases b : n ≤ 65535
      · exact ⟨_, by rw [if_pos b]⟩
      · exact ⟨_, by rw [if_neg b]⟩
  · rw [if_neg h0]
    by_cases a : -128 ≤ n
    · exact ⟨_, by rw [if_pos a]⟩
    · rw [if_neg a]
      by_cases b : -32768 ≤ n
      · exact ⟨_, by rw [if_pos b]⟩
      · rw [if_neg b]
        exact ⟨_, by rw [if_pos h1]⟩

theorem canonInt_norm (t : IntTy) (n : Int) (h1 : -2147483648 ≤ n) (h2 : n ≤ 4294967295) :
    optErr (canonInt n) = .ok (numNormV (.int t n)) := by
  obtain ⟨v, hv⟩ := canonInt_isSome n h1 h2
  simp [numNormV, hv, optErr]

theorem subOf_subChar (t : IntTy) : subOf (subChar t) = some t := by cases t <;> rfl

theorem subChar_ne (t : IntTy) : subChar t ≠ 102 ∧ subChar t ≠ 9 := by cases t <;> decide

theorem parseIntArr_step (t : IntTy) (fuel : Nat) (s : Bytes) :
    parseIntArr t (fuel + 1) (44 :: s) =
      match parsePartial t.signed t.lo t.hi s with
      | none => .error .invalidData
      | some (v, rest) =>
        match parseIntArr t fuel rest with
        | .ok vs => .ok (v :: vs)
        | .error e => .error e := by
  rfl

theorem parseIntArr_flatMap (t : IntTy) (l : List Int) (h : ∀ n ∈ l, t.lo ≤ n ∧ n ≤ t.hi)
    (fuel : Nat) (hf : (l.flatMap fun n => 44 :: printInt n).length < fuel) :
    parseIntArr t fuel (l.flatMap fun n => 44 :: printInt n) = .ok l := by
  induction l generalizing fuel with
  | nil =>
    cases fuel with
    | zero => simp at hf
    | succ k => simp [parseIntArr]
  | cons n rest ih =>
    cases fuel with
    | zero => simp at hf
    | succ k =>
      have hs : (n :: rest).flatMap (fun n => 44 :: printInt n)
          = 44 :: (printInt n ++ rest.flatMap fun n => 44 :: printInt n) := by
        simp [List.flatMap_cons]
      have hstop : Stops (rest.flatMap fun n => 44 :: printInt n) := by
        cases rest with
        | nil => exact stops_nil
        | cons m r => simp only [List.flatMap_cons, List.cons_append]; exact stops_cons _ _ (by decide)
      obtain ⟨a, b⟩ := h n (by simp)
      rw [hs, parseIntArr_step,
        parsePartial_printInt t.signed t.lo t.hi n _ hstop a b (intTy_signed t n a)]
      have hlen : (rest.flatMap fun n => 44 :: printInt n).length < k := by
        rw [hs] at hf
        simp only [List.length_append, List.length_cons] at hf
        omega
      simp only
      rw [ih (fun m hm => h m (List.mem_cons_of_mem _ hm)) k hlen]

theorem tab_not_intArr (l : List Int) : (9 : UInt8) ∉ l.flatMap fun n => 44 :: printInt n := by
  intro hm
  obtain ⟨n, _, hn⟩ := List.mem_flatMap.mp hm
  rcases List.mem_cons.mp hn with e | h
  · cases e
  · exact tab_not_printInt n h

theorem floatArr_join (F : FloatFmt) (x : Nat) (xs : List Nat) :
    F.fmtA x ++ xs.flatMap (fun b => 44 :: F.fmtA b) = join 44 ((x :: xs).map F.fmtA) := by
  induction xs generalizing x with
  | nil => simp [join]
  | cons y ys ih =>
    simp only [List.flatMap_cons, List.map_cons, join, List.cons_append]
    rw [ih y]
    simp [List.map_cons]

theorem parseFloats_map (F : FloatFmt) (hF : F.Lawful) (l : List Nat)
    (h : ∀ b ∈ l, finiteBits b = true) : parseFloats F (l.map F.fmtA) = .ok l := by
  induction l with
  | nil => simp [parseFloats]
  | cons x xs ih =>
    simp only [List.map_cons, parseFloats, hF.parseA x (h x (by simp))]
    rw [ih (fun b hb => h b (List.mem_cons_of_mem _ hb))]

theorem parseFloatArr_flatMap (F : FloatFmt) (hF : F.Lawful) (l : List Nat)
    (h : ∀ b ∈ l, finiteBits b = true) :
    parseFloatArr F (l.flatMap fun b => 44 :: F.fmtA b) = .ok l := by
  cases l with
  | nil => simp [parseFloatArr]
  | cons x xs =>
    simp only [List.flatMap_cons, List.cons_append, parseFloatArr, ne_eq, not_true_eq_false, if_false]
    rw [floatArr_join, splitOn_join 44 _ (by simp)]
    · exact parseFloats_map F hF _ h
    · intro f hf
      obtain ⟨b, _, rfl⟩ := List.mem_map.mp hf
      exact fun hm => (hF.cleanA b 44 hm).2 rfl

theorem tab_not_floatArr (F : FloatFmt) (hF : F.Lawful) (l : List Nat) :
    (9 : UInt8) ∉ l.flatMap fun b => 44 :: F.fmtA b := by
  intro hm
  obtain ⟨n, _, hn⟩ := List.mem_flatMap.mp hm
  rcases List.mem_cons.mp hn with e | h
  · cases e
  · exact (hF.cleanA n 9 h).1 rfl

theorem parseValue_A (F : FloatFmt) (c : UInt8) : parseValue F 65 [c] = .ok (.char c) := by
  simp [parseValue]

theorem parseValue_i (F : FloatFmt) (s : Bytes) (n : Int) (h : parseI64 s = some n) :
    parseValue F 105 s = optErr (canonInt n) := by
  simp [parseValue, h]

theorem parseValue_f (F : FloatFmt) (s : Bytes) (b : Nat) (h : F.parse s = some b) :
    parseValue F 102 s = .ok (.float b) := by
  simp [parseValue, h]

theorem parseValue_Z (F : FloatFmt) (s : Bytes) (h : s.all isPrintable = true) :
    parseValue F 90 s = .ok (.str s) := by
  simp [parseValue, h]

theorem parseValue_H (F : FloatFmt) (s : Bytes)
    (h : (s.length % 2 == 0 && s.all isHexUpper) = true) :
    parseValue F 72 s = .ok (.hex s) := by
  simp only [parseValue]
  rw [if_neg (by decide), if_neg (by decide), if_neg (by decide), if_neg (by decide), if_pos trivial,
    if_pos h]

theorem parseValue_Bf (F : FloatFmt) (r : Bytes) (l : List Nat) (h : parseFloatArr F r = .ok l) :
    parseValue F 66 (102 :: r) = .ok (.farr l) := by
  simp [parseValue, h]

theorem parseValue_Bi (F : FloatFmt) (t : IntTy) (r : Bytes) (l : List Int)
    (h : parseIntArr t (r.length + 1) r = .ok l) :
    parseValue F 66 (subChar t :: r) = .ok (.iarr t l) := by
  simp [parseValue, (subChar_ne t).1, subOf_subChar, h]

theorem writeValue_spec (F : FloatFmt) (hF : F.Lawful) (v : Value) (b : Bytes)
    (h : writeValue F v = .ok b) (hw : v.WellTyped)
    (hfin : ∀ l, v = .farr l → ∀ x ∈ l, finiteBits x = true) :
    (9 : UInt8) ∉ b ∧ parseValue F (tyChar v) b = .ok (numNormV v) := by
  cases v with
  | char c =>
    simp only [writeValue] at h
    split at h
    · rename_i hg
      simp only [Except.ok.injEq] at h; subst h
      refine ⟨?_, parseValue_A F c⟩
      intro hm; simp only [List.mem_singleton] at hm; subst hm; simp [isGraphic] at hg
    · cases h
  | int t n =>
    simp only [writeValue, Except.ok.injEq] at h; subst h
    obtain ⟨a1, a2⟩ := intTy_bounds t
    have hw' : t.lo ≤ n ∧ n ≤ t.hi := hw
    refine ⟨tab_not_printInt n, ?_⟩
    show parseValue F 105 _ = _
    rw [parseValue_i F _ n (parseI64_print n (by omega) (by omega))]
    exact canonInt_norm t n (by omega) (by omega)
  | float x =>
    simp only [writeValue] at h
    split at h
    · rename_i hf
      simp only [Except.ok.injEq] at h; subst h
      refine ⟨fun hm => hF.cleanS x 9 hm rfl, ?_⟩
      show parseValue F 102 _ = _
      rw [parseValue_f F _ x (hF.parseS x hf)]
      rfl
    · cases h
  | str s =>
    simp only [writeValue] at h
    split at h
    · rename_i hp
      simp only [Except.ok.injEq] at h; subst h
      refine ⟨not_mem_of_all _ 9 hp (by decide), ?_⟩
      show parseValue F 90 _ = _
      rw [parseValue_Z F _ hp]
      rfl
    · cases h
  | hex s =>
    simp only [writeValue] at h
    split at h
    · rename_i hp
      simp only [Except.ok.injEq] at h; subst h
      have hall : s.all isHexUpper = true := by
        simp only [Bool.and_eq_true] at hp; exact hp.2
      refine ⟨not_mem_of_all _ 9 hall (by decide), ?_⟩
      show parseValue F 72 _ = _
      rw [parseValue_H F _ hp]
      rfl
    · cases h
  | iarr t l =>
    simp only [writeValue, Except.ok.injEq] at h; subst h
    have hw' : ∀ n ∈ l, t.lo ≤ n ∧ n ≤ t.hi := hw
    refine ⟨?_, ?_⟩
    · intro hm
      rcases List.mem_cons.mp hm with e | hm
      · exact (subChar_ne t).2 e.symm
      · exact tab_not_intArr l hm
    · show parseValue F 66 _ = _
      rw [parseValue_Bi F t _ l (parseIntArr_flatMap t l hw' _ (by omega))]
      rfl
  | farr l =>
    simp only [writeValue, Except.ok.injEq] at h; subst h
    refine ⟨?_, ?_⟩
    · intro hm
      rcases List.mem_cons.mp hm with e | hm
      · cases e
      · exact tab_not_floatArr F hF l hm
    · show parseValue F 66 _ = _
      rw [parseValue_Bf F _ l (parseFloatArr_flatMap F hF l (hfin l rfl))]
      rfl

theorem tyChar_ne_tab (v : Value) : tyChar v ≠ 9 := by cases v <;> simp [tyChar]

theorem validTag_ne_tab (t : Tag) (h : validTag t = true) : t.1 ≠ 9 ∧ t.2 ≠ 9 := by
  simp only [validTag, Bool.and_eq_true] at h
  refine ⟨?_, ?_⟩
  · intro e; rw [e] at h; simp [isAlpha] at h
  · intro e; rw [e] at h; simp [isAlnum, isAlpha, isDigit] at h

theorem writeField_spec (F : FloatFmt) (hF : F.Lawful) (t : Tag) (v : Value) (f : Bytes)
    (h : writeField F t v = .ok f) (hw : v.WellTyped)
    (hfin : ∀ l, v = .farr l → ∀ x ∈ l, finiteBits x = true) :
    (9 : UInt8) ∉ f ∧ f ≠ [] ∧ parseField F f = .ok (t, numNormV v) := by
  unfold writeField at h
  split at h
  · rename_i hv
    cases hb : writeValue F v with
    | error e => rw [hb] at h; cases h
    | ok b =>
      rw [hb] at h
      simp only [Except.ok.injEq] at h
      subst h
      obtain ⟨p1, p2⟩ := writeValue_spec F hF v b hb hw hfin
      obtain ⟨q1, q2⟩ := validTag_ne_tab t hv
      refine ⟨?_, by simp, ?_⟩
      · intro hm
        simp only [List.mem_cons] at hm
        rcases hm with e | e | e | e | e | e
        · exact q1 e.symm
        · exact q2 e.symm
        · cases e
        · exact tyChar_ne_tab v e.symm
        · cases e
        · exact p1 e
      · simp [parseField, p2]
  · cases h

/-! ### the optional-field section as a whole -/

theorem dataFields_append (f X : Bytes) (hf : (9 : UInt8) ∉ f) :
    dataFields (f ++ 9 :: X) = f :: dataFields X := by
  induction f with
  | nil => simp [dataFields]
  | cons b r ih =>
    have hb : b ≠ 9 := fun h => hf (by simp [h])
    have hr : (9 : UInt8) ∉ r := fun h => hf (List.mem_cons_of_mem _ h)
    simp [dataFields, hb, ih hr]

theorem dataFields_free (f : Bytes) (hf : (9 : UInt8) ∉ f) (hne : f ≠ []) : dataFields f = [f] := by
  induction f with
  | nil => exact absurd rfl hne
  | cons b r ih =>
    have hb : b ≠ 9 := fun h => hf (by simp [h])
    have hr : (9 : UInt8) ∉ r := fun h => hf (List.mem_cons_of_mem _ h)
    cases r with
    | nil => simp [dataFields, hb]
    | cons c r' =>
      have e := ih hr (by simp)
      rw [dataFields, if_neg hb, e]

theorem dataFields_join (fs : List Bytes) (h : ∀ f ∈ fs, (9 : UInt8) ∉ f ∧ f ≠ []) :
    dataFields (join 9 fs) = fs := by
  induction fs with
  | nil => simp [join, dataFields]
  | cons f rest ih =>
    cases rest with
    | nil =>
      obtain ⟨a, b⟩ := h f (by simp)
      simpa [join] using dataFields_free f a b
    | cons g gs =>
      simp only [join]
      rw [dataFields_append f _ (h f (by simp)).1, ih (fun x hx => h x (List.mem_cons_of_mem _ hx))]

theorem flatMap_tab (fs : List Bytes) (hne : fs ≠ []) :
    fs.flatMap (fun f => 9 :: f) = 9 :: join 9 fs := by
  induction fs with
  | nil => exact absurd rfl hne
  | cons f rest ih =>
    cases rest with
    | nil => simp [join]
    | cons g gs =>
      simp only [List.flatMap_cons, join] at *
      rw [ih (by simp)]
      simp

/-- after the QUAL field: `next_field` yields QUAL, the loop of `parse_data` yields the fields -/
theorem qual_then_data (q : Bytes) (hq : (9 : UInt8) ∉ q) (fs : List Bytes)
    (h : ∀ f ∈ fs, (9 : UInt8) ∉ f ∧ f ≠ []) :
    (nextField (q ++ fs.flatMap fun f => 9 :: f)).1 = q ∧
    dataFields (nextField (q ++ fs.flatMap fun f => 9 :: f)).2 = fs := by
  cases fs with
  | nil => simp [nextField_free q hq, dataFields]
  | cons f rest =>
    rw [flatMap_tab (f :: rest) (by simp), nextField_append q _ hq]
    exact ⟨rfl, dataFields_join _ h⟩

def normData (data : List (Tag × Value)) : List (Tag × Value) :=
  data.map fun p => (p.1, numNormV p.2)

theorem writeData_spec (F : FloatFmt) (hF : F.Lawful) (data : List (Tag × Value)) (d : Bytes)
    (h : writeData F data = .ok d) (hw : ∀ p ∈ data, p.2.WellTyped)
    (hfin : ∀ p ∈ data, ∀ l, p.2 = .farr l → ∀ x ∈ l, finiteBits x = true) :
    ∃ fs, d = fs.flatMap (fun f => 9 :: f) ∧ (∀ f ∈ fs, (9 : UInt8) ∉ f ∧ f ≠ []) ∧
      ∀ acc : List (Tag × Value), (acc.map (·.1) ++ data.map (·.1)).Nodup →
        parseData F fs acc = .ok (acc ++ normData data) := by
  induction data generalizing d with
  | nil =>
    simp only [writeData, Except.ok.injEq] at h
    subst h
    exact ⟨[], rfl, by simp, by intro acc _; simp [parseData, normData]⟩
  | cons p rest ih =>
    obtain ⟨t, v⟩ := p
    simp only [writeData] at h
    cases hf : writeField F t v with
    | error e => rw [hf] at h; cases h
    | ok f =>
      rw [hf] at h
      cases hr : writeData F rest with
      | error e => rw [hr] at h; cases h
      | ok r =>
        rw [hr] at h
        simp only [Except.ok.injEq] at h
        subst h
        obtain ⟨fs, e1, e2, e3⟩ := ih r hr (fun q hq => hw q (List.mem_cons_of_mem _ hq))
          (fun q hq => hfin q (List.mem_cons_of_mem _ hq))
        obtain ⟨s1, s2, s3⟩ := writeField_spec F hF t v f hf (hw (t, v) (by simp))
          (hfin (t, v) (by simp))
        refine ⟨f :: fs, by simp [e1], ?_, ?_⟩
        · intro x hx
          rcases List.mem_cons.mp hx with rfl | hx
          · exact ⟨s1, s2⟩
          · exact e2 x hx
        · intro acc hnd
          simp only [parseData, s3]
          have hnot : acc.any (fun p => p.1 == t) = false := by
            rw [List.any_eq_false]
            intro q hq
            simp only [beq_iff_eq]
            intro e
            have hd := List.nodup_append.mp hnd
            exact hd.2.2 q.1 (List.mem_map_of_mem hq) t (by simp) e
          simp only [hnot, Bool.false_eq_true, if_false]
          rw [e3 (acc ++ [(t, numNormV v)])]
          · simp [normData]
          · simpa [List.append_assoc] using hnd

/-! ### the whole line -/

/-- Core of C06: the reader inverts the writer on every record the writer accepts, except for the
two things SAM text cannot carry (storage width of integers, a lone quality score 9). -/
theorem samParse_samWrite (F : FloatFmt) (hF : F.Lawful) (refs : List Bytes) (hv : ValidRefs refs)
    (r : Rec) (hw : WellTyped r) (hfin : FiniteArrays r) (hflags : r.flags < 4096)
    (hq : r.qual ≠ [9]) (l : Bytes) (h : samWrite F refs r = .ok l) :
    samParse F refs l = .ok (numNorm r) := by
  unfold samWrite at h
  obtain ⟨name, h1, t1⟩ := bind_ok _ _ _ h
  obtain ⟨rn, h2, t2⟩ := bind_ok _ _ _ t1
  obtain ⟨pos, h3, t3⟩ := bind_ok _ _ _ t2
  obtain ⟨mn, h4, t4⟩ := bind_ok _ _ _ t3
  obtain ⟨mpos, h5, t5⟩ := bind_ok _ _ _ t4
  obtain ⟨seq, h6, t6⟩ := bind_ok _ _ _ t5
  obtain ⟨qual, h7, t7⟩ := bind_ok _ _ _ t6
  obtain ⟨data, h8, t8⟩ := bind_ok _ _ _ t7
  clear h t1 t2 t3 t4 t5 t6 t7
  simp only [pure, Except.pure, Except.ok.injEq] at t8
  subst t8
  obtain ⟨a1, a2⟩ := writeName_spec _ _ h1
  obtain ⟨b1, b2, _, _⟩ := refName_spec refs hv _ _ h2
  obtain ⟨c1, c2⟩ := writePos_spec _ _ h3
  obtain ⟨d1, d2⟩ := mateRname_spec refs hv _ _ _ _ h2 h4
  obtain ⟨e1, e2⟩ := writePos_spec _ _ h5
  obtain ⟨f1, f2⟩ := writeSeq_spec _ _ _ h6
  obtain ⟨g1, g2⟩ := writeQual_spec _ _ _ h7 hq
  obtain ⟨k1, k2⟩ := writeCigar_spec r.cigar hw.ops
  obtain ⟨fs, m1, m2, m3⟩ := writeData_spec F hF r.data data h8 hw.data hfin
  subst m1
  obtain ⟨q1, q2⟩ := qual_then_data qual g1 fs m2
  simp only [List.append_assoc, List.cons_append]
  unfold samParse
  simp only [nextField_append name _ a1, nextField_append _ _ (tab_not_printNat r.flags),
    nextField_append _ _ b1, nextField_append _ _ c1, nextField_append _ _ (tab_not_printNat r.mapq),
    nextField_append _ _ k1, nextField_append _ _ d1, nextField_append _ _ e1,
    nextField_append _ _ (tab_not_printInt r.tlen), nextField_append _ _ f1]
  have hdata := m3 [] (by simpa using hw.tags)
  simp only [q1, q2, a2, b2, c2, d2, e2, f2, g2, k2, hdata, parseU16_print r.flags hw.flags,
    parseU8_print r.mapq hw.mapq, parseI32_print r.tlen hw.tlen.1 hw.tlen.2, optErr, bind,
    Except.bind, pure, Except.pure, List.nil_append, Nat.mod_eq_of_lt hflags]
  rfl

/-! ### writing is blind to the integer storage width -/

theorem canonInt_int (n : Int) (v : Value) (h : canonInt n = some v) : ∃ t', v = .int t' n := by
  unfold canonInt at h
  repeat' split at h
  all_goals first | (cases h; exact ⟨_, rfl⟩) | cases h

theorem numNormV_int (t : IntTy) (n : Int) : ∃ t', numNormV (.int t n) = .int t' n := by
  have e : numNormV (.int t n) = (canonInt n).getD (.int t n) := rfl
  rw [e]
  cases hc : canonInt n with
  | none => exact ⟨t, rfl⟩
  | some v =>
    obtain ⟨t', ht⟩ := canonInt_int n v hc
    exact ⟨t', by simp [ht]⟩

theorem writeField_numNormV (F : FloatFmt) (t : Tag) (v : Value) :
    writeField F t (numNormV v) = writeField F t v := by
  cases v with
  | int ty n =>
    obtain ⟨t', e⟩ := numNormV_int ty n
    rw [e]
    simp [writeField, writeValue, tyChar]
  | _ => rfl

theorem writeData_normData (F : FloatFmt) (data : List (Tag × Value)) :
    writeData F (normData data) = writeData F data := by
  induction data with
  | nil => rfl
  | cons p rest ih =>
    obtain ⟨t, v⟩ := p
    simp only [normData, List.map_cons, writeData, writeField_numNormV] at *
    rw [ih]

theorem samWrite_numNorm (F : FloatFmt) (refs : List Bytes) (r : Rec) :
    samWrite F refs (numNorm r) = samWrite F refs r := by
  have := writeData_normData F r.data
  simp only [normData] at this
  simp only [samWrite, numNorm, this]

/-- one base with quality 9 and "no quality scores" are the same text -/
theorem samWrite_qual9 (F : FloatFmt) (refs : List Bytes) (r : Rec) (hq : r.qual = [9]) (l : Bytes)
    (h : samWrite F refs r = .ok l) : samWrite F refs { r with qual := [] } = .ok l := by
  unfold samWrite at h ⊢
  obtain ⟨name, h1, t1⟩ := bind_ok _ _ _ h
  obtain ⟨rn, h2, t2⟩ := bind_ok _ _ _ t1
  obtain ⟨pos, h3, t3⟩ := bind_ok _ _ _ t2
  obtain ⟨mn, h4, t4⟩ := bind_ok _ _ _ t3
  obtain ⟨mpos, h5, t5⟩ := bind_ok _ _ _ t4
  obtain ⟨seq, h6, t6⟩ := bind_ok _ _ _ t5
  obtain ⟨qual, h7, t7⟩ := bind_ok _ _ _ t6
  have hqual : qual = [42] := by
    rw [hq] at h7
    unfold writeQual at h7
    simp only [List.isEmpty_cons, Bool.false_eq_true, if_false] at h7
    split at h7
    · simp only [List.all_cons, List.all_nil, Bool.and_true] at h7
      split at h7
      · simp only [Except.ok.injEq] at h7
        rw [← h7]; rfl
      · cases h7
    · cases h7
  subst hqual
  simp only [h1, h2, h3, h4, h5, h6, bind, Except.bind] at t7 ⊢
  simpa [writeQual] using t7

end Noodles.Sam
