import Noodles.Sam.FileSpec
import Noodles.Io.MoreProof
import Noodles.Io.FastaProof
/-!
# The buffered SAM file reader equals its closed form on the byte stream
-/
namespace Noodles.Sam.File
open Noodles.Sam Noodles.IO

/-- one `read_line` of `header::Reader` in terms of `specHdr` -/
theorem hdrReadLine_eq_spec (pfx : UInt8) (isEol : Bool) (b : BufR UInt8) (hc : 0 < b.cap) :
    (hdrReadLine pfx isEol b).1 =
        .ok ((specHdr pfx ([], isEol) b.stream).1.1.length,
             Noodles.IO.stripEol (specHdr pfx ([], isEol) b.stream).1.1,
             (specHdr pfx ([], isEol) b.stream).1.2) ∧
      (hdrReadLine pfx isEol b).2.stream = (specHdr pfx ([], isEol) b.stream).2 ∧
      (hdrReadLine pfx isEol b).2.cap = b.cap := by
  obtain ⟨h1, h2, h3⟩ := scanLoop_spec (hdrStep pfx) (specHdr pfx) (hdrStep_spec pfx) b.fuel
    ([], isEol) b hc (mu_lt_fuel b)
  unfold hdrReadLine
  rcases e : scanLoop true (hdrStep pfx) b.fuel ([], isEol) b with ⟨r, b'⟩
  rw [e] at h1 h2 h3
  simp only at h1 h2 h3
  subst h1
  exact ⟨rfl, h2, h3⟩

theorem hdrLines_eq_S (pfx : UInt8) (fuel : Nat) (isEol : Bool) (b : BufR UInt8) (acc : List Bytes)
    (hc : 0 < b.cap) :
    (hdrLines pfx fuel isEol b acc).1 = (hdrLinesS pfx fuel isEol b.stream acc).1 ∧
      (hdrLines pfx fuel isEol b acc).2.stream = (hdrLinesS pfx fuel isEol b.stream acc).2 ∧
      (hdrLines pfx fuel isEol b acc).2.cap = b.cap := by
  induction fuel generalizing isEol b acc with
  | zero => exact ⟨rfl, rfl, rfl⟩
  | succ fuel ih =>
    obtain ⟨h1, h2, h3⟩ := hdrReadLine_eq_spec pfx isEol b hc
    simp only [hdrLines, hdrLinesS]
    rcases e1 : hdrReadLine pfx isEol b with ⟨r1, t1⟩
    rw [e1] at h1 h2 h3
    simp only at h1 h2 h3 ⊢
    subst h1
    by_cases hz : (specHdr pfx ([], isEol) b.stream).1.1.length = 0
    · rw [if_pos hz, hz]
      exact ⟨rfl, h2, h3⟩
    · rw [if_neg hz]
      obtain ⟨n, hn⟩ : ∃ n, (specHdr pfx ([], isEol) b.stream).1.1.length = n + 1 :=
        ⟨_, (Nat.succ_pred_eq_of_ne_zero hz).symm⟩
      rw [hn]
      simp only
      have := ih (specHdr pfx ([], isEol) b.stream).1.2 t1
        (Noodles.IO.stripEol (specHdr pfx ([], isEol) b.stream).1.1 :: acc) (by omega)
      rw [h2, h3] at this
      exact this

theorem parsedLines_succ {ρ : Type} (rd : RdB (Option (Nat × ρ))) (fuel : Nat)
    (acc : List (Nat × ρ)) (b : BufR UInt8) :
    parsedLines rd (fuel+1) acc b =
      match rd b with
      | (.error e, b1) => (.ok (acc.reverse, some e), b1)
      | (.ok none, b1) => (.ok (acc.reverse, none), b1)
      | (.ok (some r), b1) => parsedLines rd fuel (r :: acc) b1 := by
  simp only [parsedLines, RdB.bind, RdB.attempt]
  rcases rd b with ⟨r, b1⟩
  cases r with
  | error e => rfl
  | ok o =>
    cases o with
    | none => rfl
    | some r => rfl

theorem parsedLines_eq_S {ρ : Type} (parse : Bytes → Except IOErr ρ) (fuel : Nat)
    (b : BufR UInt8) (acc : List (Nat × ρ)) (hc : 0 < b.cap) :
    ∃ items, (parsedLines (readParsedLine false parse) fuel acc b).1 =
        .ok (items, (parsedLinesS parse fuel b.stream (acc.map (·.2))).2) ∧
      items.map (·.2) = (parsedLinesS parse fuel b.stream (acc.map (·.2))).1 := by
  induction fuel generalizing b acc with
  | zero =>
    refine ⟨acc.reverse, rfl, ?_⟩
    simp [parsedLinesS, List.map_reverse]
  | succ fuel ih =>
    obtain ⟨h1, h2, h3⟩ := readUntil_spec (· == LF) b.fuel b [] hc (mu_lt_fuel b)
    rw [parsedLines_succ, readParsedLine_eq]
    simp only [parsedLinesS]
    rw [List.nil_append] at h1
    rw [h1]
    by_cases hz : (specUntil (· == LF) b.stream).1.length = 0
    · rw [if_pos hz, if_pos hz]
      exact ⟨acc.reverse, rfl, by simp [List.map_reverse]⟩
    · rw [if_neg hz, if_neg hz]
      cases hp : parse (Noodles.IO.stripEol (specUntil (· == LF) b.stream).1) with
      | error e => exact ⟨acc.reverse, rfl, by simp [List.map_reverse]⟩
      | ok x =>
        simp only
        have := ih (readUntil (· == LF) b.fuel b []).2
          (((specUntil (· == LF) b.stream).1.length, x) :: acc) (by omega)
        rw [h2] at this
        exact this

/-- the buffered reader (any `BufReader` capacity ≥ 1, ANY delivery schedule incl. `Interrupted`)
equals the closed form on the byte stream -/
theorem readSamFileB_eq_spec (F : FloatFmt) (b : BufR UInt8) (hc : 0 < b.cap) :
    readSamFileB F b = readSamFile F b.stream := by
  obtain ⟨h1, h2, h3⟩ := hdrLines_eq_S 64 (b.stream.length + 1) true b [] hc
  unfold readSamFileB readSamFile hdrLinesAll
  rcases e1 : hdrLines 64 (b.stream.length + 1) true b [] with ⟨r1, b'⟩
  rcases e2 : hdrLinesS 64 (b.stream.length + 1) true b.stream [] with ⟨r2, rest⟩
  rw [e1, e2] at h1 h2
  rw [e1] at h3
  simp only at h1 h2 h3 ⊢
  subst h1 h2
  cases r1 with
  | error e => rfl
  | ok ls =>
    simp only
    cases finishHeader ls with
    | error e => rfl
    | ok h =>
      simp only [parsedLinesAll]
      obtain ⟨items, hi1, hi2⟩ := parsedLines_eq_S (recParse F h.refs) (b'.stream.length + 1) b' []
        (by omega)
      rw [hi1]
      simp only [List.map_nil] at hi2 ⊢
      rw [hi2]

end Noodles.Sam.File
