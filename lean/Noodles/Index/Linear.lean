import Noodles.Index.Common
/-!
# gzi, BAI and tabix index files (model)

Writers and readers transcribed from
* `noodles-bgzf/src/gzi/io/{writer,reader}/index.rs`
* `noodles-bam/src/bai/io/{writer,reader}/index.rs` (+ `index/…`)
* `noodles-tabix/src/io/{writer,reader}/index.rs` (+ `index/…`), header:
  `noodles-csi/src/io/{writer,reader}/index/header.rs` (+ `header/reference_sequence_names.rs`)

The BGZF layer around a tabix index is the parameter modelled in C01; this file is about the
uncompressed payload. A writer is a total encoder `enc…` plus the guard `guard…` of the
conversions the Rust writer checks (`u32::try_from`, `i32::try_from`, NUL-free names, …):
`write… = if guard then some enc else none` (`none` = `InvalidInput`).
-/
namespace Noodles.Index
open Noodles.Codec

/-! ## gzi -/

abbrev Gzi := List (Nat × Nat)

def encPair (p : Nat × Nat) : Bytes := le 8 p.1 ++ le 8 p.2

def decPair : Dec (Nat × Nat) := fun r =>
  match u64 r with
  | .error e => .error e
  | .ok (a, r1) =>
    match u64 r1 with
    | .error e => .error e
    | .ok (b, r2) => .ok ((a, b), r2)

/-- `write_index`: `u64` count, then `(compressed, uncompressed)` pairs -/
def encGzi (ix : Gzi) : Bytes := le 8 ix.length ++ (ix.map encPair).flatten

/-- count and pairs, without the end-of-file check -/
def decGziBody : Dec Gzi := fun r =>
  match u64 r with
  | .error e => .error e
  | .ok (n, r1) => decN decPair n r1

/-- `read_index`: after the pairs the reader demands end of file (`read_u8` must fail with
`UnexpectedEof`); anything left is `InvalidData` "unexpected trailing data" -/
def readGzi (r : Bytes) : Except Err Gzi :=
  match decGziBody r with
  | .error e => .error e
  | .ok (ix, rest) => if rest = [] then .ok ix else .error .invalid

def Gzi.WF (ix : Gzi) : Prop := ix.length < 2^64 ∧ ∀ p ∈ ix, p.1 < 2^64 ∧ p.2 < 2^64

/-! ## BAI -/

structure Bai where
  refs : List RefLin
  unplaced : Option Nat
deriving DecidableEq, Repr

def baiMagic : Bytes := [66, 65, 73, 1]   -- "BAI\x01"

def encBai (ix : Bai) : Bytes :=
  baiMagic ++ (le 4 ix.refs.length ++ ((ix.refs.map encRefLin).flatten ++ encUnplaced ix.unplaced))

/-- `read_index`; the second component is what is left of the stream -/
def readBai : Dec Bai := fun r =>
  match decMagic baiMagic r with
  | .error e => .error e
  | .ok (_, r0) =>
    match u32 r0 with
    | .error e => .error e
    | .ok (n, r1) =>
      match decN (decRefLin false) n r1 with
      | .error e => .error e
      | .ok (refs, r2) =>
        let (u, r3) := decUnplaced r2
        .ok (⟨refs, u⟩, r3)

def unplacedWF : Option Nat → Prop
  | none => True
  | some n => n < 2^64

def Bai.WF (ix : Bai) : Prop :=
  ix.refs.length < 2^32 ∧ (∀ r ∈ ix.refs, r.WF false) ∧ unplacedWF ix.unplaced

/-- the conversions the BAI writer checks (`u32::try_from` on every count and bin id) -/
def guardRefLin (bound : Nat) (r : RefLin) : Bool :=
  decide (r.bins.length + metaCount r.md < bound) &&
  r.bins.all (fun b => decide (b.1 < 2^32) && decide (b.2.length < bound)) &&
  decide (r.lin.length < bound)

def guardBai (ix : Bai) : Bool :=
  decide (ix.refs.length < 2^32) && ix.refs.all (guardRefLin (2^32))

def writeBai (ix : Bai) : Option Bytes := if guardBai ix then some (encBai ix) else none

/-! ## tabix header (also the CSI `aux` block) -/

inductive Format where
  | generic (bed : Bool)   -- `Format::Generic(CoordinateSystem::{Gff, Bed})`
  | sam
  | vcf
deriving DecidableEq, Repr

structure Header where
  format : Format
  colSeq : Nat             -- `reference_sequence_name_index` (0-based)
  colBeg : Nat             -- `start_position_index` (0-based)
  colEnd : Option Nat      -- `end_position_index` (0-based)
  metaChar : Nat           -- `line_comment_prefix` (u8)
  skip : Nat               -- `line_skip_count` (u32)
  names : List Bytes       -- `reference_sequence_names` (an `IndexSet<BString>`)
deriving DecidableEq, Repr

/-- `i32::from(Format)` -/
def encFormat : Format → Nat
  | .generic false => 0
  | .generic true => 65536
  | .sam => 1
  | .vcf => 2

/-- `Format::try_from(i32)` on the 32 bits `v`: kind = low 16 bits; for kind 0 the coordinate
system is the high 16 bits (0 = GFF, 1 = BED); the high bits are ignored for SAM and VCF -/
def decFormat (v : Nat) : Option Format :=
  if v % 65536 = 0 then
    (if v / 65536 = 0 then some (.generic false)
     else if v / 65536 = 1 then some (.generic true) else none)
  else if v % 65536 = 1 then some .sam
  else if v % 65536 = 2 then some .vcf
  else none

def Format.specialized : Format → Bool
  | .generic _ => false
  | _ => true

/-- a 1-based column index read from an `i32`: `usize::try_from` then `NonZero::try_from` -/
def decCol : Dec Nat := fun r =>
  match unle 4 r with
  | .error e => .error e
  | .ok (v, r1) => if v < 2^31 ∧ v ≠ 0 then .ok (v - 1, r1) else .error .invalid

/-- `write_end_position_index` (the guard `colEnd = none` for SAM/VCF is in `guardHeader`) -/
def encColEnd (h : Header) : Bytes :=
  if h.format.specialized then le 4 0 else le 4 (h.colEnd.getD h.colBeg + 1)

/-- `read_end_position_index` -/
def decColEnd (f : Format) (colBeg : Nat) : Dec (Option Nat) := fun r =>
  if f.specialized then
    match unle 4 r with
    | .error e => .error e
    | .ok (v, r1) => if v = 0 then .ok (none, r1) else .error .invalid
  else
    match decCol r with
    | .error e => .error e
    | .ok (i, r1) => if i = colBeg then .ok (none, r1) else .ok (some i, r1)

def namesBytes (names : List Bytes) : Bytes := (names.map (· ++ [0])).flatten

/-- `read_names` over the `l_nm` bytes: NUL-terminated strings until the bytes run out; a last
name without its NUL is an error (`ExpectedEof`), so is a repeated name (`DuplicateName`).
`cur` is the name being accumulated, `acc` the names so far. -/
def namesGo : Bytes → Bytes → List Bytes → Except Err (List Bytes)
  | [], cur, acc => if cur = [] then .ok acc else .error .invalid
  | b :: r, cur, acc =>
    if b = 0 then
      (if cur ∈ acc then .error .invalid else namesGo r [] (acc ++ [cur]))
    else namesGo r (cur ++ [b]) acc

/-- `read_reference_sequence_names`: `l_nm` (non-negative `i32`), then the names are parsed from
`reader.take(l_nm)` read to ITS end — fewer bytes if the stream is shorter; after the names a `Take`
that still has a limit left (the stream ended before `l_nm` bytes) is `UnexpectedEof` (/repo `fix:`
125ecd7; before it a names block cut short by the end of the input was accepted with the names that
were there). A parse error of what is there (a last name without NUL, a repeated name) comes first. -/
def decNames : Dec (List Bytes) := fun r =>
  match i32nn r with
  | .error e => .error e
  | .ok (l, r1) =>
    match namesGo (r1.take l) [] [] with
    | .error e => .error e
    | .ok names => if r1.length < l then .error .eof else .ok (names, r1.drop l)

def encHeader (h : Header) : Bytes :=
  le 4 (encFormat h.format) ++ (le 4 (h.colSeq + 1) ++ (le 4 (h.colBeg + 1) ++ (encColEnd h ++
    (le 4 h.metaChar ++ (le 4 h.skip ++ (le 4 (namesBytes h.names).length ++ namesBytes h.names))))))

/-- `read_header` -/
def decHeader : Dec Header := fun r =>
  match unle 4 r with
  | .error e => .error e
  | .ok (fv, r1) =>
    match decFormat fv with
    | none => .error .invalid
    | some f =>
      match decCol r1 with
      | .error e => .error e
      | .ok (cs, r2) =>
        match decCol r2 with
        | .error e => .error e
        | .ok (cb, r3) =>
          match decColEnd f cb r3 with
          | .error e => .error e
          | .ok (ce, r4) =>
            match unle 4 r4 with
            | .error e => .error e
            | .ok (m, r5) =>
              if ¬ m < 256 then .error .invalid else
              match i32nn r5 with
              | .error e => .error e
              | .ok (sk, r6) =>
                match decNames r6 with
                | .error e => .error e
                | .ok (names, r7) => .ok (⟨f, cs, cb, ce, m, sk, names⟩, r7)

/-- representable headers. `colEnd = some colBeg` is excluded: the file format has no way to
say it (it is written like `none` and read back as `none`). -/
def Header.WF (h : Header) : Prop :=
  h.colSeq + 1 < 2^31 ∧ h.colBeg + 1 < 2^31 ∧
  (if h.format.specialized then h.colEnd = none
   else ∀ e, h.colEnd = some e → e + 1 < 2^31 ∧ e ≠ h.colBeg) ∧
  h.metaChar < 256 ∧ h.skip < 2^31 ∧
  (namesBytes h.names).length < 2^31 ∧ h.names.Nodup ∧ ∀ n ∈ h.names, (0 : UInt8) ∉ n

/-- what `write_header` checks: `i32::try_from` on the column indices, the skip count and
`l_nm`; no end column for SAM/VCF; names free of NUL -/
def guardHeader (h : Header) : Bool :=
  decide (h.colSeq + 1 < 2^31) && decide (h.colBeg + 1 < 2^31) &&
  (if h.format.specialized then h.colEnd.isNone else decide (h.colEnd.getD h.colBeg + 1 < 2^31)) &&
  decide (h.skip < 2^31) && decide ((namesBytes h.names).length < 2^31) &&
  h.names.all (fun n => !n.contains 0)

/-! ## tabix -/

structure Tabix where
  header : Option Header     -- `Index::header()`; the writer refuses an index without one
  refs : List RefLin
  unplaced : Option Nat
deriving DecidableEq, Repr

def tbiMagic : Bytes := [84, 66, 73, 1]   -- "TBI\x01"

def encHeaderOpt : Option Header → Bytes
  | none => []
  | some h => encHeader h

def encTabix (ix : Tabix) : Bytes :=
  tbiMagic ++ (le 4 ix.refs.length ++ (encHeaderOpt ix.header ++
    ((ix.refs.map encRefLin).flatten ++ encUnplaced ix.unplaced)))

/-- `read_index`: `n_ref` comes BEFORE the header; header errors are wrapped as `InvalidData` -/
def readTabix : Dec Tabix := fun r =>
  match decMagic tbiMagic r with
  | .error e => .error e
  | .ok (_, r0) =>
    match i32nn r0 with
    | .error e => .error e
    | .ok (n, r1) =>
      match wrapInvalid decHeader r1 with
      | .error e => .error e
      | .ok (h, r2) =>
        match decN (decRefLin true) n r2 with
        | .error e => .error e
        | .ok (refs, r3) =>
          let (u, r4) := decUnplaced r3
          .ok (⟨some h, refs, u⟩, r4)

def Tabix.WF (ix : Tabix) : Prop :=
  (∃ h, ix.header = some h ∧ h.WF) ∧
  ix.refs.length < 2^31 ∧ (∀ r ∈ ix.refs, r.WF true) ∧ unplacedWF ix.unplaced

def guardTabix (ix : Tabix) : Bool :=
  decide (ix.refs.length < 2^31) &&
  (match ix.header with | none => false | some h => guardHeader h) &&
  ix.refs.all (guardRefLin (2^31))

def writeTabix (ix : Tabix) : Option Bytes := if guardTabix ix then some (encTabix ix) else none

end Noodles.Index
