import Noodles.Index.Linear
import Noodles.Csi.Binning
import Noodles.Csi.MinOffset
import Noodles.Csi.QueryModel
/-!
# CSI index files (model)

Transcribed from `noodles-csi/src/io/{writer,reader}/index.rs` and the files below them.
The BGZF layer is the parameter modelled in C01; this is the uncompressed payload.

A CSI reference sequence holds TWO maps: `bins` (id → chunks) and `index`
(`BinnedIndex`, id → loffset). The writer walks `bins` and writes, for each bin, NOT its own
loffset but `first_record_start_position(index, id)`: the bin's loffset (0 when `index` has
no entry) minimised over the CONTIGUOUS chain of ancestors present in `index`
(`writer/index/reference_sequences/bins.rs`). The reader rebuilds `index` from what it finds
next to each bin. So `read (write ix)` is `rewriteCsi ix`, not `ix`.
-/
namespace Noodles.Index
open Noodles.Codec
open Noodles.Csi (Binned minOffsetBinned markedB reg2bins optimize)

/-- `BinnedIndex::get` -/
def lookup : Binned → Nat → Option Nat
  | [], _ => none
  | (k, v) :: rest, id => if k = id then some v else lookup rest id

/-- the `while let Some(pid) = parent_id(id) && let Some(position) = index.get(&pid)` loop of
`first_record_start_position`; `parent_id(id) = (id - 1) / 8` for `id > 0` -/
def firstStartLoop (ix : Binned) (id m : Nat) : Nat :=
  if _h : id > 0 then
    match lookup ix ((id - 1) / 8) with
    | none => m
    | some p => firstStartLoop ix ((id - 1) / 8) (if p < m then p else m)
  else m
termination_by id
decreasing_by omega

/-- `first_record_start_position(index, id)` -/
def firstStart (ix : Binned) (id : Nat) : Nat :=
  firstStartLoop ix id ((lookup ix id).getD 0)

structure RefCsi where
  bins : Bins
  index : Binned
  md : Option Meta
deriving DecidableEq, Repr

structure CsiIndex where
  minShift : Nat
  depth : Nat
  header : Option Header
  refs : List RefCsi
  unplaced : Option Nat
deriving DecidableEq, Repr

/-- `Bin::metadata_id(depth) = bin_limit(depth) + 1`, `bin_limit(depth) = (1 << 3(depth+1)) / 7`
(computed in a `u64`; `depth ≤ 10` is asserted) -/
def metaIdCsi (depth : Nat) : Nat := 8^(depth+1) / 7 + 1

def csiMagic : Bytes := [67, 83, 73, 1]   -- "CSI\x01"

/-- `write_bin`: id, the REWRITTEN loffset, chunks -/
def encBinCsi (ix : Binned) (b : Nat × List Chunk) : Bytes :=
  le 4 b.1 ++ (le 8 (firstStart ix b.1) ++ encChunks b.2)

/-- `write_metadata` (CSI): pseudo-bin id, loffset 0, `n_chunk = 2`, two pseudo-chunks -/
def encMetaBinCsi (depth : Nat) : Option Meta → Bytes
  | none => []
  | some m => le 4 (metaIdCsi depth) ++ (le 8 0 ++ encMeta m)

def encRefCsi (depth : Nat) (r : RefCsi) : Bytes :=
  le 4 (r.bins.length + metaCount r.md) ++
    ((r.bins.map (encBinCsi r.index)).flatten ++ encMetaBinCsi depth r.md)

/-- `read_bins` (CSI): id, loffset, then metadata payload or chunks -/
def readBinsLoopCsi (metaId : Nat) :
    Nat → Bins → Binned → Option Meta → Bytes → Except Err (RefCsi × Bytes)
  | 0, bins, index, md, r => .ok (⟨bins, index, md⟩, r)
  | n+1, bins, index, md, r =>
    match u32 r with
    | .error e => .error e
    | .ok (id, r1) =>
      match u64 r1 with
      | .error e => .error e
      | .ok (loffset, r2) =>
        if id = metaId then
          match decMeta r2 with
          | .error e => .error e
          | .ok (m, r3) =>
            if md.isSome then .error .invalid
            else readBinsLoopCsi metaId n bins index (some m) r3
        else
          match decChunks r2 with
          | .error e => .error e
          | .ok (cs, r3) =>
            if bins.any (fun b => b.1 = id) then .error .invalid
            else readBinsLoopCsi metaId n (bins ++ [(id, cs)]) (index ++ [(id, loffset)]) md r3

def decRefCsi (depth : Nat) : Dec RefCsi := fun r =>
  match i32nn r with
  | .error e => .error e
  | .ok (n, r1) => readBinsLoopCsi (metaIdCsi depth) n [] [] none r1

/-- `write_aux`: `l_aux`, then the tabix header if there is one -/
def encAux : Option Header → Bytes
  | none => le 4 0
  | some h => le 4 (encHeader h).length ++ encHeader h

/-- `read_aux`: `l_aux` (non-negative `i32`); when positive the header is parsed from
`reader.take(l_aux)` (so the names `Take` inside it can be cut short by this limit as well as by the
end of the stream: `decNames` on `r1.take l`), and then `io::copy(&mut aux_reader, &mut io::sink())?`
reads and drops whatever the header parser did not consume of those `l_aux` bytes (/repo `fix:`
8288cb5; before it the `Take` was simply dropped and `n_ref` was read from the leftover bytes). A
stream that ends before `l_aux` bytes is not an error of the drain itself. -/
def decAux : Dec (Option Header) := fun r =>
  match i32nn r with
  | .error e => .error e
  | .ok (l, r1) =>
    if l = 0 then .ok (none, r1) else
    match decHeader (r1.take l) with
    | .error e => .error e
    | .ok (h, _) => .ok (some h, r1.drop l)

/-- `u8::try_from(read_i32_le)` for `min_shift` and `depth` -/
def decU8 : Dec Nat := fun r =>
  match unle 4 r with
  | .error e => .error e
  | .ok (v, r1) => if v < 256 then .ok (v, r1) else .error .invalid

def encCsi (ix : CsiIndex) : Bytes :=
  csiMagic ++ (le 4 ix.minShift ++ (le 4 ix.depth ++ (encAux ix.header ++
    (le 4 ix.refs.length ++ ((ix.refs.map (encRefCsi ix.depth)).flatten ++ encUnplaced ix.unplaced)))))

/-- `io/reader/index.rs::validate_geometry`: `min_shift > 0`, `min_shift + 3·depth < usize::BITS`
(the largest position `2^(min_shift + 3·depth) - 1` is computed in a `usize`) and
`depth ≤ Bin::MAX_DEPTH = 10` (`bin_limit` asserts it) -/
def validGeometry (ms d : Nat) : Bool := decide (0 < ms) && decide (ms + 3 * d < 64) && decide (d ≤ 10)

def decCsi : Dec CsiIndex := fun r =>
  match decMagic csiMagic r with
  | .error e => .error e
  | .ok (_, r0) =>
    match decU8 r0 with
    | .error e => .error e
    | .ok (ms, r1) =>
      match decU8 r1 with
      | .error e => .error e
      | .ok (d, r2) =>
        if ¬ validGeometry ms d then .error .invalid else
        match decAux r2 with
        | .error e => .error e
        | .ok (h, r3) =>
          match i32nn r3 with
          | .error e => .error e
          | .ok (n, r4) =>
            match decN (decRefCsi d) n r4 with
            | .error e => .error e
            | .ok (refs, r5) =>
              let (u, r6) := decUnplaced r5
              .ok (⟨ms, d, h, refs, u⟩, r6)

/-- `csi::io::Reader::read_index`: every error is reported as `InvalidData` -/
def readCsi : Dec CsiIndex := wrapInvalid decCsi

/-- what comes back: same bins, same metadata; `index` now has exactly the bins' ids, each with
the loffset the writer computed -/
def rewriteRef (r : RefCsi) : RefCsi :=
  { r with index := r.bins.map fun b => (b.1, firstStart r.index b.1) }

def rewriteCsi (ix : CsiIndex) : CsiIndex := { ix with refs := ix.refs.map rewriteRef }

def RefCsi.WF (depth : Nat) (r : RefCsi) : Prop :=
  Bins.WF (metaIdCsi depth) r.bins ∧ r.bins.length + 1 < 2^31 ∧ metaWF r.md ∧
  ∀ p ∈ r.index, p.2 < 2^64

/-- the invariant both the indexer and the reader establish: `index` has one loffset per bin -/
def RefCsi.Aligned (r : RefCsi) : Prop :=
  (r.index.map (·.1)).Nodup ∧ ∀ id, id ∈ r.index.map (·.1) ↔ id ∈ r.bins.map (·.1)

/-- the geometry the reader accepts (`validGeometry`): `0 < min_shift`, `min_shift + 3·depth < 64`,
`depth ≤ 10` -/
def CsiIndex.WF (ix : CsiIndex) : Prop :=
  validGeometry ix.minShift ix.depth = true ∧
  (∀ h, ix.header = some h → h.WF ∧ (encHeader h).length < 2^31) ∧
  ix.refs.length < 2^31 ∧ (∀ r ∈ ix.refs, r.WF ix.depth) ∧ unplacedWF ix.unplaced

def guardRefCsi (r : RefCsi) : Bool :=
  decide (r.bins.length + metaCount r.md < 2^31) &&
  r.bins.all (fun b => decide (b.1 < 2^32) && decide (b.2.length < 2^31))

def guardCsi (ix : CsiIndex) : Bool :=
  (match ix.header with
    | none => true
    | some h => guardHeader h && decide ((encHeader h).length < 2^31)) &&
  decide (ix.refs.length < 2^31) && ix.refs.all guardRefCsi

def writeCsi (ix : CsiIndex) : Option Bytes := if guardCsi ix then some (encCsi ix) else none

/-- `BinningIndex::query` on one reference sequence of a CSI index: chunks of the bins (in map
order) marked by `reg2bins`, pruned with `min_offset` and merged by `optimize_chunks` -/
def queryRef (r : RefCsi) (minShift depth qs qe : Nat) : List Chunk :=
  optimize ((r.bins.filter fun b => markedB (reg2bins (qs-1) (qe-1) minShift depth) b.1).flatMap (·.2))
    (minOffsetBinned r.index minShift depth qs)

end Noodles.Index
