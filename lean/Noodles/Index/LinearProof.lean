import Noodles.Index.Linear
import Noodles.Index.CommonProof
/-! Round-trip lemmas for gzi, BAI, the tabix header and tabix. -/
namespace Noodles.Index
open Noodles.Codec

/-! ## gzi -/

theorem decPair_rt : RoundTrip encPair decPair (fun p => p.1 < 2^64 ∧ p.2 < 2^64) := by
  intro p ⟨h1, h2⟩ r
  unfold encPair decPair
  rw [List.append_assoc, u64_le p.1 h1]
  simp only
  rw [u64_le p.2 h2]

theorem decGziBody_rt (ix : Gzi) (h : ix.WF) (r : Bytes) :
    decGziBody (encGzi ix ++ r) = .ok (ix, r) := by
  unfold decGziBody encGzi
  rw [List.append_assoc, u64_le _ h.1]
  exact decN_map encPair decPair _ decPair_rt ix h.2 r

theorem readGzi_rt (ix : Gzi) (h : ix.WF) : readGzi (encGzi ix) = .ok ix := by
  have := decGziBody_rt ix h []
  rw [List.append_nil] at this
  simp [readGzi, this]

theorem readGzi_trailing (ix : Gzi) (h : ix.WF) (rest : Bytes) (hr : rest ≠ []) :
    readGzi (encGzi ix ++ rest) = .error .invalid := by
  simp [readGzi, decGziBody_rt ix h rest, hr]

/-! ## BAI -/

theorem readBai_prefix (refs : List RefLin) (hl : refs.length < 2^32)
    (hr : ∀ r ∈ refs, r.WF false) (tail : Bytes) :
    readBai (baiMagic ++ (le 4 refs.length ++ ((refs.map encRefLin).flatten ++ tail)))
      = .ok (⟨refs, (decUnplaced tail).1⟩, (decUnplaced tail).2) := by
  unfold readBai
  rw [decMagic_rt]
  simp only
  rw [u32_le _ hl]
  simp only
  rw [decN_map encRefLin (decRefLin false) _ (decRefLin_rt false) refs hr tail]

theorem readBai_rt_some (ix : Bai) (h : ix.WF) (n : Nat) (hu : ix.unplaced = some n)
    (rest : Bytes) : readBai (encBai ix ++ rest) = .ok (ix, rest) := by
  obtain ⟨h1, h2, h3⟩ := h
  have hn : n < 2^64 := by rw [hu] at h3; exact h3
  unfold encBai
  simp only [List.append_assoc]
  rw [readBai_prefix ix.refs h1 h2, hu, decUnplaced_some n hn]
  cases ix; simp_all

theorem readBai_rt_none (ix : Bai) (h : ix.WF) (hu : ix.unplaced = none) :
    readBai (encBai ix) = .ok (ix, []) := by
  obtain ⟨h1, h2, _⟩ := h
  unfold encBai
  rw [readBai_prefix ix.refs h1 h2, hu]
  have := decUnplaced_nil
  rw [List.append_nil] at this
  rw [this]
  cases ix; simp_all

theorem guardRefLin_of_WF (signed : Bool) (bound : Nat) (hb : countBound signed ≤ bound)
    (r : RefLin) (h : r.WF signed) : guardRefLin bound r = true := by
  obtain ⟨⟨_, hbins⟩, h2, _, h4, _⟩ := h
  have hcb := countBound_le signed
  have h31 : 2^31 ≤ countBound signed := by cases signed <;> simp [countBound]
  unfold guardRefLin
  simp only [Bool.and_eq_true, decide_eq_true_eq, List.all_eq_true]
  refine ⟨⟨?_, ?_⟩, by omega⟩
  · cases r.md <;> simp [metaCount] <;> omega
  · intro b hb'
    obtain ⟨g1, _, g3, _⟩ := hbins b hb'
    exact ⟨g1, by omega⟩

theorem guardBai_of_WF (ix : Bai) (h : ix.WF) : guardBai ix = true := by
  unfold guardBai
  simp only [Bool.and_eq_true, decide_eq_true_eq, List.all_eq_true]
  exact ⟨h.1, fun r hr => guardRefLin_of_WF false _ (by simp [countBound]) r (h.2.1 r hr)⟩

/-! ## tabix header -/

theorem decFormat_enc (f : Format) : decFormat (encFormat f) = some f := by
  cases f with
  | generic b => cases b <;> decide
  | sam => decide
  | vcf => decide

theorem encFormat_lt (f : Format) : encFormat f < 2^32 := by
  cases f with
  | generic b => cases b <;> decide
  | sam => decide
  | vcf => decide

theorem decCol_rt (i : Nat) (h : i + 1 < 2^31) (r : Bytes) :
    decCol (le 4 (i + 1) ++ r) = .ok (i, r) := by
  unfold decCol
  rw [unle4_le _ (by omega)]
  simp [h]

theorem namesGo_name (n : Bytes) (hn : (0 : UInt8) ∉ n) :
    ∀ (cur : Bytes) (acc : List Bytes) (tl : Bytes),
      namesGo (n ++ 0 :: tl) cur acc =
        if cur ++ n ∈ acc then .error .invalid else namesGo tl [] (acc ++ [cur ++ n]) := by
  induction n with
  | nil => intro cur acc tl; simp [namesGo]
  | cons b n ih =>
    intro cur acc tl
    have hb : b ≠ 0 := fun e => hn (by simp [e])
    have hn' : (0 : UInt8) ∉ n := fun e => hn (List.mem_cons_of_mem _ e)
    simp only [List.cons_append, namesGo, hb, if_false]
    rw [ih hn']
    simp

theorem namesGo_all (names : List Bytes) :
    ∀ acc : List Bytes, (acc ++ names).Nodup → (∀ n ∈ names, (0 : UInt8) ∉ n) →
      namesGo (namesBytes names) [] acc = .ok (acc ++ names) := by
  induction names with
  | nil => intro acc _ _; simp [namesBytes, namesGo]
  | cons n ns ih =>
    intro acc hnd hfree
    have e : namesBytes (n :: ns) = n ++ 0 :: namesBytes ns := by simp [namesBytes]
    rw [e, namesGo_name n (hfree n (by simp))]
    have hnotin : n ∉ acc := by
      intro hin
      rw [List.nodup_append] at hnd
      exact hnd.2.2 n hin n (by simp) rfl
    simp only [List.nil_append, hnotin, if_false]
    have e2 : acc ++ n :: ns = (acc ++ [n]) ++ ns := by simp
    rw [e2] at hnd ⊢
    exact ih _ hnd (fun x hx => hfree x (List.mem_cons_of_mem _ hx))

theorem decNames_rt (names : List Bytes) (hl : (namesBytes names).length < 2^31)
    (hnd : names.Nodup) (hfree : ∀ n ∈ names, (0 : UInt8) ∉ n) (r : Bytes) :
    decNames (le 4 (namesBytes names).length ++ (namesBytes names ++ r)) = .ok (names, r) := by
  unfold decNames
  rw [i32nn_le _ hl]
  simp only [List.take_left', List.drop_left']
  rw [namesGo_all names [] (by simpa using hnd) hfree]
  -- the writer's names block has exactly `l_nm` bytes: the `Take` is used up (fix 125ecd7)
  have hfull : ¬ (namesBytes names ++ r).length < (namesBytes names).length := by
    rw [List.length_append]; omega
  simp only [hfull, if_false, List.nil_append]

/-- /repo `fix:` 125ecd7: a names block with fewer than `l_nm` bytes before the end of the input is
an error whatever the bytes that are there (`UnexpectedEof`, or the parse error of what is there) -/
theorem decNames_short (l : Nat) (hl : l < 2^31) (bs : Bytes) (h : bs.length < l) :
    ∃ e, decNames (le 4 l ++ bs) = .error e := by
  unfold decNames
  rw [i32nn_le _ hl]
  simp only
  cases namesGo (bs.take l) [] [] with
  | error e => exact ⟨e, rfl⟩
  | ok ns => exact ⟨.eof, by simp only [h, if_true]⟩

theorem decColEnd_rt (h : Header)
    (hw : if h.format.specialized then h.colEnd = none
          else ∀ e, h.colEnd = some e → e + 1 < 2^31 ∧ e ≠ h.colBeg)
    (hb : h.colBeg + 1 < 2^31) (r : Bytes) :
    decColEnd h.format h.colBeg (encColEnd h ++ r) = .ok (h.colEnd, r) := by
  unfold decColEnd encColEnd
  cases hs : h.format.specialized with
  | true =>
    simp only [hs, if_true] at hw ⊢
    rw [unle4_le 0 (by decide)]
    simp [hw]
  | false =>
    simp only [hs, Bool.false_eq_true, if_false] at hw ⊢
    cases he : h.colEnd with
    | none =>
      simp only [Option.getD_none]
      rw [decCol_rt _ hb]
      simp
    | some e =>
      obtain ⟨g1, g2⟩ := hw e he
      simp only [Option.getD_some]
      rw [decCol_rt _ g1]
      simp [g2]

theorem decHeader_rt : RoundTrip encHeader decHeader Header.WF := by
  intro h ⟨h1, h2, h3, h4, h5, h6, h7, h8⟩ r
  unfold decHeader encHeader
  simp only [List.append_assoc]
  rw [unle4_le _ (encFormat_lt h.format)]
  simp only [decFormat_enc]
  rw [decCol_rt _ h1]
  simp only
  rw [decCol_rt _ h2]
  simp only
  rw [decColEnd_rt h h3 h2]
  simp only
  rw [unle4_le _ (by omega)]
  simp only [h4, not_true_eq_false, if_false]
  rw [i32nn_le _ h5]
  simp only
  rw [decNames_rt h.names h6 h7 h8]

theorem guardHeader_of_WF (h : Header) (hw : h.WF) : guardHeader h = true := by
  obtain ⟨h1, h2, h3, _, h5, h6, _, h8⟩ := hw
  unfold guardHeader
  simp only [Bool.and_eq_true, decide_eq_true_eq, List.all_eq_true, Bool.not_eq_true']
  refine ⟨⟨⟨⟨⟨h1, h2⟩, ?_⟩, h5⟩, h6⟩, ?_⟩
  · cases hs : h.format.specialized with
    | true => simp only [hs, if_true] at h3 ⊢; simp [h3]
    | false =>
      simp only [hs, Bool.false_eq_true, if_false] at h3 ⊢
      cases he : h.colEnd with
      | none => simpa using h2
      | some e => simpa using (h3 e he).1
  · intro n hn
    simpa using h8 n hn

/-! ## tabix -/

theorem readTabix_prefix (h : Header) (hw : h.WF) (refs : List RefLin) (hl : refs.length < 2^31)
    (hr : ∀ r ∈ refs, r.WF true) (tail : Bytes) :
    readTabix (tbiMagic ++ (le 4 refs.length ++ (encHeader h ++
        ((refs.map encRefLin).flatten ++ tail))))
      = .ok (⟨some h, refs, (decUnplaced tail).1⟩, (decUnplaced tail).2) := by
  unfold readTabix
  rw [decMagic_rt]
  simp only
  rw [i32nn_le _ hl]
  simp only
  rw [wrapInvalid_ok _ _ _ (decHeader_rt h hw _)]
  simp only
  rw [decN_map encRefLin (decRefLin true) _ (decRefLin_rt true) refs hr tail]

theorem readTabix_rt_some (ix : Tabix) (h : ix.WF) (n : Nat) (hu : ix.unplaced = some n)
    (rest : Bytes) : readTabix (encTabix ix ++ rest) = .ok (ix, rest) := by
  obtain ⟨⟨hd, hh, hw⟩, h1, h2, h3⟩ := h
  have hn : n < 2^64 := by rw [hu] at h3; exact h3
  unfold encTabix
  simp only [List.append_assoc, hh, encHeaderOpt]
  rw [readTabix_prefix hd hw ix.refs h1 h2, hu, decUnplaced_some n hn]
  cases ix; simp_all

theorem readTabix_rt_none (ix : Tabix) (h : ix.WF) (hu : ix.unplaced = none) :
    readTabix (encTabix ix) = .ok (ix, []) := by
  obtain ⟨⟨hd, hh, hw⟩, h1, h2, _⟩ := h
  unfold encTabix
  simp only [hh, encHeaderOpt]
  rw [readTabix_prefix hd hw ix.refs h1 h2, hu]
  have := decUnplaced_nil
  rw [List.append_nil] at this
  rw [this]
  cases ix; simp_all

theorem guardTabix_of_WF (ix : Tabix) (h : ix.WF) : guardTabix ix = true := by
  obtain ⟨⟨hd, hh, hw⟩, h1, h2, _⟩ := h
  unfold guardTabix
  simp only [Bool.and_eq_true, decide_eq_true_eq, List.all_eq_true, hh]
  exact ⟨⟨h1, guardHeader_of_WF hd hw⟩,
    fun r hr => guardRefLin_of_WF true _ (by simp [countBound]) r (h2 r hr)⟩

end Noodles.Index
