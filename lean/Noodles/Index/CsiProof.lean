import Noodles.Index.Csi
import Noodles.Index.LinearProof
import Noodles.Csi.QueryProof
/-! Round-trip and same-answers lemmas for CSI index files. -/
namespace Noodles.Index
open Noodles.Codec
open Noodles.Csi (Binned minOffsetBinned binEnd binEndLoop listMin lvl seven_lvl binEnd_spec
  lvl_succ_le listMin_le)

/-! ## `first_record_start_position` -/

theorem lookup_mem (ix : Binned) (id v : Nat) (h : lookup ix id = some v) : (id, v) ∈ ix := by
  induction ix with
  | nil => simp [lookup] at h
  | cons p rest ih =>
    obtain ⟨k, w⟩ := p
    unfold lookup at h
    split at h
    · rename_i hk
      cases h; subst hk; simp
    · exact List.mem_cons_of_mem _ (ih h)

theorem lookup_of_mem (ix : Binned) (id v : Nat) (hnd : (ix.map (·.1)).Nodup) (h : (id, v) ∈ ix) :
    lookup ix id = some v := by
  induction ix with
  | nil => cases h
  | cons p rest ih =>
    obtain ⟨k, w⟩ := p
    simp only [List.map_cons, List.nodup_cons] at hnd
    unfold lookup
    rcases List.mem_cons.mp h with heq | hr
    · cases heq; simp
    · have hne : k ≠ id := by
        intro e; subst e
        exact hnd.1 (List.mem_map_of_mem (f := (·.1)) hr)
      simp only [hne, if_false]
      exact ih hnd.2 hr

/-- `a` is reached from `id` by walking up through parents that are all present in `ix` -/
inductive Chain (ix : Binned) : Nat → Nat → Prop where
  | step (id : Nat) (v : Nat) (h0 : id > 0) (hp : lookup ix ((id - 1) / 8) = some v) :
      Chain ix id ((id - 1) / 8)
  | trans (id a b : Nat) : Chain ix id a → Chain ix a b → Chain ix id b

/-- the loop returns its start value or the loffset of a present bin further up the chain -/
theorem firstStartLoop_spec (ix : Binned) (id m : Nat) :
    firstStartLoop ix id m ≤ m ∧
    (firstStartLoop ix id m = m ∨
      ∃ a v, Chain ix id a ∧ (a, v) ∈ ix ∧ firstStartLoop ix id m = v) := by
  induction id using Nat.strongRecOn generalizing m with
  | _ id ih =>
    unfold firstStartLoop
    split
    · rename_i h0
      split
      · exact ⟨Nat.le_refl _, Or.inl rfl⟩
      · rename_i p hp
        obtain ⟨hle, hor⟩ := ih ((id - 1) / 8) (by omega) (if p < m then p else m)
        have hstep : Chain ix id ((id - 1) / 8) := Chain.step id p h0 hp
        refine ⟨?_, ?_⟩
        · have : (if p < m then p else m) ≤ m := by split <;> omega
          omega
        · rcases hor with he | ⟨a, v, hc, hm, he⟩
          · by_cases hpm : p < m
            · right
              refine ⟨(id - 1) / 8, p, hstep, lookup_mem _ _ _ hp, ?_⟩
              rw [he]; simp [hpm]
            · left; rw [he]; simp [hpm]
          · right
            exact ⟨a, v, Chain.trans _ _ _ hstep hc, hm, he⟩
    · exact ⟨Nat.le_refl _, Or.inl rfl⟩

theorem firstStart_le (ix : Binned) (id : Nat) : firstStart ix id ≤ (lookup ix id).getD 0 :=
  (firstStartLoop_spec ix id _).1

theorem firstStart_lt (ix : Binned) (id B : Nat) (hB : 0 < B) (h : ∀ p ∈ ix, p.2 < B) :
    firstStart ix id < B := by
  have := firstStart_le ix id
  cases hl : lookup ix id with
  | none => rw [hl] at this; simp at this; omega
  | some v =>
    rw [hl] at this
    have := h _ (lookup_mem _ _ _ hl)
    simp at *; omega

/-! ## bytes -/

theorem readBinsLoopCsi_bins (metaId : Nat) (ix : Binned) (bins : Bins) :
    ∀ (accB : Bins) (accI : Binned) (md : Option Meta) (k : Nat) (r : Bytes),
      ((accB ++ bins).map (·.1)).Nodup →
      (∀ b ∈ bins, b.1 < 2^32 ∧ b.1 ≠ metaId ∧ b.2.length < 2^31 ∧ ∀ c ∈ b.2, Chunk.WF c) →
      (∀ b ∈ bins, firstStart ix b.1 < 2^64) →
      readBinsLoopCsi metaId (k + bins.length) accB accI md
          ((bins.map (encBinCsi ix)).flatten ++ r)
        = readBinsLoopCsi metaId k (accB ++ bins)
            (accI ++ bins.map fun b => (b.1, firstStart ix b.1)) md r := by
  induction bins with
  | nil => intro accB accI md k r _ _ _; simp
  | cons b bs ih =>
    intro accB accI md k r hnd hwf hfs
    obtain ⟨h1, h2, h3, h4⟩ := hwf b (by simp)
    have hk : k + (b :: bs).length = (k + bs.length) + 1 := by simp; omega
    rw [hk]
    simp only [List.map_cons, List.flatten_cons, List.append_assoc, encBinCsi]
    conv => lhs; unfold readBinsLoopCsi
    rw [u32_le b.1 h1]
    simp only
    rw [u64_le _ (hfs b (by simp))]
    simp only [h2, if_false]
    rw [decChunks_rt b.2 h3 h4]
    simp only
    have hnot : accB.any (fun x => x.1 = b.1) = false := by
      rw [List.any_eq_false]
      intro x hx
      simp only [decide_eq_true_eq]
      intro hxb
      rw [List.map_append, List.nodup_append] at hnd
      exact hnd.2.2 x.1 (List.mem_map_of_mem hx) b.1 (by simp) hxb
    rw [hnot]
    simp only [Bool.false_eq_true, if_false]
    have e : accB ++ b :: bs = (accB ++ [(b.1, b.2)]) ++ bs := by simp
    have e' : accI ++ (b.1, firstStart ix b.1) :: bs.map (fun b => (b.1, firstStart ix b.1))
        = (accI ++ [(b.1, firstStart ix b.1)]) ++ bs.map (fun b => (b.1, firstStart ix b.1)) := by
      simp
    rw [e] at hnd ⊢
    rw [e']
    exact ih _ _ md k r hnd (fun x hx => hwf x (List.mem_cons_of_mem _ hx))
      (fun x hx => hfs x (List.mem_cons_of_mem _ hx))

theorem metaIdCsi_lt (depth : Nat) (h : depth ≤ 10) : metaIdCsi depth < 2^32 := by
  unfold metaIdCsi
  have h1 : 8^(depth+1) ≤ 8^11 := Nat.pow_le_pow_right (by decide) (by omega)
  have h2 : 8^(depth+1) / 7 ≤ 8^11 / 7 := Nat.div_le_div_right h1
  have h3 : 8^11 / 7 + 1 < 2^32 := by decide
  omega

theorem decRefCsi_rt (depth : Nat) (hd : depth ≤ 10) (ref : RefCsi) (h : ref.WF depth) (r : Bytes) :
    decRefCsi depth (encRefCsi depth ref ++ r) = .ok (rewriteRef ref, r) := by
  obtain ⟨hb, hl, hm, hi⟩ := h
  unfold decRefCsi encRefCsi
  rw [List.append_assoc, i32nn_le _ (by cases ref.md <;> simp [metaCount] <;> omega)]
  simp only [List.append_assoc]
  have e : ref.bins.length + metaCount ref.md = metaCount ref.md + ref.bins.length :=
    Nat.add_comm _ _
  rw [e, readBinsLoopCsi_bins (metaIdCsi depth) ref.index ref.bins [] [] none (metaCount ref.md) _
    (by simpa using hb.1) hb.2 (fun b _ => firstStart_lt _ _ _ (by decide) hi)]
  cases hmd : ref.md with
  | none => simp [metaCount, encMetaBinCsi, readBinsLoopCsi, rewriteRef, hmd]
  | some m =>
    rw [hmd] at hm
    simp only [metaCount, encMetaBinCsi, List.nil_append, List.append_assoc]
    unfold readBinsLoopCsi
    rw [u32_le _ (metaIdCsi_lt depth hd)]
    simp only
    rw [u64_le 0 (by decide)]
    simp only [if_true]
    rw [decMeta_rt m hm]
    simp [readBinsLoopCsi, rewriteRef, hmd]

/-- `decN_map` for a decoder that returns a function of what was encoded -/
theorem decN_map' {α β : Type} (enc : α → Bytes) (dec : Dec β) (f : α → β) (P : α → Prop)
    (h : ∀ a, P a → ∀ r, dec (enc a ++ r) = .ok (f a, r)) (xs : List α) (hx : ∀ x ∈ xs, P x)
    (r : Bytes) : decN dec xs.length ((xs.map enc).flatten ++ r) = .ok (xs.map f, r) := by
  induction xs with
  | nil => simp [decN]
  | cons x xs ih =>
    simp only [List.map_cons, List.flatten_cons, List.append_assoc, List.length_cons, decN]
    rw [h x (hx x (by simp))]
    simp only
    rw [ih (fun y hy => hx y (List.mem_cons_of_mem _ hy))]

theorem decAux_rt (h : Option Header)
    (hw : ∀ hd, h = some hd → hd.WF ∧ (encHeader hd).length < 2^31) (r : Bytes) :
    decAux (encAux h ++ r) = .ok (h, r) := by
  unfold decAux encAux
  cases h with
  | none =>
    simp only
    rw [i32nn_le 0 (by decide)]
    simp
  | some hd =>
    obtain ⟨g1, g2⟩ := hw hd rfl
    simp only [List.append_assoc]
    rw [i32nn_le _ g2]
    have hpos : (encHeader hd).length ≠ 0 := by
      unfold encHeader; simp [le_length]
    -- the writer's `aux` block is exactly the header: nothing is left for the drain (fix 8288cb5)
    simp only [hpos, if_false, List.take_left', List.drop_left']
    have := decHeader_rt hd g1 []
    rw [List.append_nil] at this
    rw [this]

/-- /repo `fix:` 8288cb5: an `aux` block longer than the tabix header in it — `l_aux = header +
padding` — is read as that header, and ALL `l_aux` bytes are consumed: what follows the padding is what
the reader goes on with -/
theorem decAux_padded (hd : Header) (hw : hd.WF) (pad r : Bytes)
    (hl : (encHeader hd).length + pad.length < 2^31) :
    decAux (le 4 ((encHeader hd).length + pad.length) ++ (encHeader hd ++ (pad ++ r))) = .ok (some hd, r) := by
  unfold decAux
  rw [i32nn_le _ hl]
  have hpos : (encHeader hd).length + pad.length ≠ 0 := by
    unfold encHeader; simp [le_length]
  have e1 : (encHeader hd ++ (pad ++ r)).take ((encHeader hd).length + pad.length) = encHeader hd ++ pad := by
    rw [← List.append_assoc, ← List.length_append]; exact List.take_left' rfl
  have e2 : (encHeader hd ++ (pad ++ r)).drop ((encHeader hd).length + pad.length) = r := by
    rw [← List.append_assoc, ← List.length_append]; exact List.drop_left' rfl
  simp only [hpos, if_false, e1, e2]
  rw [decHeader_rt hd hw pad]

theorem decU8_rt (n : Nat) (h : n < 256) (r : Bytes) : decU8 (le 4 n ++ r) = .ok (n, r) := by
  unfold decU8
  rw [unle4_le n (by omega)]
  simp [h]

theorem decCsi_prefix (ms d : Nat) (hdr : Option Header) (refs : List RefCsi)
    (hg : validGeometry ms d = true)
    (hh : ∀ h, hdr = some h → h.WF ∧ (encHeader h).length < 2^31)
    (hl : refs.length < 2^31) (hr : ∀ r ∈ refs, r.WF d) (tail : Bytes) :
    decCsi (csiMagic ++ (le 4 ms ++ (le 4 d ++ (encAux hdr ++
        (le 4 refs.length ++ ((refs.map (encRefCsi d)).flatten ++ tail))))))
      = .ok (⟨ms, d, hdr, refs.map rewriteRef, (decUnplaced tail).1⟩, (decUnplaced tail).2) := by
  have hg' := hg
  simp only [validGeometry, Bool.and_eq_true, decide_eq_true_eq] at hg'
  obtain ⟨⟨hms0, hsum⟩, hd⟩ := hg'
  have hms : ms < 256 := by omega
  unfold decCsi
  rw [decMagic_rt]
  simp only
  rw [decU8_rt ms hms]
  simp only
  rw [decU8_rt d (by omega)]
  simp only [hg, not_true_eq_false, if_false]
  rw [decAux_rt hdr hh]
  simp only
  rw [i32nn_le _ hl]
  simp only
  rw [decN_map' (encRefCsi d) (decRefCsi d) rewriteRef _ (fun a ha r => decRefCsi_rt d hd a ha r)
    refs hr tail]

theorem readCsi_rt_some (ix : CsiIndex) (h : ix.WF) (n : Nat) (hu : ix.unplaced = some n)
    (rest : Bytes) : readCsi (encCsi ix ++ rest) = .ok (rewriteCsi ix, rest) := by
  obtain ⟨h1, h3, h4, h5, h6⟩ := h
  have hn : n < 2^64 := by rw [hu] at h6; exact h6
  unfold readCsi
  apply wrapInvalid_ok
  unfold encCsi
  simp only [List.append_assoc]
  rw [decCsi_prefix ix.minShift ix.depth ix.header ix.refs h1 h3 h4 h5, hu,
    decUnplaced_some n hn]
  simp [rewriteCsi, hu]

theorem readCsi_rt_none (ix : CsiIndex) (h : ix.WF) (hu : ix.unplaced = none) :
    readCsi (encCsi ix) = .ok (rewriteCsi ix, []) := by
  obtain ⟨h1, h3, h4, h5, _⟩ := h
  unfold readCsi
  apply wrapInvalid_ok
  unfold encCsi
  rw [decCsi_prefix ix.minShift ix.depth ix.header ix.refs h1 h3 h4 h5, hu]
  have := decUnplaced_nil
  rw [List.append_nil] at this
  rw [this]
  simp [rewriteCsi, hu]

theorem guardCsi_of_WF (ix : CsiIndex) (h : ix.WF) : guardCsi ix = true := by
  obtain ⟨_, h3, h4, h5, _⟩ := h
  unfold guardCsi
  simp only [Bool.and_eq_true, decide_eq_true_eq, List.all_eq_true]
  refine ⟨⟨?_, h4⟩, ?_⟩
  · cases hh : ix.header with
    | none => rfl
    | some hd =>
      obtain ⟨g1, g2⟩ := h3 hd hh
      simp [guardHeader_of_WF hd g1, g2]
  · intro r hr
    obtain ⟨⟨_, hbins⟩, hl, _, _⟩ := h5 r hr
    unfold guardRefCsi
    simp only [Bool.and_eq_true, decide_eq_true_eq, List.all_eq_true]
    refine ⟨by cases r.md <;> simp [metaCount] <;> omega, ?_⟩
    intro b hb
    obtain ⟨g1, _, g3, _⟩ := hbins b hb
    exact ⟨g1, g3⟩

/-! ## the loffset rewrite does not change `min_offset` -/

/-- `id` is a bin of the geometry whose interval ends at or after `q` -/
def Cand (minShift depth q id : Nat) : Prop := ∃ e, binEnd id minShift depth = some e ∧ q ≤ e

theorem binEndLoop_none (id minShift depth : Nat) :
    ∀ fuel l, lvl (l + fuel) ≤ id → binEndLoop id minShift depth fuel l (lvl l) (8^l) = none := by
  intro fuel
  induction fuel with
  | zero => intro l _; rfl
  | succ fuel ih =>
    intro l h
    unfold binEndLoop
    have h1 : lvl l + 8^l ≤ lvl (l + (fuel + 1)) := lvl_succ_le (by omega)
    have hneg : ¬ (id - lvl l < 8^l) := by omega
    rw [if_neg hneg]
    have e1 : lvl l + 8^l = lvl (l+1) := rfl
    have e2 : 8^l * 8 = 8^(l+1) := (Nat.pow_succ ..).symm
    rw [e1, e2]
    exact ih (l+1) (by rw [show l + 1 + fuel = l + (fuel + 1) by omega]; exact h)

theorem binEnd_none (id minShift depth : Nat) (h : lvl (depth + 1) ≤ id) :
    binEnd id minShift depth = none := by
  have := binEndLoop_none id minShift depth (depth+1) 0 (by simpa using h)
  simpa [binEnd, lvl] using this

/-- every id below `lvl (d+1)` sits at some level `j ≤ d`, at offset `k < 8^j` -/
theorem level_of (d id : Nat) (h : id < lvl (d + 1)) : ∃ j k, j ≤ d ∧ k < 8^j ∧ id = lvl j + k := by
  induction d with
  | zero => exact ⟨0, 0, by omega, by simp, by simp [lvl] at h ⊢; omega⟩
  | succ d ih =>
    by_cases hlt : id < lvl (d + 1)
    · obtain ⟨j, k, hj, hk, he⟩ := ih hlt
      exact ⟨j, k, by omega, hk, he⟩
    · refine ⟨d + 1, id - lvl (d + 1), by omega, ?_, by omega⟩
      have : lvl (d + 1 + 1) = lvl (d + 1) + 8^(d+1) := rfl
      omega

/-- the candidate set of `min_offset` is closed under taking the parent -/
theorem cand_parent (minShift depth q id : Nat) (h0 : id > 0) (h : Cand minShift depth q id) :
    Cand minShift depth q ((id - 1) / 8) := by
  obtain ⟨e, he, hq⟩ := h
  have hlt : id < lvl (depth + 1) := by
    apply Classical.byContradiction
    intro hge
    rw [binEnd_none id minShift depth (by omega)] at he
    cases he
  obtain ⟨j, k, hj, hk, hid⟩ := level_of depth id hlt
  cases j with
  | zero => simp [lvl] at hid hk; omega
  | succ j =>
    have h7 := seven_lvl j
    have hl : lvl (j + 1) = lvl j + 8^j := rfl
    have hpar : (id - 1) / 8 = lvl j + k / 8 := by omega
    have hk8 : k / 8 < 8^j := by
      rw [Nat.pow_succ] at hk; omega
    rw [hid, binEnd_spec minShift depth (j+1) k hj hk] at he
    cases he
    rw [hpar]
    refine ⟨_, binEnd_spec minShift depth j (k/8) (by omega) hk8, ?_⟩
    have esh : minShift + 3 * (depth - j) = (minShift + 3 * (depth - (j + 1))) + 3 := by omega
    rw [esh]
    generalize minShift + 3 * (depth - (j + 1)) = sh at *
    rw [Nat.shiftLeft_eq] at hq ⊢
    rw [Nat.pow_add]
    have hpos : 0 < 2^sh := Nat.two_pow_pos sh
    have h8 : k + 1 ≤ (k / 8 + 1) * 8 := by omega
    calc q ≤ (k + 1) * 2^sh := hq
      _ ≤ ((k / 8 + 1) * 8) * 2^sh := Nat.mul_le_mul_right _ h8
      _ = (k / 8 + 1) * (2^sh * 2^3) := by
          rw [Nat.mul_assoc, Nat.mul_comm 8 (2^sh)]

theorem cand_chain (minShift depth q : Nat) (ix : Binned) (id a : Nat) (hc : Chain ix id a)
    (h : Cand minShift depth q id) : Cand minShift depth q a := by
  induction hc with
  | step id v h0 _ => exact cand_parent minShift depth q id h0 h
  | trans id a b _ _ ih1 ih2 => exact ih2 (ih1 h)

theorem listMin_mem (l : List Nat) (m : Nat) (h : listMin l = some m) : m ∈ l := by
  induction l generalizing m with
  | nil => simp [listMin] at h
  | cons x xs ih =>
    unfold listMin at h
    split at h
    · cases h; simp
    · rename_i m' hm'
      cases h
      split
      · simp
      · exact List.mem_cons_of_mem _ (ih m' hm')

theorem listMin_none (l : List Nat) (h : listMin l = none) : l = [] := by
  cases l with
  | nil => rfl
  | cons x xs => unfold listMin at h; split at h <;> cases h

/-- two lists with mutually dominated elements have the same minimum -/
theorem listMin_congr (A B : List Nat) (hAB : ∀ a ∈ A, ∃ b ∈ B, b ≤ a) (hBA : ∀ b ∈ B, ∃ a ∈ A, a ≤ b) :
    (listMin A).getD 0 = (listMin B).getD 0 := by
  cases hA : listMin A with
  | none =>
    have := listMin_none A hA; subst this
    cases hB : listMin B with
    | none => rfl
    | some mb =>
      obtain ⟨a, ha, _⟩ := hBA mb (listMin_mem B mb hB)
      cases ha
  | some ma =>
    cases hB : listMin B with
    | none =>
      have := listMin_none B hB; subst this
      obtain ⟨b, hb, _⟩ := hAB ma (listMin_mem A ma hA)
      cases hb
    | some mb =>
      simp only [Option.getD_some]
      obtain ⟨b, hb, hba⟩ := hAB ma (listMin_mem A ma hA)
      obtain ⟨a, ha, hab⟩ := hBA mb (listMin_mem B mb hB)
      obtain ⟨m1, e1, l1⟩ := listMin_le B b hb
      obtain ⟨m2, e2, l2⟩ := listMin_le A a ha
      rw [hB] at e1; cases e1
      rw [hA] at e2; cases e2
      omega

def candB (minShift depth q : Nat) (p : Nat × Nat) : Bool :=
  match binEnd p.1 minShift depth with
  | some e => decide (e ≥ q)
  | none => false

theorem candB_iff (minShift depth q : Nat) (p : Nat × Nat) :
    candB minShift depth q p = true ↔ Cand minShift depth q p.1 := by
  unfold candB Cand
  cases binEnd p.1 minShift depth with
  | none => simp
  | some e => simp

theorem minOffsetBinned_eq (ix : Binned) (minShift depth q : Nat) :
    minOffsetBinned ix minShift depth q
      = (listMin ((ix.filter (candB minShift depth q)).map (·.2))).getD 0 := rfl

/-- **the rewrite is invisible to `min_offset`** -/
theorem minOffset_rewrite (r : RefCsi) (ha : r.Aligned) (minShift depth q : Nat) :
    minOffsetBinned (rewriteRef r).index minShift depth q
      = minOffsetBinned r.index minShift depth q := by
  obtain ⟨hnd, hkeys⟩ := ha
  rw [minOffsetBinned_eq, minOffsetBinned_eq]
  apply listMin_congr
  · -- every rewritten candidate value is an original candidate value
    intro v hv
    simp only [rewriteRef, List.mem_map, List.mem_filter] at hv
    obtain ⟨p, ⟨⟨b, hb, hpb⟩, hc⟩, hpv⟩ := hv
    subst hpb; subst hpv
    rw [candB_iff] at hc
    simp only at hc ⊢
    have hin : b.1 ∈ r.index.map (·.1) := (hkeys b.1).mpr (List.mem_map_of_mem hb)
    obtain ⟨p0, hp0, hp0k⟩ := List.mem_map.mp hin
    have hlook : lookup r.index b.1 = some p0.2 :=
      lookup_of_mem r.index b.1 p0.2 hnd (by rw [← hp0k]; exact hp0)
    have hspec := firstStartLoop_spec r.index b.1 ((lookup r.index b.1).getD 0)
    rcases hspec.2 with he | ⟨a, w, hch, hm, he⟩
    · refine ⟨p0.2, ?_, ?_⟩
      · refine List.mem_map.mpr ⟨p0, List.mem_filter.mpr ⟨hp0, ?_⟩, rfl⟩
        rw [candB_iff, hp0k]; exact hc
      · unfold firstStart; rw [he, hlook]; simp
    · refine ⟨w, ?_, ?_⟩
      · refine List.mem_map.mpr ⟨(a, w), List.mem_filter.mpr ⟨hm, ?_⟩, rfl⟩
        rw [candB_iff]; exact cand_chain minShift depth q r.index b.1 a hch hc
      · unfold firstStart; rw [he]; exact Nat.le_refl _
  · -- every original candidate value dominates the rewritten value of the same bin
    intro v hv
    simp only [List.mem_map, List.mem_filter] at hv
    obtain ⟨p, ⟨hp, hc⟩, hpv⟩ := hv
    subst hpv
    have hin : p.1 ∈ r.bins.map (·.1) := (hkeys p.1).mp (List.mem_map_of_mem hp)
    obtain ⟨b, hb, hbk⟩ := List.mem_map.mp hin
    have hlook : lookup r.index p.1 = some p.2 := lookup_of_mem r.index p.1 p.2 hnd hp
    refine ⟨firstStart r.index p.1, ?_, ?_⟩
    · simp only [rewriteRef, List.mem_map, List.mem_filter]
      refine ⟨(b.1, firstStart r.index b.1), ⟨⟨b, hb, rfl⟩, ?_⟩, by rw [hbk]⟩
      rw [candB_iff] at hc ⊢
      simp only; rw [hbk]; exact hc
    · have := firstStart_le r.index p.1
      rw [hlook] at this
      simpa using this

end Noodles.Index
