import Noodles.Basic.Text
import Noodles.Basic.Codec
/-!
# fai and crai index files (model)

Both are line-oriented text: one record per line, tab-separated decimal columns.
* fai — `noodles-fasta/src/fai/io/{writer,reader}.rs`, `…/writer/record.rs`, `…/reader/record.rs`
* crai — `noodles-cram/src/crai/io/{writer,reader}.rs` (+ `record.rs`); the gzip layer around
  the text (flate2 `GzEncoder`/`GzDecoder`) is a parameter: this is the uncompressed text.

Numbers are printed with `{}` (`printNat`) and parsed with `str::parse`, which accepts one
leading `+` (and, for `i32`, `-`), leading zeros, and rejects the empty string and overflow.
-/
namespace Noodles.Index
open Noodles.Text
open Noodles.Codec (Err)

def TAB : UInt8 := 9
def LF : UInt8 := 10
def CR : UInt8 := 13

/-- `<u64 as FromStr>::from_str`: digits, optionally preceded by ONE `+`; must fit -/
def parseUnsigned (bound : Nat) (s : Bytes) : Option Nat :=
  let v := match parseNat s with
    | some n => some n
    | none => match s with
      | 43 :: r => parseNat r
      | _ => none
  match v with
  | some n => if n < bound then some n else none
  | none => none

def parseU64 : Bytes → Option Nat := parseUnsigned (2^64)

/-- `<i32 as FromStr>::from_str`: optional `+` or `-`, digits; range `-2^31 ..= 2^31 - 1` -/
def parseI32 (s : Bytes) : Option Int :=
  match s with
  | 45 :: r =>
    match parseNat r with
    | some n => if n ≤ 2^31 then some (-(n : Int)) else none
    | none => none
  | _ =>
    match parseUnsigned (2^31) s with
    | some n => some (n : Int)
    | none => none

/-- drop one trailing `\r` -/
def stripCR (l : Bytes) : Bytes :=
  match l.reverse with
  | 13 :: r => r.reverse
  | _ => l

/-- the lines `read_line` + the `\n` / `\r\n` stripping of `fai::io::reader::read_line`
(`crai` has the same function) deliver: every `\n`-terminated segment with ONE trailing `\r`
removed, then — if the text does not end in `\n` — the unterminated rest as it is -/
def linesOf : List Bytes → List Bytes
  | [] => []
  | [last] => if last = [] then [] else [last]
  | l :: rest => stripCR l :: linesOf rest

def textLines (text : Bytes) : List Bytes := linesOf (splitOn LF text)

def mapLines {α : Type} (f : Bytes → Except Err α) : List Bytes → Except Err (List α)
  | [] => .ok []
  | l :: rest =>
    match f l with
    | .error e => .error e
    | .ok a =>
      match mapLines f rest with
      | .error e => .error e
      | .ok as => .ok (a :: as)

/-! ## UTF-8 validation (`core::str::from_utf8`)

`BufRead::read_line` appends to a `String`: the bytes of the line must be well-formed UTF-8 or
the call fails with `InvalidData` ("stream did not contain valid UTF-8"). The validator below
is the table of the Unicode standard that `core::str::validations::run_utf8_validation`
implements: no overlong forms, no surrogates, nothing above U+10FFFF. -/

def inRange (b : UInt8) (lo hi : Nat) : Bool := decide (lo ≤ b.toNat) && decide (b.toNat ≤ hi)

def validUtf8 : Bytes → Bool
  | [] => true
  | b0 :: r =>
    if b0.toNat < 0x80 then validUtf8 r
    else if inRange b0 0xC2 0xDF then
      match r with
      | b1 :: r1 => inRange b1 0x80 0xBF && validUtf8 r1
      | _ => false
    else if inRange b0 0xE0 0xEF then
      match r with
      | b1 :: b2 :: r2 =>
        (if b0.toNat = 0xE0 then inRange b1 0xA0 0xBF
         else if b0.toNat = 0xED then inRange b1 0x80 0x9F
         else inRange b1 0x80 0xBF) && inRange b2 0x80 0xBF && validUtf8 r2
      | _ => false
    else if inRange b0 0xF0 0xF4 then
      match r with
      | b1 :: b2 :: b3 :: r3 =>
        (if b0.toNat = 0xF0 then inRange b1 0x90 0xBF
         else if b0.toNat = 0xF4 then inRange b1 0x80 0x8F
         else inRange b1 0x80 0xBF) && inRange b2 0x80 0xBF && inRange b3 0x80 0xBF && validUtf8 r3
      | _ => false
    else false

/-! ## fai

The reader splits the line as BYTES (`parse_record_bytes`, fix dfcc1c6): the name column is a byte
string (`BStr`) that the FASTA indexer copies from the definition line as bytes and the writer
emits as bytes; only the four numeric columns go through `str::from_utf8` before `parse`. A numeric
column that is not UTF-8 is not a digit string either, so `parseU64` (ASCII digits only) rejects it
with the same `InvalidData` and no separate validation step appears in the model. (`validUtf8`
above is kept: it documents what `core::str::from_utf8` accepts and is compared with the real
function on every run.) -/

structure FaiRecord where
  name : Bytes
  length : Nat
  position : Nat
  lineBases : Nat      -- `NonZero<u64>`
  lineWidth : Nat      -- `NonZero<u64>`
deriving DecidableEq, Repr

/-- `write_record`: name, then `\t{length}\t{offset}\t{line_base_count}\t{line_width}\n` -/
def encFaiLine (r : FaiRecord) : Bytes :=
  join TAB [r.name, printNat r.length, printNat r.position, printNat r.lineBases, printNat r.lineWidth]

def encFai (ix : List FaiRecord) : Bytes := (ix.map fun r => encFaiLine r ++ [LF]).flatten

def parseNonZero (s : Bytes) : Option Nat :=
  match parseU64 s with
  | some n => if n = 0 then none else some n
  | none => none

/-- `parse_record`: `splitn(5, '\t')`; a missing column, an unparsable number or an empty line
is `InvalidData`. (With `splitn` a sixth column stays glued to the fifth, which then fails to
parse — the same outcome as rejecting more than five fields.) -/
def parseFaiLine (l : Bytes) : Except Err FaiRecord :=
  if l = [] then .error .invalid else
  match splitOn TAB l with
  | [n, a, b, c, d] =>
    match parseU64 a, parseU64 b, parseNonZero c, parseNonZero d with
    | some a, some b, some c, some d => .ok ⟨n, a, b, c, d⟩
    | _, _, _, _ => .error .invalid
  | _ => .error .invalid

def readFai (text : Bytes) : Except Err (List FaiRecord) := mapLines parseFaiLine (textLines text)

def FaiRecord.WF (r : FaiRecord) : Prop :=
  TAB ∉ r.name ∧ LF ∉ r.name ∧ r.length < 2^64 ∧ r.position < 2^64 ∧
  0 < r.lineBases ∧ r.lineBases < 2^64 ∧ 0 < r.lineWidth ∧ r.lineWidth < 2^64

/-! ## crai -/

structure CraiRecord where
  refId : Option Nat      -- `None` is written `-1`
  start : Nat             -- `Option<Position>`: `None` is written (and read) as 0
  span : Nat
  offset : Nat
  landmark : Nat
  sliceLength : Nat
deriving DecidableEq, Repr

def printRefId : Option Nat → Bytes
  | none => [45, 49]      -- "-1"
  | some n => printNat n

def encCraiLine (r : CraiRecord) : Bytes :=
  join TAB [printRefId r.refId, printNat r.start, printNat r.span, printNat r.offset,
    printNat r.landmark, printNat r.sliceLength]

def encCrai (ix : List CraiRecord) : Bytes := (ix.map fun r => encCraiLine r ++ [LF]).flatten

/-- the reference id column: `i32`; `-1` is "unmapped", any other negative value is invalid -/
def parseRefId (s : Bytes) : Except Err (Option Nat) :=
  match parseI32 s with
  | none => .error .invalid
  | some v => if v = -1 then .ok none else if v < 0 then .error .invalid else .ok (some v.toNat)

/-- one later column: a MISSING column is `UnexpectedEof`, an unparsable one `InvalidData` -/
def craiField (fs : List Bytes) : Except Err (Nat × List Bytes) :=
  match fs with
  | [] => .error .eof
  | f :: rest =>
    match parseU64 f with
    | none => .error .invalid
    | some v => .ok (v, rest)

/-- `parse_record`: the columns are parsed left to right, the first failure is reported.
(`splitn(6, '\t')` glues further columns to the sixth, which then does not parse.) -/
def parseCraiLine (l : Bytes) : Except Err CraiRecord :=
  match splitOn TAB l with
  | [] => .error .eof
  | f0 :: fs0 =>
    match parseRefId f0 with
    | .error e => .error e
    | .ok rid =>
      match craiField fs0 with
      | .error e => .error e
      | .ok (st, fs1) =>
        match craiField fs1 with
        | .error e => .error e
        | .ok (sp, fs2) =>
          match craiField fs2 with
          | .error e => .error e
          | .ok (off, fs3) =>
            match craiField fs3 with
            | .error e => .error e
            | .ok (lm, fs4) =>
              match craiField fs4 with
              | .error e => .error e
              | .ok (sl, fs5) =>
                if fs5 = [] then .ok ⟨rid, st, sp, off, lm, sl⟩ else .error .invalid

def readCrai (text : Bytes) : Except Err (List CraiRecord) := mapLines parseCraiLine (textLines text)

def CraiRecord.WF (r : CraiRecord) : Prop :=
  (∀ n, r.refId = some n → n < 2^31) ∧ r.start < 2^64 ∧ r.span < 2^64 ∧ r.offset < 2^64 ∧
  r.landmark < 2^64 ∧ r.sliceLength < 2^64

end Noodles.Index
