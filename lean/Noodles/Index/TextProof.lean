import Noodles.Index.Text
/-! Round-trip lemmas for the text index formats (fai, crai). -/
namespace Noodles.Index
open Noodles.Text
open Noodles.Codec (Err)

def IsDigit (b : UInt8) : Prop := 48 ≤ b.toNat ∧ b.toNat ≤ 57

instance : DecidablePred IsDigit := fun b => by unfold IsDigit; infer_instance

theorem digit_isDigit (n : Nat) : IsDigit (digit n) := by
  unfold IsDigit; rw [digit_toNat]; omega

theorem printNatAux_digits (fuel n : Nat) (acc : Bytes) (hacc : ∀ b ∈ acc, IsDigit b) :
    ∀ b ∈ printNatAux fuel n acc, IsDigit b := by
  induction fuel generalizing n acc with
  | zero => simpa [printNatAux] using hacc
  | succ fuel ih =>
    unfold printNatAux
    have hcons : ∀ b ∈ digit n :: acc, IsDigit b := by
      intro b hb
      rcases List.mem_cons.mp hb with rfl | hb'
      · exact digit_isDigit n
      · exact hacc b hb'
    split
    · exact hcons
    · exact ih _ _ hcons

theorem printNat_digits (n : Nat) : ∀ b ∈ printNat n, IsDigit b :=
  printNatAux_digits _ _ [] (by simp)

theorem printNat_ne_nil (n : Nat) : printNat n ≠ [] :=
  printNatAux_ne_nil _ _ (by omega) _

theorem printNat_free (n : Nat) (d : UInt8) (hd : ¬ IsDigit d) : d ∉ printNat n :=
  fun h => hd (printNat_digits n d h)

theorem tab_not_digit : ¬ IsDigit TAB := by decide
theorem lf_not_digit : ¬ IsDigit LF := by decide

/-- ends in a byte that is not `\r` -/
def EndsNotCR (l : Bytes) : Prop := ∃ x d, l = x ++ [d] ∧ d ≠ 13

theorem printNat_endsNotCR (n : Nat) : EndsNotCR (printNat n) := by
  have hne := printNat_ne_nil n
  refine ⟨(printNat n).dropLast, (printNat n).getLast hne,
    (List.dropLast_concat_getLast hne).symm, ?_⟩
  have := printNat_digits n _ (List.getLast_mem hne)
  intro e; rw [e] at this; exact absurd this (by decide)

theorem endsNotCR_append (a l : Bytes) (h : EndsNotCR l) : EndsNotCR (a ++ l) := by
  obtain ⟨x, d, e, hd⟩ := h
  exact ⟨a ++ x, d, by rw [e, List.append_assoc], hd⟩

theorem stripCR_id (l : Bytes) (h : EndsNotCR l) : stripCR l = l := by
  obtain ⟨x, d, e, hd⟩ := h
  subst e
  unfold stripCR
  rw [List.reverse_append]
  simp only [List.reverse_cons, List.reverse_nil, List.nil_append, List.singleton_append]
  split
  · rename_i r heq
    cases heq
    exact absurd rfl hd
  · rfl

/-! ### numbers -/

theorem parseU64_print (n : Nat) (h : n < 2^64) : parseU64 (printNat n) = some n := by
  unfold parseU64 parseUnsigned
  rw [parse_print]
  simp [h]

theorem parseNonZero_print (n : Nat) (h0 : 0 < n) (h : n < 2^64) :
    parseNonZero (printNat n) = some n := by
  unfold parseNonZero
  rw [parseU64_print n h]
  have : n ≠ 0 := by omega
  simp [this]

theorem parseI32_print (n : Nat) (h : n < 2^31) : parseI32 (printNat n) = some (n : Int) := by
  have hne := printNat_ne_nil n
  have hd := printNat_digits n
  have hp : parseUnsigned (2^31) (printNat n) = some n := by
    unfold parseUnsigned; rw [parse_print]; simp [h]
  unfold parseI32
  split
  · rename_i r heq
    have := hd 45 (by rw [heq]; simp)
    exact absurd this (by decide)
  · rw [hp]

theorem parseRefId_print (x : Option Nat) (h : ∀ n, x = some n → n < 2^31) :
    parseRefId (printRefId x) = .ok x := by
  cases x with
  | none => rfl
  | some n =>
    unfold parseRefId printRefId
    rw [parseI32_print n (h n rfl)]
    have h1 : ¬ ((n : Int) = -1) := by omega
    have h2 : ¬ ((n : Int) < 0) := by omega
    simp [h1, h2]

/-! ### lines -/

theorem mem_join (d : UInt8) (fs : List Bytes) (b : UInt8) (h : b ∈ join d fs) :
    b = d ∨ ∃ f ∈ fs, b ∈ f := by
  induction fs with
  | nil => simp [join] at h
  | cons f rest ih =>
    cases rest with
    | nil => exact Or.inr ⟨f, by simp, by simpa [join] using h⟩
    | cons g gs =>
      simp only [join, List.mem_append, List.mem_cons] at h
      rcases h with h | h | h
      · exact Or.inr ⟨f, by simp, h⟩
      · exact Or.inl h
      · rcases ih h with h' | ⟨x, hx, hb⟩
        · exact Or.inl h'
        · exact Or.inr ⟨x, List.mem_cons_of_mem _ hx, hb⟩

theorem splitOn_lines (bodies : List Bytes) (hfree : ∀ b ∈ bodies, LF ∉ b) :
    splitOn LF ((bodies.map fun b => b ++ [LF]).flatten) = bodies ++ [[]] := by
  induction bodies with
  | nil => rfl
  | cons b bs ih =>
    simp only [List.map_cons, List.flatten_cons, List.append_assoc, List.cons_append,
      List.nil_append]
    rw [splitOn_append_delim LF b (hfree b (by simp))]
    rw [ih (fun x hx => hfree x (List.mem_cons_of_mem _ hx))]

theorem linesOf_bodies (bodies : List Bytes) (h : ∀ b ∈ bodies, EndsNotCR b) :
    linesOf (bodies ++ [[]]) = bodies := by
  induction bodies with
  | nil => simp [linesOf]
  | cons b bs ih =>
    have hb := stripCR_id b (h b (by simp))
    have ih' := ih (fun x hx => h x (List.mem_cons_of_mem _ hx))
    cases bs with
    | nil => simp [linesOf, hb]
    | cons c cs =>
      simp only [List.cons_append] at ih' ⊢
      simp only [linesOf, hb, ih']

theorem mapLines_ok {α : Type} (f : Bytes → Except Err α) (enc : α → Bytes) (xs : List α)
    (h : ∀ x ∈ xs, f (enc x) = .ok x) : mapLines f (xs.map enc) = .ok xs := by
  induction xs with
  | nil => rfl
  | cons x xs ih =>
    simp only [List.map_cons, mapLines]
    rw [h x (by simp), ih (fun y hy => h y (List.mem_cons_of_mem _ hy))]

/-- generic: a text index whose line bodies are LF-free and do not end in CR reads back -/
theorem readLines_rt {α : Type} (f : Bytes → Except Err α) (enc : α → Bytes) (xs : List α)
    (hlf : ∀ x ∈ xs, LF ∉ enc x) (hcr : ∀ x ∈ xs, EndsNotCR (enc x))
    (hp : ∀ x ∈ xs, f (enc x) = .ok x) :
    mapLines f (textLines ((xs.map fun x => enc x ++ [LF]).flatten)) = .ok xs := by
  unfold textLines
  have e : (xs.map fun x => enc x ++ [LF]) = (xs.map enc).map fun b => b ++ [LF] := by
    simp [List.map_map]
  rw [e, splitOn_lines (xs.map enc) (by
    intro b hb; obtain ⟨x, hx, rfl⟩ := List.mem_map.mp hb; exact hlf x hx)]
  rw [linesOf_bodies (xs.map enc) (by
    intro b hb; obtain ⟨x, hx, rfl⟩ := List.mem_map.mp hb; exact hcr x hx)]
  exact mapLines_ok f enc xs hp

/-! ### UTF-8 -/

theorem validUtf8_cons (b0 : UInt8) (r : Bytes) : validUtf8 (b0 :: r) =
    (if b0.toNat < 0x80 then validUtf8 r
    else if inRange b0 0xC2 0xDF then
      match r with
      | b1 :: r1 => inRange b1 0x80 0xBF && validUtf8 r1
      | _ => false
    else if inRange b0 0xE0 0xEF then
      match r with
      | b1 :: b2 :: r2 =>
        (if b0.toNat = 0xE0 then inRange b1 0xA0 0xBF
         else if b0.toNat = 0xED then inRange b1 0x80 0x9F
         else inRange b1 0x80 0xBF) && inRange b2 0x80 0xBF && validUtf8 r2
      | _ => false
    else if inRange b0 0xF0 0xF4 then
      match r with
      | b1 :: b2 :: b3 :: r3 =>
        (if b0.toNat = 0xF0 then inRange b1 0x90 0xBF
         else if b0.toNat = 0xF4 then inRange b1 0x80 0x8F
         else inRange b1 0x80 0xBF) && inRange b2 0x80 0xBF && inRange b3 0x80 0xBF && validUtf8 r3
      | _ => false
    else false) := by
  rcases r with _ | ⟨b1, _ | ⟨b2, _ | ⟨b3, r3⟩⟩⟩ <;> simp only [validUtf8]

/-- a well-formed prefix can be dropped: validation restarts at a scalar boundary -/
theorem validUtf8_append (a b : Bytes) (h : validUtf8 a = true) :
    validUtf8 (a ++ b) = validUtf8 b := by
  fun_induction validUtf8 a <;>
    first
    | (simp; done)
    | (simp only [List.cons_append]; rw [validUtf8_cons]
       simp_all
       all_goals first
         | (intro hlt; omega)
         | (split
            · omega
            · split <;> (try split) <;> simp_all))

theorem validUtf8_ascii (l : Bytes) (h : ∀ b ∈ l, b.toNat < 128) : validUtf8 l = true := by
  induction l with
  | nil => rfl
  | cons b r ih =>
    rw [validUtf8_cons]
    simp [h b (by simp), ih (fun x hx => h x (List.mem_cons_of_mem _ hx))]

theorem digit_ascii (b : UInt8) (h : IsDigit b) : b.toNat < 128 := by
  unfold IsDigit at h; omega

/-! ### fai -/

theorem encFaiLine_lf (r : FaiRecord) (h : r.WF) : LF ∉ encFaiLine r := by
  intro hin
  rcases mem_join TAB _ LF hin with e | ⟨f, hf, hb⟩
  · exact absurd e (by decide)
  · simp only [List.mem_cons, List.not_mem_nil, or_false] at hf
    rcases hf with rfl | rfl | rfl | rfl | rfl
    · exact h.2.1 hb
    all_goals exact printNat_free _ LF lf_not_digit hb

theorem encFaiLine_cr (r : FaiRecord) : EndsNotCR (encFaiLine r) := by
  have e : encFaiLine r = (r.name ++ TAB :: (printNat r.length ++ TAB :: (printNat r.position ++
      TAB :: (printNat r.lineBases ++ [TAB])))) ++ printNat r.lineWidth := by
    simp [encFaiLine, join]
  rw [e]
  exact endsNotCR_append _ _ (printNat_endsNotCR _)

theorem encFaiLine_utf8 (r : FaiRecord) (hu : validUtf8 r.name = true) :
    validUtf8 (encFaiLine r) = true := by
  have e : encFaiLine r = r.name ++ TAB :: join TAB [printNat r.length, printNat r.position,
      printNat r.lineBases, printNat r.lineWidth] := by
    simp [encFaiLine, join]
  rw [e, validUtf8_append _ _ hu]
  apply validUtf8_ascii
  intro b hb
  rcases List.mem_cons.mp hb with rfl | hb'
  · decide
  · rcases mem_join TAB _ b hb' with rfl | ⟨f, hf, hbf⟩
    · decide
    · simp only [List.mem_cons, List.not_mem_nil, or_false] at hf
      rcases hf with rfl | rfl | rfl | rfl <;> exact digit_ascii b (printNat_digits _ b hbf)

theorem parseFaiLine_rt (r : FaiRecord) (h : r.WF) :
    parseFaiLine (encFaiLine r) = .ok r := by
  obtain ⟨h1, h2, h3, h4, h5, h6, h7, h8⟩ := h
  unfold parseFaiLine
  have hne : encFaiLine r ≠ [] := by
    obtain ⟨x, d, e, _⟩ := encFaiLine_cr r
    rw [e]; simp
  rw [if_neg hne]
  unfold encFaiLine
  rw [splitOn_join TAB _ (by simp) (by
    intro f hf
    simp only [List.mem_cons, List.not_mem_nil, or_false] at hf
    rcases hf with rfl | rfl | rfl | rfl | rfl
    · exact h1
    all_goals exact printNat_free _ TAB tab_not_digit)]
  simp only
  rw [parseU64_print _ h3, parseU64_print _ h4, parseNonZero_print _ h5 h6,
    parseNonZero_print _ h7 h8]

theorem readFai_rt (ix : List FaiRecord) (h : ∀ r ∈ ix, r.WF) :
    readFai (encFai ix) = .ok ix := by
  unfold readFai encFai
  exact readLines_rt parseFaiLine encFaiLine ix (fun r hr => encFaiLine_lf r (h r hr))
    (fun r _ => encFaiLine_cr r) (fun r hr => parseFaiLine_rt r (h r hr))

/-! ### crai -/

theorem printRefId_free (x : Option Nat) (d : UInt8) (hd : ¬ IsDigit d) (h45 : d ≠ 45) :
    d ∉ printRefId x := by
  cases x with
  | none =>
    simp only [printRefId, List.mem_cons, List.not_mem_nil, or_false]
    intro h
    rcases h with e | e
    · exact h45 e
    · rw [e] at hd; exact hd (by decide)
  | some n => exact printNat_free n d hd

theorem encCraiLine_lf (r : CraiRecord) : LF ∉ encCraiLine r := by
  intro hin
  rcases mem_join TAB _ LF hin with e | ⟨f, hf, hb⟩
  · exact absurd e (by decide)
  · simp only [List.mem_cons, List.not_mem_nil, or_false] at hf
    rcases hf with rfl | rfl | rfl | rfl | rfl | rfl
    · exact printRefId_free _ LF lf_not_digit (by decide) hb
    all_goals exact printNat_free _ LF lf_not_digit hb

theorem encCraiLine_cr (r : CraiRecord) : EndsNotCR (encCraiLine r) := by
  have e : encCraiLine r = (printRefId r.refId ++ TAB :: (printNat r.start ++ TAB ::
      (printNat r.span ++ TAB :: (printNat r.offset ++ TAB :: (printNat r.landmark ++ [TAB])))))
      ++ printNat r.sliceLength := by
    simp [encCraiLine, join]
  rw [e]
  exact endsNotCR_append _ _ (printNat_endsNotCR _)

theorem craiField_print (n : Nat) (h : n < 2^64) (rest : List Bytes) :
    craiField (printNat n :: rest) = .ok (n, rest) := by
  simp only [craiField, parseU64_print n h]

theorem parseCraiLine_rt (r : CraiRecord) (h : r.WF) : parseCraiLine (encCraiLine r) = .ok r := by
  obtain ⟨h1, h2, h3, h4, h5, h6⟩ := h
  unfold parseCraiLine encCraiLine
  rw [splitOn_join TAB _ (by simp) (by
    intro f hf
    simp only [List.mem_cons, List.not_mem_nil, or_false] at hf
    rcases hf with rfl | rfl | rfl | rfl | rfl | rfl
    · exact printRefId_free _ TAB tab_not_digit (by decide)
    all_goals exact printNat_free _ TAB tab_not_digit)]
  simp only
  rw [parseRefId_print _ h1]
  simp only
  rw [craiField_print _ h2]
  simp only
  rw [craiField_print _ h3]
  simp only
  rw [craiField_print _ h4]
  simp only
  rw [craiField_print _ h5]
  simp only
  rw [craiField_print _ h6]
  simp

theorem readCrai_rt (ix : List CraiRecord) (h : ∀ r ∈ ix, r.WF) :
    readCrai (encCrai ix) = .ok ix := by
  unfold readCrai encCrai
  exact readLines_rt parseCraiLine encCraiLine ix (fun r _ => encCraiLine_lf r)
    (fun r _ => encCraiLine_cr r) (fun r hr => parseCraiLine_rt r (h r hr))

end Noodles.Index
