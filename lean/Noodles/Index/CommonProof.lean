import Noodles.Index.Common
/-! Round-trip lemmas for the shared pieces of the binary index formats. -/
namespace Noodles.Index
open Noodles.Codec

theorem u32_le (n : Nat) (h : n < 2^32) (r : Bytes) : u32 (le 4 n ++ r) = .ok (n, r) :=
  unle_le 4 n (by simpa using h) r

theorem u64_le (n : Nat) (h : n < 2^64) (r : Bytes) : u64 (le 8 n ++ r) = .ok (n, r) :=
  unle_le 8 n (by simpa using h) r

theorem unle4_le (n : Nat) (h : n < 2^32) (r : Bytes) : unle 4 (le 4 n ++ r) = .ok (n, r) :=
  unle_le 4 n (by simpa using h) r

theorem i32nn_le (n : Nat) (h : n < 2^31) (r : Bytes) : i32nn (le 4 n ++ r) = .ok (n, r) := by
  unfold i32nn
  rw [unle4_le n (by omega)]
  simp [h]

theorem count_le (signed : Bool) (n : Nat) (h : n < countBound signed) (r : Bytes) :
    count signed (le 4 n ++ r) = .ok (n, r) := by
  cases signed
  · simpa [count] using u32_le n (by simpa [countBound] using h) r
  · simpa [count] using i32nn_le n (by simpa [countBound] using h) r

theorem countBound_le (signed : Bool) : countBound signed ≤ 2^32 := by
  cases signed <;> simp [countBound]

theorem decMagic_rt (m r : Bytes) : decMagic m (m ++ r) = .ok ((), r) := by
  unfold decMagic
  simp

theorem decChunk_rt : RoundTrip encChunk decChunk Chunk.WF := by
  intro c ⟨hs, he⟩ r
  unfold encChunk decChunk
  rw [List.append_assoc, u64_le c.s hs]
  simp only
  rw [u64_le c.e he]

theorem decChunks_rt (cs : List Chunk) (hl : cs.length < 2^31) (hc : ∀ c ∈ cs, Chunk.WF c)
    (r : Bytes) : decChunks (encChunks cs ++ r) = .ok (cs, r) := by
  unfold decChunks encChunks
  rw [List.append_assoc, i32nn_le _ hl]
  exact decN_map encChunk decChunk _ decChunk_rt cs hc r

theorem decMeta_rt (m : Meta) (h : m.WF) (r : Bytes) : decMeta (encMeta m ++ r) = .ok (m, r) := by
  obtain ⟨h1, h2, h3, h4⟩ := h
  unfold decMeta encMeta
  simp only [List.append_assoc]
  rw [u32_le 2 (by decide)]
  simp only [ne_eq, not_true_eq_false, if_false]
  rw [u64_le _ h1]
  simp only
  rw [u64_le _ h2]
  simp only
  rw [u64_le _ h3]
  simp only
  rw [u64_le _ h4]

theorem wrapInvalid_ok {α : Type} (d : Dec α) (r : Bytes) (x : α × Bytes) (h : d r = .ok x) :
    wrapInvalid d r = .ok x := by
  unfold wrapInvalid; rw [h]

theorem decUnplaced_some (n : Nat) (h : n < 2^64) (r : Bytes) :
    decUnplaced (encUnplaced (some n) ++ r) = (some n, r) := by
  unfold decUnplaced encUnplaced
  rw [u64_le n h]

theorem decUnplaced_nil : decUnplaced (encUnplaced none ++ []) = (none, []) := by
  simp [decUnplaced, encUnplaced, u64, unle]

theorem u64_rt : RoundTrip (le 8) u64 (fun n => n < 2^64) := fun n h r => u64_le n h r

theorem decIntervals_rt (signed : Bool) (l : List Nat) (hl : l.length < countBound signed)
    (ho : ∀ o ∈ l, o < 2^64) (r : Bytes) :
    decIntervals signed (encIntervals l ++ r) = .ok (l, r) := by
  unfold decIntervals encIntervals
  rw [List.append_assoc, count_le signed _ hl]
  exact decN_map (le 8) u64 _ u64_rt l ho r

/-- the reader's loop over the regular bins the writer emitted -/
theorem readBinsLoop_bins (metaId : Nat) (bins : Bins) :
    ∀ (acc : Bins) (md : Option Meta) (k : Nat) (r : Bytes),
      ((acc ++ bins).map (·.1)).Nodup →
      (∀ b ∈ bins, b.1 < 2^32 ∧ b.1 ≠ metaId ∧ b.2.length < 2^31 ∧ ∀ c ∈ b.2, Chunk.WF c) →
      readBinsLoop metaId (k + bins.length) acc md ((bins.map encBin).flatten ++ r)
        = readBinsLoop metaId k (acc ++ bins) md r := by
  induction bins with
  | nil => intro acc md k r _ _; simp
  | cons b bs ih =>
    intro acc md k r hnd hwf
    obtain ⟨h1, h2, h3, h4⟩ := hwf b (by simp)
    have hk : k + (b :: bs).length = (k + bs.length) + 1 := by simp; omega
    rw [hk]
    simp only [List.map_cons, List.flatten_cons, List.append_assoc, encBin]
    conv => lhs; unfold readBinsLoop
    rw [u32_le b.1 h1]
    simp only [h2, if_false]
    rw [wrapInvalid_ok _ _ _ (decChunks_rt b.2 h3 h4 _)]
    simp only
    have hnot : acc.any (fun x => x.1 = b.1) = false := by
      rw [List.any_eq_false]
      intro x hx
      simp only [decide_eq_true_eq]
      intro hxb
      rw [List.map_append, List.nodup_append] at hnd
      exact hnd.2.2 x.1 (List.mem_map_of_mem hx) b.1 (by simp) hxb
    rw [hnot]
    simp only [Bool.false_eq_true, if_false]
    have e : acc ++ b :: bs = (acc ++ [(b.1, b.2)]) ++ bs := by simp
    rw [e] at hnd ⊢
    exact ih _ md k r hnd (fun x hx => hwf x (List.mem_cons_of_mem _ hx))

theorem decBins_rt (signed : Bool) (bins : Bins) (md : Option Meta)
    (hb : Bins.WF metaIdLinear bins) (hl : bins.length + 1 < countBound signed) (hm : metaWF md)
    (r : Bytes) : decBins signed (encBins bins md ++ r) = .ok ((bins, md), r) := by
  unfold decBins encBins
  rw [List.append_assoc, count_le signed _ (by cases md <;> simp [metaCount] <;> omega)]
  simp only [List.append_assoc]
  have e : bins.length + metaCount md = metaCount md + bins.length := Nat.add_comm _ _
  rw [e, readBinsLoop_bins metaIdLinear bins [] none (metaCount md) _ (by simpa using hb.1) hb.2]
  cases md with
  | none => simp [metaCount, encMetaBin, readBinsLoop]
  | some m =>
    simp only [metaCount, encMetaBin, List.nil_append, List.append_assoc]
    unfold readBinsLoop
    rw [u32_le metaIdLinear (by decide)]
    simp only [if_true]
    rw [wrapInvalid_ok _ _ _ (decMeta_rt m hm _)]
    simp [readBinsLoop]

theorem decRefLin_rt (signed : Bool) : RoundTrip encRefLin (decRefLin signed) (RefLin.WF signed) := by
  intro ref ⟨h1, h2, h3, h4, h5⟩ r
  unfold decRefLin encRefLin
  rw [List.append_assoc, decBins_rt signed ref.bins ref.md h1 h2 h3]
  simp only
  rw [decIntervals_rt signed ref.lin h4 h5]

end Noodles.Index
