import Noodles.Basic.Codec
import Noodles.Csi.Chunks
/-!
# Index files, shared pieces (model for the index-file half of C17)

Byte-level transcription of the primitives every binary index reader/writer of noodles is
built from. Rust integer types are `Nat` with the range checks the code performs spelled out:

* `read_u32_le` / `read_u64_le` / `read_i32_le` (`noodles-csi/src/io/reader/num.rs`, same in
  noodles-bam and noodles-tabix) are `read_exact` + `from_le_bytes`; a short read is
  `UnexpectedEof` (`Err.eof`).
* an `i32` that is converted with `usize::try_from` / `u64::try_from` rejects negative values
  (`Err.invalid`) — `i32nn`.
* `map_err(|e| io::Error::new(InvalidData, e))` — `wrapInvalid`: every error, `UnexpectedEof`
  included, becomes `InvalidData`.
-/
namespace Noodles.Index
open Noodles.Codec

abbrev Chunk := Noodles.Csi.Chunk

def u32 : Dec Nat := unle 4
def u64 : Dec Nat := unle 8

/-- `read_i32_le` followed by `usize::try_from` (or `u64::try_from`): negative → invalid -/
def i32nn : Dec Nat := fun r =>
  match unle 4 r with
  | .error e => .error e
  | .ok (v, r') => if v < 2^31 then .ok (v, r') else .error .invalid

/-- a count field: `i32` checked non-negative (tabix, CSI) or plain `u32` (BAI) -/
def count (signed : Bool) : Dec Nat := if signed then i32nn else u32

/-- largest representable count + 1 -/
def countBound (signed : Bool) : Nat := if signed then 2^31 else 2^32

/-- `.map_err(|e| io::Error::new(io::ErrorKind::InvalidData, e))` -/
def wrapInvalid {α : Type} (d : Dec α) : Dec α := fun r =>
  match d r with
  | .ok x => .ok x
  | .error _ => .error .invalid

/-- `read_magic_number`: `read_exact` of `m.length` bytes, then compare -/
def decMagic (m : Bytes) : Dec Unit := fun r =>
  if r.length < m.length then .error .eof
  else if r.take m.length = m then .ok ((), r.drop m.length) else .error .invalid

/-! ### chunks (`noodles-csi/src/io/{reader,writer}/index/reference_sequences/bins/chunks.rs`;
the BAI and tabix readers call the CSI `read_chunks`, their writers emit the same bytes) -/

def encChunk (c : Chunk) : Bytes := le 8 c.s ++ le 8 c.e

def decChunk : Dec Chunk := fun r =>
  match u64 r with
  | .error e => .error e
  | .ok (s, r1) =>
    match u64 r1 with
    | .error e => .error e
    | .ok (e, r2) => .ok (⟨s, e⟩, r2)

/-- `write_chunks`: `n_chunk` then the chunks -/
def encChunks (cs : List Chunk) : Bytes := le 4 cs.length ++ (cs.map encChunk).flatten

/-- `read_chunks`: `n_chunk` is read as `i32` and must be non-negative -/
def decChunks : Dec (List Chunk) := fun r =>
  match i32nn r with
  | .error e => .error e
  | .ok (n, r1) => decN decChunk n r1

/-! ### the metadata pseudo-bin's payload
(`noodles-csi/src/io/reader/index/reference_sequences/metadata.rs` `read_metadata`; writers:
`…/writer/index/reference_sequences/metadata.rs` in noodles-bam, noodles-tabix, noodles-csi) -/

structure Meta where
  refBeg : Nat
  refEnd : Nat
  nMapped : Nat
  nUnmapped : Nat
deriving DecidableEq, Repr

/-- `n_chunk = 2`, then the two pseudo-chunks `(ref_beg, ref_end)`, `(n_mapped, n_unmapped)` -/
def encMeta (m : Meta) : Bytes :=
  le 4 2 ++ (le 8 m.refBeg ++ (le 8 m.refEnd ++ (le 8 m.nMapped ++ le 8 m.nUnmapped)))

def decMeta : Dec Meta := fun r =>
  match u32 r with
  | .error e => .error e
  | .ok (n, r0) =>
    if n ≠ 2 then .error .invalid else
    match u64 r0 with
    | .error e => .error e
    | .ok (a, r1) =>
      match u64 r1 with
      | .error e => .error e
      | .ok (b, r2) =>
        match u64 r2 with
        | .error e => .error e
        | .ok (c, r3) =>
          match u64 r3 with
          | .error e => .error e
          | .ok (d, r4) => .ok (⟨a, b, c, d⟩, r4)

def Meta.WF (m : Meta) : Prop :=
  m.refBeg < 2^64 ∧ m.refEnd < 2^64 ∧ m.nMapped < 2^64 ∧ m.nUnmapped < 2^64

/-! ### the optional trailing `n_no_coor`
(`read_unplaced_unmapped_record_count` in the BAI, tabix and CSI index readers: a `u64`, or
nothing when the stream ends — `UnexpectedEof` is mapped to `None`, whatever was left is gone) -/

def encUnplaced : Option Nat → Bytes
  | none => []
  | some n => le 8 n

def decUnplaced (r : Bytes) : Option Nat × Bytes :=
  match u64 r with
  | .ok (n, r') => (some n, r')
  | .error _ => (none, [])

/-! ### linear offsets (`intervals.rs` of noodles-bam / noodles-tabix) -/

def encIntervals (l : List Nat) : Bytes := le 4 l.length ++ (l.map (le 8)).flatten

def decIntervals (signed : Bool) : Dec (List Nat) := fun r =>
  match count signed r with
  | .error e => .error e
  | .ok (n, r1) => decN u64 n r1

/-! ### bins of a reference sequence with a linear index (BAI, tabix)
`read_bins` (`noodles-bam/src/bai/io/reader/index/reference_sequences/bins.rs`,
`noodles-tabix/src/io/reader/index/reference_sequences/bins.rs`): `n_bin` entries, each a
`u32` id followed by either the metadata payload (id = 37450) or a chunk list; a second
metadata entry or a repeated bin id is `InvalidData`; errors of `read_metadata` /
`read_chunks` are wrapped as `InvalidData`. The bins keep file order (`IndexMap`). -/

abbrev Bins := List (Nat × List Chunk)

/-- `Bin::metadata_id(5)` for BAI and tabix -/
def metaIdLinear : Nat := 37450

def readBinsLoop (metaId : Nat) :
    Nat → Bins → Option Meta → Bytes → Except Err ((Bins × Option Meta) × Bytes)
  | 0, bins, md, r => .ok ((bins, md), r)
  | n+1, bins, md, r =>
    match u32 r with
    | .error e => .error e
    | .ok (id, r1) =>
      if id = metaId then
        match wrapInvalid decMeta r1 with
        | .error e => .error e
        | .ok (m, r2) =>
          if md.isSome then .error .invalid else readBinsLoop metaId n bins (some m) r2
      else
        match wrapInvalid decChunks r1 with
        | .error e => .error e
        | .ok (cs, r2) =>
          if bins.any (fun b => b.1 = id) then .error .invalid
          else readBinsLoop metaId n (bins ++ [(id, cs)]) md r2

def decBins (signed : Bool) : Dec (Bins × Option Meta) := fun r =>
  match count signed r with
  | .error e => .error e
  | .ok (n, r1) => readBinsLoop metaIdLinear n [] none r1

def encBin (b : Nat × List Chunk) : Bytes := le 4 b.1 ++ encChunks b.2

def metaCount : Option Meta → Nat
  | none => 0
  | some _ => 1

def encMetaBin (metaId : Nat) : Option Meta → Bytes
  | none => []
  | some m => le 4 metaId ++ encMeta m

/-- `write_bins`: `n_bin` (+1 for the metadata), the bins in map order, the metadata LAST -/
def encBins (bins : Bins) (md : Option Meta) : Bytes :=
  le 4 (bins.length + metaCount md) ++
    ((bins.map encBin).flatten ++ encMetaBin metaIdLinear md)

structure RefLin where
  bins : Bins
  md : Option Meta
  lin : List Nat
deriving DecidableEq, Repr

def encRefLin (r : RefLin) : Bytes := encBins r.bins r.md ++ encIntervals r.lin

def decRefLin (signed : Bool) : Dec RefLin := fun r =>
  match decBins signed r with
  | .error e => .error e
  | .ok ((bins, md), r1) =>
    match decIntervals signed r1 with
    | .error e => .error e
    | .ok (lin, r2) => .ok (⟨bins, md, lin⟩, r2)

def Chunk.WF (c : Chunk) : Prop := c.s < 2^64 ∧ c.e < 2^64

/-- what a bin list must satisfy to be representable: ids are `u32`, distinct (it is a map),
none collides with the metadata pseudo-bin; `n_chunk` is read back as a non-negative `i32` -/
def Bins.WF (metaId : Nat) (bins : Bins) : Prop :=
  (bins.map (·.1)).Nodup ∧
  ∀ b ∈ bins, b.1 < 2^32 ∧ b.1 ≠ metaId ∧ b.2.length < 2^31 ∧ ∀ c ∈ b.2, Chunk.WF c

def metaWF : Option Meta → Prop
  | none => True
  | some m => m.WF

def RefLin.WF (signed : Bool) (r : RefLin) : Prop :=
  Bins.WF metaIdLinear r.bins ∧ r.bins.length + 1 < countBound signed ∧ metaWF r.md ∧
  r.lin.length < countBound signed ∧ ∀ o ∈ r.lin, o < 2^64

end Noodles.Index
