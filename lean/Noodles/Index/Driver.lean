import Noodles.Basic.Wire
import Noodles.Index.Linear
import Noodles.Index.Csi
import Noodles.Index.Text
/-!
Line-protocol handlers for the index-file ops of suite `c17`:

  `<fmt>-bytes <description>` → hex of the model writer's output (`err:invalid-input` when a
                                 writer guard fails)
  `<fmt>-parse <hex>`         → `ok <description>` of what the model reader returns, or the
                                 error class

`<fmt>` ∈ gzi, bai, tbi, csi, fai, crai. Descriptions are single words:

  chunks  `-` | `s:e,s:e,…`            bin   `<id>=<chunks>`        bins `-` | bin`+`bin…
  md      `-` | `beg:end:mapped:unmapped`                           lin  `-` | `o,o,…`
  ref     `<bins>|<md>|<lin>`   (CSI: `<bins>|<md>|<index>`, index `-` | `id:loffset,…`)
  refs    `-` | ref`;`ref…              unplaced `-` | n
  header  `-` | `<g0|g1|s|v>,<colseq>,<colbeg>,<colend|->,<meta>,<skip>,<names>`
  names   `-` | name`.`name…  (hex; `_` = empty name)
  bai `<refs>/<unplaced>`   tbi `<header>/<refs>/<unplaced>`   csi `<ms>,<d>/<header>/<refs>/<unplaced>`
  gzi `-` | `c:u,c:u,…`     fai `-` | `<hexname|_>,len,pos,lb,lw;…`   crai `-` | `<rid|->,start,span,off,lm,sl;…`
-/
namespace Noodles.Index
open Noodles.Wire
open Noodles.Codec (Err)

def errStr : Err → String
  | .eof => "err:eof"
  | .invalid => "err:invalid-data"

def listOf {α : Type} (sep : String) (f : String → Option α) (s : String) : Option (List α) :=
  if s = "-" then some [] else (s.splitOn sep).mapM f

def fmtList {α : Type} (sep : String) (f : α → String) (l : List α) : String :=
  if l.isEmpty then "-" else sep.intercalate (l.map f)

def optNat (s : String) : Option (Option Nat) :=
  if s = "-" then some none else s.toNat?.map some

def fmtOptNat : Option Nat → String
  | none => "-"
  | some n => toString n

def parseChunks (s : String) : Option (List Chunk) :=
  (pairs s).map fun l => l.map fun p => ⟨p.1, p.2⟩

def fmtChunksI (l : List Chunk) : String := fmtPairs ":" (l.map fun c => (c.s, c.e))

def parseBin (s : String) : Option (Nat × List Chunk) :=
  match s.splitOn "=" with
  | [id, cs] => do pure ((← id.toNat?), (← parseChunks cs))
  | _ => none

def fmtBin (b : Nat × List Chunk) : String := s!"{b.1}={fmtChunksI b.2}"

def parseMd (s : String) : Option (Option Meta) :=
  if s = "-" then some none else
  match (s.splitOn ":").mapM (·.toNat?) with
  | some [a, b, c, d] => some (some ⟨a, b, c, d⟩)
  | _ => none

def fmtMd : Option Meta → String
  | none => "-"
  | some m => s!"{m.refBeg}:{m.refEnd}:{m.nMapped}:{m.nUnmapped}"

def parseRefLin (s : String) : Option RefLin :=
  match s.splitOn "|" with
  | [b, m, l] => do pure ⟨(← listOf "+" parseBin b), (← parseMd m), (← nats l)⟩
  | _ => none

def fmtRefLin (r : RefLin) : String :=
  s!"{fmtList "+" fmtBin r.bins}|{fmtMd r.md}|{fmtList "," toString r.lin}"

def parseRefCsi (s : String) : Option RefCsi :=
  match s.splitOn "|" with
  | [b, m, i] => do pure ⟨(← listOf "+" parseBin b), (← pairs i), (← parseMd m)⟩
  | _ => none

def fmtRefCsi (r : RefCsi) : String :=
  s!"{fmtList "+" fmtBin r.bins}|{fmtMd r.md}|{fmtPairs ":" r.index}"

def parseName (s : String) : Option Bytes := if s = "_" then some [] else unhex s

def fmtName (b : Bytes) : String := if b.isEmpty then "_" else hex b

def parseFormat : String → Option Format
  | "g0" => some (.generic false)
  | "g1" => some (.generic true)
  | "s" => some .sam
  | "v" => some .vcf
  | _ => none

def fmtFormat : Format → String
  | .generic false => "g0"
  | .generic true => "g1"
  | .sam => "s"
  | .vcf => "v"

def parseHeader (s : String) : Option (Option Header) :=
  if s = "-" then some none else
  match s.splitOn "," with
  | [f, cs, cb, ce, m, sk, nm] => do
    pure (some ⟨(← parseFormat f), (← cs.toNat?), (← cb.toNat?), (← optNat ce), (← m.toNat?),
      (← sk.toNat?), (← listOf "." parseName nm)⟩)
  | _ => none

def fmtHeader : Option Header → String
  | none => "-"
  | some h =>
    s!"{fmtFormat h.format},{h.colSeq},{h.colBeg},{fmtOptNat h.colEnd},{h.metaChar},{h.skip},{fmtList "." fmtName h.names}"

def parseBai (s : String) : Option Bai :=
  match s.splitOn "/" with
  | [r, u] => do pure ⟨(← listOf ";" parseRefLin r), (← optNat u)⟩
  | _ => none

def fmtBai (ix : Bai) : String := s!"{fmtList ";" fmtRefLin ix.refs}/{fmtOptNat ix.unplaced}"

def parseTabix (s : String) : Option Tabix :=
  match s.splitOn "/" with
  | [h, r, u] => do pure ⟨(← parseHeader h), (← listOf ";" parseRefLin r), (← optNat u)⟩
  | _ => none

def fmtTabix (ix : Tabix) : String :=
  s!"{fmtHeader ix.header}/{fmtList ";" fmtRefLin ix.refs}/{fmtOptNat ix.unplaced}"

def parseCsi (s : String) : Option CsiIndex :=
  match s.splitOn "/" with
  | [g, h, r, u] =>
    match g.splitOn "," with
    | [ms, d] => do
      pure ⟨(← ms.toNat?), (← d.toNat?), (← parseHeader h), (← listOf ";" parseRefCsi r), (← optNat u)⟩
    | _ => none
  | _ => none

def fmtCsi (ix : CsiIndex) : String :=
  s!"{ix.minShift},{ix.depth}/{fmtHeader ix.header}/{fmtList ";" fmtRefCsi ix.refs}/{fmtOptNat ix.unplaced}"

def parseFaiRec (s : String) : Option FaiRecord :=
  match s.splitOn "," with
  | [n, a, b, c, d] => do
    pure ⟨(← parseName n), (← a.toNat?), (← b.toNat?), (← c.toNat?), (← d.toNat?)⟩
  | _ => none

def fmtFaiRec (r : FaiRecord) : String :=
  s!"{fmtName r.name},{r.length},{r.position},{r.lineBases},{r.lineWidth}"

def parseCraiRec (s : String) : Option CraiRecord :=
  match s.splitOn "," with
  | [i, a, b, c, d, e] => do
    pure ⟨(← optNat i), (← a.toNat?), (← b.toNat?), (← c.toNat?), (← d.toNat?), (← e.toNat?)⟩
  | _ => none

def fmtCraiRec (r : CraiRecord) : String :=
  s!"{fmtOptNat r.refId},{r.start},{r.span},{r.offset},{r.landmark},{r.sliceLength}"

def fmtWritten : Option Bytes → String
  | none => "err:invalid-input"
  | some b => hex b

/-- `ok <description> rest=<bytes left>` -/
def fmtRead {α : Type} (f : α → String) : Except Err (α × Bytes) → String
  | .error e => errStr e
  | .ok (a, r) => s!"ok {f a} rest={r.length}"

def handleIndex : List String → Option String
  | ["gzi-bytes", d] => some <| match pairs d with
    | some ix => hex (encGzi ix)
    | none => "bad-op"
  | ["gzi-parse", h] => some <| match unhex h with
    | some b => match readGzi b with
      | .ok ix => s!"ok {fmtPairs ":" ix}"
      | .error e => errStr e
    | none => "bad-op"
  | ["bai-bytes", d] => some <| match parseBai d with
    | some ix => fmtWritten (writeBai ix)
    | none => "bad-op"
  | ["bai-parse", h] => some <| match unhex h with
    | some b => fmtRead fmtBai (readBai b)
    | none => "bad-op"
  | ["tbi-bytes", d] => some <| match parseTabix d with
    | some ix => fmtWritten (writeTabix ix)
    | none => "bad-op"
  | ["tbi-parse", h] => some <| match unhex h with
    | some b => match readTabix b with
      | .ok (ix, _) => s!"ok {fmtTabix ix}"
      | .error e => errStr e
    | none => "bad-op"
  | ["csi-bytes", d] => some <| match parseCsi d with
    | some ix => fmtWritten (writeCsi ix)
    | none => "bad-op"
  | ["csi-parse", h] => some <| match unhex h with
    | some b => match readCsi b with
      | .ok (ix, _) => s!"ok {fmtCsi ix}"
      | .error e => errStr e
    | none => "bad-op"
  | ["fai-bytes", d] => some <| match listOf ";" parseFaiRec d with
    | some ix => hex (encFai ix)
    | none => "bad-op"
  | ["fai-parse", h] => some <| match unhex h with
    | some b => match readFai b with
      | .ok ix => s!"ok {fmtList ";" fmtFaiRec ix}"
      | .error e => errStr e
    | none => "bad-op"
  | ["crai-bytes", d] => some <| match listOf ";" parseCraiRec d with
    | some ix => hex (encCrai ix)
    | none => "bad-op"
  | ["crai-parse", h] => some <| match unhex h with
    | some b => match readCrai b with
      | .ok ix => s!"ok {fmtList ";" fmtCraiRec ix}"
      | .error e => errStr e
    | none => "bad-op"
  | _ => none

end Noodles.Index
