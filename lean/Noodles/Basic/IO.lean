namespace Noodles.IO
variable {α : Type}

/-- one delivery decision of the underlying `Read`: hand over at most `n ≥ 1` bytes, or fail with
`ErrorKind::Interrupted`. -/
inductive Delivery | chunk (n : Nat) | interrupted

structure Src (α : Type) where
  data : List α                -- bytes not yet delivered
  sched : List Delivery        -- finite adversarial schedule; afterwards everything asked is delivered

inductive ReadRes (α : Type) | ok (bs : List α) | interrupted

/-- `Read::read(buf)` with `buf.len() = want` -/
def read (s : Src α) (want : Nat) : ReadRes α × Src α :=
  match s.sched with
  | [] => (.ok (s.data.take want), ⟨s.data.drop want, []⟩)
  | .interrupted :: sc => (.interrupted, ⟨s.data, sc⟩)
  | .chunk n :: sc =>
    let k := min want (max n 1)
    (.ok (s.data.take k), ⟨s.data.drop k, sc⟩)

inductive ExactRes (α : Type) | ok (bs : List α) | unexpectedEof

/-- `default_read_exact` of noodles-bgzf / std: loop on `read`, retry on `Interrupted`, `Ok(0)` ends
the loop.  `fuel` bounds the iterations; `want + sched.length + 1` always suffices. -/
def readExactLoop : Nat → Src α → Nat → List α → ExactRes α × Src α
  | 0, s, _, _ => (.unexpectedEof, s)
  | fuel+1, s, want, acc =>
    if want = 0 then (.ok acc, s)
    else match read s want with
      | (.interrupted, s') => readExactLoop fuel s' want acc
      | (.ok bs, s') =>
        if bs.length = 0 then (.unexpectedEof, s')
        else readExactLoop fuel s' (want - bs.length) (acc ++ bs)

def readExact (s : Src α) (want : Nat) : ExactRes α × Src α :=
  readExactLoop (want + s.sched.length + 1) s want []

/-- specification: what `read_exact` does on an unchunked source -/
def specExact (data : List α) (want : Nat) : ExactRes α × List α :=
  if want ≤ data.length then (.ok (data.take want), data.drop want) else (.unexpectedEof, [])

theorem read_nil (s : Src α) (want : Nat) (hs : s.sched = []) :
    read s want = (.ok (s.data.take want), ⟨s.data.drop want, []⟩) := by
  unfold read; rw [hs]

theorem read_intr (s : Src α) (want : Nat) (sc : List Delivery) (hs : s.sched = .interrupted :: sc) :
    read s want = (.interrupted, ⟨s.data, sc⟩) := by
  unfold read; rw [hs]

theorem read_chunk (s : Src α) (want n : Nat) (sc : List Delivery) (hs : s.sched = .chunk n :: sc) :
    read s want = (.ok (s.data.take (min want (max n 1))), ⟨s.data.drop (min want (max n 1)), sc⟩) := by
  unfold read; rw [hs]

theorem loop_step_ok (fuel : Nat) (s s' : Src α) (want : Nat) (acc bs : List α) (hw : want ≠ 0)
    (hr : read s want = (.ok bs, s')) (hb : bs.length ≠ 0) :
    readExactLoop (fuel+1) s want acc = readExactLoop fuel s' (want - bs.length) (acc ++ bs) := by
  rw [readExactLoop, if_neg hw, hr]; simp only; rw [if_neg hb]

theorem loop_step_intr (fuel : Nat) (s s' : Src α) (want : Nat) (acc : List α) (hw : want ≠ 0)
    (hr : read s want = (.interrupted, s')) :
    readExactLoop (fuel+1) s want acc = readExactLoop fuel s' want acc := by
  rw [readExactLoop, if_neg hw, hr]

/-- **Schedule irrelevance.**  Whatever the delivery schedule (short reads, interruptions), a
successful `read_exact` returns exactly the next `want` bytes and leaves exactly the rest. -/
theorem readExactLoop_ok (fuel : Nat) (s : Src α) (want : Nat) (acc : List α)
    (hf : want + s.sched.length < fuel) (hw : want ≤ s.data.length) :
    (readExactLoop fuel s want acc).1 = .ok (acc ++ s.data.take want) ∧
    (readExactLoop fuel s want acc).2.data = s.data.drop want := by
  induction fuel generalizing s want acc with
  | zero => omega
  | succ fuel ih =>
    by_cases h0 : want = 0
    · subst h0; simp [readExactLoop]
    · have hpos : 0 < want := Nat.pos_of_ne_zero h0
      cases hs : s.sched with
      | nil =>
        have hl : (s.data.take want).length = want := by simp [List.length_take]; omega
        rw [loop_step_ok fuel s _ want acc _ h0 (read_nil s want hs) (by rw [hl]; exact h0)]
        rw [hl, Nat.sub_self]
        have := ih ⟨s.data.drop want, []⟩ 0 (acc ++ s.data.take want)
          (by show 0 + 0 < fuel; rw [hs] at hf; simp at hf; omega) (Nat.zero_le _)
        simpa using this
      | cons d sc =>
        cases d with
        | interrupted =>
          rw [loop_step_intr fuel s _ want acc h0 (read_intr s want sc hs)]
          exact ih ⟨s.data, sc⟩ want acc (by rw [hs] at hf; simp at hf ⊢; omega) hw
        | chunk n =>
          have hkw : min want (max n 1) ≤ want := Nat.min_le_left _ _
          have hk1 : 1 ≤ min want (max n 1) := by omega
          have hl : (s.data.take (min want (max n 1))).length = min want (max n 1) := by
            simp [List.length_take]; omega
          rw [loop_step_ok fuel s _ want acc _ h0 (read_chunk s want n sc hs) (by rw [hl]; omega)]
          have := ih ⟨s.data.drop (min want (max n 1)), sc⟩
            (want - (s.data.take (min want (max n 1))).length)
            (acc ++ s.data.take (min want (max n 1)))
            (by rw [hs] at hf; simp at hf ⊢; omega) (by simp [hl]; omega)
          rw [hl] at this ⊢
          obtain ⟨h1, h2⟩ := this
          constructor
          · rw [h1]; simp only [List.append_assoc]; congr 2
            rw [← List.take_add]; congr 1; omega
          · rw [h2]; simp only [List.drop_drop]; congr 1; omega

theorem readExact_schedule_irrelevant (data : List α) (sched : List Delivery) (want : Nat)
    (hw : want ≤ data.length) :
    (readExact ⟨data, sched⟩ want).1 = .ok (data.take want) ∧
    (readExact ⟨data, sched⟩ want).2.data = data.drop want := by
  have := readExactLoop_ok (want + sched.length + 1) ⟨data, sched⟩ want [] (by simp) hw
  simpa [readExact] using this

#print axioms readExact_schedule_irrelevant
end Noodles.IO
