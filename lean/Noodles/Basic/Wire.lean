/-! Wire helpers for the line protocol between the Rust harness and the Lean driver. -/
namespace Noodles.Wire

abbrev Bytes := List UInt8
-- (same type as `Noodles.Codec.Bytes`)

def hexDigit (c : Char) : Option Nat :=
  if '0' ≤ c ∧ c ≤ '9' then some (c.toNat - '0'.toNat)
  else if 'a' ≤ c ∧ c ≤ 'f' then some (c.toNat - 'a'.toNat + 10)
  else none

def unhexChars : List Char → Option Bytes
  | [] => some []
  | a :: b :: rest => do
    let x ← hexDigit a
    let y ← hexDigit b
    let r ← unhexChars rest
    pure (UInt8.ofNat (x * 16 + y) :: r)
  | _ => none

/-- `-` is the empty byte string. -/
def unhex (s : String) : Option Bytes :=
  if s = "-" then some [] else unhexChars s.toList

def hexNibble (n : Nat) : Char :=
  if n < 10 then Char.ofNat ('0'.toNat + n) else Char.ofNat ('a'.toNat + n - 10)

def hex (b : Bytes) : String :=
  if b.isEmpty then "-" else
  String.ofList (b.flatMap fun x => [hexNibble (x.toNat / 16), hexNibble (x.toNat % 16)])

def words (line : String) : List String :=
  (line.trimAscii.toString.splitOn " ").filter (· ≠ "")

/-- `a:b,c:d` → list of pairs; `-` → empty -/
def pairs (s : String) : Option (List (Nat × Nat)) :=
  if s = "-" then some [] else
  (s.splitOn ",").mapM fun p =>
    match p.splitOn ":" with
    | [a, b] => do pure ((← a.toNat?), (← b.toNat?))
    | _ => none

def nats (s : String) : Option (List Nat) :=
  if s = "-" then some [] else (s.splitOn ",").mapM (·.toNat?)

def fmtPairs (sep : String) (l : List (Nat × Nat)) : String :=
  if l.isEmpty then "-" else ",".intercalate (l.map fun p => s!"{p.1}{sep}{p.2}")

end Noodles.Wire
