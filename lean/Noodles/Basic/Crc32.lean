/-! CRC-32 (IEEE 802.3, reflected, as in gzip), executable; used by the driver's concrete `Deflater`. -/
namespace Noodles.Crc32

def step1 (c : UInt32) : UInt32 :=
  if c &&& 1 ≠ 0 then (c >>> 1) ^^^ 0xEDB88320 else c >>> 1

def step8 (c : UInt32) : UInt32 := step1 (step1 (step1 (step1 (step1 (step1 (step1 (step1 c)))))))

def table : Array UInt32 := Array.ofFn (n := 256) fun i => step8 i.val.toUInt32

def update (c : UInt32) (b : UInt8) : UInt32 :=
  table[((c ^^^ b.toUInt32) &&& 0xFF).toNat]! ^^^ (c >>> 8)

def crc32 (bs : List UInt8) : Nat :=
  ((bs.foldl update 0xFFFFFFFF) ^^^ 0xFFFFFFFF).toNat

end Noodles.Crc32
