namespace Noodles.Text

abbrev Bytes := List UInt8

/-! ### splitting on a delimiter -/

/-- split on every occurrence of `d` (like `slice::split`): always at least one field. -/
def splitOn (d : UInt8) : Bytes → List Bytes
  | [] => [[]]
  | b :: r =>
    if b = d then [] :: splitOn d r
    else match splitOn d r with
      | [] => [[b]]          -- unreachable, kept total
      | f :: fs => (b :: f) :: fs

def join (d : UInt8) : List Bytes → Bytes
  | [] => []
  | [f] => f
  | f :: g :: fs => f ++ d :: join d (g :: fs)

theorem splitOn_ne_nil (d : UInt8) (s : Bytes) : splitOn d s ≠ [] := by
  induction s with
  | nil => simp [splitOn]
  | cons b r ih =>
    unfold splitOn
    split
    · simp
    · split <;> simp

theorem splitOn_free (d : UInt8) (f : Bytes) (hf : d ∉ f) : splitOn d f = [f] := by
  induction f with
  | nil => rfl
  | cons b r ih =>
    have hb : b ≠ d := fun h => hf (by simp [h])
    have hr : d ∉ r := fun h => hf (List.mem_cons_of_mem _ h)
    simp [splitOn, hb, ih hr]

theorem splitOn_append_delim (d : UInt8) (f : Bytes) (hf : d ∉ f) (rest : Bytes) :
    splitOn d (f ++ d :: rest) = f :: splitOn d rest := by
  induction f with
  | nil => simp [splitOn]
  | cons b r ih =>
    have hb : b ≠ d := fun h => hf (by simp [h])
    have hr : d ∉ r := fun h => hf (List.mem_cons_of_mem _ h)
    simp [splitOn, hb, ih hr]

/-- fields that do not contain the delimiter survive join-then-split, for any non-empty list. -/
theorem splitOn_join (d : UInt8) (fs : List Bytes) (hne : fs ≠ []) (hfree : ∀ f ∈ fs, d ∉ f) :
    splitOn d (join d fs) = fs := by
  induction fs with
  | nil => exact absurd rfl hne
  | cons f rest ih =>
    cases rest with
    | nil => simpa [join] using splitOn_free d f (hfree f (by simp))
    | cons g gs =>
      simp only [join]
      rw [splitOn_append_delim d f (hfree f (by simp))]
      rw [ih (by simp) (fun x hx => hfree x (List.mem_cons_of_mem _ hx))]

/-! ### decimal integers -/

def digit (n : Nat) : UInt8 := UInt8.ofNat (48 + n % 10)

/-- digits of `n`, most significant first (`lexical_core::write` / `itoa` for unsigned). -/
def printNatAux : Nat → Nat → Bytes → Bytes
  | 0, _, acc => acc
  | fuel+1, n, acc => if n < 10 then digit n :: acc else printNatAux fuel (n / 10) (digit n :: acc)

def printNat (n : Nat) : Bytes := printNatAux (n + 1) n []

/-- accumulate decimal digits; `none` on a non-digit -/
def parseNatAux : Bytes → Nat → Option Nat
  | [], acc => some acc
  | b :: r, acc =>
    if 48 ≤ b.toNat ∧ b.toNat ≤ 57 then parseNatAux r (acc * 10 + (b.toNat - 48)) else none

def parseNat (s : Bytes) : Option Nat := if s = [] then none else parseNatAux s 0

theorem digit_toNat (n : Nat) : (digit n).toNat = 48 + n % 10 := by
  unfold digit; simp; omega

theorem parseNatAux_append (a b : Bytes) (acc : Nat) :
    parseNatAux (a ++ b) acc = (parseNatAux a acc).bind (parseNatAux b) := by
  induction a generalizing acc with
  | nil => simp [parseNatAux]
  | cons x xs ih =>
    simp only [List.cons_append, parseNatAux]
    split
    · exact ih _
    · simp

/-- value semantics of the printer: parsing `printNatAux fuel n acc` from accumulator `a` equals
parsing `acc` from `a * 10^k + n` … stated in the form needed for the round trip. -/
theorem parse_printAux (fuel n : Nat) (hf : n < fuel) (acc : Bytes) (a : Nat) :
    ∃ k, ∀ a, parseNatAux (printNatAux fuel n acc) a = parseNatAux acc (a * 10^k + n) := by
  induction fuel generalizing n acc with
  | zero => omega
  | succ fuel ih =>
    unfold printNatAux
    split
    · rename_i hlt
      refine ⟨1, fun a => ?_⟩
      simp only [parseNatAux, digit_toNat]
      have h1 : 48 ≤ 48 + n % 10 ∧ 48 + n % 10 ≤ 57 := by omega
      simp only [h1, and_self, if_true]
      congr 1; rw [Nat.mod_eq_of_lt hlt]; omega
    · rename_i hge
      obtain ⟨k, hk⟩ := ih (n / 10) (by omega) (digit n :: acc)
      refine ⟨k + 1, fun a => ?_⟩
      rw [hk a]
      simp only [parseNatAux, digit_toNat]
      have h1 : 48 ≤ 48 + n % 10 ∧ 48 + n % 10 ≤ 57 := by omega
      simp only [h1, and_self, if_true]
      congr 1
      rw [Nat.pow_succ]
      have := Nat.div_add_mod n 10
      have e : (a * 10 ^ k + n / 10) * 10 = a * (10 ^ k * 10) + n / 10 * 10 := by
        rw [Nat.add_mul, Nat.mul_assoc]
      omega

theorem printNatAux_ne_nil (fuel n : Nat) (hf : 0 < fuel) (acc : Bytes) :
    printNatAux fuel n acc ≠ [] := by
  induction fuel generalizing n acc with
  | zero => omega
  | succ fuel ih =>
    unfold printNatAux
    split
    · simp
    · cases fuel with
      | zero => simp [printNatAux]
      | succ f => exact ih _ (by omega) _

/-- decimal round trip for every natural number -/
theorem parse_print (n : Nat) : parseNat (printNat n) = some n := by
  unfold parseNat printNat
  rw [if_neg (printNatAux_ne_nil _ _ (by omega) _)]
  obtain ⟨k, hk⟩ := parse_printAux (n+1) n (by omega) [] 0
  rw [hk 0]; simp [parseNatAux]

#print axioms splitOn_join
#print axioms parse_print
end Noodles.Text
