namespace Noodles.Pct

abbrev Bytes := List UInt8

def hexDigit (n : Nat) : UInt8 := if n < 10 then UInt8.ofNat (48 + n) else UInt8.ofNat (55 + n)  -- '0'..'9','A'..'F'

def unhex (b : UInt8) : Option Nat :=
  let n := b.toNat
  if 48 ≤ n ∧ n ≤ 57 then some (n - 48)
  else if 65 ≤ n ∧ n ≤ 70 then some (n - 55)
  else if 97 ≤ n ∧ n ≤ 102 then some (n - 87)
  else none

/-- `percent_encoding::percent_encode(s, set)`: bytes in `esc` become `%XX` (upper-case hex). -/
def encode (esc : UInt8 → Bool) : Bytes → Bytes
  | [] => []
  | b :: r => if esc b then 37 :: hexDigit (b.toNat / 16) :: hexDigit (b.toNat % 16) :: encode esc r
              else b :: encode esc r

/-- `percent_encoding::percent_decode`: `%XX` with two hex digits becomes a byte, anything else is
copied. -/
def decode : Bytes → Bytes
  | 37 :: h :: l :: r =>
    match unhex h, unhex l with
    | some a, some b => UInt8.ofNat (a * 16 + b) :: decode r
    | _, _ => 37 :: decode (h :: l :: r)
  | b :: r => b :: decode r
  | [] => []

theorem unhex_hexDigit (n : Nat) (h : n < 16) : unhex (hexDigit n) = some n := by
  unfold hexDigit unhex
  split
  · have : (UInt8.ofNat (48 + n)).toNat = 48 + n := by simp; omega
    simp only [this]; simp; omega
  · have : (UInt8.ofNat (55 + n)).toNat = 55 + n := by simp; omega
    simp only [this]
    have h1 : ¬ (48 ≤ 55 + n ∧ 55 + n ≤ 57) := by omega
    have h2 : 65 ≤ 55 + n ∧ 55 + n ≤ 70 := by omega
    simp only [h1, h2, if_false, if_true, and_self]; congr 1; omega

theorem decode_cons_ne (b : UInt8) (r : Bytes) (hb : b ≠ 37) : decode (b :: r) = b :: decode r :=
  decode.eq_2 b r (fun _ _ _ h37 _ => hb h37)

/-- decode ∘ encode = id for every escape set that contains `%`. -/
theorem decode_encode (esc : UInt8 → Bool) (hpct : esc 37 = true) (s : Bytes) :
    decode (encode esc s) = s := by
  induction s with
  | nil => simp [encode, decode]
  | cons b r ih =>
    unfold encode
    split
    · have h1 := unhex_hexDigit (b.toNat / 16) (by have := b.toNat_lt; omega)
      have h2 := unhex_hexDigit (b.toNat % 16) (by omega)
      simp only [decode, h1, h2, ih]
      congr 1
      have : b.toNat / 16 * 16 + b.toNat % 16 = b.toNat := by omega
      rw [this]; simp
    · rename_i hne
      have hb : b ≠ 37 := by intro h; subst h; simp [hpct] at hne
      rw [decode_cons_ne b _ hb, ih]

/-- the encoded text contains no escaped byte other than `%` itself — so it can be split on any
reserved delimiter. -/
theorem encode_free (esc : UInt8 → Bool) (s : Bytes) (d : UInt8) (hd : esc d = true) (hd37 : d ≠ 37)
    (hnothex : ∀ n, n < 16 → hexDigit n ≠ d) : d ∉ encode esc s := by
  induction s with
  | nil => simp [encode]
  | cons b r ih =>
    unfold encode
    split
    · intro hm
      rcases List.mem_cons.mp hm with h | hm
      · exact hd37 h
      rcases List.mem_cons.mp hm with h | hm
      · exact hnothex _ (by have := b.toNat_lt; omega) h.symm
      rcases List.mem_cons.mp hm with h | hm
      · exact hnothex _ (by omega) h.symm
      · exact ih hm
    · rename_i hne
      intro hm
      rcases List.mem_cons.mp hm with h | hm
      · subst h; simp [hd] at hne
      · exact ih hm

#print axioms decode_encode
#print axioms encode_free
end Noodles.Pct
