namespace Noodles.Codec

abbrev Bytes := List UInt8
inductive Err | eof | invalid deriving Repr, DecidableEq
abbrev Dec (α : Type) := Bytes → Except Err (α × Bytes)

/-- `n` little-endian bytes of `k` -/
def le : Nat → Nat → Bytes
  | 0, _ => []
  | n+1, k => UInt8.ofNat (k % 256) :: le n (k / 256)

def unle : Nat → Dec Nat
  | 0, r => .ok (0, r)
  | _+1, [] => .error .eof
  | n+1, b :: r =>
    match unle n r with
    | .ok (v, r') => .ok (b.toNat + 256 * v, r')
    | .error e => .error e

theorem le_length (n k : Nat) : (le n k).length = n := by
  induction n generalizing k with
  | zero => rfl
  | succ n ih => simp [le, ih]

theorem unle_le (n k : Nat) (h : k < 256^n) (r : Bytes) : unle n (le n k ++ r) = .ok (k, r) := by
  induction n generalizing k with
  | zero => simp [le, unle]; simp at h; omega
  | succ n ih =>
    have hk : k / 256 < 256^n := by rw [Nat.pow_succ] at h; omega
    simp only [le, List.cons_append, unle, ih (k / 256) hk]
    have : (UInt8.ofNat (k % 256)).toNat = k % 256 := by
      simp
    rw [this]; congr 2; omega

/-- truncation: any strict prefix of an `n`-byte integer is `eof`, never a value. -/
theorem unle_truncated (n k j : Nat) (hj : j < n) : unle n ((le n k).take j) = .error .eof := by
  induction n generalizing k j with
  | zero => omega
  | succ n ih =>
    cases j with
    | zero => simp [le, unle]
    | succ j => simp only [le, List.take_succ_cons, unle, ih (k/256) j (by omega)]

/-- counted list: `u32` count then that many items -/
def encList {α : Type} (enc : α → Bytes) (xs : List α) : Bytes := le 4 xs.length ++ (xs.map enc).flatten

def decN {α : Type} (dec : Dec α) : Nat → Dec (List α)
  | 0, r => .ok ([], r)
  | n+1, r =>
    match dec r with
    | .error e => .error e
    | .ok (a, r') =>
      match decN dec n r' with
      | .error e => .error e
      | .ok (as, r'') => .ok (a :: as, r'')

def decList {α : Type} (dec : Dec α) : Dec (List α) := fun r =>
  match unle 4 r with
  | .error e => .error e
  | .ok (n, r') => decN dec n r'

/-- the round-trip law of an encoder/decoder pair, on the values satisfying `P` -/
def RoundTrip {α : Type} (enc : α → Bytes) (dec : Dec α) (P : α → Prop) : Prop :=
  ∀ a, P a → ∀ r, dec (enc a ++ r) = .ok (a, r)

theorem decN_map {α : Type} (enc : α → Bytes) (dec : Dec α) (P : α → Prop)
    (h : RoundTrip enc dec P) (xs : List α) (hx : ∀ x ∈ xs, P x) (r : Bytes) :
    decN dec xs.length ((xs.map enc).flatten ++ r) = .ok (xs, r) := by
  induction xs with
  | nil => simp [decN]
  | cons x xs ih =>
    simp only [List.map_cons, List.flatten_cons, List.append_assoc, List.length_cons, decN]
    rw [h x (hx x (by simp))]
    simp only
    rw [ih (fun y hy => hx y (List.mem_cons_of_mem _ hy))]

theorem roundTrip_list {α : Type} (enc : α → Bytes) (dec : Dec α) (P : α → Prop)
    (h : RoundTrip enc dec P) :
    RoundTrip (encList enc) (decList dec) (fun xs => xs.length < 2^32 ∧ ∀ x ∈ xs, P x) := by
  intro xs ⟨hl, hx⟩ r
  unfold encList decList
  rw [List.append_assoc, unle_le 4 xs.length (by simpa using hl)]
  exact decN_map enc dec P h xs hx r

/-- a BAI/CSI chunk: two u64 virtual positions -/
structure Chunk where
  s : Nat
  e : Nat

def encChunk (c : Chunk) : Bytes := le 8 c.s ++ le 8 c.e
def decChunk : Dec Chunk := fun r =>
  match unle 8 r with
  | .error e => .error e
  | .ok (s, r') => match unle 8 r' with
    | .error e => .error e
    | .ok (e, r'') => .ok (⟨s, e⟩, r'')

theorem roundTrip_chunk : RoundTrip encChunk decChunk (fun c => c.s < 2^64 ∧ c.e < 2^64) := by
  intro c ⟨hs, he⟩ r
  unfold encChunk decChunk
  rw [List.append_assoc, unle_le 8 c.s (by simpa using hs)]
  simp only
  rw [unle_le 8 c.e (by simpa using he)]

/-- composed: a bin's chunk list round-trips -/
theorem roundTrip_chunks :
    RoundTrip (encList encChunk) (decList decChunk)
      (fun cs => cs.length < 2^32 ∧ ∀ c ∈ cs, c.s < 2^64 ∧ c.e < 2^64) :=
  roundTrip_list encChunk decChunk _ roundTrip_chunk

#print axioms roundTrip_chunks
#print axioms unle_truncated
end Noodles.Codec
