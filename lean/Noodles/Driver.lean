import Noodles.Basic.Wire
import Noodles.Csi.Driver
namespace Noodles
open Noodles.Wire

def dispatch (line : String) : String :=
  match words line with
  | "c17" :: rest => Csi.handle rest
  | _ => "bad-suite"

end Noodles
