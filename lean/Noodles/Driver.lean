import Noodles.Basic.Wire
import Noodles.Csi.Driver
import Noodles.Bgzf.Driver
namespace Noodles
open Noodles.Wire

def dispatch (line : String) : String :=
  match words line with
  | "c17" :: rest => Csi.handle rest
  | "c01" :: rest => Bgzf.handleC01 rest
  | _ => "bad-suite"

end Noodles
