import Noodles.Basic.Wire
import Noodles.Csi.Driver
import Noodles.Index.Driver
import Noodles.Csi.DriverC04
import Noodles.Fasta.DriverC11
import Noodles.Bgzf.Driver
import Noodles.Bgzf.DriverC01Stored
import Noodles.Bgzf.DriverC02
import Noodles.Bgzf.DriverC02Indexed
import Noodles.Bgzf.DriverC03
import Noodles.Bgzf.DriverC03Trunc
import Noodles.Cram.DriverC19
import Noodles.Bcf.DriverC10
import Noodles.Bcf.DriverC10Record
import Noodles.Gff.DriverC18
import Noodles.Trunc.DriverC13
import Noodles.Trunc.DriverC13More
import Noodles.Bgzf.DriverC13Seek
import Noodles.Bam.DriverC05
import Noodles.Bam.DriverC05Reenc
import Noodles.Bam.DriverC05Fast
import Noodles.Bgzf.DriverC14
import Noodles.Io.DriverC14More
import Noodles.Io.DriverC14Once
import Noodles.Vcf.DriverC09
import Noodles.Vcf.DriverC09Header
import Noodles.Vcf.DriverC09LazyAny
import Noodles.Sam.DriverC06
import Noodles.Sam.DriverC06File
import Noodles.Sam.DriverC06Lazy
import Noodles.Util.DriverC20
import Noodles.Util.DriverC20More
import Noodles.Io.DriverC12
import Noodles.Io.DriverC12More
import Noodles.Io.DriverC12Comp
import Noodles.Bgzf.DriverC16
import Noodles.Cram.DriverC08
import Noodles.Cram.DriverC07
import Noodles.Hostile.Driver
import Noodles.Csi.DriverC17Reach
namespace Noodles
open Noodles.Wire

def dispatch (line : String) : String :=
  match words line with
  | "c17" :: "reach" :: rest => Csi.Reach.handle rest
  | "c17" :: rest => (Index.handleIndex rest).getD (Csi.handle rest)
  | "c04" :: rest => Csi.handleC04 rest
  | "c01" :: rest => (Bgzf.StoredDrv.handle? rest).getD (Bgzf.handleC01 rest)
  | "c02" :: rest => (Bgzf.IR.handle? rest).getD (Bgzf.RM.handleC02 rest)
  | "c03" :: rest => (MtTrunc.handle? rest).getD (MtModel.handleC03 rest)
  | "c11" :: rest => Fasta.handleC11 rest
  | "c19" :: rest => Cram.Index.handleC19 rest
  | "c10" :: rest => Bcf.handleC10X rest
  | "c18" :: rest => Gff.Driver.handleC18 rest
  | "c13" :: rest => ((Trunc.More.handle? rest) <|> (Bgzf.SC.handle? rest)).getD (Trunc.handleC13 rest)
  | "c05" :: "fast" :: rest => Bam.DriverFast.handle rest
  | "c05" :: "re" :: rest => Bam.DriverReenc.handle rest
  | "c05" :: rest => Bam.Driver.handle rest
  | "c14" :: rest => (WP.Once.Driver.handle? rest <|> WP.Driver.handle? rest).getD (Bgzf.SM.handleC14 rest)
  | "c09" :: rest => ((Vcf.DriverHeader.handle? rest).orElse fun _ => Vcf.DriverLazyAny.handle? rest).getD (Vcf.Driver.handle rest)
  | "c06" :: rest => (Sam.LazyFile.Drv.handle? rest <|> Sam.File.Drv.handle? rest).getD (Sam.Drv.handleC06 rest)
  | "c20" :: rest => (Util.DriverMore.handle? rest).getD (Util.handleC20 rest)
  | "c12" :: "comp" :: rest => IO.Comp.handleC12Comp rest
  | "c12" :: rest => IO.handleC12All rest
  | "c16" :: rest => Bgzf.Async.handleC16 rest
  | "c08" :: rest => Cram.DriverC08.handle rest
  | "c07" :: rest => Cram.Drv.handleC07 rest
  | "c15" :: rest => Hostile.handleC15 rest
  | _ => "bad-suite"

end Noodles
